/-
Driver, part 4: `sl` records (stratum "slices").  Every operation is re-executed on the slice-level model
`Model/Slices` (the definitions `Lemmas/Slices` proves to refine the plain-list reading) and compared with
what the guarded hook `VerifListStorage` showed: contents, lengths, capacities, which lists live in one array.
When an append reallocates, the observed new capacity is adopted as the growth policy's answer.
-/
import Anytype.Driver.Exec
namespace Anytype.Driver
open Anytype Std Slices

structure ObsCell where
  arr : Option Nat
  len : Nat
  cap : Nat
  vals : List Int

/-- a nil element (the padding of a tree-form write) is carried as this value; the elements the stratum stores are 0 … 99 -/
def nilElem : Int := -1000000007

def parseIntTok (t : String) : Option Int :=
  if t == "n" then some nilElem
  else if t.startsWith "-" then (t.drop 1).toString.toNat?.map (fun n => -(n : Int)) else t.toNat?.map (fun n => (n : Int))

def parseInts (t : String) : Option (List Int) :=
  if t.isEmpty then some [] else (t.splitOn ",").mapM parseIntTok

def parseNats (t : String) : Option (List Nat) :=
  if t.isEmpty then some [] else (t.splitOn ",").mapM (·.toNat?)

def parseObsCell (t : String) : Option ObsCell :=
  match t.splitOn ":" with
  | [a, l, c, vs] =>
    match l.toNat?, c.toNat?, parseInts vs with
    | some l, some c, some vs => some ⟨if a == "-" then none else a.toNat?, l, c, vs⟩
    | _, _, _ => none
  | _ => none

def parseSnap (t : String) : Option (List ObsCell) :=
  if t.isEmpty then some [] else (t.splitOn ";").mapM parseObsCell

def parseSlOp (t : String) : Option (Op Int) :=
  match t.splitOn " " with
  | ["newList", vs] => (parseInts vs).map .newList
  | ["newListOf", v, n] => match parseIntTok v, n.toNat? with
    | some v, some n => some (.newListOf v n) | _, _ => none
  | ["newListFrom", vs] => (parseInts vs).map .newListFrom
  | ["add", c, vs] => match c.toNat?, parseInts vs with
    | some c, some vs => some (.add c vs) | _, _ => none
  | ["insert", c, i, v] => match c.toNat?, i.toNat?, parseIntTok v with
    | some c, some i, some v => some (.insert c i v) | _, _, _ => none
  | ["replace", c, i, v] => match c.toNat?, i.toNat?, parseIntTok v with
    | some c, some i, some v => some (.replace c i v) | _, _, _ => none
  | ["delete", c, is] => match c.toNat?, parseNats is with
    | some c, some is => some (.delete c is) | _, _ => none
  | ["pop", c] => c.toNat?.map .pop
  | ["clear", c] => c.toNat?.map .clear
  | ["concat", c, d] => match c.toNat?, d.toNat? with
    | some c, some d => some (.concat c d) | _, _ => none
  | ["subList", c, a, b] => match c.toNat?, a.toNat?, b.toNat? with
    | some c, some a, some b => some (.subList c a b) | _, _, _ => none
  | ["reverse", c] => c.toNat?.map .reverse
  | ["sort", c] => c.toNat?.map .sort
  | ["clone", c] => c.toNat?.map .clone
  | _ => none

def outcomeName : Outcome → String
  | .done => "ok" | .made _ => "made" | .panic => "panic"

def sortInts (xs : List Int) : List Int := xs.mergeSort (fun a b => decide (a ≤ b))

/-- the tree-form writes of a list at a leaf go through the methods (`SetTF("#i", v)`: `Replace(i, v)` inside the list, else
`i - Count` times `Add(nil)` and `Add(v)`; `UnsetTF("#i")`: `Delete(i)` — `TreeFormGenEq` proves the model's `TF.setL`/`unsetL`
equal to that, and `C11_step_shape_list_pad` gives the padded shape `items ++ replicate (i - n) nil ++ [v]`): here they are expanded
into the corresponding storage operation -/
def expandTF (cells : List Slice) (t : String) : Option (Op Int) :=
  match t.splitOn " " with
  | ["settf", c, i, v] => match c.toNat?, i.toNat?, parseIntTok v with
    | some c, some i, some v => some (leafWrite nilElem ⟨[], cells⟩ c i v)
    | _, _, _ => none
  | ["subList", c, a, b] =>
    -- `SubList(start, end)`: `end <= 0` is counted from the end of the list (`Count + end`); an end beyond the count or below
    -- `-Count`, a start above the end or below zero panic (the normalisation `L.subList` models and `C05_subList_spec` states)
    match c.toNat?, parseIntTok a, parseIntTok b with
    | some c, some a, some b =>
      let len : Int := match cells[c]? with | some s => (s.len : Int) | none => 0
      let panicOp : Op Int := .subList c 1 0
      if b > len || b < -len then some panicOp
      else
        let e := if b ≤ 0 then len + b else b
        if a > e || a < 0 then some panicOp else some (.subList c a.toNat e.toNat)
    | _, _, _ => none
  | ["unsettf", c, i] => match c.toNat?, i.toNat? with
    | some c, some i => some (leafUnset c i) | _, _ => none
  | _ => parseSlOp t

def execSl (opText outcome snap : String) : M Unit := do
  let some op := expandTF (← get).slCells opText | fail s!"protocol: bad sl operation {opText}"
  let some obs := parseSnap snap | fail s!"protocol: bad sl snapshot {snap}"
  let st ← get
  let σ : SHeap Int := ⟨st.slMem, st.slCells⟩
  -- the list whose storage may have been reallocated: the receiver, or the list the operation creates
  let affected := match op.tgt with | some c => c | none => σ.cells.length
  let g := match obs[affected]? with | some o => o.cap | none => 0
  let cfg : Cfg Int := ⟨0, fun _ _ => g⟩
  let r := step cfg sortInts σ op
  let σ' := r.1
  if outcomeName r.2 != outcome then
    fail s!"sl {opText}: model outcome {outcomeName r.2}, observed {outcome}"
  if σ'.cells.length != obs.length then
    fail s!"sl {opText}: model has {σ'.cells.length} lists, observed {obs.length}"
  let mut o2m := st.slO2M
  let mut m2o := st.slM2O
  let mut notes : List String := []
  let mut k := 0
  for (s, o) in σ'.cells.zip obs do
    let v := view σ'.mem s
    if s.len != o.len || v != o.vals then
      fail s!"sl {opText}: list {k} holds {v} in the model, observed {o.vals}"
    let c := cap σ'.mem s
    if c != o.cap then
      notes := s!"model: storage: after {opText} list {k} has capacity {c} in the model, observed {o.cap}" :: notes
    else if c > 0 then
      match o.arr with
      | none => notes := s!"model: storage: list {k} has no array id although its capacity is {o.cap}" :: notes
      | some a =>
        match o2m[a]?, m2o[s.arr]? with
        | some ma, _ =>
          if ma != s.arr then
            notes := s!"model: storage: after {opText} list {k} lives in observed array {a}, which is another array in the model (model array {s.arr}, bound {ma}): an array is shared or was not reallocated as the model does" :: notes
        | none, some oa =>
          notes := s!"model: storage: after {opText} list {k} moved to a new array (observed {a}) where the model keeps array {s.arr} (known as observed {oa})" :: notes
        | none, none =>
          o2m := o2m.insert a s.arr
          m2o := m2o.insert s.arr a
    k := k + 1
  -- SPEC (implementation side): two live lists with capacity share one backing array — the precondition of every
  -- aliasing defect of the F5 family; reported softly here, the writes that follow in the case make it observable
  let arrs := obs.filterMap (fun o => if o.cap > 0 then o.arr else none)
  if arrs.eraseDups.length != arrs.length then
    notes := s!"model: storage: after {opText} two lists share one backing array in the implementation {arrs}" :: notes
  set { st with slMem := σ'.mem, slCells := σ'.cells, slO2M := o2m, slM2O := m2o, notes := notes.take 1 ++ st.notes }

end Anytype.Driver
