/-
Driver, part 1: the wire format (see harness/wire.go).  Not part of any proof.
-/
import Anytype.Spec.Json
import Std.Data.HashMap
namespace Anytype.Driver
open Anytype

abbrev Tok := String

def hexVal? (c : Char) : Option Nat :=
  if '0' ≤ c ∧ c ≤ '9' then some (c.toNat - 48)
  else if 'a' ≤ c ∧ c ≤ 'f' then some (c.toNat - 87)
  else if 'A' ≤ c ∧ c ≤ 'F' then some (c.toNat - 55)
  else none

partial def hexToBytesAux : List Char → List UInt8 → Option (List UInt8)
  | [], acc => some acc.reverse
  | a :: b :: t, acc =>
    match hexVal? a, hexVal? b with
    | some x, some y => hexToBytesAux t ((x * 16 + y).toUInt8 :: acc)
    | _, _ => none
  | _, _ => none

def hexToBytes (s : String) : Option (List UInt8) := hexToBytesAux s.toList []

def hexToNat (s : String) : Option Nat :=
  s.toList.foldl (fun acc c => match acc, hexVal? c with | some n, some d => some (n * 16 + d) | _, _ => none) (some 0)

def bytesToStr (bs : List UInt8) : Option Str :=
  let items := decodeAll bs
  if items.all Option.isSome then some (items.filterMap id) else none

def hexToStr (s : String) : Option Str := (hexToBytes s).bind bytesToStr

def hexDigitChar (n : Nat) : Char := if n < 10 then Char.ofNat (48 + n) else Char.ofNat (87 + n)

def bytesToHex (bs : List UInt8) : String :=
  String.ofList (bs.flatMap fun b => [hexDigitChar (b.toNat / 16), hexDigitChar (b.toNat % 16)])

def strToHex (s : Str) : String := bytesToHex (encode s)

def natToHexPad (n : Nat) (width : Nat) : String :=
  let ds := (Nat.toDigits 16 n)
  String.ofList (List.replicate (width - ds.length) '0' ++ ds)

def floatTok (f : F64) : String :=
  if f.isNaN then "d7ff8000000000001" else "d" ++ natToHexPad f.bits.toNat 16

def intTok (i : Int) : String := "i" ++ String.ofList (itoa i)
def boolTok (b : Bool) : String := if b then "t" else "f"
def strTok (s : Str) : String := "s" ++ strToHex s
def kindTok (k : Kind) : String := "k" ++ toString k.toNat

def parseInt? (s : String) : Option Int :=
  match s.toList with
  | '-' :: t => (String.ofList t).toNat?.map (fun n => -(n : Int))
  | _ => s.toNat?.map (fun n => (n : Int))

def splitTokens (s : String) : List Tok := (s.splitOn " ").filter (· ≠ "")

/-- model-side token: a literal, or a container reference to be unified with a handle -/
inductive MTok
  | lit (s : String)
  | ref (isObj : Bool) (r : Ref)
  deriving Repr, Inhabited

def valTok : Val → MTok
  | .nil => .lit "n"
  | .bool b => .lit (boolTok b)
  | .int i => .lit (intTok i)
  | .float f => .lit (floatTok f)
  | .str s => .lit (strTok s)
  | .list r => .ref false r
  | .obj r => .ref true r

/-! ### pure trees -/

partial def jvalToks : JVal → List Tok
  | .null => ["n"]
  | .bool b => [boolTok b]
  | .int i => [intTok i]
  | .float f => [floatTok f]
  | .str s => [strTok s]
  | .list xs => ["["] ++ xs.flatMap jvalToks ++ ["]"]
  | .obj kvs => ["{"] ++ kvs.flatMap (fun kv => ("k" ++ strToHex kv.1) :: jvalToks kv.2) ++ ["}"]

def jvalTok (v : JVal) : String := " ".intercalate (jvalToks v)

/-- order on keys = bytewise order of the UTF-8 encodings = code point order -/
def keyLe (a b : Str) : Bool := L.strLe a b

partial def canon : JVal → JVal
  | .list xs => .list (xs.map canon)
  | .obj kvs => .obj ((kvs.map (fun kv => (kv.1, canon kv.2))).mergeSort (fun a b => keyLe a.1 b.1))
  | v => v

partial def jeq : JVal → JVal → Bool
  | .null, .null => true
  | .bool a, .bool b => a == b
  | .int a, .int b => a == b
  | .float a, .float b => (F64.canonNaN a).bits == (F64.canonNaN b).bits
  | .str a, .str b => a == b
  | .list xs, .list ys => xs.length == ys.length && (xs.zip ys).all (fun p => jeq p.1 p.2)
  | .obj xs, .obj ys => xs.length == ys.length && (xs.zip ys).all (fun p => p.1.1 == p.2.1 && jeq p.1.2 p.2.2)
  | _, _ => false

/-- equality of trees up to the order of object fields -/
def jeqCanon (a b : JVal) : Bool := jeq (canon a) (canon b)

/-- parse a pure tree from tokens -/
partial def parseJVal : List Tok → Option (JVal × List Tok)
  | [] => none
  | t :: rest =>
    if t == "n" then some (.null, rest)
    else if t == "t" then some (.bool true, rest)
    else if t == "f" then some (.bool false, rest)
    else if t == "[" then
      let rec items (ts : List Tok) (acc : List JVal) : Option (JVal × List Tok) :=
        match ts with
        | "]" :: r => some (.list acc.reverse, r)
        | _ => match parseJVal ts with
          | some (v, r) => items r (v :: acc)
          | none => none
      items rest []
    else if t == "{" then
      let rec fields (ts : List Tok) (acc : List (Str × JVal)) : Option (JVal × List Tok) :=
        match ts with
        | "}" :: r => some (.obj acc.reverse, r)
        | k :: r =>
          if k.startsWith "k" then
            match hexToStr (k.drop 1).toString, parseJVal r with
            | some key, some (v, r') => fields r' ((key, v) :: acc)
            | _, _ => none
          else none
        | [] => none
      fields rest []
    else
      match t.toList with
      | 'i' :: d => (parseInt? (String.ofList d)).map (fun i => (.int i, rest))
      | 'd' :: d => (hexToNat (String.ofList d)).map (fun n => (.float ⟨UInt64.ofNat n⟩, rest))
      | 's' :: d => (hexToStr (String.ofList d)).map (fun s => (.str s, rest))
      | _ => none

end Anytype.Driver
