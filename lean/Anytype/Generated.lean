/-
The Lean files generated from the Go source by `vextract` (see /tmp/agents/p10/vextract):
`vextract <repo dir> Anytype/Generated`.  Building this module re-checks that the source still
has the shape the proofs are about.
-/
import Anytype.Generated.Async
import Anytype.Generated.WriteSet
import Anytype.Generated.Api
import Anytype.Generated.ParserGen
import Anytype.Lemmas.ParserGenEq
import Anytype.Generated.ObjectGen
import Anytype.Lemmas.ObjectGenEq
import Anytype.Generated.TreeFormGen
import Anytype.Lemmas.TreeFormGenEq
