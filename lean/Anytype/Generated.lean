/-
The Lean files generated from the Go source by `vextract` (see /tmp/agents/p10/vextract):
`vextract <repo dir> Anytype/Generated`.  Building this module re-checks that the source still
has the shape the proofs are about.
The translated method families (ListGen, ObjectGen, TreeFormGen with their `…GenEq` proofs) are separate
build targets (their generated names overlap); `check` builds the ones that bear on a property.
-/
import Anytype.Generated.Async
import Anytype.Generated.WriteSet
import Anytype.Generated.Api
import Anytype.Generated.ParserGen
import Anytype.Lemmas.ParserGenEq
