#check (vextract_translation_failed : "list_impl.go:495:6: len of a StrVals")
