#check (vextract_translation_failed : "list_impl.go:469:12: unrecognised expression: *ego")
