#check (vextract_translation_failed : "list_impl.go:42:9: unsupported allocation: &list{val: make([]field, 0, len(values))}")
