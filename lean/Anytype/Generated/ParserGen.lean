#check (vextract_translation_failed : "parser.go:217:5: if with an init statement")
