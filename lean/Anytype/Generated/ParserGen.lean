#check (vextract_translation_failed : "parser.go:365:7: unrecognised condition: str == \"\"")
