#check (vextract_translation_failed : "parser.go:546:2: ParseFile: unrecognised statement text := strings.TrimPrefix(string(data), \"\\ufeff\")")
