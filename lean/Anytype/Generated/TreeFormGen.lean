#check (vextract_translation_failed : "anytype.go:428:5: unrecognised expression: float64(float32(val))")
