/-
The executable fuel `h.length + 1` suffices for every acyclic value: along any chain of nested
containers the addresses are valid and pairwise distinct (pigeonhole).
-/
import Anytype.Lemmas.Reify
namespace Anytype
open Heap
namespace Rf

/-- pigeonhole: a duplicate-free list of numbers below `N` has at most `N` elements -/
theorem nodup_length_le : ∀ (N : Nat) (l : List Nat), l.Nodup → (∀ a ∈ l, a < N) → l.length ≤ N := by
  intro N
  induction N with
  | zero =>
    intro l _ hl
    cases l with
    | nil => simp
    | cons a l => exact absurd (hl a (by simp)) (by omega)
  | succ N ih =>
    intro l hnd hl
    have h1 := ih (l.erase N) (hnd.erase N) (fun a ha => by
      have := (hnd.mem_erase_iff).1 ha
      have := hl a this.2
      omega)
    rw [List.length_erase] at h1
    split at h1 <;> omega

/-! ### `isSome` forms -/

theorem reifyList_isSome {n : Nat} {h : Heap} :
    ∀ xs : List Val, (reifyList n h xs).isSome = true ↔ ∀ x ∈ xs, (reify n h x).isSome = true := by
  intro xs
  induction xs with
  | nil => simp [reifyList]
  | cons x xs ih =>
    rw [reifyList]
    cases hx : reify n h x with
    | none => simp [hx]
    | some y =>
      cases hxs : reifyList n h xs with
      | none =>
        rw [hxs] at ih
        simp only [Option.isSome_none, Bool.false_eq_true, false_iff] at ih ⊢
        intro hall
        exact ih (fun z hz => hall z (by simp [hz]))
      | some ys =>
        rw [hxs] at ih
        simp only [Option.isSome_some, true_iff] at ih ⊢
        intro z hz
        rcases List.mem_cons.1 hz with rfl | hz
        · simp [hx]
        · exact ih z hz

theorem reifyFields_isSome {n : Nat} {h : Heap} :
    ∀ kvs : List (Str × Val), (reifyFields n h kvs).isSome = true ↔
      ∀ kv ∈ kvs, (reify n h kv.2).isSome = true := by
  intro kvs
  induction kvs with
  | nil => simp [reifyFields]
  | cons kv kvs ih =>
    obtain ⟨k, x⟩ := kv
    rw [reifyFields]
    cases hx : reify n h x with
    | none => simp [hx]
    | some y =>
      cases hxs : reifyFields n h kvs with
      | none =>
        rw [hxs] at ih
        simp only [Option.isSome_none, Bool.false_eq_true, false_iff] at ih ⊢
        intro hall
        exact ih (fun z hz => hall z (by simp [hz]))
      | some ys =>
        rw [hxs] at ih
        simp only [Option.isSome_some, true_iff] at ih ⊢
        intro z hz
        rcases List.mem_cons.1 hz with rfl | hz
        · simp [hx]
        · exact ih z hz

theorem reify_isSome_mono {h : Heap} {n m : Nat} (hnm : n ≤ m) {v : Val}
    (hv : (reify n h v).isSome = true) : (reify m h v).isSome = true := by
  obtain ⟨t, ht⟩ := Option.isSome_iff_exists.1 hv
  rw [reify_mono hnm ht]; rfl

/-- the container at address `a` reifies with fuel `m` (as a list or as an object) -/
def OKat (m : Nat) (h : Heap) (a : Nat) : Prop :=
  (reify m h (.list ⟨a, 0⟩)).isSome = true ∨ (reify m h (.obj ⟨a, 0⟩)).isSome = true

theorem reify_list_addr (n : Nat) (h : Heap) (r : Ref) :
    reify n h (.list r) = reify n h (.list ⟨r.addr, 0⟩) := by
  cases n <;> simp only [reify]
theorem reify_obj_addr (n : Nat) (h : Heap) (r : Ref) :
    reify n h (.obj r) = reify n h (.obj ⟨r.addr, 0⟩) := by
  cases n <;> simp only [reify]

theorem OKat_mono {h : Heap} {n m : Nat} (hnm : n ≤ m) {a : Nat} (ho : OKat n h a) : OKat m h a := by
  rcases ho with ho | ho
  · exact Or.inl (reify_isSome_mono hnm ho)
  · exact Or.inr (reify_isSome_mono hnm ho)

/-- the core of the argument: `seen` are the (valid, distinct) addresses of the ancestors, none of
which reifies with the fuel at hand -/
theorem reify_bounded (h : Heap) : ∀ (m : Nat) (v : Val) (seen : List Nat),
    (reify m h v).isSome = true → seen.Nodup → (∀ a ∈ seen, a < h.length) →
    (∀ a ∈ seen, ¬ OKat m h a) →
    (reify (h.length + 1 - seen.length) h v).isSome = true := by
  intro m
  induction m using Nat.strongRecOn with
  | _ m ih =>
    intro v seen hv hnd hval hno
    -- reduce to the minimal fuel
    by_cases hmin : ∃ m', m' < m ∧ (reify m' h v).isSome = true
    · obtain ⟨m', hm', hv'⟩ := hmin
      exact ih m' hm' v seen hv' hnd hval (fun a ha ho => hno a ha (OKat_mono (Nat.le_of_lt hm') ho))
    · have hlen : seen.length ≤ h.length := nodup_length_le _ _ hnd hval
      cases v with
      | list r =>
        cases m with
        | zero => simp [reify] at hv
        | succ m₀ =>
          rw [reify] at hv
          split at hv
          · next xs e hc =>
            have hr : r.addr < h.length := (List.getElem?_eq_some_iff.1 hc).1
            have hxs : (reifyList m₀ h xs).isSome = true := by
              cases hq : reifyList m₀ h xs <;> simp [hq] at hv ⊢
            have hself : (reify (m₀ + 1) h (.list ⟨r.addr, 0⟩)).isSome = true := by
              rw [reify]; simp only [hc]
              cases hq : reifyList m₀ h xs <;> simp [hq] at hxs ⊢
            have hnot : r.addr ∉ seen := fun hm => hno _ hm (Or.inl hself)
            have hnd' : (r.addr :: seen).Nodup := List.nodup_cons.2 ⟨hnot, hnd⟩
            have hval' : ∀ a ∈ r.addr :: seen, a < h.length := by
              intro a ha
              rcases List.mem_cons.1 ha with rfl | ha
              · exact hr
              · exact hval a ha
            have hlen' := nodup_length_le _ _ hnd' hval'
            simp only [List.length_cons] at hlen'
            have hno' : ∀ a ∈ r.addr :: seen, ¬ OKat m₀ h a := by
              intro a ha ho
              rcases List.mem_cons.1 ha with rfl | ha
              · rcases ho with ho | ho
                · exact hmin ⟨m₀, Nat.lt_succ_self _, by rw [reify_list_addr]; exact ho⟩
                · cases m₀ with
                  | zero => simp [reify] at ho
                  | succ k => rw [reify] at ho; simp [hc] at ho
              · exact hno a ha (OKat_mono (Nat.le_succ _) ho)
            have hch : ∀ x ∈ xs, (reify (h.length - seen.length) h x).isSome = true := by
              intro x hx
              have := ih m₀ (Nat.lt_succ_self _) x (r.addr :: seen)
                ((reifyList_isSome xs).1 hxs x hx) hnd' hval' hno'
              simp only [List.length_cons] at this
              have e : h.length + 1 - (seen.length + 1) = h.length - seen.length := by omega
              rwa [e] at this
            have e : h.length + 1 - seen.length = (h.length - seen.length) + 1 := by omega
            rw [e, reify]; simp only [hc]
            have := (reifyList_isSome (n := h.length - seen.length) xs).2 hch
            cases hq : reifyList (h.length - seen.length) h xs <;> simp [hq] at this ⊢
          · simp at hv
      | obj r =>
        cases m with
        | zero => simp [reify] at hv
        | succ m₀ =>
          rw [reify] at hv
          split at hv
          · next xs e hc =>
            have hr : r.addr < h.length := (List.getElem?_eq_some_iff.1 hc).1
            have hxs : (reifyFields m₀ h xs).isSome = true := by
              cases hq : reifyFields m₀ h xs <;> simp [hq] at hv ⊢
            have hself : (reify (m₀ + 1) h (.obj ⟨r.addr, 0⟩)).isSome = true := by
              rw [reify]; simp only [hc]
              cases hq : reifyFields m₀ h xs <;> simp [hq] at hxs ⊢
            have hnot : r.addr ∉ seen := fun hm => hno _ hm (Or.inr hself)
            have hnd' : (r.addr :: seen).Nodup := List.nodup_cons.2 ⟨hnot, hnd⟩
            have hval' : ∀ a ∈ r.addr :: seen, a < h.length := by
              intro a ha
              rcases List.mem_cons.1 ha with rfl | ha
              · exact hr
              · exact hval a ha
            have hlen' := nodup_length_le _ _ hnd' hval'
            simp only [List.length_cons] at hlen'
            have hno' : ∀ a ∈ r.addr :: seen, ¬ OKat m₀ h a := by
              intro a ha ho
              rcases List.mem_cons.1 ha with rfl | ha
              · rcases ho with ho | ho
                · cases m₀ with
                  | zero => simp [reify] at ho
                  | succ k => rw [reify] at ho; simp [hc] at ho
                · exact hmin ⟨m₀, Nat.lt_succ_self _, by rw [reify_obj_addr]; exact ho⟩
              · exact hno a ha (OKat_mono (Nat.le_succ _) ho)
            have hch : ∀ kv ∈ xs, (reify (h.length - seen.length) h kv.2).isSome = true := by
              intro x hx
              have := ih m₀ (Nat.lt_succ_self _) x.2 (r.addr :: seen)
                ((reifyFields_isSome xs).1 hxs x hx) hnd' hval' hno'
              simp only [List.length_cons] at this
              have e : h.length + 1 - (seen.length + 1) = h.length - seen.length := by omega
              rwa [e] at this
            have e : h.length + 1 - seen.length = (h.length - seen.length) + 1 := by omega
            rw [e, reify]; simp only [hc]
            have := (reifyFields_isSome (n := h.length - seen.length) xs).2 hch
            cases hq : reifyFields (h.length - seen.length) h xs <;> simp [hq] at this ⊢
          · simp at hv
      | _ => simp [reify]

/-- an acyclic value is reified by the executable fuel -/
theorem reifyF_of_acyclic {h : Heap} {v : Val} (hv : Acyclic h v) : (reifyF h v).isSome = true := by
  obtain ⟨n, hn⟩ := hv
  have := reify_bounded h n v [] hn List.nodup_nil (by simp) (by simp)
  simpa [reifyF] using this

/-- … and to the same tree as with any other sufficient fuel -/
theorem reifyF_eq_of_reify {h : Heap} {v : Val} {n : Nat} {t : JVal} (ht : reify n h v = some t) :
    reifyF h v = some t := by
  have hs := reifyF_of_acyclic ⟨n, by rw [ht]; rfl⟩
  obtain ⟨t', ht'⟩ := Option.isSome_iff_exists.1 hs
  have e1 := reify_mono (Nat.le_max_left n (h.length + 1)) ht
  have e2 := reify_mono (Nat.le_max_right n (h.length + 1)) (show reify (h.length + 1) h v = some t' from ht')
  rw [e1] at e2
  rw [ht']; exact e2.symm

theorem acyclic_iff_reifyF (h : Heap) (v : Val) : Acyclic h v ↔ (reifyF h v).isSome = true :=
  ⟨reifyF_of_acyclic, fun hs => ⟨h.length + 1, hs⟩⟩

/-! ### with sufficient fuel, `reach` is the complete set of reachable containers -/

theorem mem_reachList {n : Nat} {h : Heap} {a : Nat} :
    ∀ xs : List Val, a ∈ reachList n h xs ↔ ∃ x ∈ xs, a ∈ reach n h x := by
  intro xs
  induction xs with
  | nil => simp [reachList]
  | cons x xs ih => rw [reachList, List.mem_append, ih]; simp

/-- if fuel `n` reifies `v`, no amount of fuel reaches more containers than `n` does -/
theorem reach_sub_of_reify {h : Heap} : ∀ (n : Nat) (v : Val), (reify n h v).isSome = true →
    ∀ (m a : Nat), a ∈ reach m h v → a ∈ reach n h v := by
  intro n
  induction n with
  | zero =>
    intro v hv m a ha
    cases v with
    | list r => simp [reify] at hv
    | obj r => simp [reify] at hv
    | _ => cases m <;> simp [reach] at ha
  | succ n ih =>
    intro v hv m a ha
    cases m with
    | zero => simp [reach] at ha
    | succ m =>
      cases v with
      | list r =>
        rw [reify] at hv
        split at hv
        · next xs e hc =>
          have hi : h.items r.addr = xs := by simp [items, hc]
          have hxs : (reifyList n h xs).isSome = true := by
            cases hq : reifyList n h xs <;> simp [hq] at hv ⊢
          rw [reach, hi] at ha ⊢
          rcases List.mem_cons.1 ha with rfl | ha
          · exact List.mem_cons_self
          · obtain ⟨x, hx, hax⟩ := (mem_reachList xs).1 ha
            exact List.mem_cons_of_mem _ ((mem_reachList xs).2
              ⟨x, hx, ih x ((reifyList_isSome xs).1 hxs x hx) m a hax⟩)
        · simp at hv
      | obj r =>
        rw [reify] at hv
        split at hv
        · next xs e hc =>
          have hi : h.fields r.addr = xs := by simp [fields, hc]
          have hxs : (reifyFields n h xs).isSome = true := by
            cases hq : reifyFields n h xs <;> simp [hq] at hv ⊢
          rw [reach, hi] at ha ⊢
          rcases List.mem_cons.1 ha with rfl | ha
          · exact List.mem_cons_self
          · obtain ⟨x, hx, hax⟩ := (mem_reachList _).1 ha
            obtain ⟨kv, hkv, rfl⟩ := List.mem_map.1 hx
            exact List.mem_cons_of_mem _ ((mem_reachList _).2
              ⟨kv.2, hx, ih kv.2 ((reifyFields_isSome xs).1 hxs kv hkv) m a hax⟩)
        · simp at hv
      | _ => simp [reach] at ha

/-- for an acyclic value `reachF` lists every container reachable with any fuel -/
theorem reachF_complete {h : Heap} {v : Val} (hv : Acyclic h v) (m a : Nat)
    (ha : a ∈ reach m h v) : a ∈ reachF h v :=
  reach_sub_of_reify (h.length + 1) v (reifyF_of_acyclic hv) m a ha

end Rf
end Anytype
