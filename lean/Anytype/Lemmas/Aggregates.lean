/-
Lemmas for C18: the aggregate loops of list_impl.go equal reference folds; 64-bit wrap-around
arithmetic; minimum / maximum folds over an abstract strict order; the order facts about
`F64.ltGo` that instantiate them.
-/
import Anytype.Model.Aggregates
namespace Anytype

/-! ### 64-bit wrap-around -/

theorem wrap64_emod (a : Int) : wrap64 a % 2^64 = a % 2^64 := by
  unfold wrap64; simp only []; omega

theorem wrap64_congr {a b : Int} (h : a % 2^64 = b % 2^64) : wrap64 a = wrap64 b := by
  unfold wrap64; simp only [h]

theorem wrap64_inRange (a : Int) : InRange (wrap64 a) := by
  unfold wrap64 InRange; simp only []; omega

theorem wrap64_of_inRange {a : Int} (h : InRange a) : wrap64 a = a := by
  unfold InRange at h; unfold wrap64; simp only []; omega

theorem wrap64_add_left (a b : Int) : wrap64 (wrap64 a + b) = wrap64 (a + b) := by
  apply wrap64_congr
  rw [Int.add_emod, wrap64_emod, ← Int.add_emod]

theorem wrap64_mul_left (a b : Int) : wrap64 (wrap64 a * b) = wrap64 (a * b) := by
  apply wrap64_congr
  rw [Int.mul_emod, wrap64_emod, ← Int.mul_emod]

theorem foldl_wrap_add (xs : List Int) (s : Int) :
    xs.foldl (fun r v => wrap64 (r + v)) (wrap64 s) = wrap64 (xs.foldl (· + ·) s) := by
  induction xs generalizing s with
  | nil => rfl
  | cons x xs ih => simp only [List.foldl_cons, wrap64_add_left, ih]

theorem foldl_wrap_mul (xs : List Int) (s : Int) :
    xs.foldl (fun r v => wrap64 (r * v)) (wrap64 s) = wrap64 (xs.foldl (· * ·) s) := by
  induction xs generalizing s with
  | nil => rfl
  | cons x xs ih => simp only [List.foldl_cons, wrap64_mul_left, ih]

/-! ### views of the element list -/

section Generic
variable {F : Type} [FloatArith F]
open FloatArith

/-- the element taken as a float64 (`float64(val)` for ints); `none` for non-numeric kinds -/
def Num.toF : Num F → Option F
  | .int i => some (ofInt i)
  | .float f => some f
  | .other => none

def Num.toInt : Num F → Option Int
  | .int i => some i
  | _ => none

def Num.isNum : Num F → Bool
  | .other => false
  | _ => true

/-- the int elements, in order -/
def ints (l : List (Num F)) : List Int := l.filterMap Num.toInt

/-- the numeric elements as float64, in order -/
def floats (l : List (Num F)) : List F := l.filterMap Num.toF

@[simp] theorem floats_nil : floats ([] : List (Num F)) = [] := rfl
@[simp] theorem floats_cons_int (i : Int) (l : List (Num F)) :
    floats (.int i :: l) = ofInt i :: floats l := rfl
@[simp] theorem floats_cons_float (f : F) (l : List (Num F)) :
    floats (.float f :: l) = f :: floats l := rfl
@[simp] theorem floats_cons_other (l : List (Num F)) : floats (.other :: l) = floats l := rfl
omit [FloatArith F] in
@[simp] theorem ints_nil : ints ([] : List (Num F)) = [] := rfl
omit [FloatArith F] in
@[simp] theorem ints_cons_int (i : Int) (l : List (Num F)) : ints (.int i :: l) = i :: ints l := rfl
omit [FloatArith F] in
@[simp] theorem ints_cons_float (f : F) (l : List (Num F)) : ints (.float f :: l) = ints l := rfl
omit [FloatArith F] in
@[simp] theorem ints_cons_other (l : List (Num F)) : ints (.other :: l) = ints l := rfl

namespace Agg

theorem sumLoop_eq (l : List (Num F)) (r : F) : sumLoop l r = (floats l).foldl add r := by
  induction l generalizing r with
  | nil => rfl
  | cons x l ih => cases x <;> simp [sumLoop, ih]

theorem prodLoop_eq (l : List (Num F)) (r : F) : prodLoop l r = (floats l).foldl mul r := by
  induction l generalizing r with
  | nil => rfl
  | cons x l ih => cases x <;> simp [prodLoop, ih]

omit [FloatArith F] in
theorem intSumLoop_eq (l : List (Num F)) (r : Int) :
    intSumLoop l r = (ints l).foldl (fun r v => wrap64 (r + v)) r := by
  induction l generalizing r with
  | nil => rfl
  | cons x l ih => cases x <;> simp [intSumLoop, ih]

omit [FloatArith F] in
theorem intProdLoop_eq (l : List (Num F)) (r : Int) :
    intProdLoop l r = (ints l).foldl (fun r v => wrap64 (r * v)) r := by
  induction l generalizing r with
  | nil => rfl
  | cons x l ih => cases x <;> simp [intProdLoop, ih]

omit [FloatArith F] in
theorem intMinLoop_eq (l : List (Num F)) (m : Int) (p : Bool) :
    intMinLoop l m p
      = ((ints l).foldl (fun m v => if v < m then v else m) m, p || !(ints l).isEmpty) := by
  induction l generalizing m p with
  | nil => simp [intMinLoop]
  | cons x l ih => cases x <;> simp [intMinLoop, ih]

omit [FloatArith F] in
theorem intMaxLoop_eq (l : List (Num F)) (m : Int) (p : Bool) :
    intMaxLoop l m p
      = ((ints l).foldl (fun m v => if v > m then v else m) m, p || !(ints l).isEmpty) := by
  induction l generalizing m p with
  | nil => simp [intMaxLoop]
  | cons x l ih => cases x <;> simp [intMaxLoop, ih]

theorem minLoop_none (l : List (Num F)) (m : F) (p : Bool) (h : ∃ x ∈ l, Num.isNum x = false) :
    minLoop l m p = none := by
  induction l generalizing m p with
  | nil => simp at h
  | cons x l ih =>
    cases x with
    | other => rfl
    | int i => simp only [minLoop]; apply ih; simpa [Num.isNum] using h
    | float f => simp only [minLoop]; apply ih; simpa [Num.isNum] using h

theorem maxLoop_none (l : List (Num F)) (m : F) (p : Bool) (h : ∃ x ∈ l, Num.isNum x = false) :
    maxLoop l m p = none := by
  induction l generalizing m p with
  | nil => simp at h
  | cons x l ih =>
    cases x with
    | other => rfl
    | int i => simp only [maxLoop]; apply ih; simpa [Num.isNum] using h
    | float f => simp only [maxLoop]; apply ih; simpa [Num.isNum] using h

theorem minLoop_some (l : List (Num F)) (m : F) (p : Bool) (h : ∀ x ∈ l, Num.isNum x = true) :
    minLoop l m p
      = some ((floats l).foldl (fun m x => if lt x m then x else m) m, p || !l.isEmpty) := by
  induction l generalizing m p with
  | nil => simp [minLoop]
  | cons x l ih =>
    have hl : ∀ y ∈ l, Num.isNum y = true := fun y hy => h y (List.mem_cons_of_mem _ hy)
    cases x with
    | other => have := h .other (by simp); simp [Num.isNum] at this
    | int i => simp [minLoop, ih _ _ hl]
    | float f => simp [minLoop, ih _ _ hl]

theorem maxLoop_some (l : List (Num F)) (m : F) (p : Bool) (h : ∀ x ∈ l, Num.isNum x = true) :
    maxLoop l m p
      = some ((floats l).foldl (fun m x => if lt m x then x else m) m, p || !l.isEmpty) := by
  induction l generalizing m p with
  | nil => simp [maxLoop]
  | cons x l ih =>
    have hl : ∀ y ∈ l, Num.isNum y = true := fun y hy => h y (List.mem_cons_of_mem _ hy)
    cases x with
    | other => have := h .other (by simp); simp [Num.isNum] at this
    | int i => simp [maxLoop, ih _ _ hl]
    | float f => simp [maxLoop, ih _ _ hl]

end Agg
end Generic

/-! ### minimum folds -/

theorem intMinFold_spec (xs : List Int) (m0 : Int) :
    (xs.foldl (fun m v => if v < m then v else m) m0 = m0 ∨
      xs.foldl (fun m v => if v < m then v else m) m0 ∈ xs) ∧
    xs.foldl (fun m v => if v < m then v else m) m0 ≤ m0 ∧
    ∀ x ∈ xs, xs.foldl (fun m v => if v < m then v else m) m0 ≤ x := by
  induction xs generalizing m0 with
  | nil => simp
  | cons x xs ih =>
    simp only [List.foldl_cons, List.mem_cons]
    by_cases hlt : x < m0
    · simp only [if_pos hlt]
      obtain ⟨h1, h2, h3⟩ := ih x
      generalize xs.foldl (fun m v => if v < m then v else m) x = r at h1 h2 h3
      refine ⟨?_, by omega, ?_⟩
      · rcases h1 with h1 | h1
        · exact Or.inr (Or.inl h1)
        · exact Or.inr (Or.inr h1)
      · intro y hy
        rcases hy with rfl | hy
        · exact h2
        · exact h3 y hy
    · simp only [if_neg hlt]
      obtain ⟨h1, h2, h3⟩ := ih m0
      generalize xs.foldl (fun m v => if v < m then v else m) m0 = r at h1 h2 h3
      refine ⟨?_, h2, ?_⟩
      · rcases h1 with h1 | h1
        · exact Or.inl h1
        · exact Or.inr (Or.inr h1)
      · intro y hy
        rcases hy with rfl | hy
        · omega
        · exact h3 y hy

theorem intMaxFold_spec (xs : List Int) (m0 : Int) :
    (xs.foldl (fun m v => if v > m then v else m) m0 = m0 ∨
      xs.foldl (fun m v => if v > m then v else m) m0 ∈ xs) ∧
    m0 ≤ xs.foldl (fun m v => if v > m then v else m) m0 ∧
    ∀ x ∈ xs, x ≤ xs.foldl (fun m v => if v > m then v else m) m0 := by
  induction xs generalizing m0 with
  | nil => simp
  | cons x xs ih =>
    simp only [List.foldl_cons, List.mem_cons]
    by_cases hlt : x > m0
    · simp only [if_pos hlt]
      obtain ⟨h1, h2, h3⟩ := ih x
      generalize xs.foldl (fun m v => if v > m then v else m) x = r at h1 h2 h3
      refine ⟨?_, by omega, ?_⟩
      · rcases h1 with h1 | h1
        · exact Or.inr (Or.inl h1)
        · exact Or.inr (Or.inr h1)
      · intro y hy
        rcases hy with rfl | hy
        · exact h2
        · exact h3 y hy
    · simp only [if_neg hlt]
      obtain ⟨h1, h2, h3⟩ := ih m0
      generalize xs.foldl (fun m v => if v > m then v else m) m0 = r at h1 h2 h3
      refine ⟨?_, h2, ?_⟩
      · rcases h1 with h1 | h1
        · exact Or.inl h1
        · exact Or.inr (Or.inr h1)
      · intro y hy
        rcases hy with rfl | hy
        · omega
        · exact h3 y hy

/-- the fold `m := if lt x m then x else m` over a strict partial order on the values involved:
the result is the start value or a member strictly below it, and no member is below the result -/
theorem minFold_spec {α : Type} (lt : α → α → Bool) (S : α → Prop)
    (irrefl : ∀ x, S x → lt x x = false)
    (trans : ∀ x y z, S x → S y → S z → lt x y = true → lt y z = true → lt x z = true)
    (xs : List α) (m0 : α) (hm0 : S m0) (hxs : ∀ x ∈ xs, S x) :
    (xs.foldl (fun m x => if lt x m then x else m) m0 = m0 ∨
      (xs.foldl (fun m x => if lt x m then x else m) m0 ∈ xs ∧
        lt (xs.foldl (fun m x => if lt x m then x else m) m0) m0 = true)) ∧
    ∀ x ∈ xs, lt x (xs.foldl (fun m x => if lt x m then x else m) m0) = false := by
  induction xs generalizing m0 with
  | nil => simp
  | cons x xs ih =>
    have hx : S x := hxs x (by simp)
    have hxs' : ∀ y ∈ xs, S y := fun y hy => hxs y (List.mem_cons_of_mem _ hy)
    simp only [List.foldl_cons, List.mem_cons]
    cases hlt : lt x m0 with
    | true =>
      simp only [if_true]
      obtain ⟨h1, h3⟩ := ih x hx hxs'
      generalize xs.foldl (fun m x => if lt x m then x else m) x = r at h1 h3
      refine ⟨?_, ?_⟩
      · rcases h1 with h1 | ⟨h1, h2⟩
        · subst h1; exact Or.inr ⟨Or.inl rfl, hlt⟩
        · exact Or.inr ⟨Or.inr h1, trans r x m0 (hxs' r h1) hx hm0 h2 hlt⟩
      · intro y hy
        rcases hy with rfl | hy
        · rcases h1 with h1 | ⟨h1, h2⟩
          · subst h1; exact irrefl _ hx
          · cases hc : lt y r with
            | false => rfl
            | true =>
              have := trans r y r (hxs' r h1) hx (hxs' r h1) h2 hc
              rw [irrefl r (hxs' r h1)] at this; cases this
        · exact h3 y hy
    | false =>
      simp only [Bool.false_eq_true, if_false]
      obtain ⟨h1, h3⟩ := ih m0 hm0 hxs'
      generalize xs.foldl (fun m x => if lt x m then x else m) m0 = r at h1 h3
      refine ⟨?_, ?_⟩
      · rcases h1 with h1 | ⟨h1, h2⟩
        · exact Or.inl h1
        · exact Or.inr ⟨Or.inr h1, h2⟩
      · intro y hy
        rcases hy with rfl | hy
        · rcases h1 with h1 | ⟨h1, h2⟩
          · subst h1; exact hlt
          · cases hc : lt y r with
            | false => rfl
            | true =>
              have := trans y r m0 hx (hxs' r h1) hm0 hc h2
              rw [hlt] at this; cases this
        · exact h3 y hy

section Specs
variable {F : Type} [FloatArith F]
open FloatArith

theorem floats_allNum (l : List (Num F)) (hnum : ∀ x ∈ l, x.isNum = true) :
    (floats l).map some = l.map Num.toF ∧ (floats l).length = l.length := by
  induction l with
  | nil => exact ⟨rfl, rfl⟩
  | cons x l ih =>
    obtain ⟨h1, h2⟩ := ih (fun y hy => hnum y (List.mem_cons_of_mem _ hy))
    cases x with
    | other => have := hnum .other (by simp); simp [Num.isNum] at this
    | int i => simp [Num.toF, h1, h2]
    | float f => simp [Num.toF, h1, h2]

namespace Agg

omit [FloatArith F] in
theorem intMin_spec (l : List (Num F)) (hne : ints l ≠ []) (hr : ∀ i ∈ ints l, InRange i) :
    intMin l ∈ ints l ∧ ∀ i ∈ ints l, intMin l ≤ i := by
  unfold intMin
  rw [intMinLoop_eq]
  have hp : (false || !(ints l).isEmpty) = true := by
    cases hl : ints l with
    | nil => exact absurd hl hne
    | cons _ _ => rfl
  simp only [hp, if_true]
  obtain ⟨h1, _, h3⟩ := intMinFold_spec (ints l) (2 ^ 63 - 1)
  refine ⟨?_, h3⟩
  rcases h1 with h1 | h1
  · -- the start value MaxInt survives only if it is itself an element
    obtain ⟨i, hi⟩ := List.exists_mem_of_ne_nil _ hne
    have hle := h3 i hi
    have hir := hr i hi
    unfold InRange at hir
    rw [h1] at hle ⊢
    have : i = 2 ^ 63 - 1 := by omega
    rw [← this]; exact hi
  · exact h1

omit [FloatArith F] in
theorem intMax_spec (l : List (Num F)) (hne : ints l ≠ []) (hr : ∀ i ∈ ints l, InRange i) :
    intMax l ∈ ints l ∧ ∀ i ∈ ints l, i ≤ intMax l := by
  unfold intMax
  rw [intMaxLoop_eq]
  have hp : (false || !(ints l).isEmpty) = true := by
    cases hl : ints l with
    | nil => exact absurd hl hne
    | cons _ _ => rfl
  simp only [hp, if_true]
  obtain ⟨h1, _, h3⟩ := intMaxFold_spec (ints l) (-2 ^ 63)
  refine ⟨?_, h3⟩
  rcases h1 with h1 | h1
  · obtain ⟨i, hi⟩ := List.exists_mem_of_ne_nil _ hne
    have hle := h3 i hi
    have hir := hr i hi
    unfold InRange at hir
    rw [h1] at hle ⊢
    have : i = -2 ^ 63 := by omega
    rw [← this]; exact hi
  · exact h1

theorem min_spec (l : List (Num F)) (hne : l ≠ []) (hnum : ∀ x ∈ l, x.isNum = true)
    (irrefl : ∀ x ∈ floats l, lt x x = false)
    (trans : ∀ x ∈ floats l, ∀ y ∈ floats l, ∀ z ∈ floats l,
      lt x y = true → lt y z = true → lt x z = true)
    (hle : ∀ x ∈ floats l, lt x maxFinite = true ∨ x = maxFinite) :
    ∃ m, min l = some m ∧ m ∈ floats l ∧ ∀ x ∈ floats l, lt x m = false := by
  unfold min
  rw [minLoop_some l _ _ hnum]
  have hp : (false || !l.isEmpty) = true := by
    cases l with
    | nil => exact absurd rfl hne
    | cons _ _ => rfl
  simp only [hp, if_true]
  have hlen := (floats_allNum l hnum).2
  cases hfl : floats l with
  | nil =>
    rw [hfl] at hlen
    cases l with
    | nil => exact absurd rfl hne
    | cons _ _ => simp at hlen
  | cons f0 fl =>
    rw [hfl] at irrefl trans hle
    have hstart : (if lt f0 maxFinite = true then f0 else maxFinite) = f0 := by
      rcases hle f0 (by simp) with h | h
      · simp [h]
      · rw [← h]; simp
    simp only [List.foldl_cons, hstart]
    obtain ⟨h1, h3⟩ := minFold_spec lt (· ∈ f0 :: fl) irrefl
      (fun x y z hx hy hz => trans x hx y hy z hz) fl f0 (by simp)
      (fun x hx => List.mem_cons_of_mem _ hx)
    generalize fl.foldl (fun m x => if lt x m = true then x else m) f0 = r at h1 h3
    refine ⟨r, rfl, ?_, ?_⟩
    · rcases h1 with h1 | ⟨h1, _⟩
      · rw [h1]; simp
      · exact List.mem_cons_of_mem _ h1
    · intro x hx
      rcases List.mem_cons.mp hx with rfl | hx
      · rcases h1 with h1 | ⟨h1, h2⟩
        · rw [h1]; exact irrefl _ (by simp)
        · cases hc : lt x r with
          | false => rfl
          | true =>
            have := trans x (by simp) r (List.mem_cons_of_mem _ h1) x (by simp) hc h2
            rw [irrefl x (by simp)] at this; cases this
      · exact h3 x hx

theorem max_spec (l : List (Num F)) (hne : l ≠ []) (hnum : ∀ x ∈ l, x.isNum = true)
    (irrefl : ∀ x ∈ floats l, lt x x = false)
    (trans : ∀ x ∈ floats l, ∀ y ∈ floats l, ∀ z ∈ floats l,
      lt x y = true → lt y z = true → lt x z = true)
    (hge : ∀ x ∈ floats l, lt negMaxFinite x = true ∨ x = negMaxFinite) :
    ∃ m, max l = some m ∧ m ∈ floats l ∧ ∀ x ∈ floats l, lt m x = false := by
  unfold max
  rw [maxLoop_some l _ _ hnum]
  have hp : (false || !l.isEmpty) = true := by
    cases l with
    | nil => exact absurd rfl hne
    | cons _ _ => rfl
  simp only [hp, if_true]
  have hlen := (floats_allNum l hnum).2
  cases hfl : floats l with
  | nil =>
    rw [hfl] at hlen
    cases l with
    | nil => exact absurd rfl hne
    | cons _ _ => simp at hlen
  | cons f0 fl =>
    rw [hfl] at irrefl trans hge
    have hstart : (if lt negMaxFinite f0 = true then f0 else negMaxFinite) = f0 := by
      rcases hge f0 (by simp) with h | h
      · simp [h]
      · rw [← h]; simp
    simp only [List.foldl_cons, hstart]
    obtain ⟨h1, h3⟩ := minFold_spec (fun a b => lt b a) (· ∈ f0 :: fl) irrefl
      (fun x y z hx hy hz hxy hyz => trans z hz y hy x hx hyz hxy) fl f0 (by simp)
      (fun x hx => List.mem_cons_of_mem _ hx)
    generalize fl.foldl (fun m x => if lt m x = true then x else m) f0 = r at h1 h3
    refine ⟨r, rfl, ?_, ?_⟩
    · rcases h1 with h1 | ⟨h1, _⟩
      · rw [h1]; simp
      · exact List.mem_cons_of_mem _ h1
    · intro x hx
      rcases List.mem_cons.mp hx with rfl | hx
      · rcases h1 with h1 | ⟨h1, h2⟩
        · rw [h1]; exact irrefl _ (by simp)
        · cases hc : lt r x with
          | false => rfl
          | true =>
            have := trans x (by simp) r (List.mem_cons_of_mem _ h1) x (by simp) h2 hc
            rw [irrefl x (by simp)] at this; cases this
      · exact h3 x hx

end Agg
end Specs

namespace F64

theorem bits_lt (x : F64) : x.bits.toNat < 2^64 := x.bits.toNat_lt

theorem abs_bits_toNat (x : F64) : x.abs.bits.toNat = x.bits.toNat % 2^63 := by
  unfold abs
  simp only [UInt64.toNat_and]
  exact Nat.and_two_pow_sub_one_eq_mod _ 63

theorem signBit_eq (x : F64) : x.signBit = decide (2^63 ≤ x.bits.toNat) := by
  unfold signBit
  have h := x.bits.toNat_lt
  rw [Bool.eq_iff_iff]
  simp only [beq_iff_eq, decide_eq_true_eq]
  rw [← UInt64.toNat_inj]
  simp only [UInt64.toNat_shiftRight, Nat.shiftRight_eq_div_pow]
  show x.bits.toNat / 2^63 = 1 ↔ _
  omega

theorem expBits_eq (x : F64) : x.expBits = x.bits.toNat / 2^52 % 2^11 := by
  unfold expBits
  simp only [UInt64.toNat_and, UInt64.toNat_shiftRight, Nat.shiftRight_eq_div_pow]
  exact Nat.and_two_pow_sub_one_eq_mod _ 11

theorem frac_eq (x : F64) : x.frac = x.bits.toNat % 2^52 := by
  unfold frac
  simp only [UInt64.toNat_and]
  exact Nat.and_two_pow_sub_one_eq_mod _ 52


/-- order key of a non-NaN value: ±0 ↦ 0, positive ↦ pattern, negative ↦ −pattern-without-sign -/
def key (x : F64) : Int :=
  if x.bits.toNat % 2^63 = 0 then 0
  else if 2^63 ≤ x.bits.toNat then -((x.bits.toNat % 2^63 : Nat) : Int) else ((x.bits.toNat % 2^63 : Nat) : Int)

theorem isZero_eq (x : F64) : x.isZero = decide (x.bits.toNat % 2^63 = 0) := by
  unfold isZero
  rw [expBits_eq, frac_eq, Bool.eq_iff_iff]
  simp only [Bool.and_eq_true, beq_iff_eq, decide_eq_true_eq]
  omega

theorem ltGo_eq_key (x y : F64) :
    ltGo x y = (!x.isNaN && !y.isNaN && decide (key x < key y)) := by
  unfold ltGo
  cases hx : x.isNaN <;> cases hy : y.isNaN <;> simp only [Bool.or_self, Bool.or_true, Bool.true_or,
    Bool.false_eq_true, if_false, if_true, Bool.not_true, Bool.not_false, Bool.false_and, Bool.and_false, Bool.true_and]
  rw [isZero_eq, isZero_eq, signBit_eq, signBit_eq]
  have hxb := x.bits.toNat_lt
  have hyb := y.bits.toNat_lt
  unfold key
  by_cases hx0 : x.bits.toNat % 2^63 = 0 <;> by_cases hy0 : y.bits.toNat % 2^63 = 0 <;>
  by_cases hxs : 2^63 ≤ x.bits.toNat <;> by_cases hys : 2^63 ≤ y.bits.toNat <;>
  simp only [hx0, hy0, hxs, hys, decide_true, decide_false, Bool.and_self, Bool.and_true, Bool.and_false,
    if_true, if_false, Bool.false_eq_true, UInt64.lt_iff_toNat_lt, abs_bits_toNat] <;>
  (first | (rw [Bool.eq_iff_iff]; simp only [decide_eq_true_eq]; omega) | (simp only [Bool.true_eq, Bool.false_eq, decide_eq_true_eq, decide_eq_false_iff_not]; omega))

theorem key_inj {x y : F64} (hx : x.bits.toNat % 2^63 ≠ 0) (h : key x = key y) : x = y := by
  have hxb := x.bits.toNat_lt
  have hyb := y.bits.toNat_lt
  have : x.bits.toNat = y.bits.toNat := by
    unfold key at h
    split at h <;> split at h <;> (try split at h) <;> (try split at h) <;> omega
  cases x; cases y; simp only [F64.mk.injEq]; exact UInt64.toNat_inj.mp this

theorem eqGo_eq_key (x y : F64) :
    eqGo x y = (!x.isNaN && !y.isNaN && decide (key x = key y)) := by
  unfold eqGo
  cases hx : x.isNaN <;> cases hy : y.isNaN <;> simp only [Bool.or_self, Bool.or_true, Bool.true_or,
    Bool.false_eq_true, if_false, if_true, Bool.not_true, Bool.not_false, Bool.false_and, Bool.and_false, Bool.true_and]
  rw [isZero_eq, isZero_eq]
  have hxb := x.bits.toNat_lt
  have hyb := y.bits.toNat_lt
  by_cases hx0 : x.bits.toNat % 2^63 = 0 <;> by_cases hy0 : y.bits.toNat % 2^63 = 0 <;>
    simp only [hx0, hy0, decide_true, decide_false, Bool.and_self, Bool.and_true, Bool.and_false,
      if_true, if_false, Bool.false_eq_true]
  · simp [key, hx0, hy0]
  · rw [Bool.eq_iff_iff]; simp only [beq_iff_eq, decide_eq_true_eq]
    constructor
    · intro h; unfold key; rw [h]
    · intro h; have := key_inj (by omega) h.symm; rw [this]
  · rw [Bool.eq_iff_iff]; simp only [beq_iff_eq, decide_eq_true_eq]
    constructor
    · intro h; unfold key; rw [h]
    · intro h; have := key_inj hx0 h; rw [this]
  · rw [Bool.eq_iff_iff]; simp only [beq_iff_eq, decide_eq_true_eq]
    constructor
    · intro h; unfold key; rw [h]
    · intro h; have := key_inj hx0 h; rw [this]

theorem isNaN_of_isFinite {x : F64} (h : x.isFinite = true) : x.isNaN = false := by
  unfold isFinite at h; unfold isNaN
  simp only [bne_iff_ne, ne_eq] at h
  simp [h]

theorem key_maxFinite : key maxFinite = 0x7fefffffffffffff := by decide
theorem key_negMaxFinite : key negMaxFinite = -0x7fefffffffffffff := by decide

theorem key_le_of_isFinite {x : F64} (h : x.isFinite = true) :
    -0x7fefffffffffffff ≤ key x ∧ key x ≤ 0x7fefffffffffffff := by
  unfold isFinite at h
  rw [expBits_eq] at h
  simp only [bne_iff_ne, ne_eq] at h
  have hxb := x.bits.toNat_lt
  unfold key
  split
  · omega
  · split <;> omega

theorem finite_bounds (x : F64) (hfin : x.isFinite = true) :
    (ltGo x maxFinite = true ∨ x = maxFinite) ∧
    (ltGo negMaxFinite x = true ∨ x = negMaxFinite) ∧
    ltGo maxFinite x = false ∧ ltGo x negMaxFinite = false := by
  have hnan := isNaN_of_isFinite hfin
  have hb := key_le_of_isFinite hfin
  have hmax : maxFinite.isNaN = false := by decide
  have hmin : negMaxFinite.isNaN = false := by decide
  simp only [ltGo_eq_key, hnan, hmax, hmin, Bool.not_false, Bool.true_and, Bool.and_true,
    decide_eq_true_eq, decide_eq_false_iff_not, key_maxFinite, key_negMaxFinite]
  refine ⟨?_, ?_, by omega, by omega⟩
  · by_cases h : key x = 0x7fefffffffffffff
    · right
      exact (key_inj (by decide) (by rw [key_maxFinite, h])).symm
    · left; omega
  · by_cases h : key x = -0x7fefffffffffffff
    · right
      exact (key_inj (by decide) (by rw [key_negMaxFinite, h])).symm
    · left; omega

end F64
end Anytype
