/-
Association-list lemmas: `lookup`, `setKV`, `delKV`, `keysOf` (the Go map).
-/
import Anytype.Spec.Equiv
namespace Anytype

variable {α β : Type}

/-! ### keysOf -/

@[simp] theorem keysOf_nil : keysOf ([] : List (Str × α)) = [] := rfl
@[simp] theorem keysOf_cons (kv : Str × α) (fs : List (Str × α)) :
    keysOf (kv :: fs) = kv.1 :: keysOf fs := rfl
theorem length_keysOf (fs : List (Str × α)) : (keysOf fs).length = fs.length := by
  simp [keysOf]
theorem mem_keysOf {fs : List (Str × α)} {k : Str} : k ∈ keysOf fs ↔ ∃ v, (k, v) ∈ fs := by
  simp [keysOf]
theorem mem_keysOf_of_mem {fs : List (Str × α)} {kv : Str × α} (h : kv ∈ fs) : kv.1 ∈ keysOf fs :=
  mem_keysOf.2 ⟨kv.2, h⟩

/-! ### lookup -/

@[simp] theorem lookup_nil (k : Str) : lookup ([] : List (Str × α)) k = none := rfl

theorem lookup_cons (k' : Str) (v : α) (fs : List (Str × α)) (k : Str) :
    lookup ((k', v) :: fs) k = if k' = k then some v else lookup fs k := by
  simp [lookup]

theorem lookup_eq_none_iff {fs : List (Str × α)} {k : Str} :
    lookup fs k = none ↔ k ∉ keysOf fs := by
  induction fs with
  | nil => simp
  | cons kv fs ih =>
    obtain ⟨k', v⟩ := kv
    rw [lookup_cons]
    by_cases h : k' = k
    · simp [h]
    · simp only [h, if_false, ih, keysOf_cons, List.mem_cons]
      constructor
      · rintro h1 (h2 | h2)
        · exact h h2.symm
        · exact h1 h2
      · intro h1 h2; exact h1 (Or.inr h2)

theorem lookup_isSome_iff {fs : List (Str × α)} {k : Str} :
    (lookup fs k).isSome = true ↔ k ∈ keysOf fs := by
  rw [← Decidable.not_iff_not, ← lookup_eq_none_iff]
  cases lookup fs k <;> simp

theorem exists_lookup_of_mem_keys {fs : List (Str × α)} {k : Str} (h : k ∈ keysOf fs) :
    ∃ v, lookup fs k = some v := by
  have := lookup_isSome_iff.2 h
  cases hl : lookup fs k with
  | none => simp [hl] at this
  | some v => exact ⟨v, rfl⟩

theorem mem_keys_of_lookup {fs : List (Str × α)} {k : Str} {v : α} (h : lookup fs k = some v) :
    k ∈ keysOf fs := lookup_isSome_iff.1 (by simp [h])

/-- a successful lookup returns a pair of the list -/
theorem mem_of_lookup {fs : List (Str × α)} {k : Str} {v : α} (h : lookup fs k = some v) :
    (k, v) ∈ fs := by
  induction fs with
  | nil => simp at h
  | cons kv fs ih =>
    obtain ⟨k', v'⟩ := kv
    rw [lookup_cons] at h
    by_cases hk : k' = k
    · simp only [hk, if_true, Option.some.injEq] at h
      simp [hk, h]
    · simp only [hk, if_false] at h
      exact List.mem_cons_of_mem _ (ih h)

/-- with distinct keys, every pair of the list is what `lookup` finds -/
theorem lookup_of_mem {fs : List (Str × α)} {k : Str} {v : α} (hn : (keysOf fs).Nodup)
    (h : (k, v) ∈ fs) : lookup fs k = some v := by
  induction fs with
  | nil => simp at h
  | cons kv fs ih =>
    obtain ⟨k', v'⟩ := kv
    simp only [keysOf_cons, List.nodup_cons] at hn
    rw [lookup_cons]
    rcases List.mem_cons.1 h with h | h
    · simp only [Prod.mk.injEq] at h
      simp [h.1, h.2]
    · have : k' ≠ k := fun e => hn.1 (e ▸ mem_keysOf.2 ⟨v, h⟩)
      simp only [this, if_false]
      exact ih hn.2 h

theorem lookup_eq_some_iff {fs : List (Str × α)} {k : Str} {v : α} (hn : (keysOf fs).Nodup) :
    lookup fs k = some v ↔ (k, v) ∈ fs := ⟨mem_of_lookup, lookup_of_mem hn⟩

/-- the association list as a finite map depends only on the set of pairs -/
theorem lookup_perm {fs fs' : List (Str × α)} (hp : fs.Perm fs') (hn : (keysOf fs).Nodup)
    (k : Str) : lookup fs k = lookup fs' k := by
  have hpk : (keysOf fs).Perm (keysOf fs') := hp.map _
  have hn' : (keysOf fs').Nodup := hpk.nodup_iff.1 hn
  cases h : lookup fs k with
  | none =>
    have : k ∉ keysOf fs' := fun hm => lookup_eq_none_iff.1 h (hpk.mem_iff.2 hm)
    exact (lookup_eq_none_iff.2 this).symm
  | some v => exact (lookup_of_mem hn' (hp.mem_iff.1 (mem_of_lookup h))).symm

theorem lookup_map (f : α → β) (fs : List (Str × α)) (k : Str) :
    lookup (fs.map (fun kv => (kv.1, f kv.2))) k = (lookup fs k).map f := by
  induction fs with
  | nil => rfl
  | cons kv fs ih =>
    obtain ⟨k', v⟩ := kv
    simp only [List.map_cons, lookup_cons, ih]
    split <;> rfl

theorem keysOf_map (f : α → β) (fs : List (Str × α)) :
    keysOf (fs.map (fun kv => (kv.1, f kv.2))) = keysOf fs := by
  simp [keysOf, Function.comp_def]

/-! ### setKV -/

theorem setKV_cons (k' : Str) (v' : α) (fs : List (Str × α)) (k : Str) (v : α) :
    setKV ((k', v') :: fs) k v = if k' = k then (k, v) :: fs else (k', v') :: setKV fs k v := by
  simp [setKV]

/-- `m[k] = v; m[k']` -/
theorem lookup_setKV (fs : List (Str × α)) (k : Str) (v : α) (k' : Str) :
    lookup (setKV fs k v) k' = if k' = k then some v else lookup fs k' := by
  induction fs with
  | nil =>
    simp only [setKV, lookup_cons, lookup_nil]
    by_cases h : k = k' <;> simp [h, eq_comm]
  | cons kv fs ih =>
    obtain ⟨k₀, v₀⟩ := kv
    rw [setKV_cons]
    by_cases h0 : k₀ = k
    · subst h0
      simp only [if_true, lookup_cons]
      by_cases h : k' = k₀
      · subst h; simp
      · have : ¬ k₀ = k' := fun e => h e.symm
        simp [h, this]
    · simp only [h0, if_false, lookup_cons, ih]
      by_cases h : k₀ = k'
      · subst h; simp [h0]
      · simp [h]

theorem keysOf_setKV (fs : List (Str × α)) (k : Str) (v : α) :
    keysOf (setKV fs k v) = if k ∈ keysOf fs then keysOf fs else keysOf fs ++ [k] := by
  induction fs with
  | nil => simp [setKV]
  | cons kv fs ih =>
    obtain ⟨k₀, v₀⟩ := kv
    rw [setKV_cons]
    by_cases h0 : k₀ = k
    · subst h0; simp
    · have h0' : ¬ k = k₀ := fun e => h0 e.symm
      simp only [h0, if_false, keysOf_cons, ih, List.mem_cons, h0', false_or]
      split <;> simp

theorem mem_keysOf_setKV {fs : List (Str × α)} {k : Str} {v : α} {k' : Str} :
    k' ∈ keysOf (setKV fs k v) ↔ k' = k ∨ k' ∈ keysOf fs := by
  rw [keysOf_setKV]
  split
  · constructor
    · exact Or.inr
    · rintro (h | h)
      · subst h; assumption
      · exact h
  · simp [or_comm]

theorem nodup_setKV {fs : List (Str × α)} (hn : (keysOf fs).Nodup) (k : Str) (v : α) :
    (keysOf (setKV fs k v)).Nodup := by
  rw [keysOf_setKV]
  split
  · exact hn
  · rename_i h
    rw [List.nodup_append]
    refine ⟨hn, by simp, ?_⟩
    intro a ha b hb
    simp only [List.mem_singleton] at hb
    subst hb
    intro e; subst e; exact h ha

theorem length_setKV (fs : List (Str × α)) (k : Str) (v : α) :
    (setKV fs k v).length = if k ∈ keysOf fs then fs.length else fs.length + 1 := by
  rw [← length_keysOf, keysOf_setKV]
  split <;> simp [length_keysOf]

/-! ### delKV -/

theorem delKV_cons (k' : Str) (v' : α) (fs : List (Str × α)) (k : Str) :
    delKV ((k', v') :: fs) k = if k' = k then fs else (k', v') :: delKV fs k := by
  simp [delKV]

/-- deleting a missing key is a no-op -/
theorem delKV_of_not_mem {fs : List (Str × α)} {k : Str} (h : k ∉ keysOf fs) : delKV fs k = fs := by
  induction fs with
  | nil => rfl
  | cons kv fs ih =>
    obtain ⟨k₀, v₀⟩ := kv
    simp only [keysOf_cons, List.mem_cons, not_or] at h
    rw [delKV_cons]
    have : ¬ k₀ = k := fun e => h.1 e.symm
    simp [this, ih h.2]

theorem keysOf_delKV (fs : List (Str × α)) (k : Str) : keysOf (delKV fs k) = (keysOf fs).erase k := by
  induction fs with
  | nil => rfl
  | cons kv fs ih =>
    obtain ⟨k₀, v₀⟩ := kv
    rw [delKV_cons]
    by_cases h0 : k₀ = k
    · subst h0; simp
    · simp only [h0, if_false, keysOf_cons, ih]
      rw [List.erase_cons_tail (by simpa using h0)]

theorem nodup_delKV {fs : List (Str × α)} (hn : (keysOf fs).Nodup) (k : Str) :
    (keysOf (delKV fs k)).Nodup := by
  rw [keysOf_delKV]; exact hn.erase k

theorem mem_keysOf_delKV {fs : List (Str × α)} (hn : (keysOf fs).Nodup) {k k' : Str} :
    k' ∈ keysOf (delKV fs k) ↔ k' ≠ k ∧ k' ∈ keysOf fs := by
  rw [keysOf_delKV, hn.mem_erase_iff]

/-- `delete(m, k); m[k']` -/
theorem lookup_delKV {fs : List (Str × α)} (hn : (keysOf fs).Nodup) (k k' : Str) :
    lookup (delKV fs k) k' = if k' = k then none else lookup fs k' := by
  induction fs with
  | nil => simp [delKV]
  | cons kv fs ih =>
    obtain ⟨k₀, v₀⟩ := kv
    simp only [keysOf_cons, List.nodup_cons] at hn
    rw [delKV_cons]
    by_cases h0 : k₀ = k
    · subst h0
      simp only [if_true, lookup_cons]
      by_cases h : k' = k₀
      · subst h; simp [lookup_eq_none_iff.2 hn.1]
      · have : ¬ k₀ = k' := fun e => h e.symm
        simp [h, this]
    · simp only [h0, if_false, lookup_cons, ih hn.2]
      by_cases h : k₀ = k'
      · subst h; simp [h0]
      · simp [h]

/-- for keys other than the deleted one no distinctness is needed -/
theorem lookup_delKV_of_ne (fs : List (Str × α)) {k k' : Str} (hne : k' ≠ k) :
    lookup (delKV fs k) k' = lookup fs k' := by
  induction fs with
  | nil => rfl
  | cons kv fs ih =>
    obtain ⟨k₀, v₀⟩ := kv
    rw [delKV_cons]
    by_cases h0 : k₀ = k
    · subst h0
      have : ¬ k₀ = k' := fun e => hne e.symm
      simp [lookup_cons, this]
    · simp only [h0, if_false, lookup_cons, ih]

theorem length_delKV (fs : List (Str × α)) (k : Str) :
    (delKV fs k).length = if k ∈ keysOf fs then fs.length - 1 else fs.length := by
  rw [← length_keysOf, keysOf_delKV, ← length_keysOf]
  split
  · rename_i h; exact List.length_erase_of_mem h
  · rename_i h; rw [List.erase_of_not_mem h]

/-! ### folds -/

theorem nodup_foldl_setKV (f : β → Str) (g : β → α) (ps : List β) {fs : List (Str × α)}
    (hn : (keysOf fs).Nodup) :
    (keysOf (ps.foldl (fun acc p => setKV acc (f p) (g p)) fs)).Nodup := by
  induction ps generalizing fs with
  | nil => exact hn
  | cons p ps ih => exact ih (nodup_setKV hn _ _)

theorem nodup_foldl_delKV (ks : List Str) {fs : List (Str × α)} (hn : (keysOf fs).Nodup) :
    (keysOf (ks.foldl delKV fs)).Nodup := by
  induction ks generalizing fs with
  | nil => exact hn
  | cons k ks ih => exact ih (nodup_delKV hn k)

/-- several `m[k] = v` in a row: the last assignment to a key wins -/
theorem lookup_foldl_setKV (f : β → Str) (g : β → α) (ps : List β) (fs : List (Str × α))
    (k : Str) :
    lookup (ps.foldl (fun acc p => setKV acc (f p) (g p)) fs) k
      = match ps.reverse.find? (fun p => f p == k) with
        | some p => some (g p)
        | none => lookup fs k := by
  induction ps generalizing fs with
  | nil => rfl
  | cons p ps ih =>
    rw [List.foldl_cons, ih, List.reverse_cons, List.find?_append]
    cases hf : ps.reverse.find? (fun p => f p == k) with
    | some q => rfl
    | none =>
      simp only [Option.none_or, List.find?_cons, List.find?_nil, lookup_setKV]
      by_cases h : f p = k
      · simp [h]
      · have : ¬ k = f p := fun e => h e.symm
        have hb : (f p == k) = false := by simpa using h
        simp [hb, this]

theorem lookup_foldl_delKV (ks : List Str) {fs : List (Str × α)} (hn : (keysOf fs).Nodup) (k : Str) :
    lookup (ks.foldl delKV fs) k = if k ∈ ks then none else lookup fs k := by
  induction ks generalizing fs with
  | nil => simp
  | cons k₀ ks ih =>
    rw [List.foldl_cons, ih (nodup_delKV hn k₀), lookup_delKV hn]
    by_cases h1 : k ∈ ks
    · simp [h1]
    · by_cases h2 : k = k₀ <;> simp [h1, h2]

theorem foldl_delKV_of_not_mem (ks : List Str) {fs : List (Str × α)}
    (h : ∀ k ∈ ks, k ∉ keysOf fs) : ks.foldl delKV fs = fs := by
  induction ks with
  | nil => rfl
  | cons k ks ih =>
    rw [List.foldl_cons, delKV_of_not_mem (h k (List.mem_cons_self ..))]
    exact ih (fun k' hk' => h k' (List.mem_cons_of_mem _ hk'))

/-! ### pigeonhole on duplicate-free key lists -/

/-- an injection between finite sets of the same size is onto -/
theorem subset_of_nodup_length_eq {l₁ l₂ : List Str} (h₁ : l₁.Nodup) (h₂ : l₂.Nodup)
    (hlen : l₁.length = l₂.length) (hsub : ∀ k ∈ l₁, k ∈ l₂) : ∀ k ∈ l₂, k ∈ l₁ := by
  induction l₁ generalizing l₂ with
  | nil =>
    intro k hk
    have : l₂ = [] := List.eq_nil_of_length_eq_zero hlen.symm
    simp [this] at hk
  | cons a t ih =>
    rw [List.nodup_cons] at h₁
    have ha : a ∈ l₂ := hsub a (List.mem_cons_self ..)
    have hlen' : t.length = (l₂.erase a).length := by
      rw [List.length_erase_of_mem ha, ← hlen]; simp
    have hsub' : ∀ k ∈ t, k ∈ l₂.erase a := by
      intro k hk
      have hne : k ≠ a := fun e => h₁.1 (e ▸ hk)
      exact (List.mem_erase_of_ne hne).2 (hsub k (List.mem_cons_of_mem _ hk))
    have := ih h₁.2 (h₂.erase a) hlen' hsub'
    intro k hk
    by_cases hka : k = a
    · simp [hka]
    · exact List.mem_cons_of_mem _ (this k ((List.mem_erase_of_ne hka).2 hk))

theorem length_eq_of_nodup_subset_subset {l₁ l₂ : List Str} (h₁ : l₁.Nodup) (h₂ : l₂.Nodup)
    (h12 : ∀ k ∈ l₁, k ∈ l₂) (h21 : ∀ k ∈ l₂, k ∈ l₁) : l₁.length = l₂.length :=
  Nat.le_antisymm (h₁.length_le_of_subset h12) (h₂.length_le_of_subset h21)

end Anytype
