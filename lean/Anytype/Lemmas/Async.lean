/-
Generic facts about the transition system of `Model/Async.lean` (valid for EVERY skeleton):
list helpers, `enabled` vs `isEnabled`, a basic invariant, and the strictly decreasing measure.
-/
import Anytype.Model.Async
namespace Anytype.Async

/-! ### list helpers -/

theorem getElem?_set_cases {α} {l : List α} {i j : Nat} {a b : α}
    (h : (l.set i a)[j]? = some b) : (j = i ∧ b = a) ∨ (j ≠ i ∧ l[j]? = some b) := by
  rw [List.getElem?_set] at h
  by_cases hij : i = j
  · subst hij
    rw [if_pos rfl] at h
    split at h
    · left; exact ⟨rfl, (Option.some.inj h).symm⟩
    · cases h
  · rw [if_neg hij] at h
    right; exact ⟨fun e => hij e.symm, h⟩

theorem lt_length_of_getElem? {α} {l : List α} {i : Nat} {a : α} (h : l[i]? = some a) :
    i < l.length := by
  rcases Nat.lt_or_ge i l.length with h' | h'
  · exact h'
  · rw [List.getElem?_eq_none h'] at h; cases h

theorem getElem?_set_self' {α} {l : List α} {i : Nat} {a b : α} (h : l[i]? = some a) :
    (l.set i b)[i]? = some b :=
  List.getElem?_set_self (lt_length_of_getElem? h)

/-- pointwise invariants survive `set` -/
theorem forall_set {α} {P : Nat → α → Prop} {l : List α} {i : Nat} {a : α}
    (h : ∀ (j : Nat) (w : α), l[j]? = some w → P j w) (ha : P i a) :
    ∀ (j : Nat) (w : α), (l.set i a)[j]? = some w → P j w := by
  intro j w hj
  rcases getElem?_set_cases hj with ⟨rfl, rfl⟩ | ⟨_, h'⟩
  · exact ha
  · exact h j w h'

/-- the same, when the old entry at `i` need not satisfy `P` -/
theorem forall_set_ne {α} {P : Nat → α → Prop} {l : List α} {i : Nat} {a : α}
    (h : ∀ (j : Nat) (w : α), j ≠ i → l[j]? = some w → P j w) (ha : P i a) :
    ∀ (j : Nat) (w : α), (l.set i a)[j]? = some w → P j w := by
  intro j w hj
  rcases getElem?_set_cases hj with ⟨rfl, rfl⟩ | ⟨hne, h'⟩
  · exact ha
  · exact h j w hne h'

theorem countP_set_add {α} (p : α → Bool) {l : List α} {i : Nat} {w : α} (w' : α)
    (h : l[i]? = some w) :
    (l.set i w').countP p + (if p w = true then 1 else 0)
      = l.countP p + (if p w' = true then 1 else 0) := by
  induction l generalizing i with
  | nil => cases h
  | cons x xs ih =>
    cases i with
    | zero =>
      simp only [List.getElem?_cons_zero, Option.some.injEq] at h
      subst h
      simp only [List.set_cons_zero, List.countP_cons]
      omega
    | succ i =>
      simp only [List.getElem?_cons_succ] at h
      have := ih h
      simp only [List.set_cons_succ, List.countP_cons]
      omega

theorem countP_lt_length_of {α} (p : α → Bool) {l : List α} {i : Nat} {w : α}
    (h : l[i]? = some w) (hp : p w = false) : l.countP p < l.length := by
  rcases Nat.lt_or_ge (l.countP p) l.length with h' | h'
  · exact h'
  · have he : l.countP p = l.length := Nat.le_antisymm List.countP_le_length h'
    have := List.countP_eq_length.1 he w (List.mem_iff_getElem?.2 ⟨i, h⟩)
    rw [hp] at this; cases this

theorem exists_not_of_countP_lt {α} (p : α → Bool) {l : List α}
    (h : l.countP p < l.length) : ∃ (i : Nat) (w : α), l[i]? = some w ∧ p w = false := by
  induction l with
  | nil => simp at h
  | cons x xs ih =>
    by_cases hx : p x = true
    · simp only [List.countP_cons, hx, if_true, List.length_cons] at h
      obtain ⟨i, w, hi, hw⟩ := ih (by omega)
      exact ⟨i + 1, w, by simpa using hi, hw⟩
    · exact ⟨0, x, by simp, by simpa using hx⟩

theorem sum_map_set_add {α} (f : α → Nat) {l : List α} {i : Nat} {w : α} (w' : α)
    (h : l[i]? = some w) :
    ((l.set i w').map f).sum + f w = (l.map f).sum + f w' := by
  induction l generalizing i with
  | nil => cases h
  | cons x xs ih =>
    cases i with
    | zero =>
      simp only [List.getElem?_cons_zero, Option.some.injEq] at h
      subst h
      simp only [List.set_cons_zero, List.map_cons, List.sum_cons]
      omega
    | succ i =>
      simp only [List.getElem?_cons_succ] at h
      have := ih h
      simp only [List.set_cons_succ, List.map_cons, List.sum_cons]
      omega

/-! ### `enabled` is the list of the actions for which `isEnabled` holds -/

theorem isEnabled_work_lt {s : Skel} {n : Nat} {st : State} {i : Nat}
    (h : isEnabled s n st (.work i) = true) : i < n := by
  simp only [isEnabled, Bool.and_eq_true, decide_eq_true_eq] at h
  exact h.1.2

theorem mem_enabled {s : Skel} {n : Nat} {st : State} {a : Action} :
    a ∈ enabled s n st ↔ isEnabled s n st a = true := by
  simp only [enabled, List.mem_filter, and_iff_right_iff_imp]
  intro h
  cases a with
  | work i =>
    have := isEnabled_work_lt h
    simp [allActions, this]
  | _ => simp [allActions]

theorem isEnabled_not_panicked {s : Skel} {n : Nat} {st : State} {a : Action}
    (h : isEnabled s n st a = true) : st.panicked = false := by
  cases a <;> simp only [isEnabled, Bool.and_eq_true, Bool.not_eq_true'] at h
  · exact h.1
  · exact h.1
  · exact h.1
  · exact h.1.1

/-- what `isEnabled (.work i)` says -/
theorem isEnabled_work {s : Skel} {n : Nat} {st : State} {i : Nat}
    (h : isEnabled s n st (.work i) = true) :
    ∃ w b, st.workers[i]? = some w ∧ w.live = true ∧ s.body[w.pc]? = some b ∧
      (b = .lock → st.mutex = none) := by
  simp only [isEnabled, Bool.and_eq_true, decide_eq_true_eq] at h
  obtain ⟨_, h⟩ := h
  cases hw : st.workers[i]? with
  | none => simp [hw] at h
  | some w =>
    simp only [hw, Bool.and_eq_true] at h
    obtain ⟨hl, h⟩ := h
    cases hb : s.body[w.pc]? with
    | none => simp [hb] at h
    | some b =>
      refine ⟨w, b, rfl, hl, hb, ?_⟩
      intro e; subst e
      simpa [hb] using h

/-! ### the effect of a worker step on the worker table -/

theorem workerMeasure_next {s : Skel} {w : Worker} (h : w.pc < s.body.length) :
    workerMeasure s { w with pc := w.pc + 1, inCall := false } < workerMeasure s w := by
  simp only [workerMeasure]
  split <;> split <;> simp_all <;> omega

theorem workerMeasure_enter {s : Skel} {w : Worker} {a : Nat} (h : w.pc < s.body.length)
    (hc : w.inCall = false) :
    workerMeasure s { w with inCall := true, arg := a } < workerMeasure s w := by
  simp only [workerMeasure, hc]
  simp; omega

theorem stepWorker_shape {s : Skel} {n : Nat} {st : State} {i : Nat} {w : Worker} {b : BodyStep}
    (hb : s.body[w.pc]? = some b) :
    ∃ w', (stepWorker s n st i w).workers = st.workers.set i w' ∧ w'.live = w.live ∧
      workerMeasure s w' < workerMeasure s w ∧ (stepWorker s n st i w).main = st.main := by
  have hlt : w.pc < s.body.length := lt_length_of_getElem? hb
  cases b with
  | lock => simp only [stepWorker, hb]; exact ⟨_, rfl, rfl, workerMeasure_next hlt, by first | rfl | trivial⟩
  | unlock =>
    simp only [stepWorker, hb]
    split
    · exact ⟨_, rfl, rfl, workerMeasure_next hlt, by first | rfl | trivial⟩
    · exact ⟨_, rfl, rfl, workerMeasure_next hlt, by first | rfl | trivial⟩
  | call =>
    simp only [stepWorker, hb]
    split
    · exact ⟨_, rfl, rfl, workerMeasure_next hlt, by first | rfl | trivial⟩
    · next h => exact ⟨_, rfl, rfl, workerMeasure_enter hlt (by simpa using h), by first | rfl | trivial⟩
  | callWrite =>
    simp only [stepWorker, hb]
    split
    · exact ⟨_, rfl, rfl, workerMeasure_next hlt, by first | rfl | trivial⟩
    · next h => exact ⟨_, rfl, rfl, workerMeasure_enter hlt (by simpa using h), by first | rfl | trivial⟩
  | done => simp only [stepWorker, hb]; exact ⟨_, rfl, rfl, workerMeasure_next hlt, by first | rfl | trivial⟩
  | «opaque» src => simp only [stepWorker, hb]; exact ⟨_, rfl, rfl, workerMeasure_next hlt, by first | rfl | trivial⟩

/-! ### a basic invariant of every skeleton -/

/-- how many workers main has spawned -/
def spawnedCount (n : Nat) : MainPc → Nat
  | .start => 0
  | .spawned k => k
  | .returned => n

structure Basic (n : Nat) (st : State) : Prop where
  len : st.workers.length = n
  live : ∀ (j : Nat) (w : Worker), st.workers[j]? = some w → w.live = true → j < spawnedCount n st.main
  fresh : ∀ (j : Nat) (w : Worker), st.workers[j]? = some w → w.live = false → w = {}

theorem basic_init (s : Skel) (n : Nat) : Basic n (init s n) := by
  refine ⟨by simp [init], ?_, ?_⟩
  · intro j w h hl
    simp only [init, List.getElem?_replicate] at h
    split at h
    · cases h; cases hl
    · cases h
  · intro j w h _
    simp only [init, List.getElem?_replicate] at h
    split at h
    · cases h; rfl
    · cases h

theorem basic_step {s : Skel} {n : Nat} {st : State} {a : Action}
    (hB : Basic n st) (he : isEnabled s n st a = true) : Basic n (step s n st a) := by
  obtain ⟨len, live, fresh⟩ := hB
  cases a with
  | add =>
    simp only [isEnabled, Bool.and_eq_true] at he
    cases hm : st.main <;> simp [hm] at he
    refine ⟨len, ?_, fresh⟩
    intro j w h hl
    have := live j w h hl
    simp [hm, spawnedCount] at this
  | spawn =>
    simp only [isEnabled, Bool.and_eq_true] at he
    cases hm : st.main with
    | start => simp [hm] at he
    | returned => simp [hm] at he
    | spawned k =>
      simp only [step, hm]
      refine ⟨by simpa using len, ?_, ?_⟩
      · refine forall_set (P := fun j (w : Worker) => w.live = true → j < spawnedCount n (.spawned (k + 1)))
          ?_ ?_
        · intro j w h hl
          have := live j w h hl
          simp only [hm, spawnedCount] at this ⊢
          omega
        · intro _; simp [spawnedCount]
      · exact forall_set (P := fun _ (w : Worker) => w.live = false → w = {}) fresh (by simp)
  | wait =>
    simp only [step]
    refine ⟨len, ?_, fresh⟩
    intro j w h _
    have := lt_length_of_getElem? h
    simp only [spawnedCount] at this ⊢; omega
  | work i =>
    obtain ⟨w, b, hw, hl, hb, _⟩ := isEnabled_work he
    obtain ⟨w', hws, hl', _, hmain⟩ := stepWorker_shape (n := n) (st := st) (i := i) hb
    simp only [step, hw]
    refine ⟨by rw [hws]; simpa using len, ?_, ?_⟩
    · rw [hws, hmain]
      exact forall_set (P := fun j (w : Worker) => w.live = true → j < spawnedCount n st.main) live
        (fun _ => live i w hw hl)
    · rw [hws]
      exact forall_set (P := fun _ (w : Worker) => w.live = false → w = {}) fresh
        (by intro h; rw [hl', hl] at h; cases h)

theorem basic_of_reachable {s : Skel} {n : Nat} {st : State} (h : Reachable s n st) :
    Basic n st := by
  induction h with
  | init => exact basic_init s n
  | step _ he ih => exact basic_step ih he

/-! ### the measure strictly decreases with every step (any skeleton) -/

theorem measure_step_lt {s : Skel} {n : Nat} {st : State} {a : Action}
    (hB : Basic n st) (he : isEnabled s n st a = true) :
    measure s n (step s n st a) < measure s n st := by
  obtain ⟨len, live, fresh⟩ := hB
  cases a with
  | add =>
    simp only [isEnabled, Bool.and_eq_true] at he
    cases hm : st.main <;> simp [hm] at he
    simp only [measure, step, hm, mainMeasure]
    omega
  | spawn =>
    simp only [isEnabled, Bool.and_eq_true] at he
    cases hm : st.main with
    | start => simp [hm] at he
    | returned => simp [hm] at he
    | spawned k =>
      simp only [hm, decide_eq_true_eq] at he
      have hk : k < st.workers.length := by omega
      obtain ⟨w, hw⟩ : ∃ w, st.workers[k]? = some w := ⟨_, List.getElem?_eq_getElem hk⟩
      have hnl : w.live = false := by
        cases h : w.live with
        | false => rfl
        | true =>
          have := live k w hw h
          simp [hm, spawnedCount] at this
      have hwd : w = {} := fresh k w hw hnl
      have hsum := sum_map_set_add (workerMeasure s)
        ({ live := true, pc := 0, inCall := false, arg := k } : Worker) hw
      have e1 : workerMeasure s w = 2 * s.body.length := by subst hwd; simp [workerMeasure]
      have e2 : workerMeasure s ({ live := true, pc := 0, inCall := false, arg := k } : Worker)
          = 2 * s.body.length := by simp [workerMeasure]
      simp only [measure, step, hm, mainMeasure]
      omega
  | wait =>
    simp only [isEnabled, Bool.and_eq_true] at he
    cases hm : st.main <;> simp [hm] at he
    simp only [measure, step, hm, mainMeasure]
    omega
  | work i =>
    obtain ⟨w, b, hw, hl, hb, _⟩ := isEnabled_work he
    obtain ⟨w', hws, _, hlt, hmain⟩ := stepWorker_shape (n := n) (st := st) (i := i) hb
    have hsum := sum_map_set_add (workerMeasure s) w' hw
    simp only [measure, step, hw, hws, hmain]
    omega

end Anytype.Async
