/-
The invariant shared by the two accepted skeletons (`forEachSkel`, `mapSkel`), parametrised by
`c` = the position of the callback statement in the body and `L` = the length of the body (the
last statement is `done`), its preservation by main's actions and by the four kinds of worker
steps, and what follows from it.
-/
import Anytype.Lemmas.AsyncTrace
namespace Anytype.Async

/-- the phase of the callback invocation of a worker, read off its program counter -/
def absPhase (c : Nat) (w : Worker) : Phase :=
  if c < w.pc then .finished else if w.inCall = true then .running else .idle

structure WkOk (c L n : Nat) (main : MainPc) (j : Nat) (w : Worker) : Prop where
  live_iff : w.live = true ↔ j < spawnedCount n main
  fresh : w.live = false → w = {}
  arg : w.live = true → w.arg = j
  pc_le : w.pc ≤ L
  inCall : w.inCall = true → w.pc = c

/-- number of workers that have executed `done` -/
def doneCount (L : Nat) (st : State) : Nat := st.workers.countP (fun w => decide (w.pc = L))

structure Core (isMap : Bool) (c L n : Nat) (st : State) : Prop where
  len : st.workers.length = n
  noPanic : st.panicked = false
  noUnsync : st.unsyncWrite = false
  wk : ∀ (j : Nat) (w : Worker), st.workers[j]? = some w → WkOk c L n st.main j w
  counter : st.counter = (if st.main = .start then 0 else (n : Int)) - (doneCount L st : Int)
  kle : ∀ k, st.main = .spawned k → k ≤ n
  ret : st.main = .returned → ∀ w ∈ st.workers, w.pc = L
  mon : runMon isMap n (observe st.log)
      = some ⟨st.workers.map (absPhase c), decide (st.main = .returned)⟩

theorem WkOk.congr_main {c L n : Nat} {m m' : MainPc} {j : Nat} {w : Worker}
    (h : WkOk c L n m j w) (e : spawnedCount n m' = spawnedCount n m) : WkOk c L n m' j w :=
  ⟨by rw [e]; exact h.live_iff, h.fresh, h.arg, h.pc_le, h.inCall⟩

theorem WkOk.update {c L n : Nat} {main : MainPc} {i : Nat} {w w' : Worker}
    (W : WkOk c L n main i w) (hl : w.live = true) (hlive : w'.live = true)
    (harg : w'.arg = w.arg) (hpc : w'.pc ≤ L) (hin : w'.inCall = true → w'.pc = c) :
    WkOk c L n main i w' :=
  ⟨by rw [hlive, ← W.live_iff, hl], (by rw [hlive]; intro h; cases h),
    (fun _ => by rw [harg]; exact W.arg hl), hpc, hin⟩

theorem set_eq_self_of_getElem? {α} {l : List α} {i : Nat} {a : α} (h : l[i]? = some a) :
    l.set i a = l := by
  apply List.ext_getElem?
  intro j
  rw [List.getElem?_set]
  by_cases hij : i = j
  · subst hij; rw [h]; simp [lt_length_of_getElem? h]
  · simp [hij]

/-! ### initial state and main's actions -/

theorem core_init (s : Skel) (isMap : Bool) {c L : Nat} (n : Nat) (hL : 0 < L) :
    Core isMap c L n (init s n) := by
  have hw : ∀ (j : Nat) (w : Worker), (init s n).workers[j]? = some w → w = {} := by
    intro j w h
    simp only [init, List.getElem?_replicate] at h
    split at h
    · cases h; rfl
    · cases h
  refine ⟨by simp [init], rfl, rfl, ?_, ?_, ?_, ?_, ?_⟩
  · intro j w h
    cases hw j w h
    exact ⟨by simp [init, spawnedCount], fun _ => rfl, by simp, by simp, by simp⟩
  · have : doneCount L (init s n) = 0 := by
      simp only [doneCount, init]
      rw [List.countP_eq_zero]
      intro w hw
      rw [List.mem_replicate] at hw
      rw [hw.2]; simp; omega
    rw [this]; simp [init]
  · intro k h; simp [init] at h
  · intro h; simp [init] at h
  · simp [init, observe, runMon, monInit, absPhase]

theorem core_add {s : Skel} {isMap : Bool} {c L n : Nat} {st : State}
    (hs : s.add = .beforeLoop) (hc : s.addIsCount = true)
    (h : Core isMap c L n st) (he : isEnabled s n st .add = true) :
    Core isMap c L n (step s n st .add) := by
  simp only [isEnabled, Bool.and_eq_true] at he
  cases hm : st.main <;> simp [hm] at he
  obtain ⟨len, noPanic, noUnsync, wk, counter, kle, ret, mon⟩ := h
  simp only [step, hs, addAmount, hc, if_true]
  refine ⟨len, noPanic, noUnsync, ?_, ?_, ?_, ?_, ?_⟩
  · intro j w hw
    exact (wk j w hw).congr_main (by simp [hm, spawnedCount])
  · simp only [hm, if_true] at counter
    simp only [doneCount] at counter ⊢
    simp only [reduceCtorEq, if_false]
    omega
  · intro k hk; cases hk; omega
  · intro hr; cases hr
  · simpa [hm] using mon

theorem core_spawn {s : Skel} {isMap : Bool} {c L n : Nat} {st : State}
    (hs : s.add = .beforeLoop) (hL : 0 < L)
    (h : Core isMap c L n st) (he : isEnabled s n st .spawn = true) :
    Core isMap c L n (step s n st .spawn) := by
  simp only [isEnabled, Bool.and_eq_true] at he
  cases hm : st.main with
  | start => simp [hm] at he
  | returned => simp [hm] at he
  | spawned k =>
    simp only [hm, decide_eq_true_eq] at he
    obtain ⟨_, hk⟩ := he
    obtain ⟨len, noPanic, noUnsync, wk, counter, kle, ret, mon⟩ := h
    have hk' : k < st.workers.length := by omega
    obtain ⟨w, hw⟩ : ∃ w, st.workers[k]? = some w := ⟨_, List.getElem?_eq_getElem hk'⟩
    have hnl : w.live = false := by
      cases hl : w.live with
      | false => rfl
      | true =>
        have := (wk k w hw).live_iff.1 hl
        simp [hm, spawnedCount] at this
    have hwd : w = {} := (wk k w hw).fresh hnl
    subst hwd
    simp only [step, hm, hs]
    refine ⟨by simpa using len, noPanic, noUnsync, ?_, ?_, ?_, ?_, ?_⟩
    · refine forall_set_ne (P := fun j (w : Worker) => WkOk c L n (.spawned (k + 1)) j w) ?_ ?_
      · intro j w' hjk hw'
        have W := wk j w' hw'
        rw [hm] at W
        refine ⟨?_, W.fresh, W.arg, W.pc_le, W.inCall⟩
        rw [W.live_iff]; simp only [spawnedCount]; omega
      · exact ⟨by simp [spawnedCount], by simp, by simp, by simp, by simp⟩
    · have := countP_set_add (fun w => decide (w.pc = L))
        ({ live := true, pc := 0, inCall := false, arg := k } : Worker) hw
      have h0 : ¬ (0 = L) := by omega
      simp only [decide_eq_true_eq, h0, if_false, Nat.add_zero] at this
      simp only [doneCount, hm, reduceCtorEq, if_false] at counter ⊢
      rw [this]; exact counter
    · intro k' hk'; cases hk'; omega
    · intro hr; cases hr
    · dsimp only
      rw [List.map_set]
      have e : absPhase c ({ live := true, pc := 0, inCall := false, arg := k } : Worker)
          = absPhase c ({} : Worker) := by simp [absPhase]
      rw [e, set_eq_self_of_getElem? (by rw [List.getElem?_map, hw]; rfl)]
      simpa [hm] using mon

theorem core_wait {s : Skel} {isMap : Bool} {c L n : Nat} {st : State}
    (hs : s.waitBeforeReturn = true) (hcL : c < L)
    (h : Core isMap c L n st) (he : isEnabled s n st .wait = true) :
    Core isMap c L n (step s n st .wait) := by
  simp only [isEnabled, Bool.and_eq_true] at he
  cases hm : st.main with
  | start => simp [hm] at he
  | returned => simp [hm] at he
  | spawned k =>
    simp only [hm, hs, Bool.not_true, Bool.false_or, Bool.and_eq_true, decide_eq_true_eq] at he
    obtain ⟨_, hk, h0⟩ := he
    obtain ⟨len, noPanic, noUnsync, wk, counter, kle, ret, mon⟩ := h
    have hkn : k = n := Nat.le_antisymm (kle k hm) hk
    have hall : ∀ w ∈ st.workers, w.pc = L := by
      have : doneCount L st = st.workers.length := by
        simp only [hm, reduceCtorEq, if_false] at counter
        omega
      intro w hw
      simpa using List.countP_eq_length.1 this w hw
    simp only [step]
    refine ⟨len, noPanic, noUnsync, ?_, ?_, ?_, ?_, ?_⟩
    · intro j w hw
      exact (wk j w hw).congr_main (by simp [hm, spawnedCount, hkn])
    · simp only [doneCount, hm, reduceCtorEq, if_false] at counter ⊢
      exact counter
    · intro k' hk'; cases hk'
    · intro _; exact hall
    · rw [observe_snoc_obs _ (by rfl), runMon_snoc, mon]
      simp only [Option.bind_some, monStep, hm, reduceCtorEq, decide_false, decide_true]
      rw [if_pos]
      refine ⟨trivial, ?_⟩
      intro p hp
      rw [List.mem_map] at hp
      obtain ⟨w, hw, rfl⟩ := hp
      simp [absPhase, hall w hw, hcL]

/-! ### worker steps -/

/-- facts about the acting worker -/
theorem Core.acting {isMap : Bool} {c L n : Nat} {st : State} {i : Nat} {w : Worker}
    (h : Core isMap c L n st) (hw : st.workers[i]? = some w) (hl : w.live = true)
    (hpc : w.pc < L) :
    st.main ≠ .returned ∧ st.main ≠ .start ∧ w.arg = i ∧ i < n := by
  have W := h.wk i w hw
  refine ⟨?_, ?_, W.arg hl, ?_⟩
  · intro hr
    have := h.ret hr w (List.mem_iff_getElem?.2 ⟨i, hw⟩)
    omega
  · intro hs
    have := W.live_iff.1 hl
    simp [hs, spawnedCount] at this
  · have := lt_length_of_getElem? hw
    rw [h.len] at this; exact this

/-- the master lemma for worker steps: worker `i` goes from `w` to `w'`, main does not move -/
theorem core_update {isMap : Bool} {c L n : Nat} {st st' : State} {i : Nat} {w w' : Worker}
    (h : Core isMap c L n st) (hw : st.workers[i]? = some w) (hl : w.live = true)
    (hpc : w.pc < L)
    (hworkers : st'.workers = st.workers.set i w') (hmain : st'.main = st.main)
    (hp : st'.panicked = false) (hu : st'.unsyncWrite = false)
    (hwk : WkOk c L n st.main i w')
    (hcounter : st'.counter = st.counter - (if w'.pc = L then 1 else 0))
    (hmon : runMon isMap n (observe st'.log)
      = some ⟨(st.workers.set i w').map (absPhase c), false⟩) :
    Core isMap c L n st' := by
  obtain ⟨hnr, hns, _, _⟩ := h.acting hw hl hpc
  obtain ⟨len, noPanic, noUnsync, wk, counter, kle, ret, mon⟩ := h
  refine ⟨by rw [hworkers]; simpa using len, hp, hu, ?_, ?_, ?_, ?_, ?_⟩
  · rw [hworkers, hmain]
    exact forall_set (P := fun j (w : Worker) => WkOk c L n st.main j w) wk hwk
  · have hset := countP_set_add (fun w => decide (w.pc = L)) w' hw
    have hne : ¬ (w.pc = L) := by omega
    simp only [decide_eq_true_eq, hne, if_false, Nat.add_zero] at hset
    rw [hcounter, counter, hmain]
    simp only [doneCount, hworkers]
    rw [hset]
    by_cases hL' : w'.pc = L
    · simp only [hL', if_true]; omega
    · simp only [hL', if_false]; omega
  · intro k hk; rw [hmain] at hk; exact kle k hk
  · intro hr; rw [hmain] at hr; exact absurd hr hnr
  · rw [hmon, hworkers, hmain]
    simp [hnr]

/-- a step that neither touches the log nor the phase of the worker (lock, unlock) -/
theorem core_silent {isMap : Bool} {c L n : Nat} {st st' : State} {i : Nat} {w w' : Worker}
    (h : Core isMap c L n st) (hw : st.workers[i]? = some w) (hl : w.live = true)
    (hpc : w.pc < L)
    (hworkers : st'.workers = st.workers.set i w') (hmain : st'.main = st.main)
    (hp : st'.panicked = false) (hu : st'.unsyncWrite = false)
    (hcounter : st'.counter = st.counter) (hlog : st'.log = st.log)
    (hlive : w'.live = true) (harg : w'.arg = w.arg) (hpc' : w'.pc < L)
    (hin : w'.inCall = false) (habs : absPhase c w' = absPhase c w) :
    Core isMap c L n st' := by
  obtain ⟨hnr, _, ha, _⟩ := h.acting hw hl hpc
  have W := h.wk i w hw
  refine core_update h hw hl hpc hworkers hmain hp hu ?_ ?_ ?_
  · exact W.update hl hlive harg (by omega) (by rw [hin]; intro h; cases h)
  · rw [hcounter, if_neg (by omega)]; simp
  · rw [hlog, h.mon, List.map_set, habs,
      set_eq_self_of_getElem? (by rw [List.getElem?_map, hw]; rfl)]
    simp [hnr]

/-- the callback is entered -/
theorem core_callStart {isMap : Bool} {c L n : Nat} {st st' : State} {i : Nat} {w w' : Worker}
    (h : Core isMap c L n st) (hw : st.workers[i]? = some w) (hl : w.live = true)
    (hcL : c < L) (hpc : w.pc = c) (hic : w.inCall = false)
    (hexcl : isMap = true → ∀ (j : Nat) (v : Worker), st.workers[j]? = some v →
      absPhase c v ≠ .running)
    (hworkers : st'.workers = st.workers.set i w') (hmain : st'.main = st.main)
    (hp : st'.panicked = false) (hu : st'.unsyncWrite = false)
    (hcounter : st'.counter = st.counter) (hlog : st'.log = st.log ++ [.callStart w.arg])
    (hlive : w'.live = true) (harg : w'.arg = w.arg) (hpc' : w'.pc = c)
    (hin : w'.inCall = true) :
    Core isMap c L n st' := by
  obtain ⟨hnr, _, ha, _⟩ := h.acting hw hl (by omega)
  have W := h.wk i w hw
  refine core_update h hw hl (by omega) hworkers hmain hp hu ?_ ?_ ?_
  · exact W.update hl hlive harg (by omega) (fun _ => hpc')
  · rw [hcounter, if_neg (by omega)]; simp
  · rw [hlog, observe_snoc_obs _ (by rfl), runMon_snoc, h.mon]
    simp only [Option.bind_some, monStep, hnr, decide_false]
    rw [if_pos]
    · rw [List.map_set, ha]
      simp [absPhase, hpc', hin]
    · refine ⟨trivial, ?_, ?_⟩
      · rw [ha, List.getElem?_map, hw]
        simp [absPhase, hpc, hic]
      · intro hm p hp
        rw [List.mem_map] at hp
        obtain ⟨v, hv, rfl⟩ := hp
        obtain ⟨j, hj⟩ := List.mem_iff_getElem?.1 hv
        exact hexcl hm j v hj

/-- the callback returns (`observe` hides the `write` event of `callWrite`) -/
theorem core_callEnd {isMap : Bool} {c L n : Nat} {st st' : State} {i : Nat} {w w' : Worker}
    (h : Core isMap c L n st) (hw : st.workers[i]? = some w) (hl : w.live = true)
    (hcL : c + 1 < L) (hpc : w.pc = c) (hic : w.inCall = true)
    (hworkers : st'.workers = st.workers.set i w') (hmain : st'.main = st.main)
    (hp : st'.panicked = false) (hu : st'.unsyncWrite = false)
    (hcounter : st'.counter = st.counter)
    (hlog : observe st'.log = observe st.log ++ [.callEnd w.arg])
    (hlive : w'.live = true) (harg : w'.arg = w.arg) (hpc' : w'.pc = c + 1)
    (hin : w'.inCall = false) :
    Core isMap c L n st' := by
  obtain ⟨hnr, _, ha, _⟩ := h.acting hw hl (by omega)
  have W := h.wk i w hw
  refine core_update h hw hl (by omega) hworkers hmain hp hu ?_ ?_ ?_
  · exact W.update hl hlive harg (by omega) (by rw [hin]; intro h; cases h)
  · rw [hcounter, if_neg (by omega)]; simp
  · rw [hlog, runMon_snoc, h.mon]
    simp only [Option.bind_some, monStep, hnr, decide_false]
    rw [if_pos]
    · rw [List.map_set, ha]
      simp [absPhase, hpc']
    · refine ⟨trivial, ?_⟩
      rw [ha, List.getElem?_map, hw]
      simp [absPhase, hpc, hic]

/-- `group.Done()` as the last statement -/
theorem core_done {isMap : Bool} {c L n : Nat} {st st' : State} {i : Nat} {w w' : Worker}
    (h : Core isMap c L n st) (hw : st.workers[i]? = some w) (hl : w.live = true)
    (hpc : w.pc + 1 = L) (hc : c < w.pc)
    (hworkers : st'.workers = st.workers.set i w') (hmain : st'.main = st.main)
    (hp : st'.panicked = (st.panicked || decide (st.counter - 1 < 0)))
    (hu : st'.unsyncWrite = st.unsyncWrite)
    (hcounter : st'.counter = st.counter - 1) (hlog : st'.log = st.log)
    (hlive : w'.live = true) (harg : w'.arg = w.arg) (hpc' : w'.pc = L)
    (hin : w'.inCall = false) :
    Core isMap c L n st' := by
  obtain ⟨hnr, hns, ha, _⟩ := h.acting hw hl (by omega)
  have W := h.wk i w hw
  have hpos : 0 < st.counter := by
    have hlt := countP_lt_length_of (fun w => decide (w.pc = L)) hw
      (by simp only [decide_eq_false_iff_not]; omega)
    have := h.counter
    rw [if_neg hns] at this
    simp only [doneCount] at this
    rw [h.len] at hlt
    omega
  refine core_update h hw hl (by omega) hworkers hmain ?_ (by rw [hu, h.noUnsync]) ?_ ?_ ?_
  · rw [hp, h.noPanic]; simp; omega
  · exact W.update hl hlive harg (by omega) (by rw [hin]; intro h; cases h)
  · rw [hcounter, if_pos hpc']
  · rw [hlog, h.mon, List.map_set]
    have : absPhase c w' = absPhase c w := by
      simp only [absPhase]; rw [if_pos (by omega), if_pos hc]
    rw [this, set_eq_self_of_getElem? (by rw [List.getElem?_map, hw]; rfl)]
    simp [hnr]

/-! ### consequences of the invariant -/

/-- the log of a state in terms of the workers' program counters -/
theorem Core.counts {isMap : Bool} {c L n : Nat} {st : State} (h : Core isMap c L n st)
    (i : Nat) :
    st.log.count (.callStart i)
        = (match st.workers[i]? with
           | some w => if c < w.pc ∨ w.inCall = true then 1 else 0
           | none => 0) ∧
    st.log.count (.callEnd i)
        = (match st.workers[i]? with
           | some w => if c < w.pc then 1 else 0
           | none => 0) := by
  have S := monSeen_of_runMon _ _ h.mon
  have h1 := S.starts i
  have h2 := S.ends i
  rw [count_observe _ (by rfl)] at h1 h2
  rw [h1, h2]
  simp only [List.getElem?_map]
  cases hw : st.workers[i]? with
  | none => simp
  | some w =>
    simp only [Option.map_some, Option.some.injEq, absPhase]
    by_cases h1 : c < w.pc
    · simp [h1]
    · cases h2 : w.inCall <;> simp [h1]

theorem Core.no_events_out_of_range {isMap : Bool} {c L n : Nat} {st : State}
    (h : Core isMap c L n st) (i : Nat) (hi : n ≤ i) :
    Event.callStart i ∉ st.log ∧ Event.callEnd i ∉ st.log := by
  have hnone : st.workers[i]? = none := List.getElem?_eq_none (by rw [h.len]; exact hi)
  have := h.counts i
  rw [hnone] at this
  exact ⟨List.count_eq_zero.1 this.1, List.count_eq_zero.1 this.2⟩

/-- in a returned state every worker has run to the end of its body -/
theorem Core.returned_all {isMap : Bool} {c L n : Nat} {st : State} (h : Core isMap c L n st)
    (hcL : c < L) (hr : st.main = .returned) (i : Nat) (hi : i < n) :
    ∃ w, st.workers[i]? = some w ∧ w.live = true ∧ w.pc = L ∧ w.inCall = false ∧ w.arg = i := by
  have hi' : i < st.workers.length := by rw [h.len]; exact hi
  refine ⟨st.workers[i], List.getElem?_eq_getElem hi', ?_⟩
  have W := h.wk i _ (List.getElem?_eq_getElem hi')
  have hl : st.workers[i].live = true := W.live_iff.2 (by simpa [hr, spawnedCount] using hi)
  have hpc := h.ret hr _ (List.getElem_mem hi')
  refine ⟨hl, hpc, ?_, W.arg hl⟩
  cases hic : st.workers[i].inCall with
  | false => rfl
  | true => have := W.inCall hic; omega

theorem Core.trace_valid {isMap : Bool} {c L n : Nat} {st : State} (h : Core isMap c L n st)
    (hr : st.main = .returned) : validTrace isMap n (observe st.log) = true := by
  simp [validTrace, h.mon, hr]

/-- unless every worker is done, some worker has not reached the end of its body -/
theorem Core.exists_unfinished {isMap : Bool} {c L n : Nat} {st : State}
    (h : Core isMap c L n st) (hn : st.main = .spawned n) (hc : st.counter ≠ 0) :
    ∃ (i : Nat) (w : Worker), st.workers[i]? = some w ∧ w.live = true ∧ w.pc < L := by
  have hcnt := h.counter
  simp only [hn, reduceCtorEq, if_false] at hcnt
  have hle : doneCount L st ≤ st.workers.length := List.countP_le_length
  have hlt : doneCount L st < st.workers.length := by
    rw [h.len] at hle ⊢; omega
  obtain ⟨i, w, hw, hp⟩ := exists_not_of_countP_lt _ hlt
  have W := h.wk i w hw
  have hi := lt_length_of_getElem? hw
  rw [h.len] at hi
  refine ⟨i, w, hw, W.live_iff.2 (by simpa [hn, spawnedCount] using hi), ?_⟩
  have := W.pc_le
  simp only [decide_eq_false_iff_not] at hp
  omega

end Anytype.Async
