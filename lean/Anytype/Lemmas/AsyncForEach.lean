/-
The invariant of `forEachSkel` (body `[call, done]`): every reachable state satisfies `Core`
with `c = 0`, `L = 2`; the mutex is never taken, nothing is written.
-/
import Anytype.Lemmas.AsyncCore
namespace Anytype.Async

structure InvFE (n : Nat) (st : State) : Prop where
  core : Core false 0 2 n st
  mutex : st.mutex = none
  result : st.result = []
  noWrite : ∀ i, Event.write i ∉ st.log

theorem invFE_init (n : Nat) : InvFE n (init forEachSkel n) :=
  ⟨core_init forEachSkel false n (by omega), rfl, rfl, by simp [init]⟩

theorem forEach_body_cases {pc : Nat} {b : BodyStep} (h : forEachSkel.body[pc]? = some b) :
    (pc = 0 ∧ b = .call) ∨ (pc = 1 ∧ b = .done) := by
  match pc, h with
  | 0, h => left; simp [forEachSkel] at h; exact ⟨rfl, h.symm⟩
  | 1, h => right; simp [forEachSkel] at h; exact ⟨rfl, h.symm⟩
  | k + 2, h => simp [forEachSkel] at h

theorem invFE_step {n : Nat} {st : State} {a : Action}
    (h : InvFE n st) (he : isEnabled forEachSkel n st a = true) :
    InvFE n (step forEachSkel n st a) := by
  cases a with
  | add => exact ⟨core_add rfl rfl h.core he, h.mutex, h.result, h.noWrite⟩
  | spawn =>
    refine ⟨core_spawn rfl (by omega) h.core he, ?_, ?_, ?_⟩
    all_goals (simp only [step]; split)
    all_goals first | exact h.mutex | exact h.result | exact h.noWrite
  | wait =>
    refine ⟨core_wait rfl (by omega) h.core he, h.mutex, h.result, ?_⟩
    intro i; simp [step, h.noWrite i]
  | work i =>
    obtain ⟨w, b, hw, hl, hb, _⟩ := isEnabled_work he
    have hstep : step forEachSkel n st (.work i) = stepWorker forEachSkel n st i w := by
      simp [step, hw]
    rw [hstep]
    rcases forEach_body_cases hb with ⟨hpc, rfl⟩ | ⟨hpc, rfl⟩
    · -- the callback statement
      cases hic : w.inCall with
      | false =>
        have e : stepWorker forEachSkel n st i w =
            { st with log := st.log ++ [.callStart w.arg],
                      workers := st.workers.set i { w with inCall := true, arg := w.arg } } := by
          simp only [stepWorker, hb]; simp [hic, readArg, forEachSkel]
        rw [e]
        refine ⟨core_callStart (w' := { w with inCall := true, arg := w.arg }) h.core hw hl
          (by omega) hpc hic (by intro h; cases h) rfl rfl h.core.noPanic h.core.noUnsync rfl rfl
          hl rfl hpc rfl, h.mutex, h.result, ?_⟩
        intro j; simp [h.noWrite j]
      | true =>
        have e : stepWorker forEachSkel n st i w =
            { st with log := st.log ++ [.callEnd w.arg],
                      workers := st.workers.set i { w with pc := w.pc + 1, inCall := false } } := by
          simp only [stepWorker, hb]; simp [hic]
        rw [e]
        refine ⟨core_callEnd (w' := { w with pc := w.pc + 1, inCall := false }) h.core hw hl
          (by omega) hpc hic rfl rfl h.core.noPanic h.core.noUnsync rfl
          (observe_snoc_obs _ (by rfl)) hl rfl (by simp [hpc]) rfl, h.mutex, h.result, ?_⟩
        intro j; simp [h.noWrite j]
    · -- Done
      have e : stepWorker forEachSkel n st i w =
          { st with counter := st.counter - 1,
                    panicked := st.panicked || decide (st.counter - 1 < 0),
                    workers := st.workers.set i { w with pc := w.pc + 1, inCall := false } } := by
        simp only [stepWorker, hb]
      rw [e]
      exact ⟨core_done (w' := { w with pc := w.pc + 1, inCall := false }) h.core hw hl
        (by omega) (by omega) rfl rfl rfl rfl rfl rfl hl rfl (by simp [hpc]) rfl,
        h.mutex, h.result, h.noWrite⟩

theorem invFE_of_reachable {n : Nat} {st : State} (h : Reachable forEachSkel n st) :
    InvFE n st := by
  induction h with
  | init => exact invFE_init n
  | step _ he ih => exact invFE_step ih he

/-- deadlock freedom -/
theorem forEach_progress {n : Nat} {st : State} (h : InvFE n st)
    (hr : st.main ≠ .returned) : ∃ a, isEnabled forEachSkel n st a = true := by
  have hp := h.core.noPanic
  cases hm : st.main with
  | returned => exact absurd hm hr
  | start => exact ⟨.add, by simp [isEnabled, hp, hm]⟩
  | spawned k =>
    have hk := h.core.kle k hm
    by_cases hkn : k < n
    · exact ⟨.spawn, by simp [isEnabled, hp, hm, hkn]⟩
    · have hkn' : k = n := by omega
      rw [hkn'] at hm
      by_cases hc : st.counter = 0
      · exact ⟨.wait, by simp [isEnabled, hp, hm, hc]⟩
      · obtain ⟨i, w, hw, hl, hpc⟩ := h.core.exists_unfinished hm hc
        have hi := lt_length_of_getElem? hw
        rw [h.core.len] at hi
        refine ⟨.work i, ?_⟩
        have hb : ∃ b, forEachSkel.body[w.pc]? = some b ∧ b ≠ .lock := by
          have : w.pc = 0 ∨ w.pc = 1 := by omega
          rcases this with e | e <;> rw [e] <;> simp [forEachSkel]
        obtain ⟨b, hb, hbl⟩ := hb
        simp only [isEnabled, hp, hi, hw, hl, hb]
        cases b <;> simp at hbl ⊢

end Anytype.Async
