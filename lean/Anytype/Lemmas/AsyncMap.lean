/-
The invariant of `mapSkel` (body `[lock, callWrite, unlock, done]`): `Core` with `c = 1`, `L = 4`,
plus: the mutex is held exactly by the worker whose pc is 1 or 2 (so at most one worker is
between `lock` and `unlock`), slot `j` of `result` is written once worker `j` has passed the
`callWrite`, and `write j` occurs exactly then.
-/
import Anytype.Lemmas.AsyncCore
namespace Anytype.Async

/-- between `lock` and `unlock` -/
def Worker.inCS (w : Worker) : Prop := w.pc = 1 ∨ w.pc = 2

structure InvMap (n : Nat) (st : State) : Prop where
  core : Core true 1 4 n st
  cs : ∀ (j : Nat) (w : Worker), st.workers[j]? = some w → (w.inCS ↔ st.mutex = some j)
  holder : ∀ j, st.mutex = some j → j < n
  resLen : st.result.length = n
  res : ∀ (j : Nat) (w : Worker), st.workers[j]? = some w →
    st.result[j]? = some (if 2 ≤ w.pc then some j else none)
  writes : ∀ (j : Nat) (w : Worker), st.workers[j]? = some w →
    st.log.count (.write j) = if 2 ≤ w.pc then 1 else 0
  writesOut : ∀ j, n ≤ j → Event.write j ∉ st.log

theorem init_worker {s : Skel} {n j : Nat} {w : Worker} (h : (init s n).workers[j]? = some w) :
    w = {} ∧ j < n := by
  simp only [init, List.getElem?_replicate] at h
  split at h
  · cases h; exact ⟨rfl, by assumption⟩
  · cases h

theorem invMap_init (n : Nat) : InvMap n (init mapSkel n) := by
  refine ⟨core_init mapSkel true n (by omega), ?_, ?_, ?_, ?_, ?_, ?_⟩
  · intro j w h
    obtain ⟨rfl, _⟩ := init_worker h
    simp [Worker.inCS, init]
  · intro j h; simp [init] at h
  · simp [init, mapSkel]
  · intro j w h
    obtain ⟨rfl, hj⟩ := init_worker h
    simp [init, mapSkel, hj]
  · intro j w h
    obtain ⟨rfl, _⟩ := init_worker h
    simp [init]
  · intro j _; simp [init]

theorem map_body_cases {pc : Nat} {b : BodyStep} (h : mapSkel.body[pc]? = some b) :
    (pc = 0 ∧ b = .lock) ∨ (pc = 1 ∧ b = .callWrite) ∨ (pc = 2 ∧ b = .unlock) ∨
      (pc = 3 ∧ b = .done) := by
  match pc, h with
  | 0, h => simp [mapSkel] at h; simp [← h]
  | 1, h => simp [mapSkel] at h; simp [← h]
  | 2, h => simp [mapSkel] at h; simp [← h]
  | 3, h => simp [mapSkel] at h; simp [← h]
  | k + 4, h => simp [mapSkel] at h

/-- the extra components survive a step of worker `i` that keeps the log's `write`s, the
result and the mutex, and moves the worker within the same "region" -/
theorem invMap_extras_same {n : Nat} {st st' : State} {i : Nat} {w w' : Worker}
    (h : InvMap n st) (hw : st.workers[i]? = some w)
    (hworkers : st'.workers = st.workers.set i w') (hmutex : st'.mutex = st.mutex)
    (hresult : st'.result = st.result)
    (hlog : ∀ j, st'.log.count (.write j) = st.log.count (.write j))
    (hcs : w'.inCS ↔ w.inCS) (h2 : 2 ≤ w'.pc ↔ 2 ≤ w.pc) :
    (∀ (j : Nat) (v : Worker), st'.workers[j]? = some v → (v.inCS ↔ st'.mutex = some j)) ∧
    (∀ j, st'.mutex = some j → j < n) ∧ st'.result.length = n ∧
    (∀ (j : Nat) (v : Worker), st'.workers[j]? = some v →
      st'.result[j]? = some (if 2 ≤ v.pc then some j else none)) ∧
    (∀ (j : Nat) (v : Worker), st'.workers[j]? = some v →
      st'.log.count (.write j) = if 2 ≤ v.pc then 1 else 0) ∧
    (∀ j, n ≤ j → Event.write j ∉ st'.log) := by
  refine ⟨?_, ?_, ?_, ?_, ?_, ?_⟩
  · rw [hworkers, hmutex]
    exact forall_set (P := fun j (v : Worker) => v.inCS ↔ st.mutex = some j) h.cs
      (by rw [hcs]; exact h.cs i w hw)
  · rw [hmutex]; exact h.holder
  · rw [hresult]; exact h.resLen
  · rw [hworkers, hresult]
    refine forall_set (P := fun j (v : Worker) =>
      st.result[j]? = some (if 2 ≤ v.pc then some j else none)) h.res ?_
    have := h.res i w hw
    simp only [h2]; exact this
  · rw [hworkers]
    refine forall_set (P := fun j (v : Worker) =>
      st'.log.count (.write j) = if 2 ≤ v.pc then 1 else 0) ?_ ?_
    · intro j v hv; rw [hlog]; exact h.writes j v hv
    · rw [hlog]; simp only [h2]; exact h.writes i w hw
  · intro j hj
    have := h.writesOut j hj
    rw [← List.count_eq_zero] at this ⊢
    rw [hlog]; exact this

theorem InvMap.mk' {n : Nat} {st : State} (hc : Core true 1 4 n st)
    (hx : (∀ (j : Nat) (v : Worker), st.workers[j]? = some v → (v.inCS ↔ st.mutex = some j)) ∧
    (∀ j, st.mutex = some j → j < n) ∧ st.result.length = n ∧
    (∀ (j : Nat) (v : Worker), st.workers[j]? = some v →
      st.result[j]? = some (if 2 ≤ v.pc then some j else none)) ∧
    (∀ (j : Nat) (v : Worker), st.workers[j]? = some v →
      st.log.count (.write j) = if 2 ≤ v.pc then 1 else 0) ∧
    (∀ j, n ≤ j → Event.write j ∉ st.log)) : InvMap n st :=
  ⟨hc, hx.1, hx.2.1, hx.2.2.1, hx.2.2.2.1, hx.2.2.2.2.1, hx.2.2.2.2.2⟩

theorem invMap_step {n : Nat} {st : State} {a : Action}
    (h : InvMap n st) (he : isEnabled mapSkel n st a = true) :
    InvMap n (step mapSkel n st a) := by
  cases a with
  | add =>
    exact ⟨core_add rfl rfl h.core he, h.cs, h.holder, h.resLen, h.res, h.writes, h.writesOut⟩
  | spawn =>
    have hc := core_spawn rfl (by omega) h.core he
    simp only [isEnabled, Bool.and_eq_true] at he
    cases hm : st.main with
    | start => simp [hm] at he
    | returned => simp [hm] at he
    | spawned k =>
      simp only [hm, decide_eq_true_eq] at he
      have hk' : k < st.workers.length := by rw [h.core.len]; exact he.2
      obtain ⟨w, hw⟩ : ∃ w, st.workers[k]? = some w := ⟨_, List.getElem?_eq_getElem hk'⟩
      have hnl : w.live = false := by
        cases hl : w.live with
        | false => rfl
        | true =>
          have := (h.core.wk k w hw).live_iff.1 hl
          simp [hm, spawnedCount] at this
      have hwd : w = {} := (h.core.wk k w hw).fresh hnl
      subst hwd
      have hs : step mapSkel n st .spawn =
          { st with main := .spawned (k + 1),
                    workers := st.workers.set k
                      { live := true, pc := 0, inCall := false, arg := k } } := by
        simp [step, hm, mapSkel]
      rw [hs] at hc ⊢
      refine InvMap.mk' hc ?_
      exact invMap_extras_same
        (st' := { st with main := .spawned (k + 1),
                          workers := st.workers.set k
                            { live := true, pc := 0, inCall := false, arg := k } })
        h hw rfl rfl rfl (fun _ => rfl) (by simp [Worker.inCS]) (by simp)
  | wait =>
    refine ⟨core_wait rfl (by omega) h.core he, h.cs, h.holder, h.resLen, h.res, ?_, ?_⟩
    · intro j w hw
      simp only [step, count_snoc, reduceCtorEq, if_false, Nat.add_zero]
      exact h.writes j w hw
    · intro j hj; simp [step, h.writesOut j hj]
  | work i =>
    obtain ⟨w, b, hw, hl, hb, hlock⟩ := isEnabled_work he
    have hstep : step mapSkel n st (.work i) = stepWorker mapSkel n st i w := by
      simp [step, hw]
    rw [hstep]
    have hin := lt_length_of_getElem? hw
    rw [h.core.len] at hin
    rcases map_body_cases hb with ⟨hpc, rfl⟩ | ⟨hpc, rfl⟩ | ⟨hpc, rfl⟩ | ⟨hpc, rfl⟩
    · -- Lock
      have hfree := hlock rfl
      have e : stepWorker mapSkel n st i w =
          { st with mutex := some i,
                    workers := st.workers.set i { w with pc := w.pc + 1, inCall := false } } := by
        simp only [stepWorker, hb]
      rw [e]
      refine ⟨core_silent (w' := { w with pc := w.pc + 1, inCall := false }) h.core hw hl
        (by omega) rfl rfl h.core.noPanic h.core.noUnsync rfl rfl hl rfl (by simp; omega) rfl
        ?_, ?_, ?_, h.resLen, ?_, ?_, h.writesOut⟩
      · have := (h.core.wk i w hw).inCall
        simp only [absPhase, hpc]
        cases hic : w.inCall with
        | false => simp
        | true => have := this hic; omega
      · refine forall_set_ne (P := fun j (v : Worker) => v.inCS ↔ some i = some j) ?_ ?_
        · intro j v hji hv
          have := h.cs j v hv
          rw [hfree] at this
          simp only [reduceCtorEq, iff_false] at this
          simp only [this, Option.some.injEq, false_iff]
          omega
        · simp [Worker.inCS, hpc]
      · intro j hj; cases hj; exact hin
      · refine forall_set (P := fun j (v : Worker) =>
          st.result[j]? = some (if 2 ≤ v.pc then some j else none)) h.res ?_
        have := h.res i w hw
        simp only [hpc] at this ⊢
        simpa using this
      · refine forall_set (P := fun j (v : Worker) =>
          st.log.count (.write j) = if 2 ≤ v.pc then 1 else 0) h.writes ?_
        have := h.writes i w hw
        simp only [hpc] at this ⊢
        simpa using this
    · -- result.Replace(i, function(i, x))
      have hhold : st.mutex = some i := (h.cs i w hw).1 (Or.inl hpc)
      cases hic : w.inCall with
      | false =>
        have e : stepWorker mapSkel n st i w =
            { st with log := st.log ++ [.callStart w.arg],
                      workers := st.workers.set i { w with inCall := true, arg := w.arg } } := by
          simp only [stepWorker, hb]; simp [hic, readArg, mapSkel]
        rw [e]
        refine InvMap.mk' ?_ ?_
        · refine core_callStart (w' := { w with inCall := true, arg := w.arg }) h.core hw hl
            (by omega) hpc hic ?_ rfl rfl h.core.noPanic h.core.noUnsync rfl rfl hl rfl hpc rfl
          intro _ j v hv hrun
          simp only [absPhase] at hrun
          split at hrun
          · cases hrun
          · split at hrun
            · next hvc =>
              have hvpc := (h.core.wk j v hv).inCall hvc
              have := (h.cs j v hv).1 (Or.inl hvpc)
              rw [hhold] at this
              cases this
              rw [hw] at hv; cases hv
              rw [hic] at hvc; cases hvc
            · cases hrun
        · exact invMap_extras_same
            (st' := { st with log := _, workers := _ }) h hw rfl rfl rfl
            (by intro j; simp) (by simp [Worker.inCS]) (by simp)
      | true =>
        have ha : w.arg = i := (h.core.wk i w hw).arg hl
        have e : stepWorker mapSkel n st i w =
            { st with log := st.log ++ [.callEnd i, .write i],
                      result := st.result.set i (some i),
                      unsyncWrite := st.unsyncWrite || decide (st.mutex ≠ some i),
                      workers := st.workers.set i { w with pc := w.pc + 1, inCall := false } } := by
          simp only [stepWorker, hb]; simp [hic, ha]
        rw [e]
        refine ⟨core_callEnd (w' := { w with pc := w.pc + 1, inCall := false }) h.core hw hl
          (by omega) hpc hic rfl rfl h.core.noPanic ?_ rfl ?_ hl rfl (by simp [hpc]) rfl,
          ?_, h.holder, by simpa using h.resLen, ?_, ?_, ?_⟩
        · simp [h.core.noUnsync, hhold]
        · simp [observe, List.filter_append, List.filter_cons, Event.observable, ha]
        · refine forall_set (P := fun j (v : Worker) => v.inCS ↔ st.mutex = some j) h.cs ?_
          have := h.cs i w hw
          simp only [Worker.inCS, hpc] at this ⊢
          simpa using this
        · refine forall_set_ne (P := fun j (v : Worker) =>
            (st.result.set i (some i))[j]? = some (if 2 ≤ v.pc then some j else none)) ?_ ?_
          · intro j v hji hv
            rw [List.getElem?_set_ne (by omega)]
            exact h.res j v hv
          · rw [List.getElem?_set_self (by rw [h.resLen]; exact hin)]
            simp [hpc]
        · refine forall_set_ne (P := fun j (v : Worker) =>
            (st.log ++ [Event.callEnd i, Event.write i]).count (.write j)
              = if 2 ≤ v.pc then 1 else 0) ?_ ?_
          · intro j v hji hv
            rw [← h.writes j v hv]
            simp [List.count_append, List.count_cons]
            omega
          · have := h.writes i w hw
            simp only [hpc] at this
            simp [List.count_append, hpc]
            simpa using this
        · intro j hj
          have := h.writesOut j hj
          simp only [List.mem_append, List.mem_cons, reduceCtorEq, Event.write.injEq,
            List.not_mem_nil, or_false, false_or, not_or]
          exact ⟨this, by omega⟩
    · -- Unlock
      have hhold : st.mutex = some i := (h.cs i w hw).1 (Or.inr hpc)
      have e : stepWorker mapSkel n st i w =
          { st with mutex := none,
                    workers := st.workers.set i { w with pc := w.pc + 1, inCall := false } } := by
        simp only [stepWorker, hb]; simp [hhold]
      rw [e]
      refine ⟨core_silent (w' := { w with pc := w.pc + 1, inCall := false }) h.core hw hl
        (by omega) rfl rfl h.core.noPanic h.core.noUnsync rfl rfl hl rfl (by simp; omega) rfl
        ?_, ?_, ?_, h.resLen, ?_, ?_, h.writesOut⟩
      · simp only [absPhase, hpc]; simp
      · refine forall_set_ne (P := fun j (v : Worker) => v.inCS ↔ (none : Option Nat) = some j)
          ?_ ?_
        · intro j v hji hv
          have := h.cs j v hv
          rw [hhold] at this
          simp only [reduceCtorEq, iff_false]
          rw [this]; simp only [Option.some.injEq]; omega
        · simp [Worker.inCS, hpc]
      · intro j hj; cases hj
      · refine forall_set (P := fun j (v : Worker) =>
          st.result[j]? = some (if 2 ≤ v.pc then some j else none)) h.res ?_
        have := h.res i w hw
        simp only [hpc] at this ⊢
        simpa using this
      · refine forall_set (P := fun j (v : Worker) =>
          st.log.count (.write j) = if 2 ≤ v.pc then 1 else 0) h.writes ?_
        have := h.writes i w hw
        simp only [hpc] at this ⊢
        simpa using this
    · -- Done
      have e : stepWorker mapSkel n st i w =
          { st with counter := st.counter - 1,
                    panicked := st.panicked || decide (st.counter - 1 < 0),
                    workers := st.workers.set i { w with pc := w.pc + 1, inCall := false } } := by
        simp only [stepWorker, hb]
      rw [e]
      refine InvMap.mk' ?_ ?_
      · exact core_done (w' := { w with pc := w.pc + 1, inCall := false }) h.core hw hl
          (by omega) (by omega) rfl rfl rfl rfl rfl rfl hl rfl (by simp [hpc]) rfl
      · exact invMap_extras_same
          (st' := { st with counter := _, panicked := _, workers := _ }) h hw rfl rfl rfl
          (fun _ => rfl) (by simp [Worker.inCS, hpc]) (by simp [hpc])

theorem invMap_of_reachable {n : Nat} {st : State} (h : Reachable mapSkel n st) :
    InvMap n st := by
  induction h with
  | init => exact invMap_init n
  | step _ he ih => exact invMap_step ih he

/-- at most one worker is between `lock` and `unlock` -/
theorem InvMap.exclusive {n : Nat} {st : State} (h : InvMap n st) {i j : Nat} {w v : Worker}
    (hw : st.workers[i]? = some w) (hv : st.workers[j]? = some v)
    (hi : w.inCS) (hj : v.inCS) : i = j := by
  have h1 := (h.cs i w hw).1 hi
  have h2 := (h.cs j v hv).1 hj
  rw [h1] at h2
  exact Option.some.inj h2

/-- deadlock freedom -/
theorem map_progress {n : Nat} {st : State} (h : InvMap n st)
    (hr : st.main ≠ .returned) : ∃ a, isEnabled mapSkel n st a = true := by
  have hp := h.core.noPanic
  cases hm : st.main with
  | returned => exact absurd hm hr
  | start => exact ⟨.add, by simp [isEnabled, hp, hm]⟩
  | spawned k =>
    have hk := h.core.kle k hm
    by_cases hkn : k < n
    · exact ⟨.spawn, by simp [isEnabled, hp, hm, hkn]⟩
    · have hkn' : k = n := by omega
      rw [hkn'] at hm
      by_cases hc : st.counter = 0
      · exact ⟨.wait, by simp [isEnabled, hp, hm, hc]⟩
      · obtain ⟨i, w, hw, hl, hpc⟩ := h.core.exists_unfinished hm hc
        have hi := lt_length_of_getElem? hw
        rw [h.core.len] at hi
        -- a worker whose next statement is not `lock` can move
        have move : ∀ (j : Nat) (v : Worker), st.workers[j]? = some v → v.live = true →
            (v.pc = 1 ∨ v.pc = 2 ∨ v.pc = 3) → isEnabled mapSkel n st (.work j) = true := by
          intro j v hv hvl hvpc
          have hj := lt_length_of_getElem? hv
          rw [h.core.len] at hj
          simp only [isEnabled, hp, hj, hv, hvl]
          rcases hvpc with e | e | e <;> rw [e] <;> simp [mapSkel]
        have hcases : w.pc = 0 ∨ (w.pc = 1 ∨ w.pc = 2 ∨ w.pc = 3) := by omega
        rcases hcases with h0 | h123
        · -- at `lock`: either the mutex is free, or its holder can move
          cases hmx : st.mutex with
          | none =>
            exact ⟨.work i, by simp [isEnabled, hp, hi, hw, hl, h0, mapSkel, hmx]⟩
          | some j =>
            have hj := h.holder j hmx
            have hj' : j < st.workers.length := by rw [h.core.len]; exact hj
            have hv := List.getElem?_eq_getElem hj'
            have hcs := (h.cs j _ hv).2 hmx
            have hvl : (st.workers[j]).live = true := by
              cases hl' : (st.workers[j]).live with
              | true => rfl
              | false =>
                have := (h.core.wk j _ hv).fresh hl'
                rw [this] at hcs
                simp [Worker.inCS] at hcs
            exact ⟨.work j, move j _ hv hvl (by rcases hcs with e | e <;> simp [e])⟩
        · exact ⟨.work i, move i w hw hl h123⟩

end Anytype.Async
