/-
The trace monitor behind `validTrace` (Model/Async.lean): unfolding lemmas and what an accepted
(prefix of a) trace looks like, declaratively.
-/
import Anytype.Lemmas.Async
namespace Anytype.Async

/-- induction from the right -/
theorem list_snoc_induction {α} {P : List α → Prop} (nil : P [])
    (snoc : ∀ l a, P l → P (l ++ [a])) : ∀ l, P l := by
  intro l
  have : ∀ r : List α, P r.reverse := by
    intro r
    induction r with
    | nil => exact nil
    | cons a r ih => rw [List.reverse_cons]; exact snoc _ _ ih
  simpa using this l.reverse

theorem runMon_nil (isMap : Bool) (n : Nat) : runMon isMap n [] = some (monInit n) := rfl

theorem runMon_snoc (isMap : Bool) (n : Nat) (tr : List Event) (e : Event) :
    runMon isMap n (tr ++ [e]) = (runMon isMap n tr).bind (fun m => monStep isMap m e) := by
  simp [runMon, List.foldl_append]

theorem observe_snoc_obs (log : List Event) {e : Event} (h : e.observable = true) :
    observe (log ++ [e]) = observe log ++ [e] := by
  simp [observe, List.filter_append, h]

theorem observe_snoc_write (log : List Event) (i : Nat) :
    observe (log ++ [.write i]) = observe log := by
  simp [observe, List.filter_append, Event.observable]

theorem count_observe (log : List Event) {e : Event} (h : e.observable = true) :
    (observe log).count e = log.count e :=
  List.count_filter h

/-! ### what the monitor has seen -/

def Phase.started : Phase → Bool
  | .idle => false
  | _ => true

/-- relation between a trace and the monitor state it leads to -/
structure MonSeen (n : Nat) (tr : List Event) (m : Mon) : Prop where
  len : m.phases.length = n
  starts : ∀ i, tr.count (.callStart i)
      = if m.phases[i]? = some .running ∨ m.phases[i]? = some .finished then 1 else 0
  ends : ∀ i, tr.count (.callEnd i) = if m.phases[i]? = some .finished then 1 else 0
  noWrite : ∀ i, Event.write i ∉ tr
  rets : tr.count .ret = if m.ret = true then 1 else 0
  retLast : m.ret = true → tr.getLast? = some .ret
  retAll : m.ret = true → ∀ p ∈ m.phases, p = Phase.finished

theorem count_snoc (tr : List Event) (a e : Event) :
    (tr ++ [a]).count e = tr.count e + if a = e then 1 else 0 := by
  simp [List.count_append, List.count_singleton]

theorem monSeen_of_runMon {isMap : Bool} {n : Nat} :
    ∀ (tr : List Event) (m : Mon), runMon isMap n tr = some m → MonSeen n tr m := by
  intro tr
  induction tr using list_snoc_induction with
  | nil =>
    intro m h
    rw [runMon_nil] at h
    cases h
    refine ⟨by simp [monInit], ?_, ?_, by simp, by simp [monInit], by simp [monInit],
      by simp [monInit]⟩
    · intro i; simp [monInit, List.getElem?_replicate]
    · intro i; simp [monInit, List.getElem?_replicate]
  | snoc tr a ih =>
    intro m' h
    rw [runMon_snoc] at h
    cases hm : runMon isMap n tr with
    | none => rw [hm] at h; cases h
    | some m =>
      rw [hm] at h
      simp only [Option.bind_some] at h
      have S := ih m hm
      cases a with
      | callStart j =>
        simp only [monStep] at h
        split at h
        · next hc =>
          obtain ⟨hr, hj, _⟩ := hc
          cases h
          have hjl : j < m.phases.length := lt_length_of_getElem? hj
          refine ⟨by simpa using S.len, ?_, ?_, ?_, ?_, ?_, ?_⟩
          · intro i
            rw [count_snoc, S.starts i]
            simp only [List.getElem?_set]
            by_cases hij : j = i
            · subst hij; rw [hj]; simp [hjl]
            · simp [hij]
          · intro i
            rw [count_snoc, S.ends i]
            simp only [List.getElem?_set]
            by_cases hij : j = i
            · subst hij; rw [hj]; simp [hjl]
            · simp [hij]
          · intro i; simp [S.noWrite i]
          · rw [count_snoc, S.rets]; simp
          · intro h; simp [hr] at h
          · intro h; simp [hr] at h
        · cases h
      | callEnd j =>
        simp only [monStep] at h
        split at h
        · next hc =>
          obtain ⟨hr, hj⟩ := hc
          cases h
          have hjl : j < m.phases.length := lt_length_of_getElem? hj
          refine ⟨by simpa using S.len, ?_, ?_, ?_, ?_, ?_, ?_⟩
          · intro i
            rw [count_snoc, S.starts i]
            simp only [List.getElem?_set]
            by_cases hij : j = i
            · subst hij; rw [hj]; simp [hjl]
            · simp [hij]
          · intro i
            rw [count_snoc, S.ends i]
            simp only [List.getElem?_set]
            by_cases hij : j = i
            · subst hij; rw [hj]; simp [hjl]
            · simp [hij]
          · intro i; simp [S.noWrite i]
          · rw [count_snoc, S.rets]; simp
          · intro h; simp [hr] at h
          · intro h; simp [hr] at h
        · cases h
      | write j => simp [monStep] at h
      | ret =>
        simp only [monStep] at h
        split at h
        · next hc =>
          obtain ⟨hr, hall⟩ := hc
          cases h
          refine ⟨S.len, ?_, ?_, ?_, ?_, ?_, ?_⟩
          · intro i; rw [count_snoc, S.starts i]; simp
          · intro i; rw [count_snoc, S.ends i]; simp
          · intro i; simp [S.noWrite i]
          · rw [count_snoc, S.rets]; simp [hr]
          · intro _; simp
          · intro _; exact hall
        · cases h

/-- **what `validTrace` accepts** (counts): every index below `n` is entered exactly once and left
exactly once, nothing else occurs, `ret` occurs exactly once and is the last event -/
theorem validTrace_counts {isMap : Bool} {n : Nat} {tr : List Event}
    (h : validTrace isMap n tr = true) :
    (∀ i, i < n → tr.count (.callStart i) = 1 ∧ tr.count (.callEnd i) = 1) ∧
    (∀ i, n ≤ i → Event.callStart i ∉ tr ∧ Event.callEnd i ∉ tr) ∧
    (∀ i, Event.write i ∉ tr) ∧
    tr.count .ret = 1 ∧ tr.getLast? = some .ret := by
  simp only [validTrace] at h
  cases hm : runMon isMap n tr with
  | none => simp [hm] at h
  | some m =>
    simp only [hm] at h
    have S := monSeen_of_runMon tr m hm
    have hfin : ∀ i, i < n → m.phases[i]? = some .finished := by
      intro i hi
      have hi' : i < m.phases.length := by rw [S.len]; exact hi
      rw [List.getElem?_eq_getElem hi']
      exact congrArg some (S.retAll h _ (List.getElem_mem hi'))
    refine ⟨?_, ?_, S.noWrite, by rw [S.rets]; simp [h], S.retLast h⟩
    · intro i hi
      rw [S.starts i, S.ends i, hfin i hi]; simp
    · intro i hi
      have hnone : m.phases[i]? = none := List.getElem?_eq_none (by rw [S.len]; exact hi)
      have h1 := S.starts i
      have h2 := S.ends i
      rw [hnone] at h1 h2
      simp only [reduceCtorEq, or_self, if_false] at h1 h2
      exact ⟨List.count_eq_zero.1 h1, List.count_eq_zero.1 h2⟩

/-! ### order of the events in an accepted trace -/

theorem idxOf_snoc_of_mem {tr : List Event} {e : Event} (a : Event) (h : e ∈ tr) :
    (tr ++ [a]).idxOf e = tr.idxOf e := by
  simp [List.idxOf_append, h]

theorem idxOf_snoc_self {tr : List Event} {e : Event} (h : e ∉ tr) :
    (tr ++ [e]).idxOf e = tr.length := by
  simp [List.idxOf_append, h]

theorem MonSeen.mem_start {n : Nat} {tr : List Event} {m : Mon} (S : MonSeen n tr m) {i : Nat}
    (h : m.phases[i]? = some .running ∨ m.phases[i]? = some .finished) :
    Event.callStart i ∈ tr := by
  rw [← List.count_pos_iff, S.starts i, if_pos h]; omega

theorem MonSeen.mem_end {n : Nat} {tr : List Event} {m : Mon} (S : MonSeen n tr m) {i : Nat}
    (h : m.phases[i]? = some .finished) : Event.callEnd i ∈ tr := by
  rw [← List.count_pos_iff, S.ends i, if_pos h]; omega

theorem MonSeen.not_mem_start {n : Nat} {tr : List Event} {m : Mon} (S : MonSeen n tr m) {i : Nat}
    (h : m.phases[i]? = some .idle) : Event.callStart i ∉ tr := by
  rw [← List.count_eq_zero, S.starts i, h]; simp

theorem MonSeen.not_mem_end {n : Nat} {tr : List Event} {m : Mon} (S : MonSeen n tr m) {i : Nat}
    (h : m.phases[i]? = some .running) : Event.callEnd i ∉ tr := by
  rw [← List.count_eq_zero, S.ends i, h]; simp

/-- the order facts the monitor guarantees -/
structure MonOrder (isMap : Bool) (tr : List Event) (m : Mon) : Prop where
  order : ∀ (i : Nat), m.phases[i]? = some Phase.finished →
    tr.idxOf (.callStart i) < tr.idxOf (.callEnd i)
  one : isMap = true → ∀ (i j : Nat), m.phases[i]? = some Phase.running →
    m.phases[j]? = some Phase.running → i = j
  disj : isMap = true → ∀ (i j : Nat), i ≠ j → m.phases[i]? = some Phase.finished →
    (m.phases[j]? = some Phase.running ∨ m.phases[j]? = some Phase.finished) →
    tr.idxOf (.callEnd i) < tr.idxOf (.callStart j) ∨
      (m.phases[j]? = some Phase.finished ∧ tr.idxOf (.callEnd j) < tr.idxOf (.callStart i))

theorem getElem?_set_phase {l : List Phase} {j i : Nat} {x : Phase} (hj : j < l.length) :
    (l.set j x)[i]? = if j = i then some x else l[i]? := by
  rw [List.getElem?_set]; simp [hj]

theorem monOrder_of_runMon {isMap : Bool} {n : Nat} :
    ∀ (tr : List Event) (m : Mon), runMon isMap n tr = some m → MonOrder isMap tr m := by
  intro tr
  induction tr using list_snoc_induction with
  | nil =>
    intro m h
    rw [runMon_nil] at h
    cases h
    have hidle : ∀ (i : Nat) (p : Phase), (monInit n).phases[i]? = some p → p = Phase.idle := by
      intro i p h
      simp only [monInit, List.getElem?_replicate] at h
      split at h
      · cases h; rfl
      · cases h
    refine ⟨?_, ?_, ?_⟩
    · intro i h; cases hidle i _ h
    · intro _ i j h; cases hidle i _ h
    · intro _ i j _ h; cases hidle i _ h
  | snoc tr a ih =>
    intro m' h
    rw [runMon_snoc] at h
    cases hm : runMon isMap n tr with
    | none => rw [hm] at h; cases h
    | some m =>
      rw [hm] at h
      simp only [Option.bind_some] at h
      have S := monSeen_of_runMon tr m hm
      have O := ih m hm
      cases a with
      | write j => simp [monStep] at h
      | ret =>
        simp only [monStep] at h
        split at h
        · cases h
          refine ⟨?_, O.one, ?_⟩
          · intro i hi
            rw [idxOf_snoc_of_mem _ (S.mem_start (Or.inr hi)), idxOf_snoc_of_mem _ (S.mem_end hi)]
            exact O.order i hi
          · intro hM i j hij hi hj
            rw [idxOf_snoc_of_mem _ (S.mem_end hi), idxOf_snoc_of_mem _ (S.mem_start hj),
              idxOf_snoc_of_mem _ (S.mem_start (Or.inr hi))]
            rcases O.disj hM i j hij hi hj with h1 | ⟨h1, h2⟩
            · exact Or.inl h1
            · right; rw [idxOf_snoc_of_mem _ (S.mem_end h1)]; exact ⟨h1, h2⟩
        · cases h
      | callStart j0 =>
        simp only [monStep] at h
        split at h
        · next hc =>
          obtain ⟨_, hj0, hnorun⟩ := hc
          cases h
          have hl : j0 < m.phases.length := lt_length_of_getElem? hj0
          have norun : isMap = true → ∀ (i : Nat), m.phases[i]? ≠ some Phase.running := by
            intro hM i hi
            exact hnorun hM _ (List.mem_iff_getElem?.2 ⟨i, hi⟩) rfl
          have hnew : Event.callStart j0 ∉ tr := S.not_mem_start hj0
          refine ⟨?_, ?_, ?_⟩
          · intro i hi
            simp only [getElem?_set_phase hl] at hi
            split at hi
            · cases hi
            · rw [idxOf_snoc_of_mem _ (S.mem_start (Or.inr hi)), idxOf_snoc_of_mem _ (S.mem_end hi)]
              exact O.order i hi
          · intro hM i j hi hj
            simp only [getElem?_set_phase hl] at hi hj
            split at hi
            · split at hj
              · omega
              · exact absurd hj (norun hM j)
            · exact absurd hi (norun hM i)
          · intro hM i j hij hi hj
            simp only [getElem?_set_phase hl] at hi hj ⊢
            split at hi
            · cases hi
            · next hne =>
              rw [idxOf_snoc_of_mem _ (S.mem_end hi)]
              split at hj
              · next he =>
                subst he
                left
                rw [idxOf_snoc_self hnew]
                exact List.idxOf_lt_length_of_mem (S.mem_end hi)
              · next hne' =>
                rw [idxOf_snoc_of_mem _ (S.mem_start hj),
                  idxOf_snoc_of_mem _ (S.mem_start (Or.inr hi))]
                rcases O.disj hM i j hij hi hj with h1 | ⟨h1, h2⟩
                · exact Or.inl h1
                · right
                  rw [if_neg hne', idxOf_snoc_of_mem _ (S.mem_end h1)]
                  exact ⟨h1, h2⟩
        · cases h
      | callEnd j0 =>
        simp only [monStep] at h
        split at h
        · next hc =>
          obtain ⟨_, hj0⟩ := hc
          cases h
          have hl : j0 < m.phases.length := lt_length_of_getElem? hj0
          have hnew : Event.callEnd j0 ∉ tr := S.not_mem_end hj0
          have hst0 : Event.callStart j0 ∈ tr := S.mem_start (Or.inl hj0)
          refine ⟨?_, ?_, ?_⟩
          · intro i hi
            simp only [getElem?_set_phase hl] at hi
            split at hi
            · next he =>
              subst he
              rw [idxOf_snoc_of_mem _ hst0, idxOf_snoc_self hnew]
              exact List.idxOf_lt_length_of_mem hst0
            · rw [idxOf_snoc_of_mem _ (S.mem_start (Or.inr hi)), idxOf_snoc_of_mem _ (S.mem_end hi)]
              exact O.order i hi
          · intro hM i j hi hj
            simp only [getElem?_set_phase hl] at hi hj
            split at hi
            · cases hi
            · split at hj
              · cases hj
              · exact O.one hM i j hi hj
          · intro hM i j hij hi hj
            simp only [getElem?_set_phase hl] at hi hj ⊢
            split at hi
            · next he =>
              -- i = j0 has just finished; j ≠ j0 was finished before
              subst he
              rw [if_neg hij] at hj ⊢
              have hjf : m.phases[j]? = some .finished := by
                rcases hj with hj | hj
                · exact absurd (O.one hM _ _ hj0 hj) hij
                · exact hj
              right
              refine ⟨hjf, ?_⟩
              rw [idxOf_snoc_of_mem _ (S.mem_end hjf), idxOf_snoc_of_mem _ hst0]
              rcases O.disj hM j j0 (fun e => hij e.symm) hjf (Or.inl hj0) with h1 | ⟨h1, _⟩
              · exact h1
              · rw [hj0] at h1; cases h1
            · next hne =>
              rw [idxOf_snoc_of_mem _ (S.mem_end hi),
                idxOf_snoc_of_mem _ (S.mem_start (Or.inr hi))]
              split at hj
              · next he =>
                subst he
                left
                rw [idxOf_snoc_of_mem _ hst0]
                rcases O.disj hM i j0 hij hi (Or.inl hj0) with h1 | ⟨h1, _⟩
                · exact h1
                · rw [hj0] at h1; cases h1
              · next hne' =>
                rw [idxOf_snoc_of_mem _ (S.mem_start hj)]
                rcases O.disj hM i j hij hi hj with h1 | ⟨h1, h2⟩
                · exact Or.inl h1
                · right
                  rw [if_neg hne', idxOf_snoc_of_mem _ (S.mem_end h1)]
                  exact ⟨h1, h2⟩
        · cases h

/-- **what `validTrace` accepts** (order): every callback is entered before it is left, and for
Map the intervals `[callStart i, callEnd i]` are pairwise disjoint -/
theorem validTrace_order {isMap : Bool} {n : Nat} {tr : List Event}
    (h : validTrace isMap n tr = true) :
    (∀ i, i < n → tr.idxOf (.callStart i) < tr.idxOf (.callEnd i)) ∧
    (isMap = true → ∀ i j, i < n → j < n → i ≠ j →
      tr.idxOf (.callEnd i) < tr.idxOf (.callStart j) ∨
      tr.idxOf (.callEnd j) < tr.idxOf (.callStart i)) := by
  simp only [validTrace] at h
  cases hm : runMon isMap n tr with
  | none => simp [hm] at h
  | some m =>
    simp only [hm] at h
    have S := monSeen_of_runMon tr m hm
    have O := monOrder_of_runMon tr m hm
    have hfin : ∀ i, i < n → m.phases[i]? = some .finished := by
      intro i hi
      have hi' : i < m.phases.length := by rw [S.len]; exact hi
      rw [List.getElem?_eq_getElem hi']
      exact congrArg some (S.retAll h _ (List.getElem_mem hi'))
    refine ⟨fun i hi => O.order i (hfin i hi), ?_⟩
    intro hM i j hi hj hij
    rcases O.disj hM i j hij (hfin i hi) (Or.inr (hfin j hj)) with h1 | ⟨_, h2⟩
    · exact Or.inl h1
    · exact Or.inr h2

end Anytype.Async
