/-
Both accepted skeletons at once: the invariants of `AsyncForEach` / `AsyncMap` as functions of a
well-formed skeleton, runs and their length, and the agreement of the executable checker
(`violation?`, `deadlocked`) with the proved invariants.
-/
import Anytype.Lemmas.AsyncForEach
import Anytype.Lemmas.AsyncMap
namespace Anytype.Async

/-- the position of the callback statement in the body -/
def callPos (s : Skel) : Nat := if s.hasResult then 1 else 0

theorem wf_cases {s : Skel} (h : WellFormed s = true) : s = forEachSkel ∨ s = mapSkel := by
  simpa [WellFormed] using h

theorem core_of_wf {s : Skel} {n : Nat} {st : State} (hwf : WellFormed s = true)
    (hr : Reachable s n st) : Core s.hasResult (callPos s) s.body.length n st := by
  rcases wf_cases hwf with rfl | rfl
  · exact (invFE_of_reachable hr).core
  · exact (invMap_of_reachable hr).core

theorem callPos_lt {s : Skel} (hwf : WellFormed s = true) : callPos s + 1 < s.body.length := by
  rcases wf_cases hwf with rfl | rfl <;> decide

/-! ### the counter is never negative -/

theorem Core.counter_nonneg {isMap : Bool} {c L n : Nat} {st : State}
    (h : Core isMap c L n st) (hL : 0 < L) : 0 ≤ st.counter := by
  have hcnt := h.counter
  have hle : doneCount L st ≤ st.workers.length := List.countP_le_length
  rw [h.len] at hle
  by_cases hs : st.main = .start
  · have : doneCount L st = 0 := by
      simp only [doneCount]
      rw [List.countP_eq_zero]
      intro w hw
      obtain ⟨j, hj⟩ := List.mem_iff_getElem?.1 hw
      have W := h.wk j w hj
      have hnl : w.live = false := by
        cases hl : w.live with
        | false => rfl
        | true =>
          have := W.live_iff.1 hl
          simp [hs, spawnedCount] at this
      rw [W.fresh hnl]; simp; omega
    rw [if_pos hs, this] at hcnt
    omega
  · rw [if_neg hs] at hcnt
    omega

/-! ### what a worker step appends to the log -/

theorem stepWorker_log {s : Skel} {n : Nat} {st : State} {i : Nat} {w : Worker}
    (hs : s.args = .byValue) :
    ∃ evs, (stepWorker s n st i w).log = st.log ++ evs ∧
      (∀ e ∈ evs, e.index? = some w.arg) ∧
      (∀ j, Event.write j ∈ evs → s.body[w.pc]? = some .callWrite ∧ w.inCall = true) := by
  have hra : readArg s n st w = w.arg := by simp [readArg, hs]
  unfold stepWorker
  cases hb : s.body[w.pc]? with
  | none => exact ⟨[], by simp, by simp, by simp⟩
  | some b =>
    cases b with
    | lock => exact ⟨[], by simp, by simp, by simp⟩
    | unlock => dsimp only; split <;> exact ⟨[], by simp, by simp, by simp⟩
    | call =>
      dsimp only
      split
      · exact ⟨[.callEnd w.arg], rfl, by simp [Event.index?], by simp⟩
      · exact ⟨[.callStart w.arg], by simp [hra], by simp [Event.index?], by simp⟩
    | callWrite =>
      dsimp only
      split
      · next hic =>
        exact ⟨[.callEnd w.arg, .write w.arg], rfl, by simp [Event.index?], fun _ _ => ⟨rfl, hic⟩⟩
      · exact ⟨[.callStart w.arg], by simp [hra], by simp [Event.index?], by simp⟩
    | done => exact ⟨[], by simp, by simp, by simp⟩
    | «opaque» src => exact ⟨[], by simp, by simp, by simp⟩

/-! ### runs -/

/-- `Run s n st as st'`: the schedule `as` leads from `st` to `st'` -/
inductive Run (s : Skel) (n : Nat) : State → List Action → State → Prop
  | nil (st : State) : Run s n st [] st
  | cons {st st' : State} {a : Action} {as : List Action} :
      isEnabled s n st a = true → Run s n (step s n st a) as st' → Run s n st (a :: as) st'

theorem Run.reachable {s : Skel} {n : Nat} {st st' : State} {as : List Action}
    (h : Run s n st as st') (hr : Reachable s n st) : Reachable s n st' := by
  induction h with
  | nil => exact hr
  | cons he _ ih => exact ih (Reachable.step hr he)

/-- a run of `k` steps lowers the measure by at least `k` (any skeleton) -/
theorem Run.length_le {s : Skel} {n : Nat} {st st' : State} {as : List Action}
    (h : Run s n st as st') (hr : Reachable s n st) :
    as.length + measure s n st' ≤ measure s n st := by
  induction h with
  | nil => simp
  | cons he _ ih =>
    have := measure_step_lt (basic_of_reachable hr) he
    have := ih (Reachable.step hr he)
    simp only [List.length_cons]
    omega

theorem measure_init (s : Skel) (n : Nat) :
    measure s n (init s n) = n + 2 + n * (2 * s.body.length) := by
  simp [measure, init, mainMeasure, workerMeasure, List.map_replicate]

/-! ### the checker agrees with the invariants -/

theorem countP_le_one {α} (p : α → Bool) (l : List α)
    (h : ∀ (i j : Nat) (a b : α), l[i]? = some a → l[j]? = some b → p a = true → p b = true →
      i = j) : l.countP p ≤ 1 := by
  induction l with
  | nil => simp
  | cons x xs ih =>
    have ih' := ih (fun i j a b ha hb pa pb => by
      have := h (i + 1) (j + 1) a b (by simpa using ha) (by simpa using hb) pa pb
      omega)
    by_cases hx : p x = true
    · have : xs.countP p = 0 := by
        rw [List.countP_eq_zero]
        intro a ha pa
        obtain ⟨j, hj⟩ := List.mem_iff_getElem?.1 ha
        have := h 0 (j + 1) x a (by simp) (by simpa using hj) hx pa
        omega
      simp [hx, this]
    · simpa [List.countP_cons, hx] using ih'

/-- every component of the executable safety check, from the common part of the invariant -/
theorem violation_none_of {s : Skel} {n : Nat} {st : State}
    (hwf : WellFormed s = true) (hc : Core s.hasResult (callPos s) s.body.length n st)
    (hwrite : ∀ j, st.log.count (.write j) ≤ 1) (hwriteOut : ∀ j, n ≤ j → Event.write j ∉ st.log)
    (hexcl : s.hasResult = true → st.workers.countP (·.inCall) ≤ 1)
    (hres : s.hasResult = true → st.main = .returned → st.result = (List.range n).map some) :
    violation? s n st = none := by
  have hcl := callPos_lt hwf
  have hshape : s.unrecognised = false := by
    rcases wf_cases hwf with rfl | rfl <;> decide
  have hidx : st.log.any (Event.outOfRange n) = false := by
    rw [List.any_eq_false]
    intro e he
    cases e with
    | callStart i =>
      simp only [Event.outOfRange, Event.index?, decide_eq_true_eq]
      intro hi; exact (hc.no_events_out_of_range i hi).1 he
    | callEnd i =>
      simp only [Event.outOfRange, Event.index?, decide_eq_true_eq]
      intro hi; exact (hc.no_events_out_of_range i hi).2 he
    | write i =>
      simp only [Event.outOfRange, Event.index?, decide_eq_true_eq]
      intro hi; exact hwriteOut i hi he
    | ret => simp [Event.outOfRange, Event.index?]
  have hstart : (List.range n).any (fun i => decide (1 < st.log.count (.callStart i))) = false := by
    rw [List.any_eq_false]
    intro i _
    have := (hc.counts i).1
    simp only [decide_eq_true_eq]
    rw [this]
    split
    · split <;> omega
    · omega
  have hwr : (List.range n).any (fun i => decide (1 < st.log.count (.write i))) = false := by
    rw [List.any_eq_false]
    intro i _
    have := hwrite i
    simp only [decide_eq_true_eq]; omega
  have harg : st.workers.zipIdx.any (fun p => p.1.live && decide (p.1.arg ≠ p.2)) = false := by
    rw [List.any_eq_false]
    intro p hp
    rw [List.mem_zipIdx_iff_getElem?] at hp
    have W := hc.wk p.2 p.1 hp
    cases hl : p.1.live with
    | false => simp
    | true => simp [W.arg hl]
  have hov : (s.hasResult && decide (1 < st.workers.countP (·.inCall))) = false := by
    cases hh : s.hasResult with
    | false => simp
    | true => have := hexcl hh; simp; omega
  unfold violation?
  rw [if_neg (by simp [hc.noPanic]), if_neg (by simp [hc.noUnsync]),
    if_neg (by rw [hshape]; exact Bool.false_ne_true),
    if_neg (by rw [hidx]; exact Bool.false_ne_true),
    if_neg (by rw [hstart]; exact Bool.false_ne_true),
    if_neg (by rw [hwr]; exact Bool.false_ne_true),
    if_neg (by rw [harg]; exact Bool.false_ne_true),
    if_neg (by rw [hov]; exact Bool.false_ne_true)]
  cases hm : st.main with
  | start => rfl
  | spawned k => rfl
  | returned =>
    dsimp only
    have hfin : st.workers.all (Worker.finished s) = true := by
      rw [List.all_eq_true]
      intro w hw
      simp [Worker.finished, hc.ret hm w hw]
    rw [if_neg (by simp [hfin]), if_neg (by simp [hc.trace_valid hm])]
    cases hh : s.hasResult with
    | false => simp
    | true => simp [hres hh hm]

/-! ### the Map-specific parts -/

/-- in a returned state, slot `j` holds the value computed from element `j` -/
theorem map_result_returned {n : Nat} {st : State} (h : InvMap n st)
    (hr : st.main = .returned) : st.result = (List.range n).map some := by
  apply List.ext_getElem?
  intro j
  by_cases hj : j < n
  · obtain ⟨w, hw, _, hpc, _, _⟩ := h.core.returned_all (by omega) hr j hj
    rw [h.res j w hw, hpc]
    simp [List.getElem?_range hj]
  · rw [List.getElem?_eq_none (by rw [h.resLen]; omega),
      List.getElem?_eq_none (by simp; omega)]

theorem map_write_count_le {n : Nat} {st : State} (h : InvMap n st) (j : Nat) :
    st.log.count (.write j) ≤ 1 := by
  by_cases hj : j < n
  · have hj' : j < st.workers.length := by rw [h.core.len]; exact hj
    rw [h.writes j _ (List.getElem?_eq_getElem hj')]
    split <;> omega
  · have := List.count_eq_zero.2 (h.writesOut j (by omega))
    omega

theorem map_inCall_le_one {n : Nat} {st : State} (h : InvMap n st) :
    st.workers.countP (·.inCall) ≤ 1 := by
  apply countP_le_one
  intro i j a b ha hb pa pb
  exact h.exclusive ha hb (Or.inl ((h.core.wk i a ha).inCall pa))
    (Or.inl ((h.core.wk j b hb).inCall pb))

/-- a `write j` event is appended only by worker `j`, and only while it holds the mutex -/
theorem map_write_owner {n : Nat} {st : State} {i : Nat} (h : InvMap n st)
    (he : isEnabled mapSkel n st (.work i) = true) (j : Nat)
    (hj : Event.write j ∈ (step mapSkel n st (.work i)).log) :
    Event.write j ∈ st.log ∨ (j = i ∧ st.mutex = some i) := by
  obtain ⟨w, b, hw, hl, hb, _⟩ := isEnabled_work he
  have hstep : step mapSkel n st (.work i) = stepWorker mapSkel n st i w := by
    simp [step, hw]
  rw [hstep] at hj
  obtain ⟨evs, hlog, hidx, hwr⟩ :=
    stepWorker_log (s := mapSkel) (n := n) (st := st) (i := i) (w := w) rfl
  rw [hlog, List.mem_append] at hj
  rcases hj with hj | hj
  · exact Or.inl hj
  · right
    have h1 := hidx _ hj
    simp only [Event.index?, Option.some.injEq] at h1
    have ha := (h.core.wk i w hw).arg hl
    obtain ⟨hcw, _⟩ := hwr j hj
    have hpc : w.pc = 1 := by
      rcases map_body_cases hcw with ⟨_, e⟩ | ⟨e, _⟩ | ⟨_, e⟩ | ⟨_, e⟩
      · cases e
      · exact e
      · cases e
      · cases e
    exact ⟨by omega, (h.cs i w hw).1 (Or.inl hpc)⟩

/-! ### both skeletons -/

theorem progress_wf {s : Skel} {n : Nat} {st : State} (hwf : WellFormed s = true)
    (hr : Reachable s n st) (hnr : st.main ≠ .returned) :
    ∃ a, isEnabled s n st a = true := by
  rcases wf_cases hwf with rfl | rfl
  · exact forEach_progress (invFE_of_reachable hr) hnr
  · exact map_progress (invMap_of_reachable hr) hnr

theorem violation_none {s : Skel} {n : Nat} {st : State} (hwf : WellFormed s = true)
    (hr : Reachable s n st) : violation? s n st = none := by
  have hc := core_of_wf hwf hr
  rcases wf_cases hwf with rfl | rfl
  · have I := invFE_of_reachable hr
    refine violation_none_of hwf hc ?_ (fun j _ => I.noWrite j) ?_ ?_
    · intro j; rw [List.count_eq_zero.2 (I.noWrite j)]; omega
    · intro h; cases h
    · intro h; cases h
  · have I := invMap_of_reachable hr
    exact violation_none_of hwf hc (map_write_count_le I) I.writesOut
      (fun _ => map_inCall_le_one I) (fun _ hm => map_result_returned I hm)

theorem not_deadlocked {s : Skel} {n : Nat} {st : State} (hwf : WellFormed s = true)
    (hr : Reachable s n st) : deadlocked s n st = false := by
  simp only [deadlocked]
  cases hm : st.main with
  | returned => simp
  | start =>
    obtain ⟨a, ha⟩ := progress_wf hwf hr (by rw [hm]; intro h; cases h)
    have := mem_enabled.2 ha
    cases he : enabled s n st with
    | nil => rw [he] at this; cases this
    | cons x xs => simp
  | spawned k =>
    obtain ⟨a, ha⟩ := progress_wf hwf hr (by rw [hm]; intro h; cases h)
    have := mem_enabled.2 ha
    cases he : enabled s n st with
    | nil => rw [he] at this; cases this
    | cons x xs => simp

/-! ### explicit schedules (for non-vacuity examples) -/

/-- run a schedule, checking that every action is enabled -/
def runSchedule (s : Skel) (n : Nat) : State → List Action → Option State
  | st, [] => some st
  | st, a :: as => if isEnabled s n st a = true then runSchedule s n (step s n st a) as else none

theorem reachable_of_runSchedule {s : Skel} {n : Nat} {as : List Action} :
    ∀ {st st' : State}, Reachable s n st → runSchedule s n st as = some st' →
      Reachable s n st' := by
  induction as with
  | nil => intro st st' hr h; simp only [runSchedule, Option.some.injEq] at h; exact h ▸ hr
  | cons a as ih =>
    intro st st' hr h
    simp only [runSchedule] at h
    split at h
    · next he => exact ih (Reachable.step hr he) h
    · cases h

/-- a worker that has executed more `lock`s than `unlock`s -/
def betweenLockUnlock (s : Skel) (w : Worker) : Prop :=
  (s.body.take w.pc).count .unlock < (s.body.take w.pc).count .lock

theorem between_map_iff {w : Worker} (h : w.pc ≤ 4) :
    betweenLockUnlock mapSkel w ↔ w.inCS := by
  have : w.pc = 0 ∨ w.pc = 1 ∨ w.pc = 2 ∨ w.pc = 3 ∨ w.pc = 4 := by omega
  rcases this with e | e | e | e | e <;>
    simp [betweenLockUnlock, Worker.inCS, mapSkel, e]

theorem between_forEach {w : Worker} : ¬ betweenLockUnlock forEachSkel w := by
  have : ∀ k, (forEachSkel.body.take k).count .lock = 0 := by
    intro k
    rw [List.count_eq_zero]
    intro h
    have := List.mem_of_mem_take h
    simp [forEachSkel] at this
  simp [betweenLockUnlock, this]

end Anytype.Async
