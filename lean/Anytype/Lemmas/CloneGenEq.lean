/-
`copy()` / `isEqual()` of the seven field types, `Clone`, `Equals` (anytype.go, list_impl.go,
object_impl.go): the definitions `vextract` translates from the Go source
(`Anytype/Generated/CloneGen.lean`, regenerated on every run) against the hand-written model.

The hand-written model does not walk the heap (`O.clone h v = (reifyF h v).map (build h)`,
`Equals` is `equalsJ` of the two reified trees), the Go code does.  So this file has three layers:

1. `CloneRef`: a hand-written heap walk, the reference the generated definitions are compared with
   (same conventions as the translator: fuel, heap passing, `Out` for panics);
2. refinement of the walk to the model:
   * `copyRef_spec`: on a heap where `v` reifies to `t` (object keys distinct, ints in the Go `int`
     range) the walk succeeds without a panic, only appends cells, and the value it returns denotes
     `t` through the new cells alone (`Rf.Denotes`) — the very specification `Rf.clone_spec` proves
     of the model's `O.clone`.  The Go code allocates a container *before* its children, `build`
     after them, so the two heaps are equal only up to this renaming of the fresh addresses.
   * `isEqualRef_spec`: the walk returns `equalsJ` of the two reified trees, whatever the embedding
     levels of the references involved (`another.(List)` holds for a derived type and `base()` yields
     the cell itself), provided the object keys of the receiver are distinct.
3. `…Gen_eq`: the generated definitions equal the reference walk, by generic scripts (unfold one
   step, rewrite with the induction hypotheses, `rfl` or exhaustive splitting + `simp_all`), so they
   survive regeneration and harmless edits and fail when the translated behaviour changes; and the
   composed statements about `Clone` / `Equals`.
-/
import Anytype.Generated.CloneGen
import Anytype.Lemmas.Acyclic
import Anytype.Spec.Equiv
namespace Anytype
open Heap

/-! ## 1. the reference walk -/
namespace CloneRef

def strCopy (val : Str) : GoVal := .str val
def boolCopy (val : Bool) : GoVal := .bool val
def intCopy (val : Int) : GoVal := .intw .int val
def floatCopy (val : F64) : GoVal := .f64 val
def nilCopy : GoVal := .nil

def strIsEqual (val : Str) : Option Val → Bool | some (.str s) => val == s | _ => false
def boolIsEqual (val : Bool) : Option Val → Bool | some (.bool b) => val == b | _ => false
def intIsEqual (val : Int) : Option Val → Bool | some (.int i) => val == i | _ => false
def floatIsEqual (val : F64) : Option Val → Bool | some (.float f) => F64.eqGo val f | _ => false
def nilIsEqual : Option Val → Bool | some .nil => true | _ => false

mutual
/-- `value.copy()`: dispatch over the dynamic type of a stored field -/
def copyRef : Nat → Heap → Val → Option (Heap × Out GoVal)
  | _, h, .nil => some (h, .ok nilCopy)
  | _, h, .bool b => some (h, .ok (boolCopy b))
  | _, h, .int i => some (h, .ok (intCopy i))
  | _, h, .float f => some (h, .ok (floatCopy f))
  | _, h, .str s => some (h, .ok (strCopy s))
  | 0, _, .list _ => none
  | 0, _, .obj _ => none
  | fuel + 1, h, .list r => listCopyRef fuel h r.addr
  | fuel + 1, h, .obj r => objectCopyRef fuel h r.addr
termination_by fuel _ _ => (fuel, 0, 0)
/-- `(*list).copy`: the new cell first (`make([]field, Count())`), then the children in order -/
def listCopyRef : Nat → Heap → Nat → Option (Heap × Out GoVal)
  | fuel, h, a =>
    if (L.count h a) < 0 then some (h, .panic .runtime)
    else
      let list := h.length
      let h1 := h ++ [Cell.list (List.replicate (L.count h a).toNat Val.nil) 0]
      match listCopyLoopRef fuel h1 list (h1.items a) 0 with
      | none => none
      | some (h2, .panic k) => some (h2, .panic k)
      | some (h2, .ok _) => some (h2, .ok (.list ⟨list, 0⟩))
termination_by fuel _ _ => (fuel, 2, 0)
def listCopyLoopRef : Nat → Heap → Nat → List Val → Nat → Option (Heap × Out Unit)
  | _, h, _, [], _ => some (h, .ok ())
  | fuel, h, list, value :: rest, i =>
    match copyRef fuel h value with
    | none => none
    | some (h1, .panic k) => some (h1, .panic k)
    | some (h1, .ok g) =>
      match parseVal h1 g with
      | (h2, .panic k) => some (h2, .panic k)
      | (h2, .ok v) =>
        if i < (h2.items list).length then
          listCopyLoopRef fuel (h2.setItems list ((h2.items list).set i v)) list rest (i + 1)
        else some (h2, .panic .runtime)
termination_by fuel _ _ l _ => (fuel, 1, l.length)
/-- `(*object).copy`: `NewObject()`, then `Set(key, value.copy())` per field -/
def objectCopyRef : Nat → Heap → Nat → Option (Heap × Out GoVal)
  | fuel, h, a =>
    match O.new h [] false with
    | (h1, .panic k) => some (h1, .panic k)
    | (h1, .ok obj) =>
      match objectCopyLoopRef fuel h1 obj (h1.fields a) with
      | none => none
      | some (h2, .panic k) => some (h2, .panic k)
      | some (h2, .ok _) => some (h2, .ok (.obj obj))
termination_by fuel _ _ => (fuel, 2, 0)
def objectCopyLoopRef : Nat → Heap → Ref → List (Str × Val) → Option (Heap × Out Unit)
  | _, h, _, [] => some (h, .ok ())
  | fuel, h, obj, (key, value) :: rest =>
    match copyRef fuel h value with
    | none => none
    | some (h1, .panic k) => some (h1, .panic k)
    | some (h1, .ok g) =>
      match O.set h1 obj.addr [(some key, g)] false with
      | (h2, .panic k) => some (h2, .panic k)
      | (h2, .ok _) => objectCopyLoopRef fuel h2 obj rest
termination_by fuel _ _ l => (fuel, 1, l.length)
end

mutual
/-- `x.isEqual(another)`: dispatch over the dynamic type of the receiver; `another` is `none` for a
nil interface (`obj.val[k]` of a missing key) -/
def isEqualRef : Nat → Heap → Val → Option Val → Option (Out Bool)
  | _, _, .nil, another => some (.ok (nilIsEqual another))
  | _, _, .bool b, another => some (.ok (boolIsEqual b another))
  | _, _, .int i, another => some (.ok (intIsEqual i another))
  | _, _, .float f, another => some (.ok (floatIsEqual f another))
  | _, _, .str s, another => some (.ok (strIsEqual s another))
  | 0, _, .list _, _ => none
  | 0, _, .obj _, _ => none
  | fuel + 1, h, .list r, another => listIsEqualRef fuel h r.addr another
  | fuel + 1, h, .obj r, another => objectIsEqualRef fuel h r.addr another
termination_by fuel _ _ _ => (fuel, 0, 0)
def listIsEqualRef : Nat → Heap → Nat → Option Val → Option (Out Bool)
  | fuel, h, a, another =>
    match another with
    | some (.list r) =>
      if (L.count h a) != (L.count h r.addr) then some (.ok false)
      else listIsEqualLoopRef fuel h a r.addr (h.items a) 0
    | _ => some (.ok false)
termination_by fuel _ _ _ => (fuel, 2, 0)
def listIsEqualLoopRef : Nat → Heap → Nat → Nat → List Val → Nat → Option (Out Bool)
  | _, _, _, _, [], _ => some (.ok true)
  | fuel, h, a, list, _ :: rest, i =>
    match (h.items a)[i]? with
    | none => some (.panic .runtime)
    | some x =>
      match (h.items list)[i]? with
      | none => some (.panic .runtime)
      | some y =>
        match isEqualRef fuel h x (some y) with
        | none => none
        | some (.panic k) => some (.panic k)
        | some (.ok b) =>
          if !b then some (.ok false)
          else listIsEqualLoopRef fuel h a list rest (i + 1)
termination_by fuel _ _ _ l _ => (fuel, 1, l.length)
def objectIsEqualRef : Nat → Heap → Nat → Option Val → Option (Out Bool)
  | fuel, h, a, another =>
    match another with
    | some (.obj r) =>
      if (O.count h a) != (O.count h r.addr) then some (.ok false)
      else objectIsEqualLoopRef fuel h a r.addr (h.fields a)
    | _ => some (.ok false)
termination_by fuel _ _ _ => (fuel, 2, 0)
def objectIsEqualLoopRef : Nat → Heap → Nat → Nat → List (Str × Val) → Option (Out Bool)
  | _, _, _, _, [] => some (.ok true)
  | fuel, h, a, obj, (k, _) :: rest =>
    match lookup (h.fields a) k with
    | none => some (.panic .runtime)
    | some x =>
      match isEqualRef fuel h x (lookup (h.fields obj) k) with
      | none => none
      | some (.panic p) => some (.panic p)
      | some (.ok b) =>
        if !b then some (.ok false)
        else objectIsEqualLoopRef fuel h a obj rest
termination_by fuel _ _ _ l => (fuel, 1, l.length)
end

/-- `(*list).Clone`: `ego.copy().(*list)` -/
def listClone (fuel : Nat) (h : Heap) (a : Nat) : Option (Heap × Out Ref) :=
  match listCopyRef fuel h a with
  | none => none
  | some (h1, .panic k) => some (h1, .panic k)
  | some (h1, .ok (.list r)) =>
    if r.lvl == 0 then some (h1, .ok ⟨r.addr, 0⟩) else some (h1, .panic .runtime)
  | some (h1, .ok _) => some (h1, .panic .runtime)

/-- `(*object).Clone`: `ego.Ego().copy().(*object)` -/
def objectClone (fuel : Nat) (h : Heap) (a : Nat) : Option (Heap × Out Ref) :=
  match objectCopyRef fuel h a with
  | none => none
  | some (h1, .panic k) => some (h1, .panic k)
  | some (h1, .ok (.obj r)) =>
    if r.lvl == 0 then some (h1, .ok ⟨r.addr, 0⟩) else some (h1, .panic .runtime)
  | some (h1, .ok _) => some (h1, .panic .runtime)

/-- `(*list).Equals`: `ego.isEqual(another)` -/
def listEquals (fuel : Nat) (h : Heap) (a : Nat) (another : Ref) : Option (Out Bool) :=
  listIsEqualRef fuel h a (some (.list another))

/-- `(*object).Equals`: `ego.Ego().isEqual(another)` -/
def objectEquals (fuel : Nat) (h : Heap) (a : Nat) (another : Ref) : Option (Out Bool) :=
  objectIsEqualRef fuel h a (some (.obj another))

end CloneRef

/-! ## 2. refinement of the reference walk to the model -/
namespace CloneRef
open Rf

/-! ### helper facts about `reifyList` / `reifyFields` / `lookup` -/

theorem reifyList_get {n : Nat} {h : Heap} : ∀ (xs : List Val) (ts : List JVal),
    reifyList n h xs = some ts →
    ts.length = xs.length ∧
      ∀ (i : Nat) (x : Val), xs[i]? = some x → ∃ t, ts[i]? = some t ∧ reify n h x = some t := by
  intro xs
  induction xs with
  | nil => intro ts hts; simp only [reifyList] at hts; cases hts; simp
  | cons x xs ih =>
    intro ts hts
    rw [reifyList] at hts
    split at hts
    · next y ys hy hys =>
      cases hts
      obtain ⟨hl, hg⟩ := ih ys hys
      refine ⟨by simp [hl], ?_⟩
      intro i z hz
      cases i with
      | zero => simp at hz; subst hz; exact ⟨y, by simp, hy⟩
      | succ i => simp at hz; simpa using hg i z hz
    · cases hts

theorem lookup_append_of_not_mem {α} (pre rest : List (Str × α)) (k : Str)
    (hk : k ∉ keysOf pre) : lookup (pre ++ rest) k = lookup rest k := by
  induction pre with
  | nil => rfl
  | cons kv pre ih =>
    obtain ⟨k', v⟩ := kv
    simp only [keysOf, List.map_cons, List.mem_cons, not_or] at hk
    have hne : (k' == k) = false := by
      simp only [beq_eq_false_iff_ne, ne_eq]; exact fun e => hk.1 e.symm
    simp only [List.cons_append, lookup, hne, Bool.false_eq_true, ↓reduceIte]
    exact ih hk.2

theorem lookup_cons_self {α} (k : Str) (v : α) (rest : List (Str × α)) :
    lookup ((k, v) :: rest) k = some v := by
  simp [lookup]

theorem reifyFields_lookup {n : Nat} {h : Heap} : ∀ (fs : List (Str × Val)) (ts : List (Str × JVal)),
    reifyFields n h fs = some ts →
    ts.length = fs.length ∧ keysOf ts = keysOf fs ∧
    ∀ k, (lookup fs k = none → lookup ts k = none) ∧
      (∀ w, lookup fs k = some w → ∃ t, lookup ts k = some t ∧ reify n h w = some t) := by
  intro fs
  induction fs with
  | nil => intro ts hts; simp only [reifyFields] at hts; cases hts; simp [lookup, keysOf]
  | cons kv fs ih =>
    obtain ⟨k', x⟩ := kv
    intro ts hts
    rw [reifyFields] at hts
    split at hts
    · next y ys hy hys =>
      cases hts
      obtain ⟨hl, hk, hg⟩ := ih ys hys
      refine ⟨by simp [hl], by simp only [keysOf] at hk ⊢; simp [hk], ?_⟩
      intro k
      simp only [lookup]
      by_cases hkk : (k' == k) = true
      · simp only [hkk, ↓reduceIte]
        exact ⟨fun e => (by cases e), fun w hw => (by cases hw; exact ⟨y, rfl, hy⟩)⟩
      · simp only [hkk, Bool.false_eq_true, ↓reduceIte]
        exact hg k
    · cases hts

theorem mem_of_lookup' {α} {fs : List (Str × α)} {k : Str} {w : α} (hl : lookup fs k = some w) :
    ∃ k', (k', w) ∈ fs := by
  induction fs with
  | nil => simp [lookup] at hl
  | cons kv fs ih =>
    obtain ⟨k', v⟩ := kv
    simp only [lookup] at hl
    split at hl
    · cases hl; exact ⟨k', by simp⟩
    · obtain ⟨k'', hm⟩ := ih hl; exact ⟨k'', by simp [hm]⟩

/-! ### scalars -/

theorem reify_list_inv {m : Nat} {h : Heap} {r : Ref} {jy : JVal} (hjy : reify m h (.list r) = some jy) :
    ∃ m' xs e ts, m = m' + 1 ∧ h[r.addr]? = some (.list xs e) ∧ reifyList m' h xs = some ts ∧
      jy = .list ts := by
  cases m with
  | zero => simp only [reify] at hjy; cases hjy
  | succ m' =>
    rw [reify] at hjy
    split at hjy
    · next xs e hc =>
      cases hq : reifyList m' h xs with
      | none => rw [hq] at hjy; cases hjy
      | some ts => rw [hq] at hjy; cases hjy; exact ⟨m', xs, e, ts, rfl, hc, hq, rfl⟩
    · cases hjy

theorem reify_obj_inv {m : Nat} {h : Heap} {r : Ref} {jy : JVal} (hjy : reify m h (.obj r) = some jy) :
    ∃ m' fs e ts, m = m' + 1 ∧ h[r.addr]? = some (.obj fs e) ∧ reifyFields m' h fs = some ts ∧
      jy = .obj ts := by
  cases m with
  | zero => simp only [reify] at hjy; cases hjy
  | succ m' =>
    rw [reify] at hjy
    split at hjy
    · next fs e hc =>
      cases hq : reifyFields m' h fs with
      | none => rw [hq] at hjy; cases hjy
      | some ts => rw [hq] at hjy; cases hjy; exact ⟨m', fs, e, ts, rfl, hc, hq, rfl⟩
    · cases hjy

/-- a scalar receiver: its `isEqual` is `equalsJ` of the two trees -/
theorem isEqualRef_scalar (n m : Nat) (h : Heap) (x y : Val) (jx jy : JVal)
    (hx : (∀ r, x ≠ .list r) ∧ (∀ r, x ≠ .obj r))
    (hjx : reify n h x = some jx) (hjy : reify m h y = some jy) :
    isEqualRef n h x (some y) = some (.ok (equalsJ jx jy)) := by
  cases x with
  | list r => exact absurd rfl (hx.1 r)
  | obj r => exact absurd rfl (hx.2 r)
  | _ =>
    simp only [reify] at hjx; cases hjx
    cases y with
    | list r =>
      obtain ⟨_, _, _, ts, _, _, _, rfl⟩ := reify_list_inv hjy
      simp [isEqualRef, nilIsEqual, boolIsEqual, intIsEqual, floatIsEqual, strIsEqual, equalsJ]
    | obj r =>
      obtain ⟨_, _, _, ts, _, _, _, rfl⟩ := reify_obj_inv hjy
      simp [isEqualRef, nilIsEqual, boolIsEqual, intIsEqual, floatIsEqual, strIsEqual, equalsJ]
    | _ =>
      simp only [reify] at hjy; cases hjy
      simp [isEqualRef, nilIsEqual, boolIsEqual, intIsEqual, floatIsEqual, strIsEqual, equalsJ]

/-- a nil interface as argument (`obj.val[k]` of a missing key): never equal -/
theorem isEqualRef_none (n : Nat) (h : Heap) (x : Val) (jx : JVal) (hjx : reify n h x = some jx) :
    isEqualRef n h x none = some (.ok false) := by
  cases x with
  | list r =>
    obtain ⟨n', _, _, _, rfl, _, _, _⟩ := reify_list_inv hjx
    simp [isEqualRef, listIsEqualRef]
  | obj r =>
    obtain ⟨n', _, _, _, rfl, _, _, _⟩ := reify_obj_inv hjx
    simp [isEqualRef, objectIsEqualRef]
  | _ => simp [isEqualRef, nilIsEqual, boolIsEqual, intIsEqual, floatIsEqual, strIsEqual]

/-! ### `isEqual` -/

/-- the statement about `isEqualRef` at fuel `n` (induction hypothesis of the loops) -/
def EqIH (n : Nat) (h : Heap) : Prop :=
  ∀ x y jx jy, reify n h x = some jx → reify n h y = some jy →
    keysNodup jx = true → isEqualRef n h x (some y) = some (.ok (equalsJ jx jy))

theorem listIsEqualLoopRef_spec {n : Nat} {h : Heap} {a b : Nat} {xs ys : List Val} {txs tys : List JVal}
    (ih : EqIH n h) (ha : h.items a = xs) (hb : h.items b = ys)
    (hxs : reifyList n h xs = some txs) (hys : reifyList n h ys = some tys)
    (hlen : xs.length = ys.length)
    (hnd : keysNodupList txs = true) :
    ∀ (rest : List Val) (i : Nat), xs.drop i = rest →
      listIsEqualLoopRef n h a b rest i = some (.ok (equalsList (txs.drop i) (tys.drop i))) := by
  obtain ⟨hlx, hgx⟩ := reifyList_get xs txs hxs
  obtain ⟨hly, hgy⟩ := reifyList_get ys tys hys
  intro rest
  induction rest with
  | nil =>
    intro i hd
    have hi : xs.length ≤ i := List.drop_eq_nil_iff.1 hd
    rw [listIsEqualLoopRef, List.drop_eq_nil_iff.2 (by omega : txs.length ≤ i)]
    simp [equalsList]
  | cons r rest ih2 =>
    intro i hd
    have hi : i < xs.length := by
      apply Nat.lt_of_not_le; intro hle
      rw [List.drop_eq_nil_iff.2 hle] at hd; cases hd
    rw [List.drop_eq_getElem_cons hi] at hd
    injection hd with hr hrest
    have hxi : xs[i]? = some r := by rw [List.getElem?_eq_getElem hi, hr]
    obtain ⟨y, hyi⟩ : ∃ y, ys[i]? = some y := ⟨ys[i]'(by omega), List.getElem?_eq_getElem (by omega)⟩
    obtain ⟨tx, htx, hrx⟩ := hgx i r hxi
    obtain ⟨ty, hty, hry⟩ := hgy i y hyi
    have hndx : keysNodup tx = true := by
      have : ∀ (ts : List JVal), keysNodupList ts = true → ∀ t ∈ ts, keysNodup t = true := by
        intro ts; induction ts with
        | nil => intro _ t ht; cases ht
        | cons t' ts iht =>
          intro hk t ht
          simp only [keysNodupList, Bool.and_eq_true] at hk
          rcases List.mem_cons.1 ht with rfl | ht
          · exact hk.1
          · exact iht hk.2 t ht
      exact this txs hnd tx (List.mem_of_getElem? htx)
    have hdx : txs.drop i = tx :: txs.drop (i + 1) := by
      have hlt : i < txs.length := by omega
      rw [List.drop_eq_getElem_cons hlt]; congr 1
      rw [List.getElem?_eq_getElem hlt] at htx; exact Option.some.inj htx
    have hdy : tys.drop i = ty :: tys.drop (i + 1) := by
      have hlt : i < tys.length := by omega
      rw [List.drop_eq_getElem_cons hlt]; congr 1
      rw [List.getElem?_eq_getElem hlt] at hty; exact Option.some.inj hty
    rw [listIsEqualLoopRef, ha, hb, hxi, hyi]
    simp only
    rw [ih r y tx ty hrx hry hndx]
    simp only
    rw [ih2 (i + 1) hrest, hdx, hdy, equalsList]
    cases equalsJ tx ty <;> simp

theorem objectIsEqualLoopRef_spec {n : Nat} {h : Heap} {a b : Nat} {fs gs : List (Str × Val)}
    {tgs : List (Str × JVal)}
    (ih : EqIH n h) (ha : h.fields a = fs) (hb : h.fields b = gs)
    (hgs : reifyFields n h gs = some tgs)
    (hnd : (keysOf fs).Nodup) :
    ∀ (rest pre : List (Str × Val)) (trest : List (Str × JVal)), fs = pre ++ rest →
      reifyFields n h rest = some trest → keysNodupFields trest = true →
      objectIsEqualLoopRef n h a b rest = some (.ok (equalsFields trest tgs)) := by
  obtain ⟨_, _, hlk⟩ := reifyFields_lookup gs tgs hgs
  intro rest
  induction rest with
  | nil =>
    intro pre trest _ hr _
    simp only [reifyFields] at hr; cases hr
    rw [objectIsEqualLoopRef, equalsFields]
  | cons kv rest ih2 =>
    obtain ⟨k, v⟩ := kv
    intro pre trest hfs hr hndc
    rw [reifyFields] at hr
    split at hr
    · next tv trest' hv hrest =>
      cases hr
      simp only [keysNodupFields, Bool.and_eq_true] at hndc
      have hkpre : k ∉ keysOf pre := by
        rw [hfs] at hnd
        simp only [keysOf, List.map_append, List.map_cons] at hnd
        have := (List.nodup_append.1 hnd).2.2
        intro hk
        exact this k hk k (by simp) rfl
      have hlook : lookup fs k = some v := by
        rw [hfs, lookup_append_of_not_mem _ _ _ hkpre, lookup_cons_self]
      rw [objectIsEqualLoopRef, ha, hb, hlook]
      simp only
      have hnext := ih2 (pre ++ [(k, v)]) trest' (by rw [hfs]; simp) hrest hndc.2
      cases hw : lookup gs k with
      | none =>
        rw [isEqualRef_none n h v tv hv]
        simp [equalsFields, (hlk k).1 hw]
      | some w =>
        obtain ⟨tw, htw, hrw⟩ := (hlk k).2 w hw
        rw [ih v w tv tw hv hrw hndc.1]
        simp only
        rw [hnext, equalsFields, htw]
        cases he : equalsJ tv tw <;> simp [he]
    · cases hr

/-- **`isEqual` refines `equalsJ`.**  With fuel `n` for which both values reify and distinct keys in
every object of the receiver (the Go-map invariant), the walk returns — without a panic — `equalsJ`
of the two trees, whatever the embedding levels of the references. -/
theorem isEqualRef_spec (h : Heap) : ∀ n, EqIH n h := by
  intro n
  induction n with
  | zero =>
    intro x y jx jy hx hy _
    cases x with
    | list r => simp only [reify] at hx; cases hx
    | obj r => simp only [reify] at hx; cases hx
    | _ => exact isEqualRef_scalar 0 0 h _ y jx jy (by simp) hx hy
  | succ n ih =>
    intro x y jx jy hx hy hnd
    cases x with
    | list r =>
      obtain ⟨n', xs, e, txs, hn, hc, hxs, rfl⟩ := reify_list_inv hx
      cases hn
      have ha : h.items r.addr = xs := by simp [items, hc]
      obtain ⟨hlx, _⟩ := reifyList_get xs txs hxs
      rw [isEqualRef]
      cases y with
      | list ry =>
        obtain ⟨_, ys, e', tys, hn', hc', hys, rfl⟩ := reify_list_inv hy
        cases hn'
        have hb : h.items ry.addr = ys := by simp [items, hc']
        obtain ⟨hly, _⟩ := reifyList_get ys tys hys
        simp only [keysNodup] at hnd
        simp only [listIsEqualRef, L.count, ha, hb, equalsJ, hlx, hly]
        by_cases hlen : xs.length = ys.length
        · have := listIsEqualLoopRef_spec ih ha hb hxs hys hlen hnd xs 0 rfl
          simp only [List.drop_zero] at this
          rw [this]; simp [hlen]
        · have hne : ((xs.length : Int) != (ys.length : Int)) = true := by
            simp only [bne_iff_ne, ne_eq, Int.natCast_inj]; exact hlen
          simp [hne, hlen]
      | obj ry =>
        obtain ⟨_, _, _, ts, _, _, _, rfl⟩ := reify_obj_inv hy
        simp [listIsEqualRef, equalsJ]
      | _ => simp only [reify] at hy; cases hy; simp [listIsEqualRef, equalsJ]
    | obj r =>
      obtain ⟨n', fs, e, tfs, hn, hc, hfs, rfl⟩ := reify_obj_inv hx
      cases hn
      have ha : h.fields r.addr = fs := by simp [fields, hc]
      obtain ⟨hlx, hkx, _⟩ := reifyFields_lookup fs tfs hfs
      rw [isEqualRef]
      cases y with
      | obj ry =>
        obtain ⟨_, gs, e', tgs, hn', hc', hgs, rfl⟩ := reify_obj_inv hy
        cases hn'
        have hb : h.fields ry.addr = gs := by simp [fields, hc']
        obtain ⟨hly, _, _⟩ := reifyFields_lookup gs tgs hgs
        simp only [keysNodup, Bool.and_eq_true, decide_eq_true_eq] at hnd
        simp only [objectIsEqualRef, O.count, ha, hb, equalsJ, hlx, hly]
        by_cases hlen : fs.length = gs.length
        · have := objectIsEqualLoopRef_spec ih ha hb hgs (hkx ▸ hnd.1) fs [] tfs rfl hfs hnd.2
          rw [this]; simp [hlen]
        · have hne : ((fs.length : Int) != (gs.length : Int)) = true := by
            simp only [bne_iff_ne, ne_eq, Int.natCast_inj]; exact hlen
          simp [hne, hlen]
      | list ry =>
        obtain ⟨_, _, _, ts, _, _, _, rfl⟩ := reify_list_inv hy
        simp [objectIsEqualRef, equalsJ]
      | _ => simp only [reify] at hy; cases hy; simp [objectIsEqualRef, equalsJ]
    | _ => exact isEqualRef_scalar (n + 1) (n + 1) h _ y jx jy (by simp) hx hy

/-! ### `copy` -/

mutual
/-- every int of the tree is a Go `int` (64 bit) -/
def intsInRange : JVal → Bool
  | .int i => decide (InRange i)
  | .list xs => intsInRangeList xs
  | .obj kvs => intsInRangeFields kvs
  | _ => true
def intsInRangeList : List JVal → Bool
  | [] => true | x :: xs => intsInRange x && intsInRangeList xs
def intsInRangeFields : List (Str × JVal) → Bool
  | [] => true | (_, x) :: kvs => intsInRange x && intsInRangeFields kvs
end

/-- the specification of a deep copy: only appends cells, and the value returned denotes the tree
through the new cells alone.  This is what `Rf.clone_spec` proves of the model's `O.clone`. -/
def CopySpec (h : Heap) (t : JVal) (h' : Heap) (c : Val) : Prop :=
  (∃ extra, h' = h ++ extra) ∧ Denotes h.length h'.length h' c t

/-- the statement about `copyRef` at fuel `n` -/
def CopyIH (n : Nat) : Prop :=
  ∀ (h : Heap) (v : Val) (t : JVal), reify n h v = some t → keysNodup t = true → intsInRange t = true →
    ∃ h' g c, copyRef n h v = some (h', .ok g) ∧ parseVal h' g = (h', .ok c) ∧ CopySpec h t h' c

theorem wrap64_of_inRange' {i : Int} (hi : InRange i) : wrap64 i = i := by
  unfold InRange at hi; unfold wrap64; simp only []; omega

theorem setItems_cell {h : Heap} {a : Nat} {xs0 : List Val} {e : Nat} (hc : h[a]? = some (.list xs0 e))
    (xs : List Val) : (h.setItems a xs)[a]? = some (.list xs e) := by
  have hlt := (List.getElem?_eq_some_iff.1 hc).1
  simp only [setItems, hc]
  simp [hlt]

theorem setFields_cell {h : Heap} {a : Nat} {fs0 : List (Str × Val)} {e : Nat}
    (hc : h[a]? = some (.obj fs0 e)) (fs : List (Str × Val)) :
    (h.setFields a fs)[a]? = some (.obj fs e) := by
  have hlt := (List.getElem?_eq_some_iff.1 hc).1
  simp only [setFields, hc]
  simp [hlt]

theorem prefix_of_sub {h H : Heap} (hs : Sub h H) : ∃ extra, H = h ++ extra := by
  refine ⟨H.drop h.length, ?_⟩
  apply List.ext_getElem?
  intro i
  by_cases hi : i < h.length
  · rw [List.getElem?_append_left hi]
    rw [hs i _ (List.getElem?_eq_getElem hi), List.getElem?_eq_getElem hi]
  · rw [List.getElem?_append_right (by omega), List.getElem?_drop]
    congr 1; omega

theorem sub_length {h H : Heap} (hs : Sub h H) : h.length ≤ H.length := by
  obtain ⟨e, rfl⟩ := prefix_of_sub hs; simp

theorem agreeOn_setItems {lo hi : Nat} (h : Heap) (a : Nat) (xs : List Val) (ha : a < lo) :
    AgreeOn lo hi h (h.setItems a xs) :=
  fun b hb _ => getElem?_setItems_ne h xs (by omega)

theorem agreeOn_setFields {lo hi : Nat} (h : Heap) (a : Nat) (fs : List (Str × Val)) (ha : a < lo) :
    AgreeOn lo hi h (h.setFields a fs) :=
  fun b hb _ => getElem?_setFields_ne h fs (by omega)

theorem sub_setItems {h0 h : Heap} (hs : Sub h0 h) (a : Nat) (xs : List Val) (ha : h0.length ≤ a) :
    Sub h0 (h.setItems a xs) := fun b c hc => by
  have hb := (List.getElem?_eq_some_iff.1 hc).1
  rw [getElem?_setItems_ne h xs (by omega)]; exact hs b c hc

theorem sub_setFields {h0 h : Heap} (hs : Sub h0 h) (a : Nat) (fs : List (Str × Val)) (ha : h0.length ≤ a) :
    Sub h0 (h.setFields a fs) := fun b c hc => by
  have hb := (List.getElem?_eq_some_iff.1 hc).1
  rw [getElem?_setFields_ne h fs (by omega)]; exact hs b c hc

theorem reifyList_cons_inv {n : Nat} {h : Heap} {x : Val} {xs : List Val} {ts : List JVal}
    (hr : reifyList n h (x :: xs) = some ts) :
    ∃ t ts', ts = t :: ts' ∧ reify n h x = some t ∧ reifyList n h xs = some ts' := by
  rw [reifyList] at hr
  split at hr
  · next t ts' ht hts => cases hr; exact ⟨t, ts', rfl, ht, hts⟩
  · cases hr

theorem reifyFields_cons_inv {n : Nat} {h : Heap} {k : Str} {x : Val} {fs : List (Str × Val)}
    {ts : List (Str × JVal)} (hr : reifyFields n h ((k, x) :: fs) = some ts) :
    ∃ t ts', ts = (k, t) :: ts' ∧ reify n h x = some t ∧ reifyFields n h fs = some ts' := by
  rw [reifyFields] at hr
  split at hr
  · next t ts' ht hts => cases hr; exact ⟨t, ts', rfl, ht, hts⟩
  · cases hr

/-- the loop of `(*list).copy`: `cs` are the copies stored so far (they denote `tdone` through cells
above the new list cell), the rest of the new cell's slice is still the placeholder -/
theorem listCopyLoopRef_spec {n : Nat} (ih : CopyIH n) {h0 : Heap} (list : Nat) (hlist : h0.length ≤ list) :
    ∀ (rest : List Val) (H : Heap) (cs : List Val) (tdone trest : List JVal),
      Sub h0 H → H[list]? = some (.list (cs ++ List.replicate rest.length Val.nil) 0) →
      DenotesList (list + 1) H.length H cs tdone →
      reifyList n h0 rest = some trest → keysNodupList trest = true → intsInRangeList trest = true →
      ∃ H' cs', listCopyLoopRef n H list rest cs.length = some (H', .ok ()) ∧ Sub h0 H' ∧
        H'[list]? = some (.list (cs ++ cs') 0) ∧
        DenotesList (list + 1) H'.length H' (cs ++ cs') (tdone ++ trest) := by
  intro rest
  induction rest with
  | nil =>
    intro H cs tdone trest hs hc ds hr _ _
    simp only [reifyList] at hr; cases hr
    refine ⟨H, [], by rw [listCopyLoopRef], hs, by simpa using hc, by simpa using ds⟩
  | cons x rest ihr =>
    intro H cs tdone trest hs hc ds hr hnd hir
    obtain ⟨tx, trest', rfl, hx, hrest⟩ := reifyList_cons_inv hr
    simp only [keysNodupList, intsInRangeList, Bool.and_eq_true] at hnd hir
    have hlistH : list < H.length := (List.getElem?_eq_some_iff.1 hc).1
    -- copy the element in the current heap
    obtain ⟨H1, g, c, hcopy, hparse, ⟨ex1, hH1⟩, dc⟩ :=
      ih H x tx (reify_mono_sub hs n n (Nat.le_refl _) x tx hx) hnd.1 hir.1
    have hc1 : H1[list]? = some (.list (cs ++ List.replicate (rest.length + 1) Val.nil) 0) := by
      rw [hH1, List.getElem?_append_left hlistH]; simpa using hc
    have hitems : H1.items list = cs ++ List.replicate (rest.length + 1) Val.nil := by
      simp [items, hc1]
    have hset : (cs ++ List.replicate (rest.length + 1) Val.nil).set cs.length c
        = (cs ++ [c]) ++ List.replicate rest.length Val.nil := by
      rw [List.set_append_right _ _ (Nat.le_refl _)]
      simp [List.replicate_succ]
    have hH1len : H.length ≤ H1.length := by rw [hH1]; simp
    -- the heap after the store
    have hs2 : Sub h0 (H1.setItems list ((cs ++ [c]) ++ List.replicate rest.length Val.nil)) :=
      sub_setItems (hs.trans (by rw [hH1]; exact Sub.append H ex1)) _ _ hlist
    have hc2 : (H1.setItems list ((cs ++ [c]) ++ List.replicate rest.length Val.nil))[list]?
        = some (.list ((cs ++ [c]) ++ List.replicate rest.length Val.nil) 0) := setItems_cell hc1 _
    have agH : AgreeOn (list + 1) H.length H H1 := by
      rw [hH1]; exact agreeOn_append _ _ _
    have ds2 : DenotesList (list + 1) (H1.setItems list ((cs ++ [c]) ++ List.replicate rest.length Val.nil)).length
        (H1.setItems list ((cs ++ [c]) ++ List.replicate rest.length Val.nil)) (cs ++ [c]) (tdone ++ [tx]) := by
      rw [length_setItems]
      refine DenotesList.snoc (ds.mono ?_ (Nat.le_refl _) hH1len) (dc.mono ?_ (by omega) (Nat.le_refl _))
      · exact agH.trans (agreeOn_setItems H1 list _ (Nat.lt_succ_self _)) (Nat.le_refl _) (Nat.le_refl _)
      · exact agreeOn_setItems H1 list _ hlistH
    obtain ⟨H', cs', hloop, hs', hc', ds'⟩ :=
      ihr _ (cs ++ [c]) (tdone ++ [tx]) trest' hs2 hc2 ds2 hrest hnd.2 hir.2
    refine ⟨H', c :: cs', ?_, hs', by simpa using hc', by simpa using ds'⟩
    rw [listCopyLoopRef, hcopy]
    simp only [hparse, hitems, hset]
    rw [if_pos (by simp)]
    simpa using hloop

theorem setKV_append_of_not_mem {α} (fs : List (Str × α)) (k : Str) (v : α) (hk : k ∉ keysOf fs) :
    setKV fs k v = fs ++ [(k, v)] := by
  induction fs with
  | nil => rfl
  | cons kv fs ih =>
    obtain ⟨k', v'⟩ := kv
    simp only [keysOf, List.map_cons, List.mem_cons, not_or] at hk
    have hne : (k' == k) = false := by
      simp only [beq_eq_false_iff_ne, ne_eq]; exact fun e => hk.1 e.symm
    simp only [setKV, hne, Bool.false_eq_true, ↓reduceIte, List.cons_append]
    rw [ih hk.2]

/-- `obj.Set(key, g)` for a Go value that `parseVal` accepts without changing the heap -/
theorem set_one {H : Heap} {o : Nat} {k : Str} {g : GoVal} {c : Val} (hp : parseVal H g = (H, .ok c)) :
    O.set H o [(some k, g)] false =
      (H.setFields o (setKV (H.fields o) k c), .ok ((H.setFields o (setKV (H.fields o) k c)).egoRef o)) := by
  simp [O.set, O.setLoop, hp]

/-- the loop of `(*object).copy` -/
theorem objectCopyLoopRef_spec {n : Nat} (ih : CopyIH n) {h0 : Heap} (obj : Ref)
    (hobj : h0.length ≤ obj.addr) :
    ∀ (rest : List (Str × Val)) (H : Heap) (fs : List (Str × Val)) (tdone trest : List (Str × JVal)),
      Sub h0 H → H[obj.addr]? = some (.obj fs 0) →
      DenotesFields (obj.addr + 1) H.length H fs tdone →
      reifyFields n h0 rest = some trest → (keysOf fs ++ keysOf rest).Nodup →
      keysNodupFields trest = true → intsInRangeFields trest = true →
      ∃ H' fs', objectCopyLoopRef n H obj rest = some (H', .ok ()) ∧ Sub h0 H' ∧
        H'[obj.addr]? = some (.obj (fs ++ fs') 0) ∧
        DenotesFields (obj.addr + 1) H'.length H' (fs ++ fs') (tdone ++ trest) := by
  intro rest
  induction rest with
  | nil =>
    intro H fs tdone trest hs hc ds hr _ _ _
    simp only [reifyFields] at hr; cases hr
    refine ⟨H, [], by rw [objectCopyLoopRef], hs, by simpa using hc, by simpa using ds⟩
  | cons kx rest ihr =>
    obtain ⟨k, x⟩ := kx
    intro H fs tdone trest hs hc ds hr hkeys hnd hir
    obtain ⟨tx, trest', rfl, hx, hrest⟩ := reifyFields_cons_inv hr
    simp only [keysNodupFields, intsInRangeFields, Bool.and_eq_true] at hnd hir
    have hoH : obj.addr < H.length := (List.getElem?_eq_some_iff.1 hc).1
    obtain ⟨H1, g, c, hcopy, hparse, ⟨ex1, hH1⟩, dc⟩ :=
      ih H x tx (reify_mono_sub hs n n (Nat.le_refl _) x tx hx) hnd.1 hir.1
    have hc1 : H1[obj.addr]? = some (.obj fs 0) := by
      rw [hH1, List.getElem?_append_left hoH]; exact hc
    have hfields : H1.fields obj.addr = fs := by simp [fields, hc1]
    have hk : k ∉ keysOf fs := by
      simp only [keysOf, List.map_cons] at hkeys
      have := (List.nodup_append.1 hkeys).2.2
      intro hmem
      exact this k hmem k (by simp) rfl
    have hH1len : H.length ≤ H1.length := by rw [hH1]; simp
    have hs2 : Sub h0 (H1.setFields obj.addr (fs ++ [(k, c)])) :=
      sub_setFields (hs.trans (by rw [hH1]; exact Sub.append H ex1)) _ _ hobj
    have hc2 : (H1.setFields obj.addr (fs ++ [(k, c)]))[obj.addr]? = some (.obj (fs ++ [(k, c)]) 0) :=
      setFields_cell hc1 _
    have agH : AgreeOn (obj.addr + 1) H.length H H1 := by
      rw [hH1]; exact agreeOn_append _ _ _
    have ds2 : DenotesFields (obj.addr + 1) (H1.setFields obj.addr (fs ++ [(k, c)])).length
        (H1.setFields obj.addr (fs ++ [(k, c)])) (fs ++ [(k, c)]) (tdone ++ [(k, tx)]) := by
      rw [length_setFields]
      refine DenotesFields.snoc (ds.mono ?_ (Nat.le_refl _) hH1len) (dc.mono ?_ (by omega) (Nat.le_refl _))
      · exact agH.trans (agreeOn_setFields H1 obj.addr _ (Nat.lt_succ_self _)) (Nat.le_refl _) (Nat.le_refl _)
      · exact agreeOn_setFields H1 obj.addr _ hoH
    have hkeys2 : (keysOf (fs ++ [(k, c)]) ++ keysOf rest).Nodup := by
      simpa [keysOf] using hkeys
    obtain ⟨H', fs', hloop, hs', hc', ds'⟩ :=
      ihr _ (fs ++ [(k, c)]) (tdone ++ [(k, tx)]) trest' hs2 hc2 ds2 hrest hkeys2 hnd.2 hir.2
    refine ⟨H', (k, c) :: fs', ?_, hs', by simpa using hc', by simpa using ds'⟩
    rw [objectCopyLoopRef, hcopy]
    simp only [set_one hparse, hfields, setKV_append_of_not_mem fs k c hk]
    exact hloop

/-- a scalar is copied by value -/
theorem copyRef_scalar (n : Nat) (h : Heap) (v : Val) (t : JVal)
    (hv : (∀ r, v ≠ .list r) ∧ (∀ r, v ≠ .obj r)) (ht : reify n h v = some t)
    (hir : intsInRange t = true) :
    ∃ h' g c, copyRef n h v = some (h', .ok g) ∧ parseVal h' g = (h', .ok c) ∧ CopySpec h t h' c := by
  have h0 : reify 0 h v = some t := by rw [← ht]; exact reify_scalar_eq _ _ _ _ _ hv
  have spec : CopySpec h t h v := ⟨⟨[], by simp⟩, Denotes.scalar _ _ _ hv h0⟩
  cases v with
  | list r => exact absurd rfl (hv.1 r)
  | obj r => exact absurd rfl (hv.2 r)
  | int i =>
    simp only [reify] at ht; cases ht
    simp only [intsInRange, decide_eq_true_eq] at hir
    exact ⟨h, _, .int i, by rw [copyRef], by simp [intCopy, parseVal, wrap64_of_inRange' hir], spec⟩
  | nil => exact ⟨h, _, .nil, by rw [copyRef], by simp [nilCopy, parseVal], spec⟩
  | bool b => exact ⟨h, _, .bool b, by rw [copyRef], by simp [boolCopy, parseVal], spec⟩
  | float f => exact ⟨h, _, .float f, by rw [copyRef], by simp [floatCopy, parseVal], spec⟩
  | str s => exact ⟨h, _, .str s, by rw [copyRef], by simp [strCopy, parseVal], spec⟩

/-- `(*list).copy` of the cell a reifying list value points to -/
theorem listCopyRef_spec {n : Nat} (ih : CopyIH n) {h : Heap} {r : Ref} {t : JVal}
    (ht : reify (n + 1) h (.list r) = some t) (hnd : keysNodup t = true) (hir : intsInRange t = true) :
    ∃ h', listCopyRef n h r.addr = some (h', .ok (.list ⟨h.length, 0⟩)) ∧
      CopySpec h t h' (.list ⟨h.length, 0⟩) := by
  obtain ⟨n', xs, e, txs, hn, hc, hxs, rfl⟩ := reify_list_inv ht
  cases hn
  have hra : r.addr < h.length := (List.getElem?_eq_some_iff.1 hc).1
  have ha : h.items r.addr = xs := by simp [items, hc]
  simp only [keysNodup, intsInRange] at hnd hir
  obtain ⟨H', cs', hloop, hs', hc', ds'⟩ :=
    listCopyLoopRef_spec ih (h0 := h) h.length (Nat.le_refl _) xs
      (h ++ [Cell.list (List.replicate xs.length Val.nil) 0]) [] [] txs (Sub.append h _)
      (by simp) (DenotesList.nil _ _ _) hxs hnd hir
  simp only [List.nil_append, List.length_nil] at hloop hc' ds'
  have hlt : h.length < H'.length := (List.getElem?_eq_some_iff.1 hc').1
  refine ⟨H', ?_, prefix_of_sub hs', ?_⟩
  · rw [listCopyRef]
    have hcnt : ¬ (L.count h r.addr < 0) := by simp [L.count]
    rw [if_neg hcnt]
    simp only [L.count, ha, Int.toNat_natCast, items_append_old h _ hra, hloop]
  · exact Denotes.list (r := ⟨h.length, 0⟩) hc' (Nat.le_refl _) hlt
      (ds'.mono (AgreeOn.refl _ _ _) (Nat.le_succ _) (Nat.le_refl _))

/-- `(*object).copy` of the cell a reifying object value points to -/
theorem objectCopyRef_spec {n : Nat} (ih : CopyIH n) {h : Heap} {r : Ref} {t : JVal}
    (ht : reify (n + 1) h (.obj r) = some t) (hnd : keysNodup t = true) (hir : intsInRange t = true) :
    ∃ h', objectCopyRef n h r.addr = some (h', .ok (.obj ⟨h.length, 0⟩)) ∧
      CopySpec h t h' (.obj ⟨h.length, 0⟩) := by
  obtain ⟨n', fs, e, tfs, hn, hc, hfs, rfl⟩ := reify_obj_inv ht
  cases hn
  have hra : r.addr < h.length := (List.getElem?_eq_some_iff.1 hc).1
  have ha : h.fields r.addr = fs := by simp [fields, hc]
  obtain ⟨_, hkx, _⟩ := reifyFields_lookup fs tfs hfs
  simp only [keysNodup, intsInRange, Bool.and_eq_true, decide_eq_true_eq] at hnd hir
  obtain ⟨H', fs', hloop, hs', hc', ds'⟩ :=
    objectCopyLoopRef_spec ih (h0 := h) ⟨h.length, 0⟩ (Nat.le_refl _) fs
      (h ++ [Cell.obj [] 0]) [] [] tfs (Sub.append h _)
      (by simp) (DenotesFields.nil _ _ _) hfs (by rw [hkx] at hnd; simpa [keysOf] using hnd.1) hnd.2 hir
  simp only [List.nil_append] at hloop hc' ds'
  have hlt : h.length < H'.length := (List.getElem?_eq_some_iff.1 hc').1
  refine ⟨H', ?_, prefix_of_sub hs', ?_⟩
  · rw [objectCopyRef]
    have hnew : O.new h [] false = (h ++ [Cell.obj [] 0], .ok ⟨h.length, 0⟩) := by
      simp [O.new, O.set, O.setLoop]
    simp only [hnew, fields_append_old h _ hra, ha, hloop]
  · exact Denotes.obj (r := ⟨h.length, 0⟩) hc' (Nat.le_refl _) hlt
      (ds'.mono (AgreeOn.refl _ _ _) (Nat.le_succ _) (Nat.le_refl _))

/-- **`copy` refines `build ∘ reify`.**  With fuel `n` for which the value reifies to `t` (distinct
keys, ints in range) the walk succeeds without a panic, only appends cells, and returns a value that
denotes `t` through the new cells alone. -/
theorem copyRef_spec : ∀ n, CopyIH n := by
  intro n
  induction n with
  | zero =>
    intro h v t ht _ hir
    cases v with
    | list r => simp only [reify] at ht; cases ht
    | obj r => simp only [reify] at ht; cases ht
    | _ => exact copyRef_scalar 0 h _ t (by simp) ht hir
  | succ n ih =>
    intro h v t ht hnd hir
    cases v with
    | list r =>
      obtain ⟨h', hcopy, spec⟩ := listCopyRef_spec ih ht hnd hir
      exact ⟨h', _, .list ⟨h.length, 0⟩, by rw [copyRef, hcopy], by simp [parseVal], spec⟩
    | obj r =>
      obtain ⟨h', hcopy, spec⟩ := objectCopyRef_spec ih ht hnd hir
      exact ⟨h', _, .obj ⟨h.length, 0⟩, by rw [copyRef, hcopy], by simp [parseVal], spec⟩
    | _ => exact copyRef_scalar (n + 1) h _ t (by simp) ht hir

/-- the model's `Clone` on the same value: defined, and with the same specification -/
theorem clone_copySpec {n : Nat} {h : Heap} {v : Val} {t : JVal} (ht : reify n h v = some t) :
    ∃ h'' c'', O.clone h v = some (h'', c'') ∧ CopySpec h t h'' c'' := by
  have hF := reifyF_eq_of_reify ht
  refine ⟨(build h t).1, (build h t).2, by simp [O.clone, hF], ?_⟩
  obtain ⟨he, _, d⟩ := build_spec h t
  exact ⟨he, d⟩

/-- `(*list).Clone` -/
theorem listClone_spec {n : Nat} {h : Heap} {a : Nat} {t : JVal}
    (ht : reify (n + 1) h (.list ⟨a, 0⟩) = some t) (hnd : keysNodup t = true)
    (hir : intsInRange t = true) :
    (∃ h' r, listClone n h a = some (h', .ok r) ∧ CopySpec h t h' (.list r)) ∧
    (∃ h'' c'', O.clone h (.list ⟨a, 0⟩) = some (h'', c'') ∧ CopySpec h t h'' c'') := by
  refine ⟨?_, clone_copySpec ht⟩
  obtain ⟨h', hcopy, spec⟩ := listCopyRef_spec (copyRef_spec n) ht hnd hir
  exact ⟨h', ⟨h.length, 0⟩, by simp [listClone, hcopy], spec⟩

/-- `(*object).Clone` -/
theorem objectClone_spec {n : Nat} {h : Heap} {a : Nat} {t : JVal}
    (ht : reify (n + 1) h (.obj ⟨a, 0⟩) = some t) (hnd : keysNodup t = true)
    (hir : intsInRange t = true) :
    (∃ h' r, objectClone n h a = some (h', .ok r) ∧ CopySpec h t h' (.obj r)) ∧
    (∃ h'' c'', O.clone h (.obj ⟨a, 0⟩) = some (h'', c'') ∧ CopySpec h t h'' c'') := by
  refine ⟨?_, clone_copySpec ht⟩
  obtain ⟨h', hcopy, spec⟩ := objectCopyRef_spec (copyRef_spec n) ht hnd hir
  exact ⟨h', ⟨h.length, 0⟩, by simp [objectClone, hcopy], spec⟩

/-- `(*list).Equals` is the model's `equalsJ` of the two reified trees -/
theorem listEquals_spec {n : Nat} {h : Heap} {a : Nat} {another : Ref} {jx jy : JVal}
    (hx : reify (n + 1) h (.list ⟨a, 0⟩) = some jx) (hy : reify (n + 1) h (.list another) = some jy)
    (hnd : keysNodup jx = true) :
    listEquals n h a another = some (.ok (equalsJ jx jy)) := by
  have := isEqualRef_spec h (n + 1) _ _ jx jy hx hy hnd
  rw [isEqualRef] at this
  exact this

/-- `(*object).Equals` is the model's `equalsJ` of the two reified trees -/
theorem objectEquals_spec {n : Nat} {h : Heap} {a : Nat} {another : Ref} {jx jy : JVal}
    (hx : reify (n + 1) h (.obj ⟨a, 0⟩) = some jx) (hy : reify (n + 1) h (.obj another) = some jy)
    (hnd : keysNodup jx = true) :
    objectEquals n h a another = some (.ok (equalsJ jx jy)) := by
  have := isEqualRef_spec h (n + 1) _ _ jx jy hx hy hnd
  rw [isEqualRef] at this
  exact this

end CloneRef

/-! ## 3. the generated definitions equal the reference walk (generic scripts) -/
namespace Generated.CG
open CloneRef

/-- closes one case of a step: syntactic agreement, or exhaustive splitting -/
local macro "gen_case" : tactic =>
  `(tactic| first
    | rfl
    | (repeat' split) <;> first | rfl | (simp_all; done) | grind)

theorem atStringCopyGen_eq (val : Str) : atStringCopyGen val = strCopy val := by
  unfold atStringCopyGen strCopy; gen_case
theorem atBoolCopyGen_eq (val : Bool) : atBoolCopyGen val = boolCopy val := by
  unfold atBoolCopyGen boolCopy; gen_case
theorem atIntCopyGen_eq (val : Int) : atIntCopyGen val = intCopy val := by
  unfold atIntCopyGen intCopy; gen_case
theorem atFloatCopyGen_eq (val : F64) : atFloatCopyGen val = floatCopy val := by
  unfold atFloatCopyGen floatCopy; gen_case
theorem atNilCopyGen_eq : atNilCopyGen = nilCopy := by
  unfold atNilCopyGen nilCopy; gen_case

theorem atStringIsEqualGen_eq (val : Str) (another : Option Val) :
    atStringIsEqualGen val another = strIsEqual val another := by
  unfold atStringIsEqualGen strIsEqual; gen_case
theorem atBoolIsEqualGen_eq (val : Bool) (another : Option Val) :
    atBoolIsEqualGen val another = boolIsEqual val another := by
  unfold atBoolIsEqualGen boolIsEqual; gen_case
theorem atIntIsEqualGen_eq (val : Int) (another : Option Val) :
    atIntIsEqualGen val another = intIsEqual val another := by
  unfold atIntIsEqualGen intIsEqual; gen_case
theorem atFloatIsEqualGen_eq (val : F64) (another : Option Val) :
    atFloatIsEqualGen val another = floatIsEqual val another := by
  unfold atFloatIsEqualGen floatIsEqual; gen_case
theorem atNilIsEqualGen_eq (another : Option Val) : atNilIsEqualGen another = nilIsEqual another := by
  unfold atNilIsEqualGen nilIsEqual; gen_case

/-! ### `copy` -/

theorem listCopyLoopGen_eq_of {fuel : Nat} (hc : ∀ h v, copyGen fuel h v = copyRef fuel h v) :
    ∀ (xs : List Val) (list : Nat) (h : Heap) (i : Nat),
      listCopyLoopGen fuel h list xs i = listCopyLoopRef fuel h list xs i := by
  intro xs
  induction xs with
  | nil => intro list h i; unfold listCopyLoopGen listCopyLoopRef <;> gen_case
  | cons x xs ih => intro list h i; unfold listCopyLoopGen listCopyLoopRef <;>
      (try simp only [hc, ih]) <;> gen_case

/-- How the loop helper of `(*object).copy` receives the clone under construction.  The helper's
parameters are the locals its body mentions, with their types: the `Object` value returned by
`NewObject()` (a `Ref`), or — when the source allocates the struct in place,
`obj := &object{val: map[string]field{}}; obj.Init(obj)` — the address of the new cell (a `Nat`).
The reference walk takes the `Ref`; `OfRef.of` hands it to the generated helper in the form it expects,
so the statement below is the same for both shapes of the generated code. -/
class OfRef (α : Type) where
  of : Ref → α
instance : OfRef Ref := ⟨fun r => r⟩
instance : OfRef Nat := ⟨fun r => r.addr⟩

/-- `obj.Set(key, g)` (one pair) step by step: `obj.val[key] = parseVal(g)` -/
theorem set_one_unfold (H : Heap) (o : Nat) (k : Str) (g : GoVal) :
    O.set H o [(some k, g)] false =
      match parseVal H g with
      | (H1, .panic p) => (H1, .panic p)
      | (H1, .ok c) => (H1.setFields o (setKV (H1.fields o) k c),
          .ok ((H1.setFields o (setKV (H1.fields o) k c)).egoRef o)) := by
  simp only [O.set, O.setLoop, Bool.false_eq_true, ↓reduceIte]
  rcases parseVal H g with ⟨H1, _ | _⟩ <;> rfl

/-- `NewObject()`: `&object{val: map[string]field{}}`, `Init`, and a `Set()` of nothing -/
theorem new_empty (h : Heap) : O.new h [] false = (h ++ [Cell.obj [] 0], .ok ⟨h.length, 0⟩) := by
  simp [O.new, O.set, O.setLoop]

theorem objectCopyLoopGen_eq_of {fuel : Nat} (hc : ∀ h v, copyGen fuel h v = copyRef fuel h v) :
    ∀ (fs : List (Str × Val)) (obj : Ref) (h : Heap),
      objectCopyLoopGen fuel h (OfRef.of obj) fs = objectCopyLoopRef fuel h obj fs := by
  intro fs
  induction fs with
  | nil => intro obj h; unfold objectCopyLoopGen objectCopyLoopRef <;> gen_case
  | cons kv fs ih =>
    obtain ⟨k, v⟩ := kv
    intro obj h; unfold objectCopyLoopGen objectCopyLoopRef <;>
      (try simp only [hc, ih]) <;> (try simp only [OfRef.of]) <;>
      first
        | gen_case
        | ((try simp only [set_one_unfold]) <;> gen_case)

theorem listCopyGen_eq_of {fuel : Nat} (hc : ∀ h v, copyGen fuel h v = copyRef fuel h v)
    (h : Heap) (a : Nat) : listCopyGen fuel h a = listCopyRef fuel h a := by
  unfold listCopyGen listCopyRef <;>
      (try simp only [listCopyLoopGen_eq_of hc]) <;> gen_case

theorem objectCopyGen_eq_of {fuel : Nat} (hc : ∀ h v, copyGen fuel h v = copyRef fuel h v)
    (h : Heap) (a : Nat) : objectCopyGen fuel h a = objectCopyRef fuel h a := by
  have hl : ∀ (fs : List (Str × Val)) (n : Nat) (H : Heap),
      objectCopyLoopGen fuel H (OfRef.of (⟨n, 0⟩ : Ref)) fs = objectCopyLoopRef fuel H ⟨n, 0⟩ fs :=
    fun fs n H => objectCopyLoopGen_eq_of hc fs ⟨n, 0⟩ H
  simp only [OfRef.of] at hl
  unfold objectCopyGen objectCopyRef <;>
      (try simp only [new_empty, hl]) <;> gen_case

theorem copyGen_eq : ∀ (fuel : Nat) (h : Heap) (v : Val), copyGen fuel h v = copyRef fuel h v := by
  intro fuel
  induction fuel with
  | zero =>
    intro h v
    cases v <;> unfold copyGen copyRef <;>
      (try simp only [atStringCopyGen_eq, atBoolCopyGen_eq, atIntCopyGen_eq, atFloatCopyGen_eq, atNilCopyGen_eq]) <;> gen_case
  | succ n ih =>
    intro h v
    cases v <;> unfold copyGen copyRef <;>
      (try simp only [atStringCopyGen_eq, atBoolCopyGen_eq, atIntCopyGen_eq, atFloatCopyGen_eq, atNilCopyGen_eq, listCopyGen_eq_of ih, objectCopyGen_eq_of ih]) <;> gen_case

theorem listCopyGen_eq (fuel : Nat) (h : Heap) (a : Nat) : listCopyGen fuel h a = listCopyRef fuel h a :=
  listCopyGen_eq_of (copyGen_eq fuel) h a
theorem objectCopyGen_eq (fuel : Nat) (h : Heap) (a : Nat) :
    objectCopyGen fuel h a = objectCopyRef fuel h a :=
  objectCopyGen_eq_of (copyGen_eq fuel) h a

theorem listCloneGen_eq (fuel : Nat) (h : Heap) (a : Nat) : listCloneGen fuel h a = listClone fuel h a := by
  unfold listCloneGen listClone <;>
      (try simp only [listCopyGen_eq]) <;> gen_case
theorem objectCloneGen_eq (fuel : Nat) (h : Heap) (a : Nat) :
    objectCloneGen fuel h a = objectClone fuel h a := by
  unfold objectCloneGen objectClone <;>
      (try simp only [objectCopyGen_eq]) <;> gen_case

/-! ### `isEqual` -/

theorem listIsEqualLoopGen_eq_of {fuel : Nat}
    (hc : ∀ h x y, isEqualGen fuel h x y = isEqualRef fuel h x y) :
    ∀ (xs : List Val) (h : Heap) (a list i : Nat),
      listIsEqualLoopGen fuel h a list xs i = listIsEqualLoopRef fuel h a list xs i := by
  intro xs
  induction xs with
  | nil => intro h a list i; unfold listIsEqualLoopGen listIsEqualLoopRef <;> gen_case
  | cons x xs ih =>
    intro h a list i; unfold listIsEqualLoopGen listIsEqualLoopRef <;>
      (try simp only [hc, ih]) <;> gen_case

theorem objectIsEqualLoopGen_eq_of {fuel : Nat}
    (hc : ∀ h x y, isEqualGen fuel h x y = isEqualRef fuel h x y) :
    ∀ (fs : List (Str × Val)) (h : Heap) (a obj : Nat),
      objectIsEqualLoopGen fuel h a obj fs = objectIsEqualLoopRef fuel h a obj fs := by
  intro fs
  induction fs with
  | nil => intro h a obj; unfold objectIsEqualLoopGen objectIsEqualLoopRef <;> gen_case
  | cons kv fs ih =>
    obtain ⟨k, v⟩ := kv
    intro h a obj; unfold objectIsEqualLoopGen objectIsEqualLoopRef <;>
      (try simp only [hc, ih]) <;> gen_case

theorem listIsEqualGen_eq_of {fuel : Nat} (hc : ∀ h x y, isEqualGen fuel h x y = isEqualRef fuel h x y)
    (h : Heap) (a : Nat) (another : Option Val) :
    listIsEqualGen fuel h a another = listIsEqualRef fuel h a another := by
  unfold listIsEqualGen listIsEqualRef <;>
      (try simp only [listIsEqualLoopGen_eq_of hc]) <;> gen_case

theorem objectIsEqualGen_eq_of {fuel : Nat} (hc : ∀ h x y, isEqualGen fuel h x y = isEqualRef fuel h x y)
    (h : Heap) (a : Nat) (another : Option Val) :
    objectIsEqualGen fuel h a another = objectIsEqualRef fuel h a another := by
  unfold objectIsEqualGen objectIsEqualRef <;>
      (try simp only [objectIsEqualLoopGen_eq_of hc]) <;> gen_case

theorem isEqualGen_eq : ∀ (fuel : Nat) (h : Heap) (x : Val) (y : Option Val),
    isEqualGen fuel h x y = isEqualRef fuel h x y := by
  intro fuel
  induction fuel with
  | zero =>
    intro h x y
    cases x <;> unfold isEqualGen isEqualRef <;>
      (try simp only [atStringIsEqualGen_eq, atBoolIsEqualGen_eq, atIntIsEqualGen_eq, atFloatIsEqualGen_eq, atNilIsEqualGen_eq]) <;> gen_case
  | succ n ih =>
    intro h x y
    cases x <;> unfold isEqualGen isEqualRef <;>
      (try simp only [atStringIsEqualGen_eq, atBoolIsEqualGen_eq, atIntIsEqualGen_eq, atFloatIsEqualGen_eq, atNilIsEqualGen_eq, listIsEqualGen_eq_of ih, objectIsEqualGen_eq_of ih]) <;> gen_case

theorem listIsEqualGen_eq (fuel : Nat) (h : Heap) (a : Nat) (another : Option Val) :
    listIsEqualGen fuel h a another = listIsEqualRef fuel h a another :=
  listIsEqualGen_eq_of (isEqualGen_eq fuel) h a another
theorem objectIsEqualGen_eq (fuel : Nat) (h : Heap) (a : Nat) (another : Option Val) :
    objectIsEqualGen fuel h a another = objectIsEqualRef fuel h a another :=
  objectIsEqualGen_eq_of (isEqualGen_eq fuel) h a another

theorem listEqualsGen_eq (fuel : Nat) (h : Heap) (a : Nat) (another : Ref) :
    listEqualsGen fuel h a another = listEquals fuel h a another := by
  unfold listEqualsGen listEquals <;>
      (try simp only [listIsEqualGen_eq]) <;> gen_case
theorem objectEqualsGen_eq (fuel : Nat) (h : Heap) (a : Nat) (another : Ref) :
    objectEqualsGen fuel h a another = objectEquals fuel h a another := by
  unfold objectEqualsGen objectEquals <;>
      (try simp only [objectIsEqualGen_eq]) <;> gen_case

/-! ### the generated code against the model -/

/-- the generated `copy()` against `build ∘ reify` (see `CloneRef.copyRef_spec`) -/
theorem copyGen_refines {n : Nat} {h : Heap} {v : Val} {t : JVal} (ht : reify n h v = some t)
    (hnd : keysNodup t = true) (hir : intsInRange t = true) :
    ∃ h' g c, copyGen n h v = some (h', .ok g) ∧ parseVal h' g = (h', .ok c) ∧ CopySpec h t h' c := by
  rw [copyGen_eq]; exact copyRef_spec n h v t ht hnd hir

/-- the generated `isEqual()` against `equalsJ` (see `CloneRef.isEqualRef_spec`) -/
theorem isEqualGen_refines {n : Nat} {h : Heap} {x y : Val} {jx jy : JVal}
    (hx : reify n h x = some jx) (hy : reify n h y = some jy)
    (hnd : keysNodup jx = true) : isEqualGen n h x (some y) = some (.ok (equalsJ jx jy)) := by
  rw [isEqualGen_eq]; exact isEqualRef_spec h n x y jx jy hx hy hnd

/-- the generated `(*list).Clone` against the model's `O.clone`: both succeed, both only append
cells, both return a value denoting the reified tree through the new cells alone -/
theorem listCloneGen_refines {n : Nat} {h : Heap} {a : Nat} {t : JVal}
    (ht : reify (n + 1) h (.list ⟨a, 0⟩) = some t) (hnd : keysNodup t = true)
    (hir : intsInRange t = true) :
    (∃ h' r, listCloneGen n h a = some (h', .ok r) ∧ CopySpec h t h' (.list r)) ∧
    (∃ h'' c'', O.clone h (.list ⟨a, 0⟩) = some (h'', c'') ∧ CopySpec h t h'' c'') := by
  rw [listCloneGen_eq]; exact listClone_spec ht hnd hir

theorem objectCloneGen_refines {n : Nat} {h : Heap} {a : Nat} {t : JVal}
    (ht : reify (n + 1) h (.obj ⟨a, 0⟩) = some t) (hnd : keysNodup t = true)
    (hir : intsInRange t = true) :
    (∃ h' r, objectCloneGen n h a = some (h', .ok r) ∧ CopySpec h t h' (.obj r)) ∧
    (∃ h'' c'', O.clone h (.obj ⟨a, 0⟩) = some (h'', c'') ∧ CopySpec h t h'' c'') := by
  rw [objectCloneGen_eq]; exact objectClone_spec ht hnd hir

/-- the generated `(*list).Equals` against the model (`equalsJ` of the reified trees, as
`Driver/Exec` computes it) -/
theorem listEqualsGen_refines {n : Nat} {h : Heap} {a : Nat} {another : Ref} {jx jy : JVal}
    (hx : reify (n + 1) h (.list ⟨a, 0⟩) = some jx) (hy : reify (n + 1) h (.list another) = some jy)
    (hnd : keysNodup jx = true) :
    listEqualsGen n h a another = some (.ok (equalsJ jx jy)) := by
  rw [listEqualsGen_eq]; exact listEquals_spec hx hy hnd

theorem objectEqualsGen_refines {n : Nat} {h : Heap} {a : Nat} {another : Ref} {jx jy : JVal}
    (hx : reify (n + 1) h (.obj ⟨a, 0⟩) = some jx) (hy : reify (n + 1) h (.obj another) = some jy)
    (hnd : keysNodup jx = true) :
    objectEqualsGen n h a another = some (.ok (equalsJ jx jy)) := by
  rw [objectEqualsGen_eq]; exact objectEquals_spec hx hy hnd

end Generated.CG

/-! ## non-vacuity, the two allocation orders, and the embedding-level discrepancy -/
namespace CloneRef
open Generated.CG

/-- `[[1]]` at address 0 -/
def exH : Heap := [.list [.list ⟨1, 0⟩] 0, .list [.int 1] 0]
def exT : JVal := .list [.list [.int 1]]

-- the hypotheses of the refinement theorems hold for a nested value
example : reify 2 exH (.list ⟨0, 0⟩) = some exT := by simp [reify, reifyList, exH, exT]
example : keysNodup exT = true := by simp [keysNodup, keysNodupList, exT]
example : intsInRange exT = true := by simp [intsInRange, intsInRangeList, exT, InRange]

-- the Go code allocates the outer list (address 2) before its child (address 3) …
set_option maxRecDepth 2000 in
example : listCloneGen 1 exH 0 =
    some (exH ++ [.list [.list ⟨3, 0⟩] 0, .list [.int 1] 0], .ok ⟨2, 0⟩) := by
  rw [listCloneGen_eq]
  simp [listClone, listCopyRef, listCopyLoopRef, copyRef, intCopy, parseVal, L.count, Heap.items,
    Heap.setItems, exH, wrap64]

-- … the model's `build` the child (address 2) before the outer list (address 3): the two heaps are
-- equal only up to this renaming, which is why the refinement is stated with `CopySpec`
example : O.clone exH (.list ⟨0, 0⟩) =
    some (exH ++ [.list [.int 1] 0, .list [.list ⟨2, 0⟩] 0], .list ⟨3, 0⟩) := by
  simp [O.clone, reifyF, reify, reifyList, build, buildList, exH]

-- the embedding level of the argument does not matter (`another.(List)` holds for a derived type,
-- `base()` yields the same cell): `Equals` of a value of embedding level 1 is `equalsJ` as well
example : listEqualsGen 1 exH 0 ⟨0, 1⟩ = some (.ok true) := by
  have h1 : reify 2 exH (.list ⟨0, 0⟩) = some exT := by simp [reify, reifyList, exH, exT]
  have h2 : reify 2 exH (.list ⟨0, 1⟩) = some exT := by simp [reify, reifyList, exH, exT]
  rw [listEqualsGen_refines h1 h2 (by simp [keysNodup, keysNodupList, exT])]
  simp [equalsJ, equalsList, exT]

end CloneRef
end Anytype

#print axioms Anytype.Generated.CG.copyGen_eq
#print axioms Anytype.Generated.CG.isEqualGen_eq
#print axioms Anytype.Generated.CG.listCopyGen_eq
#print axioms Anytype.Generated.CG.objectCopyGen_eq
#print axioms Anytype.Generated.CG.listIsEqualGen_eq
#print axioms Anytype.Generated.CG.objectIsEqualGen_eq
#print axioms Anytype.Generated.CG.listCloneGen_eq
#print axioms Anytype.Generated.CG.objectCloneGen_eq
#print axioms Anytype.Generated.CG.listEqualsGen_eq
#print axioms Anytype.Generated.CG.objectEqualsGen_eq
#print axioms Anytype.Generated.CG.copyGen_refines
#print axioms Anytype.Generated.CG.isEqualGen_refines
#print axioms Anytype.Generated.CG.listCloneGen_refines
#print axioms Anytype.Generated.CG.objectCloneGen_refines
#print axioms Anytype.Generated.CG.listEqualsGen_refines
#print axioms Anytype.Generated.CG.objectEqualsGen_refines
