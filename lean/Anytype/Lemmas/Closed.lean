/-
Region closedness: for a set `P` of addresses, "every cell in `P` stores only references into
`P`". It is preserved by every mutator whose arguments reference only containers in `P`
(newly allocated cells are in `P`), so everything reachable from a value in `P` stays in `P`.
-/
import Anytype.Lemmas.Mutators
namespace Anytype
open Heap

/-- a stored value references (if anything) a container in `P` -/
def Val.refP (P : Nat → Prop) : Val → Prop
  | .list r => P r.addr
  | .obj r => P r.addr
  | _ => True

mutual
/-- every container reference occurring in a Go argument (at any depth) is in `P` -/
def GoVal.refP (P : Nat → Prop) : GoVal → Prop
  | .list r => P r.addr
  | .obj r => P r.addr
  | .slice _ xs => refPList P xs
  | .map _ kvs => refPFields P kvs
  | _ => True
def refPList (P : Nat → Prop) : List GoVal → Prop
  | [] => True
  | g :: gs => g.refP P ∧ refPList P gs
def refPFields (P : Nat → Prop) : List (Str × GoVal) → Prop
  | [] => True
  | (_, g) :: kvs => g.refP P ∧ refPFields P kvs
end

namespace Rf

/-- every cell in `P` stores only references into `P` -/
def Closed (P : Nat → Prop) (h : Heap) : Prop :=
  ∀ a, P a → (∀ v ∈ h.items a, v.refP P) ∧ (∀ kv ∈ h.fields a, kv.2.refP P)

/-- every address from `n` on (the cells still to be allocated) is in `P` -/
def UpFrom (P : Nat → Prop) (n : Nat) : Prop := ∀ a, n ≤ a → P a

theorem UpFrom.mono {P : Nat → Prop} {n m : Nat} (u : UpFrom P n) (hnm : n ≤ m) : UpFrom P m :=
  fun a ha => u a (Nat.le_trans hnm ha)

/-! ### reachability stays inside a closed region -/

theorem reach_closed {P : Nat → Prop} {h : Heap} (cl : Closed P h) :
    ∀ (n : Nat) (v : Val), v.refP P → ∀ a ∈ reach n h v, P a := by
  intro n
  induction n with
  | zero => intro v _ a ha; simp [reach] at ha
  | succ n ih =>
    have hl : ∀ xs : List Val, (∀ v ∈ xs, v.refP P) → ∀ a ∈ reachList n h xs, P a := by
      intro xs
      induction xs with
      | nil => intro _ a ha; simp [reachList] at ha
      | cons x xs ihx =>
        intro hx a ha
        rw [reachList] at ha
        rcases List.mem_append.1 ha with ha | ha
        · exact ih x (hx x (by simp)) a ha
        · exact ihx (fun v hv => hx v (by simp [hv])) a ha
    intro v hv a ha
    cases v with
    | list r =>
      simp only [Val.refP] at hv
      rw [reach] at ha
      rcases List.mem_cons.1 ha with rfl | ha
      · exact hv
      · exact hl _ (cl r.addr hv).1 a ha
    | obj r =>
      simp only [Val.refP] at hv
      rw [reach] at ha
      rcases List.mem_cons.1 ha with rfl | ha
      · exact hv
      · refine hl _ (fun v hv' => ?_) a ha
        obtain ⟨kv, hkv, rfl⟩ := List.mem_map.1 hv'
        exact (cl r.addr hv).2 kv hkv
    | _ => simp [reach] at ha

/-! ### the primitives -/

theorem Closed.setItems {P : Nat → Prop} {h : Heap} (cl : Closed P h) (a : Nat) (xs : List Val)
    (hx : P a → ∀ v ∈ xs, v.refP P) : Closed P (h.setItems a xs) := by
  intro b hb
  constructor
  · intro v hv
    rw [items_setItems] at hv
    split at hv
    · next hc => exact hx (hc.1 ▸ hb) v hv
    · exact (cl b hb).1 v hv
  · intro kv hkv
    rw [fields_setItems] at hkv
    exact (cl b hb).2 kv hkv

theorem Closed.setItems_sub {P : Nat → Prop} {h : Heap} (cl : Closed P h) (a : Nat) (xs : List Val)
    (hx : ∀ v ∈ xs, v ∈ h.items a) : Closed P (h.setItems a xs) :=
  cl.setItems a xs (fun ha v hv => (cl a ha).1 v (hx v hv))

theorem Closed.setFields {P : Nat → Prop} {h : Heap} (cl : Closed P h) (a : Nat)
    (kvs : List (Str × Val)) (hx : P a → ∀ kv ∈ kvs, kv.2.refP P) : Closed P (h.setFields a kvs) := by
  intro b hb
  constructor
  · intro v hv
    rw [items_setFields] at hv
    exact (cl b hb).1 v hv
  · intro kv hkv
    rw [fields_setFields] at hkv
    split at hkv
    · next hc => exact hx (hc.1 ▸ hb) kv hkv
    · exact (cl b hb).2 kv hkv

theorem Closed.append_list {P : Nat → Prop} {h : Heap} (cl : Closed P h) (xs : List Val) (e : Nat)
    (hx : P h.length → ∀ v ∈ xs, v.refP P) : Closed P (h ++ [.list xs e]) := by
  intro b hb
  constructor
  · intro v hv
    rw [items_append] at hv
    split at hv
    · next hc => exact hx (hc ▸ hb) v hv
    · exact (cl b hb).1 v hv
  · intro kv hkv
    rw [fields_append] at hkv
    split at hkv
    · simp at hkv
    · exact (cl b hb).2 kv hkv

theorem Closed.append_obj {P : Nat → Prop} {h : Heap} (cl : Closed P h) (kvs : List (Str × Val))
    (e : Nat) (hx : P h.length → ∀ kv ∈ kvs, kv.2.refP P) : Closed P (h ++ [.obj kvs e]) := by
  intro b hb
  constructor
  · intro v hv
    rw [items_append] at hv
    split at hv
    · simp at hv
    · exact (cl b hb).1 v hv
  · intro kv hkv
    rw [fields_append] at hkv
    split at hkv
    · next hc => exact hx (hc ▸ hb) kv hkv
    · exact (cl b hb).2 kv hkv

/-! ### `parseVal` / `addEach` / `setEach` -/

mutual
theorem parseVal_closed (P : Nat → Prop) : ∀ (h : Heap) (g : GoVal), Closed P h → UpFrom P h.length →
    g.refP P → Closed P (parseVal h g).1 ∧ ∀ v, (parseVal h g).2 = .ok v → v.refP P
  | h, .nil, cl, _, _ => by simp only [parseVal]; exact ⟨cl, fun v hv => by cases hv; trivial⟩
  | h, .bool _, cl, _, _ => by simp only [parseVal]; exact ⟨cl, fun v hv => by cases hv; trivial⟩
  | h, .intw _ _, cl, _, _ => by simp only [parseVal]; exact ⟨cl, fun v hv => by cases hv; trivial⟩
  | h, .f64 _, cl, _, _ => by simp only [parseVal]; exact ⟨cl, fun v hv => by cases hv; trivial⟩
  | h, .f32 _, cl, _, _ => by simp only [parseVal]; exact ⟨cl, fun v hv => by cases hv; trivial⟩
  | h, .str _, cl, _, _ => by simp only [parseVal]; exact ⟨cl, fun v hv => by cases hv; trivial⟩
  | h, .unsupported, cl, _, _ => by simp only [parseVal]; exact ⟨cl, fun v hv => by cases hv⟩
  | h, .list r, cl, _, hg => by simp only [parseVal]; exact ⟨cl, fun v hv => by cases hv; exact hg⟩
  | h, .obj r, cl, _, hg => by simp only [parseVal]; exact ⟨cl, fun v hv => by cases hv; exact hg⟩
  | h, .slice _ xs, cl, up, hg => by
    simp only [GoVal.refP] at hg
    have cl0 : Closed P (h ++ [.list [] 0]) := cl.append_list [] 0 (by simp)
    have ih := addEach_closed P (h ++ [.list [] 0]) h.length xs cl0 (up.mono (by simp)) hg
    simp only [parseVal]
    split
    · next h1 u hq =>
      rw [hq] at ih
      exact ⟨ih, fun v hv => by cases hv; exact up _ (Nat.le_refl _)⟩
    · next h1 k hq =>
      rw [hq] at ih
      exact ⟨ih, fun v hv => by cases hv⟩
  | h, .map _ kvs, cl, up, hg => by
    simp only [GoVal.refP] at hg
    have cl0 : Closed P (h ++ [.obj [] 0]) := cl.append_obj [] 0 (by simp)
    have ih := setEach_closed P (h ++ [.obj [] 0]) h.length kvs cl0 (up.mono (by simp)) hg
    simp only [parseVal]
    split
    · next h1 u hq =>
      rw [hq] at ih
      exact ⟨ih, fun v hv => by cases hv; exact up _ (Nat.le_refl _)⟩
    · next h1 k hq =>
      rw [hq] at ih
      exact ⟨ih, fun v hv => by cases hv⟩
theorem addEach_closed (P : Nat → Prop) : ∀ (h : Heap) (a : Nat) (gs : List GoVal), Closed P h →
    UpFrom P h.length → refPList P gs → Closed P (addEach h a gs).1
  | h, a, [], cl, _, _ => by simp only [addEach]; exact cl
  | h, a, g :: gs, cl, up, hg => by
    simp only [refPList] at hg
    have ih1 := parseVal_closed P h g cl up hg.1
    have e1 := parseVal_ext0 h g
    simp only [addEach]
    split
    · next h1 k hp => rw [hp] at ih1; exact ih1.1
    · next h1 v hp =>
      rw [hp] at ih1 e1
      have cl2 : Closed P (h1.setItems a (h1.items a ++ [v])) :=
        ih1.1.setItems a _ (fun ha w hw => by
          rcases List.mem_append.1 hw with hw | hw
          · exact (ih1.1 a ha).1 w hw
          · simp at hw; rw [hw]; exact ih1.2 v rfl)
      exact addEach_closed P _ a gs cl2 (up.mono (by simpa using e1.len)) hg.2
theorem setEach_closed (P : Nat → Prop) : ∀ (h : Heap) (a : Nat) (kvs : List (Str × GoVal)),
    Closed P h → UpFrom P h.length → refPFields P kvs → Closed P (setEach h a kvs).1
  | h, a, [], cl, _, _ => by simp only [setEach]; exact cl
  | h, a, (k, g) :: kvs, cl, up, hg => by
    simp only [refPFields] at hg
    have ih1 := parseVal_closed P h g cl up hg.1
    have e1 := parseVal_ext0 h g
    simp only [setEach]
    split
    · next h1 p hp => rw [hp] at ih1; exact ih1.1
    · next h1 v hp =>
      rw [hp] at ih1 e1
      have cl2 : Closed P (h1.setFields a (setKV (h1.fields a) k v)) :=
        ih1.1.setFields a _ (fun ha w hw => by
          rcases mem_setKV hw with hw | hw
          · rw [hw]; exact ih1.2 v rfl
          · exact (ih1.1 a ha).2 w hw)
      exact setEach_closed P _ a kvs cl2 (up.mono (by simpa using e1.len)) hg.2
end

/-! ### `build` -/

mutual
theorem build_closed (P : Nat → Prop) : ∀ (h : Heap) (t : JVal), Closed P h → UpFrom P h.length →
    Closed P (build h t).1 ∧ (build h t).2.refP P
  | h, .null, cl, _ => by simp only [build]; exact ⟨cl, trivial⟩
  | h, .bool _, cl, _ => by simp only [build]; exact ⟨cl, trivial⟩
  | h, .int _, cl, _ => by simp only [build]; exact ⟨cl, trivial⟩
  | h, .float _, cl, _ => by simp only [build]; exact ⟨cl, trivial⟩
  | h, .str _, cl, _ => by simp only [build]; exact ⟨cl, trivial⟩
  | h, .list xs, cl, up => by
    obtain ⟨c1, c2⟩ := buildList_closed P h xs cl up
    obtain ⟨e, he⟩ := (buildList_spec h xs).1
    rw [build_list_eq]
    exact ⟨c1.append_list _ 0 (fun _ => c2), up _ (by rw [he]; simp)⟩
  | h, .obj kvs, cl, up => by
    obtain ⟨c1, c2⟩ := buildFields_closed P h kvs cl up
    obtain ⟨e, he⟩ := (buildFields_spec h kvs).1
    rw [build_obj_eq]
    exact ⟨c1.append_obj _ 0 (fun _ => c2), up _ (by rw [he]; simp)⟩
theorem buildList_closed (P : Nat → Prop) : ∀ (h : Heap) (xs : List JVal), Closed P h →
    UpFrom P h.length → Closed P (buildList h xs).1 ∧ ∀ v ∈ (buildList h xs).2, v.refP P
  | h, [], cl, _ => by simp only [buildList]; exact ⟨cl, by simp⟩
  | h, x :: xs, cl, up => by
    obtain ⟨c1, r1⟩ := build_closed P h x cl up
    obtain ⟨e, he⟩ := (build_spec h x).1
    obtain ⟨c2, r2⟩ := buildList_closed P (build h x).1 xs c1 (up.mono (by rw [he]; simp))
    rw [buildList_cons_eq]
    refine ⟨c2, fun v hv => ?_⟩
    rcases List.mem_cons.1 hv with rfl | hv
    · exact r1
    · exact r2 v hv
theorem buildFields_closed (P : Nat → Prop) : ∀ (h : Heap) (kvs : List (Str × JVal)), Closed P h →
    UpFrom P h.length → Closed P (buildFields h kvs).1 ∧ ∀ kv ∈ (buildFields h kvs).2, kv.2.refP P
  | h, [], cl, _ => by simp only [buildFields]; exact ⟨cl, by simp⟩
  | h, (k, x) :: kvs, cl, up => by
    obtain ⟨c1, r1⟩ := build_closed P h x cl up
    obtain ⟨e, he⟩ := (build_spec h x).1
    obtain ⟨c2, r2⟩ := buildFields_closed P (build h x).1 kvs c1 (up.mono (by rw [he]; simp))
    rw [buildFields_cons_eq]
    refine ⟨c2, fun v hv => ?_⟩
    rcases List.mem_cons.1 hv with rfl | hv
    · exact r1
    · exact r2 v hv
end

/-! ### the mutators -/

/-- the container references among the arguments (at any depth) are all in `P` -/
def MOp.refP (P : Nat → Prop) : MOp → Prop
  | .add _ gs => refPList P gs
  | .insert _ _ g => g.refP P
  | .replace _ _ g => g.refP P
  | .oset _ pairs _ => ∀ p ∈ pairs, p.2.refP P
  | _ => True

theorem setLoop_closed (P : Nat → Prop) : ∀ (h : Heap) (a : Nat) (pairs : O.Pairs), Closed P h →
    UpFrom P h.length → (∀ p ∈ pairs, p.2.refP P) → Closed P (O.setLoop h a pairs).1
  | h, a, [], cl, _, _ => by simp only [O.setLoop]; exact cl
  | h, a, (none, _) :: _, cl, _, _ => by simp only [O.setLoop]; exact cl
  | h, a, (some k, g) :: rest, cl, up, hg => by
    have ih1 := parseVal_closed P h g cl up (hg (some k, g) (by simp))
    have e1 := parseVal_ext0 h g
    simp only [O.setLoop]
    split
    · next h1 p hp => rw [hp] at ih1; exact ih1.1
    · next h1 v hp =>
      rw [hp] at ih1 e1
      have cl2 : Closed P (h1.setFields a (setKV (h1.fields a) k v)) :=
        ih1.1.setFields a _ (fun ha w hw => by
          rcases mem_setKV hw with hw | hw
          · rw [hw]; exact ih1.2 v rfl
          · exact (ih1.1 a ha).2 w hw)
      exact setLoop_closed P _ a rest cl2 (up.mono (by simpa using e1.len))
        (fun p hp' => hg p (by simp [hp']))

theorem mem_delKV {α : Type} {kvs : List (Str × α)} {k : Str} {p : Str × α}
    (hp : p ∈ delKV kvs k) : p ∈ kvs := by
  induction kvs with
  | nil => simp [delKV] at hp
  | cons kv kvs ih =>
    obtain ⟨k', v'⟩ := kv
    unfold delKV at hp
    split at hp
    · exact List.mem_cons_of_mem _ hp
    · rcases List.mem_cons.1 hp with e | hm
      · rw [e]; exact List.mem_cons_self
      · exact List.mem_cons_of_mem _ (ih hm)

theorem mem_foldl_delKV {α : Type} (ks : List Str) {kvs : List (Str × α)} {p : Str × α}
    (hp : p ∈ ks.foldl delKV kvs) : p ∈ kvs := by
  induction ks generalizing kvs with
  | nil => exact hp
  | cons k ks ih => exact mem_delKV (ih hp)

theorem deleteLoop_closed (P : Nat → Prop) (h : Heap) (a : Nat) (ds : List Int) (cl : Closed P h) :
    Closed P (L.deleteLoop h a ds).1 := by
  induction ds generalizing h with
  | nil => exact cl
  | cons d ds ih =>
    unfold L.deleteLoop
    split
    · exact cl
    · refine ih _ (cl.setItems_sub a _ (fun w hw => ?_))
      rcases List.mem_append.1 hw with hw | hw
      · exact List.mem_of_mem_take hw
      · exact List.mem_of_mem_drop hw

theorem delete_closed (P : Nat → Prop) (h : Heap) (a : Nat) (idx : List Int) (cl : Closed P h) :
    Closed P (L.delete h a idx).1 := by
  have := deleteLoop_closed P h a (idx.mergeSort (fun x y => decide (x ≤ y))).reverse cl
  unfold L.delete
  simp only
  split <;> simp_all

theorem add_closed (P : Nat → Prop) (h : Heap) (a : Nat) (gs : List GoVal) (cl : Closed P h)
    (up : UpFrom P h.length) (hg : refPList P gs) : Closed P (L.add h a gs).1 := by
  have := addEach_closed P h a gs cl up hg
  unfold L.add
  split <;> simp_all

/-- a mutator whose arguments reference only containers in `P` keeps `P` closed -/
theorem stepM_closed (P : Nat → Prop) (h : Heap) (op : MOp) (cl : Closed P h)
    (up : UpFrom P h.length) (hop : op.refP P) : Closed P (stepM h op) := by
  cases op with
  | add a gs => exact add_closed P h a gs cl up hop
  | insert a i g =>
    simp only [stepM, MOp.refP] at hop ⊢
    unfold L.insert
    split
    · exact cl
    · split
      · exact add_closed P h a [g] cl up (by simp [refPList, hop])
      · have ih := parseVal_closed P h g cl up hop
        split
        · next h1 k hp => rw [hp] at ih; exact ih.1
        · next h1 v hp =>
          rw [hp] at ih
          refine ih.1.setItems a _ (fun ha w hw => ?_)
          rcases List.mem_or_eq_of_mem_set hw with hw | hw
          · rcases List.mem_append.1 hw with hw | hw
            · exact (ih.1 a ha).1 w (List.mem_of_mem_take hw)
            · exact (ih.1 a ha).1 w (List.mem_of_mem_drop hw)
          · rw [hw]; exact ih.2 v rfl
  | replace a i g =>
    simp only [stepM, MOp.refP] at hop ⊢
    unfold L.replace
    split
    · exact cl
    · have ih := parseVal_closed P h g cl up hop
      split
      · next h1 k hp => rw [hp] at ih; exact ih.1
      · next h1 v hp =>
        rw [hp] at ih
        refine ih.1.setItems a _ (fun ha w hw => ?_)
        rcases List.mem_or_eq_of_mem_set hw with hw | hw
        · exact (ih.1 a ha).1 w hw
        · rw [hw]; exact ih.2 v rfl
  | delete a idx => exact delete_closed P h a idx cl
  | pop a => exact delete_closed P h a _ cl
  | clear a => exact cl.setItems a [] (by simp)
  | reverse a =>
    simp only [stepM]
    rw [L.reverse_eq]
    exact cl.setItems_sub a _ (fun w hw => List.mem_reverse.1 hw)
  | sort a =>
    simp only [stepM]
    unfold L.sort
    simp only
    split
    · exact cl
    · exact cl.setItems a _ (fun _ w hw => by obtain ⟨s, _, rfl⟩ := List.mem_map.1 hw; trivial)
    · exact cl.setItems a _ (fun _ w hw => by obtain ⟨s, _, rfl⟩ := List.mem_map.1 hw; trivial)
    · exact cl.setItems a _ (fun _ w hw => by obtain ⟨s, _, rfl⟩ := List.mem_map.1 hw; trivial)
    · exact cl
  | oset a pairs odd =>
    simp only [stepM, MOp.refP] at hop ⊢
    have := setLoop_closed P h a pairs cl up hop
    unfold O.set
    split
    · exact cl
    · split <;> simp_all
  | ounset a keys =>
    simp only [stepM, O.unset]
    exact cl.setFields a _ (fun ha kv hkv => (cl a ha).2 kv (mem_foldl_delKV keys hkv))
  | oclear a => exact cl.setFields a [] (by simp)

/-! ### the two regions around a clone -/

theorem items_none {h : Heap} {a : Nat} (ha : h.length ≤ a) : h.items a = [] := by
  simp [items, List.getElem?_eq_none ha]
theorem fields_none {h : Heap} {a : Nat} (ha : h.length ≤ a) : h.fields a = [] := by
  simp [fields, List.getElem?_eq_none ha]

/-- a region containing no existing cell is closed -/
theorem closed_of_ge {P : Nat → Prop} {h : Heap} (hP : ∀ a, P a → h.length ≤ a) : Closed P h :=
  fun a ha => ⟨by simp [items_none (hP a ha)], by simp [fields_none (hP a ha)]⟩

theorem refP_of_okIn {h : Heap} {v : Val} {P : Nat → Prop} (hP : ∀ a, a < h.length → P a)
    (hv : v.okIn h) : v.refP P := by
  cases v <;> simp only [Val.okIn, Val.refP] at hv ⊢
  · exact hP _ (isList_lt hv)
  · exact hP _ (isObj_lt hv)

/-- in a well-formed heap extended by new cells, "old cells and cells still to come" is closed -/
theorem closed_old {h h' : Heap} (wf : HeapWF h) (e : Ext0 h h') :
    Closed (fun a => a < h.length ∨ h'.length ≤ a) h' := by
  intro a ha
  rcases ha with ha | ha
  · rw [e.items ha, e.fields ha]
    exact ⟨fun v hv => refP_of_okIn (fun _ hb => Or.inl hb) ((wf a).1 v hv),
      fun kv hkv => refP_of_okIn (fun _ hb => Or.inl hb) ((wf a).2 kv hkv)⟩
  · simp [items_none ha, fields_none ha]

end Rf
end Anytype
