/-
Consequences of the float-formatting contract that the proofs use: alphabet, non-emptiness, and
"not an integer literal" all follow from the `strict` field.
-/
import Anytype.Lemmas.NumberShape
namespace Anytype

theorem FmtContract.nonempty (hf : FmtContract) (x : F64) (hx : x.isFinite = true) : serF x ≠ [] :=
  (Strict.number_chars _ _ (hf.strict x hx)).1

theorem FmtContract.chars (hf : FmtContract) (x : F64) (hx : x.isFinite = true) :
    ∀ c ∈ serF x, isNumChar c = true :=
  (Strict.number_chars _ _ (hf.strict x hx)).2

theorem FmtContract.not_int (hf : FmtContract) (x : F64) (hx : x.isFinite = true) :
    parseIntBase0 (serF x) = none :=
  Strict.parseIntBase0_of_number_float _ x (hf.strict x hx)

/-! ### spot checks

`FmtContract` is an assumption about all finite floats and cannot be exhibited; what can be
checked by evaluation is that both fields hold at sample points (zeros, a whole value, 0.1,
1e+21 in 'e' format, 1e-07, 123456.789, the largest finite and the smallest subnormal value, 2^63).
The correspondence run tests `fmtContractAt` on many more values. -/

/-- executable form of the two contract fields at one float -/
def fmtContractAt (x : F64) : Bool :=
  F64.parseFloat (serF x) == some x &&
  (match Strict.number (serF x) with | some (some (.float y), []) => y == x | _ => false)

example : [F64.posZero, F64.negZero, F64.one, ⟨0x3FB999999999999A⟩, ⟨0x444B1AE4D6E2EF50⟩, ⟨0x3E7AD7F29ABCAF48⟩,
    ⟨0x40FE240C9FBE76C9⟩, F64.maxFinite, ⟨1⟩, ⟨0x43E0000000000000⟩].all fmtContractAt = true := by
  decide +kernel

end Anytype
