/-
The float-formatting contract from one field: `parse_back` follows from `strict`.

`Strict.number (serF x) = some (some (.float x), [])` makes `serF x` a number literal; on number
literals shorter than `SVP.numRunBound` = 9600 characters `parseField` (hence
`F64.parseFloat`) returns the value the strict reader returns (`SVP.number_parseField`, the lemma
behind `C03_numbers`); and `serF x` is always shorter than that (crude bound: 3300 characters,
from the definitions of `serF / fmtE / fmtF / shortest / decExp`).
-/
import Anytype.Lemmas.StrictVsParserNum
namespace Anytype
namespace COne
open F64

/-! ### bit fields -/

theorem expBits_lt (x : F64) : x.expBits < 2048 := by
  unfold expBits
  simp only [UInt64.toNat_and]
  have : (0x7ff : UInt64).toNat = 2 ^ 11 - 1 := by decide
  rw [this, Nat.and_two_pow_sub_one_eq_mod]
  omega

theorem frac_lt (x : F64) : x.frac < 2 ^ 52 := by
  unfold frac
  simp only [UInt64.toNat_and]
  have : (0xfffffffffffff : UInt64).toNat = 2 ^ 52 - 1 := by decide
  rw [this, Nat.and_two_pow_sub_one_eq_mod]
  omega

theorem mant_lt (x : F64) : x.mant < 2 ^ 53 := by
  have := frac_lt x
  unfold mant; split <;> omega

theorem exp2_bounds (x : F64) : -1074 ≤ x.exp2 ∧ x.exp2 ≤ 972 := by
  have := expBits_lt x
  unfold exp2; split
  · exact ⟨by decide, by decide⟩
  · next h => simp only [beq_iff_eq] at h; constructor <;> omega

theorem two_pow_le_ten_pow (k : Nat) : 2 ^ k ≤ 10 ^ k := Nat.pow_le_pow_left (by decide) k

/-- `|x| = n / d` with `n < 10^(53+972)`, `1 ≤ d < 10^(1074+1)` (exponents kept symbolic so that
nothing tries to evaluate the powers) -/
theorem absRat_bounds (x : F64) {N D : Nat} (hN : N = 1025) (hD : D = 1075) :
    (absRat x).1 < 10 ^ N ∧ 1 ≤ (absRat x).2 ∧ (absRat x).2 < 10 ^ D := by
  have hm := mant_lt x
  obtain ⟨he1, he2⟩ := exp2_bounds x
  unfold absRat
  simp only []
  split
  · next hp =>
    refine ⟨?_, Nat.le_refl _, Nat.one_lt_pow (by omega) (by decide)⟩
    have h1 : 53 + x.exp2.toNat ≤ N := by omega
    calc x.mant * 2 ^ x.exp2.toNat < 2 ^ 53 * 2 ^ x.exp2.toNat :=
          Nat.mul_lt_mul_of_pos_right hm (Nat.two_pow_pos _)
      _ = 2 ^ (53 + x.exp2.toNat) := by rw [← Nat.pow_add]
      _ ≤ 2 ^ N := Nat.pow_le_pow_right (by decide) h1
      _ ≤ 10 ^ N := two_pow_le_ten_pow _
  · next hp =>
    have h1 : (-x.exp2).toNat < D := by omega
    refine ⟨?_, Nat.two_pow_pos _, ?_⟩
    · calc x.mant < 2 ^ 53 := hm
        _ ≤ 2 ^ N := Nat.pow_le_pow_right (by decide) (by omega)
        _ ≤ 10 ^ N := two_pow_le_ten_pow _
    · calc 2 ^ (-x.exp2).toNat ≤ 10 ^ (-x.exp2).toNat := two_pow_le_ten_pow _
        _ < 10 ^ D := Nat.pow_lt_pow_right (by decide) h1

/-! ### the decimal exponent -/

theorem decLen_le_of_lt {m k : Nat} (hk : 0 < k) (h : m < 10 ^ k) : decLen m ≤ k := by
  obtain ⟨j, rfl⟩ : ∃ j, k = j + 1 := ⟨k - 1, by omega⟩
  exact SVP.decLen_le j m h

theorem decExp_bounds (n d N D : Nat) (hn : n < 10 ^ N) (hd : d < 10 ^ D) (hN : 0 < N)
    (hD : 0 < D) : -((D : Int) + 1) ≤ decExp n d ∧ decExp n d ≤ (N : Int) := by
  unfold decExp
  split
  · have h1 : decLen (n / d) ≤ N :=
      decLen_le_of_lt hN (Nat.lt_of_le_of_lt (Nat.div_le_self n d) hn)
    have h2 := SVP.decLen_pos (n / d)
    constructor <;> omega
  · have h1 : decLen (d / n) ≤ D :=
      decLen_le_of_lt hD (Nat.lt_of_le_of_lt (Nat.div_le_self d n) hd)
    simp only []
    have hneg : ∀ z : Int, Int.neg z = -z := fun _ => rfl
    rw [hneg]
    generalize decLen (d / n) = g at *
    split
    · constructor <;> omega
    · split <;> constructor <;> omega

/-! ### the shortest digits -/

theorem shortestLoop_some (t : UInt64) (n d : Nat) (E : Int) :
    ∀ (fuel p c p' : Nat), shortestLoop t n d E fuel p = some (c, p') →
      p ≤ p' ∧ p' < p + fuel ∧ tryPrec t n d E p' = some c
  | 0, p, c, p', h => by simp [shortestLoop] at h
  | fuel + 1, p, c, p', h => by
    simp only [shortestLoop] at h
    cases ht : tryPrec t n d E p with
    | some c0 =>
      rw [ht] at h
      simp only [Option.some.injEq, Prod.mk.injEq] at h
      obtain ⟨rfl, rfl⟩ := h
      exact ⟨Nat.le_refl _, by omega, ht⟩
    | none =>
      rw [ht] at h
      obtain ⟨h1, h2, h3⟩ := shortestLoop_some t n d E fuel (p + 1) c p' h
      exact ⟨by omega, by omega, h3⟩

/-! ### one precision attempt -/

def tpLo (n d : Nat) (E : Int) (p : Nat) : Nat :=
  if E - ((p : Int) - 1) ≥ 0 then n / (d * 10 ^ (E - ((p : Int) - 1)).toNat)
  else n * 10 ^ (-(E - ((p : Int) - 1))).toNat / d

theorem tryPrec_le (t : UInt64) (n d : Nat) (E : Int) (p c : Nat)
    (h : tryPrec t n d E p = some c) : c ≤ tpLo n d E p + 1 := by
  unfold tryPrec at h
  unfold tpLo
  by_cases hk : E - ((p : Int) - 1) ≥ 0
  · simp only [hk, if_true] at h ⊢
    generalize n / (d * 10 ^ (E - ((p : Int) - 1)).toNat) = lo at h ⊢
    repeat' (split at h)
    all_goals first | (cases h; omega) | cases h
  · simp only [hk, if_false] at h ⊢
    generalize n * 10 ^ (-(E - ((p : Int) - 1))).toNat / d = lo at h ⊢
    repeat' (split at h)
    all_goals first | (cases h; omega) | cases h

theorem tpLo_le (n d : Nat) (E : Int) (p K : Nat) (hK : (p : Int) - 1 - E ≤ K) :
    tpLo n d E p ≤ n * 10 ^ K := by
  unfold tpLo
  split
  · exact Nat.le_trans (Nat.div_le_self _ _) (Nat.le_mul_of_pos_right _ (Nat.pow_pos (by decide)))
  · exact Nat.le_trans (Nat.div_le_self _ _)
      (Nat.mul_le_mul_left _ (Nat.pow_le_pow_right (by decide) (by omega)))

theorem natDigits_length (c : Nat) : (natDigits c).length = decLen c := by
  simp [natDigits, decLen]

theorem shortest_bounds (x : F64) {N D : Nat} (hN : N = 1025) (hD : D = 1075) :
    (shortest x).1.length ≤ N + D + 18 ∧ -((D : Int) + 1) ≤ (shortest x).2 ∧
      (shortest x).2 ≤ (N : Int) + 1 := by
  have hb := absRat_bounds x hN hD
  unfold shortest
  generalize absRat x = nd at hb ⊢
  obtain ⟨n, d⟩ := nd
  simp only [] at hb ⊢
  have hE := decExp_bounds n d N D hb.1 hb.2.2 (by omega) (by omega)
  generalize decExp n d = E at hE ⊢
  cases hs : shortestLoop x.abs.bits n d E 17 1 with
  | none => simp only [List.length_nil]; constructor <;> omega
  | some cp =>
    obtain ⟨c, p⟩ := cp
    simp only []
    obtain ⟨hp1, hp2, ht⟩ := shortestLoop_some _ _ _ _ _ _ _ _ hs
    have hc := tryPrec_le _ _ _ _ _ _ ht
    have hlo := tpLo_le n d E p (D + 17) (by omega)
    have hc2 : c < 10 ^ (N + D + 18) := by
      have h1 : n * 10 ^ (D + 17) + 10 ^ (D + 17) ≤ 10 ^ N * 10 ^ (D + 17) := by
        rw [← Nat.succ_mul]; exact Nat.mul_le_mul_right _ hb.1
      have h2 : 1 ≤ 10 ^ (D + 17) := Nat.pow_pos (by decide)
      have h3 : 10 ^ N * 10 ^ (D + 17) < 10 ^ (N + D + 18) := by
        rw [← Nat.pow_add]; exact Nat.pow_lt_pow_right (by decide) (by omega)
      omega
    have hd := decLen_le_of_lt (by omega) hc2
    refine ⟨?_, ?_, ?_⟩
    · rw [List.length_reverse]
      refine Nat.le_trans (List.dropWhile_sublist _).length_le ?_
      rw [List.length_reverse, natDigits_length]; exact hd
    · split <;> omega
    · split <;> omega

theorem sgn_length (b : Bool) : (if b = true then ['-'] else ([] : Str)).length ≤ 1 := by
  cases b <;> decide

theorem fmtE_length (x : F64) {N D : Nat} (hN : N = 1025) (hD : D = 1075) :
    (fmtE x).length ≤ N + D + 30 := by
  have hb := shortest_bounds x hN hD
  unfold fmtE
  split
  · have : "NaN".toList.length = 3 := by decide
    omega
  split
  · have h1 : "-Inf".toList.length = 4 := by decide
    have h2 : "+Inf".toList.length = 4 := by decide
    split <;> omega
  simp only []
  have hs := sgn_length x.signBit
  split
  · have h1 : "0e+00".toList.length = 5 := by decide
    rw [List.length_append, h1]; omega
  generalize shortest x = sh at hb ⊢
  obtain ⟨ds, E⟩ := sh
  simp only [] at hb ⊢
  simp only [List.length_append, List.length_cons, List.length_nil]
  have hes : (if E < 0 then ['-'] else ['+']).length = 1 := by split <;> rfl
  have hen : (if (natToStr E.natAbs).length < 2 then '0' :: natToStr E.natAbs
      else natToStr E.natAbs).length ≤ 5 := by
    have : (natToStr E.natAbs).length ≤ 4 := by
      apply decLen_le_of_lt (m := E.natAbs) (by decide)
      have : E.natAbs < 10000 := by omega
      exact this
    split
    · simp only [List.length_cons]; omega
    · omega
  cases ds with
  | nil => simp only [List.drop_nil, List.isEmpty_nil, if_true, List.length_nil, List.length_cons]; omega
  | cons d0 tl =>
    simp only [List.drop_succ_cons, List.drop_zero, List.length_cons, List.length_nil] at hb ⊢
    have hfrac : (if tl.isEmpty = true then ([] : Str)
        else '.' :: List.map digitChar tl).length ≤ tl.length + 1 := by
      split
      · simp
      · simp only [List.length_cons, List.length_map]; omega
    omega

theorem fmtF_length (x : F64) {N D : Nat} (hN : N = 1025) (hD : D = 1075) :
    (fmtF x).length ≤ 2 * (N + D) + 30 := by
  have hb := shortest_bounds x hN hD
  unfold fmtF
  split
  · have : "NaN".toList.length = 3 := by decide
    omega
  split
  · have h1 : "-Inf".toList.length = 4 := by decide
    have h2 : "+Inf".toList.length = 4 := by decide
    split <;> omega
  simp only []
  have hs := sgn_length x.signBit
  split
  · rw [List.length_append]; simp only [List.length_cons, List.length_nil]; omega
  generalize shortest x = sh at hb ⊢
  obtain ⟨ds, E⟩ := sh
  simp only [] at hb ⊢
  split
  · simp only [List.length_append, List.length_map, List.length_take, List.length_replicate]
    have hrest : (if (List.drop (E.toNat + 1) ds).isEmpty = true then ([] : Str)
        else '.' :: List.map digitChar (List.drop (E.toNat + 1) ds)).length ≤ ds.length + 1 := by
      split
      · simp
      · simp only [List.length_cons, List.length_map, List.length_drop]; omega
    omega
  · simp only [List.length_append, List.length_map, List.length_replicate, List.length_cons,
      List.length_nil]
    omega

/-- the serialised float is far shorter than the bound under which `parseField` provably agrees
with the strict reader -/
theorem serF_length_lt (x : F64) : (serF x).length < SVP.numRunBound := by
  have hE := fmtE_length x (N := 1025) (D := 1075) rfl rfl
  have hF := fmtF_length x (N := 1025) (D := 1075) rfl rfl
  show _ < 9600
  unfold serF
  split
  · omega
  split
  · omega
  split
  · omega
  simp only []
  split
  · rw [List.length_append]; simp only [List.length_cons, List.length_nil]; omega
  · omega

end COne

/-- `parse_back` is a consequence of `strict`: the contract needs one field only -/
theorem FmtContract.of_strict
    (hs : ∀ x : F64, x.isFinite = true → Strict.number (serF x) = some (some (.float x), [])) :
    FmtContract := by
  refine ⟨?_, hs⟩
  intro x hx
  obtain ⟨t, ht, _, _, hpf⟩ := SVP.number_parseField _ _ _ (hs x hx)
  rw [List.append_nil] at ht
  subst ht
  have h := hpf (COne.serF_length_lt x) 0
  unfold parseField at h
  split at h
  · cases h
  split at h
  · cases h
  split at h
  · next f hf =>
    injection h with h
    injection h with h
    rw [hf, h]
  · split at h <;> cases h

/-- the contract is equivalent to its `strict` field -/
theorem FmtContract.iff_strict :
    FmtContract ↔
      ∀ x : F64, x.isFinite = true → Strict.number (serF x) = some (some (.float x), []) :=
  ⟨fun hf => hf.strict, FmtContract.of_strict⟩

/-! ### non-vacuity

The hypothesis of `FmtContract.of_strict` is the (remaining) contract assumption about all finite
floats and cannot be exhibited; at sample points (largest finite value, smallest subnormal, 0.1,
-0) both the `strict` field and the derived `parse_back` hold by evaluation
(`fmtContractAt`, `Lemmas/Contract.lean`), and the texts are short. -/
example : [F64.maxFinite, ⟨1⟩, ⟨0x3FB999999999999A⟩, F64.negZero].all
    (fun x => fmtContractAt x && decide ((serF x).length < SVP.numRunBound)) = true := by
  decide +kernel

end Anytype

#print axioms Anytype.COne.serF_length_lt
#print axioms Anytype.FmtContract.of_strict
#print axioms Anytype.FmtContract.iff_strict
