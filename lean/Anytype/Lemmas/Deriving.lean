/-
The deriving operations (those documented as producing a new container) as one alphabet `DOp`:
every one of them leaves all existing cells untouched and returns a cell that did not exist.
-/
import Anytype.Lemmas.Mutators
namespace Anytype
open Heap
namespace Rf

/-! ### the loops only touch the result cell -/

theorem lmapLoop_ext (res : Nat) (f : Int → Val → GoVal) :
    ∀ (h : Heap) (xs : List Val) (i : Int), Ext h (L.mapLoop res f h xs i).1 res
  | h, [], i => by simp only [L.mapLoop]; exact Ext.refl _ _
  | h, x :: xs, i => by
    have e := addEach_ext h res [f i (h.getVal x)]
    simp only [L.mapLoop]
    split
    · next h1 k hp => rw [hp] at e; exact e
    · next h1 u hp => rw [hp] at e; exact e.trans (lmapLoop_ext res f h1 xs (i + 1))

theorem lmapKLoop_ext (res : Nat) (k : Kind) (f : Val → GoVal) :
    ∀ (h : Heap) (xs : List Val), Ext h (L.mapKLoop res k f h xs).1 res
  | h, [] => by simp only [L.mapKLoop]; exact Ext.refl _ _
  | h, x :: xs => by
    simp only [L.mapKLoop]
    split
    · next v hv =>
      have e := addEach_ext h res [f v]
      split
      · next h1 k hp => rw [hp] at e; exact e
      · next h1 u hp => rw [hp] at e; exact e.trans (lmapKLoop_ext res k f h1 xs)
    · exact lmapKLoop_ext res k f h xs

theorem pluckLoop_ext (a res : Nat) : ∀ (h : Heap) (ks : List Str), Ext h (O.pluckLoop h a res ks).1 res
  | h, [] => by simp only [O.pluckLoop]; exact Ext.refl _ _
  | h, k :: ks => by
    simp only [O.pluckLoop]
    split
    · exact Ext.refl _ _
    · exact (Ext.setFields h res _).trans (pluckLoop_ext a res _ ks)

theorem omapLoop_ext (res : Nat) (f : Str → Val → GoVal) :
    ∀ (h : Heap) (kvs : List (Str × Val)), Ext h (O.mapLoop res f h kvs).1 res
  | h, [] => by simp only [O.mapLoop]; exact Ext.refl _ _
  | h, (k, x) :: kvs => by
    have e := parseVal_ext0 h (f k (h.getVal x))
    simp only [O.mapLoop]
    split
    · next h1 p hp => rw [hp] at e; exact e.toExt res
    · next h1 v hp =>
      rw [hp] at e
      exact (e.toExt res).trans ((Ext.setFields h1 res _).trans (omapLoop_ext res f _ kvs))

theorem omapKLoop_ext (res : Nat) (kd : Kind) (f : Val → GoVal) :
    ∀ (h : Heap) (kvs : List (Str × Val)), Ext h (O.mapKLoop res kd f h kvs).1 res
  | h, [] => by simp only [O.mapKLoop]; exact Ext.refl _ _
  | h, (k, x) :: kvs => by
    simp only [O.mapKLoop]
    split
    · next y hy =>
      have e := parseVal_ext0 h (f y)
      split
      · next h1 p hp => rw [hp] at e; exact e.toExt res
      · next h1 v hp =>
        rw [hp] at e
        exact (e.toExt res).trans ((Ext.setFields h1 res _).trans (omapKLoop_ext res kd f _ kvs))
    · exact omapKLoop_ext res kd f h kvs

/-! ### the alphabet -/

/-- one deriving call: receiver address, arguments, callbacks (any functions) -/
inductive DOp
  | concat (a : Nat) (another : Ref)
  | subList (a : Nat) (s e : Int)
  | filter (a : Nat) (p : Val → Bool)
  | filterK (a : Nat) (k : Kind) (p : Val → Bool)
  | map (a : Nat) (f : Int → Val → GoVal)
  | mapValues (a : Nat) (f : Val → GoVal)
  | mapK (a : Nat) (k : Kind) (f : Val → GoVal)
  | keys (a : Nat)
  | values (a : Nat)
  | pluck (a : Nat) (ks : List Str)
  | omap (a : Nat) (f : Str → Val → GoVal)
  | omapValues (a : Nat) (f : Val → GoVal)
  | omapK (a : Nat) (kd : Kind) (f : Val → GoVal)
  | merge (a another : Nat)
  | clone (v : Val)

def outRef : Heap × Out Ref → Heap × Option Ref
  | (h, .ok r) => (h, some r)
  | (h, .panic _) => (h, none)

def valRef : Val → Option Ref
  | .list r => some r
  | .obj r => some r
  | _ => none

/-- the heap after the call (at the panic point if it panics) and the reference of the result
container (`none`: panic / failure / a scalar clone) -/
def derive (h : Heap) : DOp → Heap × Option Ref
  | .concat a another => outRef (L.concat h a another)
  | .subList a s e => outRef (L.subList h a s e)
  | .filter a p => ((L.filter h a p).1, some (L.filter h a p).2)
  | .filterK a k p => ((L.filterK h a k p).1, some (L.filterK h a k p).2)
  | .map a f => outRef (L.map h a f)
  | .mapValues a f => outRef (L.mapValues h a f)
  | .mapK a k f => outRef (L.mapK h a k f)
  | .keys a => ((O.keys h a).1, some (O.keys h a).2)
  | .values a => ((O.values h a).1, some (O.values h a).2)
  | .pluck a ks => outRef (O.pluck h a ks)
  | .omap a f => outRef (O.map h a f)
  | .omapValues a f => outRef (O.mapValues h a f)
  | .omapK a kd f => outRef (O.mapK h a kd f)
  | .merge a another =>
    match O.merge h a another with
    | some (h1, r) => (h1, some r)
    | none => (h, none)
  | .clone v =>
    match O.clone h v with
    | some (h1, c) => (h1, valRef c)
    | none => (h, none)

/-- `h1` has every cell of `h` unchanged, and `r` is a cell of `h1` that `h` did not have -/
structure Derived (h h1 : Heap) (r : Option Ref) : Prop where
  ext0 : Ext0 h h1
  fresh : ∀ q, r = some q → h.length ≤ q.addr ∧ q.addr < h1.length

theorem Derived.of_loop_ok {h hh : Heap} {c : Cell} (e : Ext (h ++ [c]) hh h.length) :
    Derived h hh (some ⟨h.length, 0⟩) := by
  have e0 : Ext0 h hh := (Ext0.append h c).trans_ext e (Nat.le_refl _)
  have hl : h.length < hh.length := by have := e.len; simp at this; omega
  exact ⟨e0, fun q hq => by cases hq; exact ⟨Nat.le_refl _, hl⟩⟩

theorem Derived.of_loop_panic {h hh : Heap} {c : Cell} (e : Ext (h ++ [c]) hh h.length) :
    Derived h hh none :=
  ⟨(Ext0.append h c).trans_ext e (Nat.le_refl _), fun q hq => by cases hq⟩

theorem Derived.append (h : Heap) (c : Cell) : Derived h (h ++ [c]) (some ⟨h.length, 0⟩) :=
  ⟨Ext0.append h c, fun q hq => by cases hq; simp⟩

theorem Derived.none_refl (h : Heap) : Derived h h none := ⟨Ext0.refl h, fun q hq => by cases hq⟩

theorem derive_map (h : Heap) (a : Nat) (f : Int → Val → GoVal) :
    Derived h (outRef (L.map h a f)).1 (outRef (L.map h a f)).2 := by
  have e := lmapLoop_ext h.length f (h ++ [.list [] 0]) (h.items a) 0
  unfold L.map
  simp only
  rcases hq : L.mapLoop h.length f (h ++ [.list [] 0]) (h.items a) 0 with ⟨hh, o⟩
  rw [hq] at e
  cases o
  · simp only [hq, outRef]; exact Derived.of_loop_ok e
  · simp only [hq, outRef]; exact Derived.of_loop_panic e

theorem derive_spec (h : Heap) (op : DOp) : Derived h (derive h op).1 (derive h op).2 := by
  cases op with
  | concat a r =>
    simp only [derive]
    by_cases hb : h.isList r.addr = true
    · rw [L.concat_ok h a r hb]; exact Derived.append h _
    · rw [L.concat_bad h a r hb]; exact Derived.none_refl h
  | subList a s e =>
    simp only [derive]
    rw [L.subList_cases h a s e]
    repeat' split
    all_goals first | exact Derived.none_refl h | exact Derived.append h _
  | filter a p => exact Derived.append h _
  | filterK a k p => exact Derived.append h _
  | map a f => exact derive_map h a f
  | mapValues a f => exact derive_map h a _
  | mapK a k f =>
    simp only [derive]
    have e := lmapKLoop_ext h.length k f (h ++ [.list [] 0]) (h.items a)
    unfold L.mapK
    simp only
    rcases hq : L.mapKLoop h.length k f (h ++ [.list [] 0]) (h.items a) with ⟨hh, o⟩
    rw [hq] at e
    cases o
    · simp only [hq, outRef]; exact Derived.of_loop_ok e
    · simp only [hq, outRef]; exact Derived.of_loop_panic e
  | keys a => exact Derived.append h _
  | values a => exact Derived.append h _
  | pluck a ks =>
    simp only [derive]
    have e := pluckLoop_ext a h.length (h ++ [.obj [] 0]) ks
    unfold O.pluck
    simp only
    rcases hq : O.pluckLoop (h ++ [.obj [] 0]) a h.length ks with ⟨hh, o⟩
    rw [hq] at e
    cases o
    · simp only [hq, outRef]; exact Derived.of_loop_ok e
    · simp only [hq, outRef]; exact Derived.of_loop_panic e
  | omap a f =>
    simp only [derive]
    have e := omapLoop_ext h.length f (h ++ [.obj [] 0]) (h.fields a)
    unfold O.map
    simp only
    rcases hq : O.mapLoop h.length f (h ++ [.obj [] 0]) (h.fields a) with ⟨hh, o⟩
    rw [hq] at e
    cases o
    · simp only [hq, outRef]; exact Derived.of_loop_ok e
    · simp only [hq, outRef]; exact Derived.of_loop_panic e
  | omapValues a f =>
    simp only [derive]
    have e := omapLoop_ext h.length (fun _ v => f v) (h ++ [.obj [] 0]) (h.fields a)
    unfold O.mapValues O.map
    simp only
    rcases hq : O.mapLoop h.length (fun _ v => f v) (h ++ [.obj [] 0]) (h.fields a) with ⟨hh, o⟩
    rw [hq] at e
    cases o
    · simp only [hq, outRef]; exact Derived.of_loop_ok e
    · simp only [hq, outRef]; exact Derived.of_loop_panic e
  | omapK a kd f =>
    simp only [derive]
    have e := omapKLoop_ext h.length kd f (h ++ [.obj [] 0]) (h.fields a)
    unfold O.mapK
    simp only
    rcases hq : O.mapKLoop h.length kd f (h ++ [.obj [] 0]) (h.fields a) with ⟨hh, o⟩
    rw [hq] at e
    cases o
    · simp only [hq, outRef]; exact Derived.of_loop_ok e
    · simp only [hq, outRef]; exact Derived.of_loop_panic e
  | merge a another =>
    simp only [derive]
    unfold O.merge
    cases hc : O.clone h (.obj ⟨a, 0⟩) with
    | none => exact Derived.none_refl h
    | some p =>
      obtain ⟨h1, c⟩ := p
      obtain ⟨t, _, ⟨extra, he⟩, _, d⟩ := clone_spec hc
      cases c with
      | obj r =>
        simp only
        have hr := d.reach h1 (AgreeOn.refl _ _ _) 1 r.addr (by simp [reach])
        have e0 : Ext0 h h1 := by rw [he]; exact ext0_of_append h extra
        exact ⟨e0.trans_ext (Ext.setFields h1 r.addr _) hr.1,
          fun q hq => by cases hq; simpa using hr⟩
      | _ => exact Derived.none_refl h
  | clone v =>
    simp only [derive]
    cases hc : O.clone h v with
    | none => exact Derived.none_refl h
    | some p =>
      obtain ⟨h1, c⟩ := p
      obtain ⟨t, _, ⟨extra, he⟩, _, d⟩ := clone_spec hc
      have e0 : Ext0 h h1 := by rw [he]; exact ext0_of_append h extra
      refine ⟨e0, fun q hq => ?_⟩
      cases c with
      | list r =>
        cases hq
        exact d.reach h1 (AgreeOn.refl _ _ _) 1 _ (by simp [reach])
      | obj r =>
        cases hq
        exact d.reach h1 (AgreeOn.refl _ _ _) 1 _ (by simp [reach])
      | _ => cases hq

end Rf
end Anytype
