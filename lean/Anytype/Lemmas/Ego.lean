/-
Lemmas for C19: no operation changes the registered embedding level (`ego`) of an existing cell,
so the fluent methods return the receiver's registered outer value; readers hand back the
registered outer value of a stored container.
-/
import Anytype.Lemmas.HeapWF
import Anytype.Model.TreeForm
namespace Anytype
open Heap

theorem egoRef_mono {h h' : Heap} (m : Mono h h') {a : Nat} (ha : a < h.length) :
    h'.egoRef a = h.egoRef a := by
  simp only [egoRef, ego_of_shape (m.shape a ha)]

theorem ego_mono {h h' : Heap} (m : Mono h h') {a : Nat} (ha : a < h.length) : h'.ego a = h.ego a :=
  ego_of_shape (m.shape a ha)

/-! ### `Init` -/

theorem getElem?_setEgo_ne (h : Heap) {a b : Nat} (k : Nat) (hne : b ≠ a) : (h.setEgo a k)[b]? = h[b]? := by
  unfold setEgo
  split <;> first | (rw [List.getElem?_set_ne]; omega) | rfl

theorem ego_setEgo_self (h : Heap) (a k : Nat) (ha : a < h.length) : (h.setEgo a k).ego a = k := by
  obtain ⟨c, hc⟩ : ∃ c, h[a]? = some c := ⟨h[a], List.getElem?_eq_getElem ha⟩
  cases c <;> (simp only [setEgo, ego, hc]; simp [ha])

theorem items_setEgo (h : Heap) (a k b : Nat) : (h.setEgo a k).items b = h.items b := by
  by_cases hne : b = a
  · subst hne
    unfold setEgo
    split
    · next xs e he =>
      have hlt := (List.getElem?_eq_some_iff.1 he).1
      simp only [items, he]; simp [hlt]
    · next kvs e he =>
      have hlt := (List.getElem?_eq_some_iff.1 he).1
      simp only [items, he]; simp [hlt]
    · rfl
  · exact items_congr (getElem?_setEgo_ne h k hne)

theorem fields_setEgo (h : Heap) (a k b : Nat) : (h.setEgo a k).fields b = h.fields b := by
  by_cases hne : b = a
  · subst hne
    unfold setEgo
    split
    · next xs e he =>
      have hlt := (List.getElem?_eq_some_iff.1 he).1
      simp only [fields, he]; simp [hlt]
    · next kvs e he =>
      have hlt := (List.getElem?_eq_some_iff.1 he).1
      simp only [fields, he]; simp [hlt]
    · rfl
  · exact fields_congr (getElem?_setEgo_ne h k hne)

theorem length_setEgo (h : Heap) (a k : Nat) : (h.setEgo a k).length = h.length := by
  unfold setEgo; split <;> simp

/-! ### the fluent list methods -/

namespace L

theorem add_fluent (h : Heap) (a : Nat) (gs : List GoVal) (r : Ref) (ha : a < h.length)
    (hr : (add h a gs).2 = .ok r) : r = h.egoRef a := by
  have e := addEach_ext h a gs
  unfold add at hr
  split at hr
  · next h1 u hq => rw [hq] at e; cases hr; exact egoRef_mono e.mono ha
  · cases hr

theorem insert_fluent (h : Heap) (a : Nat) (i : Int) (g : GoVal) (r : Ref) (ha : a < h.length)
    (hr : (insert h a i g).2 = .ok r) : r = h.egoRef a := by
  unfold insert at hr
  split at hr
  · cases hr
  · split at hr
    · exact add_fluent h a [g] r ha hr
    · have e := parseVal_ext0 h g
      split at hr
      · cases hr
      · next h1 v hq => rw [hq] at e; cases hr; exact egoRef_mono e.mono ha

theorem replace_fluent (h : Heap) (a : Nat) (i : Int) (g : GoVal) (r : Ref) (ha : a < h.length)
    (hr : (replace h a i g).2 = .ok r) : r = h.egoRef a := by
  unfold replace at hr
  split at hr
  · cases hr
  · have e := parseVal_ext0 h g
    split at hr
    · cases hr
    · next h1 v hq => rw [hq] at e; cases hr; exact egoRef_mono e.mono ha

theorem delete_fluent (h : Heap) (a : Nat) (idx : List Int) (r : Ref) (ha : a < h.length)
    (hr : (delete h a idx).2 = .ok r) : r = h.egoRef a := by
  have e := deleteLoop_ext h a (idx.mergeSort (fun x y => decide (x ≤ y))).reverse
  unfold delete at hr
  simp only at hr
  split at hr
  · next h1 u hq => rw [hq] at e; cases hr; exact egoRef_mono e.mono ha
  · cases hr

theorem pop_fluent (h : Heap) (a : Nat) (r : Ref) (ha : a < h.length)
    (hr : (pop h a).2 = .ok r) : r = h.egoRef a := delete_fluent h a _ r ha hr

theorem clear_fluent (h : Heap) (a : Nat) (r : Ref) (hr : (clear h a).2 = .ok r) : r = h.egoRef a := by
  cases hr; rfl

theorem reverse_fluent (h : Heap) (a : Nat) (r : Ref) (hr : (reverse h a).2 = .ok r) : r = h.egoRef a := by
  cases hr; rfl

theorem sort_fluent (h : Heap) (a : Nat) (r : Ref) (hr : (sort h a).2 = .ok r) : r = h.egoRef a := by
  unfold sort at hr
  simp only at hr
  split at hr <;> cases hr <;> rfl

/-! ### readers -/

theorem get_at (h : Heap) (a : Nat) (i : Int) (x : Val) (h0 : 0 ≤ i)
    (hx : (h.items a)[i.toNat]? = some x) : get h a i = .ok (h.getVal x) := by
  obtain ⟨hn, e⟩ := List.getElem?_eq_some_iff.1 hx
  rw [get_in h a i h0 hn, e]

theorem forEachLoop_values (h : Heap) (xs : List Val) (i : Int) (log : List (Int × Val)) :
    (forEachLoop h xs i log).map (·.2) = log.map (·.2) ++ xs.map h.getVal := by
  induction xs generalizing i log with
  | nil => simp [forEachLoop]
  | cons x xs ih => simp [forEachLoop, ih]

theorem forEachValue_eq (h : Heap) (a : Nat) : forEachValue h a = (h.items a).map h.getVal := by
  simp [forEachValue, forEach, forEachLoop_values]

theorem filterLoop_eq (h : Heap) (p : Val → Bool) (xs acc : List Val) :
    filterLoop h p xs acc = acc ++ (xs.map h.getVal).filter p := by
  induction xs generalizing acc with
  | nil => simp [filterLoop]
  | cons x xs ih =>
    simp only [filterLoop, List.map_cons, List.filter_cons]
    split <;> simp [ih]

theorem sliceKLoop_eq (h : Heap) (k : Kind) (xs acc : List Val) :
    sliceKLoop h k xs acc = acc ++ xs.filterMap (sel h (viaGetValL k) k) := by
  induction xs generalizing acc with
  | nil => simp [sliceKLoop]
  | cons x xs ih =>
    simp only [sliceKLoop, List.filterMap_cons]
    split <;> simp_all

theorem forEachKLoop_eq (h : Heap) (k : Kind) (xs acc : List Val) :
    forEachKLoop h k xs acc = acc ++ xs.filterMap (sel h (viaGetValL k) k) := by
  induction xs generalizing acc with
  | nil => simp [forEachKLoop]
  | cons x xs ih =>
    simp only [forEachKLoop, List.filterMap_cons]
    split <;> simp_all

theorem filterKLoop_eq (h : Heap) (k : Kind) (p : Val → Bool) (xs acc : List Val) :
    filterKLoop h k p xs acc = acc ++ (xs.filterMap (sel h (viaGetValL k) k)).filter p := by
  induction xs generalizing acc with
  | nil => simp [filterKLoop]
  | cons x xs ih =>
    simp only [filterKLoop, List.filterMap_cons]
    split
    · next v hv => split <;> simp_all
    · simp_all

end L

/-! ### the fluent object methods -/

namespace O

theorem setLoop_ext (h : Heap) (a : Nat) (ps : Pairs) : Ext h (setLoop h a ps).1 a := by
  induction ps generalizing h with
  | nil => exact Ext.refl h a
  | cons p ps ih =>
    obtain ⟨k, g⟩ := p
    cases k with
    | none => exact Ext.refl h a
    | some k =>
      have e := parseVal_ext0 h g
      simp only [setLoop]
      split
      · next h1 q hq => rw [hq] at e; exact e.toExt a
      · next h1 v hq => rw [hq] at e; exact (e.toExt a).trans ((Ext.setFields h1 a _).trans (ih _))

theorem set_ext (h : Heap) (a : Nat) (ps : Pairs) (odd : Bool) : Ext h (set h a ps odd).1 a := by
  have e := setLoop_ext h a ps
  unfold set
  split
  · exact Ext.refl h a
  · split <;> simp_all

theorem set_fluent (h : Heap) (a : Nat) (ps : Pairs) (odd : Bool) (r : Ref) (ha : a < h.length)
    (hr : (set h a ps odd).2 = .ok r) : r = h.egoRef a := by
  have e := setLoop_ext h a ps
  unfold set at hr
  split at hr
  · cases hr
  · split at hr
    · next h1 u hq => rw [hq] at e; cases hr; exact egoRef_mono e.mono ha
    · cases hr

theorem unset_fluent (h : Heap) (a : Nat) (keys : List Str) (r : Ref)
    (hr : (unset h a keys).2 = .ok r) : r = h.egoRef a := by
  cases hr
  simp [egoRef]

theorem clear_fluent (h : Heap) (a : Nat) (r : Ref) (hr : (clear h a).2 = .ok r) : r = h.egoRef a := by
  cases hr; rfl

theorem unset_ext (h : Heap) (a : Nat) (keys : List Str) : Ext h (unset h a keys).1 a :=
  Ext.setFields h a _

end O

/-! ### SetTF / UnsetTF keep every existing cell's kind and ego -/

namespace TF

theorem padNil_mono (h : Heap) (a n : Nat) : Mono h (padNil h a n) := (Ext.setItems h a _).mono

theorem stepL_mono (h : Heap) (a : Nat) (i : Int) (w : Bool) : Mono h (stepL h a i w).1 := by
  unfold stepL
  cases w <;> simp only [Bool.false_eq_true, if_false, if_true]
  all_goals
    split
    · exact (Ext0.append h _).mono.trans ((padNil_mono _ a _).trans (Ext.setItems _ a _).mono)
    · split
      · split <;> exact Mono.refl h
      · split
        · exact (Ext0.append h _).mono
        · exact (Ext0.append h _).mono.trans (Ext.setItems _ a _).mono

theorem stepO_mono (h : Heap) (a : Nat) (key : Str) (w : Bool) : Mono h (stepO h a key w).1 := by
  unfold stepO
  cases w <;> simp only [Bool.false_eq_true, if_false, if_true]
  all_goals
    split
    · split <;> exact Mono.refl h
    · exact (Ext0.append h _).mono.trans (Ext.setFields _ a _).mono

theorem set_mono : ∀ (n : Nat),
    (∀ h a tf g, Mono h (setL n h a tf g).1) ∧ (∀ h a tf g, Mono h (setO n h a tf g).1)
  | 0 => ⟨fun h _ _ _ => by simp only [setL]; exact Mono.refl h,
          fun h _ _ _ => by simp only [setO]; exact Mono.refl h⟩
  | n + 1 => by
    obtain ⟨ihL, ihO⟩ := set_mono n
    constructor
    · intro h a tf g
      rw [setL]
      split
      · exact Mono.refl h
      · split
        · split
          · exact Mono.refl h
          · next i _ =>
            have m := stepL_mono h a i true
            split
            · next h1 p hq => rw [hq] at m; exact m
            · next h1 c hq => rw [hq] at m; exact m.trans (ihO h1 c _ g)
        · split
          · exact Mono.refl h
          · next i _ =>
            have m := stepL_mono h a i false
            split
            · next h1 p hq => rw [hq] at m; exact m
            · next h1 c hq => rw [hq] at m; exact m.trans (ihL h1 c _ g)
        · split
          · exact Mono.refl h
          · next i _ =>
            simp only
            split
            · have m := (padNil_mono h a (i - L.count h a).toNat).trans
                (L.add_ext (padNil h a (i - L.count h a).toNat) a [g]).mono
              split <;> simp_all
            · have m := (L.replace_ext h a i g).mono
              split <;> simp_all
    · intro h a tf g
      rw [setO]
      split
      · exact Mono.refl h
      · split
        · next key rest _ =>
          have m := stepO_mono h a key true
          exact m.trans (ihO _ _ rest g)
        · next key rest _ =>
          have m := stepO_mono h a key false
          exact m.trans (ihL _ _ rest g)
        · next key _ =>
          have m := (O.set_ext h a [(some key, g)] false).mono
          split <;> simp_all

theorem unset_mono : ∀ (n : Nat),
    (∀ h a tf, Mono h (unsetL n h a tf).1) ∧ (∀ h a tf, Mono h (unsetO n h a tf).1)
  | 0 => ⟨fun h _ _ => by simp only [unsetL]; exact Mono.refl h,
          fun h _ _ => by simp only [unsetO]; exact Mono.refl h⟩
  | n + 1 => by
    obtain ⟨ihL, ihO⟩ := unset_mono n
    constructor
    · intro h a tf
      rw [unsetL]
      split
      · exact Mono.refl h
      · split
        · split
          · exact Mono.refl h
          · split
            · exact ihO _ _ _
            · exact Mono.refl h
            · exact Mono.refl h
        · split
          · exact Mono.refl h
          · split
            · exact ihL _ _ _
            · exact Mono.refl h
            · exact Mono.refl h
        · split
          · exact Mono.refl h
          · next i _ =>
            have m := (L.delete_ext h a [i]).mono
            split <;> simp_all
    · intro h a tf
      rw [unsetO]
      split
      · exact Mono.refl h
      · split
        · split
          · exact ihO _ _ _
          · exact Mono.refl h
          · exact Mono.refl h
        · split
          · exact ihL _ _ _
          · exact Mono.refl h
          · exact Mono.refl h
        · next key _ => exact (O.unset_ext h a [key]).mono

end TF

end Anytype
