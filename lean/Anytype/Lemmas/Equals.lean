/-
Lemmas about `equalsJ` (model of `Equals`) and `specEq` (its specification).
-/
import Anytype.Lemmas.Assoc
namespace Anytype

/-! ### an induction principle for the nested inductive `JVal` -/

theorem JVal.ind {P : JVal → Prop}
    (null : P .null) (bool : ∀ b, P (.bool b)) (int : ∀ i, P (.int i))
    (float : ∀ f, P (.float f)) (str : ∀ s, P (.str s))
    (list : ∀ xs, (∀ x ∈ xs, P x) → P (.list xs))
    (obj : ∀ kvs, (∀ kv ∈ kvs, P kv.2) → P (.obj kvs)) : ∀ a, P a := by
  intro a
  refine JVal.rec (motive_1 := P) (motive_2 := fun xs => ∀ x ∈ xs, P x)
    (motive_3 := fun kvs => ∀ kv ∈ kvs, P kv.2) (motive_4 := fun kv => P kv.2)
    null bool int float str list obj ?_ ?_ ?_ ?_ ?_ a
  · intro x hx; cases hx
  · intro hd tl h1 h2 x hx
    rcases List.mem_cons.1 hx with rfl | hx
    · exact h1
    · exact h2 x hx
  · intro x hx; cases hx
  · intro hd tl h1 h2 x hx
    rcases List.mem_cons.1 hx with rfl | hx
    · exact h1
    · exact h2 x hx
  · intro _ _ h; exact h

/-! ### Go `==` on float64 -/

namespace F64

theorem eqGo_symm (x y : F64) : eqGo x y = eqGo y x := by
  unfold eqGo
  rw [Bool.or_comm, Bool.and_comm]
  rw [BEq.comm (a := x.bits)]

theorem eqGo_refl {x : F64} (h : x.isNaN = false) : eqGo x x = true := by
  unfold eqGo; simp [h]

theorem isNaN_false_of_eqGo {x y : F64} (h : eqGo x y = true) : x.isNaN = false ∧ y.isNaN = false := by
  unfold eqGo at h
  cases hx : x.isNaN <;> cases hy : y.isNaN <;> simp [hx, hy] at h ⊢

theorem eqGo_trans {x y z : F64} (h1 : eqGo x y = true) (h2 : eqGo y z = true) : eqGo x z = true := by
  have n1 := isNaN_false_of_eqGo h1
  have n2 := isNaN_false_of_eqGo h2
  unfold eqGo at h1 h2 ⊢
  simp only [n1.1, n1.2, n2.2, Bool.or_self, Bool.false_eq_true, if_false] at h1 h2 ⊢
  obtain ⟨x⟩ := x; obtain ⟨y⟩ := y; obtain ⟨z⟩ := z
  by_cases hxy : x = y
  · subst hxy; exact h2
  · by_cases hyz : y = z
    · subst hyz; exact h1
    · have e1 : (x == y) = false := by simpa using hxy
      have e2 : (y == z) = false := by simpa using hyz
      simp only [e1, e2] at h1 h2
      split at h1
      · split at h2
        · rename_i a b
          simp only [Bool.and_eq_true] at a b
          simp [a.1, b.2]
        · cases h2
      · cases h1

end F64

/-! ### non-recursive characterisations of the list / field helpers -/

theorem specEqFields_iff {kvs other : List (Str × JVal)} :
    specEqFields kvs other = true ↔
      ∀ kv ∈ kvs, ∃ w, lookup other kv.1 = some w ∧ specEq kv.2 w = true := by
  induction kvs with
  | nil => simp [specEqFields]
  | cons kv kvs ih =>
    obtain ⟨k, v⟩ := kv
    simp only [specEqFields, Bool.and_eq_true, ih, List.mem_cons, forall_eq_or_imp]
    refine and_congr_left' ?_
    cases lookup other k <;> simp

theorem equalsFields_iff {kvs other : List (Str × JVal)} :
    equalsFields kvs other = true ↔
      ∀ kv ∈ kvs, ∃ w, lookup other kv.1 = some w ∧ equalsJ kv.2 w = true := by
  induction kvs with
  | nil => simp [equalsFields]
  | cons kv kvs ih =>
    obtain ⟨k, v⟩ := kv
    simp only [equalsFields, Bool.and_eq_true, ih, List.mem_cons, forall_eq_or_imp]
    refine and_congr_left' ?_
    cases lookup other k <;> simp

theorem keysNodupFields_iff {kvs : List (Str × JVal)} :
    keysNodupFields kvs = true ↔ ∀ kv ∈ kvs, keysNodup kv.2 = true := by
  induction kvs with
  | nil => simp [keysNodupFields]
  | cons kv kvs ih => obtain ⟨k, v⟩ := kv; simp [keysNodupFields, ih]

theorem keysNodupList_iff {xs : List JVal} :
    keysNodupList xs = true ↔ ∀ x ∈ xs, keysNodup x = true := by
  induction xs with
  | nil => simp [keysNodupList]
  | cons x xs ih => simp [keysNodupList, ih]

theorem nanFreeFields_iff {kvs : List (Str × JVal)} :
    nanFreeFields kvs = true ↔ ∀ kv ∈ kvs, nanFree kv.2 = true := by
  induction kvs with
  | nil => simp [nanFreeFields]
  | cons kv kvs ih => obtain ⟨k, v⟩ := kv; simp [nanFreeFields, ih]

theorem nanFreeList_iff {xs : List JVal} :
    nanFreeList xs = true ↔ ∀ x ∈ xs, nanFree x = true := by
  induction xs with
  | nil => simp [nanFreeList]
  | cons x xs ih => simp [nanFreeList, ih]

theorem keysNodup_obj {kvs : List (Str × JVal)} :
    keysNodup (.obj kvs) = true ↔ (keysOf kvs).Nodup ∧ ∀ kv ∈ kvs, keysNodup kv.2 = true := by
  simp [keysNodup, keysNodupFields_iff]

theorem keysNodup_of_lookup {kvs : List (Str × JVal)} (h : keysNodupFields kvs = true) {k : Str} {w : JVal}
    (hl : lookup kvs k = some w) : keysNodup w = true :=
  keysNodupFields_iff.1 h (k, w) (mem_of_lookup hl)

/-- `specEq` on two objects, as a statement about finite maps -/
theorem specEq_obj_iff {kvs kvs' : List (Str × JVal)} :
    specEq (.obj kvs) (.obj kvs') = true ↔
      (∀ k ∈ keysOf kvs', k ∈ keysOf kvs) ∧
      ∀ kv ∈ kvs, ∃ w, lookup kvs' kv.1 = some w ∧ specEq kv.2 w = true := by
  simp only [specEq, Bool.and_eq_true, specEqFields_iff, List.all_eq_true, List.contains_iff_mem]

/-- the same, fully symmetric: same key set and equal values per key -/
theorem specEq_obj_iff_map {kvs kvs' : List (Str × JVal)} :
    specEq (.obj kvs) (.obj kvs') = true ↔
      (∀ k, k ∈ keysOf kvs ↔ k ∈ keysOf kvs') ∧
      ∀ kv ∈ kvs, ∃ w, lookup kvs' kv.1 = some w ∧ specEq kv.2 w = true := by
  rw [specEq_obj_iff]
  constructor
  · rintro ⟨h1, h2⟩
    refine ⟨fun k => ⟨fun hk => ?_, h1 k⟩, h2⟩
    obtain ⟨v, hv⟩ := mem_keysOf.1 hk
    obtain ⟨w, hw, _⟩ := h2 (k, v) hv
    exact mem_keys_of_lookup hw
  · rintro ⟨h1, h2⟩
    exact ⟨fun k hk => (h1 k).2 hk, h2⟩

/-! ### `equalsJ` computes `specEq` -/

theorem equalsList_eq_aux (xs : List JVal)
    (ih : ∀ x ∈ xs, ∀ b, keysNodup b = true → equalsJ x b = specEq x b) (ys : List JVal)
    (hb : ∀ y ∈ ys, keysNodup y = true) :
    (xs.length == ys.length && equalsList xs ys) = specEqList xs ys := by
  induction xs generalizing ys with
  | nil => cases ys <;> simp [equalsList, specEqList]
  | cons x xs ihx =>
    cases ys with
    | nil => simp [equalsList, specEqList]
    | cons y ys =>
      have e := ihx (fun x hx => ih x (List.mem_cons_of_mem _ hx)) ys
        (fun y hy => hb y (List.mem_cons_of_mem _ hy))
      simp only [equalsList, specEqList,
        ih x (List.mem_cons_self ..) y (hb y (List.mem_cons_self ..)), List.length_cons, ← e]
      have : (xs.length + 1 == ys.length + 1) = (xs.length == ys.length) := by
        rw [Bool.eq_iff_iff]; simp
      rw [this, Bool.and_left_comm]

theorem equalsFields_eq_aux (kvs : List (Str × JVal))
    (ih : ∀ kv ∈ kvs, ∀ b, keysNodup b = true → equalsJ kv.2 b = specEq kv.2 b)
    (other : List (Str × JVal)) (ho : keysNodupFields other = true) :
    equalsFields kvs other = specEqFields kvs other := by
  induction kvs with
  | nil => simp [equalsFields, specEqFields]
  | cons kv kvs ihk =>
    obtain ⟨k, v⟩ := kv
    simp only [equalsFields, specEqFields]
    rw [ihk (fun kv hkv => ih kv (List.mem_cons_of_mem _ hkv))]
    cases hl : lookup other k with
    | none => rfl
    | some w => simp only [ih (k, v) (List.mem_cons_self ..) w (keysNodup_of_lookup ho hl)]

/-- C07, first sentence: the Go loops compute typed structural equality (objects as finite maps) -/
theorem equalsJ_eq_specEq (a : JVal) :
    keysNodup a = true → ∀ b, keysNodup b = true → equalsJ a b = specEq a b := by
  induction a using JVal.ind with
  | null => intro _ b _; cases b <;> simp [equalsJ, specEq]
  | bool x => intro _ b _; cases b <;> simp [equalsJ, specEq]
  | int x => intro _ b _; cases b <;> simp [equalsJ, specEq]
  | float x => intro _ b _; cases b <;> simp [equalsJ, specEq]
  | str x => intro _ b _; cases b <;> simp [equalsJ, specEq]
  | list xs ih =>
    intro ha b hb
    cases b <;> try (simp [equalsJ, specEq]; done)
    rename_i ys
    simp only [equalsJ, specEq]
    simp only [keysNodup, keysNodupList_iff] at ha hb
    exact equalsList_eq_aux xs (fun x hx b hb' => ih x hx (ha x hx) b hb') ys hb
  | obj kvs ih =>
    intro ha b hb
    cases b <;> try (simp [equalsJ, specEq]; done)
    rename_i kvs'
    rw [keysNodup_obj] at ha hb
    have hb2 : keysNodupFields kvs' = true := keysNodupFields_iff.2 hb.2
    have hF : equalsFields kvs kvs' = specEqFields kvs kvs' :=
      equalsFields_eq_aux kvs (fun kv hkv b hb' => ih kv hkv (ha.2 kv hkv) b hb') kvs' hb2
    simp only [equalsJ, specEq, hF]
    cases hS : specEqFields kvs kvs' with
    | false => simp
    | true =>
      simp only [Bool.and_true]
      have hsub : ∀ k ∈ keysOf kvs, k ∈ keysOf kvs' := by
        intro k hk
        obtain ⟨v, hv⟩ := mem_keysOf.1 hk
        obtain ⟨w, hw, _⟩ := specEqFields_iff.1 hS (k, v) hv
        exact mem_keys_of_lookup hw
      rw [Bool.eq_iff_iff]
      simp only [beq_iff_eq, List.all_eq_true, List.contains_iff_mem]
      constructor
      · intro hlen
        exact subset_of_nodup_length_eq ha.1 hb.1 (by simpa [length_keysOf] using hlen) hsub
      · intro h21
        simpa [length_keysOf] using length_eq_of_nodup_subset_subset ha.1 hb.1 hsub h21

/-! ### `specEq` is an equivalence relation on NaN-free data -/

theorem specEqList_refl (xs : List JVal) (ih : ∀ x ∈ xs, specEq x x = true) : specEqList xs xs = true := by
  induction xs with
  | nil => simp [specEqList]
  | cons x xs ihx =>
    simp [specEqList, ih x (List.mem_cons_self ..), ihx (fun x hx => ih x (List.mem_cons_of_mem _ hx))]

theorem specEq_refl (a : JVal) : nanFree a = true → keysNodup a = true → specEq a a = true := by
  induction a using JVal.ind with
  | null => simp [specEq]
  | bool x => simp [specEq]
  | int x => simp [specEq]
  | float x =>
    intro hn _
    simp only [nanFree, Bool.not_eq_true'] at hn
    simp [specEq, F64.eqGo_refl hn]
  | str x => simp [specEq]
  | list xs ih =>
    intro hn hk
    simp only [nanFree, nanFreeList_iff, keysNodup, keysNodupList_iff] at hn hk
    simp only [specEq]
    exact specEqList_refl xs (fun x hx => ih x hx (hn x hx) (hk x hx))
  | obj kvs ih =>
    intro hn hk
    simp only [nanFree, nanFreeFields_iff] at hn
    rw [keysNodup_obj] at hk
    rw [specEq_obj_iff]
    refine ⟨fun k hk => hk, fun kv hkv => ⟨kv.2, lookup_of_mem hk.1 hkv, ih kv hkv (hn kv hkv) (hk.2 kv hkv)⟩⟩

theorem specEqList_symm (xs : List JVal)
    (ih : ∀ x ∈ xs, ∀ b, keysNodup b = true → specEq x b = true → specEq b x = true) (ys : List JVal)
    (hk : ∀ y ∈ ys, keysNodup y = true) (h : specEqList xs ys = true) : specEqList ys xs = true := by
  induction xs generalizing ys with
  | nil => cases ys <;> simp_all [specEqList]
  | cons x xs ihx =>
    cases ys with
    | nil => simp [specEqList] at h
    | cons y ys =>
      simp only [specEqList, Bool.and_eq_true] at h ⊢
      exact ⟨ih x (List.mem_cons_self ..) y (hk y (List.mem_cons_self ..)) h.1,
        ihx (fun x hx => ih x (List.mem_cons_of_mem _ hx)) ys
          (fun y hy => hk y (List.mem_cons_of_mem _ hy)) h.2⟩

/-- symmetry needs distinct keys on the right-hand side only -/
theorem specEq_symm (a : JVal) : ∀ b, keysNodup b = true → specEq a b = true → specEq b a = true := by
  induction a using JVal.ind with
  | null => intro b _; cases b <;> simp [specEq]
  | bool x =>
    intro b _; cases b <;> try (simp [specEq]; done)
    simp only [specEq, beq_iff_eq]; exact Eq.symm
  | int x =>
    intro b _; cases b <;> try (simp [specEq]; done)
    simp only [specEq, beq_iff_eq]; exact Eq.symm
  | float x => intro b _; cases b <;> simp [specEq, F64.eqGo_symm x]
  | str x =>
    intro b _; cases b <;> try (simp [specEq]; done)
    simp only [specEq, beq_iff_eq]; exact Eq.symm
  | list xs ih =>
    intro b hb
    cases b <;> try (simp [specEq]; done)
    rename_i ys
    simp only [keysNodup, keysNodupList_iff] at hb
    simp only [specEq]
    exact specEqList_symm xs ih ys hb
  | obj kvs ih =>
    intro b hb
    cases b <;> try (simp [specEq]; done)
    rename_i kvs'
    rw [keysNodup_obj] at hb
    intro h
    obtain ⟨h1, h2⟩ := specEq_obj_iff_map.1 h
    rw [specEq_obj_iff]
    refine ⟨fun k hk => (h1 k).1 hk, ?_⟩
    intro kw hkw
    obtain ⟨v, hv⟩ := exists_lookup_of_mem_keys ((h1 kw.1).2 (mem_keysOf_of_mem hkw))
    have hm := mem_of_lookup hv
    obtain ⟨w', hw', he⟩ := h2 (kw.1, v) hm
    have : w' = kw.2 := by
      have := lookup_of_mem hb.1 (show (kw.1, kw.2) ∈ kvs' from hkw)
      rw [this] at hw'; exact (Option.some.inj hw').symm
    subst this
    exact ⟨v, hv, ih (kw.1, v) hm _ (hb.2 kw hkw) he⟩

theorem specEqList_trans (xs : List JVal)
    (ih : ∀ x ∈ xs, ∀ b c, specEq x b = true → specEq b c = true → specEq x c = true)
    (ys zs : List JVal) (h1 : specEqList xs ys = true) (h2 : specEqList ys zs = true) :
    specEqList xs zs = true := by
  induction xs generalizing ys zs with
  | nil => cases ys <;> cases zs <;> simp_all [specEqList]
  | cons x xs ihx =>
    cases ys with
    | nil => simp [specEqList] at h1
    | cons y ys =>
      cases zs with
      | nil => simp [specEqList] at h2
      | cons z zs =>
        simp only [specEqList, Bool.and_eq_true] at h1 h2 ⊢
        exact ⟨ih x (List.mem_cons_self ..) y z h1.1 h2.1,
          ihx (fun x hx => ih x (List.mem_cons_of_mem _ hx)) ys zs h1.2 h2.2⟩

/-- transitivity holds on all trees (no NaN-freeness, no key distinctness needed) -/
theorem specEq_trans (a : JVal) : ∀ b c, specEq a b = true → specEq b c = true → specEq a c = true := by
  induction a using JVal.ind with
  | null => intro b c; cases b <;> cases c <;> simp [specEq]
  | bool x => intro b c; cases b <;> cases c <;> simp [specEq]; intro h1 h2; rw [h1, h2]
  | int x => intro b c; cases b <;> cases c <;> simp [specEq]; intro h1 h2; rw [h1, h2]
  | float x => intro b c; cases b <;> cases c <;> simp [specEq]; exact F64.eqGo_trans
  | str x => intro b c; cases b <;> cases c <;> simp [specEq]; intro h1 h2; rw [h1, h2]
  | list xs ih =>
    intro b c
    cases b <;> cases c <;> try (simp [specEq]; done)
    simp only [specEq]
    exact specEqList_trans xs ih _ _
  | obj kvs ih =>
    intro b c
    cases b <;> cases c <;> try (simp [specEq]; done)
    rename_i kb kc
    intro h1 h2
    rw [specEq_obj_iff] at h1 h2 ⊢
    refine ⟨fun k hk => h1.1 k (h2.1 k hk), ?_⟩
    intro kv hkv
    obtain ⟨w, hw, e1⟩ := h1.2 kv hkv
    obtain ⟨u, hu, e2⟩ := h2.2 (kv.1, w) (mem_of_lookup hw)
    exact ⟨u, hu, ih kv hkv w u e1 e2⟩

/-! ### field order is irrelevant -/

/-- permuting the fields of the left argument never matters -/
theorem specEq_perm_left {kvs kvs₂ : List (Str × JVal)} (hp : kvs.Perm kvs₂) (b : JVal) :
    specEq (.obj kvs) b = specEq (.obj kvs₂) b := by
  cases b <;> try (simp [specEq]; done)
  rename_i kvs'
  have hpk : (keysOf kvs).Perm (keysOf kvs₂) := hp.map _
  rw [Bool.eq_iff_iff, specEq_obj_iff, specEq_obj_iff]
  constructor
  · rintro ⟨h1, h2⟩
    exact ⟨fun k hk => hpk.mem_iff.1 (h1 k hk), fun kv hkv => h2 kv (hp.mem_iff.2 hkv)⟩
  · rintro ⟨h1, h2⟩
    exact ⟨fun k hk => hpk.mem_iff.2 (h1 k hk), fun kv hkv => h2 kv (hp.mem_iff.1 hkv)⟩

/-- permuting the fields of the right argument does not matter when its keys are distinct -/
theorem specEq_perm_right {kvs kvs₂ : List (Str × JVal)} (hp : kvs.Perm kvs₂)
    (hn : (keysOf kvs).Nodup) (a : JVal) :
    specEq a (.obj kvs) = specEq a (.obj kvs₂) := by
  cases a <;> try (simp [specEq]; done)
  rename_i ka
  have hpk : (keysOf kvs).Perm (keysOf kvs₂) := hp.map _
  rw [Bool.eq_iff_iff, specEq_obj_iff, specEq_obj_iff]
  simp only [lookup_perm hp hn]
  constructor
  · rintro ⟨h1, h2⟩
    exact ⟨fun k hk => h1 k (hpk.mem_iff.2 hk), h2⟩
  · rintro ⟨h1, h2⟩
    exact ⟨fun k hk => h1 k (hpk.mem_iff.1 hk), h2⟩

/-! ### shape statements -/

/-- lists: same length and equal elements position by position -/
theorem specEqList_iff {xs ys : List JVal} :
    specEqList xs ys = true ↔
      xs.length = ys.length ∧
      ∀ i (h : i < xs.length) (h' : i < ys.length), specEq xs[i] ys[i] = true := by
  induction xs generalizing ys with
  | nil => cases ys <;> simp [specEqList]
  | cons x xs ih =>
    cases ys with
    | nil => simp [specEqList]
    | cons y ys =>
      simp only [specEqList, Bool.and_eq_true, ih, List.length_cons, Nat.add_right_cancel_iff]
      constructor
      · rintro ⟨h0, hl, h⟩
        refine ⟨hl, fun i h1 h2 => ?_⟩
        cases i with
        | zero => exact h0
        | succ i => exact h i (Nat.lt_of_succ_lt_succ h1) (Nat.lt_of_succ_lt_succ h2)
      · rintro ⟨hl, h⟩
        exact ⟨h 0 (Nat.succ_pos _) (Nat.succ_pos _), hl,
          fun i h1 h2 => h (i + 1) (Nat.succ_lt_succ h1) (Nat.succ_lt_succ h2)⟩

/-- objects: same key set and equal values per key -/
theorem specEq_obj_iff_lookup {kvs kvs' : List (Str × JVal)} (hn : (keysOf kvs).Nodup) :
    specEq (.obj kvs) (.obj kvs') = true ↔
      (∀ k, k ∈ keysOf kvs ↔ k ∈ keysOf kvs') ∧
      ∀ k v w, lookup kvs k = some v → lookup kvs' k = some w → specEq v w = true := by
  rw [specEq_obj_iff_map]
  refine and_congr_right fun hk => ?_
  constructor
  · intro h k v w hv hw
    obtain ⟨w', hw', e⟩ := h (k, v) (mem_of_lookup hv)
    rw [hw] at hw'; cases hw'; exact e
  · intro h kv hkv
    obtain ⟨w, hw⟩ := exists_lookup_of_mem_keys ((hk kv.1).1 (mem_keysOf_of_mem hkv))
    exact ⟨w, hw, h kv.1 kv.2 w (lookup_of_mem hn hkv) hw⟩

end Anytype
