/-
Reflexivity of the library `Equals` on NaN-free trees with distinct keys.
-/
import Anytype.Lemmas.TreeWF
namespace Anytype
namespace RT

theorem eqGo_refl (x : F64) (hx : x.isFinite = true) : F64.eqGo x x = true := by
  have : x.isNaN = false := by
    simp [F64.isNaN, F64.isFinite] at hx ⊢
    intro h; exact absurd h hx
  simp [F64.eqGo, this]

theorem lookup_of_mem_nodup {α : Type} (kvs : List (Str × α)) (k : Str) (v : α)
    (hnd : (kvs.map Prod.fst).Nodup) (hm : (k, v) ∈ kvs) : lookup kvs k = some v := by
  induction kvs with
  | nil => cases hm
  | cons a kvs ih =>
    obtain ⟨k', v'⟩ := a
    simp only [List.map_cons, List.nodup_cons] at hnd
    rcases List.mem_cons.mp hm with h | h
    · cases h; simp [lookup]
    · have : k' ≠ k := by
        intro e; subst e
        exact hnd.1 (List.mem_map.mpr ⟨(k', v), h, rfl⟩)
      simp [lookup, this, ih hnd.2 h]

theorem equalsFields_of (sub other : List (Str × JVal))
    (h : ∀ kv ∈ sub, ∃ w, lookup other kv.1 = some w ∧ equalsJ kv.2 w = true) :
    equalsFields sub other = true := by
  induction sub with
  | nil => simp [equalsFields]
  | cons a sub ih =>
    obtain ⟨k, v⟩ := a
    obtain ⟨w, hl, he⟩ := h (k, v) (by simp)
    simp [equalsFields, hl, he, ih (fun kv hkv => h kv (by simp [hkv]))]

mutual
theorem equalsJ_refl : (v : JVal) → v.WF → equalsJ v v = true
  | .null, _ => by simp [equalsJ]
  | .bool _, _ => by simp [equalsJ]
  | .int _, _ => by simp [equalsJ]
  | .float x, hw => by simp [equalsJ, eqGo_refl x (by simpa [JVal.WF] using hw)]
  | .str _, _ => by simp [equalsJ]
  | .list xs, hw => by
    simp [equalsJ, equalsList_refl xs (by simpa [JVal.WF] using hw)]
  | .obj kvs, hw => by
    have hw' : (kvs.map Prod.fst).Nodup ∧ WFFields kvs := by simpa [JVal.WF] using hw
    have h := equalsFields_refl kvs hw'.2
    have : equalsFields kvs kvs = true := by
      apply equalsFields_of
      intro kv hkv
      exact ⟨kv.2, lookup_of_mem_nodup kvs kv.1 kv.2 hw'.1 hkv, h kv hkv⟩
    simp [equalsJ, this]
theorem equalsList_refl : (xs : List JVal) → WFList xs → equalsList xs xs = true
  | [], _ => by simp [equalsList]
  | x :: xs, hw => by simp [equalsList, equalsJ_refl x hw.1, equalsList_refl xs hw.2]
theorem equalsFields_refl : (kvs : List (Str × JVal)) → WFFields kvs → ∀ kv ∈ kvs, equalsJ kv.2 kv.2 = true
  | [], _ => by simp
  | (k, v) :: kvs, hw => by
    intro z hz
    rcases List.mem_cons.mp hz with h | h
    · rw [h]; exact equalsJ_refl v hw.1
    · exact equalsFields_refl kvs hw.2 z h
end

end RT
end Anytype
