/-
`float64(float32)` (`f32to64`) is exact: same sign, same dyadic value; ±0, subnormals, ±Inf, NaN.
-/
import Anytype.Model.Normalize
namespace Anytype
namespace F32

/-! ### the fields of a binary32 pattern -/

def sign (b : UInt32) : Bool := (b >>> 31) == 1
def expo (b : UInt32) : Nat := ((b >>> 23) &&& 0xff).toNat
def frac (b : UInt32) : Nat := (b &&& 0x7fffff).toNat

def isNaN (b : UInt32) : Bool := expo b == 255 && frac b != 0
def isInf (b : UInt32) : Bool := expo b == 255 && frac b == 0
def isFinite (b : UInt32) : Bool := expo b != 255

/-- finite value = (-1)^sign * mant * 2^exp2 (IEEE 754 binary32) -/
def mant (b : UInt32) : Nat := if expo b == 0 then frac b else frac b + 2 ^ 23
def exp2 (b : UInt32) : Int := if expo b == 0 then -149 else (expo b : Int) - 150

/-- `|value| · 2^1074` of a finite binary32: a natural number (the smallest exponent is −149) -/
def val1074 (b : UInt32) : Nat := mant b * 2 ^ (exp2 b + 1074).toNat

theorem expo_lt (b : UInt32) : expo b < 256 := by
  unfold expo
  simp only [UInt32.toNat_and]
  have : (0xff : UInt32).toNat = 2 ^ 8 - 1 := by decide
  rw [this, Nat.and_two_pow_sub_one_eq_mod]
  omega

theorem frac_lt (b : UInt32) : frac b < 2 ^ 23 := by
  unfold frac
  simp only [UInt32.toNat_and]
  have : (0x7fffff : UInt32).toNat = 2 ^ 23 - 1 := by decide
  rw [this, Nat.and_two_pow_sub_one_eq_mod]
  omega

end F32

namespace F64

/-- `|x| · 2^1074` of a finite binary64: a natural number (the smallest exponent is −1074) -/
def val1074 (x : F64) : Nat := x.mant * 2 ^ (x.exp2 + 1074).toNat

/-! ### reading the fields of a pattern given as a number -/

theorem expBits_nat (x : F64) : x.expBits = x.bits.toNat / 2 ^ 52 % 2 ^ 11 := by
  unfold expBits
  simp only [UInt64.toNat_and, UInt64.toNat_shiftRight, Nat.shiftRight_eq_div_pow]
  exact Nat.and_two_pow_sub_one_eq_mod _ 11

theorem frac_nat (x : F64) : x.frac = x.bits.toNat % 2 ^ 52 := by
  unfold frac
  simp only [UInt64.toNat_and]
  exact Nat.and_two_pow_sub_one_eq_mod _ 52

theorem signBit_nat (x : F64) : x.signBit = decide (2 ^ 63 ≤ x.bits.toNat) := by
  unfold signBit
  have h := x.bits.toNat_lt
  rw [Bool.eq_iff_iff]
  simp only [beq_iff_eq, decide_eq_true_eq]
  rw [← UInt64.toNat_inj]
  simp only [UInt64.toNat_shiftRight, Nat.shiftRight_eq_div_pow]
  show x.bits.toNat / 2 ^ 63 = 1 ↔ _
  omega

theorem withSign_false (x : F64) : withSign false x = x := rfl

theorem withSign_true_bits (x : F64) (h : x.bits.toNat < 2 ^ 63) :
    (withSign true x).bits.toNat = x.bits.toNat + 2 ^ 63 := by
  simp only [withSign, if_true, UInt64.toNat_or]
  have e : (0x8000000000000000 : UInt64).toNat = 2 ^ 63 * 1 := by decide
  rw [e, Nat.or_comm, ← Nat.two_pow_add_eq_or_of_lt h 1]
  omega

/-- the pattern with exponent field `E` and fraction field `F` -/
def ofFields (E F : Nat) : F64 := ⟨UInt64.ofNat ((E <<< 52) + F)⟩

theorem ofFields_bits (E F : Nat) (hE : E < 2048) (hF : F < 2 ^ 52) : (ofFields E F).bits.toNat = E * 2 ^ 52 + F := by
  simp only [ofFields, UInt64.toNat_ofNat', Nat.shiftLeft_eq]
  omega

/-- the fields of `withSign s (ofFields E F)` -/
theorem fields_withSign (s : Bool) (E F : Nat) (hE : E < 2048) (hF : F < 2 ^ 52) :
    (withSign s (ofFields E F)).expBits = E ∧ (withSign s (ofFields E F)).frac = F ∧ (withSign s (ofFields E F)).signBit = s := by
  have hb := ofFields_bits E F hE hF
  cases s
  · rw [withSign_false, expBits_nat, frac_nat, signBit_nat, hb]
    refine ⟨by omega, by omega, ?_⟩
    simp only [decide_eq_false_iff_not]; omega
  · have hb' := withSign_true_bits (ofFields E F) (by rw [hb]; omega)
    rw [expBits_nat, frac_nat, signBit_nat, hb', hb]
    refine ⟨by omega, by omega, ?_⟩
    simp only [decide_eq_true_eq]; omega

end F64

namespace F32
open F64

/-! ### `f32to64` on the three fields -/

/-- `f32to64` as a function of (sign, exponent field, fraction field) -/
def widen (s : Bool) (e fr : Nat) : F64 :=
  let mag : UInt64 :=
    if e == 255 then UInt64.ofNat ((2047 <<< 52) + (fr <<< 29))
    else if e == 0 then (F64.roundPos fr (2 ^ 149)).getD 0
    else UInt64.ofNat (((e + 896) <<< 52) + (fr <<< 29))
  F64.withSign s ⟨mag⟩

theorem f32to64_eq (b : UInt32) : f32to64 b = widen (sign b) (expo b) (frac b) := rfl

/-- ±Inf and NaN: exponent field 2047, the fraction shifted (zero iff it was zero), sign kept -/
theorem widen_special (s : Bool) (fr : Nat) (hfr : fr < 2 ^ 23) :
    (widen s 255 fr).expBits = 2047 ∧ (widen s 255 fr).frac = fr * 2 ^ 29 ∧ (widen s 255 fr).signBit = s := by
  have : widen s 255 fr = withSign s (ofFields 2047 (fr <<< 29)) := by
    simp only [widen, beq_self_eq_true, if_true, ofFields]
  rw [this, Nat.shiftLeft_eq]
  exact fields_withSign s 2047 _ (by omega) (by omega)

/-- normal numbers: pure bit arithmetic -/
theorem widen_normal (s : Bool) (e fr : Nat) (he0 : e ≠ 0) (he : e < 255) (hfr : fr < 2 ^ 23) :
    (widen s e fr).expBits = e + 896 ∧ (widen s e fr).frac = fr * 2 ^ 29 ∧ (widen s e fr).signBit = s := by
  have h1 : (e == 255) = false := by simp; omega
  have h2 : (e == 0) = false := by simp; omega
  have : widen s e fr = withSign s (ofFields (e + 896) (fr <<< 29)) := by
    simp only [widen, h1, h2, Bool.false_eq_true, if_false, ofFields]
  rw [this, Nat.shiftLeft_eq]
  exact fields_withSign s (e + 896) _ (by omega) (by omega)

/-- ±0 -/
theorem widen_zero (s : Bool) :
    (widen s 0 0).expBits = 0 ∧ (widen s 0 0).frac = 0 ∧ (widen s 0 0).signBit = s := by
  cases s <;> decide

/-! ### subnormal numbers go through `roundPos`: it is exact -/

/-- one correction step of the exponent guess in `roundPos` -/
def stepE (n d : Nat) (e : Int) : Int :=
  let q := (F64.scaled n d e).1 / (F64.scaled n d e).2
  if q < 2 ^ 52 then e - 1 else if q ≥ 2 ^ 53 then e + 1 else e

/-- the final rounding of `roundPos` at exponent `e` -/
def finish (n d : Nat) (e : Int) : Option UInt64 :=
  let a := (F64.scaled n d e).1
  let b := (F64.scaled n d e).2
  let q := a / b
  let r := a % b
  let q' := if 2 * r > b then q + 1 else if 2 * r < b then q else (if q % 2 = 1 then q + 1 else q)
  let (q'', e') := if q' = 2 ^ 53 then (2 ^ 52, e + 1) else (q', e)
  if e' > 971 then none
  else if q'' < 2 ^ 52 then some (UInt64.ofNat q'')
  else some (UInt64.ofNat (((e' + 1075).toNat <<< 52) + (q'' - 2 ^ 52)))

theorem roundPos_staged (n d : Nat) (hn : n ≠ 0) :
    F64.roundPos n d =
      finish n d (let e2 := stepE n d (stepE n d ((F64.bitLen n : Int) - (F64.bitLen d : Int) - 53))
                  if e2 < -1074 then -1074 else e2) := by
  unfold F64.roundPos
  rw [if_neg hn]
  rfl


theorem scaled_neg (n d j : Nat) (hj : 0 < j) : F64.scaled n d (-(j : Int)) = (n * 2 ^ j, d) := by
  unfold F64.scaled
  have : ¬ (-(j:Int) ≥ 0) := by omega
  simp only [this, if_false, Int.neg_neg, Int.toNat_natCast]

/-- a subnormal binary32 magnitude `fr · 2^-149` (`0 < fr < 2^23`) is a normal binary64: `roundPos`
finds the exponent and has nothing to round -/
theorem roundPos_subnormal (fr l k : Nat) (hl : fr.log2 = l) (hk : l + k = 52) (h0 : fr ≠ 0) :
    F64.roundPos fr (2 ^ 149) = some (UInt64.ofNat (((l + 874) <<< 52) + (fr * 2 ^ k - 2 ^ 52))) := by
  have hl1 : 2 ^ l ≤ fr := hl ▸ Nat.log2_self_le h0
  have hl2 : fr < 2 ^ l * 2 := by have := @Nat.lt_log2_self fr; rw [hl, Nat.pow_succ] at this; exact this
  have hQP : 2 ^ l * 2 ^ k = 2 ^ 52 := by rw [← Nat.pow_add, hk]
  have hb1 : F64.bitLen fr = l + 1 := by simp [F64.bitLen, h0, hl]
  have hb2 : F64.bitLen (2 ^ 149) = 150 := by
    unfold F64.bitLen; rw [Nat.log2_two_pow, if_neg (Nat.ne_of_gt (Nat.two_pow_pos 149))]
  have hP0 : 0 < 2 ^ k := Nat.two_pow_pos k
  have e150 : 2 ^ (k + 150) = 2 ^ k * 2 * 2 ^ 149 := by rw [Nat.pow_add]; omega
  have e149 : 2 ^ (k + 149) = 2 ^ k * 2 ^ 149 := by rw [Nat.pow_add]
  generalize 2 ^ k = P at *
  generalize 2 ^ l = Q at *
  have hq1 : 2 ^ 52 ≤ fr * P := by
    calc 2 ^ 52 = Q * P := hQP.symm
      _ ≤ fr * P := Nat.mul_le_mul_right P hl1
  have hq2 : fr * P < 2 ^ 53 := by
    calc fr * P < Q * 2 * P := Nat.mul_lt_mul_of_pos_right hl2 hP0
      _ = 2 ^ 53 := by rw [Nat.mul_right_comm, hQP]
  have d0 : fr * (P * 2 * 2 ^ 149) / 2 ^ 149 = fr * P * 2 := by
    rw [← Nat.mul_assoc, ← Nat.mul_assoc]; exact Nat.mul_div_cancel _ (Nat.two_pow_pos 149)
  have d1 : fr * (P * 2 ^ 149) / 2 ^ 149 = fr * P := by
    rw [← Nat.mul_assoc]; exact Nat.mul_div_cancel _ (Nat.two_pow_pos 149)
  have m1 : fr * (P * 2 ^ 149) % 2 ^ 149 = 0 := by
    rw [← Nat.mul_assoc]; exact Nat.mul_mod_left _ _
  have s1 : stepE fr (2 ^ 149) (-((k + 150 : Nat) : Int)) = -((k + 149 : Nat) : Int) := by
    unfold stepE
    rw [scaled_neg _ _ _ (Nat.succ_pos _)]
    simp only [e150, d0]
    rw [if_neg (by omega), if_pos (by omega)]
    omega
  have s2 : stepE fr (2 ^ 149) (-((k + 149 : Nat) : Int)) = -((k + 149 : Nat) : Int) := by
    unfold stepE
    rw [scaled_neg _ _ _ (Nat.succ_pos _)]
    simp only [e149, d1]
    rw [if_neg (by omega), if_neg (by omega)]
  have he0 : (((l + 1 : Nat) : Int) - ((150 : Nat) : Int) - 53) = -((k + 150 : Nat) : Int) := by omega
  rw [roundPos_staged _ _ h0, hb1, hb2, he0]
  simp only [s1, s2]
  rw [if_neg (by omega)]
  unfold finish
  rw [scaled_neg _ _ _ (Nat.succ_pos _)]
  simp only [e149, d1, m1]
  have c1 : ¬ (2 * 0 > 2 ^ 149) := by simp
  have c2 : 2 * 0 < 2 ^ 149 := Nat.two_pow_pos 149
  have c3 : ¬ (fr * P = 2 ^ 53) := by omega
  simp only [c1, c2, c3, if_true, if_false]
  rw [if_neg (by omega), if_neg (by omega)]
  have c4 : (-((k + 149 : Nat) : Int) + 1075).toNat = l + 874 := by omega
  rw [c4]

/-- subnormal numbers become normal binary64 numbers -/
theorem widen_subnormal (s : Bool) (fr l k : Nat) (hl : fr.log2 = l) (hk : l + k = 52) (h0 : fr ≠ 0)
    (hfr : fr < 2 ^ 23) :
    2 ^ 52 ≤ fr * 2 ^ k ∧
    (widen s 0 fr).expBits = l + 874 ∧ (widen s 0 fr).frac = fr * 2 ^ k - 2 ^ 52 ∧ (widen s 0 fr).signBit = s := by
  have hl1 : 2 ^ l ≤ fr := hl ▸ Nat.log2_self_le h0
  have hl2 : fr < 2 ^ l * 2 := by have := @Nat.lt_log2_self fr; rw [hl, Nat.pow_succ] at this; exact this
  have hl3 : l < 23 := by rw [← hl]; exact (Nat.log2_lt h0).2 hfr
  have hQP : 2 ^ l * 2 ^ k = 2 ^ 52 := by rw [← Nat.pow_add, hk]
  have hP0 : 0 < 2 ^ k := Nat.two_pow_pos k
  have hr := roundPos_subnormal fr l k hl hk h0
  generalize 2 ^ k = P at *
  generalize 2 ^ l = Q at *
  have hq1 : 2 ^ 52 ≤ fr * P := by
    calc 2 ^ 52 = Q * P := hQP.symm
      _ ≤ fr * P := Nat.mul_le_mul_right P hl1
  have hq2 : fr * P < 2 ^ 53 := by
    calc fr * P < Q * 2 * P := Nat.mul_lt_mul_of_pos_right hl2 hP0
      _ = 2 ^ 53 := by rw [Nat.mul_right_comm, hQP]
  have : widen s 0 fr = withSign s (ofFields (l + 874) (fr * P - 2 ^ 52)) := by
    have c : ((0 : Nat) == 255) = false := by decide
    simp only [widen, c, beq_self_eq_true, Bool.false_eq_true, if_false, if_true, hr, Option.getD_some, ofFields]
  rw [this]
  exact ⟨hq1, fields_withSign s (l + 874) _ (by omega) (by omega)⟩

/-! ### the statement about `f32to64` -/

/-- every finite binary32 widens to a finite binary64 of the same sign and the same value -/
theorem f32to64_finite (b : UInt32) (hfin : isFinite b = true) :
    (f32to64 b).isFinite = true ∧ (f32to64 b).signBit = sign b ∧ (f32to64 b).val1074 = val1074 b := by
  have he := expo_lt b
  have hfr := frac_lt b
  have hne : expo b ≠ 255 := by simpa [isFinite] using hfin
  rw [f32to64_eq]
  unfold F32.val1074 F32.mant F32.exp2 F64.val1074 F64.mant F64.exp2 F64.isFinite
  generalize expo b = e at *
  generalize frac b = fr at *
  by_cases he0 : e = 0
  · subst he0
    by_cases hf0 : fr = 0
    · subst hf0
      obtain ⟨h1, h2, h3⟩ := widen_zero (sign b)
      rw [h1, h2, h3]
      refine ⟨by decide, rfl, ?_⟩
      simp only [beq_self_eq_true, if_true, Nat.zero_mul]
    · have hl3 : fr.log2 < 23 := (Nat.log2_lt hf0).2 hfr
      obtain ⟨hq, h1, h2, h3⟩ := widen_subnormal (sign b) fr fr.log2 (52 - fr.log2) rfl (by omega) hf0 hfr
      rw [h1, h2, h3]
      have c1 : (fr.log2 + 874 != 2047) = true := by simp; omega
      have c2 : (fr.log2 + 874 == 0) = false := by simp
      simp only [c1, c2, beq_self_eq_true, Bool.false_eq_true, if_false, if_true, true_and]
      have c3 : ((((fr.log2 + 874 : Nat) : Int) - 1075) + 1074).toNat = fr.log2 + 873 := by omega
      have c4 : ((-149 : Int) + 1074).toNat = 925 := by decide
      have c5 : 52 - fr.log2 + (fr.log2 + 873) = 925 := by omega
      rw [c3, c4, Nat.sub_add_cancel hq, Nat.mul_assoc, ← Nat.pow_add, c5]
  · obtain ⟨h1, h2, h3⟩ := widen_normal (sign b) e fr he0 (by omega) hfr
    rw [h1, h2, h3]
    have c1 : (e + 896 != 2047) = true := by simp; omega
    have c2 : (e + 896 == 0) = false := by simp
    have c0 : (e == 0) = false := by simp [he0]
    simp only [c0, c1, c2, Bool.false_eq_true, if_false, true_and]
    have c3 : ((((e + 896 : Nat) : Int) - 1075) + 1074).toNat = e + 895 := by omega
    have c4 : (((e : Int) - 150) + 1074).toNat = 29 + (e + 895) := by omega
    have c5 : fr * 2 ^ 29 + 2 ^ 52 = (fr + 2 ^ 23) * 2 ^ 29 := by omega
    rw [c3, c4, c5, Nat.pow_add 2 29 (e + 895), Nat.mul_assoc]

/-- ±0 widen to ±0 -/
theorem f32to64_zero (b : UInt32) (he : expo b = 0) (hf : frac b = 0) :
    f32to64 b = F64.withSign (sign b) F64.posZero := by
  rw [f32to64_eq, he, hf]
  cases sign b <;> decide

/-- ±Inf widen to ±Inf -/
theorem f32to64_inf (b : UInt32) (h : isInf b = true) :
    (f32to64 b).isInf = true ∧ (f32to64 b).signBit = sign b := by
  simp only [isInf, Bool.and_eq_true, beq_iff_eq] at h
  obtain ⟨h1, h2, h3⟩ := widen_special (sign b) (frac b) (frac_lt b)
  rw [f32to64_eq, h.1]
  rw [h.2] at h1 h2 h3 ⊢
  simp [F64.isInf, h1, h2, h3]

/-- NaN widens to NaN (the payload is shifted) -/
theorem f32to64_nan (b : UInt32) (h : isNaN b = true) : (f32to64 b).isNaN = true := by
  simp only [isNaN, Bool.and_eq_true, beq_iff_eq, bne_iff_ne, ne_eq] at h
  obtain ⟨h1, h2, _⟩ := widen_special (sign b) (frac b) (frac_lt b)
  rw [f32to64_eq, h.1]
  have := h.2
  simp only [F64.isNaN, h1, h2, beq_self_eq_true, Bool.true_and, bne_iff_ne, ne_eq]
  omega

end F32
end Anytype
