/-
The order `F64.ltGo` (Go `<` on float64) on NaN-free values is the order of a sign-magnitude
integer key; hence `L.floatLess` (the `less` of `sort.Float64s`, NaN first) is a strict weak order.
-/
import Anytype.Model.ListOps
namespace Anytype
namespace F64

theorem isZero_iff (x : F64) : x.isZero = true ↔ x.abs.bits.toNat = 0 := by
  unfold isZero expBits frac abs
  simp only [Bool.and_eq_true, beq_iff_eq, UInt64.toNat_and, UInt64.toNat_shiftRight]
  have e1 : (0x7ff : UInt64).toNat = 2 ^ 11 - 1 := by decide
  have e2 : (0xfffffffffffff : UInt64).toNat = 2 ^ 52 - 1 := by decide
  have e3 : (0x7fffffffffffffff : UInt64).toNat = 2 ^ 63 - 1 := by decide
  have e4 : (52 : UInt64).toNat % 64 = 52 := by decide
  rw [e1, e2, e3, e4, Nat.and_two_pow_sub_one_eq_mod, Nat.and_two_pow_sub_one_eq_mod,
    Nat.and_two_pow_sub_one_eq_mod, Nat.shiftRight_eq_div_pow]
  have := x.bits.toNat_lt
  omega

/-- order key of a non-NaN value: sign-magnitude reading of the bit pattern (`±0 ↦ 0`) -/
def key (x : F64) : Int := if x.signBit then -(x.abs.bits.toNat : Int) else x.abs.bits.toNat

theorem key_bound (x : F64) : -(2 : Int) ^ 64 < key x ∧ key x < (2 : Int) ^ 64 := by
  unfold key
  have := x.abs.bits.toNat_lt
  split <;> omega

theorem ltGo_eq_key (x y : F64) (hx : x.isNaN = false) (hy : y.isNaN = false) :
    ltGo x y = decide (key x < key y) := by
  unfold ltGo key
  simp only [hx, hy, Bool.or_self, Bool.false_eq_true, if_false]
  have zx := isZero_iff x
  have zy := isZero_iff y
  by_cases hz : (x.isZero && y.isZero) = true
  · simp only [hz, if_true]
    simp only [Bool.and_eq_true] at hz
    have a := zx.1 hz.1; have b := zy.1 hz.2
    simp [a, b]
  · simp only [hz]
    simp only [Bool.and_eq_true] at hz
    have hz' : x.abs.bits.toNat ≠ 0 ∨ y.abs.bits.toNat ≠ 0 := by
      by_cases c1 : x.abs.bits.toNat = 0
      · by_cases c2 : y.abs.bits.toNat = 0
        · exact absurd ⟨zx.2 c1, zy.2 c2⟩ hz
        · exact Or.inr c2
      · exact Or.inl c1
    cases x.signBit <;> cases y.signBit <;> simp [UInt64.lt_iff_toNat_lt] <;> omega

theorem ltGo_nan_left (x y : F64) (hx : x.isNaN = true) : ltGo x y = false := by
  simp [ltGo, hx]
theorem ltGo_nan_right (x y : F64) (hy : y.isNaN = true) : ltGo x y = false := by
  simp [ltGo, hy]

/-- key extended to NaN: below everything (the place `sort.Float64s` gives NaN) -/
def fkey (x : F64) : Int := if x.isNaN then -(2 : Int) ^ 64 else key x

theorem fkey_of_not_nan {x : F64} (hx : x.isNaN = false) : fkey x = key x := by
  simp [fkey, hx]

end F64

namespace L
open F64

theorem floatLess_eq_fkey (x y : F64) : floatLess x y = decide (fkey x < fkey y) := by
  unfold floatLess fkey
  have bx := key_bound x
  have by' := key_bound y
  cases hx : x.isNaN <;> cases hy : y.isNaN
  · simp [ltGo_eq_key x y hx hy]
  · rw [ltGo_nan_right x y hy]; simp; omega
  · rw [ltGo_nan_left x y hx]; simp; omega
  · rw [ltGo_nan_left x y hx]; simp

theorem floatLe_eq_fkey (x y : F64) : floatLe x y = decide (fkey x ≤ fkey y) := by
  unfold floatLe
  rw [floatLess_eq_fkey]
  by_cases h : fkey y < fkey x
  · simp only [h, decide_true, Bool.not_true]
    exact (decide_eq_false (by omega)).symm
  · simp only [h, decide_false, Bool.not_false]
    exact (decide_eq_true (by omega)).symm

theorem floatLe_trans (a b c : F64) : floatLe a b = true → floatLe b c = true → floatLe a c = true := by
  simp only [floatLe_eq_fkey, decide_eq_true_eq]; omega

theorem floatLe_total (a b : F64) : (floatLe a b || floatLe b a) = true := by
  simp only [floatLe_eq_fkey, Bool.or_eq_true, decide_eq_true_eq]; omega

/-- on NaN-free values `floatLe x y` is Go's `!(y < x)`, i.e. the order of the keys -/
theorem floatLe_eq_not_ltGo (x y : F64) (hx : x.isNaN = false) (hy : y.isNaN = false) :
    floatLe x y = !ltGo y x := by
  simp [floatLe, floatLess, hx, hy]

theorem floatLe_eq_key (x y : F64) (hx : x.isNaN = false) (hy : y.isNaN = false) :
    floatLe x y = decide (key x ≤ key y) := by
  rw [floatLe_eq_fkey, fkey_of_not_nan hx, fkey_of_not_nan hy]

end L
end Anytype
