import Anytype.Lemmas.Seventeen
import Anytype.Lemmas.FmtStrict

/-!
# `FmtContract` holds

The only hypothesis about floating point that the theorems of C01, C02, C04 and C16 carried
(`FmtContract`: the serialiser's shortest formatting is read back, by a strict RFC 8259 reader and by
`strconv.ParseFloat`'s model, as the identical float64) is a theorem about the model:

* `Lemmas/Seventeen.lean` — seventeen significant decimal digits always suffice: the digit generator
  `shortestLoop` succeeds at some precision `p ≤ 17` for every finite non-zero float64 (correct rounding of
  `roundPos`, `decExp`, the inequality 10^16 > 2^53);
* `Lemmas/FmtStrict.lean` — from that fact, `Strict.number (serF x) = some (some (.float x), [])` for every
  finite `x` (value preservation of the 'e' and 'f' layouts, the appended ".0", the exponent range).
-/

namespace Anytype

theorem loopOK : LoopOK := fun x hf hz => shortestLoop_succeeds x hf hz

/-- the serialiser's number formatting is faithful: no hypothesis left -/
theorem fmtContract_holds : FmtContract := fmtContract_of_loopOK loopOK

theorem serF_strict (x : F64) (hf : x.isFinite = true) :
    Strict.number (serF x) = some (some (.float x), []) := strict_of_loopOK loopOK x hf

theorem serF_parse_back (x : F64) (hf : x.isFinite = true) : F64.parseFloat (serF x) = some x :=
  fmtContract_holds.parse_back x hf

end Anytype

#print axioms Anytype.fmtContract_holds
