/-
Facts about `F64.roundPos` needed for the float-formatting contract:

* `roundPos_ratio`   – the result depends on the ratio `n / d` only;
* `roundPos_absRat`  – the exact magnitude of a finite non-zero float rounds to its own pattern;
* `isWhole_of_roundPos_int` – an integer below `2^53` rounds to a whole float.

The exponent search of `roundPos` (first guess from the bit lengths, two correction steps) ends at
the unique exponent `e` with `2^52 ≤ n / (d·2^e) < 2^53` (`Norm`).
-/
import Anytype.Lemmas.OfIntFinite
namespace Anytype
namespace FmtR
open F64
open F32 (stepE finish roundPos_staged)

/-! ### the scaled fraction -/

theorem scaled_snd_pos (n d : Nat) (e : Int) (hd : 0 < d) : 0 < (scaled n d e).2 := by
  unfold scaled
  split
  · exact Nat.mul_pos hd (Nat.two_pow_pos _)
  · exact hd

theorem scaled_step (n d : Nat) (e : Int) :
    ((scaled n d (e + 1)).1 = (scaled n d e).1 ∧ (scaled n d (e + 1)).2 = 2 * (scaled n d e).2) ∨
    ((scaled n d e).1 = 2 * (scaled n d (e + 1)).1 ∧ (scaled n d (e + 1)).2 = (scaled n d e).2) := by
  unfold scaled
  by_cases h : e ≥ 0
  · left
    have h1 : e + 1 ≥ 0 := by omega
    have h2 : (e + 1).toNat = e.toNat + 1 := by omega
    rw [if_pos h, if_pos h1, h2, Nat.pow_succ]
    exact ⟨rfl, by simp only []; ac_rfl⟩
  · right
    rw [if_neg h]
    by_cases h1 : e + 1 ≥ 0
    · have h2 : (e + 1).toNat = 0 := by omega
      have h3 : (-e).toNat = 1 := by omega
      rw [if_pos h1, h2, h3]
      exact ⟨by simp only []; omega, by simp⟩
    · have h3 : (-e).toNat = (-(e + 1)).toNat + 1 := by omega
      rw [if_neg h1, h3, Nat.pow_succ]
      exact ⟨by simp only []; ac_rfl, rfl⟩

theorem scaled_zero (d : Nat) (e : Int) : (scaled 0 d e).1 = 0 := by
  unfold scaled; split <;> simp

theorem scaled_scale (n d t : Nat) (e : Int) :
    scaled (n * t) (d * t) e = ((scaled n d e).1 * t, (scaled n d e).2 * t) := by
  unfold scaled
  split
  · simp only [Nat.mul_right_comm]
  · simp only [Nat.mul_right_comm]

/-- `2^52 ≤ n / (d·2^e)` -/
def P (n d : Nat) (e : Int) : Prop := 2 ^ 52 * (scaled n d e).2 ≤ (scaled n d e).1

/-- `e` is the normalised exponent of `n / d` -/
def Norm (n d : Nat) (e : Int) : Prop :=
  2 ^ 52 * (scaled n d e).2 ≤ (scaled n d e).1 ∧ (scaled n d e).1 < 2 ^ 53 * (scaled n d e).2

theorem P_succ_iff (n d : Nat) (e : Int) :
    P n d (e + 1) ↔ 2 ^ 53 * (scaled n d e).2 ≤ (scaled n d e).1 := by
  unfold P
  rcases scaled_step n d e with ⟨h1, h2⟩ | ⟨h1, h2⟩
  · rw [h1, h2]; omega
  · rw [h1, h2]; omega

theorem P_anti1 (n d : Nat) (e : Int) (h : P n d (e + 1)) : P n d e := by
  rw [P_succ_iff] at h
  unfold P; omega

theorem P_anti (n d : Nat) (e : Int) (k : Nat) (h : P n d (e + k)) : P n d e := by
  induction k with
  | zero => simpa using h
  | succ k ih =>
    apply ih
    apply P_anti1
    have : e + (k : Int) + 1 = e + ((k + 1 : Nat) : Int) := by omega
    rw [this]; exact h

theorem Norm_iff (n d : Nat) (e : Int) : Norm n d e ↔ P n d e ∧ ¬ P n d (e + 1) := by
  rw [P_succ_iff]; unfold Norm P; omega

theorem Norm_unique (n d : Nat) (e e' : Int) (h : Norm n d e) (h' : Norm n d e') : e = e' := by
  rw [Norm_iff] at h h'
  rcases Int.lt_trichotomy e e' with hlt | heq | hgt
  · exfalso
    obtain ⟨k, hk⟩ : ∃ k : Nat, e' = e + 1 + k := ⟨(e' - (e + 1)).toNat, by omega⟩
    exact h.2 (P_anti n d (e + 1) k (hk ▸ h'.1))
  · exact heq
  · exfalso
    obtain ⟨k, hk⟩ : ∃ k : Nat, e = e' + 1 + k := ⟨(e - (e' + 1)).toNat, by omega⟩
    exact h'.2 (P_anti n d (e' + 1) k (hk ▸ h.1))

theorem Norm_scale (n d t : Nat) (e : Int) (ht : 0 < t) : Norm (n * t) (d * t) e ↔ Norm n d e := by
  unfold Norm
  rw [scaled_scale]
  simp only []
  rw [← Nat.mul_assoc, ← Nat.mul_assoc, Nat.mul_le_mul_right_iff ht, Nat.mul_lt_mul_right ht]

/-! ### the correction steps -/

theorem stepE_norm (n d : Nat) (e : Int) (hd : 0 < d) (h : Norm n d e) : stepE n d e = e := by
  have hb := scaled_snd_pos n d e hd
  unfold stepE
  simp only []
  have h1 : ¬ ((scaled n d e).1 / (scaled n d e).2 < 2 ^ 52) := by
    rw [Nat.div_lt_iff_lt_mul hb]; have := h.1; omega
  have h2 : ¬ ((scaled n d e).1 / (scaled n d e).2 ≥ 2 ^ 53) := by
    have : (scaled n d e).1 / (scaled n d e).2 < 2 ^ 53 := by
      rw [Nat.div_lt_iff_lt_mul hb]; exact h.2
    omega
  rw [if_neg h1, if_neg h2]

theorem stepE_up (n d : Nat) (e : Int) (hd : 0 < d)
    (h : 2 ^ 53 * (scaled n d e).2 ≤ (scaled n d e).1) : stepE n d e = e + 1 := by
  have hb := scaled_snd_pos n d e hd
  unfold stepE
  simp only []
  have h2 : (scaled n d e).1 / (scaled n d e).2 ≥ 2 ^ 53 := by
    show 2 ^ 53 ≤ _
    rw [Nat.le_div_iff_mul_le hb]; exact h
  rw [if_neg (by omega), if_pos h2]

theorem Norm_succ (n d : Nat) (e : Int)
    (h1 : 2 ^ 53 * (scaled n d e).2 ≤ (scaled n d e).1)
    (h2 : (scaled n d e).1 < 2 ^ 54 * (scaled n d e).2) : Norm n d (e + 1) := by
  unfold Norm
  rcases scaled_step n d e with ⟨a, b⟩ | ⟨a, b⟩
  · rw [a, b]; omega
  · rw [b]; rw [a] at h1 h2; omega

/-- two correction steps from an exponent at most one too low reach the normalised exponent -/
theorem stepE_twice (n d : Nat) (e : Int) (hd : 0 < d)
    (h1 : 2 ^ 52 * (scaled n d e).2 ≤ (scaled n d e).1)
    (h2 : (scaled n d e).1 < 2 ^ 54 * (scaled n d e).2) :
    Norm n d (stepE n d (stepE n d e)) := by
  by_cases h : 2 ^ 53 * (scaled n d e).2 ≤ (scaled n d e).1
  · have hN := Norm_succ n d e h h2
    rw [stepE_up n d e hd h, stepE_norm n d _ hd hN]; exact hN
  · have hN : Norm n d e := ⟨h1, by omega⟩
    rw [stepE_norm n d e hd hN, stepE_norm n d e hd hN]; exact hN

/-- the exponent `roundPos` settles on before clamping -/
def normExp (n d : Nat) : Int :=
  stepE n d (stepE n d ((bitLen n : Int) - (bitLen d : Int) - 53))

theorem log2_bounds (n : Nat) (h : n ≠ 0) : 2 ^ n.log2 ≤ n ∧ n < 2 * 2 ^ n.log2 := by
  refine ⟨Nat.log2_self_le h, ?_⟩
  have := @Nat.lt_log2_self n
  rw [Nat.pow_succ] at this; omega

theorem guess_bounds (n d : Nat) (hn : n ≠ 0) (hd : d ≠ 0) (e : Int)
    (he : e = (bitLen n : Int) - (bitLen d : Int) - 53) :
    2 ^ 52 * (scaled n d e).2 ≤ (scaled n d e).1 ∧ (scaled n d e).1 < 2 ^ 54 * (scaled n d e).2 := by
  have hb1 : bitLen n = n.log2 + 1 := by simp [bitLen, hn]
  have hb2 : bitLen d = d.log2 + 1 := by simp [bitLen, hd]
  rw [hb1, hb2] at he
  obtain ⟨n1, n2⟩ := log2_bounds n hn
  obtain ⟨d1, d2⟩ := log2_bounds d hd
  generalize n.log2 = L at *
  generalize d.log2 = M at *
  unfold scaled
  by_cases hp : e ≥ 0
  · rw [if_pos hp]
    simp only []
    obtain ⟨k, hk⟩ : ∃ k : Nat, e.toNat = k := ⟨_, rfl⟩
    rw [hk]
    have hL : L = M + k + 53 := by omega
    have e1 : 2 ^ L = 2 ^ M * 2 ^ k * 2 ^ 53 := by rw [hL, Nat.pow_add, Nat.pow_add]
    have hk0 : 0 < 2 ^ k := Nat.two_pow_pos k
    have v1 : 2 ^ M * 2 ^ k ≤ d * 2 ^ k := Nat.mul_le_mul_right _ d1
    have v2 : d * 2 ^ k < 2 * 2 ^ M * 2 ^ k := Nat.mul_lt_mul_of_pos_right d2 hk0
    rw [Nat.mul_assoc] at v2
    generalize 2 ^ M * 2 ^ k = W at *
    generalize d * 2 ^ k = V at *
    omega
  · rw [if_neg hp]
    simp only []
    obtain ⟨k, hk⟩ : ∃ k : Nat, (-e).toNat = k := ⟨_, rfl⟩
    rw [hk]
    have hL : M + 53 = L + k := by omega
    have e1 : 2 ^ M * 2 ^ 53 = 2 ^ L * 2 ^ k := by rw [← Nat.pow_add, ← Nat.pow_add, hL]
    have hk0 : 0 < 2 ^ k := Nat.two_pow_pos k
    have v1 : 2 ^ L * 2 ^ k ≤ n * 2 ^ k := Nat.mul_le_mul_right _ n1
    have v2 : n * 2 ^ k < 2 * 2 ^ L * 2 ^ k := Nat.mul_lt_mul_of_pos_right n2 hk0
    rw [Nat.mul_assoc] at v2
    generalize 2 ^ L * 2 ^ k = W at *
    generalize n * 2 ^ k = V at *
    omega

theorem normExp_norm (n d : Nat) (hn : n ≠ 0) (hd : d ≠ 0) : Norm n d (normExp n d) := by
  obtain ⟨h1, h2⟩ := guess_bounds n d hn hd _ rfl
  exact stepE_twice n d _ (by omega) h1 h2

theorem roundPos_normExp (n d : Nat) (hn : n ≠ 0) :
    roundPos n d = finish n d (if normExp n d < -1074 then -1074 else normExp n d) :=
  roundPos_staged n d hn

/-! ### the result depends on the ratio only -/

theorem finish_scale (n d t : Nat) (e : Int) (ht : 0 < t) :
    finish (n * t) (d * t) e = finish n d e := by
  unfold finish
  rw [scaled_scale]
  simp only []
  rw [Nat.mul_div_mul_right _ _ ht, Nat.mul_mod_mul_right]
  generalize (scaled n d e).1 / (scaled n d e).2 = q
  generalize (scaled n d e).1 % (scaled n d e).2 = r
  generalize (scaled n d e).2 = b
  have h1 : (2 * (r * t) > b * t) ↔ (2 * r > b) := by
    rw [← Nat.mul_assoc]; exact Nat.mul_lt_mul_right ht
  have h2 : (2 * (r * t) < b * t) ↔ (2 * r < b) := by
    rw [← Nat.mul_assoc]; exact Nat.mul_lt_mul_right ht
  simp only [h1, h2]

theorem roundPos_scale (n d t : Nat) (hd : 0 < d) (ht : 0 < t) :
    roundPos (n * t) (d * t) = roundPos n d := by
  by_cases hn : n = 0
  · subst hn; simp [roundPos]
  · have hnt : n * t ≠ 0 := Nat.ne_of_gt (Nat.mul_pos (Nat.pos_of_ne_zero hn) ht)
    have hdt : d * t ≠ 0 := Nat.ne_of_gt (Nat.mul_pos hd ht)
    have hE : normExp (n * t) (d * t) = normExp n d :=
      Norm_unique n d _ _ ((Norm_scale n d t _ ht).1 (normExp_norm _ _ hnt hdt))
        (normExp_norm n d hn (by omega))
    rw [roundPos_normExp _ _ hnt, roundPos_normExp _ _ hn, hE, finish_scale _ _ _ _ ht]

/-- `roundPos` is a function of the rational `n / d` -/
theorem roundPos_ratio (n1 d1 n2 d2 : Nat) (h1 : 0 < d1) (h2 : 0 < d2) (h : n1 * d2 = n2 * d1) :
    roundPos n1 d1 = roundPos n2 d2 := by
  rw [← roundPos_scale n1 d1 d2 h1 h2, ← roundPos_scale n2 d2 d1 h2 h1, h, Nat.mul_comm d1 d2]

/-! ### exactly representable values -/

theorem finish_exact (n d : Nat) (e : Int) (m t : Nat) (ht : 0 < t)
    (hs1 : (scaled n d e).1 = m * t) (hs2 : (scaled n d e).2 = t) (hm : m < 2 ^ 53) :
    finish n d e =
      (if e > 971 then none
       else if m < 2 ^ 52 then some (UInt64.ofNat m)
       else some (UInt64.ofNat (((e + 1075).toNat <<< 52) + (m - 2 ^ 52)))) := by
  unfold finish
  rw [hs1, hs2]
  simp only []
  rw [Nat.mul_div_cancel _ ht, Nat.mul_mod_left]
  have c1 : ¬ (2 * 0 > t) := by omega
  have c2 : 2 * 0 < t := by omega
  rw [if_neg c1, if_pos c2]
  have hm' : ¬ (m = 2 ^ 53) := by omega
  rw [if_neg hm']

/-- normal case: `n / d = m · 2^e` with `2^52 ≤ m < 2^53` -/
theorem roundPos_exact_normal (n d : Nat) (e : Int) (m t : Nat) (hd : 0 < d) (ht : 0 < t)
    (hs1 : (scaled n d e).1 = m * t) (hs2 : (scaled n d e).2 = t)
    (hm1 : 2 ^ 52 ≤ m) (hm2 : m < 2 ^ 53) (he1 : -1074 ≤ e) (he2 : e ≤ 971) :
    roundPos n d = some (UInt64.ofNat (((e + 1075).toNat <<< 52) + (m - 2 ^ 52))) := by
  have hN : Norm n d e := by
    unfold Norm
    rw [hs1, hs2]
    exact ⟨Nat.mul_le_mul_right _ hm1, Nat.mul_lt_mul_of_pos_right hm2 ht⟩
  have hn : n ≠ 0 := by
    intro h0; subst h0
    rw [scaled_zero] at hs1
    have : 0 < m * t := Nat.mul_pos (by omega) ht
    omega
  have hE := Norm_unique n d _ _ (normExp_norm n d hn (by omega)) hN
  rw [roundPos_normExp _ _ hn, hE, if_neg (by omega), finish_exact n d e m t ht hs1 hs2 hm2,
    if_neg (by omega), if_neg (by omega)]

/-- subnormal case: `n / d = m · 2^-1074` with `0 < m < 2^52` -/
theorem roundPos_exact_subnormal (n d : Nat) (m t : Nat) (hd : 0 < d) (ht : 0 < t)
    (hs1 : (scaled n d (-1074)).1 = m * t) (hs2 : (scaled n d (-1074)).2 = t)
    (hm0 : 0 < m) (hm2 : m < 2 ^ 52) :
    roundPos n d = some (UInt64.ofNat m) := by
  have hn : n ≠ 0 := by
    intro h0; subst h0
    rw [scaled_zero] at hs1
    have : 0 < m * t := Nat.mul_pos hm0 ht
    omega
  have hnp : ¬ P n d (-1074) := by
    unfold P
    rw [hs1, hs2]
    have := Nat.mul_lt_mul_of_pos_right hm2 ht
    omega
  have hlt : normExp n d < -1074 := by
    apply Int.lt_of_not_ge
    intro hge
    obtain ⟨k, hk⟩ : ∃ k : Nat, normExp n d = -1074 + k := ⟨(normExp n d + 1074).toNat, by omega⟩
    have := ((Norm_iff n d _).1 (normExp_norm n d hn (by omega))).1
    rw [hk] at this
    exact hnp (P_anti n d _ k this)
  rw [roundPos_normExp _ _ hn, if_pos hlt, finish_exact n d _ m t ht hs1 hs2 (by omega),
    if_neg (by omega), if_pos hm2]

/-! ### the fields of a float and of its magnitude -/

theorem abs_bits_toNat (x : F64) : x.abs.bits.toNat = x.bits.toNat % 2 ^ 63 := by
  unfold F64.abs
  simp only [UInt64.toNat_and]
  exact Nat.and_two_pow_sub_one_eq_mod _ 63

theorem expBits_abs (x : F64) : x.abs.expBits = x.expBits := by
  rw [expBits_nat, expBits_nat, abs_bits_toNat]
  have := x.bits.toNat_lt
  omega

theorem frac_abs (x : F64) : x.abs.frac = x.frac := by
  rw [frac_nat, frac_nat, abs_bits_toNat]
  omega

theorem abs_bits_fields (x : F64) : x.abs.bits.toNat = x.expBits * 2 ^ 52 + x.frac := by
  rw [expBits_nat, frac_nat, abs_bits_toNat]
  have := x.bits.toNat_lt
  omega

theorem withSign_abs (x : F64) : withSign x.signBit x.abs = x := by
  obtain ⟨b⟩ := x
  have hlt := b.toNat_lt
  have ha : (F64.abs ⟨b⟩).bits.toNat = b.toNat % 2 ^ 63 := abs_bits_toNat ⟨b⟩
  cases hs : (F64.mk b).signBit
  · rw [withSign_false]
    rw [signBit_nat] at hs
    simp only [decide_eq_false_iff_not] at hs
    have hs' : ¬ 2 ^ 63 ≤ b.toNat := hs
    show F64.mk (F64.abs ⟨b⟩).bits = F64.mk b
    congr 1
    apply UInt64.toNat_inj.1
    rw [ha]; omega
  · rw [signBit_nat] at hs
    simp only [decide_eq_true_eq] at hs
    have hs' : 2 ^ 63 ≤ b.toNat := hs
    have h := withSign_true_bits (F64.abs ⟨b⟩) (by rw [ha]; omega)
    show F64.mk (withSign true (F64.abs ⟨b⟩)).bits = F64.mk b
    congr 1
    apply UInt64.toNat_inj.1
    rw [h, ha]; omega

theorem ofNat_fields (x : F64) : x.abs.bits = UInt64.ofNat (x.expBits * 2 ^ 52 + x.frac) := by
  apply UInt64.toNat_inj.1
  rw [UInt64.toNat_ofNat', abs_bits_fields]
  have h1 := COne_expBits_lt x
  have h2 := COne_frac_lt x
  omega
where
  COne_expBits_lt (x : F64) : x.expBits < 2048 := by
    rw [expBits_nat]; omega
  COne_frac_lt (x : F64) : x.frac < 2 ^ 52 := by
    rw [frac_nat]; omega

theorem expBits_lt (x : F64) : x.expBits < 2048 := by rw [expBits_nat]; omega
theorem frac_lt (x : F64) : x.frac < 2 ^ 52 := by rw [frac_nat]; omega

/-- the exact magnitude of a finite non-zero float rounds to its own pattern -/
theorem roundPos_absRat (x : F64) (hf : x.isFinite = true) (hz : x.isZero = false) :
    roundPos (absRat x).1 (absRat x).2 = some x.abs.bits := by
  have hE := expBits_lt x
  have hF := frac_lt x
  have hfin : x.expBits ≠ 2047 := by simpa [isFinite] using hf
  rw [ofNat_fields]
  by_cases h0 : x.expBits = 0
  · -- subnormal
    have hfr : x.frac ≠ 0 := by
      intro h; simp [isZero, h0, h] at hz
    have hm : x.mant = x.frac := by simp [mant, h0]
    have he : x.exp2 = -1074 := by simp [exp2, h0]
    obtain ⟨j, hj⟩ : ∃ j : Nat, j = 1074 := ⟨_, rfl⟩
    have e1 : ¬ ((-1074 : Int) ≥ 0) := by decide
    have e2 : (-(-1074 : Int)).toNat = j := by rw [hj]; decide
    have hA : absRat x = (x.frac, 2 ^ j) := by
      unfold absRat
      rw [hm, he]
      simp only []
      rw [if_neg e1, e2]
    rw [hA, h0, Nat.zero_mul, Nat.zero_add]
    refine roundPos_exact_subnormal _ _ x.frac (2 ^ j) (Nat.two_pow_pos j) (Nat.two_pow_pos j)
      ?_ ?_ (by omega) hF
    · unfold scaled
      rw [if_neg e1, e2]
    · unfold scaled
      rw [if_neg e1]
  · have hb : (x.expBits == 0) = false := by simpa using h0
    have hm : x.mant = x.frac + 2 ^ 52 := by simp [mant, hb]
    have he : x.exp2 = (x.expBits : Int) - 1075 := by simp [exp2, hb]
    have hres : x.expBits * 2 ^ 52 + x.frac
        = ((x.exp2 + 1075).toNat <<< 52) + (x.mant - 2 ^ 52) := by
      rw [he, hm, Nat.shiftLeft_eq]
      have : ((x.expBits : Int) - 1075 + 1075).toNat = x.expBits := by omega
      rw [this]; omega
    rw [hres]
    unfold absRat
    simp only []
    by_cases hp : x.exp2 ≥ 0
    · rw [if_pos hp]
      refine roundPos_exact_normal _ _ x.exp2 x.mant (2 ^ x.exp2.toNat) (by omega)
        (Nat.two_pow_pos _) ?_ ?_ (by omega) (by omega) (by omega) (by omega)
      · unfold scaled; rw [if_pos hp]
      · unfold scaled; rw [if_pos hp]; simp
    · rw [if_neg hp]
      refine roundPos_exact_normal _ _ x.exp2 x.mant (2 ^ (-x.exp2).toNat) (Nat.two_pow_pos _)
        (Nat.two_pow_pos _) ?_ ?_ (by omega) (by omega) (by omega) (by omega)
      · unfold scaled; rw [if_neg hp]
      · unfold scaled; rw [if_neg hp]

/-- a float whose magnitude is the rounding of an integer below `2^53` is whole -/
theorem isWhole_of_roundPos_int (x : F64) (V : Nat) (hV0 : V ≠ 0) (hV : V < 2 ^ 53)
    (h : roundPos V 1 = some x.abs.bits) : x.isWhole = true := by
  obtain ⟨l1, l2⟩ := log2_bounds V hV0
  have hL : V.log2 < 53 := (Nat.log2_lt hV0).2 hV
  generalize V.log2 = L at *
  obtain ⟨k, hk⟩ : ∃ k, L + k = 52 := ⟨52 - L, by omega⟩
  have hQP : 2 ^ L * 2 ^ k = 2 ^ 52 := by rw [← Nat.pow_add, hk]
  have hk0 : 0 < 2 ^ k := Nat.two_pow_pos k
  have hm1 : 2 ^ 52 ≤ V * 2 ^ k := by
    rw [← hQP]; exact Nat.mul_le_mul_right _ l1
  have hm2 : V * 2 ^ k < 2 ^ 53 := by
    have := Nat.mul_lt_mul_of_pos_right l2 hk0
    rw [Nat.mul_assoc, hQP] at this; omega
  have hr := roundPos_exact_normal V 1 (-(k : Int)) (V * 2 ^ k) 1 (by omega) (by omega)
    (by
      unfold scaled
      by_cases hk' : k = 0
      · subst hk'; simp
      · rw [if_neg (by omega)]
        have : (- -(k : Int)).toNat = k := by omega
        rw [this]; simp)
    (by
      unfold scaled
      by_cases hk' : k = 0
      · subst hk'; simp
      · rw [if_neg (by omega)])
    hm1 hm2 (by omega) (by omega)
  rw [hr] at h
  injection h with h
  have hEq : (-(k : Int) + 1075).toNat = L + 1023 := by omega
  rw [hEq] at h
  have hx : x.abs = ofFields (L + 1023) (V * 2 ^ k - 2 ^ 52) := by
    cases hxa : x.abs with
    | mk b =>
      rw [hxa] at h
      simp only [] at h
      rw [← h]; rfl
  obtain ⟨f1, f2, _⟩ := fields_withSign false (L + 1023) (V * 2 ^ k - 2 ^ 52) (by omega) (by omega)
  rw [withSign_false, ← hx, expBits_abs] at f1
  rw [withSign_false, ← hx, frac_abs] at f2
  have hb : (x.expBits == 0) = false := by simp [f1]
  have hm : x.mant = V * 2 ^ k := by
    simp only [mant, hb, Bool.false_eq_true, if_false]; rw [f2]; omega
  have he : x.exp2 = -(k : Int) := by
    simp only [exp2, hb, Bool.false_eq_true, if_false]; rw [f1]; omega
  unfold isWhole isFinite
  simp only [hm, he, f1]
  have : (L + 1023 != 2047) = true := by simp; omega
  rw [this, Bool.true_and]
  by_cases hk' : k = 0
  · subst hk'; simp
  · rw [if_neg (by omega)]
    have : (- -(k : Int)).toNat = k := by omega
    rw [this, Nat.mul_mod_left]
    rfl

end FmtR
end Anytype
