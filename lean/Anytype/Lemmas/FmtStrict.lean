/-
The `strict` field of `FmtContract` (hence the whole contract, `Lemmas/ContractOne.lean`) from one
fact about the digit generator: the search loop of `F64.shortest` finds a candidate (`LoopOK`).

  strict_of_loopOK      : LoopOK → ∀ x, x.isFinite → Strict.number (serF x) = some (some (.float x), [])
  fmtContract_of_loopOK : LoopOK → FmtContract

No further hypothesis: the size of the candidate (`10^(p-1) ≤ c ≤ 10^p`, `cand_bounds`), the
correctness of `decExp` (`decExp_spec`) and the exponent bounds (`decExp_bounds_fin`) are proved here.

Ingredients: `Lemmas/FmtRound.lean` (`roundPos` depends on the ratio only, is exact on
representable values, maps integers below 2^53 to whole floats), `Lemmas/FmtText.lean` (the strict
reader on the three text shapes `d.ddde±XX`, `ddd[.ddd]` / `ddd.0`, `0.000ddd`).

Steps for a finite non-zero `x` with candidate `c` at precision `p`:
* `tryPrec_back`: `roundPos (c·10^k) = some x.abs.bits`, `k = E − (p−1)`;
* `digits_of_cand`: `shortest x = (h :: tl, E')`, `h ≠ 0`, digits `< 10`, value `· 10^z = c`,
  `E' − |tl| = k + z`;
* 'e' branch of `serF`: `FmtT.eForm`;
* 'f' branch (`|x| < 10^6`): a whole `x` makes the loop stop at a precision `p ≤ E + 1`
  (`whole_prec`: the exact value is a candidate there, `shortestLoop_min`), so the digits have no
  fractional part and `serF` appends ".0" (`FmtT.fFormWhole`); a non-whole `x` has a fractional
  part, otherwise it would be the rounding of an integer `< 10^7` (`FmtR.isWhole_of_roundPos_int`,
  `FmtT.fFormFrac`); below 1 the value is not whole (`not_whole_of_small`, `FmtT.fFormSmall`);
* the reader returns `withSign x.signBit ⟨x.abs.bits⟩ = x` (`FmtR.withSign_abs`).
-/
import Anytype.Lemmas.FmtText
namespace Anytype
open F64

/-- the digit generator finds a candidate among the precisions 1 … 17 (proved elsewhere) -/
def LoopOK : Prop := ∀ x : F64, x.isFinite = true → x.isZero = false →
    ∃ c p, 1 ≤ p ∧ p ≤ 17 ∧
      F64.shortestLoop x.abs.bits (F64.absRat x).1 (F64.absRat x).2
        (F64.decExp (F64.absRat x).1 (F64.absRat x).2) 17 1 = some (c, p) ∧
      F64.tryPrec x.abs.bits (F64.absRat x).1 (F64.absRat x).2
        (F64.decExp (F64.absRat x).1 (F64.absRat x).2) p = some c

namespace FmtS
open FmtT FmtR Strict

/-! ### what a successful precision attempt says -/

theorem tryPrec_back (t : UInt64) (n d : Nat) (E : Int) (p c : Nat)
    (h : tryPrec t n d E p = some c) :
    roundPos (decRat c (E - ((p : Int) - 1))).1 (decRat c (E - ((p : Int) - 1))).2 = some t := by
  unfold tryPrec at h
  unfold decRat
  by_cases hk : E - ((p : Int) - 1) ≥ 0
  · simp only [hk, if_true] at h ⊢
    generalize n / (d * 10 ^ (E - ((p : Int) - 1)).toNat) = lo at h ⊢
    repeat' (split at h)
    all_goals first
      | (cases h; done)
      | (cases h; simp_all)
  · simp only [hk, if_false] at h ⊢
    generalize n * 10 ^ (-(E - ((p : Int) - 1))).toNat / d = lo at h ⊢
    repeat' (split at h)
    all_goals first
      | (cases h; done)
      | (cases h; simp_all)

theorem roundPos_decRat_zero (k : Int) : roundPos (decRat 0 k).1 (decRat 0 k).2 = some 0 := by
  unfold decRat; split <;> simp [roundPos]

theorem abs_bits_ne_zero (x : F64) (hz : x.isZero = false) : x.abs.bits ≠ 0 := by
  intro h
  have h1 := abs_bits_fields x
  rw [h] at h1
  have h2 : (0 : UInt64).toNat = 0 := rfl
  rw [h2] at h1
  have hE : x.expBits = 0 := by
    rcases Nat.eq_zero_or_pos x.expBits with h0 | h0
    · exact h0
    · have : 1 * 2 ^ 52 ≤ x.expBits * 2 ^ 52 := Nat.mul_le_mul_right _ h0
      omega
  have hF : x.frac = 0 := by rw [hE] at h1; omega
  simp [isZero, hE, hF] at hz

/-- the first successful precision is returned -/
theorem shortestLoop_min (t : UInt64) (n d : Nat) (E : Int) :
    ∀ (fuel p p0 c0 : Nat), p ≤ p0 → p0 < p + fuel → tryPrec t n d E p0 = some c0 →
      ∃ c p', shortestLoop t n d E fuel p = some (c, p') ∧ p' ≤ p0
  | 0, p, p0, c0, h1, h2, _ => by omega
  | fuel + 1, p, p0, c0, h1, h2, h => by
    simp only [shortestLoop]
    cases ht : tryPrec t n d E p with
    | some c => exact ⟨c, p, rfl, h1⟩
    | none =>
      have hne : p ≠ p0 := by
        intro e; subst e; rw [ht] at h; cases h
      exact shortestLoop_min t n d E fuel (p + 1) p0 c0 (by omega) (by omega) h

/-! ### the digit list -/

/-- strip trailing zeros, as `shortest` does -/
def rstrip (ds : List Nat) : List Nat := (ds.reverse.dropWhile (· == 0)).reverse

theorem rstrip_spec (ds : List Nat) : ∃ z, ds = rstrip ds ++ List.replicate z 0 := by
  refine ⟨(ds.reverse.takeWhile (· == 0)).length, ?_⟩
  have h1 : ds.reverse = ds.reverse.takeWhile (· == 0) ++ ds.reverse.dropWhile (· == 0) :=
    (List.takeWhile_append_dropWhile).symm
  have h2 : ds.reverse.takeWhile (· == 0) =
      List.replicate (ds.reverse.takeWhile (· == 0)).length 0 := by
    rw [List.eq_replicate_iff]
    refine ⟨rfl, ?_⟩
    intro b hb
    have := List.all_eq_true.1 (List.all_takeWhile (l := ds.reverse) (p := (· == 0))) b hb
    simpa using this
  have h4 : ds = (ds.reverse.dropWhile (· == 0)).reverse ++ (ds.reverse.takeWhile (· == 0)).reverse := by
    have := congrArg List.reverse h1
    rw [List.reverse_reverse, List.reverse_append] at this
    exact this
  unfold rstrip
  generalize ds.reverse.takeWhile (· == 0) = T at *
  generalize ds.reverse.dropWhile (· == 0) = D at *
  rw [h4, h2, List.reverse_replicate, List.length_replicate]

theorem natDigits_spec (c : Nat) (hc : 0 < c) :
    ∃ h t, natDigits c = h :: t ∧ h ≠ 0 ∧ (∀ d ∈ h :: t, d < 10) ∧ dvalN (h :: t) 0 = c := by
  obtain ⟨ch, ct, e, hne, h1, h2⟩ := toDigits_head c hc
  have hall : ∀ d ∈ natDigits c, d < 10 := by
    intro d hd
    unfold natDigits at hd
    obtain ⟨x, hx, rfl⟩ := List.mem_map.1 hd
    have := mem_toDigits_dig hx
    show x.toNat - 48 < 10
    omega
  have hval : dvalN (natDigits c) 0 = c := by
    have := digitsVal_toDigits c
    unfold digitsVal at this
    unfold dvalN natDigits
    rw [List.foldl_map]
    exact this
  have hcons : natDigits c = (ch.toNat - 48) :: ct.map (fun x => x.toNat - '0'.toNat) := by
    unfold natDigits; rw [e]; rfl
  refine ⟨_, _, hcons, ?_, by rw [← hcons]; exact hall, by rw [← hcons]; exact hval⟩
  intro h0
  apply hne
  rw [char_eq_iff]
  show ch.toNat = 48
  omega

/-- the digits `shortest` returns for a candidate `c` of `p` or `p+1` digits -/
theorem digits_of_cand (c p : Nat) (E : Int) (hp : 1 ≤ p) (hc1 : 10 ^ (p - 1) ≤ c) (hc2 : c ≤ 10 ^ p) :
    ∃ (h : Nat) (tl : List Nat) (z : Nat), rstrip (natDigits c) = h :: tl ∧ h ≠ 0 ∧ h < 10 ∧
      (∀ d ∈ tl, d < 10) ∧ dvalN (h :: tl) 0 * 10 ^ z = c ∧
      (if (natDigits c).length > p then E + 1 else E) - (tl.length : Int) = E - ((p : Int) - 1) + (z : Int) ∧
      (tl.length + 1 + z = p ∨ tl.length + 1 + z = p + 1) ∧
      (natDigits c).length = tl.length + 1 + z := by
  have hc0 : 0 < c := Nat.lt_of_lt_of_le (SVP.pow10_pos _) hc1
  obtain ⟨h, t, hnd, hh0, hall, hval⟩ := natDigits_spec c hc0
  obtain ⟨z, hz⟩ := rstrip_spec (natDigits c)
  have hlen : (natDigits c).length = p ∨ (natDigits c).length = p + 1 := by
    rw [COne.natDigits_length]
    obtain ⟨q, hq⟩ : ∃ q, p = q + 1 := ⟨p - 1, by omega⟩
    subst hq
    simp only [Nat.add_sub_cancel] at hc1
    rcases Nat.lt_or_ge c (10 ^ (q + 1)) with hlt | hge
    · left; exact decLen_eq q c hc1 hlt
    · right
      have : c = 10 ^ (q + 1) := Nat.le_antisymm hc2 hge
      refine decLen_eq (q + 1) c hge ?_
      rw [this]; exact Nat.pow_lt_pow_right (by decide) (by omega)
  cases hs : rstrip (natDigits c) with
  | nil =>
    exfalso
    rw [hs, hnd, List.nil_append] at hz
    have : h ∈ List.replicate z 0 := by rw [← hz]; simp
    rw [List.mem_replicate] at this
    exact hh0 this.2
  | cons h' tl =>
    rw [hs, hnd, List.cons_append] at hz
    injection hz with hz1 hz2
    subst hz1
    have htl : ∀ d ∈ tl, d < 10 := by
      intro d hd
      apply hall d
      rw [hz2]; simp [hd]
    have hlen' : (natDigits c).length = tl.length + 1 + z := by
      rw [hnd, hz2]; simp; omega
    refine ⟨h, tl, z, rfl, hh0, hall h (by simp), htl, ?_, ?_, ?_, hlen'⟩
    · rw [← hval, hz2, ← List.cons_append, dvalN_append, dvalN_zeros]
    · rw [hlen']
      rw [hlen'] at hlen
      split <;> omega
    · rw [hlen'] at hlen; exact hlen

/-- the fraction handed to `roundPos` by the reader is the candidate's -/
theorem roundPos_decRat_shift (m z c : Nat) (k : Int) (h : m * 10 ^ z = c) :
    roundPos (decRat m (k + z)).1 (decRat m (k + z)).2 = roundPos (decRat c k).1 (decRat c k).2 := by
  apply roundPos_ratio _ _ _ _ (decRat_snd_pos _ _) (decRat_snd_pos _ _)
  subst h
  unfold decRat
  by_cases hk : k ≥ 0
  · have hkz : k + (z : Int) ≥ 0 := by omega
    have e : (k + (z : Int)).toNat = z + k.toNat := by omega
    rw [if_pos hk, if_pos hkz, e, Nat.pow_add]
    simp only [Nat.mul_one, Nat.mul_assoc]
  · rw [if_neg hk]
    by_cases hkz : k + (z : Int) ≥ 0
    · rw [if_pos hkz]
      have e : z = (k + (z : Int)).toNat + (-k).toNat := by omega
      simp only [Nat.mul_one]
      rw [Nat.mul_assoc, ← Nat.pow_add, ← e]
    · rw [if_neg hkz]
      have e : (-k).toNat = z + (-(k + (z : Int))).toNat := by omega
      simp only []
      rw [e, Nat.pow_add, Nat.mul_assoc]

/-! ### magnitude: exponent bounds, the `absGePow10` test -/

theorem mant_pos (x : F64) (hz : x.isZero = false) : 0 < x.mant := by
  unfold mant
  split
  · rename_i h
    simp only [beq_iff_eq] at h
    rcases Nat.eq_zero_or_pos x.frac with h0 | h0
    · simp [isZero, h, h0] at hz
    · exact h0
  · omega

theorem exp2_le_fin (x : F64) (hf : x.isFinite = true) : x.exp2 ≤ 971 := by
  have h1 := FmtR.expBits_lt x
  have h2 : x.expBits ≠ 2047 := by simpa [isFinite] using hf
  unfold exp2; split <;> omega

theorem absRat_bounds_fin (x : F64) (hf : x.isFinite = true) {N D : Nat} (hN : N = 342) (hD : D = 359) :
    (absRat x).1 < 10 ^ N ∧ 1 ≤ (absRat x).2 ∧ (absRat x).2 < 10 ^ D := by
  have hm := COne.mant_lt x
  obtain ⟨he1, _⟩ := COne.exp2_bounds x
  have he2 := exp2_le_fin x hf
  unfold absRat
  simp only []
  split
  · next hp =>
    refine ⟨?_, Nat.le_refl _, Nat.one_lt_pow (by omega) (by decide)⟩
    have h1 : 53 + x.exp2.toNat ≤ 3 * N := by omega
    calc x.mant * 2 ^ x.exp2.toNat < 2 ^ 53 * 2 ^ x.exp2.toNat :=
          Nat.mul_lt_mul_of_pos_right hm (Nat.two_pow_pos _)
      _ = 2 ^ (53 + x.exp2.toNat) := by rw [← Nat.pow_add]
      _ ≤ 2 ^ (3 * N) := Nat.pow_le_pow_right (by decide) h1
      _ ≤ 10 ^ N := SVP.pow_bound _
  · next hp =>
    refine ⟨?_, Nat.two_pow_pos _, ?_⟩
    · calc x.mant < 2 ^ 53 := hm
        _ ≤ 2 ^ (3 * N) := Nat.pow_le_pow_right (by decide) (by omega)
        _ ≤ 10 ^ N := SVP.pow_bound _
    · have h1 : (-x.exp2).toNat ≤ 3 * (D - 1) := by omega
      calc 2 ^ (-x.exp2).toNat ≤ 2 ^ (3 * (D - 1)) := Nat.pow_le_pow_right (by decide) h1
        _ ≤ 10 ^ (D - 1) := SVP.pow_bound _
        _ < 10 ^ D := Nat.pow_lt_pow_right (by decide) (by omega)

theorem decExp_bounds_fin (x : F64) (hf : x.isFinite = true) :
    -360 ≤ decExp (absRat x).1 (absRat x).2 ∧ decExp (absRat x).1 (absRat x).2 ≤ 342 := by
  obtain ⟨h1, _, h3⟩ := absRat_bounds_fin x hf (N := 342) (D := 359) rfl rfl
  have := COne.decExp_bounds _ _ 342 359 h1 h3 (by decide) (by decide)
  omega

theorem absGePow10_iff (x : F64) (k : Nat) :
    absGePow10 x k = true ↔ 10 ^ k * (absRat x).2 ≤ (absRat x).1 := by
  unfold absGePow10 absRat
  simp only []
  split
  · simp
  · simp

theorem decExp_neg (n d : Nat) (h : decExp n d < 0) : n < d := by
  apply Nat.lt_of_not_ge
  intro hge
  unfold decExp at h
  rw [if_pos hge] at h
  have := SVP.decLen_pos (n / d)
  omega

theorem decExp_le_of_lt (n d k : Nat) (hd : 0 < d) (h : n < 10 ^ (k + 1) * d) : decExp n d ≤ k := by
  unfold decExp
  split
  · have : n / d < 10 ^ (k + 1) := by rw [Nat.div_lt_iff_lt_mul hd]; exact h
    have := SVP.decLen_le k _ this
    omega
  · simp only []
    have hneg : ∀ z : Int, Int.neg z = -z := fun _ => rfl
    rw [hneg]
    omega

/-! ### the size of a candidate -/

theorem decLen_spec (m : Nat) (hm : 0 < m) : 10 ^ (decLen m - 1) ≤ m ∧ m < 10 ^ decLen m := by
  have hL := SVP.decLen_pos m
  constructor
  · apply Nat.le_of_not_lt
    intro hlt
    by_cases h1 : decLen m = 1
    · rw [h1] at hlt; simp at hlt; omega
    · have e : decLen m - 1 = (decLen m - 2) + 1 := by omega
      rw [e] at hlt
      have := SVP.decLen_le _ _ hlt
      omega
  · apply Nat.lt_of_not_ge
    intro hge
    have := decLen_ge _ _ hge
    omega

/-- `decExp n d` is the decimal exponent of `n / d` -/
theorem decExp_spec (n d : Nat) (hn : 0 < n) (hd : 0 < d) :
    (∃ e : Nat, decExp n d = (e : Int) ∧ d * 10 ^ e ≤ n ∧ n < d * 10 ^ (e + 1)) ∨
    (∃ j : Nat, 0 < j ∧ decExp n d = -(j : Int) ∧ d ≤ n * 10 ^ j ∧ n * 10 ^ (j - 1) < d) := by
  unfold decExp
  by_cases hge : n ≥ d
  · left
    rw [if_pos hge]
    have hq : 0 < n / d := Nat.div_pos hge hd
    obtain ⟨s1, s2⟩ := decLen_spec (n / d) hq
    have hL := SVP.decLen_pos (n / d)
    generalize decLen (n / d) = L at *
    refine ⟨L - 1, by omega, ?_, ?_⟩
    · calc d * 10 ^ (L - 1) ≤ d * (n / d) := Nat.mul_le_mul_left _ s1
        _ ≤ n := Nat.mul_div_le n d
    · have e : L - 1 + 1 = L := by omega
      rw [e, Nat.mul_comm]
      exact (Nat.div_lt_iff_lt_mul hd).1 s2
  · right
    rw [if_neg hge]
    simp only []
    have hneg : ∀ z : Int, Int.neg z = -z := fun _ => rfl
    rw [hneg]
    have hlt : n < d := by omega
    have hq : 0 < d / n := Nat.div_pos (by omega) hn
    obtain ⟨s1, s2⟩ := decLen_spec (d / n) hq
    have hL := SVP.decLen_pos (d / n)
    generalize decLen (d / n) = g at *
    have t1 : n * 10 ^ (g - 1) ≤ d := by
      calc n * 10 ^ (g - 1) ≤ n * (d / n) := Nat.mul_le_mul_left _ s1
        _ ≤ d := Nat.mul_div_le d n
    have t2 : d < n * 10 ^ g := by
      rw [Nat.mul_comm]; exact (Nat.div_lt_iff_lt_mul hn).1 s2
    by_cases c1 : n * 10 ^ (g - 1) ≥ d
    · rw [if_pos c1]
      have hg2 : 2 ≤ g := by
        apply Nat.le_of_not_lt
        intro h
        have : g = 1 := by omega
        subst this
        simp at c1; omega
      refine ⟨g - 1, by omega, rfl, c1, ?_⟩
      have e : g - 1 = (g - 1 - 1) + 1 := by omega
      have : n * 10 ^ (g - 1 - 1) < n * 10 ^ (g - 1) := by
        apply Nat.mul_lt_mul_of_pos_left _ hn
        exact Nat.pow_lt_pow_right (by decide) (by omega)
      omega
    · rw [if_neg c1]
      rw [if_pos (by omega)]
      exact ⟨g, by omega, rfl, by omega, by omega⟩

theorem tryPrec_cand (t : UInt64) (n d : Nat) (E : Int) (p c : Nat)
    (h : tryPrec t n d E p = some c) : c = COne.tpLo n d E p ∨ c = COne.tpLo n d E p + 1 := by
  unfold tryPrec at h
  unfold COne.tpLo
  by_cases hk : E - ((p : Int) - 1) ≥ 0
  · simp only [hk, if_true] at h ⊢
    generalize n / (d * 10 ^ (E - ((p : Int) - 1)).toNat) = lo at h ⊢
    repeat' (split at h)
    all_goals first | (cases h; omega) | cases h
  · simp only [hk, if_false] at h ⊢
    generalize n * 10 ^ (-(E - ((p : Int) - 1))).toNat / d = lo at h ⊢
    repeat' (split at h)
    all_goals first | (cases h; omega) | cases h

theorem tpLo_bounds (n d p : Nat) (E : Int) (hp : 1 ≤ p) (hd : 0 < d)
    (hs : (∃ e : Nat, E = (e : Int) ∧ d * 10 ^ e ≤ n ∧ n < d * 10 ^ (e + 1)) ∨
      (∃ j : Nat, 0 < j ∧ E = -(j : Int) ∧ d ≤ n * 10 ^ j ∧ n * 10 ^ (j - 1) < d)) :
    10 ^ (p - 1) ≤ COne.tpLo n d E p ∧ COne.tpLo n d E p < 10 ^ p := by
  obtain ⟨q, rfl⟩ : ∃ q, p = q + 1 := ⟨p - 1, by omega⟩
  simp only [Nat.add_sub_cancel]
  unfold COne.tpLo
  rcases hs with ⟨e, rfl, s1, s2⟩ | ⟨j, hj, rfl, s1, s2⟩
  · by_cases hk : (e : Int) - (((q + 1 : Nat) : Int) - 1) ≥ 0
    · rw [if_pos hk]
      obtain ⟨kk, hkk⟩ : ∃ kk : Nat, ((e : Int) - (((q + 1 : Nat) : Int) - 1)).toNat = kk := ⟨_, rfl⟩
      rw [hkk]
      have he : e = kk + q := by omega
      subst he
      have hpos : 0 < d * 10 ^ kk := Nat.mul_pos hd (SVP.pow10_pos _)
      constructor
      · rw [Nat.le_div_iff_mul_le hpos]
        rw [Nat.pow_add] at s1
        have : 10 ^ q * (d * 10 ^ kk) = d * (10 ^ kk * 10 ^ q) := by ac_rfl
        rw [this]; exact s1
      · rw [Nat.div_lt_iff_lt_mul hpos]
        have e1 : kk + q + 1 = kk + (q + 1) := by omega
        rw [e1, Nat.pow_add] at s2
        have : 10 ^ (q + 1) * (d * 10 ^ kk) = d * (10 ^ kk * 10 ^ (q + 1)) := by ac_rfl
        rw [this]; exact s2
    · rw [if_neg hk]
      obtain ⟨a, ha⟩ : ∃ a : Nat, (-((e : Int) - (((q + 1 : Nat) : Int) - 1))).toNat = a := ⟨_, rfl⟩
      rw [ha]
      have hq : q = a + e := by omega
      subst hq
      have hA : 0 < 10 ^ a := SVP.pow10_pos _
      constructor
      · rw [Nat.le_div_iff_mul_le hd, Nat.pow_add]
        have := Nat.mul_le_mul_left (10 ^ a) s1
        have e1 : 10 ^ a * 10 ^ e * d = 10 ^ a * (d * 10 ^ e) := by ac_rfl
        have e2 : n * 10 ^ a = 10 ^ a * n := Nat.mul_comm _ _
        rw [e1, e2]; exact this
      · rw [Nat.div_lt_iff_lt_mul hd]
        have := Nat.mul_lt_mul_of_pos_left s2 hA
        have e0 : a + e + 1 = a + (e + 1) := by omega
        rw [e0, Nat.pow_add]
        have e1 : 10 ^ a * 10 ^ (e + 1) * d = 10 ^ a * (d * 10 ^ (e + 1)) := by ac_rfl
        have e2 : n * 10 ^ a = 10 ^ a * n := Nat.mul_comm _ _
        rw [e1, e2]; exact this
  · have hk : ¬ (-(j : Int) - (((q + 1 : Nat) : Int) - 1) ≥ 0) := by omega
    rw [if_neg hk]
    have ha : (-(-(j : Int) - (((q + 1 : Nat) : Int) - 1))).toNat = j + q := by omega
    rw [ha]
    constructor
    · rw [Nat.le_div_iff_mul_le hd, Nat.pow_add, ← Nat.mul_assoc, Nat.mul_comm (10 ^ q) d]
      exact Nat.mul_le_mul_right _ s1
    · rw [Nat.div_lt_iff_lt_mul hd]
      have e0 : j + q = (j - 1) + (q + 1) := by omega
      rw [e0, Nat.pow_add, ← Nat.mul_assoc, Nat.mul_comm (10 ^ (q + 1)) d]
      exact Nat.mul_lt_mul_of_pos_right s2 (SVP.pow10_pos _)
theorem absRat_fst_pos (x : F64) (hz : x.isZero = false) : 0 < (absRat x).1 := by
  have hm := mant_pos x hz
  unfold absRat
  simp only []
  split
  · exact Nat.mul_pos hm (Nat.two_pow_pos _)
  · exact hm

/-- a candidate at precision `p` has `p` digits, or is `10^p` -/
theorem cand_bounds (x : F64) (hf : x.isFinite = true) (hz : x.isZero = false) (c p : Nat)
    (hp1 : 1 ≤ p)
    (htry : tryPrec x.abs.bits (absRat x).1 (absRat x).2
      (decExp (absRat x).1 (absRat x).2) p = some c) :
    10 ^ (p - 1) ≤ c ∧ c ≤ 10 ^ p := by
  have hn := absRat_fst_pos x hz
  have hd := (absRat_bounds_fin x hf (N := 342) (D := 359) rfl rfl).2.1
  have hb := tpLo_bounds _ _ p _ hp1 hd (decExp_spec _ _ hn hd)
  rcases tryPrec_cand _ _ _ _ _ _ htry with h | h <;> omega

/-! ### whole values -/

/-- a non-zero value below 1 is not whole -/
theorem not_whole_of_small (x : F64) (hz : x.isZero = false)
    (h : decExp (absRat x).1 (absRat x).2 < 0) : x.isWhole = false := by
  have hlt := decExp_neg _ _ h
  have hm := mant_pos x hz
  unfold absRat at hlt
  simp only [] at hlt
  unfold isWhole
  simp only []
  by_cases hp : x.exp2 ≥ 0
  · rw [if_pos hp] at hlt
    simp only [] at hlt
    have : 0 < x.mant * 2 ^ x.exp2.toNat := Nat.mul_pos hm (Nat.two_pow_pos _)
    omega
  · rw [if_neg hp] at hlt ⊢
    simp only [] at hlt
    rw [Nat.mod_eq_of_lt hlt]
    have : (x.mant == 0) = false := by simp; omega
    rw [this, Bool.and_false]

/-- for a whole value below `10^6` the loop stops at a precision with non-negative scale -/
theorem whole_prec (x : F64) (hf : x.isFinite = true) (hz : x.isZero = false)
    (hw : x.isWhole = true) (hsmall : absGePow10 x 6 = false) (c p : Nat)
    (hloop : shortestLoop x.abs.bits (absRat x).1 (absRat x).2
      (decExp (absRat x).1 (absRat x).2) 17 1 = some (c, p)) :
    (p : Int) ≤ decExp (absRat x).1 (absRat x).2 + 1 := by
  have hm := mant_pos x hz
  have hexact := roundPos_absRat x hf hz
  have hsm : ¬ (10 ^ 6 * (absRat x).2 ≤ (absRat x).1) := by
    rw [← absGePow10_iff]; simp [hsmall]
  -- the binary exponent is negative
  have hneg : ¬ x.exp2 ≥ 0 := by
    intro hp
    apply hsm
    have hb : (x.expBits == 0) = false := by
      unfold exp2 at hp
      cases hb : (x.expBits == 0) with
      | false => rfl
      | true => rw [hb] at hp; simp at hp
    have hm52 : 2 ^ 52 ≤ x.mant := by simp only [mant, hb, Bool.false_eq_true, if_false]; omega
    unfold absRat
    simp only []
    rw [if_pos hp]
    simp only [Nat.mul_one]
    have : 1 ≤ 2 ^ x.exp2.toNat := Nat.two_pow_pos _
    calc 10 ^ 6 ≤ 2 ^ 52 * 1 := by decide
      _ ≤ x.mant * 2 ^ x.exp2.toNat := Nat.mul_le_mul hm52 this
  have hA : absRat x = (x.mant, 2 ^ (-x.exp2).toNat) := by
    unfold absRat; simp only []; rw [if_neg hneg]
  have hmod : x.mant % 2 ^ (-x.exp2).toNat = 0 := by
    unfold isWhole at hw
    simp only [hf, Bool.true_and] at hw
    rw [if_neg hneg] at hw
    simpa using hw
  rw [hA] at hloop hexact hsm ⊢
  simp only [] at hloop hexact hsm ⊢
  generalize hT : 2 ^ (-x.exp2).toNat = T at *
  have hT0 : 0 < T := by rw [← hT]; exact Nat.two_pow_pos _
  obtain ⟨N, hN⟩ : ∃ N, x.mant = N * T := ⟨x.mant / T, by
    have := Nat.div_add_mod x.mant T
    rw [hmod, Nat.add_zero, Nat.mul_comm] at this; exact this.symm⟩
  generalize x.mant = M at *
  subst hN
  have hN0 : 0 < N := Nat.pos_of_mul_pos_right hm
  have hN6 : N < 10 ^ 6 := by
    apply Nat.lt_of_not_ge
    intro hge
    exact hsm (Nat.mul_le_mul_right _ hge)
  have hdiv : N * T / T = N := Nat.mul_div_cancel _ hT0
  have hge : N * T ≥ T := by
    calc T = 1 * T := (Nat.one_mul _).symm
      _ ≤ N * T := Nat.mul_le_mul_right _ hN0
  -- the decimal exponent
  have hE : decExp (N * T) T = (decLen N : Int) - 1 := by
    unfold decExp; rw [if_pos hge, hdiv]
  have hL1 := SVP.decLen_pos N
  have hL6 : decLen N ≤ 6 := SVP.decLen_le 5 N hN6
  -- the attempt at precision `decLen N` succeeds with the exact value
  have hk : (decLen N : Int) - 1 - (((decLen N : Nat) : Int) - 1) = 0 := by omega
  have htry : tryPrec x.abs.bits (N * T) T ((decLen N : Int) - 1) (decLen N) = some N := by
    unfold tryPrec
    simp only [hk]
    have e0 : (0 : Int).toNat = 0 := rfl
    have ge0 : (0 : Int) ≥ 0 := by decide
    simp only [ge0, if_true, e0, Nat.pow_zero, Nat.mul_one, hdiv, Nat.mul_mod_left]
    have hb : roundPos N 1 = some x.abs.bits := by
      rw [← hexact]
      exact roundPos_ratio _ _ _ _ Nat.one_pos hT0 (by simp)
    simp [hb]
  obtain ⟨c', p', hl, hle⟩ := shortestLoop_min x.abs.bits (N * T) T ((decLen N : Int) - 1) 17 1
    (decLen N) N hL1 (by omega) htry
  rw [hE] at hloop ⊢
  rw [hl] at hloop
  injection hloop with hloop
  injection hloop with _ hp
  omega

/-! ### the serialised text of a non-zero value -/

theorem not_nan_inf (x : F64) (hf : x.isFinite = true) : x.isNaN = false ∧ x.isInf = false := by
  have : x.expBits ≠ 2047 := by simpa [isFinite] using hf
  simp [isNaN, isInf, this]

theorem fmtE_eq (x : F64) (hf : x.isFinite = true) (hz : x.isZero = false) (h : Nat) (tl : List Nat)
    (E : Int) (hs : shortest x = (h :: tl, E)) :
    fmtE x = (if x.signBit then ['-'] else []) ++ [digitChar h] ++
        (if tl.isEmpty then [] else '.' :: tl.map digitChar) ++ ['e'] ++
        (if E < 0 then ['-'] else ['+']) ++
        (if (natToStr E.natAbs).length < 2 then '0' :: natToStr E.natAbs else natToStr E.natAbs) := by
  obtain ⟨h1, h2⟩ := not_nan_inf x hf
  unfold fmtE
  simp only [h1, h2, hz, hs, Bool.false_eq_true, if_false, List.drop_succ_cons, List.drop_zero]

theorem fmtF_eq_pos (x : F64) (hf : x.isFinite = true) (hz : x.isZero = false) (ds : List Nat)
    (E : Int) (hs : shortest x = (ds, E)) (hE : E ≥ 0) :
    fmtF x = (if x.signBit then ['-'] else []) ++
        ((ds.take (E.toNat + 1)) ++ List.replicate (E.toNat + 1 - ds.length) 0).map digitChar ++
        (if (ds.drop (E.toNat + 1)).isEmpty then []
          else '.' :: (ds.drop (E.toNat + 1)).map digitChar) := by
  obtain ⟨h1, h2⟩ := not_nan_inf x hf
  unfold fmtF
  simp only [h1, h2, hz, hs, Bool.false_eq_true, if_false, hE, if_true]

theorem fmtF_eq_neg (x : F64) (hf : x.isFinite = true) (hz : x.isZero = false) (ds : List Nat)
    (E : Int) (hs : shortest x = (ds, E)) (hE : ¬ E ≥ 0) :
    fmtF x = (if x.signBit then ['-'] else []) ++ ['0', '.'] ++
        List.replicate ((-E).toNat - 1) '0' ++ ds.map digitChar := by
  obtain ⟨h1, h2⟩ := not_nan_inf x hf
  unfold fmtF
  simp only [h1, h2, hz, hs, Bool.false_eq_true, if_false, hE]

/-! ### zeros -/

theorem strict_zero (x : F64) (hz : x.isZero = true) :
    Strict.number (serF x) = some (some (.float x), []) := by
  have hab : x.abs.bits.toNat = 0 := by
    have := abs_bits_fields x
    simp only [isZero, Bool.and_eq_true, beq_iff_eq] at hz
    rw [hz.1, hz.2] at this; omega
  have ha : x.abs = posZero := by
    cases hx : x.abs with
    | mk b =>
      rw [hx] at hab
      show F64.mk b = F64.mk 0
      congr 1
      exact UInt64.toNat_inj.1 hab
  have hx := withSign_abs x
  rw [ha] at hx
  cases hs : x.signBit
  · rw [hs] at hx
    rw [← hx]
    have e : serF (withSign false posZero) = ['0', '.', '0'] := by decide +kernel
    rw [e]; rfl
  · rw [hs] at hx
    rw [← hx]
    have e : serF (withSign true posZero) = ['-', '0', '.', '0'] := by decide +kernel
    rw [e]; rfl

/-! ### the main statement -/

theorem strict_nonzero (x : F64) (hf : x.isFinite = true) (hz : x.isZero = false) (c p : Nat)
    (hp1 : 1 ≤ p)
    (hloop : shortestLoop x.abs.bits (absRat x).1 (absRat x).2
      (decExp (absRat x).1 (absRat x).2) 17 1 = some (c, p))
    (htry : tryPrec x.abs.bits (absRat x).1 (absRat x).2
      (decExp (absRat x).1 (absRat x).2) p = some c) :
    Strict.number (serF x) = some (some (.float x), []) := by
  obtain ⟨hc1, hc2⟩ := cand_bounds x hf hz c p hp1 htry
  obtain ⟨hEb1, hEb2⟩ := decExp_bounds_fin x hf
  have hback := tryPrec_back _ _ _ _ _ _ htry
  obtain ⟨h, tl, z, hds, hh0, hh, htl, hval, hexp, hlen, hlenEq⟩ :=
    digits_of_cand c p (decExp (absRat x).1 (absRat x).2) hp1 hc1 hc2
  -- what `shortest` returns
  have hsh : shortest x = (h :: tl,
      if (natDigits c).length > p then decExp (absRat x).1 (absRat x).2 + 1
      else decExp (absRat x).1 (absRat x).2) := by
    unfold shortest
    simp only [hloop]
    rw [← hds]; rfl
  generalize hE : decExp (absRat x).1 (absRat x).2 = E at *
  generalize hE' : (if (natDigits c).length > p then E + 1 else E) = E' at *
  have hE'b : E ≤ E' ∧ E' ≤ E + 1 := by rw [← hE']; split <;> omega
  have hE'eq : E' = E + ((natDigits c).length : Int) - p := by
    rw [← hE', hlenEq]; rw [hlenEq] at hE'; split <;> omega
  -- the rounding fact in the reader's form
  have hr : roundPos (decRat (dvalN (h :: tl) 0) (E' - tl.length)).1
      (decRat (dvalN (h :: tl) 0) (E' - tl.length)).2 = some x.abs.bits := by
    rw [hexp, roundPos_decRat_shift _ z c _ hval]; exact hback
  have hres : withSign x.signBit ⟨x.abs.bits⟩ = x := withSign_abs x
  obtain ⟨hnan, hinf⟩ := not_nan_inf x hf
  unfold serF
  simp only [hnan, hinf, Bool.false_eq_true, if_false]
  split
  · -- 'e' form
    rw [fmtE_eq x hf hz h tl E' hsh]
    rw [eForm x.signBit h tl E' hh0 hh htl (by omega) (by omega) x.abs.bits hr, hres]
  · rename_i hcond
    simp only [hz, Bool.not_false, Bool.true_and, Bool.or_eq_true, not_or, Bool.not_eq_true] at hcond
    have hsmall := hcond.1
    by_cases hE0 : E' ≥ 0
    · rw [fmtF_eq_pos x hf hz _ E' hsh hE0]
      have hE5 : E ≤ 5 := by
        rw [← hE]
        apply decExp_le_of_lt _ _ 5 (absRat_bounds_fin x hf (N := 342) (D := 359) rfl rfl).2.1
        apply Nat.lt_of_not_ge
        intro hge
        have := (absGePow10_iff x 6).2 hge
        rw [hsmall] at this; cases this
      by_cases hw : x.isWhole = true
      · simp only [hw, if_true]
        have hp := whole_prec x hf hz hw hsmall c p (by rw [hE]; exact hloop)
        rw [hE] at hp
        rw [fFormWhole x.signBit h tl E' hh0 hh htl hE0 (by omega)
          (by simp only [List.length_cons]; omega) x.abs.bits hr, hres]
      · simp only [hw, Bool.false_eq_true, if_false]
        have hlong : E'.toNat + 1 < (h :: tl).length := by
          apply Nat.lt_of_not_ge
          intro hle
          simp only [List.length_cons] at hle
          apply hw
          have e10 : E' - (tl.length : Int) ≥ 0 := by omega
          obtain ⟨j, hj⟩ : ∃ j : Nat, (E' - (tl.length : Int)).toNat = j := ⟨_, rfl⟩
          have hdr : decRat (dvalN (h :: tl) 0) (E' - tl.length) = (dvalN (h :: tl) 0 * 10 ^ j, 1) := by
            unfold decRat; rw [if_pos e10, hj]
          rw [hdr] at hr
          have hb := dvalN_bounds h tl hh0 hh htl
          have hj7 : tl.length + 1 + j ≤ 7 := by omega
          have hlt : dvalN (h :: tl) 0 * 10 ^ j < 10 ^ 7 := by
            calc dvalN (h :: tl) 0 * 10 ^ j < 10 ^ (tl.length + 1) * 10 ^ j :=
                  Nat.mul_lt_mul_of_pos_right hb.2 (SVP.pow10_pos _)
              _ = 10 ^ (tl.length + 1 + j) := by rw [← Nat.pow_add]
              _ ≤ 10 ^ 7 := Nat.pow_le_pow_right (by decide) hj7
          have hpos : 0 < dvalN (h :: tl) 0 * 10 ^ j :=
            Nat.mul_pos (Nat.lt_of_lt_of_le (SVP.pow10_pos _) hb.1) (SVP.pow10_pos _)
          exact isWhole_of_roundPos_int x _ (by omega) (by omega) hr
        rw [fFormFrac x.signBit h tl E' hh0 hh htl hE0 (by omega) hlong x.abs.bits hr, hres]
    · rw [fmtF_eq_neg x hf hz _ E' hsh hE0]
      have hnw : x.isWhole = false := not_whole_of_small x hz (by rw [hE]; omega)
      simp only [hnw, Bool.false_eq_true, if_false]
      rw [fFormSmall x.signBit h tl E' hh0 hh htl (by omega) (by omega) x.abs.bits hr, hres]

end FmtS

/-- the `strict` field of the float-formatting contract, from the success of the digit search -/
theorem strict_of_loopOK (h : LoopOK) :
    ∀ x : F64, x.isFinite = true → Strict.number (serF x) = some (some (.float x), []) := by
  intro x hf
  cases hz : x.isZero
  · obtain ⟨c, p, hp1, _, hloop, htry⟩ := h x hf hz
    exact FmtS.strict_nonzero x hf hz c p hp1 hloop htry
  · exact FmtS.strict_zero x hz

/-- the whole contract (`parse_back` follows from `strict`, `Lemmas/ContractOne.lean`) -/
theorem fmtContract_of_loopOK (h : LoopOK) : FmtContract :=
  FmtContract.of_strict (strict_of_loopOK h)

/-! ### non-vacuity

`LoopOK` speaks about all finite non-zero floats and cannot be exhibited here (it is proved
separately); its body holds by evaluation at sample points: 1.0, 0.1, 1e21, 1e-7, 123456.789,
999999.9999999999, 2^53, the largest finite value, the smallest subnormal, the smallest normal. -/

/-- executable form of the body of `LoopOK` at one float -/
def loopOKAt (x : F64) : Bool :=
  match F64.shortestLoop x.abs.bits (F64.absRat x).1 (F64.absRat x).2
      (F64.decExp (F64.absRat x).1 (F64.absRat x).2) 17 1 with
  | some (c, p) => decide (1 ≤ p) && decide (p ≤ 17) &&
      F64.tryPrec x.abs.bits (F64.absRat x).1 (F64.absRat x).2
        (F64.decExp (F64.absRat x).1 (F64.absRat x).2) p == some c
  | none => false

example : ([F64.one, ⟨0x3FB999999999999A⟩, ⟨0x444B1AE4D6E2EF50⟩, ⟨0x3E7AD7F29ABCAF48⟩,
    ⟨0x40FE240C9FBE76C9⟩, ⟨0x412E847FFFFFFFFF⟩, ⟨0x4340000000000000⟩, F64.maxFinite, ⟨1⟩,
    ⟨0x0010000000000000⟩, ⟨0xC0FE240C9FBE76C9⟩] : List F64).all loopOKAt = true := by
  decide +kernel

end Anytype

#print axioms Anytype.strict_of_loopOK
#print axioms Anytype.fmtContract_of_loopOK
