/-
The strict number reader on the three text shapes `strconv.FormatFloat` produces
(`d.ddde±XX`, `ddd[.ddd]`/`ddd.0`, `0.000ddd`), given the digit list and the decimal exponent.
-/
import Anytype.Lemmas.ContractOne
import Anytype.Lemmas.FmtRound
namespace Anytype
namespace FmtT
open F64 Strict

/-- the fraction `m · 10^e` as `Strict.number` / `parseFloat` hand it to `roundRat` -/
def decRat (m : Nat) (e : Int) : Nat × Nat :=
  if e ≥ 0 then (m * 10 ^ e.toNat, 1) else (m, 10 ^ (-e).toNat)

theorem decRat_snd_pos (m : Nat) (e : Int) : 0 < (decRat m e).2 := by
  unfold decRat; split
  · exact Nat.one_pos
  · exact SVP.pow10_pos _

/-! ### building a number text from its parts -/

theorem takeDigits_pre (ds r : Str) (hd : ∀ c ∈ ds, isDigit c = true)
    (hr : ∀ c t, r = c :: t → isDigit c = false) : takeDigits (ds ++ r) = (ds, r) := by
  induction ds with
  | nil =>
    cases r with
    | nil => rfl
    | cons c t => simp [takeDigits, hr c t rfl]
  | cons c ds ih =>
    simp only [List.cons_append, takeDigits, hd c (by simp), if_true,
      ih (fun d h => hd d (by simp [h]))]

theorem signSplit_build (neg : Bool) (d0 : Char) (X : Str) (h : isDigit d0 = true) :
    signSplit ((if neg then ['-'] else []) ++ d0 :: X) = (neg, d0 :: X) := by
  cases neg
  · have hne : d0 ≠ '-' := SVP.digit_ne h (Or.inl (by decide))
    simp only [Bool.false_eq_true, if_false, List.nil_append]
    unfold signSplit; split
    · rename_i h1; simp at h1; exact absurd h1.1 hne
    · rfl
  · rfl

theorem fracSplit_build (fp et : Str) (hasFrac : Bool) (hfp : ∀ c ∈ fp, isDigit c = true)
    (hnf : hasFrac = false → fp = [])
    (het : ∀ c t, et = c :: t → isDigit c = false ∧ c ≠ '.') :
    fracSplit ((if hasFrac then '.' :: fp else []) ++ et) = (fp, et, hasFrac) := by
  cases hasFrac with
  | true =>
    simp only [if_true, List.cons_append, fracSplit,
      takeDigits_pre fp et hfp (fun c t h => (het c t h).1)]
  | false =>
    rw [hnf rfl]
    simp only [Bool.false_eq_true, if_false, List.nil_append]
    unfold fracSplit; split
    · rename_i t; exact absurd rfl (het '.' t rfl).2
    · rfl

theorem number'_build (neg : Bool) (d0 : Char) (more fp : Str) (hasFrac : Bool) (et : Str)
    (ex : Option Int)
    (hip : ∀ c ∈ d0 :: more, isDigit c = true) (hz : d0 = '0' → more = [])
    (hfp : ∀ c ∈ fp, isDigit c = true) (hfrac : hasFrac = true → fp ≠ [])
    (hnf : hasFrac = false → fp = [])
    (het : ∀ c t, et = c :: t → isDigit c = false ∧ c ≠ '.')
    (hex : expSplit et = some (ex, [])) :
    number' (SVP.numText neg (d0 :: more) fp hasFrac et) =
      numFinal neg (d0 :: more) fp hasFrac ex [] := by
  have ht : SVP.numText neg (d0 :: more) fp hasFrac et =
      (if neg then ['-'] else []) ++ d0 :: (more ++ ((if hasFrac then '.' :: fp else []) ++ et)) := by
    simp [SVP.numText]
  have hstop : ∀ c t, ((if hasFrac then '.' :: fp else []) ++ et) = c :: t → isDigit c = false := by
    intro c t h
    cases hasFrac with
    | true => simp at h; rw [← h.1]; decide
    | false => simp at h; exact (het c t h).1
  have h1 := signSplit_build neg d0 (more ++ ((if hasFrac then '.' :: fp else []) ++ et))
    (hip d0 (by simp))
  have h2 : takeDigits (d0 :: (more ++ ((if hasFrac then '.' :: fp else []) ++ et))) =
      (d0 :: more, (if hasFrac then '.' :: fp else []) ++ et) := by
    rw [← List.cons_append]; exact takeDigits_pre _ _ hip hstop
  have h3 := fracSplit_build fp et hasFrac hfp hnf het
  have hz' : (d0 == '0' && !more.isEmpty) = false := by
    by_cases h0 : d0 = '0'
    · rw [hz h0]; simp
    · simp [h0]
  have hf' : (hasFrac && fp.isEmpty) = false := by
    cases hasFrac with
    | false => rfl
    | true =>
      have := hfrac rfl
      cases fp with
      | nil => contradiction
      | cons _ _ => rfl
  unfold number'
  rw [ht]
  simp only [h1, h2, h3, hz', hf', hex, Bool.false_eq_true, if_false]

/-- the float branch of `numFinal` with both exponent guards passed -/
theorem numFinal_val (neg : Bool) (ip fp : Str) (hasFrac : Bool) (ex : Option Int)
    (h : (!hasFrac && ex.isNone) = false) (m : Nat) (hm : digitsVal (ip ++ fp) = m) (hm0 : m ≠ 0)
    (e10 : Int) (he : ex.getD 0 - (fp.length : Int) = e10)
    (hg1 : ¬ e10 + (decLen m : Int) > 400) (hg2 : ¬ e10 + (decLen m : Int) < -400)
    (b : UInt64) (hr : roundPos (decRat m e10).1 (decRat m e10).2 = some b) :
    numFinal neg ip fp hasFrac ex [] = some (some (.float (withSign neg ⟨b⟩)), []) := by
  unfold numFinal
  simp only [h, hm, he, Bool.false_eq_true, if_false]
  have hm0' : (m == 0) = false := by simpa using hm0
  rw [hm0']
  simp only [Bool.false_eq_true, if_false]
  rw [if_neg hg1, if_neg hg2]
  unfold decRat at hr
  by_cases hp : e10 ≥ 0
  · rw [if_pos hp] at hr ⊢
    simp only [roundRat, hr, Option.map_some]
  · rw [if_neg hp] at hr ⊢
    simp only [roundRat, hr, Option.map_some]

/-! ### digits -/

theorem digitChar_spec : ∀ d, d < 10 → isDigit (digitChar d) = true ∧ (digitChar d).toNat = d + 48 := by
  decide

theorem digitChar_ne_zero : ∀ d, d < 10 → d ≠ 0 → digitChar d ≠ '0' := by decide

theorem digitChar_zero : digitChar 0 = '0' := by decide

/-- value of a digit list, started at `x` -/
def dvalN (ds : List Nat) (x : Nat) : Nat := ds.foldl (fun n d => n * 10 + d) x

theorem dvalN_cons (d : Nat) (ds : List Nat) (x : Nat) : dvalN (d :: ds) x = dvalN ds (x * 10 + d) := rfl

theorem dvalN_append (a b : List Nat) (x : Nat) : dvalN (a ++ b) x = dvalN b (dvalN a x) := by
  simp [dvalN, List.foldl_append]

theorem dvalN_zeros (z x : Nat) : dvalN (List.replicate z 0) x = x * 10 ^ z := by
  induction z generalizing x with
  | zero => simp [dvalN]
  | succ z ih =>
    rw [List.replicate_succ, dvalN_cons, ih, Nat.pow_succ]
    simp only [Nat.add_zero]
    rw [Nat.mul_assoc, Nat.mul_comm 10]

theorem dval_map (ds : List Nat) (hd : ∀ d ∈ ds, d < 10) (x : Nat) :
    SVP.dval (ds.map digitChar) x = dvalN ds x := by
  induction ds generalizing x with
  | nil => rfl
  | cons d ds ih =>
    rw [List.map_cons, SVP.dval_cons, dvalN_cons, ih (fun e h => hd e (by simp [h])),
      (digitChar_spec d (hd d (by simp))).2]
    simp

theorem map_isDigit (ds : List Nat) (hd : ∀ d ∈ ds, d < 10) :
    ∀ c ∈ ds.map digitChar, isDigit c = true := by
  intro c hc
  obtain ⟨d, hd', rfl⟩ := List.mem_map.1 hc
  exact (digitChar_spec d (hd d hd')).1

theorem dvalN_bounds (h : Nat) (tl : List Nat) (hh0 : h ≠ 0) (hh : h < 10) (htl : ∀ d ∈ tl, d < 10) :
    10 ^ tl.length ≤ dvalN (h :: tl) 0 ∧ dvalN (h :: tl) 0 < 10 ^ (tl.length + 1) := by
  rw [dvalN_cons, ← dval_map tl htl]
  have h1 := SVP.dval_ge (tl.map digitChar) (0 * 10 + h)
  have h2 := SVP.dval_lt (tl.map digitChar) (map_isDigit tl htl) (0 * 10 + h)
  rw [List.length_map] at h1 h2
  simp only [Nat.zero_mul, Nat.zero_add] at h1 h2 ⊢
  have h3 : 1 * 10 ^ tl.length ≤ h * 10 ^ tl.length := Nat.mul_le_mul_right _ (by omega)
  have h4 : (h + 1) * 10 ^ tl.length ≤ 10 * 10 ^ tl.length := Nat.mul_le_mul_right _ (by omega)
  rw [Nat.pow_succ]
  omega

theorem decLen_ge (k : Nat) : ∀ m, 10 ^ k ≤ m → k + 1 ≤ decLen m := by
  induction k with
  | zero => intro m _; exact SVP.decLen_pos m
  | succ k ih =>
    intro m h
    have h10 : 10 ≤ m := by
      have : 10 ^ 1 ≤ 10 ^ (k + 1) := Nat.pow_le_pow_right (by decide) (by omega)
      omega
    have hk : 10 ^ k ≤ m / 10 := by
      rw [Nat.pow_succ] at h
      rw [Nat.le_div_iff_mul_le (by decide)]; exact h
    have := ih _ hk
    unfold decLen at this ⊢
    rw [Nat.toDigits_of_base_le (by decide) h10, List.length_append]
    simp
    omega

theorem decLen_eq (k m : Nat) (h1 : 10 ^ k ≤ m) (h2 : m < 10 ^ (k + 1)) : decLen m = k + 1 :=
  Nat.le_antisymm (SVP.decLen_le k m h2) (decLen_ge k m h1)

/-! ### the exponent text of the 'e' form -/

theorem natToStr_isDigit (n : Nat) : ∀ c ∈ natToStr n, isDigit c = true :=
  fun c hc => isDigit_of_dig c (mem_toDigits_dig hc)

/-- the exponent part `e±XX` -/
def expText (E : Int) : Str :=
  ['e'] ++ (if E < 0 then ['-'] else ['+']) ++
    (if (natToStr E.natAbs).length < 2 then '0' :: natToStr E.natAbs else natToStr E.natAbs)

theorem expSplit_expText (E : Int) (hE : E.natAbs < 1000) :
    expSplit (expText E) = some (some E, []) := by
  obtain ⟨en, hen⟩ : ∃ en, en = (if (natToStr E.natAbs).length < 2 then '0' :: natToStr E.natAbs
      else natToStr E.natAbs) := ⟨_, rfl⟩
  have hd : ∀ c ∈ en, isDigit c = true := by
    intro c hc
    rw [hen] at hc
    split at hc
    · rcases List.mem_cons.1 hc with rfl | h
      · decide
      · exact natToStr_isDigit _ c h
    · exact natToStr_isDigit _ c hc
  have hlen0 : (natToStr E.natAbs).length ≤ 3 :=
    COne.decLen_le_of_lt (m := E.natAbs) (k := 3) (by decide) hE
  have hlen : en.length ≤ 4 := by
    rw [hen]; split
    · simp only [List.length_cons]; omega
    · omega
  have hne : en ≠ [] := by
    rw [hen]; split
    · simp
    · exact Nat.toDigits_ne_nil
  have hval : digitsVal en = E.natAbs := by
    rw [hen]; split
    · rw [SVP.digitsVal_eq_dval, SVP.dval_cons]
      exact digitsVal_toDigits _
    · exact digitsVal_toDigits _
  have hsig : (en.dropWhile (· == '0')).length ≤ 6 :=
    Nat.le_trans (List.dropWhile_sublist _).length_le (by omega)
  have hcap : ((if (en.dropWhile (· == '0')).length > 6 then 1000000
      else digitsVal (en.dropWhile (· == '0')) : Nat)) = E.natAbs := by
    rw [if_neg (by omega), SVP.digitsVal_eq_dval, SVP.dval_dropZeros, ← SVP.digitsVal_eq_dval, hval]
  have hemp : en.isEmpty = false := by
    cases en with
    | nil => contradiction
    | cons _ _ => rfl
  unfold expText
  rw [← hen]
  simp only [List.cons_append, List.nil_append]
  rw [expSplit_eq 'e' _ (by decide)]
  by_cases hneg : E < 0
  · rw [if_pos hneg]
    have : expSign ('-' :: en) = (-1, en) := rfl
    simp only [List.cons_append, List.nil_append, this, takeDigits_all en hd, hemp,
      Bool.false_eq_true, if_false, hcap]
    congr 3
    omega
  · rw [if_neg hneg]
    have : expSign ('+' :: en) = (1, en) := rfl
    simp only [List.cons_append, List.nil_append, this, takeDigits_all en hd, hemp,
      Bool.false_eq_true, if_false, hcap]
    congr 3
    omega

theorem expText_head (E : Int) : ∀ c t, expText E = c :: t → isDigit c = false ∧ c ≠ '.' := by
  intro c t h
  unfold expText at h
  simp only [List.cons_append, List.nil_append] at h
  injection h with h1 _
  rw [← h1]; exact ⟨by decide, by decide⟩

/-! ### the 'e' form -/

theorem eForm (s : Bool) (h : Nat) (tl : List Nat) (E : Int) (hh0 : h ≠ 0) (hh : h < 10)
    (htl : ∀ d ∈ tl, d < 10) (hE1 : -399 ≤ E) (hE2 : E ≤ 398) (b : UInt64)
    (hr : roundPos (decRat (dvalN (h :: tl) 0) (E - tl.length)).1
      (decRat (dvalN (h :: tl) 0) (E - tl.length)).2 = some b) :
    number ((if s then ['-'] else []) ++ [digitChar h] ++
        (if tl.isEmpty then [] else '.' :: tl.map digitChar) ++ ['e'] ++
        (if E < 0 then ['-'] else ['+']) ++
        (if (natToStr E.natAbs).length < 2 then '0' :: natToStr E.natAbs else natToStr E.natAbs))
      = some (some (.float (withSign s ⟨b⟩)), []) := by
  have htxt : (if s then ['-'] else []) ++ [digitChar h] ++
        (if tl.isEmpty then [] else '.' :: tl.map digitChar) ++ ['e'] ++
        (if E < 0 then ['-'] else ['+']) ++
        (if (natToStr E.natAbs).length < 2 then '0' :: natToStr E.natAbs else natToStr E.natAbs)
      = SVP.numText s (digitChar h :: []) (tl.map digitChar) (!tl.isEmpty) (expText E) := by
    unfold SVP.numText expText
    cases tl with
    | nil => simp
    | cons a t => simp
  have hd0 := digitChar_spec h hh
  have hb := dvalN_bounds h tl hh0 hh htl
  rw [htxt, number_eq, number'_build s (digitChar h) [] (tl.map digitChar) (!tl.isEmpty) (expText E)
    (some E) (by intro c hc; simp at hc; rw [hc]; exact hd0.1) (fun _ => rfl)
    (map_isDigit tl htl)
    (by cases tl <;> simp) (by cases tl <;> simp)
    (expText_head E) (expSplit_expText E (by omega))]
  refine numFinal_val s _ _ _ _ (by simp) (dvalN (h :: tl) 0) ?_ (by omega) (E - tl.length) ?_ ?_ ?_
    b hr
  · rw [SVP.digitsVal_eq_dval, ← dval_map (h :: tl) (by
      intro d hd; rcases List.mem_cons.1 hd with rfl | hd
      · exact hh
      · exact htl d hd)]
    rfl
  · simp
  · rw [decLen_eq tl.length _ hb.1 hb.2]; omega
  · rw [decLen_eq tl.length _ hb.1 hb.2]; omega

/-! ### the 'f' form, exponent ≥ 0, with a fractional part -/

theorem fFormFrac (s : Bool) (h : Nat) (tl : List Nat) (E : Int) (hh0 : h ≠ 0) (hh : h < 10)
    (htl : ∀ d ∈ tl, d < 10) (hE0 : 0 ≤ E) (hE2 : E ≤ 398) (hlen : E.toNat + 1 < (h :: tl).length)
    (b : UInt64)
    (hr : roundPos (decRat (dvalN (h :: tl) 0) (E - tl.length)).1
      (decRat (dvalN (h :: tl) 0) (E - tl.length)).2 = some b) :
    number ((if s then ['-'] else []) ++
        (((h :: tl).take (E.toNat + 1)) ++ List.replicate (E.toNat + 1 - (h :: tl).length) 0).map digitChar ++
        (if ((h :: tl).drop (E.toNat + 1)).isEmpty then []
          else '.' :: ((h :: tl).drop (E.toNat + 1)).map digitChar))
      = some (some (.float (withSign s ⟨b⟩)), []) := by
  have hall : ∀ d ∈ h :: tl, d < 10 := by
    intro d hd; rcases List.mem_cons.1 hd with rfl | hd
    · exact hh
    · exact htl d hd
  have hz : E.toNat + 1 - (h :: tl).length = 0 := by omega
  have hdrop : ((h :: tl).drop (E.toNat + 1)).isEmpty = false := by
    rw [List.isEmpty_eq_false_iff, ne_eq, List.drop_eq_nil_iff]; omega
  have htxt : (if s then ['-'] else []) ++
        (((h :: tl).take (E.toNat + 1)) ++ List.replicate (E.toNat + 1 - (h :: tl).length) 0).map digitChar ++
        (if ((h :: tl).drop (E.toNat + 1)).isEmpty then []
          else '.' :: ((h :: tl).drop (E.toNat + 1)).map digitChar)
      = SVP.numText s (digitChar h :: (tl.take E.toNat).map digitChar)
          ((tl.drop E.toNat).map digitChar) true [] := by
    rw [hz, hdrop]
    simp [SVP.numText]
  have hd0 := digitChar_spec h hh
  have hb := dvalN_bounds h tl hh0 hh htl
  have hfpne : (tl.drop E.toNat).map digitChar ≠ [] := by
    simp only [List.length_cons] at hlen
    rw [ne_eq, List.map_eq_nil_iff, List.drop_eq_nil_iff]; omega
  rw [htxt, number_eq, number'_build s (digitChar h) _ _ true [] none
    (by
      intro c hc
      rcases List.mem_cons.1 hc with rfl | hc
      · exact hd0.1
      · exact map_isDigit _ (fun d hd => htl d (List.mem_of_mem_take hd)) c hc)
    (fun h0 => absurd h0 (digitChar_ne_zero h hh hh0))
    (map_isDigit _ (fun d hd => htl d (List.mem_of_mem_drop hd)))
    (fun _ => hfpne) (by simp) (by simp) rfl]
  refine numFinal_val s _ _ _ _ (by simp) (dvalN (h :: tl) 0) ?_ (by omega) (E - tl.length) ?_ ?_ ?_
    b hr
  · rw [SVP.digitsVal_eq_dval, ← dval_map (h :: tl) hall]
    congr 1
    rw [List.map_cons, List.cons_append, ← List.map_append, List.take_append_drop]
  · simp only [List.length_cons] at hlen
    simp only [Option.getD_none, List.length_map, List.length_drop]
    omega
  · rw [decLen_eq tl.length _ hb.1 hb.2]; omega
  · rw [decLen_eq tl.length _ hb.1 hb.2]; omega

/-! ### the 'f' form, exponent ≥ 0, whole value: `ddd000.0` -/

theorem fFormWhole (s : Bool) (h : Nat) (tl : List Nat) (E : Int) (hh0 : h ≠ 0) (hh : h < 10)
    (htl : ∀ d ∈ tl, d < 10) (hE0 : 0 ≤ E) (hE2 : E ≤ 398) (hlen : (h :: tl).length ≤ E.toNat + 1)
    (b : UInt64)
    (hr : roundPos (decRat (dvalN (h :: tl) 0) (E - tl.length)).1
      (decRat (dvalN (h :: tl) 0) (E - tl.length)).2 = some b) :
    number ((if s then ['-'] else []) ++
        (((h :: tl).take (E.toNat + 1)) ++ List.replicate (E.toNat + 1 - (h :: tl).length) 0).map digitChar ++
        (if ((h :: tl).drop (E.toNat + 1)).isEmpty then []
          else '.' :: ((h :: tl).drop (E.toNat + 1)).map digitChar) ++ ['.', '0'])
      = some (some (.float (withSign s ⟨b⟩)), []) := by
  have hall : ∀ d ∈ h :: tl, d < 10 := by
    intro d hd; rcases List.mem_cons.1 hd with rfl | hd
    · exact hh
    · exact htl d hd
  simp only [List.length_cons] at hlen
  obtain ⟨z, hzd⟩ : ∃ z, E.toNat + 1 - (h :: tl).length = z := ⟨_, rfl⟩
  have hzE : E.toNat = tl.length + z := by simp only [List.length_cons] at hzd; omega
  have hdrop : ((h :: tl).drop (E.toNat + 1)).isEmpty = true := by
    rw [List.isEmpty_iff, List.drop_eq_nil_iff]; simp only [List.length_cons]; omega
  have htake : (h :: tl).take (E.toNat + 1) = h :: tl := by
    rw [List.take_of_length_le]; simp only [List.length_cons]; omega
  have htxt : (if s then ['-'] else []) ++
        (((h :: tl).take (E.toNat + 1)) ++ List.replicate (E.toNat + 1 - (h :: tl).length) 0).map digitChar ++
        (if ((h :: tl).drop (E.toNat + 1)).isEmpty then []
          else '.' :: ((h :: tl).drop (E.toNat + 1)).map digitChar) ++ ['.', '0']
      = SVP.numText s (digitChar h :: (tl ++ List.replicate z 0).map digitChar) ['0'] true [] := by
    rw [hzd, hdrop, htake]
    simp [SVP.numText]
  have hd0 := digitChar_spec h hh
  have hb := dvalN_bounds h tl hh0 hh htl
  have hmore : ∀ d ∈ tl ++ List.replicate z 0, d < 10 := by
    intro d hd
    rcases List.mem_append.1 hd with hd | hd
    · exact htl d hd
    · rw [List.mem_replicate] at hd; omega
  -- the mantissa the reader sees
  have hmval : digitsVal ((digitChar h :: (tl ++ List.replicate z 0).map digitChar) ++ ['0']) =
      dvalN (h :: tl) 0 * 10 ^ (z + 1) := by
    have e1 : (digitChar h :: (tl ++ List.replicate z 0).map digitChar) ++ ['0'] =
        ((h :: tl) ++ List.replicate (z + 1) 0).map digitChar := by
      rw [List.replicate_succ']
      simp [digitChar_zero]
    rw [e1, SVP.digitsVal_eq_dval, dval_map _ (by
      intro d hd
      rcases List.mem_append.1 hd with hd | hd
      · exact hall d hd
      · rw [List.mem_replicate] at hd; omega), dvalN_append, dvalN_zeros]
  have hp : 0 < 10 ^ (z + 1) := SVP.pow10_pos _
  have hm1 : 10 ^ (tl.length + (z + 1)) ≤ dvalN (h :: tl) 0 * 10 ^ (z + 1) := by
    rw [Nat.pow_add]; exact Nat.mul_le_mul_right _ hb.1
  have hm2 : dvalN (h :: tl) 0 * 10 ^ (z + 1) < 10 ^ (tl.length + (z + 1) + 1) := by
    have := Nat.mul_lt_mul_of_pos_right hb.2 hp
    rw [← Nat.pow_add] at this
    have e : tl.length + 1 + (z + 1) = tl.length + (z + 1) + 1 := by omega
    rw [e] at this; exact this
  have hdl := decLen_eq _ _ hm1 hm2
  -- the fraction handed to `roundPos`
  have hr' : roundPos (decRat (dvalN (h :: tl) 0 * 10 ^ (z + 1)) (-1)).1
      (decRat (dvalN (h :: tl) 0 * 10 ^ (z + 1)) (-1)).2 = some b := by
    rw [← hr]
    apply FmtR.roundPos_ratio _ _ _ _ (decRat_snd_pos _ _) (decRat_snd_pos _ _)
    have e1 : decRat (dvalN (h :: tl) 0 * 10 ^ (z + 1)) (-1) = (dvalN (h :: tl) 0 * 10 ^ (z + 1), 10 ^ 1) := by
      unfold decRat; rw [if_neg (by omega)]; rfl
    have e2 : decRat (dvalN (h :: tl) 0) (E - tl.length) = (dvalN (h :: tl) 0 * 10 ^ z, 1) := by
      unfold decRat
      have : (E - (tl.length : Int)).toNat = z := by omega
      rw [if_pos (by omega), this]
    rw [e1, e2]
    simp only []
    rw [Nat.pow_succ]
    simp only [Nat.pow_one, Nat.mul_one, Nat.mul_assoc]
  rw [htxt, number_eq, number'_build s (digitChar h) _ ['0'] true [] none
    (by
      intro c hc
      rcases List.mem_cons.1 hc with rfl | hc
      · exact hd0.1
      · exact map_isDigit _ hmore c hc)
    (fun h0 => absurd h0 (digitChar_ne_zero h hh hh0))
    (by intro c hc; simp at hc; rw [hc]; decide)
    (by simp) (by simp) (by simp) rfl]
  have hm0 : dvalN (h :: tl) 0 * 10 ^ (z + 1) ≠ 0 := by
    have : 0 < 10 ^ (tl.length + (z + 1)) := SVP.pow10_pos _
    omega
  refine numFinal_val s _ _ _ _ (by simp) _ hmval hm0 (-1) (by simp) ?_ ?_ b hr'
  · rw [hdl]; omega
  · rw [hdl]; omega

/-! ### the 'f' form, exponent < 0: `0.000ddd` -/

theorem fFormSmall (s : Bool) (h : Nat) (tl : List Nat) (E : Int) (hh0 : h ≠ 0) (hh : h < 10)
    (htl : ∀ d ∈ tl, d < 10) (hE0 : E < 0) (hE1 : -399 ≤ E) (b : UInt64)
    (hr : roundPos (decRat (dvalN (h :: tl) 0) (E - tl.length)).1
      (decRat (dvalN (h :: tl) 0) (E - tl.length)).2 = some b) :
    number ((if s then ['-'] else []) ++ ['0', '.'] ++ List.replicate ((-E).toNat - 1) '0' ++
        (h :: tl).map digitChar)
      = some (some (.float (withSign s ⟨b⟩)), []) := by
  have hall : ∀ d ∈ h :: tl, d < 10 := by
    intro d hd; rcases List.mem_cons.1 hd with rfl | hd
    · exact hh
    · exact htl d hd
  obtain ⟨z, hz⟩ : ∃ z, (-E).toNat - 1 = z := ⟨_, rfl⟩
  have htxt : (if s then ['-'] else []) ++ ['0', '.'] ++ List.replicate ((-E).toNat - 1) '0' ++
        (h :: tl).map digitChar
      = SVP.numText s ('0' :: []) (List.replicate z '0' ++ (h :: tl).map digitChar) true [] := by
    rw [hz]
    simp [SVP.numText]
  have hb := dvalN_bounds h tl hh0 hh htl
  have hzeros : ∀ c ∈ List.replicate z '0', isDigit c = true := by
    intro c hc; rw [List.mem_replicate] at hc; rw [hc.2]; decide
  rw [htxt, number_eq, number'_build s '0' [] _ true [] none
    (by intro c hc; simp at hc; rw [hc]; decide) (fun _ => rfl)
    (by
      intro c hc
      rcases List.mem_append.1 hc with hc | hc
      · exact hzeros c hc
      · exact map_isDigit _ hall c hc)
    (by simp) (by simp) (by simp) rfl]
  refine numFinal_val s _ _ _ _ (by simp) (dvalN (h :: tl) 0) ?_ (by omega) (E - tl.length) ?_ ?_ ?_
    b hr
  · have e1 : ['0'] ++ (List.replicate z '0' ++ (h :: tl).map digitChar) =
        (List.replicate (z + 1) 0 ++ (h :: tl)).map digitChar := by
      rw [List.replicate_succ]
      simp [digitChar_zero]
    rw [e1, SVP.digitsVal_eq_dval, dval_map _ (by
      intro d hd
      rcases List.mem_append.1 hd with hd | hd
      · rw [List.mem_replicate] at hd; omega
      · exact hall d hd), dvalN_append, dvalN_zeros]
    simp
  · simp only [Option.getD_none, List.length_append, List.length_replicate, List.length_map,
      List.length_cons]
    omega
  · rw [decLen_eq tl.length _ hb.1 hb.2]; omega
  · rw [decLen_eq tl.length _ hb.1 hb.2]; omega

end FmtT
end Anytype
