/-
Basic lemmas about the heap model: get/set/alloc, and the frame ("only appends, only
touches the target cell") lemmas for `parseVal` / `addEach` / `setEach`.
-/
import Anytype.Model.ListOps
namespace Anytype

/-- what `setItems`/`setFields` never change in a cell: its kind and its ego level -/
def Cell.shape : Cell → Bool × Nat
  | .list _ e => (true, e)
  | .obj _ e => (false, e)

namespace Heap

/-! ### `isList` / `isObj` characterisations -/

theorem isList_iff {h : Heap} {a : Nat} : h.isList a = true ↔ ∃ xs e, h[a]? = some (.list xs e) := by
  unfold isList
  split
  · next xs e he => simp [he]
  · next hne =>
    constructor
    · intro x; cases x
    · rintro ⟨xs, e, he⟩; exact absurd he (hne xs e)

theorem isObj_iff {h : Heap} {a : Nat} : h.isObj a = true ↔ ∃ kvs e, h[a]? = some (.obj kvs e) := by
  unfold isObj
  split
  · next xs e he => simp [he]
  · next hne =>
    constructor
    · intro x; cases x
    · rintro ⟨xs, e, he⟩; exact absurd he (hne xs e)

theorem isList_lt {h : Heap} {a : Nat} (hl : h.isList a = true) : a < h.length := by
  obtain ⟨xs, e, he⟩ := isList_iff.1 hl
  exact (List.getElem?_eq_some_iff.1 he).1

theorem isObj_lt {h : Heap} {a : Nat} (hl : h.isObj a = true) : a < h.length := by
  obtain ⟨xs, e, he⟩ := isObj_iff.1 hl
  exact (List.getElem?_eq_some_iff.1 he).1

theorem getElem?_of_isList {h : Heap} {a : Nat} (hl : h.isList a = true) :
    h[a]? = some (.list (h.items a) (h.ego a)) := by
  obtain ⟨xs, e, he⟩ := isList_iff.1 hl
  simp [items, ego, he]

theorem getElem?_of_isObj {h : Heap} {a : Nat} (hl : h.isObj a = true) :
    h[a]? = some (.obj (h.fields a) (h.ego a)) := by
  obtain ⟨xs, e, he⟩ := isObj_iff.1 hl
  simp [fields, ego, he]

theorem isObj_false_of_isList {h : Heap} {a : Nat} (hl : h.isList a = true) : h.isObj a = false := by
  obtain ⟨xs, e, he⟩ := isList_iff.1 hl
  simp [isObj, he]

theorem isList_false_of_isObj {h : Heap} {a : Nat} (hl : h.isObj a = true) : h.isList a = false := by
  obtain ⟨xs, e, he⟩ := isObj_iff.1 hl
  simp [isList, he]

/-- everything observable about cell `b` depends only on `h[b]?` -/
theorem items_congr {h h' : Heap} {b b' : Nat} (e : h'[b']? = h[b]?) : h'.items b' = h.items b := by
  simp [items, e]
theorem fields_congr {h h' : Heap} {b b' : Nat} (e : h'[b']? = h[b]?) : h'.fields b' = h.fields b := by
  simp [fields, e]
theorem ego_congr {h h' : Heap} {b b' : Nat} (e : h'[b']? = h[b]?) : h'.ego b' = h.ego b := by
  simp [ego, e]
theorem isList_congr {h h' : Heap} {b b' : Nat} (e : h'[b']? = h[b]?) : h'.isList b' = h.isList b := by
  simp [isList, e]
theorem isObj_congr {h h' : Heap} {b b' : Nat} (e : h'[b']? = h[b]?) : h'.isObj b' = h.isObj b := by
  simp [isObj, e]

/-- ego / isList / isObj depend only on the shape -/
theorem ego_of_shape {h h' : Heap} {b : Nat} (e : (h'[b]?).map Cell.shape = (h[b]?).map Cell.shape) :
    h'.ego b = h.ego b := by
  unfold ego
  cases h1 : h'[b]? <;> cases h2 : h[b]? <;> simp [h1, h2] at e ⊢
  next c c' => cases c <;> cases c' <;> simp_all [Cell.shape]
theorem isList_of_shape {h h' : Heap} {b : Nat} (e : (h'[b]?).map Cell.shape = (h[b]?).map Cell.shape) :
    h'.isList b = h.isList b := by
  unfold isList
  cases h1 : h'[b]? <;> cases h2 : h[b]? <;> simp [h1, h2] at e ⊢
  next c c' => cases c <;> cases c' <;> simp_all [Cell.shape]
theorem isObj_of_shape {h h' : Heap} {b : Nat} (e : (h'[b]?).map Cell.shape = (h[b]?).map Cell.shape) :
    h'.isObj b = h.isObj b := by
  unfold isObj
  cases h1 : h'[b]? <;> cases h2 : h[b]? <;> simp [h1, h2] at e ⊢
  next c c' => cases c <;> cases c' <;> simp_all [Cell.shape]

/-! ### `setItems` -/

@[simp] theorem length_setItems (h : Heap) (a : Nat) (xs : List Val) :
    (h.setItems a xs).length = h.length := by
  unfold setItems; split <;> simp

theorem getElem?_setItems_ne (h : Heap) {a b : Nat} (xs : List Val) (hne : b ≠ a) :
    (h.setItems a xs)[b]? = h[b]? := by
  unfold setItems; split
  · rw [List.getElem?_set_ne]; omega
  · rfl

theorem getElem?_setItems_self {h : Heap} {a : Nat} (xs : List Val) (hl : h.isList a = true) :
    (h.setItems a xs)[a]? = some (.list xs (h.ego a)) := by
  obtain ⟨ys, e, he⟩ := isList_iff.1 hl
  have hlt := (List.getElem?_eq_some_iff.1 he).1
  simp only [setItems, ego, he]
  simp [hlt]

theorem setItems_of_not_isList {h : Heap} {a : Nat} (xs : List Val) (hl : h.isList a = false) :
    h.setItems a xs = h := by
  unfold setItems; split
  · next ys e he => simp [isList, he] at hl
  · rfl

theorem shape_setItems (h : Heap) (a b : Nat) (xs : List Val) :
    ((h.setItems a xs)[b]?).map Cell.shape = (h[b]?).map Cell.shape := by
  by_cases hne : b = a
  · subst hne
    cases hl : h.isList b
    · rw [setItems_of_not_isList _ hl]
    · rw [getElem?_setItems_self _ hl, getElem?_of_isList hl]; rfl
  · rw [getElem?_setItems_ne _ _ hne]

@[simp] theorem ego_setItems (h : Heap) (a b : Nat) (xs : List Val) : (h.setItems a xs).ego b = h.ego b :=
  ego_of_shape (shape_setItems h a b xs)
@[simp] theorem isList_setItems (h : Heap) (a b : Nat) (xs : List Val) :
    (h.setItems a xs).isList b = h.isList b :=
  isList_of_shape (shape_setItems h a b xs)
@[simp] theorem isObj_setItems (h : Heap) (a b : Nat) (xs : List Val) :
    (h.setItems a xs).isObj b = h.isObj b :=
  isObj_of_shape (shape_setItems h a b xs)
@[simp] theorem egoRef_setItems (h : Heap) (a b : Nat) (xs : List Val) :
    (h.setItems a xs).egoRef b = h.egoRef b := by
  simp [egoRef]
@[simp] theorem getVal_setItems (h : Heap) (a : Nat) (xs : List Val) (v : Val) :
    (h.setItems a xs).getVal v = h.getVal v := by
  cases v <;> simp [getVal]

theorem items_setItems_same {h : Heap} {a : Nat} (xs : List Val) (hl : h.isList a = true) :
    (h.setItems a xs).items a = xs := by
  simp [items, getElem?_setItems_self xs hl]

theorem items_setItems_other (h : Heap) {a b : Nat} (xs : List Val) (hne : b ≠ a) :
    (h.setItems a xs).items b = h.items b :=
  items_congr (getElem?_setItems_ne h xs hne)

theorem fields_setItems (h : Heap) (a b : Nat) (xs : List Val) :
    (h.setItems a xs).fields b = h.fields b := by
  by_cases hne : b = a
  · subst hne
    cases hl : h.isList b
    · rw [setItems_of_not_isList _ hl]
    · simp [fields, getElem?_setItems_self xs hl, getElem?_of_isList hl]
  · exact fields_congr (getElem?_setItems_ne h xs hne)

theorem items_of_not_isList {h : Heap} {a : Nat} (hl : h.isList a = false) : h.items a = [] := by
  unfold items; split
  · next ys e he => simp [isList, he] at hl
  · rfl

@[simp] theorem setItems_setItems (h : Heap) (a : Nat) (xs ys : List Val) :
    (h.setItems a xs).setItems a ys = h.setItems a ys := by
  cases hl : h.isList a
  · rw [setItems_of_not_isList _ hl, setItems_of_not_isList _ hl]
  · obtain ⟨zs, e, he⟩ := isList_iff.1 hl
    have hlt := (List.getElem?_eq_some_iff.1 he).1
    simp only [setItems, he]
    simp [hlt]

@[simp] theorem setItems_items_self (h : Heap) (a : Nat) : h.setItems a (h.items a) = h := by
  cases hl : h.isList a
  · rw [setItems_of_not_isList _ hl]
  · obtain ⟨zs, e, he⟩ := isList_iff.1 hl
    have hlt := (List.getElem?_eq_some_iff.1 he).1
    simp only [setItems, items, he]
    apply List.ext_getElem?
    intro i
    by_cases hi : i = a
    · subst hi; rw [he]; simp [hlt]
    · rw [List.getElem?_set_ne (by omega)]

/-- the items of every cell after a `setItems` -/
theorem items_setItems (h : Heap) (a b : Nat) (xs : List Val) :
    (h.setItems a xs).items b = if b = a ∧ h.isList a = true then xs else h.items b := by
  by_cases hne : b = a
  · subst hne
    cases hl : h.isList b
    · simp [setItems_of_not_isList _ hl]
    · simp [items_setItems_same xs hl]
  · simp [hne, items_setItems_other]

/-! ### `setFields` -/

@[simp] theorem length_setFields (h : Heap) (a : Nat) (kvs : List (Str × Val)) :
    (h.setFields a kvs).length = h.length := by
  unfold setFields; split <;> simp

theorem getElem?_setFields_ne (h : Heap) {a b : Nat} (kvs : List (Str × Val)) (hne : b ≠ a) :
    (h.setFields a kvs)[b]? = h[b]? := by
  unfold setFields; split
  · rw [List.getElem?_set_ne]; omega
  · rfl

theorem getElem?_setFields_self {h : Heap} {a : Nat} (kvs : List (Str × Val)) (hl : h.isObj a = true) :
    (h.setFields a kvs)[a]? = some (.obj kvs (h.ego a)) := by
  obtain ⟨ys, e, he⟩ := isObj_iff.1 hl
  have hlt := (List.getElem?_eq_some_iff.1 he).1
  simp only [setFields, ego, he]
  simp [hlt]

theorem setFields_of_not_isObj {h : Heap} {a : Nat} (kvs : List (Str × Val)) (hl : h.isObj a = false) :
    h.setFields a kvs = h := by
  unfold setFields; split
  · next ys e he => simp [isObj, he] at hl
  · rfl

theorem shape_setFields (h : Heap) (a b : Nat) (kvs : List (Str × Val)) :
    ((h.setFields a kvs)[b]?).map Cell.shape = (h[b]?).map Cell.shape := by
  by_cases hne : b = a
  · subst hne
    cases hl : h.isObj b
    · rw [setFields_of_not_isObj _ hl]
    · rw [getElem?_setFields_self _ hl, getElem?_of_isObj hl]; rfl
  · rw [getElem?_setFields_ne _ _ hne]

@[simp] theorem ego_setFields (h : Heap) (a b : Nat) (kvs : List (Str × Val)) :
    (h.setFields a kvs).ego b = h.ego b :=
  ego_of_shape (shape_setFields h a b kvs)
@[simp] theorem isList_setFields (h : Heap) (a b : Nat) (kvs : List (Str × Val)) :
    (h.setFields a kvs).isList b = h.isList b :=
  isList_of_shape (shape_setFields h a b kvs)
@[simp] theorem isObj_setFields (h : Heap) (a b : Nat) (kvs : List (Str × Val)) :
    (h.setFields a kvs).isObj b = h.isObj b :=
  isObj_of_shape (shape_setFields h a b kvs)

theorem fields_setFields_same {h : Heap} {a : Nat} (kvs : List (Str × Val)) (hl : h.isObj a = true) :
    (h.setFields a kvs).fields a = kvs := by
  simp [fields, getElem?_setFields_self kvs hl]

theorem fields_setFields_other (h : Heap) {a b : Nat} (kvs : List (Str × Val)) (hne : b ≠ a) :
    (h.setFields a kvs).fields b = h.fields b :=
  fields_congr (getElem?_setFields_ne h kvs hne)

theorem items_setFields (h : Heap) (a b : Nat) (kvs : List (Str × Val)) :
    (h.setFields a kvs).items b = h.items b := by
  by_cases hne : b = a
  · subst hne
    cases hl : h.isObj b
    · rw [setFields_of_not_isObj _ hl]
    · simp [items, getElem?_setFields_self kvs hl, getElem?_of_isObj hl]
  · exact items_congr (getElem?_setFields_ne h kvs hne)

theorem fields_of_not_isObj {h : Heap} {a : Nat} (hl : h.isObj a = false) : h.fields a = [] := by
  unfold fields; split
  · next ys e he => simp [isObj, he] at hl
  · rfl

/-! ### allocation (`h ++ [c]`) -/

theorem getElem?_append_old (h : Heap) (c : Cell) {b : Nat} (hb : b < h.length) :
    (h ++ [c])[b]? = h[b]? := by
  rw [List.getElem?_append_left hb]

@[simp] theorem getElem?_append_new (h : Heap) (c : Cell) : (h ++ [c])[h.length]? = some c := by
  simp

@[simp] theorem items_append_new (h : Heap) (xs : List Val) (e : Nat) :
    items (h ++ [.list xs e]) h.length = xs := by
  simp [items]
@[simp] theorem fields_append_new (h : Heap) (kvs : List (Str × Val)) (e : Nat) :
    fields (h ++ [.obj kvs e]) h.length = kvs := by
  simp [fields]
@[simp] theorem isList_append_new (h : Heap) (xs : List Val) (e : Nat) :
    isList (h ++ [.list xs e]) h.length = true := by
  simp [isList]
@[simp] theorem isObj_append_new (h : Heap) (kvs : List (Str × Val)) (e : Nat) :
    isObj (h ++ [.obj kvs e]) h.length = true := by
  simp [isObj]
@[simp] theorem ego_append_new_list (h : Heap) (xs : List Val) (e : Nat) :
    ego (h ++ [.list xs e]) h.length = e := by
  simp [ego]
@[simp] theorem ego_append_new_obj (h : Heap) (kvs : List (Str × Val)) (e : Nat) :
    ego (h ++ [.obj kvs e]) h.length = e := by
  simp [ego]

theorem items_append_old (h : Heap) (c : Cell) {b : Nat} (hb : b < h.length) :
    items (h ++ [c]) b = h.items b := items_congr (getElem?_append_old h c hb)
theorem fields_append_old (h : Heap) (c : Cell) {b : Nat} (hb : b < h.length) :
    fields (h ++ [c]) b = h.fields b := fields_congr (getElem?_append_old h c hb)
theorem ego_append_old (h : Heap) (c : Cell) {b : Nat} (hb : b < h.length) :
    ego (h ++ [c]) b = h.ego b := ego_congr (getElem?_append_old h c hb)
theorem isList_append_old (h : Heap) (c : Cell) {b : Nat} (hb : b < h.length) :
    isList (h ++ [c]) b = h.isList b := isList_congr (getElem?_append_old h c hb)
theorem isObj_append_old (h : Heap) (c : Cell) {b : Nat} (hb : b < h.length) :
    isObj (h ++ [c]) b = h.isObj b := isObj_congr (getElem?_append_old h c hb)

theorem alloc_fst (h : Heap) (c : Cell) : (h.alloc c).1 = h ++ [c] := rfl
theorem alloc_snd (h : Heap) (c : Cell) : (h.alloc c).2 = h.length := rfl

/-! ### the extension relation -/

/-- `h'` extends `h` touching at most the content of cell `a`: no cell is lost, every old cell
other than `a` is identical, and every old cell (also `a`) keeps its kind and ego level. -/
structure Ext (h h' : Heap) (a : Nat) : Prop where
  len : h.length ≤ h'.length
  other : ∀ b, b < h.length → b ≠ a → h'[b]? = h[b]?
  shape : ∀ b, b < h.length → (h'[b]?).map Cell.shape = (h[b]?).map Cell.shape

/-- `h'` extends `h` and no old cell differs -/
structure Ext0 (h h' : Heap) : Prop where
  len : h.length ≤ h'.length
  same : ∀ b, b < h.length → h'[b]? = h[b]?

theorem Ext0.refl (h : Heap) : Ext0 h h := ⟨Nat.le_refl _, fun _ _ => rfl⟩
theorem Ext.refl (h : Heap) (a : Nat) : Ext h h a := ⟨Nat.le_refl _, fun _ _ _ => rfl, fun _ _ => rfl⟩

theorem Ext0.toExt {h h' : Heap} (e : Ext0 h h') (a : Nat) : Ext h h' a :=
  ⟨e.len, fun b hb _ => e.same b hb, fun b hb => by rw [e.same b hb]⟩

theorem Ext0.trans {h1 h2 h3 : Heap} (e1 : Ext0 h1 h2) (e2 : Ext0 h2 h3) : Ext0 h1 h3 :=
  ⟨Nat.le_trans e1.len e2.len, fun b hb => by
    rw [e2.same b (Nat.lt_of_lt_of_le hb e1.len), e1.same b hb]⟩

theorem Ext.trans {h1 h2 h3 : Heap} {a : Nat} (e1 : Ext h1 h2 a) (e2 : Ext h2 h3 a) : Ext h1 h3 a :=
  ⟨Nat.le_trans e1.len e2.len,
   fun b hb hne => by rw [e2.other b (Nat.lt_of_lt_of_le hb e1.len) hne, e1.other b hb hne],
   fun b hb => by rw [e2.shape b (Nat.lt_of_lt_of_le hb e1.len), e1.shape b hb]⟩

theorem Ext0.trans_ext {h1 h2 h3 : Heap} {a : Nat} (e1 : Ext0 h1 h2) (e2 : Ext h2 h3 a)
    (ha : h1.length ≤ a) : Ext0 h1 h3 :=
  ⟨Nat.le_trans e1.len e2.len, fun b hb => by
    rw [e2.other b (Nat.lt_of_lt_of_le hb e1.len) (by omega), e1.same b hb]⟩

theorem Ext0.append (h : Heap) (c : Cell) : Ext0 h (h ++ [c]) :=
  ⟨by simp, fun _ hb => getElem?_append_old h c hb⟩

theorem Ext.setItems (h : Heap) (a : Nat) (xs : List Val) : Ext h (h.setItems a xs) a :=
  ⟨by simp, fun _ _ hne => getElem?_setItems_ne h xs hne, fun b _ => shape_setItems h a b xs⟩

theorem Ext.setFields (h : Heap) (a : Nat) (kvs : List (Str × Val)) : Ext h (h.setFields a kvs) a :=
  ⟨by simp, fun _ _ hne => getElem?_setFields_ne h kvs hne, fun b _ => shape_setFields h a b kvs⟩

/-- an extension touching only a cell that did not exist yet is a pure extension -/
theorem Ext.toExt0 {h h' : Heap} {a : Nat} (e : Ext h h' a) (ha : h.length ≤ a) : Ext0 h h' :=
  ⟨e.len, fun b hb => e.other b hb (by omega)⟩

theorem Ext.isList {h h' : Heap} {a : Nat} (e : Ext h h' a) {b : Nat} (hb : b < h.length) :
    h'.isList b = h.isList b := isList_of_shape (e.shape b hb)
theorem Ext.isObj {h h' : Heap} {a : Nat} (e : Ext h h' a) {b : Nat} (hb : b < h.length) :
    h'.isObj b = h.isObj b := isObj_of_shape (e.shape b hb)
theorem Ext.ego {h h' : Heap} {a : Nat} (e : Ext h h' a) {b : Nat} (hb : b < h.length) :
    h'.ego b = h.ego b := ego_of_shape (e.shape b hb)
theorem Ext.items {h h' : Heap} {a : Nat} (e : Ext h h' a) {b : Nat} (hb : b < h.length) (hne : b ≠ a) :
    h'.items b = h.items b := items_congr (e.other b hb hne)
theorem Ext.fields {h h' : Heap} {a : Nat} (e : Ext h h' a) {b : Nat} (hb : b < h.length) (hne : b ≠ a) :
    h'.fields b = h.fields b := fields_congr (e.other b hb hne)

theorem Ext0.isList {h h' : Heap} (e : Ext0 h h') {b : Nat} (hb : b < h.length) :
    h'.isList b = h.isList b := isList_congr (e.same b hb)
theorem Ext0.isObj {h h' : Heap} (e : Ext0 h h') {b : Nat} (hb : b < h.length) :
    h'.isObj b = h.isObj b := isObj_congr (e.same b hb)
theorem Ext0.ego {h h' : Heap} (e : Ext0 h h') {b : Nat} (hb : b < h.length) :
    h'.ego b = h.ego b := ego_congr (e.same b hb)
theorem Ext0.items {h h' : Heap} (e : Ext0 h h') {b : Nat} (hb : b < h.length) :
    h'.items b = h.items b := items_congr (e.same b hb)
theorem Ext0.fields {h h' : Heap} (e : Ext0 h h') {b : Nat} (hb : b < h.length) :
    h'.fields b = h.fields b := fields_congr (e.same b hb)

end Heap

/-! ### frame lemmas for `parseVal` / `addEach` / `setEach` -/

open Heap in
mutual
/-- `parseVal` only appends cells: every cell that existed before is identical afterwards
(also when it panics). -/
theorem parseVal_ext0 : ∀ (h : Heap) (g : GoVal), Ext0 h (parseVal h g).1
  | h, .nil => by simp only [parseVal]; exact Ext0.refl h
  | h, .bool _ => by simp only [parseVal]; exact Ext0.refl h
  | h, .intw _ _ => by simp only [parseVal]; exact Ext0.refl h
  | h, .f64 _ => by simp only [parseVal]; exact Ext0.refl h
  | h, .f32 _ => by simp only [parseVal]; exact Ext0.refl h
  | h, .str _ => by simp only [parseVal]; exact Ext0.refl h
  | h, .list _ => by simp only [parseVal]; exact Ext0.refl h
  | h, .obj _ => by simp only [parseVal]; exact Ext0.refl h
  | h, .unsupported => by simp only [parseVal]; exact Ext0.refl h
  | h, .slice _ xs => by
    have ih := addEach_ext (h ++ [.list [] 0]) h.length xs
    have e : Ext0 h (addEach (h ++ [.list [] 0]) h.length xs).1 :=
      (Ext0.append h _).trans_ext ih (Nat.le_refl _)
    simp only [parseVal]
    split <;> simp_all
  | h, .map _ kvs => by
    have ih := setEach_ext (h ++ [.obj [] 0]) h.length kvs
    have e : Ext0 h (setEach (h ++ [.obj [] 0]) h.length kvs).1 :=
      (Ext0.append h _).trans_ext ih (Nat.le_refl _)
    simp only [parseVal]
    split <;> simp_all
/-- `addEach h a gs` only appends cells and only modifies the content of cell `a`. -/
theorem addEach_ext : ∀ (h : Heap) (a : Nat) (gs : List GoVal), Ext h (addEach h a gs).1 a
  | h, a, [] => by simp only [addEach]; exact Ext.refl h a
  | h, a, g :: gs => by
    have ih1 := parseVal_ext0 h g
    simp only [addEach]
    split
    · next h1 k hp => rw [hp] at ih1; exact ih1.toExt a
    · next h1 v hp =>
      rw [hp] at ih1
      exact (ih1.toExt a).trans ((Ext.setItems h1 a _).trans (addEach_ext _ a gs))
/-- `setEach h a kvs` only appends cells and only modifies the content of cell `a`. -/
theorem setEach_ext : ∀ (h : Heap) (a : Nat) (kvs : List (Str × GoVal)), Ext h (setEach h a kvs).1 a
  | h, a, [] => by simp only [setEach]; exact Ext.refl h a
  | h, a, (k, g) :: kvs => by
    have ih1 := parseVal_ext0 h g
    simp only [setEach]
    split
    · next h1 p hp => rw [hp] at ih1; exact ih1.toExt a
    · next h1 v hp =>
      rw [hp] at ih1
      exact (ih1.toExt a).trans ((Ext.setFields h1 a _).trans (setEach_ext _ a kvs))
end

end Anytype
