/-
Heap well-formedness ("no dangling or ill-kinded reference is stored anywhere") and its
preservation by every List operation.
-/
import Anytype.Lemmas.ListOps
namespace Anytype
open Heap

/-- a stored value is valid in `h`: a container reference points to an existing cell of its kind -/
def Val.okIn (h : Heap) : Val → Prop
  | .list r => h.isList r.addr = true
  | .obj r => h.isObj r.addr = true
  | _ => True

/-- every reference stored in any cell points to an existing cell of the right kind -/
def HeapWF (h : Heap) : Prop :=
  ∀ a, (∀ v ∈ h.items a, v.okIn h) ∧ (∀ kv ∈ h.fields a, kv.2.okIn h)

mutual
/-- every container reference occurring in a Go argument (at any depth) is valid in `h` -/
def GoVal.okIn (h : Heap) : GoVal → Prop
  | .list r => h.isList r.addr = true
  | .obj r => h.isObj r.addr = true
  | .slice _ xs => okInList h xs
  | .map _ kvs => okInFields h kvs
  | _ => True
def okInList (h : Heap) : List GoVal → Prop
  | [] => True
  | g :: gs => g.okIn h ∧ okInList h gs
def okInFields (h : Heap) : List (Str × GoVal) → Prop
  | [] => True
  | (_, g) :: kvs => g.okIn h ∧ okInFields h kvs
end

/-- `h'` has every cell of `h`, with the same kind and ego -/
structure Heap.Mono (h h' : Heap) : Prop where
  len : h.length ≤ h'.length
  shape : ∀ b, b < h.length → (h'[b]?).map Cell.shape = (h[b]?).map Cell.shape

theorem Heap.Ext.mono {h h' : Heap} {a : Nat} (e : Ext h h' a) : Mono h h' := ⟨e.len, e.shape⟩
theorem Heap.Ext0.mono {h h' : Heap} (e : Ext0 h h') : Mono h h' := (e.toExt 0).mono
theorem Heap.Mono.refl (h : Heap) : Mono h h := ⟨Nat.le_refl _, fun _ _ => rfl⟩
theorem Heap.Mono.trans {h1 h2 h3 : Heap} (e1 : Mono h1 h2) (e2 : Mono h2 h3) : Mono h1 h3 :=
  ⟨Nat.le_trans e1.len e2.len, fun b hb => by
    rw [e2.shape b (Nat.lt_of_lt_of_le hb e1.len), e1.shape b hb]⟩

theorem Heap.Mono.isList {h h' : Heap} (m : Mono h h') {b : Nat} (hb : h.isList b = true) :
    h'.isList b = true := by
  rw [isList_of_shape (m.shape b (isList_lt hb))]; exact hb
theorem Heap.Mono.isObj {h h' : Heap} (m : Mono h h') {b : Nat} (hb : h.isObj b = true) :
    h'.isObj b = true := by
  rw [isObj_of_shape (m.shape b (isObj_lt hb))]; exact hb

theorem Val.okIn_mono {h h' : Heap} (m : Mono h h') {v : Val} (hv : v.okIn h) : v.okIn h' := by
  cases v <;> simp only [Val.okIn] at hv ⊢
  · exact m.isList hv
  · exact m.isObj hv

mutual
theorem GoVal.okIn_mono {h h' : Heap} (m : Mono h h') : ∀ (g : GoVal), g.okIn h → g.okIn h'
  | .nil, _ => by simp [GoVal.okIn]
  | .bool _, _ => by simp [GoVal.okIn]
  | .intw _ _, _ => by simp [GoVal.okIn]
  | .f64 _, _ => by simp [GoVal.okIn]
  | .f32 _, _ => by simp [GoVal.okIn]
  | .str _, _ => by simp [GoVal.okIn]
  | .unsupported, _ => by simp [GoVal.okIn]
  | .list r, hg => by simp only [GoVal.okIn] at hg ⊢; exact m.isList hg
  | .obj r, hg => by simp only [GoVal.okIn] at hg ⊢; exact m.isObj hg
  | .slice _ xs, hg => by simp only [GoVal.okIn] at hg ⊢; exact okInList_mono m xs hg
  | .map _ kvs, hg => by simp only [GoVal.okIn] at hg ⊢; exact okInFields_mono m kvs hg
theorem okInList_mono {h h' : Heap} (m : Mono h h') : ∀ (gs : List GoVal), okInList h gs → okInList h' gs
  | [], _ => by simp [okInList]
  | g :: gs, hg => by
    simp only [okInList] at hg ⊢
    exact ⟨GoVal.okIn_mono m g hg.1, okInList_mono m gs hg.2⟩
theorem okInFields_mono {h h' : Heap} (m : Mono h h') :
    ∀ (kvs : List (Str × GoVal)), okInFields h kvs → okInFields h' kvs
  | [], _ => by simp [okInFields]
  | (k, g) :: kvs, hg => by
    simp only [okInFields] at hg ⊢
    exact ⟨GoVal.okIn_mono m g hg.1, okInFields_mono m kvs hg.2⟩
end

theorem okInList_iff {h : Heap} {gs : List GoVal} : okInList h gs ↔ ∀ g ∈ gs, g.okIn h := by
  induction gs with
  | nil => simp [okInList]
  | cons g gs ih => simp [okInList, ih]

theorem scalar_okIn {h : Heap} {g : GoVal} (hs : g.isScalar = true) (hg : g.okIn h) :
    (scalarVal g).okIn h := by
  cases g <;> simp_all [GoVal.isScalar, scalarVal, Val.okIn, GoVal.okIn]

/-! ### the primitives preserve well-formedness -/

theorem HeapWF.setItems {h : Heap} (wf : HeapWF h) (a : Nat) (xs : List Val)
    (hx : ∀ v ∈ xs, v.okIn h) : HeapWF (h.setItems a xs) := by
  have m : Mono h (h.setItems a xs) := (Ext.setItems h a xs).mono
  intro b
  constructor
  · intro v hv
    rw [items_setItems] at hv
    split at hv
    · exact Val.okIn_mono m (hx v hv)
    · exact Val.okIn_mono m ((wf b).1 v hv)
  · intro kv hkv
    rw [fields_setItems] at hkv
    exact Val.okIn_mono m ((wf b).2 kv hkv)

theorem HeapWF.setItems_sub {h : Heap} (wf : HeapWF h) (a : Nat) (xs : List Val)
    (hx : ∀ v ∈ xs, v ∈ h.items a) : HeapWF (h.setItems a xs) :=
  wf.setItems a xs (fun v hv => (wf a).1 v (hx v hv))

theorem fields_setFields (h : Heap) (a b : Nat) (kvs : List (Str × Val)) :
    (h.setFields a kvs).fields b = if b = a ∧ h.isObj a = true then kvs else h.fields b := by
  by_cases hne : b = a
  · subst hne
    cases hl : h.isObj b
    · simp [setFields_of_not_isObj _ hl]
    · simp [fields_setFields_same kvs hl]
  · simp [hne, fields_setFields_other]

theorem HeapWF.setFields {h : Heap} (wf : HeapWF h) (a : Nat) (kvs : List (Str × Val))
    (hx : ∀ kv ∈ kvs, kv.2.okIn h) : HeapWF (h.setFields a kvs) := by
  have m : Mono h (h.setFields a kvs) := (Ext.setFields h a kvs).mono
  intro b
  constructor
  · intro v hv
    rw [items_setFields] at hv
    exact Val.okIn_mono m ((wf b).1 v hv)
  · intro kv hkv
    rw [fields_setFields] at hkv
    split at hkv
    · exact Val.okIn_mono m (hx kv hkv)
    · exact Val.okIn_mono m ((wf b).2 kv hkv)

theorem items_append (h : Heap) (c : Cell) (b : Nat) :
    items (h ++ [c]) b = if b = h.length then (match c with | .list xs _ => xs | _ => []) else h.items b := by
  by_cases hb : b < h.length
  · rw [items_append_old h c hb, if_neg (by omega)]
  · by_cases he : b = h.length
    · subst he; cases c <;> simp [items]
    · have h1 : (h ++ [c])[b]? = none := List.getElem?_eq_none (by simp; omega)
      have h2 : h[b]? = none := List.getElem?_eq_none (by omega)
      simp [items, h1, h2, he]

theorem fields_append (h : Heap) (c : Cell) (b : Nat) :
    fields (h ++ [c]) b = if b = h.length then (match c with | .obj kvs _ => kvs | _ => []) else h.fields b := by
  by_cases hb : b < h.length
  · rw [fields_append_old h c hb, if_neg (by omega)]
  · by_cases he : b = h.length
    · subst he; cases c <;> simp [fields]
    · have h1 : (h ++ [c])[b]? = none := List.getElem?_eq_none (by simp; omega)
      have h2 : h[b]? = none := List.getElem?_eq_none (by omega)
      simp [fields, h1, h2, he]

theorem HeapWF.append_list {h : Heap} (wf : HeapWF h) (xs : List Val) (e : Nat)
    (hx : ∀ v ∈ xs, v.okIn h) : HeapWF (h ++ [.list xs e]) := by
  have m : Mono h (h ++ [.list xs e]) := (Ext0.append h _).mono
  intro b
  constructor
  · intro v hv
    rw [items_append] at hv
    split at hv
    · exact Val.okIn_mono m (hx v hv)
    · exact Val.okIn_mono m ((wf b).1 v hv)
  · intro kv hkv
    rw [fields_append] at hkv
    split at hkv
    · simp at hkv
    · exact Val.okIn_mono m ((wf b).2 kv hkv)

theorem HeapWF.append_obj {h : Heap} (wf : HeapWF h) (kvs : List (Str × Val)) (e : Nat)
    (hx : ∀ kv ∈ kvs, kv.2.okIn h) : HeapWF (h ++ [.obj kvs e]) := by
  have m : Mono h (h ++ [.obj kvs e]) := (Ext0.append h _).mono
  intro b
  constructor
  · intro v hv
    rw [items_append] at hv
    split at hv
    · simp at hv
    · exact Val.okIn_mono m ((wf b).1 v hv)
  · intro kv hkv
    rw [fields_append] at hkv
    split at hkv
    · exact Val.okIn_mono m (hx kv hkv)
    · exact Val.okIn_mono m ((wf b).2 kv hkv)

theorem mem_setKV {α} {kvs : List (Str × α)} {k : Str} {v : α} {p : Str × α}
    (hp : p ∈ setKV kvs k v) : p = (k, v) ∨ p ∈ kvs := by
  induction kvs with
  | nil => simp [setKV] at hp; exact Or.inl hp
  | cons kv kvs ih =>
    obtain ⟨k', v'⟩ := kv
    unfold setKV at hp
    split at hp
    · rcases List.mem_cons.1 hp with e | hm
      · exact Or.inl e
      · exact Or.inr (List.mem_cons_of_mem _ hm)
    · rcases List.mem_cons.1 hp with e | hm
      · exact Or.inr (by rw [e]; exact List.mem_cons_self)
      · rcases ih hm with e | hm'
        · exact Or.inl e
        · exact Or.inr (List.mem_cons_of_mem _ hm')

/-! ### `parseVal` / `addEach` / `setEach` preserve well-formedness -/

mutual
theorem parseVal_wf : ∀ (h : Heap) (g : GoVal), HeapWF h → g.okIn h →
    HeapWF (parseVal h g).1 ∧ ∀ v, (parseVal h g).2 = .ok v → v.okIn (parseVal h g).1
  | h, .nil, wf, _ => by simp only [parseVal]; exact ⟨wf, fun v hv => by cases hv; trivial⟩
  | h, .bool _, wf, _ => by simp only [parseVal]; exact ⟨wf, fun v hv => by cases hv; trivial⟩
  | h, .intw _ _, wf, _ => by simp only [parseVal]; exact ⟨wf, fun v hv => by cases hv; trivial⟩
  | h, .f64 _, wf, _ => by simp only [parseVal]; exact ⟨wf, fun v hv => by cases hv; trivial⟩
  | h, .f32 _, wf, _ => by simp only [parseVal]; exact ⟨wf, fun v hv => by cases hv; trivial⟩
  | h, .str _, wf, _ => by simp only [parseVal]; exact ⟨wf, fun v hv => by cases hv; trivial⟩
  | h, .unsupported, wf, _ => by simp only [parseVal]; exact ⟨wf, fun v hv => by cases hv⟩
  | h, .list r, wf, hg => by
    simp only [parseVal]; exact ⟨wf, fun v hv => by cases hv; exact hg⟩
  | h, .obj r, wf, hg => by
    simp only [parseVal]; exact ⟨wf, fun v hv => by cases hv; exact hg⟩
  | h, .slice _ xs, wf, hg => by
    simp only [GoVal.okIn] at hg
    have wf0 : HeapWF (h ++ [.list [] 0]) := wf.append_list [] 0 (by simp)
    have hg0 := okInList_mono (Ext0.append h (.list [] 0)).mono xs hg
    have ih := addEach_wf (h ++ [.list [] 0]) h.length xs wf0 hg0
    have e := addEach_ext (h ++ [.list [] 0]) h.length xs
    have hl : (addEach (h ++ [.list [] 0]) h.length xs).1.isList h.length = true := by
      rw [e.isList (by simp)]; simp
    simp only [parseVal]
    split
    · next h1 u hq =>
      rw [hq] at ih hl
      exact ⟨ih, fun v hv => by cases hv; exact hl⟩
    · next h1 k hq =>
      rw [hq] at ih
      exact ⟨ih, fun v hv => by cases hv⟩
  | h, .map _ kvs, wf, hg => by
    simp only [GoVal.okIn] at hg
    have wf0 : HeapWF (h ++ [.obj [] 0]) := wf.append_obj [] 0 (by simp)
    have hg0 := okInFields_mono (Ext0.append h (.obj [] 0)).mono kvs hg
    have ih := setEach_wf (h ++ [.obj [] 0]) h.length kvs wf0 hg0
    have e := setEach_ext (h ++ [.obj [] 0]) h.length kvs
    have hl : (setEach (h ++ [.obj [] 0]) h.length kvs).1.isObj h.length = true := by
      rw [e.isObj (by simp)]; simp
    simp only [parseVal]
    split
    · next h1 u hq =>
      rw [hq] at ih hl
      exact ⟨ih, fun v hv => by cases hv; exact hl⟩
    · next h1 k hq =>
      rw [hq] at ih
      exact ⟨ih, fun v hv => by cases hv⟩
theorem addEach_wf : ∀ (h : Heap) (a : Nat) (gs : List GoVal), HeapWF h → okInList h gs →
    HeapWF (addEach h a gs).1
  | h, a, [], wf, _ => by simp only [addEach]; exact wf
  | h, a, g :: gs, wf, hg => by
    simp only [okInList] at hg
    have ih1 := parseVal_wf h g wf hg.1
    have e1 := parseVal_ext0 h g
    simp only [addEach]
    split
    · next h1 k hp => rw [hp] at ih1; exact ih1.1
    · next h1 v hp =>
      rw [hp] at ih1 e1
      have wf2 : HeapWF (h1.setItems a (h1.items a ++ [v])) :=
        ih1.1.setItems a _ (fun w hw => by
          rcases List.mem_append.1 hw with hw | hw
          · exact (ih1.1 a).1 w hw
          · simp at hw; rw [hw]; exact ih1.2 v rfl)
      exact addEach_wf _ a gs wf2
        (okInList_mono (e1.mono.trans (Ext.setItems h1 a _).mono) gs hg.2)
theorem setEach_wf : ∀ (h : Heap) (a : Nat) (kvs : List (Str × GoVal)), HeapWF h → okInFields h kvs →
    HeapWF (setEach h a kvs).1
  | h, a, [], wf, _ => by simp only [setEach]; exact wf
  | h, a, (k, g) :: kvs, wf, hg => by
    simp only [okInFields] at hg
    have ih1 := parseVal_wf h g wf hg.1
    have e1 := parseVal_ext0 h g
    simp only [setEach]
    split
    · next h1 p hp => rw [hp] at ih1; exact ih1.1
    · next h1 v hp =>
      rw [hp] at ih1 e1
      have wf2 : HeapWF (h1.setFields a (setKV (h1.fields a) k v)) :=
        ih1.1.setFields a _ (fun w hw => by
          rcases mem_setKV hw with hw | hw
          · rw [hw]; exact ih1.2 v rfl
          · exact (ih1.1 a).2 w hw)
      exact setEach_wf _ a kvs wf2
        (okInFields_mono (e1.mono.trans (Ext.setFields h1 a _).mono) kvs hg.2)
end


/-! ### every List operation preserves well-formedness -/

namespace L

theorem add_wf (h : Heap) (a : Nat) (gs : List GoVal) (wf : HeapWF h) (hg : okInList h gs) :
    HeapWF (add h a gs).1 := by
  have := addEach_wf h a gs wf hg
  unfold add
  split <;> simp_all

theorem insert_wf (h : Heap) (a : Nat) (i : Int) (g : GoVal) (wf : HeapWF h) (hg : g.okIn h) :
    HeapWF (insert h a i g).1 := by
  unfold insert
  split
  · exact wf
  · split
    · exact add_wf h a [g] wf (by simp [okInList, hg])
    · have ih := parseVal_wf h g wf hg
      split
      · next h1 k hp => rw [hp] at ih; exact ih.1
      · next h1 v hp =>
        rw [hp] at ih
        refine ih.1.setItems a _ (fun w hw => ?_)
        rcases List.mem_or_eq_of_mem_set hw with hw | hw
        · rcases List.mem_append.1 hw with hw | hw
          · exact (ih.1 a).1 w (List.mem_of_mem_take hw)
          · exact (ih.1 a).1 w (List.mem_of_mem_drop hw)
        · rw [hw]; exact ih.2 v rfl

theorem replace_wf (h : Heap) (a : Nat) (i : Int) (g : GoVal) (wf : HeapWF h) (hg : g.okIn h) :
    HeapWF (replace h a i g).1 := by
  unfold replace
  split
  · exact wf
  · have ih := parseVal_wf h g wf hg
    split
    · next h1 k hp => rw [hp] at ih; exact ih.1
    · next h1 v hp =>
      rw [hp] at ih
      refine ih.1.setItems a _ (fun w hw => ?_)
      rcases List.mem_or_eq_of_mem_set hw with hw | hw
      · exact (ih.1 a).1 w hw
      · rw [hw]; exact ih.2 v rfl

theorem deleteLoop_wf (h : Heap) (a : Nat) (ds : List Int) (wf : HeapWF h) :
    HeapWF (deleteLoop h a ds).1 := by
  induction ds generalizing h with
  | nil => exact wf
  | cons d ds ih =>
    unfold deleteLoop
    split
    · exact wf
    · refine ih _ (wf.setItems_sub a _ (fun w hw => ?_))
      rcases List.mem_append.1 hw with hw | hw
      · exact List.mem_of_mem_take hw
      · exact List.mem_of_mem_drop hw

theorem delete_wf (h : Heap) (a : Nat) (idx : List Int) (wf : HeapWF h) : HeapWF (delete h a idx).1 := by
  have := deleteLoop_wf h a (idx.mergeSort (fun x y => decide (x ≤ y))).reverse wf
  unfold delete
  simp only
  split <;> simp_all

theorem pop_wf (h : Heap) (a : Nat) (wf : HeapWF h) : HeapWF (pop h a).1 := delete_wf h a _ wf

theorem clear_wf (h : Heap) (a : Nat) (wf : HeapWF h) : HeapWF (clear h a).1 :=
  wf.setItems a [] (by simp)

theorem reverse_wf (h : Heap) (a : Nat) (wf : HeapWF h) : HeapWF (reverse h a).1 := by
  rw [reverse_eq]
  exact wf.setItems_sub a _ (fun w hw => List.mem_reverse.1 hw)

theorem sort_wf (h : Heap) (a : Nat) (wf : HeapWF h) : HeapWF (sort h a).1 := by
  unfold sort
  simp only
  split
  · exact wf
  · exact wf.setItems a _ (fun w hw => by
      obtain ⟨s, _, rfl⟩ := List.mem_map.1 hw; trivial)
  · exact wf.setItems a _ (fun w hw => by
      obtain ⟨s, _, rfl⟩ := List.mem_map.1 hw; trivial)
  · exact wf.setItems a _ (fun w hw => by
      obtain ⟨s, _, rfl⟩ := List.mem_map.1 hw; trivial)
  · exact wf

theorem subList_wf (h : Heap) (a : Nat) (s e : Int) (wf : HeapWF h) : HeapWF (subList h a s e).1 := by
  rw [subList_cases h a s e]
  repeat' split
  all_goals first
    | exact wf
    | exact wf.append_list _ 0 (fun w hw =>
        (wf a).1 w (List.mem_of_mem_drop (List.mem_of_mem_take hw)))

theorem concat_wf (h : Heap) (a : Nat) (r : Ref) (wf : HeapWF h) : HeapWF (concat h a r).1 := by
  by_cases hb : h.isList r.addr = true
  · rw [concat_ok h a r hb]
    refine wf.append_list _ 0 (fun w hw => ?_)
    rcases List.mem_append.1 hw with hw | hw
    · exact (wf a).1 w hw
    · exact (wf r.addr).1 w hw
  · rw [concat_bad h a r hb]; exact wf

theorem new_wf (h : Heap) (gs : List GoVal) (wf : HeapWF h) (hg : okInList h gs) : HeapWF (new h gs).1 := by
  have wf0 : HeapWF (h ++ [.list [] 0]) := wf.append_list [] 0 (by simp)
  have hg0 := okInList_mono (Ext0.append h (.list [] 0)).mono gs hg
  have := addEach_wf (h ++ [.list [] 0]) h.length gs wf0 hg0
  unfold new
  simp only
  split <;> simp_all

theorem newOf_wf (h : Heap) (g : GoVal) (c : Int) (wf : HeapWF h) (hg : g.okIn h) :
    HeapWF (newOf h g c).1 := by
  unfold newOf
  split
  · exact wf
  · have wf0 : HeapWF (h ++ [.list [] 0]) := wf.append_list [] 0 (by simp)
    have hg0 := GoVal.okIn_mono (Ext0.append h (.list [] 0)).mono g hg
    have ih := parseVal_wf (h ++ [.list [] 0]) g wf0 hg0
    split
    · next h1 k hp => rw [hp] at ih; exact ih.1
    · next h1 v hp =>
      rw [hp] at ih
      exact ih.1.setItems _ _ (fun w hw => by
        rw [(List.mem_replicate.1 hw).2]; exact ih.2 v rfl)

theorem newFrom_wf (h : Heap) (g : GoVal) (wf : HeapWF h) (hg : g.okIn h) : HeapWF (newFrom h g).1 := by
  unfold newFrom
  split
  · next fl xs =>
    have ih := (parseVal_wf h (.slice fl xs) wf hg).1
    split <;> simp_all
  · exact wf

end L

/-! ### programs of List operations -/

/-- one List operation with its receiver (an address) and arguments -/
inductive LOp
  | new (gs : List GoVal)
  | newOf (g : GoVal) (count : Int)
  | newFrom (g : GoVal)
  | add (a : Nat) (gs : List GoVal)
  | insert (a : Nat) (i : Int) (g : GoVal)
  | replace (a : Nat) (i : Int) (g : GoVal)
  | delete (a : Nat) (idx : List Int)
  | pop (a : Nat)
  | clear (a : Nat)
  | reverse (a : Nat)
  | sort (a : Nat)
  | subList (a : Nat) (s e : Int)
  | concat (a : Nat) (r : Ref)

/-- the heap after the operation (at the panic point if it panics) -/
def stepL (h : Heap) : LOp → Heap
  | .new gs => (L.new h gs).1
  | .newOf g c => (L.newOf h g c).1
  | .newFrom g => (L.newFrom h g).1
  | .add a gs => (L.add h a gs).1
  | .insert a i g => (L.insert h a i g).1
  | .replace a i g => (L.replace h a i g).1
  | .delete a idx => (L.delete h a idx).1
  | .pop a => (L.pop h a).1
  | .clear a => (L.clear h a).1
  | .reverse a => (L.reverse h a).1
  | .sort a => (L.sort h a).1
  | .subList a s e => (L.subList h a s e).1
  | .concat a r => (L.concat h a r).1

/-- the container references among the arguments (at any depth) are valid in `h`;
indexes, counts and the receiver are unconstrained -/
def LOp.okIn (h : Heap) : LOp → Prop
  | .new gs => okInList h gs
  | .newOf g _ => g.okIn h
  | .newFrom g => g.okIn h
  | .add _ gs => okInList h gs
  | .insert _ _ g => g.okIn h
  | .replace _ _ g => g.okIn h
  | _ => True

def runL (h : Heap) : List LOp → Heap
  | [] => h
  | op :: ops => runL (stepL h op) ops

/-- every operation's reference arguments are valid in the heap it is executed in -/
def ProgOk (h : Heap) : List LOp → Prop
  | [] => True
  | op :: ops => op.okIn h ∧ ProgOk (stepL h op) ops

theorem stepL_wf (h : Heap) (op : LOp) (wf : HeapWF h) (hop : op.okIn h) : HeapWF (stepL h op) := by
  cases op <;> simp only [stepL, LOp.okIn] at hop ⊢
  · exact L.new_wf h _ wf hop
  · exact L.newOf_wf h _ _ wf hop
  · exact L.newFrom_wf h _ wf hop
  · exact L.add_wf h _ _ wf hop
  · exact L.insert_wf h _ _ _ wf hop
  · exact L.replace_wf h _ _ _ wf hop
  · exact L.delete_wf h _ _ wf
  · exact L.pop_wf h _ wf
  · exact L.clear_wf h _ wf
  · exact L.reverse_wf h _ wf
  · exact L.sort_wf h _ wf
  · exact L.subList_wf h _ _ _ wf
  · exact L.concat_wf h _ _ wf

theorem stepL_mono (h : Heap) (op : LOp) : Mono h (stepL h op) := by
  cases op <;> simp only [stepL]
  · exact (L.new_ext0 h _).mono
  · exact (L.newOf_ext0 h _ _).mono
  · exact (L.newFrom_ext0 h _).mono
  · exact (L.add_ext h _ _).mono
  · exact (L.insert_ext h _ _ _).mono
  · exact (L.replace_ext h _ _ _).mono
  · exact (L.delete_ext h _ _).mono
  · exact (L.pop_ext h _).mono
  · exact (L.clear_ext h _).mono
  · exact (L.reverse_ext h _).mono
  · exact (L.sort_ext h _).mono
  · exact (L.subList_ext0 h _ _ _).mono
  · exact (L.concat_ext0 h _ _).mono

theorem ProgOk_take {h : Heap} {ops : List LOp} (hp : ProgOk h ops) (k : Nat) : ProgOk h (ops.take k) := by
  induction ops generalizing h k with
  | nil => simpa using hp
  | cons op ops ih =>
    cases k with
    | zero => simp [ProgOk]
    | succ k => exact ⟨hp.1, ih hp.2 k⟩

theorem runL_wf (h : Heap) (ops : List LOp) (wf : HeapWF h) (hp : ProgOk h ops) : HeapWF (runL h ops) := by
  induction ops generalizing h with
  | nil => exact wf
  | cons op ops ih => exact ih _ (stepL_wf h op wf hp.1) hp.2

theorem runL_mono (h : Heap) (ops : List LOp) : Mono h (runL h ops) := by
  induction ops generalizing h with
  | nil => exact Mono.refl h
  | cons op ops ih => exact (stepL_mono h op).trans (ih _)

end Anytype
