/-
`indentGo` (Go's `json.Indent`) on a serialised value tree produces the canonical layout `pretty`,
and the strict decoder reads `pretty` back to the same tree.
-/
import Anytype.Lemmas.StrictRoundTrip
namespace Anytype

/-! ### single steps of `indentGo` outside a string -/

/-- the characters `indentGo` reacts to outside a string literal -/
def isStructural (c : Char) : Bool :=
  c == '{' || c == '}' || c == '[' || c == ']' || c == ',' || c == ':' || c == '"'

theorem indentGo_plain (n : Nat) (c : Char) (rest : Str) (d : Nat) (h : isStructural c = false) :
    indentGo n (c :: rest) false false false d = c :: indentGo n rest false false false d := by
  simp only [isStructural, Bool.or_eq_false_iff] at h
  obtain ⟨⟨⟨⟨⟨⟨h1, h2⟩, h3⟩, h4⟩, h5⟩, h6⟩, h7⟩ := h
  simp [indentGo, h1, h2, h3, h4, h5, h6, h7]

theorem indentGo_plains (n : Nat) (s rest : Str) (d : Nat) (h : ∀ c ∈ s, isStructural c = false) :
    indentGo n (s ++ rest) false false false d = s ++ indentGo n rest false false false d := by
  induction s with
  | nil => rfl
  | cons c s ih =>
    rw [List.cons_append, indentGo_plain n c _ d (h c (by simp)), ih (fun x hx => h x (by simp [hx]))]
    rfl

/-- the delayed indent after an opening bracket is emitted in front of the first character that is
not a closing bracket; from then on the state is the ordinary one, one level deeper -/
theorem indentGo_need (n : Nat) (c : Char) (rest : Str) (d : Nat) (h1 : c ≠ '}') (h2 : c ≠ ']') :
    indentGo n (c :: rest) false false true d =
      newline n (d + 1) ++ indentGo n (c :: rest) false false false (d + 1) := by
  have e1 : (c == '}') = false := by simp [h1]
  have e2 : (c == ']') = false := by simp [h2]
  simp only [indentGo, Bool.false_eq_true, if_false, e1, e2, Bool.or_self, Bool.not_false,
    Bool.and_self, if_true, Bool.and_true, List.nil_append]
  repeat' split
  all_goals simp

theorem indentGo_open_brack (n : Nat) (rest : Str) (d : Nat) :
    indentGo n ('[' :: rest) false false false d = '[' :: indentGo n rest false false true d := by
  simp [indentGo]

theorem indentGo_open_brace (n : Nat) (rest : Str) (d : Nat) :
    indentGo n ('{' :: rest) false false false d = '{' :: indentGo n rest false false true d := by
  simp [indentGo]

theorem indentGo_empty_brack (n : Nat) (rest : Str) (d : Nat) :
    indentGo n (']' :: rest) false false true d = ']' :: indentGo n rest false false false d := by
  simp [indentGo]

theorem indentGo_empty_brace (n : Nat) (rest : Str) (d : Nat) :
    indentGo n ('}' :: rest) false false true d = '}' :: indentGo n rest false false false d := by
  simp [indentGo]

theorem indentGo_close_brack (n : Nat) (rest : Str) (d : Nat) :
    indentGo n (']' :: rest) false false false (d + 1) =
      newline n d ++ ']' :: indentGo n rest false false false d := by
  simp [indentGo]

theorem indentGo_close_brace (n : Nat) (rest : Str) (d : Nat) :
    indentGo n ('}' :: rest) false false false (d + 1) =
      newline n d ++ '}' :: indentGo n rest false false false d := by
  simp [indentGo]

theorem indentGo_comma (n : Nat) (rest : Str) (d : Nat) :
    indentGo n (',' :: rest) false false false d =
      ',' :: newline n d ++ indentGo n rest false false false d := by
  simp [indentGo]

theorem indentGo_colon (n : Nat) (rest : Str) (d : Nat) :
    indentGo n (':' :: rest) false false false d = ':' :: ' ' :: indentGo n rest false false false d := by
  simp [indentGo]

theorem indentGo_quote (n : Nat) (rest : Str) (d : Nat) :
    indentGo n ('"' :: rest) false false false d = '"' :: indentGo n rest true false false d := by
  simp [indentGo]

/-! ### inside a string literal -/

theorem indentGo_in_esc (n : Nat) (c : Char) (rest : Str) (need : Bool) (d : Nat) :
    indentGo n (c :: rest) true true need d = c :: indentGo n rest true false need d := by
  simp [indentGo]

theorem indentGo_in_bs (n : Nat) (rest : Str) (need : Bool) (d : Nat) :
    indentGo n ('\\' :: rest) true false need d = '\\' :: indentGo n rest true true need d := by
  simp [indentGo]

theorem indentGo_in_close (n : Nat) (rest : Str) (need : Bool) (d : Nat) :
    indentGo n ('"' :: rest) true false need d = '"' :: indentGo n rest false false need d := by
  simp [indentGo]

theorem indentGo_in_plain (n : Nat) (c : Char) (rest : Str) (need : Bool) (d : Nat)
    (h1 : c ≠ '\\') (h2 : c ≠ '"') :
    indentGo n (c :: rest) true false need d = c :: indentGo n rest true false need d := by
  simp [indentGo, h1, h2]

/-- one escaped character of `quoteBody` is copied and leaves the in-string state unchanged -/
theorem indentGo_escChar (n : Nat) (c : Char) (t : Str) (need : Bool) (d : Nat) :
    indentGo n (escChar c ++ t) true false need d = escChar c ++ indentGo n t true false need d := by
  rcases escChar_cases c with ⟨_, e⟩ | ⟨_, e⟩ | ⟨_, e⟩ | ⟨_, e⟩ | ⟨_, e⟩ | ⟨_, e⟩ | ⟨_, e⟩ | ⟨h, e⟩ | ⟨_, h1, h2, e⟩
  all_goals rw [e]
  all_goals try (simp only [List.cons_append, List.nil_append, indentGo_in_bs, indentGo_in_esc]; done)
  · have a := hexDigit_ne (c.toNat / 16) (by omega)
    have b := hexDigit_ne (c.toNat % 16) (by omega)
    simp only [List.cons_append, List.nil_append, indentGo_in_bs, indentGo_in_esc]
    rw [indentGo_in_plain n '0' _ need d (by decide) (by decide),
      indentGo_in_plain n '0' _ need d (by decide) (by decide),
      indentGo_in_plain n _ _ need d a.2.1 a.1, indentGo_in_plain n _ _ need d b.2.1 b.1]
  · simp only [List.cons_append, List.nil_append]
    exact indentGo_in_plain n c t need d h2 h1

theorem indentGo_quoteBody (n : Nat) (s rest : Str) (need : Bool) (d : Nat) :
    indentGo n (quoteBody s ++ '"' :: rest) true false need d =
      quoteBody s ++ '"' :: indentGo n rest false false need d := by
  induction s with
  | nil => simp only [quoteBody_nil, List.nil_append, indentGo_in_close]
  | cons c s ih =>
    rw [quoteBody_cons, List.append_assoc, indentGo_escChar, ih, List.append_assoc]

/-- a quoted string is copied unchanged -/
theorem indentGo_quoteJSON (n : Nat) (s rest : Str) (d : Nat) :
    indentGo n (quoteJSON s ++ rest) false false false d =
      quoteJSON s ++ indentGo n rest false false false d := by
  simp only [quoteJSON, List.cons_append, List.append_assoc, List.nil_append, indentGo_quote,
    indentGo_quoteBody]

/-! ### scalars -/

theorem numChar_not_structural {c : Char} (h : isNumChar c = true) : isStructural c = false := by
  have := numChar_toNat h
  simp only [isStructural, Bool.or_eq_false_iff, beq_eq_false_iff_ne]
  refine ⟨⟨⟨⟨⟨⟨?_, ?_⟩, ?_⟩, ?_⟩, ?_⟩, ?_⟩, ?_⟩ <;> apply ne_of_toNat_ne <;> simp <;> omega

theorem indentGo_numLike (n : Nat) (s rest : Str) (d : Nat) (h : NumLike s) :
    indentGo n (s ++ rest) false false false d = s ++ indentGo n rest false false false d :=
  indentGo_plains n s rest d (fun c hc => numChar_not_structural (h.2 c hc))

/-! ### heads: a serialised value does not start with a closing bracket -/

theorem indentGo_need_goodHead (n : Nat) (s : Str) (d : Nat) (h : Strict.GoodHead s) :
    indentGo n s false false true d = newline n (d + 1) ++ indentGo n s false false false (d + 1) := by
  obtain ⟨c, t, e, _, h1, h2⟩ := h
  subst e
  exact indentGo_need n c t d h2 h1

/-! ### unfolding `pretty` -/

theorem prettyList_single (n d : Nat) (x : JVal) : prettyList n d [x] = pretty n d x := by
  simp [prettyList]
theorem prettyList_cons_cons (n d : Nat) (x y : JVal) (ys : List JVal) :
    prettyList n d (x :: y :: ys) = pretty n d x ++ ',' :: newline n d ++ prettyList n d (y :: ys) := by
  simp [prettyList]
theorem prettyFields_single (n d : Nat) (k : Str) (x : JVal) :
    prettyFields n d [(k, x)] = quoteJSON k ++ ':' :: ' ' :: pretty n d x := by
  simp [prettyFields]
theorem prettyFields_cons_cons (n d : Nat) (k : Str) (x : JVal) (kv : Str × JVal) (kvs : List (Str × JVal)) :
    prettyFields n d ((k, x) :: kv :: kvs) =
      quoteJSON k ++ ':' :: ' ' :: pretty n d x ++ ',' :: newline n d ++ prettyFields n d (kv :: kvs) := by
  simp [prettyFields]

theorem pretty_list_cons (n d : Nat) (x : JVal) (xs : List JVal) :
    pretty n d (.list (x :: xs)) =
      '[' :: newline n (d + 1) ++ prettyList n (d + 1) (x :: xs) ++ newline n d ++ [']'] := by
  simp [pretty]
theorem pretty_obj_cons (n d : Nat) (kv : Str × JVal) (kvs : List (Str × JVal)) :
    pretty n d (.obj (kv :: kvs)) =
      '{' :: newline n (d + 1) ++ prettyFields n (d + 1) (kv :: kvs) ++ newline n d ++ ['}'] := by
  simp [pretty]

/-! ### the main statement: `indentGo` on `ser v` followed by any suffix -/

mutual
theorem indentGo_ser (hf : FmtContract) (n : Nat) : (v : JVal) → v.WF → ∀ (d : Nat) (rest : Str),
    indentGo n (ser v ++ rest) false false false d = pretty n d v ++ indentGo n rest false false false d
  | .null, _, d, rest => by
    simp only [pretty, ser]
    exact indentGo_plains n _ rest d (by decide)
  | .bool true, _, d, rest => by
    simp only [pretty, ser]
    exact indentGo_plains n _ rest d (by decide)
  | .bool false, _, d, rest => by
    simp only [pretty, ser]
    exact indentGo_plains n _ rest d (by decide)
  | .int i, _, d, rest => by
    simp only [pretty, ser]
    exact indentGo_numLike n _ rest d (itoa_numLike i)
  | .float x, hw, d, rest => by
    simp only [pretty, ser]
    exact indentGo_numLike n _ rest d (serF_numLike hf x (by simpa [JVal.WF] using hw))
  | .str s, _, d, rest => by
    simp only [pretty, ser]
    exact indentGo_quoteJSON n s rest d
  | .list [], _, d, rest => by
    simp only [pretty, ser, serList, List.nil_append, List.cons_append, indentGo_open_brack,
      indentGo_empty_brack]
  | .list (x :: xs), hw, d, rest => by
    have hw' : WFList (x :: xs) := by simpa [JVal.WF] using hw
    have e : ser (.list (x :: xs)) ++ rest = '[' :: (serList (x :: xs) ++ ']' :: rest) := by simp [ser]
    rw [e, indentGo_open_brack,
      indentGo_need_goodHead n _ d ((Strict.serList_goodHead hf x xs hw'.1).append _),
      indentGo_serList hf n (x :: xs) hw' (by simp) d rest, pretty_list_cons]
    simp
  | .obj [], _, d, rest => by
    simp only [pretty, ser, serFields, List.nil_append, List.cons_append, indentGo_open_brace,
      indentGo_empty_brace]
  | .obj (kv :: kvs), hw, d, rest => by
    have hw' : ((kv :: kvs).map Prod.fst).Nodup ∧ WFFields (kv :: kvs) := by simpa [JVal.WF] using hw
    obtain ⟨t, ht⟩ := Strict.serFields_goodHead kv kvs
    have e : ser (.obj (kv :: kvs)) ++ rest = '{' :: (serFields (kv :: kvs) ++ '}' :: rest) := by simp [ser]
    have hg : Strict.GoodHead (serFields (kv :: kvs) ++ '}' :: rest) := by
      rw [ht]; exact ⟨'"', _, rfl, by decide⟩
    rw [e, indentGo_open_brace, indentGo_need_goodHead n _ d hg,
      indentGo_serFields hf n (kv :: kvs) hw'.2 (by simp) d rest, pretty_obj_cons]
    simp
theorem indentGo_serList (hf : FmtContract) (n : Nat) : (xs : List JVal) → WFList xs → xs ≠ [] →
    ∀ (d : Nat) (rest : Str),
    indentGo n (serList xs ++ ']' :: rest) false false false (d + 1) =
      prettyList n (d + 1) xs ++ newline n d ++ ']' :: indentGo n rest false false false d
  | [], _, h, _, _ => absurd rfl h
  | [x], hw, _, d, rest => by
    rw [serList_single, prettyList_single, indentGo_ser hf n x hw.1, indentGo_close_brack]
    simp
  | x :: y :: ys, hw, _, d, rest => by
    rw [serList_cons_cons, prettyList_cons_cons, List.append_assoc, indentGo_ser hf n x hw.1,
      List.cons_append, indentGo_comma, indentGo_serList hf n (y :: ys) hw.2 (by simp) d rest]
    simp
theorem indentGo_serFields (hf : FmtContract) (n : Nat) : (kvs : List (Str × JVal)) → WFFields kvs → kvs ≠ [] →
    ∀ (d : Nat) (rest : Str),
    indentGo n (serFields kvs ++ '}' :: rest) false false false (d + 1) =
      prettyFields n (d + 1) kvs ++ newline n d ++ '}' :: indentGo n rest false false false d
  | [], _, h, _, _ => absurd rfl h
  | [(k, v)], hw, _, d, rest => by
    rw [serFields_single, prettyFields_single, List.append_assoc, indentGo_quoteJSON, List.cons_append,
      indentGo_colon, indentGo_ser hf n v hw.1, indentGo_close_brace]
    simp
  | (k, v) :: kv :: kvs, hw, _, d, rest => by
    rw [serFields_cons_cons, prettyFields_cons_cons]
    simp only [List.append_assoc, List.cons_append]
    rw [indentGo_quoteJSON, indentGo_colon, indentGo_ser hf n v hw.1, indentGo_comma,
      indentGo_serFields hf n (kv :: kvs) hw.2 (by simp) d rest]
    simp
end


/-! ### the strict decoder on the canonical layout -/
namespace Strict

theorem skipWs_replicate (k : Nat) (t : Str) : skipWs (List.replicate k ' ' ++ t) = skipWs t := by
  induction k with
  | zero => rfl
  | succ k ih => simp only [List.replicate_succ, List.cons_append, skipWs]; simpa [isWs] using ih

theorem skipWs_newline (n d : Nat) (t : Str) : skipWs (newline n d ++ t) = skipWs t := by
  simp only [newline, List.cons_append, skipWs]
  simpa [isWs] using skipWs_replicate (n * d) t

theorem skipWs_space (t : Str) : skipWs (' ' :: t) = skipWs t := by
  simp [skipWs, isWs]

theorem numStop_nil : NumStop [] := by intro c t e; cases e

theorem numStop_cons (c : Char) (t : Str)
    (h : F64.isDigit c = false ∧ c ≠ '.' ∧ c ≠ 'e' ∧ c ≠ 'E' ∧ c ≠ '+' ∧ c ≠ '-') : NumStop (c :: t) := by
  intro c' t' e; cases e; exact h

theorem numStop_newline (n d : Nat) (t : Str) : NumStop (newline n d ++ t) :=
  numStop_cons _ _ (by decide)

theorem value_int' (f : Nat) (rest : Str) (i : Int) (hi : InRange i) (hr : NumStop rest) :
    value (f + 1) (ser (.int i) ++ rest) = .ok (.int i) rest := by
  simp only [ser]
  exact value_numLike _ _ _ (itoa_numLike i) _ _ (number_append _ _ _ (number_itoa i hi) hr)

theorem value_float' (hf : FmtContract) (f : Nat) (rest : Str) (x : F64) (hx : x.isFinite = true)
    (hr : NumStop rest) : value (f + 1) (ser (.float x) ++ rest) = .ok (.float x) rest := by
  simp only [ser]
  exact value_numLike _ _ _ (serF_numLike hf x hx) _ _ (number_append _ _ _ (hf.strict x hx) hr)

theorem pretty_goodHead (hf : FmtContract) (n d : Nat) (v : JVal) (hw : v.WF) : GoodHead (pretty n d v) := by
  cases v with
  | null => exact ⟨'n', _, rfl, by decide⟩
  | bool b => cases b <;> exact ⟨_, _, rfl, by decide⟩
  | int i => simp only [pretty, ser]; exact numLike_goodHead (itoa_numLike i)
  | float x => simp only [pretty, ser]; exact numLike_goodHead (serF_numLike hf x (by simpa [JVal.WF] using hw))
  | str s => exact ⟨'"', _, rfl, by decide⟩
  | list xs =>
    cases xs with
    | nil => exact ⟨'[', [']'], rfl, by decide⟩
    | cons x xs => rw [pretty_list_cons]; exact ⟨'[', _, rfl, by decide⟩
  | obj kvs =>
    cases kvs with
    | nil => exact ⟨'{', ['}'], rfl, by decide⟩
    | cons x xs => rw [pretty_obj_cons]; exact ⟨'{', _, rfl, by decide⟩

theorem prettyList_goodHead (hf : FmtContract) (n d : Nat) (x : JVal) (xs : List JVal) (hw : x.WF) :
    GoodHead (prettyList n d (x :: xs)) := by
  cases xs with
  | nil => rw [prettyList_single]; exact pretty_goodHead hf n d x hw
  | cons y ys => rw [prettyList_cons_cons, List.append_assoc]; exact (pretty_goodHead hf n d x hw).append _

theorem prettyFields_head (n d : Nat) (kv : Str × JVal) (kvs : List (Str × JVal)) :
    ∃ t, prettyFields n d (kv :: kvs) = '"' :: t := by
  obtain ⟨k, v⟩ := kv
  cases kvs with
  | nil => rw [prettyFields_single]; exact ⟨_, rfl⟩
  | cons y ys => rw [prettyFields_cons_cons]; exact ⟨_, rfl⟩

theorem value_list_ws (f : Nat) (t t1 : Str) (hs : skipWs t = t1) (h : GoodHead t1) :
    value (f + 1) ('[' :: t) = elements f t1 [] := by
  obtain ⟨c, t', e, _, hc, _⟩ := h
  simp only [value, beq_self_eq_true, if_true, hs]
  subst e
  split
  · rename_i h1; simp at h1; exact absurd h1.1 hc
  · rfl

theorem value_obj_ws (f : Nat) (t t1 : Str) (hs : skipWs t = '"' :: t1) :
    value (f + 1) ('{' :: t) = members f ('"' :: t1) [] := by
  simp [value, hs]

theorem elements_last' (f : Nat) (s r r' : Str) (acc : List JVal) (v : JVal)
    (h : value f s = .ok v r) (hs : skipWs r = ']' :: r') :
    elements (f + 1) s acc = .ok (.list (acc ++ [v])) r' := by
  simp [elements, h, hs]

theorem elements_comma' (f : Nat) (s r r1 : Str) (acc : List JVal) (v : JVal)
    (h : value f s = .ok v r) (hs : skipWs r = ',' :: r1) :
    elements (f + 1) s acc = elements f (skipWs r1) (acc ++ [v]) := by
  simp [elements, h, hs]

theorem members_last' (f : Nat) (k r0 r1 r2 r' : Str) (acc : List (Str × JVal)) (v : JVal)
    (h0 : skipWs r0 = ':' :: r1) (h : value f (skipWs r1) = .ok v r2) (hs : skipWs r2 = '}' :: r') :
    members (f + 1) (quoteJSON k ++ r0) acc = .ok (.obj (setField acc k v)) r' := by
  simp only [quoteJSON, List.cons_append, List.append_assoc, List.nil_append, members]
  rw [stringBody_quoteBody k _ [] _ (by have := quoteBody_length k; simp; omega)]
  simp [h0, h, hs]

theorem members_comma' (f : Nat) (k r0 r1 r2 r' : Str) (acc : List (Str × JVal)) (v : JVal)
    (h0 : skipWs r0 = ':' :: r1) (h : value f (skipWs r1) = .ok v r2) (hs : skipWs r2 = ',' :: r') :
    members (f + 1) (quoteJSON k ++ r0) acc = members f (skipWs r') (setField acc k v) := by
  simp only [quoteJSON, List.cons_append, List.append_assoc, List.nil_append, members]
  rw [stringBody_quoteBody k _ [] _ (by have := quoteBody_length k; simp; omega)]
  simp [h0, h, hs]

mutual
theorem value_pretty (hf : FmtContract) (n : Nat) : (v : JVal) → v.WF → ∀ (d fuel : Nat) (rest : Str),
    (pretty n d v).length < fuel → NumStop rest → value fuel (pretty n d v ++ rest) = .ok v rest
  | .null, _, d, fuel, rest, hfu, _ => by
    cases fuel with
    | zero => omega
    | succ f => exact value_null f rest
  | .bool b, _, d, fuel, rest, hfu, _ => by
    cases fuel with
    | zero => omega
    | succ f => cases b; exact value_false f rest; exact value_true f rest
  | .int i, hw, d, fuel, rest, hfu, hr => by
    cases fuel with
    | zero => omega
    | succ f => exact value_int' f rest i (by simpa [JVal.WF] using hw) hr
  | .float x, hw, d, fuel, rest, hfu, hr => by
    cases fuel with
    | zero => omega
    | succ f => exact value_float' hf f rest x (by simpa [JVal.WF] using hw) hr
  | .str s, _, d, fuel, rest, hfu, _ => by
    cases fuel with
    | zero => omega
    | succ f => exact value_str f rest s
  | .list [], _, d, fuel, rest, hfu, _ => by
    cases fuel with
    | zero => omega
    | succ f => simp [pretty, value, skipWs, isWs]
  | .list (x :: xs), hw, d, fuel, rest, hfu, _ => by
    cases fuel with
    | zero => omega
    | succ f =>
      have hw' : WFList (x :: xs) := by simpa [JVal.WF] using hw
      have e : pretty n d (.list (x :: xs)) ++ rest =
          '[' :: (newline n (d + 1) ++ (prettyList n (d + 1) (x :: xs) ++ (newline n d ++ ']' :: rest))) := by
        simp [pretty]
      have hg := (prettyList_goodHead hf n (d + 1) x xs hw'.1).append (newline n d ++ ']' :: rest)
      rw [e, value_list_ws f _ _ (by rw [skipWs_newline]; exact hg.skipWs) hg]
      have := elements_pretty hf n (x :: xs) hw' (by simp) d f [] rest
        (by rw [pretty_list_cons] at hfu; simp at hfu; omega)
      simpa using this
  | .obj [], _, d, fuel, rest, hfu, _ => by
    cases fuel with
    | zero => omega
    | succ f => simp [pretty, value, skipWs, isWs]
  | .obj (kv :: kvs), hw, d, fuel, rest, hfu, _ => by
    cases fuel with
    | zero => omega
    | succ f =>
      have hw' : ((kv :: kvs).map Prod.fst).Nodup ∧ WFFields (kv :: kvs) := by simpa [JVal.WF] using hw
      obtain ⟨t, ht⟩ := prettyFields_head n (d + 1) kv kvs
      have e : pretty n d (.obj (kv :: kvs)) ++ rest =
          '{' :: (newline n (d + 1) ++ (prettyFields n (d + 1) (kv :: kvs) ++ (newline n d ++ '}' :: rest))) := by
        simp [pretty]
      have := members_pretty hf n (kv :: kvs) hw'.2 (by simp) d f [] rest
        (by rw [pretty_obj_cons] at hfu; simp at hfu; omega) (by simpa using hw'.1)
      rw [e]
      rw [ht] at this ⊢
      rw [value_obj_ws f _ (t ++ (newline n d ++ '}' :: rest))
        (by rw [skipWs_newline]; exact skipWs_cons _ (by decide))]
      simpa using this
theorem elements_pretty (hf : FmtContract) (n : Nat) : (xs : List JVal) → WFList xs → xs ≠ [] →
    ∀ (d fuel : Nat) (acc : List JVal) (rest : Str), (prettyList n (d + 1) xs).length + 1 < fuel →
    elements fuel (prettyList n (d + 1) xs ++ newline n d ++ ']' :: rest) acc = .ok (.list (acc ++ xs)) rest
  | [], _, h, _, _, _, _, _ => absurd rfl h
  | [x], hw, _, d, fuel, acc, rest, hfu => by
    cases fuel with
    | zero => omega
    | succ f =>
      rw [prettyList_single] at hfu ⊢
      rw [List.append_assoc]
      exact elements_last' f _ _ rest acc x
        (value_pretty hf n x hw.1 (d + 1) f _ (by omega) (numStop_newline n d _))
        (by rw [skipWs_newline]; exact skipWs_cons _ (by decide))
  | x :: y :: ys, hw, _, d, fuel, acc, rest, hfu => by
    cases fuel with
    | zero => omega
    | succ f =>
      rw [prettyList_cons_cons] at hfu ⊢
      simp only [List.length_append, List.length_cons] at hfu
      have hg := (prettyList_goodHead hf n (d + 1) y ys hw.2.1).append (newline n d ++ ']' :: rest)
      have hv := value_pretty hf n x hw.1 (d + 1) f
        (',' :: (newline n (d + 1) ++ (prettyList n (d + 1) (y :: ys) ++ (newline n d ++ ']' :: rest))))
        (by omega) (numStop_cons _ _ (by decide))
      have hm := elements_pretty hf n (y :: ys) hw.2 (by simp) d f (acc ++ [x]) rest (by omega)
      simp only [List.append_assoc, List.cons_append] at hm ⊢
      rw [elements_comma' f _ _ _ acc x hv (skipWs_cons _ (by decide)), skipWs_newline, hg.skipWs, hm]
      simp
theorem members_pretty (hf : FmtContract) (n : Nat) : (kvs : List (Str × JVal)) → WFFields kvs → kvs ≠ [] →
    ∀ (d fuel : Nat) (acc : List (Str × JVal)) (rest : Str), (prettyFields n (d + 1) kvs).length + 1 < fuel →
    ((acc ++ kvs).map Prod.fst).Nodup →
    members fuel (prettyFields n (d + 1) kvs ++ newline n d ++ '}' :: rest) acc = .ok (.obj (acc ++ kvs)) rest
  | [], _, h, _, _, _, _, _, _ => absurd rfl h
  | [(k, v)], hw, _, d, fuel, acc, rest, hfu, hnd => by
    cases fuel with
    | zero => omega
    | succ f =>
      rw [prettyFields_single] at hfu ⊢
      simp only [List.length_append, List.length_cons] at hfu
      have hk : k ∉ acc.map Prod.fst := by
        simp only [List.map_append, List.map_cons, List.map_nil] at hnd
        have := (List.nodup_append.mp hnd).2.2
        intro hm; exact this k hm k (by simp) rfl
      have hg := (pretty_goodHead hf n (d + 1) v hw.1).append (newline n d ++ '}' :: rest)
      have hv := value_pretty hf n v hw.1 (d + 1) f (newline n d ++ '}' :: rest) (by omega)
        (numStop_newline n d _)
      simp only [List.append_assoc, List.cons_append]
      rw [members_last' f k _ _ _ rest acc v (skipWs_cons _ (by decide))
          (by rw [skipWs_space, hg.skipWs]; exact hv)
          (by rw [skipWs_newline]; exact skipWs_cons _ (by decide)),
        setField_append acc k v hk]
  | (k, v) :: kv :: kvs, hw, _, d, fuel, acc, rest, hfu, hnd => by
    cases fuel with
    | zero => omega
    | succ f =>
      rw [prettyFields_cons_cons] at hfu ⊢
      simp only [List.length_append, List.length_cons] at hfu
      have hk : k ∉ acc.map Prod.fst := by
        simp only [List.map_append, List.map_cons] at hnd
        have := (List.nodup_append.mp hnd).2.2
        intro hm; exact this k hm k (by simp) rfl
      obtain ⟨t, ht⟩ := prettyFields_head n (d + 1) kv kvs
      have hg := (pretty_goodHead hf n (d + 1) v hw.1).append
        (',' :: (newline n (d + 1) ++ (prettyFields n (d + 1) (kv :: kvs) ++ (newline n d ++ '}' :: rest))))
      have hv := value_pretty hf n v hw.1 (d + 1) f
        (',' :: (newline n (d + 1) ++ (prettyFields n (d + 1) (kv :: kvs) ++ (newline n d ++ '}' :: rest))))
        (by omega) (numStop_cons _ _ (by decide))
      have hm := members_pretty hf n (kv :: kvs) hw.2 (by simp) d f (acc ++ [(k, v)]) rest (by omega)
        (by simpa using hnd)
      simp only [List.append_assoc, List.cons_append] at hm ⊢
      rw [members_comma' f k _ _ _ _ acc v (skipWs_cons _ (by decide))
          (by rw [skipWs_space, hg.skipWs]; exact hv) (skipWs_cons _ (by decide)),
        skipWs_newline, setField_append acc k v hk]
      rw [ht] at hm ⊢
      rw [List.cons_append, skipWs_cons _ (by decide)]
      simpa using hm
end

theorem decode_pretty (hf : FmtContract) (n : Nat) (v : JVal) (hw : v.WF) :
    decode (pretty n 0 v) = .ok v [] := by
  unfold decode
  rw [(pretty_goodHead hf n 0 v hw).skipWs]
  have := value_pretty hf n v hw 0 ((pretty n 0 v).length + 1) [] (by omega) numStop_nil
  rw [List.append_nil] at this
  rw [this]; rfl

end Strict

/-! ### `hasNonFinite` is false on the domain -/

mutual
theorem hasNonFinite_of_WF : (v : JVal) → v.WF → hasNonFinite v = false
  | .null, _ => rfl
  | .bool _, _ => rfl
  | .int _, _ => rfl
  | .float f, hw => by
    have : f.isFinite = true := by simpa [JVal.WF] using hw
    simp [hasNonFinite, this]
  | .str _, _ => rfl
  | .list xs, hw => by
    simp only [hasNonFinite]; exact hasNonFiniteList_of_WF xs (by simpa [JVal.WF] using hw)
  | .obj kvs, hw => by
    have hw' : (kvs.map Prod.fst).Nodup ∧ WFFields kvs := by simpa [JVal.WF] using hw
    simp only [hasNonFinite]; exact hasNonFiniteFields_of_WF kvs hw'.2
theorem hasNonFiniteList_of_WF : (xs : List JVal) → WFList xs → hasNonFiniteList xs = false
  | [], _ => rfl
  | x :: xs, hw => by
    simp only [hasNonFiniteList, hasNonFinite_of_WF x hw.1, hasNonFiniteList_of_WF xs hw.2, Bool.or_self]
theorem hasNonFiniteFields_of_WF : (kvs : List (Str × JVal)) → WFFields kvs → hasNonFiniteFields kvs = false
  | [], _ => rfl
  | (k, x) :: kvs, hw => by
    simp only [hasNonFiniteFields, hasNonFinite_of_WF x hw.1, hasNonFiniteFields_of_WF kvs hw.2, Bool.or_self]
end

end Anytype
