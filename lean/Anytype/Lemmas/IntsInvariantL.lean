/-
The hypothesis `IntsOK h a` of `Lemmas/ListGen2Eq` ("the ints stored in the list cell `a` are in the
int64 range") as an invariant of the whole heap, list side.

* `AllIntsOK h`: every int stored in any list cell and in any object field of `h` is `InRange`;
* it holds for the empty heap and is kept by the primitives (`setItems`, `setFields`, allocation),
  by `parseVal` / `addEach` / `setEach` (no precondition on the `GoVal` argument: `parseVal` wraps
  every integer with `wrap64`) and by every state-changing List operation (one `_allIntsOK` theorem
  per operation, in the style of the `_wf` theorems of `Lemmas/HeapWF`);
* `filterGen_eq_of_allIntsOK` / `filterIntsGen_eq_of_allIntsOK`: the conditional equalities of
  `ListGen2Eq` with the invariant as their hypothesis.

The object side, clone, the tree-form writes and the parser are in `Lemmas/IntsInvariantO`.
-/
import Anytype.Lemmas.ListGen2Eq
import Anytype.Lemmas.HeapWF
namespace Anytype
open Heap L2Eq

/-- every int stored anywhere in the heap (list items, object fields) is in the int64 range -/
def AllIntsOK (h : Heap) : Prop :=
  ∀ a, (∀ v ∈ h.items a, IntOK v) ∧ (∀ kv ∈ h.fields a, IntOK kv.2)

/-- the hypothesis of `filterGen_eq` / `filterIntsGen_eq`, for every receiver -/
theorem AllIntsOK.intsOK {h : Heap} (ok : AllIntsOK h) (a : Nat) : IntsOK h a := (ok a).1

theorem AllIntsOK.heapIntsOK {h : Heap} (ok : AllIntsOK h) : HeapIntsOK h := fun a => (ok a).1

/-- the same thing said cell by cell -/
def Cell.intsOK : Cell → Prop
  | .list xs _ => ∀ v ∈ xs, IntOK v
  | .obj kvs _ => ∀ kv ∈ kvs, IntOK kv.2

theorem allIntsOK_iff_cells (h : Heap) : AllIntsOK h ↔ ∀ c ∈ h, c.intsOK := by
  constructor
  · intro ok c hc
    obtain ⟨a, ha, rfl⟩ := List.getElem_of_mem hc
    have e : h[a]? = some h[a] := List.getElem?_eq_getElem ha
    have oka := ok a
    cases hc' : h[a] with
    | list xs e' =>
      rw [hc'] at e
      simpa [Cell.intsOK, items, e] using oka.1
    | obj kvs e' =>
      rw [hc'] at e
      simpa [Cell.intsOK, fields, e] using oka.2
  · intro hc a
    cases e : h[a]? with
    | none => simp [items, fields, e]
    | some c =>
      have hm : c ∈ h := List.mem_of_getElem? e
      have := hc c hm
      cases c with
      | list xs e' => simpa [Cell.intsOK, items, fields, e] using this
      | obj kvs e' => simpa [Cell.intsOK, items, fields, e] using this

theorem intOK_int_iff (i : Int) : IntOK (.int i) ↔ InRange i := Iff.rfl

theorem intOK_of_kind {v : Val} (hk : v.kind ≠ .int) : IntOK v := by
  cases v <;> simp_all [IntOK, Val.kind]

/-! ### the empty heap and the primitives -/

theorem allIntsOK_nil : AllIntsOK [] := by
  intro a; simp [items, fields]

theorem AllIntsOK.setItems {h : Heap} (ok : AllIntsOK h) (a : Nat) (xs : List Val)
    (hx : ∀ v ∈ xs, IntOK v) : AllIntsOK (h.setItems a xs) := by
  intro b
  constructor
  · intro v hv
    rw [items_setItems] at hv
    split at hv
    · exact hx v hv
    · exact (ok b).1 v hv
  · intro kv hkv
    rw [fields_setItems] at hkv
    exact (ok b).2 kv hkv

theorem AllIntsOK.setItems_sub {h : Heap} (ok : AllIntsOK h) (a : Nat) (xs : List Val)
    (hx : ∀ v ∈ xs, v ∈ h.items a) : AllIntsOK (h.setItems a xs) :=
  ok.setItems a xs (fun v hv => (ok a).1 v (hx v hv))

theorem AllIntsOK.setFields {h : Heap} (ok : AllIntsOK h) (a : Nat) (kvs : List (Str × Val))
    (hx : ∀ kv ∈ kvs, IntOK kv.2) : AllIntsOK (h.setFields a kvs) := by
  intro b
  constructor
  · intro v hv
    rw [items_setFields] at hv
    exact (ok b).1 v hv
  · intro kv hkv
    rw [fields_setFields] at hkv
    split at hkv
    · exact hx kv hkv
    · exact (ok b).2 kv hkv

theorem AllIntsOK.append_list {h : Heap} (ok : AllIntsOK h) (xs : List Val) (e : Nat)
    (hx : ∀ v ∈ xs, IntOK v) : AllIntsOK (h ++ [.list xs e]) := by
  intro b
  constructor
  · intro v hv
    rw [items_append] at hv
    split at hv
    · exact hx v hv
    · exact (ok b).1 v hv
  · intro kv hkv
    rw [fields_append] at hkv
    split at hkv
    · simp at hkv
    · exact (ok b).2 kv hkv

theorem AllIntsOK.append_obj {h : Heap} (ok : AllIntsOK h) (kvs : List (Str × Val)) (e : Nat)
    (hx : ∀ kv ∈ kvs, IntOK kv.2) : AllIntsOK (h ++ [.obj kvs e]) := by
  intro b
  constructor
  · intro v hv
    rw [items_append] at hv
    split at hv
    · simp at hv
    · exact (ok b).1 v hv
  · intro kv hkv
    rw [fields_append] at hkv
    split at hkv
    · exact hx kv hkv
    · exact (ok b).2 kv hkv

/-- `m[k] = v` keeps the fields in range -/
theorem intOK_setKV {kvs : List (Str × Val)} {k : Str} {v : Val}
    (hk : ∀ kv ∈ kvs, IntOK kv.2) (hv : IntOK v) : ∀ kv ∈ setKV kvs k v, IntOK kv.2 := by
  intro kv hm
  rcases mem_setKV hm with e | hm
  · rw [e]; exact hv
  · exact hk kv hm

theorem mem_delKV {α} {kvs : List (Str × α)} {k : Str} {p : Str × α} (hp : p ∈ delKV kvs k) : p ∈ kvs := by
  induction kvs with
  | nil => simp [delKV] at hp
  | cons kv kvs ih =>
    obtain ⟨k', v'⟩ := kv
    unfold delKV at hp
    split at hp
    · exact List.mem_cons_of_mem _ hp
    · rcases List.mem_cons.1 hp with e | hm
      · rw [e]; exact List.mem_cons_self
      · exact List.mem_cons_of_mem _ (ih hm)

/-- what `getVal()` hands out of a heap that satisfies the invariant is in range -/
theorem AllIntsOK.getVal_item {h : Heap} (ok : AllIntsOK h) {a : Nat} {v : Val} (hv : v ∈ h.items a) :
    IntOK (h.getVal v) := intOK_getVal h ((ok a).1 v hv)

theorem AllIntsOK.getVal_field {h : Heap} (ok : AllIntsOK h) {a : Nat} {kv : Str × Val} (hv : kv ∈ h.fields a) :
    IntOK (h.getVal kv.2) := intOK_getVal h ((ok a).2 kv hv)

/-! ### `parseVal` / `addEach` / `setEach`: whatever the Go value, what is stored is in range -/

mutual
theorem parseVal_allIntsOK : ∀ (h : Heap) (g : GoVal), AllIntsOK h →
    AllIntsOK (parseVal h g).1 ∧ ∀ v, (parseVal h g).2 = .ok v → IntOK v
  | h, .nil, ok => by simp only [parseVal]; exact ⟨ok, fun v e => by cases e; trivial⟩
  | h, .bool _, ok => by simp only [parseVal]; exact ⟨ok, fun v e => by cases e; trivial⟩
  | h, .intw _ i, ok => by
    simp only [parseVal]; exact ⟨ok, fun v e => by cases e; exact wrap64_inRange' i⟩
  | h, .f64 _, ok => by simp only [parseVal]; exact ⟨ok, fun v e => by cases e; trivial⟩
  | h, .f32 _, ok => by simp only [parseVal]; exact ⟨ok, fun v e => by cases e; trivial⟩
  | h, .str _, ok => by simp only [parseVal]; exact ⟨ok, fun v e => by cases e; trivial⟩
  | h, .list _, ok => by simp only [parseVal]; exact ⟨ok, fun v e => by cases e; trivial⟩
  | h, .obj _, ok => by simp only [parseVal]; exact ⟨ok, fun v e => by cases e; trivial⟩
  | h, .unsupported, ok => by simp only [parseVal]; exact ⟨ok, fun v e => by cases e⟩
  | h, .slice _ xs, ok => by
    have ih := addEach_allIntsOK (h ++ [.list [] 0]) h.length xs (ok.append_list [] 0 (by simp))
    simp only [parseVal]
    split
    · next h1 u hp => rw [hp] at ih; exact ⟨ih, fun v e => by cases e; trivial⟩
    · next h1 k hp => rw [hp] at ih; exact ⟨ih, fun v e => by cases e⟩
  | h, .map _ kvs, ok => by
    have ih := setEach_allIntsOK (h ++ [.obj [] 0]) h.length kvs (ok.append_obj [] 0 (by simp))
    simp only [parseVal]
    split
    · next h1 u hp => rw [hp] at ih; exact ⟨ih, fun v e => by cases e; trivial⟩
    · next h1 k hp => rw [hp] at ih; exact ⟨ih, fun v e => by cases e⟩
theorem addEach_allIntsOK : ∀ (h : Heap) (a : Nat) (gs : List GoVal), AllIntsOK h → AllIntsOK (addEach h a gs).1
  | h, a, [], ok => by simp only [addEach]; exact ok
  | h, a, g :: gs, ok => by
    have ih1 := parseVal_allIntsOK h g ok
    simp only [addEach]
    split
    · next h1 k hp => rw [hp] at ih1; exact ih1.1
    · next h1 v hp =>
      rw [hp] at ih1
      refine addEach_allIntsOK _ a gs (ih1.1.setItems a _ (fun w hw => ?_))
      rcases List.mem_append.1 hw with hw | hw
      · exact (ih1.1 a).1 w hw
      · rw [List.mem_singleton.1 hw]; exact ih1.2 v rfl
theorem setEach_allIntsOK : ∀ (h : Heap) (a : Nat) (kvs : List (Str × GoVal)), AllIntsOK h →
    AllIntsOK (setEach h a kvs).1
  | h, a, [], ok => by simp only [setEach]; exact ok
  | h, a, (k, g) :: kvs, ok => by
    have ih1 := parseVal_allIntsOK h g ok
    simp only [setEach]
    split
    · next h1 p hp => rw [hp] at ih1; exact ih1.1
    · next h1 v hp =>
      rw [hp] at ih1
      exact setEach_allIntsOK _ a kvs
        (ih1.1.setFields a _ (intOK_setKV (ih1.1 a).2 (ih1.2 v rfl)))
end

/-- `parseVal` with its result named -/
theorem parseVal_allIntsOK' {h h1 : Heap} {g : GoVal} {r : Out Val} (ok : AllIntsOK h)
    (hp : parseVal h g = (h1, r)) : AllIntsOK h1 ∧ ∀ v, r = .ok v → IntOK v := by
  have := parseVal_allIntsOK h g ok
  rw [hp] at this; exact this

/-! ### every state-changing List operation keeps the invariant -/

namespace L

theorem new_allIntsOK (h : Heap) (gs : List GoVal) (ok : AllIntsOK h) : AllIntsOK (new h gs).1 := by
  have := addEach_allIntsOK (h ++ [.list [] 0]) h.length gs (ok.append_list [] 0 (by simp))
  unfold new
  simp only
  split <;> simp_all

theorem newOf_allIntsOK (h : Heap) (g : GoVal) (c : Int) (ok : AllIntsOK h) : AllIntsOK (newOf h g c).1 := by
  unfold newOf
  split
  · exact ok
  · have ih := parseVal_allIntsOK (h ++ [.list [] 0]) g (ok.append_list [] 0 (by simp))
    split
    · next h1 k hp => rw [hp] at ih; exact ih.1
    · next h1 v hp =>
      rw [hp] at ih
      exact ih.1.setItems _ _ (fun w hw => by
        rw [(List.mem_replicate.1 hw).2]; exact ih.2 v rfl)

theorem newFrom_allIntsOK (h : Heap) (g : GoVal) (ok : AllIntsOK h) : AllIntsOK (newFrom h g).1 := by
  unfold newFrom
  split
  · next fl xs =>
    have ih := (parseVal_allIntsOK h (.slice fl xs) ok).1
    split <;> simp_all
  · exact ok

theorem add_allIntsOK (h : Heap) (a : Nat) (gs : List GoVal) (ok : AllIntsOK h) : AllIntsOK (add h a gs).1 := by
  have := addEach_allIntsOK h a gs ok
  unfold add
  split <;> simp_all

theorem insert_allIntsOK (h : Heap) (a : Nat) (i : Int) (g : GoVal) (ok : AllIntsOK h) :
    AllIntsOK (insert h a i g).1 := by
  unfold insert
  split
  · exact ok
  · split
    · exact add_allIntsOK h a [g] ok
    · have ih := parseVal_allIntsOK h g ok
      split
      · next h1 k hp => rw [hp] at ih; exact ih.1
      · next h1 v hp =>
        rw [hp] at ih
        refine ih.1.setItems a _ (fun w hw => ?_)
        rcases List.mem_or_eq_of_mem_set hw with hw | hw
        · rcases List.mem_append.1 hw with hw | hw
          · exact (ih.1 a).1 w (List.mem_of_mem_take hw)
          · exact (ih.1 a).1 w (List.mem_of_mem_drop hw)
        · rw [hw]; exact ih.2 v rfl

theorem replace_allIntsOK (h : Heap) (a : Nat) (i : Int) (g : GoVal) (ok : AllIntsOK h) :
    AllIntsOK (replace h a i g).1 := by
  unfold replace
  split
  · exact ok
  · have ih := parseVal_allIntsOK h g ok
    split
    · next h1 k hp => rw [hp] at ih; exact ih.1
    · next h1 v hp =>
      rw [hp] at ih
      refine ih.1.setItems a _ (fun w hw => ?_)
      rcases List.mem_or_eq_of_mem_set hw with hw | hw
      · exact (ih.1 a).1 w hw
      · rw [hw]; exact ih.2 v rfl

theorem deleteLoop_allIntsOK (h : Heap) (a : Nat) (ds : List Int) (ok : AllIntsOK h) :
    AllIntsOK (deleteLoop h a ds).1 := by
  induction ds generalizing h with
  | nil => exact ok
  | cons d ds ih =>
    unfold deleteLoop
    split
    · exact ok
    · refine ih _ (ok.setItems_sub a _ (fun w hw => ?_))
      rcases List.mem_append.1 hw with hw | hw
      · exact List.mem_of_mem_take hw
      · exact List.mem_of_mem_drop hw

theorem delete_allIntsOK (h : Heap) (a : Nat) (idx : List Int) (ok : AllIntsOK h) :
    AllIntsOK (delete h a idx).1 := by
  have := deleteLoop_allIntsOK h a (idx.mergeSort (fun x y => decide (x ≤ y))).reverse ok
  unfold delete
  simp only
  split <;> simp_all

theorem pop_allIntsOK (h : Heap) (a : Nat) (ok : AllIntsOK h) : AllIntsOK (pop h a).1 :=
  delete_allIntsOK h a _ ok

theorem clear_allIntsOK (h : Heap) (a : Nat) (ok : AllIntsOK h) : AllIntsOK (clear h a).1 :=
  ok.setItems a [] (by simp)

theorem reverse_allIntsOK (h : Heap) (a : Nat) (ok : AllIntsOK h) : AllIntsOK (reverse h a).1 := by
  rw [reverse_eq]
  exact ok.setItems_sub a _ (fun w hw => List.mem_reverse.1 hw)

/-- the ints `Sort` writes back are the ints it extracted -/
theorem sort_allIntsOK (h : Heap) (a : Nat) (ok : AllIntsOK h) : AllIntsOK (sort h a).1 := by
  unfold sort
  simp only
  split
  · exact ok
  · exact ok.setItems a _ (fun w hw => by
      obtain ⟨s, _, rfl⟩ := List.mem_map.1 hw; trivial)
  · next i rest hx =>
    refine ok.setItems a _ (fun w hw => ?_)
    obtain ⟨s, hs, rfl⟩ := List.mem_map.1 hw
    have hs' := (List.mem_mergeSort).1 hs
    obtain ⟨x, hx', hxs⟩ := List.mem_filterMap.1 hs'
    cases x <;> simp only [asInt, reduceCtorEq, Option.some.injEq] at hxs
    subst hxs
    exact (ok a).1 _ hx'
  · exact ok.setItems a _ (fun w hw => by
      obtain ⟨s, _, rfl⟩ := List.mem_map.1 hw; trivial)
  · exact ok

theorem subList_allIntsOK (h : Heap) (a : Nat) (s e : Int) (ok : AllIntsOK h) :
    AllIntsOK (subList h a s e).1 := by
  rw [subList_cases h a s e]
  repeat' split
  all_goals first
    | exact ok
    | exact ok.append_list _ 0 (fun w hw =>
        (ok a).1 w (List.mem_of_mem_drop (List.mem_of_mem_take hw)))

theorem concat_allIntsOK (h : Heap) (a : Nat) (r : Ref) (ok : AllIntsOK h) : AllIntsOK (concat h a r).1 := by
  by_cases hb : h.isList r.addr = true
  · rw [concat_ok h a r hb]
    refine ok.append_list _ 0 (fun w hw => ?_)
    rcases List.mem_append.1 hw with hw | hw
    · exact (ok a).1 w hw
    · exact (ok r.addr).1 w hw
  · rw [concat_bad h a r hb]; exact ok

/-- `Filter`: what is kept is `getVal` of a stored item -/
theorem filter_allIntsOK (h : Heap) (a : Nat) (p : Val → Bool) (ok : AllIntsOK h) :
    AllIntsOK (filter h a p).1 := by
  unfold filter
  refine ok.append_list _ 0 (fun w hw => ?_)
  rcases mem_filterLoop h p _ _ _ hw with hm | ⟨x, hx, e⟩
  · cases hm
  · rw [e]; exact ok.getVal_item hx

/-- the typed `FilterX` -/
theorem filterK_allIntsOK (h : Heap) (a : Nat) (k : Kind) (p : Val → Bool) (ok : AllIntsOK h) :
    AllIntsOK (filterK h a k p).1 := by
  unfold filterK
  refine ok.append_list _ 0 (fun w hw => ?_)
  rcases mem_filterKLoop h k p _ _ _ hw with hm | ⟨x, hx, _, e | e⟩
  · cases hm
  · rw [e]; exact (ok a).1 x hx
  · rw [e]; exact ok.getVal_item hx

/-- the loop of `Map`: every callback result goes through `parseVal` (no hypothesis on the callback) -/
theorem mapLoop_allIntsOK (res : Nat) (f : Int → Val → GoVal) : ∀ (xs : List Val) (h : Heap) (i : Int),
    AllIntsOK h → AllIntsOK (mapLoop res f h xs i).1 := by
  intro xs
  induction xs with
  | nil => intro h i ok; exact ok
  | cons x xs ih =>
    intro h i ok
    have h1ok := addEach_allIntsOK h res [f i (h.getVal x)] ok
    unfold mapLoop
    split
    · next h1 k hp => rw [hp] at h1ok; exact h1ok
    · next h1 u hp => rw [hp] at h1ok; exact ih h1 _ h1ok

theorem map_allIntsOK (h : Heap) (a : Nat) (f : Int → Val → GoVal) (ok : AllIntsOK h) :
    AllIntsOK (map h a f).1 := by
  have := mapLoop_allIntsOK h.length f (h.items a) (h ++ [.list [] 0]) 0 (ok.append_list [] 0 (by simp))
  unfold map
  simp only
  split <;> simp_all

theorem mapValues_allIntsOK (h : Heap) (a : Nat) (f : Val → GoVal) (ok : AllIntsOK h) :
    AllIntsOK (mapValues h a f).1 := map_allIntsOK h a _ ok

theorem mapKLoop_allIntsOK (res : Nat) (k : Kind) (f : Val → GoVal) : ∀ (xs : List Val) (h : Heap),
    AllIntsOK h → AllIntsOK (mapKLoop res k f h xs).1 := by
  intro xs
  induction xs with
  | nil => intro h ok; exact ok
  | cons x xs ih =>
    intro h ok
    unfold mapKLoop
    split
    · next v hs =>
      have h1ok := addEach_allIntsOK h res [f v] ok
      split
      · next h1 p hp => rw [hp] at h1ok; exact h1ok
      · next h1 u hp => rw [hp] at h1ok; exact ih h1 h1ok
    · exact ih h ok

/-- the typed `MapX` -/
theorem mapK_allIntsOK (h : Heap) (a : Nat) (k : Kind) (f : Val → GoVal) (ok : AllIntsOK h) :
    AllIntsOK (mapK h a k f).1 := by
  have := mapKLoop_allIntsOK h.length k f (h.items a) (h ++ [.list [] 0]) (ok.append_list [] 0 (by simp))
  unfold mapK
  simp only
  split <;> simp_all

/-! what the read-only operations return is in range as well -/

theorem get_intOK (h : Heap) (a : Nat) (i : Int) (ok : AllIntsOK h) {v : Val} (hv : get h a i = .ok v) :
    IntOK v := by
  unfold get at hv
  split at hv
  · cases hv
  · split at hv
    · next w hw =>
      cases hv
      exact ok.getVal_item (List.mem_of_getElem? hw)
    · cases hv

end L

/-! ### programs of List operations (the `LOp` of `Lemmas/HeapWF`): no precondition at all -/

theorem stepL_allIntsOK (h : Heap) (op : LOp) (ok : AllIntsOK h) : AllIntsOK (stepL h op) := by
  cases op <;> simp only [stepL]
  · exact L.new_allIntsOK h _ ok
  · exact L.newOf_allIntsOK h _ _ ok
  · exact L.newFrom_allIntsOK h _ ok
  · exact L.add_allIntsOK h _ _ ok
  · exact L.insert_allIntsOK h _ _ _ ok
  · exact L.replace_allIntsOK h _ _ _ ok
  · exact L.delete_allIntsOK h _ _ ok
  · exact L.pop_allIntsOK h _ ok
  · exact L.clear_allIntsOK h _ ok
  · exact L.reverse_allIntsOK h _ ok
  · exact L.sort_allIntsOK h _ ok
  · exact L.subList_allIntsOK h _ _ _ ok
  · exact L.concat_allIntsOK h _ _ ok

theorem runL_allIntsOK (h : Heap) (ops : List LOp) (ok : AllIntsOK h) : AllIntsOK (runL h ops) := by
  induction ops generalizing h with
  | nil => exact ok
  | cons op ops ih => exact ih _ (stepL_allIntsOK h op ok)

/-- every heap a program of List operations builds from nothing satisfies the invariant -/
theorem runL_nil_allIntsOK (ops : List LOp) : AllIntsOK (runL [] ops) := runL_allIntsOK [] ops allIntsOK_nil

/-! ### the corollary: `Filter` / `FilterInts` of the Go code are the model's on every heap that
satisfies the invariant, whatever the receiver -/

open Generated Generated.L2 in
theorem filterGen_eq_of_allIntsOK (h : Heap) (ok : AllIntsOK h) (a : Nat) (p : Val → Bool) :
    filterGen h a p = okOf (L.filter h a p) := filterGen_eq h a p (ok.intsOK a)

open Generated Generated.L2 in
theorem filterIntsGen_eq_of_allIntsOK (h : Heap) (ok : AllIntsOK h) (a : Nat) (p : Val → Bool) :
    filterIntsGen h a p = okOf (L.filterK h a .int p) := filterIntsGen_eq h a p (ok.intsOK a)

/-- … in particular on every heap built by List operations from the empty heap -/
theorem filterGen_eq_of_runL (ops : List LOp) (a : Nat) (p : Val → Bool) :
    Generated.L2.filterGen (runL [] ops) a p = okOf (L.filter (runL [] ops) a p) :=
  filterGen_eq_of_allIntsOK _ (runL_nil_allIntsOK ops) a p

theorem filterIntsGen_eq_of_runL (ops : List LOp) (a : Nat) (p : Val → Bool) :
    Generated.L2.filterIntsGen (runL [] ops) a p = okOf (L.filterK (runL [] ops) a .int p) :=
  filterIntsGen_eq_of_allIntsOK _ (runL_nil_allIntsOK ops) a p

/-! ### the predicate is neither vacuous nor trivial -/

/-- a heap with a list cell (ints at both ends of the range, a reference) and an object cell -/
example : AllIntsOK [Cell.list [.int (2^63 - 1), .str ['a'], .int (-2^63), .obj ⟨1, 0⟩] 0,
    Cell.obj [(['k'], .int 7), (['l'], .list ⟨0, 0⟩)] 0] := by
  rw [allIntsOK_iff_cells]
  intro c hc
  simp only [List.mem_cons, List.not_mem_nil, or_false] at hc
  rcases hc with rfl | rfl <;> intro v hv <;>
    simp only [List.mem_cons, List.not_mem_nil, or_false] at hv
  · rcases hv with rfl | rfl | rfl | rfl <;> simp [IntOK, InRange]
  · rcases hv with rfl | rfl <;> simp [IntOK, InRange]

/-- an out-of-range int in a list cell violates it -/
example : ¬ AllIntsOK [Cell.list [.int (2^63)] 0] := by
  intro ok
  have := (ok 0).1 (.int (2^63)) (by simp [items])
  simp [IntOK, InRange] at this

/-- … and so does one in an object field -/
example : ¬ AllIntsOK [Cell.list [] 0, Cell.obj [(['k'], .int (-2^63 - 1))] 0] := by
  intro ok
  have := (ok 1).2 (['k'], .int (-2^63 - 1)) (by simp [fields])
  simp [IntOK, InRange] at this

end Anytype

#print axioms Anytype.allIntsOK_iff_cells
#print axioms Anytype.parseVal_allIntsOK
#print axioms Anytype.addEach_allIntsOK
#print axioms Anytype.setEach_allIntsOK
#print axioms Anytype.L.new_allIntsOK
#print axioms Anytype.L.newOf_allIntsOK
#print axioms Anytype.L.newFrom_allIntsOK
#print axioms Anytype.L.add_allIntsOK
#print axioms Anytype.L.insert_allIntsOK
#print axioms Anytype.L.replace_allIntsOK
#print axioms Anytype.L.delete_allIntsOK
#print axioms Anytype.L.pop_allIntsOK
#print axioms Anytype.L.clear_allIntsOK
#print axioms Anytype.L.reverse_allIntsOK
#print axioms Anytype.L.sort_allIntsOK
#print axioms Anytype.L.subList_allIntsOK
#print axioms Anytype.L.concat_allIntsOK
#print axioms Anytype.L.filter_allIntsOK
#print axioms Anytype.L.filterK_allIntsOK
#print axioms Anytype.L.map_allIntsOK
#print axioms Anytype.L.mapValues_allIntsOK
#print axioms Anytype.L.mapK_allIntsOK
#print axioms Anytype.runL_nil_allIntsOK
#print axioms Anytype.filterGen_eq_of_allIntsOK
#print axioms Anytype.filterIntsGen_eq_of_allIntsOK
#print axioms Anytype.filterGen_eq_of_runL
#print axioms Anytype.filterIntsGen_eq_of_runL
