/-
`AllIntsOK` (every int stored in the heap is in the int64 range, `Lemmas/IntsInvariantL`) is kept by
the object operations, by `Init` (`setEgo`), by clone / merge (`build ∘ reify`), by the tree-form
writes and by `build` of a parsed JSON tree; the parser only produces in-range ints.

No operation needs a precondition on its `GoVal` arguments or on a callback: everything that is
stored goes through `parseVal`, which wraps (`wrap64`).  The only hypotheses are `AllIntsOK h` itself
and, for `build`, that the tree's ints are in range (`JVal.intsOK`), which is proved for what `reify`
reads off a heap satisfying the invariant (`reify_intsOK`) and for what the parser returns
(`parseIntBase0_inRange`, `parseField_intsOK`, `parseListBytes_intsOK`, `parseObjectBytes_intsOK`,
`parseFile_intsOK`; proved on `pList` / `pObject` directly, because `Lemmas/ParserExec` clashes by name
with `Lemmas/HeapWF`).
-/
import Anytype.Lemmas.IntsInvariantL
import Anytype.Lemmas.Ego
namespace Anytype
open Heap L2Eq

/-! ### `Init(ptr)` -/

theorem setEgo_allIntsOK (h : Heap) (a e : Nat) (ok : AllIntsOK h) : AllIntsOK (h.setEgo a e) := by
  intro b
  rw [items_setEgo, fields_setEgo]
  exact ok b

/-! ### the object operations -/

namespace O

theorem setLoop_allIntsOK : ∀ (pairs : Pairs) (h : Heap) (a : Nat), AllIntsOK h → AllIntsOK (setLoop h a pairs).1
  | [], h, a, ok => by simp only [setLoop]; exact ok
  | (none, _) :: _, h, a, ok => by simp only [setLoop]; exact ok
  | (some k, g) :: rest, h, a, ok => by
    have ih1 := parseVal_allIntsOK h g ok
    simp only [setLoop]
    split
    · next h1 p hp => rw [hp] at ih1; exact ih1.1
    · next h1 v hp =>
      rw [hp] at ih1
      exact setLoop_allIntsOK rest _ a (ih1.1.setFields a _ (intOK_setKV (ih1.1 a).2 (ih1.2 v rfl)))

theorem set_allIntsOK (h : Heap) (a : Nat) (pairs : Pairs) (odd : Bool) (ok : AllIntsOK h) :
    AllIntsOK (set h a pairs odd).1 := by
  have := setLoop_allIntsOK pairs h a ok
  unfold set
  split
  · exact ok
  · split <;> simp_all

theorem new_allIntsOK (h : Heap) (pairs : Pairs) (odd : Bool) (ok : AllIntsOK h) :
    AllIntsOK (new h pairs odd).1 := by
  have := set_allIntsOK (h ++ [.obj [] 0]) h.length pairs odd (ok.append_obj [] 0 (by simp))
  unfold new
  simp only
  split <;> simp_all

theorem newFrom_allIntsOK (h : Heap) (g : GoVal) (ok : AllIntsOK h) : AllIntsOK (newFrom h g).1 := by
  unfold newFrom
  split
  · next fl kvs =>
    have ih := (parseVal_allIntsOK h (.map fl kvs) ok).1
    split <;> simp_all
  · exact ok

theorem mem_foldl_delKV {α} (keys : List Str) : ∀ (kvs : List (Str × α)) (p : Str × α),
    p ∈ keys.foldl delKV kvs → p ∈ kvs := by
  induction keys with
  | nil => intro kvs p hp; exact hp
  | cons k ks ih => intro kvs p hp; exact mem_delKV (ih _ p hp)

theorem unset_allIntsOK (h : Heap) (a : Nat) (keys : List Str) (ok : AllIntsOK h) :
    AllIntsOK (unset h a keys).1 :=
  ok.setFields a _ (fun kv hkv => (ok a).2 kv (mem_foldl_delKV keys _ kv hkv))

theorem clear_allIntsOK (h : Heap) (a : Nat) (ok : AllIntsOK h) : AllIntsOK (clear h a).1 :=
  ok.setFields a [] (by simp)

theorem keys_allIntsOK (h : Heap) (a : Nat) (ok : AllIntsOK h) : AllIntsOK (keys h a).1 :=
  ok.append_list _ 0 (fun w hw => by
    obtain ⟨kv, _, rfl⟩ := List.mem_map.1 hw; trivial)

theorem values_allIntsOK (h : Heap) (a : Nat) (ok : AllIntsOK h) : AllIntsOK (values h a).1 :=
  ok.append_list _ 0 (fun w hw => by
    obtain ⟨kv, hkv, rfl⟩ := List.mem_map.1 hw
    exact ok.getVal_field hkv)

theorem mem_of_lookup {α} {kvs : List (Str × α)} {k : Str} {v : α} (hl : lookup kvs k = some v) :
    ∃ k', (k', v) ∈ kvs := by
  induction kvs with
  | nil => simp [lookup] at hl
  | cons kv kvs ih =>
    obtain ⟨k', v'⟩ := kv
    unfold lookup at hl
    split at hl
    · cases hl; exact ⟨k', List.mem_cons_self⟩
    · obtain ⟨k'', hm⟩ := ih hl
      exact ⟨k'', List.mem_cons_of_mem _ hm⟩

/-- what `Get(key)` returns is in range -/
theorem get_intOK (h : Heap) (a : Nat) (key : Str) (ok : AllIntsOK h) {v : Val} (hv : get h a key = .ok v) :
    IntOK v := by
  unfold get at hv
  split at hv
  · cases hv
  · next w hw =>
    cases hv
    obtain ⟨k', hm⟩ := mem_of_lookup hw
    exact ok.getVal_field hm

theorem pluckLoop_allIntsOK (a res : Nat) : ∀ (keys : List Str) (h : Heap), AllIntsOK h →
    AllIntsOK (pluckLoop h a res keys).1 := by
  intro keys
  induction keys with
  | nil => intro h ok; exact ok
  | cons k ks ih =>
    intro h ok
    unfold pluckLoop
    split
    · exact ok
    · next v hv =>
      exact ih _ (ok.setFields res _ (intOK_setKV (ok res).2 (get_intOK h a k ok hv)))

theorem pluck_allIntsOK (h : Heap) (a : Nat) (keys : List Str) (ok : AllIntsOK h) :
    AllIntsOK (pluck h a keys).1 := by
  have := pluckLoop_allIntsOK a h.length keys (h ++ [.obj [] 0]) (ok.append_obj [] 0 (by simp))
  unfold pluck
  simp only
  split <;> simp_all

/-- the loop of `Map`: every callback result goes through `parseVal` (no hypothesis on the callback) -/
theorem mapLoop_allIntsOK (res : Nat) (f : Str → Val → GoVal) : ∀ (kvs : List (Str × Val)) (h : Heap),
    AllIntsOK h → AllIntsOK (mapLoop res f h kvs).1 := by
  intro kvs
  induction kvs with
  | nil => intro h ok; exact ok
  | cons kv kvs ih =>
    obtain ⟨k, item⟩ := kv
    intro h ok
    have ih1 := parseVal_allIntsOK h (f k (h.getVal item)) ok
    unfold mapLoop
    split
    · next h1 p hp => rw [hp] at ih1; exact ih1.1
    · next h1 v hp =>
      rw [hp] at ih1
      exact ih _ (ih1.1.setFields res _ (intOK_setKV (ih1.1 res).2 (ih1.2 v rfl)))

theorem map_allIntsOK (h : Heap) (a : Nat) (f : Str → Val → GoVal) (ok : AllIntsOK h) :
    AllIntsOK (map h a f).1 := by
  have := mapLoop_allIntsOK h.length f (h.fields a) (h ++ [.obj [] 0]) (ok.append_obj [] 0 (by simp))
  unfold map
  simp only
  split <;> simp_all

theorem mapValues_allIntsOK (h : Heap) (a : Nat) (f : Val → GoVal) (ok : AllIntsOK h) :
    AllIntsOK (mapValues h a f).1 := map_allIntsOK h a _ ok

theorem mapKLoop_allIntsOK (res : Nat) (kd : Kind) (f : Val → GoVal) : ∀ (kvs : List (Str × Val)) (h : Heap),
    AllIntsOK h → AllIntsOK (mapKLoop res kd f h kvs).1 := by
  intro kvs
  induction kvs with
  | nil => intro h ok; exact ok
  | cons kv kvs ih =>
    obtain ⟨k, item⟩ := kv
    intro h ok
    unfold mapKLoop
    split
    · next x hs =>
      have ih1 := parseVal_allIntsOK h (f x) ok
      split
      · next h1 p hp => rw [hp] at ih1; exact ih1.1
      · next h1 v hp =>
        rw [hp] at ih1
        exact ih _ (ih1.1.setFields res _ (intOK_setKV (ih1.1 res).2 (ih1.2 v rfl)))
    · exact ih h ok

/-- the typed `MapX` -/
theorem mapK_allIntsOK (h : Heap) (a : Nat) (kd : Kind) (f : Val → GoVal) (ok : AllIntsOK h) :
    AllIntsOK (mapK h a kd f).1 := by
  have := mapKLoop_allIntsOK h.length kd f (h.fields a) (h ++ [.obj [] 0]) (ok.append_obj [] 0 (by simp))
  unfold mapK
  simp only
  split <;> simp_all

end O

/-! ### pure trees whose ints are in range; `reify` and `build` -/

mutual
/-- every int of the tree is in the int64 range -/
def JVal.intsOK : JVal → Prop
  | .int i => InRange i
  | .list xs => intsOKList xs
  | .obj kvs => intsOKFields kvs
  | _ => True
def intsOKList : List JVal → Prop
  | [] => True
  | x :: xs => x.intsOK ∧ intsOKList xs
def intsOKFields : List (Str × JVal) → Prop
  | [] => True
  | (_, x) :: kvs => x.intsOK ∧ intsOKFields kvs
end

theorem intsOKList_nil : intsOKList [] := by simp only [intsOKList]
theorem intsOKFields_nil : intsOKFields [] := by simp only [intsOKFields]
theorem JVal.intsOK_str (s : Str) : (JVal.str s).intsOK := by simp only [JVal.intsOK]
theorem JVal.intsOK_list {xs : List JVal} (hx : intsOKList xs) : (JVal.list xs).intsOK := by
  simp only [JVal.intsOK]; exact hx
theorem JVal.intsOK_obj {kvs : List (Str × JVal)} (hx : intsOKFields kvs) : (JVal.obj kvs).intsOK := by
  simp only [JVal.intsOK]; exact hx

theorem intsOKList_iff {xs : List JVal} : intsOKList xs ↔ ∀ x ∈ xs, x.intsOK := by
  induction xs with
  | nil => simp [intsOKList]
  | cons x xs ih => simp [intsOKList, ih]

theorem intsOKFields_iff {kvs : List (Str × JVal)} : intsOKFields kvs ↔ ∀ kv ∈ kvs, kv.2.intsOK := by
  induction kvs with
  | nil => simp [intsOKFields]
  | cons kv kvs ih => obtain ⟨k, x⟩ := kv; simp [intsOKFields, ih]

theorem intsOKList_snoc {acc : List JVal} {x : JVal} (ha : intsOKList acc) (hx : x.intsOK) :
    intsOKList (acc ++ [x]) := by
  rw [intsOKList_iff] at ha ⊢
  intro y hy
  rcases List.mem_append.1 hy with hy | hy
  · exact ha y hy
  · rw [List.mem_singleton.1 hy]; exact hx

theorem intsOKFields_setField {acc : List (Str × JVal)} {x : JVal} (k : Str) (ha : intsOKFields acc)
    (hx : x.intsOK) : intsOKFields (setField acc k x) := by
  induction acc with
  | nil => simp only [setField, intsOKFields]; exact ⟨hx, trivial⟩
  | cons kv acc ih =>
    obtain ⟨k', v'⟩ := kv
    simp only [intsOKFields] at ha
    unfold setField
    split
    · simp only [intsOKFields]; exact ⟨hx, ha.2⟩
    · simp only [intsOKFields]; exact ⟨ha.1, ih ha.2⟩

/-- the lists `reifyList n` / `reifyFields n` return, given that `reify n` returns trees in range -/
theorem reifyList_intsOK_of (n : Nat) (h : Heap)
    (hr : ∀ v j, IntOK v → reify n h v = some j → j.intsOK) :
    ∀ (vs : List Val) (js : List JVal), (∀ v ∈ vs, IntOK v) → reifyList n h vs = some js → intsOKList js := by
  intro vs
  induction vs with
  | nil => intro js _ e; simp only [reifyList] at e; cases e; exact intsOKList_nil
  | cons v vs ih =>
    intro js hv e
    simp only [reifyList] at e
    split at e
    · next x xs hx hxs =>
      cases e
      simp only [intsOKList]
      exact ⟨hr v x (hv v List.mem_cons_self) hx, ih xs (fun w hw => hv w (List.mem_cons_of_mem _ hw)) hxs⟩
    · cases e

theorem reifyFields_intsOK_of (n : Nat) (h : Heap)
    (hr : ∀ v j, IntOK v → reify n h v = some j → j.intsOK) :
    ∀ (kvs : List (Str × Val)) (js : List (Str × JVal)), (∀ kv ∈ kvs, IntOK kv.2) →
      reifyFields n h kvs = some js → intsOKFields js := by
  intro kvs
  induction kvs with
  | nil => intro js _ e; simp only [reifyFields] at e; cases e; exact intsOKFields_nil
  | cons kv kvs ih =>
    obtain ⟨k, v⟩ := kv
    intro js hv e
    simp only [reifyFields] at e
    split at e
    · next x xs hx hxs =>
      cases e
      simp only [intsOKFields]
      exact ⟨hr v x (hv (k, v) List.mem_cons_self) hx,
        ih xs (fun w hw => hv w (List.mem_cons_of_mem _ hw)) hxs⟩
    · cases e

/-- the tree a value of a heap satisfying the invariant denotes has its ints in range -/
theorem reify_intsOK {h : Heap} (ok : AllIntsOK h) : ∀ (n : Nat) (v : Val) (j : JVal),
    IntOK v → reify n h v = some j → j.intsOK := by
  intro n
  induction n with
  | zero =>
    intro v j hv e
    cases v <;> simp only [reify, reduceCtorEq, Option.some.injEq] at e <;> subst e <;>
      first | trivial | exact hv
  | succ n ih =>
    intro v j hv e
    cases v with
    | list r =>
      simp only [reify] at e
      split at e
      · next xs eg hc =>
        obtain ⟨js, hjs, rfl⟩ := Option.map_eq_some_iff.1 e
        have hx : ∀ v ∈ xs, IntOK v := by
          have := (ok r.addr).1
          simpa [items, hc] using this
        exact JVal.intsOK_list (reifyList_intsOK_of n h ih xs js hx hjs)
      · cases e
    | obj r =>
      simp only [reify] at e
      split at e
      · next kvs eg hc =>
        obtain ⟨js, hjs, rfl⟩ := Option.map_eq_some_iff.1 e
        have hx : ∀ kv ∈ kvs, IntOK kv.2 := by
          have := (ok r.addr).2
          simpa [fields, hc] using this
        exact JVal.intsOK_obj (reifyFields_intsOK_of n h ih kvs js hx hjs)
      · cases e
    | _ =>
      simp only [reify, Option.some.injEq] at e
      subst e
      first | trivial | exact hv

mutual
/-- `build` of a tree whose ints are in range keeps the invariant -/
theorem build_allIntsOK : ∀ (h : Heap) (j : JVal), AllIntsOK h → j.intsOK →
    AllIntsOK (build h j).1 ∧ IntOK (build h j).2
  | h, .null, ok, _ => by simp only [build]; exact ⟨ok, trivial⟩
  | h, .bool _, ok, _ => by simp only [build]; exact ⟨ok, trivial⟩
  | h, .int i, ok, hj => by simp only [build]; exact ⟨ok, hj⟩
  | h, .float _, ok, _ => by simp only [build]; exact ⟨ok, trivial⟩
  | h, .str _, ok, _ => by simp only [build]; exact ⟨ok, trivial⟩
  | h, .list xs, ok, hj => by
    simp only [JVal.intsOK] at hj
    have ih := buildList_allIntsOK h xs ok hj
    simp only [build]
    exact ⟨ih.1.append_list _ 0 ih.2, trivial⟩
  | h, .obj kvs, ok, hj => by
    simp only [JVal.intsOK] at hj
    have ih := buildFields_allIntsOK h kvs ok hj
    simp only [build]
    exact ⟨ih.1.append_obj _ 0 ih.2, trivial⟩
theorem buildList_allIntsOK : ∀ (h : Heap) (xs : List JVal), AllIntsOK h → intsOKList xs →
    AllIntsOK (buildList h xs).1 ∧ ∀ v ∈ (buildList h xs).2, IntOK v
  | h, [], ok, _ => by simp only [buildList]; exact ⟨ok, by simp⟩
  | h, x :: xs, ok, hj => by
    simp only [intsOKList] at hj
    have ih1 := build_allIntsOK h x ok hj.1
    have ih2 := buildList_allIntsOK (build h x).1 xs ih1.1 hj.2
    simp only [buildList]
    refine ⟨ih2.1, fun v hv => ?_⟩
    rcases List.mem_cons.1 hv with e | hm
    · rw [e]; exact ih1.2
    · exact ih2.2 v hm
theorem buildFields_allIntsOK : ∀ (h : Heap) (kvs : List (Str × JVal)), AllIntsOK h → intsOKFields kvs →
    AllIntsOK (buildFields h kvs).1 ∧ ∀ kv ∈ (buildFields h kvs).2, IntOK kv.2
  | h, [], ok, _ => by simp only [buildFields]; exact ⟨ok, by simp⟩
  | h, (k, x) :: kvs, ok, hj => by
    simp only [intsOKFields] at hj
    have ih1 := build_allIntsOK h x ok hj.1
    have ih2 := buildFields_allIntsOK (build h x).1 kvs ih1.1 hj.2
    simp only [buildFields]
    refine ⟨ih2.1, fun kv hv => ?_⟩
    rcases List.mem_cons.1 hv with e | hm
    · rw [e]; exact ih1.2
    · exact ih2.2 kv hm
end

namespace O

/-- `Clone()` -/
theorem clone_allIntsOK (h : Heap) (v : Val) (ok : AllIntsOK h) (hv : IntOK v) {h1 : Heap} {v1 : Val}
    (hc : clone h v = some (h1, v1)) : AllIntsOK h1 ∧ IntOK v1 := by
  unfold clone at hc
  obtain ⟨j, hj, e⟩ := Option.map_eq_some_iff.1 hc
  have := build_allIntsOK h j ok (reify_intsOK ok _ v j hv hj)
  rw [e] at this
  exact this

/-- `Clone()` of a container (the only use of it): no side condition -/
theorem clone_obj_allIntsOK (h : Heap) (r : Ref) (ok : AllIntsOK h) {h1 : Heap} {v1 : Val}
    (hc : clone h (.obj r) = some (h1, v1)) : AllIntsOK h1 :=
  (clone_allIntsOK h (.obj r) ok (by simp only [IntOK]) hc).1

theorem clone_list_allIntsOK (h : Heap) (r : Ref) (ok : AllIntsOK h) {h1 : Heap} {v1 : Val}
    (hc : clone h (.list r) = some (h1, v1)) : AllIntsOK h1 :=
  (clone_allIntsOK h (.list r) ok (by simp only [IntOK]) hc).1

theorem foldl_setKV_intOK (h : Heap) : ∀ (src acc : List (Str × Val)),
    (∀ kv ∈ src, IntOK kv.2) → (∀ kv ∈ acc, IntOK kv.2) →
    ∀ kv ∈ src.foldl (fun acc kv => setKV acc kv.1 (h.getVal kv.2)) acc, IntOK kv.2 := by
  intro src
  induction src with
  | nil => intro acc _ ha; exact ha
  | cons s src ih =>
    intro acc hs ha
    simp only [List.foldl_cons]
    exact ih _ (fun kv hkv => hs kv (List.mem_cons_of_mem _ hkv))
      (intOK_setKV ha (intOK_getVal h (hs s List.mem_cons_self)))

/-- `Merge(another)` -/
theorem merge_allIntsOK (h : Heap) (a another : Nat) (ok : AllIntsOK h) {h1 : Heap} {r : Ref}
    (hm : merge h a another = some (h1, r)) : AllIntsOK h1 := by
  unfold merge at hm
  split at hm
  · next h2 r2 hc =>
    cases hm
    have ok2 := clone_obj_allIntsOK h _ ok hc
    exact ok2.setFields _ _ (foldl_setKV_intOK h2 _ _ (ok2 another).2 (ok2 _).2)
  · cases hm

end O

/-! ### the tree-form writes -/

namespace TF

theorem padNil_allIntsOK (h : Heap) (a n : Nat) (ok : AllIntsOK h) : AllIntsOK (padNil h a n) := by
  refine ok.setItems a _ (fun w hw => ?_)
  rcases List.mem_append.1 hw with hw | hw
  · exact (ok a).1 w hw
  · rw [(List.mem_replicate.1 hw).2]; trivial

theorem stepL_allIntsOK (h : Heap) (a : Nat) (i : Int) (w : Bool) (ok : AllIntsOK h) :
    AllIntsOK (stepL h a i w).1 := by
  have okl : AllIntsOK (h ++ [Cell.list [] 0]) := ok.append_list [] 0 (by simp)
  have oko : AllIntsOK (h ++ [Cell.obj [] 0]) := ok.append_obj [] 0 (by simp)
  unfold stepL
  cases w <;> simp only [Bool.false_eq_true, if_false, if_true]
  all_goals
    split
    · refine AllIntsOK.setItems (padNil_allIntsOK _ a _ (by first | exact okl | exact oko)) a _ (fun v hv => ?_)
      rcases List.mem_append.1 hv with hv | hv
      · exact (padNil_allIntsOK _ a _ (by first | exact okl | exact oko) a).1 v hv
      · rw [List.mem_singleton.1 hv]; trivial
    · split
      · split <;> exact ok
      · split
        · first | exact okl | exact oko
        · refine AllIntsOK.setItems (by first | exact okl | exact oko) a _ (fun v hv => ?_)
          rcases List.mem_or_eq_of_mem_set hv with hv | hv
          · exact (ok a).1 v hv
          · rw [hv]; trivial

theorem stepO_allIntsOK (h : Heap) (a : Nat) (key : Str) (w : Bool) (ok : AllIntsOK h) :
    AllIntsOK (stepO h a key w).1 := by
  have okl : AllIntsOK (h ++ [Cell.list [] 0]) := ok.append_list [] 0 (by simp)
  have oko : AllIntsOK (h ++ [Cell.obj [] 0]) := ok.append_obj [] 0 (by simp)
  unfold stepO
  cases w <;> simp only [Bool.false_eq_true, if_false, if_true]
  all_goals
    split
    · split <;> exact ok
    · exact AllIntsOK.setFields (by first | exact okl | exact oko) a _
        (intOK_setKV (ok a).2 (by trivial))

/-- `SetTF` on a list / on an object (whatever the path, the value, the fuel) -/
theorem set_allIntsOK : ∀ (n : Nat),
    (∀ h a tf g, AllIntsOK h → AllIntsOK (setL n h a tf g).1) ∧
    (∀ h a tf g, AllIntsOK h → AllIntsOK (setO n h a tf g).1)
  | 0 => ⟨fun h _ _ _ ok => by simp only [setL]; exact ok,
          fun h _ _ _ ok => by simp only [setO]; exact ok⟩
  | n + 1 => by
    obtain ⟨ihL, ihO⟩ := set_allIntsOK n
    constructor
    · intro h a tf g ok
      rw [setL]
      split
      · exact ok
      · split
        · split
          · exact ok
          · next i _ =>
            have m := stepL_allIntsOK h a i true ok
            split
            · next h1 p hq => rw [hq] at m; exact m
            · next h1 c hq => rw [hq] at m; exact ihO h1 c _ g m
        · split
          · exact ok
          · next i _ =>
            have m := stepL_allIntsOK h a i false ok
            split
            · next h1 p hq => rw [hq] at m; exact m
            · next h1 c hq => rw [hq] at m; exact ihL h1 c _ g m
        · split
          · exact ok
          · next i _ =>
            simp only
            split
            · have m := L.add_allIntsOK _ a [g] (padNil_allIntsOK h a (i - L.count h a).toNat ok)
              split <;> simp_all
            · have m := L.replace_allIntsOK h a i g ok
              split <;> simp_all
    · intro h a tf g ok
      rw [setO]
      split
      · exact ok
      · split
        · next key rest _ => exact ihO _ _ rest g (stepO_allIntsOK h a key true ok)
        · next key rest _ => exact ihL _ _ rest g (stepO_allIntsOK h a key false ok)
        · next key _ =>
          have m := O.set_allIntsOK h a [(some key, g)] false ok
          split <;> simp_all

theorem setL_allIntsOK (n : Nat) (h : Heap) (a : Nat) (tf : Str) (g : GoVal) (ok : AllIntsOK h) :
    AllIntsOK (setL n h a tf g).1 := (set_allIntsOK n).1 h a tf g ok

theorem setO_allIntsOK (n : Nat) (h : Heap) (a : Nat) (tf : Str) (g : GoVal) (ok : AllIntsOK h) :
    AllIntsOK (setO n h a tf g).1 := (set_allIntsOK n).2 h a tf g ok

/-- `UnsetTF` -/
theorem unset_allIntsOK : ∀ (n : Nat),
    (∀ h a tf, AllIntsOK h → AllIntsOK (unsetL n h a tf).1) ∧
    (∀ h a tf, AllIntsOK h → AllIntsOK (unsetO n h a tf).1)
  | 0 => ⟨fun h _ _ ok => by simp only [unsetL]; exact ok,
          fun h _ _ ok => by simp only [unsetO]; exact ok⟩
  | n + 1 => by
    obtain ⟨ihL, ihO⟩ := unset_allIntsOK n
    constructor
    · intro h a tf ok
      rw [unsetL]
      split
      · exact ok
      · split
        · split
          · exact ok
          · split
            · exact ihO _ _ _ ok
            · exact ok
            · exact ok
        · split
          · exact ok
          · split
            · exact ihL _ _ _ ok
            · exact ok
            · exact ok
        · split
          · exact ok
          · next i _ =>
            have m := L.delete_allIntsOK h a [i] ok
            split <;> simp_all
    · intro h a tf ok
      rw [unsetO]
      split
      · exact ok
      · split
        · split
          · exact ihO _ _ _ ok
          · exact ok
          · exact ok
        · split
          · exact ihL _ _ _ ok
          · exact ok
          · exact ok
        · next key _ => exact O.unset_allIntsOK h a [key] ok

theorem unsetL_allIntsOK (n : Nat) (h : Heap) (a : Nat) (tf : Str) (ok : AllIntsOK h) :
    AllIntsOK (unsetL n h a tf).1 := (unset_allIntsOK n).1 h a tf ok

theorem unsetO_allIntsOK (n : Nat) (h : Heap) (a : Nat) (tf : Str) (ok : AllIntsOK h) :
    AllIntsOK (unsetO n h a tf).1 := (unset_allIntsOK n).2 h a tf ok

end TF

/-! ### the parser only produces in-range ints -/

theorem parseIntTail_inRange (neg : Bool) (body : Str) (i : Int)
    (h : (match parseUintBase0 body with
      | none => none
      | some n =>
        if body.contains '_' && !F64.underscoreOK body then none
        else if !neg && n ≥ 2^63 then none
        else if neg && n > 2^63 then none
        else some (if neg then -(n : Int) else (n : Int))) = some i) : InRange i := by
  split at h
  · cases h
  · next n hn =>
    split at h
    · cases h
    · split at h
      · cases h
      · split at h
        · cases h
        · cases h
          unfold InRange
          cases neg <;> simp_all <;> omega

theorem parseIntBase0_inRange {s : Str} {i : Int} (h : parseIntBase0 s = some i) : InRange i := by
  unfold parseIntBase0 at h
  split at h
  · cases h
  · simp only [] at h
    exact parseIntTail_inRange _ _ i h

theorem parseField_intsOK {field : Str} {line : Nat} {j : JVal} (h : parseField field line = .ok j) :
    j.intsOK := by
  unfold parseField at h
  split at h
  · cases h; trivial
  · split at h
    · next i hi => cases h; exact parseIntBase0_inRange hi
    · split at h
      · cases h; trivial
      · split at h
        · cases h; trivial
        · cases h

/-- the tree of an ok result has its ints in range -/
def PRes.intsOK : PRes → Prop
  | .ok v _ _ => v.intsOK
  | .err _ => True

theorem PRes.intsOK_err (e : PErr) : (PRes.err e).intsOK := trivial
theorem PRes.intsOK_of_eq {r : PRes} {v : JVal} {rest : List Item} {l : Nat} (hr : r.intsOK)
    (e : r = .ok v rest l) : v.intsOK := by subst e; exact hr

syntax "ok_side" : tactic
macro_rules
  | `(tactic| ok_side) => `(tactic| first
    | assumption
    | exact intsOKList_nil
    | exact intsOKFields_nil
    | (apply intsOKList_snoc <;> first | assumption | exact JVal.intsOK_str _)
    | (apply intsOKFields_setField <;> first | assumption | exact JVal.intsOK_str _))

theorem pMachines_intsOK (f : Nat) :
    (∀ items st acc val iv line, intsOKList acc → (pList f items st acc val iv line).intsOK) ∧
    (∀ items st acc key val iv line, intsOKFields acc → (pObject f items st acc key val iv line).intsOK) := by
  induction f with
  | zero => constructor <;> intros <;> simp only [pList, pObject] <;> trivial
  | succ f ih =>
    obtain ⟨ihL, ihO⟩ := ih
    constructor
    · intro items st acc val iv line hacc
      match items with
      | [] => simp only [pList]; trivial
      | none :: _ => simp only [pList]; trivial
      | some c :: rest =>
        cases st <;> simp only [pList] <;> repeat' split
        all_goals
          try (have hf := parseField_intsOK ‹parseField _ _ = .ok _›)
          try (have ho := PRes.intsOK_of_eq (ihO _ _ _ _ _ _ _ intsOKFields_nil) ‹pObject _ _ _ _ _ _ _ _ = _›)
          try (have hl := PRes.intsOK_of_eq (ihL _ _ _ _ _ _ intsOKList_nil) ‹pList _ _ _ _ _ _ _ = _›)
          first
            | exact PRes.intsOK_err _
            | (apply ihL; ok_side)
            | (apply JVal.intsOK_list; ok_side)
    · intro items st acc key val iv line hacc
      match items with
      | [] => simp only [pObject]; trivial
      | none :: _ => simp only [pObject]; trivial
      | some c :: rest =>
        cases st <;> simp only [pObject] <;> repeat' split
        all_goals
          try (have hf := parseField_intsOK ‹parseField _ _ = .ok _›)
          try (have ho := PRes.intsOK_of_eq (ihO _ _ _ _ _ _ _ intsOKFields_nil) ‹pObject _ _ _ _ _ _ _ _ = _›)
          try (have hl := PRes.intsOK_of_eq (ihL _ _ _ _ _ _ intsOKList_nil) ‹pList _ _ _ _ _ _ _ = _›)
          first
            | exact PRes.intsOK_err _
            | (apply ihO; ok_side)
            | (apply JVal.intsOK_obj; ok_side)

theorem pList_intsOK {f items st acc val iv line v rest l} (hacc : intsOKList acc)
    (h : pList f items st acc val iv line = .ok v rest l) : v.intsOK :=
  PRes.intsOK_of_eq ((pMachines_intsOK f).1 items st acc val iv line hacc) h

theorem pObject_intsOK {f items st acc key val iv line v rest l} (hacc : intsOKFields acc)
    (h : pObject f items st acc key val iv line = .ok v rest l) : v.intsOK :=
  PRes.intsOK_of_eq ((pMachines_intsOK f).2 items st acc key val iv line hacc) h

/-- `ParseList` -/
theorem parseListBytes_intsOK {bs : List UInt8} {v : JVal} (h : parseListBytes bs = .ok v) : v.intsOK := by
  unfold parseListBytes at h
  split at h
  · cases h
  · split at h
    · next w _ _ hr => cases h; exact pList_intsOK intsOKList_nil hr
    · cases h

/-- `ParseObject` -/
theorem parseObjectBytes_intsOK {bs : List UInt8} {v : JVal} (h : parseObjectBytes bs = .ok v) : v.intsOK := by
  unfold parseObjectBytes at h
  split at h
  · cases h
  · split at h
    · next w _ _ hr => cases h; exact pObject_intsOK intsOKFields_nil hr
    · cases h

/-- `ParseFile` -/
theorem parseFile_intsOK {fs : String → Option (List UInt8)} {path : String} {v : JVal}
    (h : parseFile fs path = .ok v) : v.intsOK := by
  unfold parseFile at h
  split at h
  · cases h
  · exact parseObjectBytes_intsOK h

/-- a parsed list put on a heap that satisfies the invariant -/
theorem build_parseList_allIntsOK (h : Heap) (ok : AllIntsOK h) {bs : List UInt8} {v : JVal}
    (hp : parseListBytes bs = .ok v) : AllIntsOK (build h v).1 :=
  (build_allIntsOK h v ok (parseListBytes_intsOK hp)).1

theorem build_parseObject_allIntsOK (h : Heap) (ok : AllIntsOK h) {bs : List UInt8} {v : JVal}
    (hp : parseObjectBytes bs = .ok v) : AllIntsOK (build h v).1 :=
  (build_allIntsOK h v ok (parseObjectBytes_intsOK hp)).1

theorem build_parseFile_allIntsOK (h : Heap) (ok : AllIntsOK h) {fs : String → Option (List UInt8)}
    {path : String} {v : JVal} (hp : parseFile fs path = .ok v) : AllIntsOK (build h v).1 :=
  (build_allIntsOK h v ok (parseFile_intsOK hp)).1

/-! ### the hypotheses are satisfiable, the predicates not trivial -/

/-- a tree with ints at both ends of the range -/
example : (JVal.obj [(['a'], .list [.int (2^63 - 1), .int (-2^63), .str []]), (['b'], .null)]).intsOK := by
  simp [JVal.intsOK, intsOKList, intsOKFields, InRange]

example : ¬ (JVal.list [.int (2^63)]).intsOK := by
  simp [JVal.intsOK, intsOKList, InRange]

/-- `build` does need the hypothesis: a tree with an out-of-range int breaks the invariant -/
example : ¬ AllIntsOK (build [] (.list [.int (2^63)])).1 := by
  intro ok
  have := (ok 0).1 (.int (2^63)) (by simp [build, buildList, items])
  simp [IntOK, InRange] at this

/-- an object built through the API and then cloned: the invariant holds at the end, by the theorems -/
example (pairs : O.Pairs) (odd : Bool) (keys : List Str) :
    AllIntsOK (O.unset (O.new [] pairs odd).1 0 keys).1 :=
  O.unset_allIntsOK _ _ _ (O.new_allIntsOK [] pairs odd allIntsOK_nil)

end Anytype

#print axioms Anytype.setEgo_allIntsOK
#print axioms Anytype.O.set_allIntsOK
#print axioms Anytype.O.new_allIntsOK
#print axioms Anytype.O.newFrom_allIntsOK
#print axioms Anytype.O.unset_allIntsOK
#print axioms Anytype.O.clear_allIntsOK
#print axioms Anytype.O.keys_allIntsOK
#print axioms Anytype.O.values_allIntsOK
#print axioms Anytype.O.pluck_allIntsOK
#print axioms Anytype.O.map_allIntsOK
#print axioms Anytype.O.mapValues_allIntsOK
#print axioms Anytype.O.mapK_allIntsOK
#print axioms Anytype.reify_intsOK
#print axioms Anytype.build_allIntsOK
#print axioms Anytype.O.clone_allIntsOK
#print axioms Anytype.O.merge_allIntsOK
#print axioms Anytype.TF.setL_allIntsOK
#print axioms Anytype.TF.setO_allIntsOK
#print axioms Anytype.TF.unsetL_allIntsOK
#print axioms Anytype.TF.unsetO_allIntsOK
#print axioms Anytype.parseIntBase0_inRange
#print axioms Anytype.parseField_intsOK
#print axioms Anytype.parseListBytes_intsOK
#print axioms Anytype.parseObjectBytes_intsOK
#print axioms Anytype.parseFile_intsOK
#print axioms Anytype.build_parseList_allIntsOK
#print axioms Anytype.build_parseObject_allIntsOK
#print axioms Anytype.build_parseFile_allIntsOK
