/-
The definitions that `vextract` (vextract/listgen2.go) translates from the Go source of the Filter
family, of IntMin / IntMax / Min / Max and of NewListFrom (`Anytype/Generated/ListGen2.lean`,
regenerated on every run) are equal to the hand-written model (`Model/ListOps.lean`,
`Model/Aggregates.lean`) that the list theorems are about.

* aggregates: the function literal handed to `ReduceInts` / `Reduce`, translated as a function on the
  state (accumulator, present), folds to the model's `Agg.…Loop`; equality is unconditional.
* `NewListFrom`: unconditional.
* Filter family: the Go code hands the kept values to `Add`, i.e. to `parseVal`, which wraps an `int`
  to 64 bits again (`rewrap`); the model keeps the value.  The exact, unconditional statement is
  `…Gen_eq_rewrap` (the model's result with `rewrap` mapped over it); `FilterObjects`, `FilterLists`,
  `FilterStrings`, `FilterFloats` never keep an int and are equal to the model unconditionally;
  `Filter` and `FilterInts` are equal to the model when the ints stored in the receiver are in the
  int64 range (`IntsOK h a`), which `parseVal` / `addEach` establish for everything that enters a
  list through the API (`parseVal_intsOK`, `addEach_intsOK`).

The proofs are scripts: unfold both sides one step, rewrite the calls of other generated functions
with the equalities already proved, split the tests and let `simp` compare the leaves; loop helpers
by induction over the list they recurse on.
-/
import Anytype.Generated.ListGen2
import Anytype.Lemmas.ListGenEq
set_option linter.unusedSimpArgs false
set_option linter.unusedVariables false
namespace Anytype
namespace L2Eq

open Generated Generated.L2

/-! ### IntMin / IntMax -/

/-- one fold of a translated literal over the ints against the model's loop -/
local macro "int_fold" f:ident m:ident : tactic =>
  `(tactic| (intro xs; induction xs with
    | nil => intro m p; simp only [L.reduceKLoop, $m:ident, List.map_nil]
    | cons x xs ih =>
      intro m p
      cases x <;>
        simp only [L.reduceKLoop, L.sel, $m:ident, List.map_cons, Val.toNum, Heap.getVal, Val.kind, $f:ident, intOf,
          beq_self_eq_true, if_true, if_false, reduceCtorEq, beq_iff_eq] <;>
        first | exact ih _ _ | ((repeat' split) <;> first | exact ih _ _ | (simp [*]; done) | (simp_all; done))))

theorem intMinFn_fold (h : Heap) : ∀ xs m p,
    L.reduceKLoop h .int intMinFnGen xs (m, p) = Agg.intMinLoop (F := F64) (xs.map Val.toNum) m p := by
  int_fold intMinFnGen Agg.intMinLoop

theorem intMaxFn_fold (h : Heap) : ∀ xs m p,
    L.reduceKLoop h .int intMaxFnGen xs (m, p) = Agg.intMaxLoop (F := F64) (xs.map Val.toNum) m p := by
  int_fold intMaxFnGen Agg.intMaxLoop

theorem intMinGen_eq (h : Heap) (a : Nat) : intMinGen h a = Agg.intMin (numsOf h a) := by
  simp only [intMinGen, Agg.intMin, numsOf, reduceIntsGen_eq, L.reduceK, intMinFn_fold]
  first | rfl | ((repeat' split) <;> first | rfl | (simp_all; done))

theorem intMaxGen_eq (h : Heap) (a : Nat) : intMaxGen h a = Agg.intMax (numsOf h a) := by
  simp only [intMaxGen, Agg.intMax, numsOf, reduceIntsGen_eq, L.reduceK, intMaxFn_fold]
  first | rfl | ((repeat' split) <;> first | rfl | (simp_all; done))

/-! ### Min / Max -/

/-- a `none` of the model's loop is the run-time panic of `item.(float64)` -/
def outOfOpt : Option (F64 × Bool) → Out (Val × Bool)
  | none => .panic .runtime
  | some (m, p) => .ok (.float m, p)

/-- one fold of a translated literal over the numbers against the model's loop; the state `.panic` is absorbing -/
local macro "float_fold_panic" f:ident : tactic =>
  `(tactic| (intro xs; induction xs with
    | nil => intro k; simp only [L.reduceLoop]
    | cons x xs ih => intro k; simp only [L.reduceLoop, $f:ident, ih]))

local macro "float_fold" f:ident m:ident hp:ident : tactic =>
  `(tactic| (intro xs; induction xs with
    | nil => intro m p; simp only [L.reduceLoop, $m:ident, List.map_nil, outOfOpt]
    | cons x xs ih =>
      intro m p
      cases x <;>
        simp only [L.reduceLoop, $m:ident, List.map_cons, Val.toNum, Heap.getVal, Val.kind, $f:ident, intOf, floatOf,
          beq_self_eq_true, if_true, if_false, reduceCtorEq, beq_iff_eq, Bool.not_true, Bool.not_false, Bool.false_eq_true,
          $hp:ident] <;>
        first | exact ih _ _ | rfl |
          ((repeat' split) <;>
            first | exact ih _ _ | rfl | (simp only [*, $hp:ident, ih, if_true, if_false] <;> rfl) | (simp_all [$hp:ident, outOfOpt]; done))))

theorem minFn_panic (h : Heap) : ∀ xs k, L.reduceLoop h minFnGen xs (.panic k) = .panic k := by
  float_fold_panic minFnGen
theorem maxFn_panic (h : Heap) : ∀ xs k, L.reduceLoop h maxFnGen xs (.panic k) = .panic k := by
  float_fold_panic maxFnGen

theorem minFn_fold (h : Heap) : ∀ xs m p,
    L.reduceLoop h minFnGen xs (.ok (.float m, p)) = outOfOpt (Agg.minLoop (xs.map Val.toNum) m p) := by
  float_fold minFnGen Agg.minLoop minFn_panic
theorem maxFn_fold (h : Heap) : ∀ xs m p,
    L.reduceLoop h maxFnGen xs (.ok (.float m, p)) = outOfOpt (Agg.maxLoop (xs.map Val.toNum) m p) := by
  float_fold maxFnGen Agg.maxLoop maxFn_panic

/-- `Agg.min` / `Agg.max` return `none` where the Go code panics -/
def outOfOptF : Option F64 → Out F64
  | none => .panic .runtime
  | some f => .ok f

theorem minGen_eq (h : Heap) (a : Nat) : minGen h a = outOfOptF (Agg.min (numsOf h a)) := by
  simp only [minGen, Agg.min, numsOf, reduceGen_eq, L.reduce, minFn_fold]
  cases Agg.minLoop ((h.items a).map Val.toNum) FloatArith.maxFinite false with
  | none => rfl
  | some r => cases r with | mk m p => cases p <;> rfl

theorem maxGen_eq (h : Heap) (a : Nat) : maxGen h a = outOfOptF (Agg.max (numsOf h a)) := by
  simp only [maxGen, Agg.max, numsOf, reduceGen_eq, L.reduce, maxFn_fold]
  cases Agg.maxLoop ((h.items a).map Val.toNum) FloatArith.negMaxFinite false with
  | none => rfl
  | some r => cases r with | mk m p => cases p <;> rfl

/-! ### NewListFrom -/

/-- a loop `for _, item := range s { ego.Add(item) }` is `addEach` -/
local macro "add_loop" d:ident : tactic =>
  `(tactic| (intro xs; induction xs with
    | nil => intro h; simp only [$d:ident, addEach]
    | cons x xs ih =>
      intro h
      simp only [$d:ident, addEach, addGen_eq, L.add, ih]
      cases parseVal h x with
      | mk h1 r => cases r <;> rfl))

theorem newListFromLoopGen_eq (n : Nat) : ∀ xs h, newListFromLoopGen n h xs = addEach h n xs := by add_loop newListFromLoopGen
theorem newListFromLoop2Gen_eq (n : Nat) : ∀ xs h, newListFromLoop2Gen n h xs = addEach h n xs := by add_loop newListFromLoop2Gen
theorem newListFromLoop3Gen_eq (n : Nat) : ∀ xs h, newListFromLoop3Gen n h xs = addEach h n xs := by add_loop newListFromLoop3Gen
theorem newListFromLoop4Gen_eq (n : Nat) : ∀ xs h, newListFromLoop4Gen n h xs = addEach h n xs := by add_loop newListFromLoop4Gen
theorem newListFromLoop5Gen_eq (n : Nat) : ∀ xs h, newListFromLoop5Gen n h xs = addEach h n xs := by add_loop newListFromLoop5Gen
theorem newListFromLoop6Gen_eq (n : Nat) : ∀ xs h, newListFromLoop6Gen n h xs = addEach h n xs := by add_loop newListFromLoop6Gen
theorem newListFromLoop7Gen_eq (n : Nat) : ∀ xs h, newListFromLoop7Gen n h xs = addEach h n xs := by add_loop newListFromLoop7Gen

theorem newListFromGen_eq (h : Heap) (g : GoVal) : newListFromGen h g = L.newFrom h g := by
  cases g with
  | slice fl xs =>
    cases fl <;>
      simp only [newListFromGen, L.newFrom, parseVal, newListFromLoopGen_eq, newListFromLoop2Gen_eq, newListFromLoop3Gen_eq,
        newListFromLoop4Gen_eq, newListFromLoop5Gen_eq, newListFromLoop6Gen_eq, newListFromLoop7Gen_eq] <;>
      (cases addEach (h ++ [Cell.list [] 0]) h.length xs with
       | mk h1 r => cases r <;> rfl)
  | _ => rfl

/-! ### the Filter family -/

/-- what `parseVal` makes of a stored value handed back to `Add`: an int is wrapped to 64 bits again -/
def rewrap : Val → Val
  | .int i => .int (wrap64 i)
  | v => v

/-- the stored value is an int only if it is in the int64 range -/
def IntOK : Val → Prop
  | .int i => InRange i
  | _ => True

/-- the ints stored in the list cell `a` are in the int64 range -/
def IntsOK (h : Heap) (a : Nat) : Prop := ∀ v ∈ h.items a, IntOK v

theorem wrap64_of_inRange' {i : Int} (hi : InRange i) : wrap64 i = i := by
  unfold InRange at hi; unfold wrap64; simp only []; omega

theorem wrap64_inRange' (i : Int) : InRange (wrap64 i) := by
  unfold wrap64 InRange; simp only []; omega

theorem rewrap_of_ok {v : Val} (hv : IntOK v) : rewrap v = v := by
  cases v <;> simp_all [rewrap, IntOK, wrap64_of_inRange']

theorem rewrap_of_kind {v : Val} (hk : v.kind ≠ .int) : rewrap v = v := by
  cases v <;> simp_all [rewrap, Val.kind]

theorem intOK_getVal (h : Heap) {v : Val} (hv : IntOK v) : IntOK (h.getVal v) := by
  cases v <;> simp_all [IntOK, Heap.getVal]

theorem parseVal_toGo (h : Heap) (v : Val) : parseVal h v.toGo = (h, .ok (rewrap v)) := by
  cases v <;> simp [Val.toGo, parseVal, rewrap]

theorem ego_append_list0 (h : Heap) (acc : List Val) (x : Nat) : (h ++ [Cell.list acc 0]).ego x = h.ego x := by
  by_cases hlt : x < h.length
  · exact Heap.ego_append_old h _ hlt
  · have hge : h.length ≤ x := Nat.le_of_not_lt hlt
    simp only [Heap.ego, List.getElem?_append_right hge, List.getElem?_eq_none hge]
    cases hz : x - h.length with
    | zero => simp
    | succ n => simp

/-- the result cell under construction does not change what `getVal` returns -/
theorem getVal_append_list0 (h : Heap) (acc : List Val) (v : Val) : (h ++ [Cell.list acc 0]).getVal v = h.getVal v := by
  cases v <;> simp [Heap.getVal, ego_append_list0]

theorem setItems_append_new (h : Heap) (acc xs : List Val) :
    (h ++ [Cell.list acc 0]).setItems h.length xs = h ++ [Cell.list xs 0] := by
  simp [Heap.setItems]

/-- `result.Add(v.toGo)` on the result cell under construction -/
theorem add_result (h : Heap) (acc : List Val) (v : Val) :
    addGen (h ++ [Cell.list acc 0]) h.length [v.toGo] =
      (h ++ [Cell.list (acc ++ [rewrap v]) 0], .ok ⟨h.length, 0⟩) := by
  simp [addGen_eq, L.add, addEach, parseVal_toGo, setItems_append_new, Heap.egoRef]

/-- the loop of `Filter`: the model's loop with `rewrap` on what is kept -/
theorem filterLoopGen_eq (h : Heap) (p : Val → Bool) : ∀ xs acc,
    filterLoopGen p h.length (h ++ [Cell.list (acc.map rewrap) 0]) xs =
      (h ++ [Cell.list ((L.filterLoop h p xs acc).map rewrap) 0], .ok ()) := by
  intro xs
  induction xs with
  | nil => intro acc; simp only [filterLoopGen, L.filterLoop]
  | cons x xs ih =>
    intro acc
    simp only [filterLoopGen, L.filterLoop, getVal_append_list0, add_result]
    split
    · simpa using ih (acc ++ [h.getVal x])
    · exact ih acc

/-- the typed loops against `filterKLoop` -/
local macro "filterk_loop" d:ident k:term "," h:term : tactic =>
  `(tactic| (intro xs; induction xs with
    | nil => intro acc; simp only [$d:ident, L.filterKLoop]
    | cons x xs ih =>
      intro acc
      simp only [$d:ident, L.filterKLoop, L.sel, L.viaGetValL, getVal_append_list0, add_result, genGetVal_kind]
      by_cases hk : x.kind = $k <;>
        simp [hk] <;>
        first
        | exact ih _
        | (split <;> first | exact ih _ | (simpa using ih (acc ++ [x])) | (simpa using ih (acc ++ [Heap.getVal $h x])))))

theorem filterObjectsLoopGen_eq (h : Heap) (p : Val → Bool) : ∀ xs acc,
    filterObjectsLoopGen p h.length (h ++ [Cell.list (acc.map rewrap) 0]) xs =
      (h ++ [Cell.list ((L.filterKLoop h .object p xs acc).map rewrap) 0], .ok ()) := by
  filterk_loop filterObjectsLoopGen Kind.object, h
theorem filterListsLoopGen_eq (h : Heap) (p : Val → Bool) : ∀ xs acc,
    filterListsLoopGen p h.length (h ++ [Cell.list (acc.map rewrap) 0]) xs =
      (h ++ [Cell.list ((L.filterKLoop h .list p xs acc).map rewrap) 0], .ok ()) := by
  filterk_loop filterListsLoopGen Kind.list, h
theorem filterStringsLoopGen_eq (h : Heap) (p : Val → Bool) : ∀ xs acc,
    filterStringsLoopGen p h.length (h ++ [Cell.list (acc.map rewrap) 0]) xs =
      (h ++ [Cell.list ((L.filterKLoop h .string p xs acc).map rewrap) 0], .ok ()) := by
  filterk_loop filterStringsLoopGen Kind.string, h
theorem filterIntsLoopGen_eq (h : Heap) (p : Val → Bool) : ∀ xs acc,
    filterIntsLoopGen p h.length (h ++ [Cell.list (acc.map rewrap) 0]) xs =
      (h ++ [Cell.list ((L.filterKLoop h .int p xs acc).map rewrap) 0], .ok ()) := by
  filterk_loop filterIntsLoopGen Kind.int, h
theorem filterFloatsLoopGen_eq (h : Heap) (p : Val → Bool) : ∀ xs acc,
    filterFloatsLoopGen p h.length (h ++ [Cell.list (acc.map rewrap) 0]) xs =
      (h ++ [Cell.list ((L.filterKLoop h .float p xs acc).map rewrap) 0], .ok ()) := by
  filterk_loop filterFloatsLoopGen Kind.float, h

/-- the model's result (`Heap × Ref`) as the result of a function that may panic -/
def okOf (r : Heap × Ref) : Heap × Out Ref := (r.1, .ok r.2)

/-- the model's `Filter` / `FilterX` with the kept values passed through `parseVal` again -/
def filterRewrap (h : Heap) (a : Nat) (p : Val → Bool) : Heap × Out Ref :=
  (h ++ [Cell.list ((L.filterLoop h p (h.items a) []).map rewrap) 0], .ok ⟨h.length, 0⟩)
def filterKRewrap (h : Heap) (a : Nat) (k : Kind) (p : Val → Bool) : Heap × Out Ref :=
  (h ++ [Cell.list ((L.filterKLoop h k p (h.items a) []).map rewrap) 0], .ok ⟨h.length, 0⟩)

/-- the function behind a loop lemma: `NewList()`, the loop, `return result` -/
local macro "filter_fn" d:ident l:ident r:ident "," h:term "," a:term "," p:term : tactic =>
  `(tactic| (
    simp only [$d:ident, $r:ident, newListGen_eq, L.new, addEach, items_append_empty_list]
    have hl := $l:ident $h $p (Heap.items $h $a) []
    simp only [List.map_nil] at hl
    simp only [hl]))

/-- unconditional: what the Go code computes is the model's result with `rewrap` on the kept values -/
theorem filterGen_eq_rewrap (h : Heap) (a : Nat) (p : Val → Bool) : filterGen h a p = filterRewrap h a p := by
  filter_fn filterGen filterLoopGen_eq filterRewrap, h, a, p
theorem filterObjectsGen_eq_rewrap (h : Heap) (a : Nat) (p : Val → Bool) :
    filterObjectsGen h a p = filterKRewrap h a .object p := by
  filter_fn filterObjectsGen filterObjectsLoopGen_eq filterKRewrap, h, a, p
theorem filterListsGen_eq_rewrap (h : Heap) (a : Nat) (p : Val → Bool) :
    filterListsGen h a p = filterKRewrap h a .list p := by
  filter_fn filterListsGen filterListsLoopGen_eq filterKRewrap, h, a, p
theorem filterStringsGen_eq_rewrap (h : Heap) (a : Nat) (p : Val → Bool) :
    filterStringsGen h a p = filterKRewrap h a .string p := by
  filter_fn filterStringsGen filterStringsLoopGen_eq filterKRewrap, h, a, p
theorem filterIntsGen_eq_rewrap (h : Heap) (a : Nat) (p : Val → Bool) :
    filterIntsGen h a p = filterKRewrap h a .int p := by
  filter_fn filterIntsGen filterIntsLoopGen_eq filterKRewrap, h, a, p
theorem filterFloatsGen_eq_rewrap (h : Heap) (a : Nat) (p : Val → Bool) :
    filterFloatsGen h a p = filterKRewrap h a .float p := by
  filter_fn filterFloatsGen filterFloatsLoopGen_eq filterKRewrap, h, a, p

/-! where `rewrap` is the identity on what is kept -/

theorem mem_filterLoop (h : Heap) (p : Val → Bool) : ∀ xs acc v,
    v ∈ L.filterLoop h p xs acc → v ∈ acc ∨ ∃ x ∈ xs, v = h.getVal x := by
  intro xs
  induction xs with
  | nil => intro acc v hv; exact Or.inl hv
  | cons x xs ih =>
    intro acc v hv
    simp only [L.filterLoop] at hv
    split at hv
    · rcases ih _ _ hv with hm | ⟨y, hy, e⟩
      · rcases List.mem_append.1 hm with hm | hm
        · exact Or.inl hm
        · exact Or.inr ⟨x, List.mem_cons_self, by simpa using hm⟩
      · exact Or.inr ⟨y, List.mem_cons_of_mem _ hy, e⟩
    · rcases ih _ _ hv with hm | ⟨y, hy, e⟩
      · exact Or.inl hm
      · exact Or.inr ⟨y, List.mem_cons_of_mem _ hy, e⟩

theorem mem_filterKLoop (h : Heap) (k : Kind) (p : Val → Bool) : ∀ xs acc v,
    v ∈ L.filterKLoop h k p xs acc → v ∈ acc ∨ ∃ x ∈ xs, x.kind = k ∧ (v = x ∨ v = h.getVal x) := by
  intro xs
  induction xs with
  | nil => intro acc v hv; exact Or.inl hv
  | cons x xs ih =>
    intro acc v hv
    have step : ∀ acc', v ∈ L.filterKLoop h k p xs acc' → (∀ w ∈ acc', w ∈ acc ∨ (x.kind = k ∧ (w = x ∨ w = h.getVal x))) →
        v ∈ acc ∨ ∃ y ∈ x :: xs, y.kind = k ∧ (v = y ∨ v = h.getVal y) := by
      intro acc' hv' hacc
      rcases ih _ _ hv' with hm | ⟨y, hy, e⟩
      · rcases hacc _ hm with hm | e
        · exact Or.inl hm
        · exact Or.inr ⟨x, List.mem_cons_self, e⟩
      · exact Or.inr ⟨y, List.mem_cons_of_mem _ hy, e⟩
    obtain ⟨w0, hw0, e0⟩ : ∃ w0, (w0 = x ∨ w0 = h.getVal x) ∧ (if L.viaGetValL k = true then h.getVal x else x) = w0 := by
      split
      · exact ⟨_, Or.inr rfl, rfl⟩
      · exact ⟨_, Or.inl rfl, rfl⟩
    simp only [L.filterKLoop, L.sel, e0] at hv
    by_cases hk : x.kind = k
    · simp only [hk, beq_self_eq_true, if_true] at hv
      split at hv
      · refine step _ hv (fun w hw => ?_)
        rcases List.mem_append.1 hw with hw | hw
        · exact Or.inl hw
        · exact Or.inr ⟨hk, by rw [List.mem_singleton.1 hw]; exact hw0⟩
      · exact step _ hv (fun w hw => Or.inl hw)
    · have hk' : (x.kind == k) = false := by simpa using hk
      simp only [hk', Bool.false_eq_true, if_false] at hv
      exact step _ hv (fun w hw => Or.inl hw)

theorem map_rewrap_filterLoop (h : Heap) (a : Nat) (p : Val → Bool) (hr : IntsOK h a) :
    (L.filterLoop h p (h.items a) []).map rewrap = L.filterLoop h p (h.items a) [] := by
  conv => rhs; rw [← List.map_id (L.filterLoop h p (h.items a) [])]
  apply List.map_congr_left
  intro v hv
  rcases mem_filterLoop h p _ _ _ hv with hm | ⟨x, hx, e⟩
  · cases hm
  · subst e; exact rewrap_of_ok (intOK_getVal h (hr x hx))

theorem map_rewrap_filterKLoop (h : Heap) (a : Nat) (k : Kind) (p : Val → Bool) (hr : k = .int → IntsOK h a) :
    (L.filterKLoop h k p (h.items a) []).map rewrap = L.filterKLoop h k p (h.items a) [] := by
  conv => rhs; rw [← List.map_id (L.filterKLoop h k p (h.items a) [])]
  apply List.map_congr_left
  intro v hv
  rcases mem_filterKLoop h k p _ _ _ hv with hm | ⟨x, hx, hk, e⟩
  · cases hm
  · by_cases hki : k = .int
    · rcases e with e | e <;> rw [e]
      · exact rewrap_of_ok (hr hki x hx)
      · exact rewrap_of_ok (intOK_getVal h (hr hki x hx))
    · rcases e with e | e <;> rw [e]
      · exact rewrap_of_kind (by rw [hk]; exact hki)
      · exact rewrap_of_kind (by rw [genGetVal_kind, hk]; exact hki)

/-- `Filter`: equal to the model when the ints stored in the receiver are in the int64 range -/
theorem filterGen_eq (h : Heap) (a : Nat) (p : Val → Bool) (hr : IntsOK h a) :
    filterGen h a p = okOf (L.filter h a p) := by
  simp only [filterGen_eq_rewrap, filterRewrap, okOf, L.filter, map_rewrap_filterLoop h a p hr]

/-- `FilterInts`: equal to the model when the ints stored in the receiver are in the int64 range -/
theorem filterIntsGen_eq (h : Heap) (a : Nat) (p : Val → Bool) (hr : IntsOK h a) :
    filterIntsGen h a p = okOf (L.filterK h a .int p) := by
  simp only [filterIntsGen_eq_rewrap, filterKRewrap, okOf, L.filterK, map_rewrap_filterKLoop h a .int p (fun _ => hr)]

/-- `FilterObjects`, `FilterLists`, `FilterStrings`, `FilterFloats`: equal to the model, unconditionally -/
theorem filterObjectsGen_eq (h : Heap) (a : Nat) (p : Val → Bool) :
    filterObjectsGen h a p = okOf (L.filterK h a .object p) := by
  simp only [filterObjectsGen_eq_rewrap, filterKRewrap, okOf, L.filterK,
    map_rewrap_filterKLoop h a .object p (fun e => by cases e)]
theorem filterListsGen_eq (h : Heap) (a : Nat) (p : Val → Bool) :
    filterListsGen h a p = okOf (L.filterK h a .list p) := by
  simp only [filterListsGen_eq_rewrap, filterKRewrap, okOf, L.filterK,
    map_rewrap_filterKLoop h a .list p (fun e => by cases e)]
theorem filterStringsGen_eq (h : Heap) (a : Nat) (p : Val → Bool) :
    filterStringsGen h a p = okOf (L.filterK h a .string p) := by
  simp only [filterStringsGen_eq_rewrap, filterKRewrap, okOf, L.filterK,
    map_rewrap_filterKLoop h a .string p (fun e => by cases e)]
theorem filterFloatsGen_eq (h : Heap) (a : Nat) (p : Val → Bool) :
    filterFloatsGen h a p = okOf (L.filterK h a .float p) := by
  simp only [filterFloatsGen_eq_rewrap, filterKRewrap, okOf, L.filterK,
    map_rewrap_filterKLoop h a .float p (fun e => by cases e)]

/-- the hypothesis is satisfiable (and not only by lists without ints) -/
example : IntsOK [Cell.list [.int 5, .str [], .int (-7)] 0] 0 := by
  intro v hv
  simp only [Heap.items, List.getElem?_cons_zero] at hv
  simp only [List.mem_cons, List.not_mem_nil, or_false] at hv
  rcases hv with rfl | rfl | rfl <;> simp [IntOK, InRange]

/-- the hypothesis cannot be dropped: an int outside the range is wrapped by the Go code, kept by the model -/
example : filterGen [Cell.list [.int (2^63)] 0] 0 (fun _ => true) ≠ okOf (L.filter [Cell.list [.int (2^63)] 0] 0 (fun _ => true)) := by
  rw [filterGen_eq_rewrap]
  simp [filterRewrap, okOf, L.filter, L.filterLoop, Heap.items, Heap.getVal, rewrap, wrap64]

/-! ### the hypothesis `IntsOK` holds for everything that enters a list through the API -/

/-- every list cell of the heap holds only ints in the int64 range -/
def HeapIntsOK (h : Heap) : Prop := ∀ a, IntsOK h a

theorem heapIntsOK_nil : HeapIntsOK [] := by
  intro a v hv; simp [Heap.items] at hv

theorem heapIntsOK_append_list (h : Heap) (ho : HeapIntsOK h) : HeapIntsOK (h ++ [Cell.list [] 0]) := by
  intro a v hv
  rw [items_append_empty_list] at hv
  exact ho a v hv

theorem heapIntsOK_append_obj (h : Heap) (kvs : List (Str × Val)) (e : Nat) (ho : HeapIntsOK h) :
    HeapIntsOK (h ++ [Cell.obj kvs e]) := by
  intro a v hv
  by_cases hlt : a < h.length
  · rw [Heap.items_append_old h _ hlt] at hv; exact ho a v hv
  · have hge : h.length ≤ a := Nat.le_of_not_lt hlt
    simp only [Heap.items, List.getElem?_append_right hge] at hv
    cases hz : a - h.length with
    | zero => simp [hz] at hv
    | succ n => simp [hz] at hv

theorem heapIntsOK_setItems_snoc (h : Heap) (a : Nat) (w : Val) (ho : HeapIntsOK h) (hw : IntOK w) :
    HeapIntsOK (h.setItems a (h.items a ++ [w])) := by
  intro b v hv
  rw [Heap.items_setItems] at hv
  split at hv
  · rcases List.mem_append.1 hv with hm | hm
    · exact ho a v hm
    · rw [List.mem_singleton.1 hm]; exact hw
  · exact ho b v hv

theorem heapIntsOK_setFields (h : Heap) (a : Nat) (kvs : List (Str × Val)) (ho : HeapIntsOK h) :
    HeapIntsOK (h.setFields a kvs) := by
  intro b v hv
  rw [Heap.items_setFields] at hv
  exact ho b v hv

mutual
/-- `parseVal` keeps the invariant and returns a value that satisfies it -/
theorem parseVal_intsOK : ∀ (h : Heap) (g : GoVal), HeapIntsOK h →
    HeapIntsOK (parseVal h g).1 ∧ ∀ v, (parseVal h g).2 = .ok v → IntOK v
  | h, .nil, ho => by simp only [parseVal]; exact ⟨ho, fun v e => by cases e; trivial⟩
  | h, .bool _, ho => by simp only [parseVal]; exact ⟨ho, fun v e => by cases e; trivial⟩
  | h, .intw _ i, ho => by
    simp only [parseVal]; exact ⟨ho, fun v e => by cases e; exact wrap64_inRange' i⟩
  | h, .f64 _, ho => by simp only [parseVal]; exact ⟨ho, fun v e => by cases e; trivial⟩
  | h, .f32 _, ho => by simp only [parseVal]; exact ⟨ho, fun v e => by cases e; trivial⟩
  | h, .str _, ho => by simp only [parseVal]; exact ⟨ho, fun v e => by cases e; trivial⟩
  | h, .list _, ho => by simp only [parseVal]; exact ⟨ho, fun v e => by cases e; trivial⟩
  | h, .obj _, ho => by simp only [parseVal]; exact ⟨ho, fun v e => by cases e; trivial⟩
  | h, .unsupported, ho => by simp only [parseVal]; exact ⟨ho, fun v e => by cases e⟩
  | h, .slice _ xs, ho => by
    have ih := addEach_intsOK (h ++ [.list [] 0]) h.length xs (heapIntsOK_append_list h ho)
    simp only [parseVal]
    split
    · next h1 u hp => rw [hp] at ih; exact ⟨ih, fun v e => by cases e; trivial⟩
    · next h1 k hp => rw [hp] at ih; exact ⟨ih, fun v e => by cases e⟩
  | h, .map _ kvs, ho => by
    have ih := setEach_intsOK (h ++ [.obj [] 0]) h.length kvs (heapIntsOK_append_obj h _ _ ho)
    simp only [parseVal]
    split
    · next h1 u hp => rw [hp] at ih; exact ⟨ih, fun v e => by cases e; trivial⟩
    · next h1 k hp => rw [hp] at ih; exact ⟨ih, fun v e => by cases e⟩
/-- `addEach` (the loop of `Add`, of `NewList`, of `NewListFrom`) keeps the invariant -/
theorem addEach_intsOK : ∀ (h : Heap) (a : Nat) (gs : List GoVal), HeapIntsOK h → HeapIntsOK (addEach h a gs).1
  | h, a, [], ho => by simp only [addEach]; exact ho
  | h, a, g :: gs, ho => by
    have ih1 := parseVal_intsOK h g ho
    simp only [addEach]
    split
    · next h1 k hp => rw [hp] at ih1; exact ih1.1
    · next h1 v hp =>
      rw [hp] at ih1
      exact addEach_intsOK _ a gs (heapIntsOK_setItems_snoc h1 a v ih1.1 (ih1.2 v rfl))
/-- `setEach` (the loop of `NewObjectFrom`) keeps the invariant -/
theorem setEach_intsOK : ∀ (h : Heap) (a : Nat) (kvs : List (Str × GoVal)), HeapIntsOK h → HeapIntsOK (setEach h a kvs).1
  | h, a, [], ho => by simp only [setEach]; exact ho
  | h, a, (k, g) :: kvs, ho => by
    have ih1 := parseVal_intsOK h g ho
    simp only [setEach]
    split
    · next h1 p hp => rw [hp] at ih1; exact ih1.1
    · next h1 v hp =>
      rw [hp] at ih1
      exact setEach_intsOK _ a kvs (heapIntsOK_setFields h1 a _ ih1.1)
end

/-- a list built by `NewList(values...)` on a heap that satisfies the invariant: `Filter` on it is the model's -/
theorem filterGen_eq_of_new (h : Heap) (gs : List GoVal) (ho : HeapIntsOK h) (p : Val → Bool) :
    filterGen (L.new h gs).1 h.length p = okOf (L.filter (L.new h gs).1 h.length p) := by
  apply filterGen_eq
  have e := addEach_intsOK (h ++ [.list [] 0]) h.length gs (heapIntsOK_append_list h ho)
  simp only [L.new]
  split <;> next h1 _ hp => rw [hp] at e; exact e _

end L2Eq
end Anytype

#print axioms Anytype.L2Eq.filterGen_eq_rewrap
#print axioms Anytype.L2Eq.filterObjectsGen_eq_rewrap
#print axioms Anytype.L2Eq.filterListsGen_eq_rewrap
#print axioms Anytype.L2Eq.filterStringsGen_eq_rewrap
#print axioms Anytype.L2Eq.filterIntsGen_eq_rewrap
#print axioms Anytype.L2Eq.filterFloatsGen_eq_rewrap
#print axioms Anytype.L2Eq.filterGen_eq
#print axioms Anytype.L2Eq.filterObjectsGen_eq
#print axioms Anytype.L2Eq.filterListsGen_eq
#print axioms Anytype.L2Eq.filterStringsGen_eq
#print axioms Anytype.L2Eq.filterIntsGen_eq
#print axioms Anytype.L2Eq.filterFloatsGen_eq
#print axioms Anytype.L2Eq.intMinGen_eq
#print axioms Anytype.L2Eq.intMaxGen_eq
#print axioms Anytype.L2Eq.minGen_eq
#print axioms Anytype.L2Eq.maxGen_eq
#print axioms Anytype.L2Eq.newListFromGen_eq
#print axioms Anytype.L2Eq.parseVal_intsOK
#print axioms Anytype.L2Eq.addEach_intsOK
#print axioms Anytype.L2Eq.filterGen_eq_of_new
