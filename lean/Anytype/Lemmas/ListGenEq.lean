/-
The definitions that `vextract` (vextract/listgen.go) translates from the Go source of the sequence
core of `*list` (`Anytype/Generated/ListGen.lean`, regenerated on every run) are equal to the
hand-written model (`Model/ListOps.lean`, `Model/Normalize.lean`) that the list theorems are about.

The proofs are generic scripts: unfold both sides one step, rewrite the calls of other generated
functions with the equalities already proved, and, where the two decision trees are not
syntactically the same, split the tests and let `simp_all` compare the leaves.  Loop helpers are
handled by induction over the list (or the counter) they recurse on.
-/
import Anytype.Generated.ListGen
import Anytype.Lemmas.Heap
set_option linter.unusedSimpArgs false
namespace Anytype

open Generated

/-- closes one case: syntactic agreement, or exhaustive splitting (`split` cannot use a hypothesis `a ≥ b`
to decide `if a ≥ b`: the last alternative writes `≥` / `>` as `≤` / `<` first) -/
local macro "gen_case" : tactic =>
  `(tactic| first
    | rfl
    | ((try simp only [Bool.or_eq_true, Bool.and_eq_true, decide_eq_true_eq, Bool.not_eq_true', beq_iff_eq,
          bne_iff_ne]) <;>
        (repeat' split) <;> first | rfl | (simp_all; done) | (simp_all [L.count]; done) | (simp_all [L.count]; omega))
    | ((try simp only [Bool.or_eq_true, Bool.and_eq_true, decide_eq_true_eq, Bool.not_eq_true', beq_iff_eq,
          bne_iff_ne, ge_iff_le, gt_iff_lt]) <;>
        (repeat' split) <;> first | rfl | (simp_all; done) | (simp_all [L.count]; done) | (simp_all [L.count]; omega)))

theorem countGen_eq (h : Heap) (a : Nat) : countGen h a = L.count h a := rfl

theorem emptyGen_eq (h : Heap) (a : Nat) : emptyGen h a = L.empty h a := by
  simp only [emptyGen, L.empty, countGen_eq] <;> gen_case

theorem getGen_eq (h : Heap) (a : Nat) (index : Int) : getGen h a index = L.get h a index := by
  simp only [getGen, L.get, countGen_eq] <;> gen_case


/-! ### the typed getters -/

theorem getObjectGen_eq (h : Heap) (a : Nat) (index : Int) : getObjectGen h a index = L.getK h a .object index := by
  simp only [getObjectGen, L.getK, getGen_eq] <;> gen_case
theorem getListGen_eq (h : Heap) (a : Nat) (index : Int) : getListGen h a index = L.getK h a .list index := by
  simp only [getListGen, L.getK, getGen_eq] <;> gen_case
theorem getStringGen_eq (h : Heap) (a : Nat) (index : Int) : getStringGen h a index = L.getK h a .string index := by
  simp only [getStringGen, L.getK, getGen_eq] <;> gen_case
theorem getBoolGen_eq (h : Heap) (a : Nat) (index : Int) : getBoolGen h a index = L.getK h a .bool index := by
  simp only [getBoolGen, L.getK, getGen_eq] <;> gen_case
theorem getIntGen_eq (h : Heap) (a : Nat) (index : Int) : getIntGen h a index = L.getK h a .int index := by
  simp only [getIntGen, L.getK, getGen_eq] <;> gen_case
theorem getFloatGen_eq (h : Heap) (a : Nat) (index : Int) : getFloatGen h a index = L.getK h a .float index := by
  simp only [getFloatGen, L.getK, getGen_eq] <;> gen_case


theorem typeOfGen_eq (h : Heap) (a : Nat) (index : Int) : typeOfGen h a index = L.typeOf h a index := by
  simp only [typeOfGen, L.typeOf, countGen_eq]
  cases (h.items a)[index.toNat]? with
  | none => gen_case
  | some v => cases v <;> simp only [Val.kind] <;> gen_case

/-! ### mutators -/

theorem addLoopGen_eq (a : Nat) (h : Heap) (gs : List GoVal) : addLoopGen a h gs = addEach h a gs := by
  induction gs generalizing h with
  | nil => simp only [addLoopGen, addEach]
  | cons g gs ih => simp only [addLoopGen, addEach, ih] <;> gen_case

theorem addGen_eq (h : Heap) (a : Nat) (gs : List GoVal) : addGen h a gs = L.add h a gs := by
  simp only [addGen, L.add, addLoopGen_eq] <;> gen_case

theorem insertGen_eq (h : Heap) (a : Nat) (index : Int) (g : GoVal) : insertGen h a index g = L.insert h a index g := by
  simp only [insertGen, L.insert, countGen_eq, addGen_eq] <;> gen_case

theorem replaceGen_eq (h : Heap) (a : Nat) (index : Int) (g : GoVal) : replaceGen h a index g = L.replace h a index g := by
  simp only [replaceGen, L.replace, countGen_eq] <;> gen_case

theorem deleteLoopGen_eq (a : Nat) (h : Heap) (is : List Int) : deleteLoopGen a h is = L.deleteLoop h a is := by
  induction is generalizing h with
  | nil => simp only [deleteLoopGen, L.deleteLoop]
  | cons i is ih => simp only [deleteLoopGen, L.deleteLoop, ih, countGen_eq] <;> gen_case

/-- `if len(indexes) > 1 { sort.Ints(indexes) }` sorts in every case -/
theorem ite_length_mergeSort {α} (l : List α) (le : α → α → Bool) :
    (if (l.length : Int) > 1 then l.mergeSort le else l) = l.mergeSort le := by
  split
  · rfl
  · match l with
    | [] => simp
    | [x] => simp
    | x :: y :: r => rename_i hlen; simp at hlen; omega

theorem deleteGen_eq (h : Heap) (a : Nat) (is : List Int) : deleteGen h a is = L.delete h a is := by
  simp only [deleteGen, L.delete, deleteLoopGen_eq, ite_length_mergeSort] <;> gen_case

theorem popGen_eq (h : Heap) (a : Nat) : popGen h a = L.pop h a := by
  simp only [popGen, L.pop, deleteGen_eq, countGen_eq] <;> gen_case

theorem clearGen_eq (h : Heap) (a : Nat) : clearGen h a = L.clear h a := by
  simp only [clearGen, L.clear] <;> gen_case


/-! ### slices -/

theorem genGetVal_kind (h : Heap) (v : Val) : (h.getVal v).kind = v.kind := by
  cases v <;> rfl

theorem sliceLoopGen_eq (h : Heap) (xs acc : List Val) : sliceLoopGen h xs acc = acc ++ xs.map h.getVal := by
  induction xs generalizing acc with
  | nil => simp [sliceLoopGen]
  | cons x xs ih => simp [sliceLoopGen, ih]

theorem sliceGen_eq (h : Heap) (a : Nat) : sliceGen h a = L.slice h a := by
  simp [sliceGen, L.slice, sliceLoopGen_eq]

/-- one typed slice loop against `sliceKLoop` -/
local macro "slice_loop" d:ident : tactic =>
  `(tactic| (intro xs; induction xs with
    | nil => intro acc; simp only [$d:ident, L.sliceKLoop]
    | cons x xs ih =>
      intro acc
      simp only [$d:ident, L.sliceKLoop, L.sel, L.viaGetValL, ih, genGetVal_kind] <;> gen_case))

theorem objectSliceLoopGen_eq (h : Heap) : ∀ xs acc, objectSliceLoopGen xs acc = L.sliceKLoop h .object xs acc := by
  slice_loop objectSliceLoopGen
theorem listSliceLoopGen_eq (h : Heap) : ∀ xs acc, listSliceLoopGen xs acc = L.sliceKLoop h .list xs acc := by
  slice_loop listSliceLoopGen
theorem stringSliceLoopGen_eq (h : Heap) : ∀ xs acc, stringSliceLoopGen h xs acc = L.sliceKLoop h .string xs acc := by
  slice_loop stringSliceLoopGen
theorem boolSliceLoopGen_eq (h : Heap) : ∀ xs acc, boolSliceLoopGen h xs acc = L.sliceKLoop h .bool xs acc := by
  slice_loop boolSliceLoopGen
theorem intSliceLoopGen_eq (h : Heap) : ∀ xs acc, intSliceLoopGen h xs acc = L.sliceKLoop h .int xs acc := by
  slice_loop intSliceLoopGen
theorem floatSliceLoopGen_eq (h : Heap) : ∀ xs acc, floatSliceLoopGen h xs acc = L.sliceKLoop h .float xs acc := by
  slice_loop floatSliceLoopGen

theorem objectSliceGen_eq (h : Heap) (a : Nat) : objectSliceGen h a = L.sliceK h a .object := by
  simp only [objectSliceGen, L.sliceK, objectSliceLoopGen_eq h]
theorem listSliceGen_eq (h : Heap) (a : Nat) : listSliceGen h a = L.sliceK h a .list := by
  simp only [listSliceGen, L.sliceK, listSliceLoopGen_eq h]
theorem stringSliceGen_eq (h : Heap) (a : Nat) : stringSliceGen h a = L.sliceK h a .string := by
  simp only [stringSliceGen, L.sliceK, stringSliceLoopGen_eq h]
theorem boolSliceGen_eq (h : Heap) (a : Nat) : boolSliceGen h a = L.sliceK h a .bool := by
  simp only [boolSliceGen, L.sliceK, boolSliceLoopGen_eq h]
theorem intSliceGen_eq (h : Heap) (a : Nat) : intSliceGen h a = L.sliceK h a .int := by
  simp only [intSliceGen, L.sliceK, intSliceLoopGen_eq h]
theorem floatSliceGen_eq (h : Heap) (a : Nat) : floatSliceGen h a = L.sliceK h a .float := by
  simp only [floatSliceGen, L.sliceK, floatSliceLoopGen_eq h]

/-! ### searching -/

theorem indexOfLoopGen_eq (h : Heap) (elem : Val) (xs : List Val) (i : Int) :
    indexOfLoopGen h elem xs i = L.indexOfLoop h elem xs i := by
  induction xs generalizing i with
  | nil => simp only [indexOfLoopGen, L.indexOfLoop] <;> gen_case
  | cons x xs ih => simp only [indexOfLoopGen, L.indexOfLoop, ih] <;> gen_case

theorem indexOfGen_eq (h : Heap) (a : Nat) (elem : Val) : indexOfGen h a elem = L.indexOf h a elem := by
  simp only [indexOfGen, L.indexOf, indexOfLoopGen_eq]

/-- what `IndexOf` says about membership (a fact about the model): a hit gives an index from the start
index on, no hit gives `-1` -/
theorem indexOfLoop_spec (h : Heap) (elem : Val) (xs : List Val) (i : Int) :
    (xs.any (fun item => L.goEq (h.getVal item) elem) = true ∧ i ≤ L.indexOfLoop h elem xs i) ∨
    (xs.any (fun item => L.goEq (h.getVal item) elem) = false ∧ L.indexOfLoop h elem xs i = -1) := by
  induction xs generalizing i with
  | nil => right; simp [L.indexOfLoop]
  | cons x xs ih =>
    simp only [List.any_cons, L.indexOfLoop]
    cases hx : L.goEq (h.getVal x) elem with
    | true => left; simp
    | false =>
      rcases ih (i + 1) with ⟨hc, hi⟩ | ⟨hc, hi⟩
      · left; simp [hc]; omega
      · right; simp [hc, hi]

theorem indexOf_spec (h : Heap) (a : Nat) (elem : Val) :
    (L.contains h a elem = true ∧ 0 ≤ L.indexOf h a elem) ∨ (L.contains h a elem = false ∧ L.indexOf h a elem = -1) :=
  indexOfLoop_spec h elem (h.items a) 0

/-- `Contains` either has a search loop of its own (`containsLoopGen`, which then exists) or is a test of
the result of `IndexOf` (`!= -1`, `>= 0`, …), decided with `indexOf_spec` -/
theorem containsGen_eq (h : Heap) (a : Nat) (elem : Val) : containsGen h a elem = L.contains h a elem := by
  first
  | (have hl : ∀ xs, containsLoopGen h elem xs = xs.any (fun item => L.goEq (h.getVal item) elem) := by
      intro xs
      induction xs with
      | nil => simp [containsLoopGen]
      | cons x xs ih => simp only [containsLoopGen, List.any_cons, ih] <;> gen_case
     simp only [containsGen, L.contains, hl]; done)
  | (simp only [containsGen, indexOfGen_eq]
     rcases indexOf_spec h a elem with ⟨hc, hi⟩ | ⟨hc, hi⟩ <;> rw [hc] <;> simp <;> omega)

/-! ### All* -/

local macro "all_loop" d:ident : tactic =>
  `(tactic| (intro xs; induction xs with
    | nil => simp only [$d:ident, L.allKLoop, L.allNumericLoop]
    | cons x xs ih => simp only [$d:ident, L.allKLoop, L.allNumericLoop, ih] <;> gen_case))

theorem allObjectsLoopGen_eq : ∀ xs, allObjectsLoopGen xs = L.allKLoop .object xs := by all_loop allObjectsLoopGen
theorem allListsLoopGen_eq : ∀ xs, allListsLoopGen xs = L.allKLoop .list xs := by all_loop allListsLoopGen
theorem allStringsLoopGen_eq : ∀ xs, allStringsLoopGen xs = L.allKLoop .string xs := by all_loop allStringsLoopGen
theorem allBoolsLoopGen_eq : ∀ xs, allBoolsLoopGen xs = L.allKLoop .bool xs := by all_loop allBoolsLoopGen
theorem allIntsLoopGen_eq : ∀ xs, allIntsLoopGen xs = L.allKLoop .int xs := by all_loop allIntsLoopGen
theorem allFloatsLoopGen_eq : ∀ xs, allFloatsLoopGen xs = L.allKLoop .float xs := by all_loop allFloatsLoopGen
theorem allNumericLoopGen_eq : ∀ xs, allNumericLoopGen xs = L.allNumericLoop xs := by all_loop allNumericLoopGen

theorem allObjectsGen_eq (h : Heap) (a : Nat) : allObjectsGen h a = L.allK h a .object := by
  simp only [allObjectsGen, L.allK, allObjectsLoopGen_eq]
theorem allListsGen_eq (h : Heap) (a : Nat) : allListsGen h a = L.allK h a .list := by
  simp only [allListsGen, L.allK, allListsLoopGen_eq]
theorem allStringsGen_eq (h : Heap) (a : Nat) : allStringsGen h a = L.allK h a .string := by
  simp only [allStringsGen, L.allK, allStringsLoopGen_eq]
theorem allBoolsGen_eq (h : Heap) (a : Nat) : allBoolsGen h a = L.allK h a .bool := by
  simp only [allBoolsGen, L.allK, allBoolsLoopGen_eq]
theorem allIntsGen_eq (h : Heap) (a : Nat) : allIntsGen h a = L.allK h a .int := by
  simp only [allIntsGen, L.allK, allIntsLoopGen_eq]
theorem allFloatsGen_eq (h : Heap) (a : Nat) : allFloatsGen h a = L.allK h a .float := by
  simp only [allFloatsGen, L.allK, allFloatsLoopGen_eq]
theorem allNumericGen_eq (h : Heap) (a : Nat) : allNumericGen h a = L.allNumeric h a := by
  simp only [allNumericGen, L.allNumeric, allNumericLoopGen_eq]


/-! ### new cells -/

theorem concatGen_eq (h : Heap) (a : Nat) (another : Ref) : concatGen h a another = L.concat h a another := by
  simp only [concatGen, L.concat] <;> gen_case

theorem subListGen_eq (h : Heap) (a : Nat) (start end_ : Int) : subListGen h a start end_ = L.subList h a start end_ := by
  simp only [subListGen, L.subList, countGen_eq] <;> gen_case

theorem newListGen_eq (h : Heap) (gs : List GoVal) : newListGen h gs = L.new h gs := by
  simp only [newListGen, L.new, addGen_eq, L.add] <;> gen_case


/-! ### Reverse -/

theorem reverseLoopGen_eq (i : Nat) : ∀ xs, reverseLoopGen xs i = L.reverseLoop xs xs.length i := by
  induction i with
  | zero => intro xs; simp only [reverseLoopGen, L.reverseLoop]
  | succ i ih =>
    intro xs
    simp only [reverseLoopGen, L.reverseLoop, ih, List.length_set]
    by_cases hlt : ((xs.length : Int) - 1 - (i : Int)) < 0
    · have hn : xs[i]? = none := by apply List.getElem?_eq_none; omega
      simp [hlt, hn]
    · have e : ((xs.length : Int) - 1 - (i : Int)).toNat = xs.length - 1 - i := by omega
      simp only [hlt, e, if_false]
      cases xs[i]? <;> cases xs[xs.length - 1 - i]? <;> rfl

theorem reverseGen_eq (h : Heap) (a : Nat) : reverseGen h a = L.reverse h a := by
  have e : ∀ n : Nat, ((n : Int) / 2).toNat = n / 2 := by intro n; omega
  simp only [reverseGen, L.reverse, countGen_eq, L.count, reverseLoopGen_eq, e]

/-! ### NewListOf -/

theorem newListOfLoopGen_eq (v : Val) (n : Nat) : ∀ xs, newListOfLoopGen v xs n = xs ++ List.replicate n v := by
  induction n with
  | zero => intro xs; simp [newListOfLoopGen]
  | succ n ih => intro xs; simp [newListOfLoopGen, ih, List.replicate_succ]

theorem newListOfGen_eq (h : Heap) (g : GoVal) (count : Int) : newListOfGen h g count = L.newOf h g count := by
  have e : (parseVal (h ++ [.list [] 0]) g).1.items h.length = [] := by
    have hlt : h.length < (h ++ [Cell.list [] 0]).length := by simp
    rw [(parseVal_ext0 (h ++ [Cell.list [] 0]) g).items hlt]; simp
  simp only [newListOfGen, L.newOf, newListOfLoopGen_eq]
  split
  · rfl
  · revert e
    cases parseVal (h ++ [.list [] 0]) g with
    | mk h1 r => intro e; simp only at e; cases r <;> simp [e]


/-! ### Sort -/

theorem sliceKLoop_eq_filterMap (h : Heap) (k : Kind) : ∀ xs acc,
    L.sliceKLoop h k xs acc = acc ++ xs.filterMap (L.sel h (L.viaGetValL k) k) := by
  intro xs
  induction xs with
  | nil => intro acc; simp [L.sliceKLoop]
  | cons x xs ih =>
    intro acc
    simp only [L.sliceKLoop, List.filterMap_cons]
    split <;> simp_all

theorem filterMap_asStr_sliceK (h : Heap) (a : Nat) :
    (L.sliceK h a .string).filterMap L.asStr = (h.items a).filterMap L.asStr := by
  simp only [L.sliceK, sliceKLoop_eq_filterMap, List.nil_append, show L.viaGetValL Kind.string = true from rfl]
  induction h.items a with
  | nil => rfl
  | cons x xs ih =>
    cases x <;> simp [List.filterMap_cons, L.sel, Val.kind, L.asStr, Heap.getVal, ih]

theorem filterMap_asInt_sliceK (h : Heap) (a : Nat) :
    (L.sliceK h a .int).filterMap L.asInt = (h.items a).filterMap L.asInt := by
  simp only [L.sliceK, sliceKLoop_eq_filterMap, List.nil_append, show L.viaGetValL Kind.int = true from rfl]
  induction h.items a with
  | nil => rfl
  | cons x xs ih =>
    cases x <;> simp [List.filterMap_cons, L.sel, Val.kind, L.asInt, Heap.getVal, ih]

theorem filterMap_asFloat_sliceK (h : Heap) (a : Nat) :
    (L.sliceK h a .float).filterMap L.asFloat = (h.items a).filterMap L.asFloat := by
  simp only [L.sliceK, sliceKLoop_eq_filterMap, List.nil_append, show L.viaGetValL Kind.float = true from rfl]
  induction h.items a with
  | nil => rfl
  | cons x xs ih =>
    cases x <;> simp [List.filterMap_cons, L.sel, Val.kind, L.asFloat, Heap.getVal, ih]

theorem sortGen_eq (h : Heap) (a : Nat) : sortGen h a = L.sort h a := by
  simp only [sortGen, L.sort, sortStrVals, sortIntVals, sortFloatVals, stringSliceGen_eq, intSliceGen_eq,
    floatSliceGen_eq, filterMap_asStr_sliceK, filterMap_asInt_sliceK, filterMap_asFloat_sliceK]
  cases h.items a with
  | nil => rfl
  | cons v vs => cases v <;> rfl

/-! ### ForEach* -/

theorem forEachLoopGen_eq (h : Heap) : ∀ xs i log, forEachLoopGen h xs i log = L.forEachLoop h xs i log := by
  intro xs
  induction xs with
  | nil => intro i log; simp only [forEachLoopGen, L.forEachLoop]
  | cons x xs ih => intro i log; simp only [forEachLoopGen, L.forEachLoop, ih] <;> gen_case

theorem forEachGen_eq (h : Heap) (a : Nat) : forEachGen h a = L.forEach h a := by
  simp only [forEachGen, L.forEach, forEachLoopGen_eq]

theorem forEachLoop_snd (h : Heap) : ∀ xs i log,
    (L.forEachLoop h xs i log).map (·.2) = log.map (·.2) ++ xs.map h.getVal := by
  intro xs
  induction xs with
  | nil => intro i log; simp [L.forEachLoop]
  | cons x xs ih => intro i log; simp [L.forEachLoop, ih]

theorem forEachValueLoopGen_eq (h : Heap) : ∀ xs log, forEachValueLoopGen h xs log = log ++ xs.map h.getVal := by
  intro xs
  induction xs with
  | nil => intro log; simp [forEachValueLoopGen]
  | cons x xs ih => intro log; simp [forEachValueLoopGen, ih]

theorem forEachValueGen_eq (h : Heap) (a : Nat) : forEachValueGen h a = L.forEachValue h a := by
  simp [forEachValueGen, L.forEachValue, L.forEach, forEachValueLoopGen_eq, forEachLoop_snd]

local macro "foreach_loop" d:ident : tactic =>
  `(tactic| (intro xs; induction xs with
    | nil => intro acc; simp only [$d:ident, L.forEachKLoop]
    | cons x xs ih =>
      intro acc
      simp only [$d:ident, L.forEachKLoop, L.sel, L.viaGetValL, ih, genGetVal_kind] <;> gen_case))

theorem forEachObjectLoopGen_eq (h : Heap) : ∀ xs acc, forEachObjectLoopGen xs acc = L.forEachKLoop h .object xs acc := by
  foreach_loop forEachObjectLoopGen
theorem forEachListLoopGen_eq (h : Heap) : ∀ xs acc, forEachListLoopGen xs acc = L.forEachKLoop h .list xs acc := by
  foreach_loop forEachListLoopGen
theorem forEachStringLoopGen_eq (h : Heap) : ∀ xs acc, forEachStringLoopGen h xs acc = L.forEachKLoop h .string xs acc := by
  foreach_loop forEachStringLoopGen
theorem forEachBoolLoopGen_eq (h : Heap) : ∀ xs acc, forEachBoolLoopGen h xs acc = L.forEachKLoop h .bool xs acc := by
  foreach_loop forEachBoolLoopGen
theorem forEachIntLoopGen_eq (h : Heap) : ∀ xs acc, forEachIntLoopGen h xs acc = L.forEachKLoop h .int xs acc := by
  foreach_loop forEachIntLoopGen
theorem forEachFloatLoopGen_eq (h : Heap) : ∀ xs acc, forEachFloatLoopGen h xs acc = L.forEachKLoop h .float xs acc := by
  foreach_loop forEachFloatLoopGen

theorem forEachObjectGen_eq (h : Heap) (a : Nat) : forEachObjectGen h a = L.forEachK h a .object := by
  simp only [forEachObjectGen, L.forEachK, forEachObjectLoopGen_eq h]
theorem forEachListGen_eq (h : Heap) (a : Nat) : forEachListGen h a = L.forEachK h a .list := by
  simp only [forEachListGen, L.forEachK, forEachListLoopGen_eq h]
theorem forEachStringGen_eq (h : Heap) (a : Nat) : forEachStringGen h a = L.forEachK h a .string := by
  simp only [forEachStringGen, L.forEachK, forEachStringLoopGen_eq h]
theorem forEachBoolGen_eq (h : Heap) (a : Nat) : forEachBoolGen h a = L.forEachK h a .bool := by
  simp only [forEachBoolGen, L.forEachK, forEachBoolLoopGen_eq h]
theorem forEachIntGen_eq (h : Heap) (a : Nat) : forEachIntGen h a = L.forEachK h a .int := by
  simp only [forEachIntGen, L.forEachK, forEachIntLoopGen_eq h]
theorem forEachFloatGen_eq (h : Heap) (a : Nat) : forEachFloatGen h a = L.forEachK h a .float := by
  simp only [forEachFloatGen, L.forEachK, forEachFloatLoopGen_eq h]

/-! ### Reduce* -/

theorem reduceLoopGen_eq {α} (h : Heap) (f : α → Val → α) : ∀ xs acc, reduceLoopGen h f xs acc = L.reduceLoop h f xs acc := by
  intro xs
  induction xs with
  | nil => intro acc; simp only [reduceLoopGen, L.reduceLoop]
  | cons x xs ih => intro acc; simp only [reduceLoopGen, L.reduceLoop, ih]

theorem reduceGen_eq {α} (h : Heap) (a : Nat) (init : α) (f : α → Val → α) : reduceGen h a init f = L.reduce h a init f := by
  simp only [reduceGen, L.reduce, reduceLoopGen_eq]

local macro "reduce_loop" d:ident : tactic =>
  `(tactic| (intro xs; induction xs with
    | nil => intro acc; simp only [$d:ident, L.reduceKLoop]
    | cons x xs ih =>
      intro acc
      simp only [$d:ident, L.reduceKLoop, L.sel, ih, genGetVal_kind] <;> gen_case))

theorem reduceStringsLoopGen_eq {α} (h : Heap) (f : α → Val → α) : ∀ xs acc,
    reduceStringsLoopGen h f xs acc = L.reduceKLoop h .string f xs acc := by reduce_loop reduceStringsLoopGen
theorem reduceIntsLoopGen_eq {α} (h : Heap) (f : α → Val → α) : ∀ xs acc,
    reduceIntsLoopGen h f xs acc = L.reduceKLoop h .int f xs acc := by reduce_loop reduceIntsLoopGen
theorem reduceFloatsLoopGen_eq {α} (h : Heap) (f : α → Val → α) : ∀ xs acc,
    reduceFloatsLoopGen h f xs acc = L.reduceKLoop h .float f xs acc := by reduce_loop reduceFloatsLoopGen

theorem reduceStringsGen_eq {α} (h : Heap) (a : Nat) (init : α) (f : α → Val → α) :
    reduceStringsGen h a init f = L.reduceK h a .string init f := by
  simp only [reduceStringsGen, L.reduceK, reduceStringsLoopGen_eq]
theorem reduceIntsGen_eq {α} (h : Heap) (a : Nat) (init : α) (f : α → Val → α) :
    reduceIntsGen h a init f = L.reduceK h a .int init f := by
  simp only [reduceIntsGen, L.reduceK, reduceIntsLoopGen_eq]
theorem reduceFloatsGen_eq {α} (h : Heap) (a : Nat) (init : α) (f : α → Val → α) :
    reduceFloatsGen h a init f = L.reduceK h a .float init f := by
  simp only [reduceFloatsGen, L.reduceK, reduceFloatsLoopGen_eq]

/-! ### Map* -/

/-- the cell appended by `NewList()` is empty, so the receiver's elements read behind the
allocation are those read before it -/
theorem items_append_empty_list (h : Heap) (a : Nat) : (h ++ [Cell.list [] 0]).items a = h.items a := by
  simp only [Heap.items]
  by_cases hlt : a < h.length
  · rw [List.getElem?_append_left hlt]
  · have hge : h.length ≤ a := Nat.le_of_not_lt hlt
    rw [List.getElem?_append_right hge, List.getElem?_eq_none hge]
    cases hz : a - h.length with
    | zero => simp
    | succ n => simp

theorem mapLoopGen_eq (res : Nat) (f : Int → Val → GoVal) : ∀ xs h i,
    mapLoopGen res f h xs i = L.mapLoop res f h xs i := by
  intro xs
  induction xs with
  | nil => intro h i; simp only [mapLoopGen, L.mapLoop]
  | cons x xs ih => intro h i; simp only [mapLoopGen, L.mapLoop, ih, addGen_eq, L.add] <;> gen_case

theorem mapGen_eq (h : Heap) (a : Nat) (f : Int → Val → GoVal) : mapGen h a f = L.map h a f := by
  simp only [mapGen, L.map, newListGen_eq, L.new, addEach, mapLoopGen_eq, items_append_empty_list] <;> gen_case


theorem mapValuesLoopGen_eq (res : Nat) (f : Val → GoVal) : ∀ xs h i,
    mapValuesLoopGen res f h xs = L.mapLoop res (fun _ v => f v) h xs i := by
  intro xs
  induction xs with
  | nil => intro h i; simp only [mapValuesLoopGen, L.mapLoop]
  | cons x xs ih =>
    intro h i
    simp only [mapValuesLoopGen, L.mapLoop, addGen_eq, L.add, fun h' => ih h' (i + 1)] <;> gen_case

theorem mapValuesGen_eq (h : Heap) (a : Nat) (f : Val → GoVal) : mapValuesGen h a f = L.mapValues h a f := by
  simp only [mapValuesGen, L.mapValues, L.map, newListGen_eq, L.new, addEach,
    fun res h' xs => mapValuesLoopGen_eq res f xs h' 0, items_append_empty_list] <;> gen_case

local macro "mapk_loop" d:ident : tactic =>
  `(tactic| (intro xs; induction xs with
    | nil => intro h; simp only [$d:ident, L.mapKLoop]
    | cons x xs ih =>
      intro h
      simp only [$d:ident, L.mapKLoop, L.sel, L.viaGetValL, ih, addGen_eq, L.add, genGetVal_kind] <;> gen_case))

theorem mapObjectsLoopGen_eq (res : Nat) (f : Val → GoVal) : ∀ xs h,
    mapObjectsLoopGen res f h xs = L.mapKLoop res .object f h xs := by mapk_loop mapObjectsLoopGen
theorem mapObjectsGen_eq (h : Heap) (a : Nat) (f : Val → GoVal) : mapObjectsGen h a f = L.mapK h a .object f := by
  simp only [mapObjectsGen, L.mapK, newListGen_eq, L.new, addEach, mapObjectsLoopGen_eq, items_append_empty_list] <;> gen_case

theorem mapListsLoopGen_eq (res : Nat) (f : Val → GoVal) : ∀ xs h,
    mapListsLoopGen res f h xs = L.mapKLoop res .list f h xs := by mapk_loop mapListsLoopGen
theorem mapListsGen_eq (h : Heap) (a : Nat) (f : Val → GoVal) : mapListsGen h a f = L.mapK h a .list f := by
  simp only [mapListsGen, L.mapK, newListGen_eq, L.new, addEach, mapListsLoopGen_eq, items_append_empty_list] <;> gen_case

theorem mapStringsLoopGen_eq (res : Nat) (f : Val → GoVal) : ∀ xs h,
    mapStringsLoopGen res f h xs = L.mapKLoop res .string f h xs := by mapk_loop mapStringsLoopGen
theorem mapStringsGen_eq (h : Heap) (a : Nat) (f : Val → GoVal) : mapStringsGen h a f = L.mapK h a .string f := by
  simp only [mapStringsGen, L.mapK, newListGen_eq, L.new, addEach, mapStringsLoopGen_eq, items_append_empty_list] <;> gen_case

theorem mapBoolsLoopGen_eq (res : Nat) (f : Val → GoVal) : ∀ xs h,
    mapBoolsLoopGen res f h xs = L.mapKLoop res .bool f h xs := by mapk_loop mapBoolsLoopGen
theorem mapBoolsGen_eq (h : Heap) (a : Nat) (f : Val → GoVal) : mapBoolsGen h a f = L.mapK h a .bool f := by
  simp only [mapBoolsGen, L.mapK, newListGen_eq, L.new, addEach, mapBoolsLoopGen_eq, items_append_empty_list] <;> gen_case

theorem mapIntsLoopGen_eq (res : Nat) (f : Val → GoVal) : ∀ xs h,
    mapIntsLoopGen res f h xs = L.mapKLoop res .int f h xs := by mapk_loop mapIntsLoopGen
theorem mapIntsGen_eq (h : Heap) (a : Nat) (f : Val → GoVal) : mapIntsGen h a f = L.mapK h a .int f := by
  simp only [mapIntsGen, L.mapK, newListGen_eq, L.new, addEach, mapIntsLoopGen_eq, items_append_empty_list] <;> gen_case

theorem mapFloatsLoopGen_eq (res : Nat) (f : Val → GoVal) : ∀ xs h,
    mapFloatsLoopGen res f h xs = L.mapKLoop res .float f h xs := by mapk_loop mapFloatsLoopGen
theorem mapFloatsGen_eq (h : Heap) (a : Nat) (f : Val → GoVal) : mapFloatsGen h a f = L.mapK h a .float f := by
  simp only [mapFloatsGen, L.mapK, newListGen_eq, L.new, addEach, mapFloatsLoopGen_eq, items_append_empty_list] <;> gen_case


/-! ### numeric aggregates (against `Agg.*` over `numsOf`) -/

local macro "agg_loop" d:ident m:ident : tactic =>
  `(tactic| (intro xs; induction xs with
    | nil => intro r; simp only [$d:ident, $m:ident, List.map_nil]
    | cons x xs ih =>
      intro r
      cases x <;> simp [$d:ident, $m:ident, Val.toNum, Heap.getVal, Val.kind, intOf, floatOf, ih, Int.add_comm, Int.mul_comm]))

theorem intSumLoopGen_eq (h : Heap) : ∀ xs r, intSumLoopGen h xs r = Agg.intSumLoop (xs.map Val.toNum) r := by
  agg_loop intSumLoopGen Agg.intSumLoop
theorem intProdLoopGen_eq (h : Heap) : ∀ xs r, intProdLoopGen h xs r = Agg.intProdLoop (xs.map Val.toNum) r := by
  agg_loop intProdLoopGen Agg.intProdLoop
theorem sumLoopGen_eq (h : Heap) : ∀ xs r, sumLoopGen h xs r = Agg.sumLoop (xs.map Val.toNum) r := by
  agg_loop sumLoopGen Agg.sumLoop
theorem prodLoopGen_eq (h : Heap) : ∀ xs r, prodLoopGen h xs r = Agg.prodLoop (xs.map Val.toNum) r := by
  agg_loop prodLoopGen Agg.prodLoop

theorem intSumGen_eq (h : Heap) (a : Nat) : intSumGen h a = Agg.intSum (numsOf h a) := by
  simp only [intSumGen, Agg.intSum, numsOf, intSumLoopGen_eq]
theorem intProdGen_eq (h : Heap) (a : Nat) : intProdGen h a = Agg.intProd (numsOf h a) := by
  simp only [intProdGen, Agg.intProd, numsOf, intProdLoopGen_eq]
theorem sumGen_eq (h : Heap) (a : Nat) : sumGen h a = Agg.sum (numsOf h a) := by
  simp only [sumGen, Agg.sum, numsOf, sumLoopGen_eq]
theorem prodGen_eq (h : Heap) (a : Nat) : prodGen h a = Agg.prod (numsOf h a) := by
  simp only [prodGen, Agg.prod, numsOf, prodLoopGen_eq]
theorem avgGen_eq (h : Heap) (a : Nat) : avgGen h a = Agg.avg (numsOf h a) := by
  simp only [avgGen, Agg.avg, sumGen_eq, countGen_eq, L.count, numsOf, List.length_map]


end Anytype

#print axioms Anytype.countGen_eq
#print axioms Anytype.emptyGen_eq
#print axioms Anytype.getGen_eq
#print axioms Anytype.getObjectGen_eq
#print axioms Anytype.getListGen_eq
#print axioms Anytype.getStringGen_eq
#print axioms Anytype.getBoolGen_eq
#print axioms Anytype.getIntGen_eq
#print axioms Anytype.getFloatGen_eq
#print axioms Anytype.typeOfGen_eq
#print axioms Anytype.addGen_eq
#print axioms Anytype.insertGen_eq
#print axioms Anytype.replaceGen_eq
#print axioms Anytype.deleteGen_eq
#print axioms Anytype.popGen_eq
#print axioms Anytype.clearGen_eq
#print axioms Anytype.sliceGen_eq
#print axioms Anytype.objectSliceGen_eq
#print axioms Anytype.listSliceGen_eq
#print axioms Anytype.stringSliceGen_eq
#print axioms Anytype.boolSliceGen_eq
#print axioms Anytype.intSliceGen_eq
#print axioms Anytype.floatSliceGen_eq
#print axioms Anytype.containsGen_eq
#print axioms Anytype.indexOfGen_eq
#print axioms Anytype.allObjectsGen_eq
#print axioms Anytype.allListsGen_eq
#print axioms Anytype.allStringsGen_eq
#print axioms Anytype.allBoolsGen_eq
#print axioms Anytype.allIntsGen_eq
#print axioms Anytype.allFloatsGen_eq
#print axioms Anytype.allNumericGen_eq
#print axioms Anytype.concatGen_eq
#print axioms Anytype.subListGen_eq
#print axioms Anytype.newListGen_eq
#print axioms Anytype.reverseGen_eq
#print axioms Anytype.newListOfGen_eq
#print axioms Anytype.sortGen_eq
#print axioms Anytype.forEachGen_eq
#print axioms Anytype.forEachValueGen_eq
#print axioms Anytype.forEachObjectGen_eq
#print axioms Anytype.forEachListGen_eq
#print axioms Anytype.forEachStringGen_eq
#print axioms Anytype.forEachBoolGen_eq
#print axioms Anytype.forEachIntGen_eq
#print axioms Anytype.forEachFloatGen_eq
#print axioms Anytype.reduceGen_eq
#print axioms Anytype.reduceStringsGen_eq
#print axioms Anytype.reduceIntsGen_eq
#print axioms Anytype.reduceFloatsGen_eq
#print axioms Anytype.mapGen_eq
#print axioms Anytype.mapValuesGen_eq
#print axioms Anytype.mapObjectsGen_eq
#print axioms Anytype.mapListsGen_eq
#print axioms Anytype.mapStringsGen_eq
#print axioms Anytype.mapBoolsGen_eq
#print axioms Anytype.mapIntsGen_eq
#print axioms Anytype.mapFloatsGen_eq
#print axioms Anytype.intSumGen_eq
#print axioms Anytype.intProdGen_eq
#print axioms Anytype.sumGen_eq
#print axioms Anytype.prodGen_eq
#print axioms Anytype.avgGen_eq
