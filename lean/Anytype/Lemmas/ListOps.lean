/-
Lemmas about the List methods of the model (`L.*`): the code-shaped definitions equal simple
specifications built from core list functions.
-/
import Anytype.Lemmas.Heap
import Anytype.Lemmas.FloatOrder
namespace Anytype
open Heap

/-! ### scalar arguments -/

/-- the Go values `parseVal` stores without allocating: scalars and existing containers -/
def GoVal.isScalar : GoVal → Bool
  | .nil | .bool _ | .intw _ _ | .f64 _ | .f32 _ | .str _ | .list _ | .obj _ => true
  | .slice _ _ | .map _ _ | .unsupported => false

/-- what a scalar Go value is normalised to -/
def scalarVal : GoVal → Val
  | .nil => .nil
  | .bool b => .bool b
  | .intw _ v => .int (wrap64 v)
  | .f64 f => .float f
  | .f32 b => .float (f32to64 b)
  | .str s => .str s
  | .list r => .list r
  | .obj r => .obj r
  | .slice _ _ | .map _ _ | .unsupported => .nil

theorem parseVal_scalar (h : Heap) {g : GoVal} (hs : g.isScalar = true) :
    parseVal h g = (h, .ok (scalarVal g)) := by
  cases g <;> simp_all [GoVal.isScalar, parseVal, scalarVal]

theorem addEach_scalars (h : Heap) (a : Nat) (gs : List GoVal) (hs : ∀ g ∈ gs, g.isScalar = true) :
    addEach h a gs = (h.setItems a (h.items a ++ gs.map scalarVal), .ok ()) := by
  induction gs generalizing h with
  | nil => simp [addEach]
  | cons g gs ih =>
    have hg := hs g (by simp)
    rw [addEach, parseVal_scalar h hg]
    simp only
    rw [ih _ (fun g' hg' => hs g' (by simp [hg']))]
    cases hl : h.isList a
    · simp [setItems_of_not_isList _ hl, items_of_not_isList hl]
    · simp [items_setItems_same _ hl]

/-! ### pure list facts -/

theorem shift_set_eq_insertIdx (xs : List Val) (i : Nat) (v : Val) (hi : i < xs.length) :
    (xs.take (i + 1) ++ xs.drop i).set i v = xs.insertIdx i v := by
  induction xs generalizing i with
  | nil => simp at hi
  | cons x xs ih =>
    cases i with
    | zero => simp
    | succ j =>
      have hj : j < xs.length := by simpa using hi
      simp [ih j hj]

/-- is the position of `p` (an element paired with its index) absent from `idx`? -/
def keepPos (idx : List Int) (p : Val × Nat) : Bool := !decide (((p.2 : Nat) : Int) ∈ idx)

/-- the elements whose position is not in `idx`, in order -/
def eraseAll (xs : List Val) (idx : List Int) : List Val :=
  ((xs.zipIdx).filter (keepPos idx)).map (·.1)

theorem keepPos_true {idx : List Int} {x : Val} {j : Nat} (hj : ((j : Nat) : Int) ∉ idx) :
    keepPos idx (x, j) = true := by simp [keepPos, hj]
theorem keepPos_false {idx : List Int} {x : Val} {j : Nat} (hj : ((j : Nat) : Int) ∈ idx) :
    keepPos idx (x, j) = false := by simp [keepPos, hj]

theorem eraseAll_congr (xs : List Val) {idx idx' : List Int} (hm : ∀ i, i ∈ idx ↔ i ∈ idx') :
    eraseAll xs idx = eraseAll xs idx' := by
  unfold eraseAll
  congr 1
  apply List.filter_congr
  intro p _
  simp [keepPos, hm]

/-- shifted variant used for the induction -/
def eraseAllFrom (k : Nat) (xs : List Val) (idx : List Int) : List Val :=
  ((xs.zipIdx k).filter (keepPos idx)).map (·.1)

theorem eraseAllFrom_cons (k : Nat) (x : Val) (xs : List Val) (idx : List Int) :
    eraseAllFrom k (x :: xs) idx =
      if ((k : Nat) : Int) ∈ idx then eraseAllFrom (k + 1) xs idx else x :: eraseAllFrom (k + 1) xs idx := by
  unfold eraseAllFrom
  rw [List.zipIdx_cons, List.filter_cons]
  by_cases hm : ((k : Nat) : Int) ∈ idx
  · rw [keepPos_false hm]; simp [hm]
  · rw [keepPos_true hm]; simp [hm]

theorem eraseAllFrom_none (k : Nat) (xs : List Val) (idx : List Int)
    (hn : ∀ j, k ≤ j → ((j : Nat) : Int) ∉ idx) : eraseAllFrom k xs idx = xs := by
  induction xs generalizing k with
  | nil => simp [eraseAllFrom]
  | cons x xs ih =>
    rw [eraseAllFrom_cons, if_neg (hn k (Nat.le_refl _)), ih (k + 1) (fun j hj => hn j (by omega))]

theorem eraseAll_nil (xs : List Val) : eraseAll xs [] = xs :=
  eraseAllFrom_none 0 xs [] (by simp)

/-- erasing position `d`, then the positions `ds` (all below `d`) = erasing `d :: ds` -/
theorem eraseAllFrom_eraseIdx (k : Nat) (xs : List Val) (d : Nat) (ds : List Int)
    (hlt : ∀ x ∈ ds, x < ((k + d : Nat) : Int)) (hd : d < xs.length) :
    eraseAllFrom k (xs.eraseIdx d) ds = eraseAllFrom k xs (((k + d : Nat) : Int) :: ds) := by
  induction xs generalizing k d with
  | nil => simp at hd
  | cons x xs ih =>
    cases d with
    | zero =>
      have h1 : eraseAllFrom k xs ds = xs :=
        eraseAllFrom_none k xs ds (fun j hj hm => by have := hlt _ hm; omega)
      have h2 : eraseAllFrom (k + 1) xs (((k : Nat) : Int) :: ds) = xs :=
        eraseAllFrom_none (k + 1) xs _ (fun j hj hm => by
          rcases List.mem_cons.1 hm with e | hm
          · omega
          · have := hlt _ hm; omega)
      rw [List.eraseIdx_cons_zero, h1, eraseAllFrom_cons, Nat.add_zero, if_pos (by simp), h2]
    | succ d' =>
      have hd' : d' < xs.length := by simpa using hd
      have := ih (k + 1) d' (fun x hx => by have := hlt x hx; omega) hd'
      have e : k + 1 + d' = k + (d' + 1) := by omega
      rw [e] at this
      rw [List.eraseIdx_cons_succ, eraseAllFrom_cons, eraseAllFrom_cons, this]
      have hk : ((k : Nat) : Int) ≠ ((k + (d' + 1) : Nat) : Int) := by omega
      by_cases hm : ((k : Nat) : Int) ∈ ds
      · rw [if_pos hm, if_pos (List.mem_cons_of_mem _ hm)]
      · rw [if_neg hm, if_neg (by
          intro hc
          rcases List.mem_cons.1 hc with e' | hc
          · exact hk e'
          · exact hm hc)]

theorem eraseAll_eraseIdx (xs : List Val) (d : Nat) (ds : List Int)
    (hlt : ∀ x ∈ ds, x < (d : Int)) (hd : d < xs.length) :
    eraseAll (xs.eraseIdx d) ds = eraseAll xs ((d : Int) :: ds) := by
  have := eraseAllFrom_eraseIdx 0 xs d ds (by simpa using hlt) hd
  simpa [eraseAllFrom, eraseAll] using this

namespace L

/-! ### spec equalities for the mutators -/

theorem add_scalars (h : Heap) (a : Nat) (gs : List GoVal) (hs : ∀ g ∈ gs, g.isScalar = true) :
    add h a gs = (h.setItems a (h.items a ++ gs.map scalarVal), .ok (h.egoRef a)) := by
  simp [add, addEach_scalars h a gs hs]

theorem insert_scalar (h : Heap) (a : Nat) (i : Int) (g : GoVal) (hs : g.isScalar = true)
    (h0 : 0 ≤ i) (hn : i ≤ (h.items a).length) :
    insert h a i g = (h.setItems a ((h.items a).insertIdx i.toNat (scalarVal g)), .ok (h.egoRef a)) := by
  unfold insert count
  have c1 : ¬ (i < 0 ∨ i > ((h.items a).length : Int)) := by omega
  simp only [Bool.or_eq_true, decide_eq_true_eq, c1, if_false]
  by_cases he : i = (h.items a).length
  · subst he
    simp [add_scalars h a [g] (by simpa using hs), List.insertIdx_length_self]
  · have hlt : i.toNat < (h.items a).length := by omega
    simp only [beq_iff_eq, he, if_false, parseVal_scalar h hs]
    rw [shift_set_eq_insertIdx _ _ _ hlt]

theorem replace_scalar (h : Heap) (a : Nat) (i : Int) (g : GoVal) (hs : g.isScalar = true)
    (h0 : 0 ≤ i) (hn : i < (h.items a).length) :
    replace h a i g = (h.setItems a ((h.items a).set i.toNat (scalarVal g)), .ok (h.egoRef a)) := by
  unfold replace count
  have c1 : ¬ (i < 0 ∨ i ≥ ((h.items a).length : Int)) := by omega
  simp only [Bool.or_eq_true, decide_eq_true_eq, c1, if_false, parseVal_scalar h hs]

/-- the delete loop on a strictly descending list of valid indexes -/
theorem deleteLoop_desc (h : Heap) (a : Nat) (ds : List Int)
    (hdesc : ds.Pairwise (fun x y => y < x)) (h0 : ∀ d ∈ ds, 0 ≤ d)
    (hn : ∀ d ∈ ds, d < (h.items a).length) :
    deleteLoop h a ds = (h.setItems a (eraseAll (h.items a) ds), .ok ()) := by
  induction ds generalizing h with
  | nil => simp [deleteLoop, eraseAll_nil]
  | cons d ds ih =>
    have hd0 := h0 d (by simp)
    have hdn := hn d (by simp)
    have hl : h.isList a = true := by
      cases hl : h.isList a
      · rw [items_of_not_isList hl] at hdn; simp at hdn; omega
      · rfl
    rw [List.pairwise_cons] at hdesc
    unfold deleteLoop count
    have c1 : ¬ (d < 0 ∨ d ≥ ((h.items a).length : Int)) := by omega
    simp only [Bool.or_eq_true, decide_eq_true_eq, c1, if_false]
    rw [← List.eraseIdx_eq_take_drop_succ]
    have hdlt : d.toNat < (h.items a).length := by omega
    rw [ih _ hdesc.2 (fun x hx => h0 x (by simp [hx]))
      (fun x hx => by
        rw [items_setItems_same _ hl, List.length_eraseIdx_of_lt hdlt]
        have := hdesc.1 x hx; omega)]
    rw [items_setItems_same _ hl, setItems_setItems]
    rw [eraseAll_eraseIdx _ _ _ (fun x hx => by have := hdesc.1 x hx; omega) hdlt]
    have : ((d.toNat : Nat) : Int) = d := by omega
    rw [this]

theorem sorted_rev_desc (idx : List Int) (hnd : idx.Nodup) :
    ((idx.mergeSort (fun x y => decide (x ≤ y))).reverse).Pairwise (fun x y => y < x) := by
  rw [List.pairwise_reverse]
  have hs : (idx.mergeSort (fun x y => decide (x ≤ y))).Pairwise (fun x y => decide (x ≤ y) = true) :=
    List.pairwise_mergeSort (le := fun x y => decide (x ≤ y))
      (fun a b c hab hbc => by simp at hab hbc ⊢; omega)
      (fun a b => by simp; omega) idx
  have hnd' : (idx.mergeSort (fun x y => decide (x ≤ y))).Nodup :=
    ((List.mergeSort_perm idx _).nodup_iff).2 hnd
  exact (hs.and hnd').imp (fun ⟨h1, h2⟩ => by simp at h1; omega)

theorem delete_nodup (h : Heap) (a : Nat) (idx : List Int) (hnd : idx.Nodup)
    (h0 : ∀ d ∈ idx, 0 ≤ d) (hn : ∀ d ∈ idx, d < (h.items a).length) :
    delete h a idx = (h.setItems a (eraseAll (h.items a) idx), .ok (h.egoRef a)) := by
  unfold delete
  simp only
  rw [deleteLoop_desc h a _ (sorted_rev_desc idx hnd)
    (fun d hd => h0 d (by simpa using hd)) (fun d hd => hn d (by simpa using hd))]
  simp only [egoRef_setItems]
  rw [eraseAll_congr _ (idx' := idx) (fun i => by simp)]

theorem eraseAll_single (xs : List Val) (i : Nat) (hi : i < xs.length) :
    eraseAll xs [(i : Int)] = xs.eraseIdx i := by
  rw [← eraseAll_eraseIdx xs i [] (by simp) hi, eraseAll_nil]

theorem delete_single (h : Heap) (a : Nat) (i : Int) (h0 : 0 ≤ i) (hn : i < (h.items a).length) :
    delete h a [i] = (h.setItems a ((h.items a).eraseIdx i.toNat), .ok (h.egoRef a)) := by
  rw [delete_nodup h a [i] (by simp) (by simpa using h0) (by simpa using hn)]
  have : i = ((i.toNat : Nat) : Int) := by omega
  rw [this, eraseAll_single _ _ (by omega), ← this]

theorem pop_nonempty (h : Heap) (a : Nat) (hn : 0 < (h.items a).length) :
    pop h a = (h.setItems a (h.items a).dropLast, .ok (h.egoRef a)) := by
  unfold pop count
  rw [delete_single h a _ (by omega) (by omega)]
  have : (((h.items a).length : Int) - 1).toNat = (h.items a).length - 1 := by omega
  rw [this, List.eraseIdx_length_sub_one]


/-! ### Reverse: the swap loop -/

theorem reverseLoop_spec (n : Nat) : ∀ (k : Nat) (ys : List Val), ys.length = n → 2 * k ≤ n →
    (reverseLoop ys n k).length = n ∧
    ∀ j, j < n → (reverseLoop ys n k)[j]? = if j < k ∨ n - k ≤ j then ys[n - 1 - j]? else ys[j]? := by
  intro k
  induction k with
  | zero =>
    intro ys hl _
    refine ⟨by simpa [reverseLoop] using hl, fun j hj => ?_⟩
    have : ¬ (j < 0 ∨ n - 0 ≤ j) := by omega
    rw [if_neg this]; simp only [reverseLoop]
  | succ k ih =>
    intro ys hl hk
    have hk1 : k < ys.length := by omega
    have hk2 : n - 1 - k < ys.length := by omega
    unfold reverseLoop
    simp only [List.getElem?_eq_getElem hk1, List.getElem?_eq_getElem hk2]
    obtain ⟨l1, l2⟩ := ih ((ys.set k ys[n - 1 - k]).set (n - 1 - k) ys[k]) (by simpa using hl) (by omega)
    refine ⟨l1, fun j hj => ?_⟩
    rw [l2 j hj]
    simp only [List.getElem?_set, List.length_set]
    by_cases h1 : j < k
    · have a1 : j < k ∨ n - k ≤ j := Or.inl h1
      have a2 : j < k + 1 ∨ n - (k + 1) ≤ j := Or.inl (by omega)
      have a3 : ¬ (n - 1 - k = n - 1 - j) := by omega
      have a4 : ¬ (k = n - 1 - j) := by omega
      simp only [a1, a2, a3, a4, if_true, if_false]
    · by_cases h2 : n - k ≤ j
      · have a1 : j < k ∨ n - k ≤ j := Or.inr h2
        have a2 : j < k + 1 ∨ n - (k + 1) ≤ j := Or.inr (by omega)
        have a3 : ¬ (n - 1 - k = n - 1 - j) := by omega
        have a4 : ¬ (k = n - 1 - j) := by omega
        simp only [a1, a2, a3, a4, if_true, if_false]
      · have a1 : ¬ (j < k ∨ n - k ≤ j) := by omega
        simp only [a1, if_false]
        by_cases h3 : j = k
        · subst h3
          have a2 : j < j + 1 ∨ n - (j + 1) ≤ j := Or.inl (by omega)
          have a3 : ¬ (n - 1 - j = j) := by omega
          rw [if_pos a2, if_neg a3, if_pos rfl, if_pos hk1, List.getElem?_eq_getElem hk2]
        · by_cases h4 : j = n - 1 - k
          · subst h4
            have a2 : n - 1 - k < k + 1 ∨ n - (k + 1) ≤ n - 1 - k := Or.inr (by omega)
            have a5 : n - 1 - (n - 1 - k) = k := by omega
            rw [if_pos a2, if_pos rfl, if_pos hk2, a5, List.getElem?_eq_getElem hk1]
          · have a2 : ¬ (j < k + 1 ∨ n - (k + 1) ≤ j) := by omega
            have a3 : ¬ (n - 1 - k = j) := by omega
            have a4 : ¬ (k = j) := by omega
            simp only [a2, a3, a4, if_false]

theorem reverseLoop_eq_reverse (xs : List Val) :
    reverseLoop xs xs.length (xs.length / 2) = xs.reverse := by
  obtain ⟨l1, l2⟩ := reverseLoop_spec xs.length (xs.length / 2) xs rfl (by omega)
  apply List.ext_getElem?
  intro j
  by_cases hj : j < xs.length
  · rw [l2 j hj, List.getElem?_reverse hj]
    by_cases hc : j < xs.length / 2 ∨ xs.length - xs.length / 2 ≤ j
    · simp only [hc, if_true]
    · simp only [hc, if_false]
      have : xs.length - 1 - j = j := by omega
      rw [this]
  · rw [List.getElem?_eq_none (by omega), List.getElem?_eq_none (by simp; omega)]

theorem reverse_eq (h : Heap) (a : Nat) :
    reverse h a = (h.setItems a (h.items a).reverse, .ok (h.egoRef a)) := by
  simp only [reverse, reverseLoop_eq_reverse]

/-! ### out-of-domain arguments: the panic, with the heap untouched -/

theorem insert_out (h : Heap) (a : Nat) (i : Int) (g : GoVal)
    (ho : ¬ (0 ≤ i ∧ i ≤ (h.items a).length)) : insert h a i g = (h, .panic .indexRange) := by
  unfold insert count
  have c1 : (i < 0 ∨ i > ((h.items a).length : Int)) := by omega
  simp only [Bool.or_eq_true, decide_eq_true_eq, c1, if_true]

theorem replace_out (h : Heap) (a : Nat) (i : Int) (g : GoVal)
    (ho : ¬ (0 ≤ i ∧ i < (h.items a).length)) : replace h a i g = (h, .panic .indexRange) := by
  unfold replace count
  have c1 : (i < 0 ∨ i ≥ ((h.items a).length : Int)) := by omega
  simp only [Bool.or_eq_true, decide_eq_true_eq, c1, if_true]

theorem delete_single_out (h : Heap) (a : Nat) (i : Int)
    (ho : ¬ (0 ≤ i ∧ i < (h.items a).length)) : delete h a [i] = (h, .panic .indexRange) := by
  have hd : deleteLoop h a [i] = (h, .panic .indexRange) := by
    rw [deleteLoop, if_pos (by unfold count; simp only [Bool.or_eq_true, decide_eq_true_eq]; omega)]
  unfold delete
  simp only [List.mergeSort_singleton, List.reverse_singleton, hd]

theorem pop_empty (h : Heap) (a : Nat) (hn : (h.items a).length = 0) :
    pop h a = (h, .panic .indexRange) := by
  unfold pop count
  exact delete_single_out h a _ (by omega)

theorem get_out (h : Heap) (a : Nat) (i : Int)
    (ho : ¬ (0 ≤ i ∧ i < (h.items a).length)) : get h a i = .panic .indexRange := by
  unfold get count
  rw [if_pos (by simp only [Bool.or_eq_true, decide_eq_true_eq]; omega)]

theorem get_in (h : Heap) (a : Nat) (i : Int) (h0 : 0 ≤ i) (hn : i.toNat < (h.items a).length) :
    get h a i = .ok (h.getVal ((h.items a)[i.toNat])) := by
  unfold get count
  rw [if_neg (by simp only [Bool.or_eq_true, decide_eq_true_eq]; omega)]
  simp only [List.getElem?_eq_getElem hn]

/-! ### observers -/

theorem count_eq (h : Heap) (a : Nat) : count h a = ((h.items a).length : Int) := rfl

theorem empty_iff (h : Heap) (a : Nat) : empty h a = true ↔ h.items a = [] := by
  unfold empty count
  simp [List.length_eq_zero_iff]

theorem typeOf_in (h : Heap) (a : Nat) (i : Int) (h0 : 0 ≤ i) (hn : i.toNat < (h.items a).length) :
    typeOf h a i = ((h.items a)[i.toNat]).kind := by
  unfold typeOf count
  have c1 : (i ≥ 0 ∧ i < ((h.items a).length : Int)) := by omega
  simp only [Bool.and_eq_true, decide_eq_true_eq, c1, and_self, if_true, List.getElem?_eq_getElem hn]

theorem typeOf_out (h : Heap) (a : Nat) (i : Int) (ho : ¬ (0 ≤ i ∧ i < (h.items a).length)) :
    typeOf h a i = .undefined := by
  unfold typeOf count
  have c1 : ¬ (i ≥ 0 ∧ i < ((h.items a).length : Int)) := by omega
  simp only [Bool.and_eq_true, decide_eq_true_eq, c1, if_false]

theorem contains_iff (h : Heap) (a : Nat) (e : Val) :
    contains h a e = true ↔ ∃ x ∈ h.items a, goEq (h.getVal x) e = true := by
  unfold contains
  rw [List.any_eq_true]

theorem indexOfLoop_eq (h : Heap) (e : Val) (xs : List Val) (k : Int) :
    indexOfLoop h e xs k =
      match xs.findIdx? (fun x => goEq (h.getVal x) e) with
      | some j => k + (j : Int)
      | none => -1 := by
  induction xs generalizing k with
  | nil => simp [indexOfLoop]
  | cons x xs ih =>
    rw [indexOfLoop, List.findIdx?_cons]
    by_cases hx : goEq (h.getVal x) e = true
    · simp [hx]
    · simp only [hx, if_false, Bool.false_eq_true]
      rw [ih (k + 1)]
      cases List.findIdx? (fun x => goEq (h.getVal x) e) xs with
      | none => rfl
      | some j =>
        simp only [Option.map_some]
        show k + 1 + (j : Int) = k + ((j + 1 : Nat) : Int)
        omega

theorem indexOf_eq (h : Heap) (a : Nat) (e : Val) :
    indexOf h a e =
      match (h.items a).findIdx? (fun x => goEq (h.getVal x) e) with
      | some j => (j : Int)
      | none => -1 := by
  unfold indexOf
  rw [indexOfLoop_eq]
  cases List.findIdx? (fun x => goEq (h.getVal x) e) (h.items a) <;> simp

/-! ### Sort -/

theorem strLt_irrefl (s : Str) : strLt s s = false := by
  induction s with
  | nil => rfl
  | cons c s ih => simp [strLt, ih]

theorem strLt_asymm : ∀ (s t : Str), strLt s t = true → strLt t s = false
  | [], [], h => by simp [strLt] at h
  | [], _ :: _, _ => by simp [strLt]
  | _ :: _, [], h => by simp [strLt] at h
  | c :: s, d :: t, h => by
    unfold strLt at h ⊢
    by_cases h1 : c.toNat < d.toNat
    · have h2 : ¬ d.toNat < c.toNat := by omega
      simp [h1, h2]
    · by_cases h2 : d.toNat < c.toNat
      · simp [h1, h2] at h
      · simp only [h1, h2, if_false] at h ⊢
        exact strLt_asymm s t h

/-- negative transitivity of `strLt` -/
theorem strLt_negtrans : ∀ (c b a : Str), strLt c a = true → strLt c b = true ∨ strLt b a = true
  | [], [], [], h => by simp [strLt] at h
  | [], [], _ :: _, _ => by simp [strLt]
  | [], _ :: _, _, _ => by simp [strLt]
  | _ :: _, _, [], h => by simp [strLt] at h
  | _ :: _, [], _ :: _, _ => by simp [strLt]
  | x :: c, y :: b, z :: a, h => by
    unfold strLt at h ⊢
    by_cases h1 : x.toNat < z.toNat
    · by_cases h2 : x.toNat < y.toNat
      · simp [h2]
      · have h3 : y.toNat < z.toNat := by omega
        simp [h3]
    · by_cases h2 : z.toNat < x.toNat
      · simp [h1, h2] at h
      · simp only [h1, h2, if_false] at h
        have hxz : x.toNat = z.toNat := by omega
        by_cases h3 : x.toNat < y.toNat
        · simp [h3]
        · by_cases h4 : y.toNat < x.toNat
          · have h5 : y.toNat < z.toNat := by omega
            simp [h5]
          · have h5 : ¬ y.toNat < z.toNat := by omega
            have h6 : ¬ z.toNat < y.toNat := by omega
            simp only [h3, h4, h5, h6, if_false]
            exact strLt_negtrans c b a h

theorem strLe_refl (s : Str) : strLe s s = true := by simp [strLe, strLt_irrefl]

theorem strLe_trans (a b c : Str) : strLe a b = true → strLe b c = true → strLe a c = true := by
  unfold strLe
  intro h1 h2
  cases h : strLt c a
  · rfl
  · rcases strLt_negtrans c b a h with h' | h' <;> simp [h'] at h1 h2

theorem strLe_total (a b : Str) : (strLe a b || strLe b a) = true := by
  unfold strLe
  cases h : strLt b a
  · simp
  · simp [strLt_asymm b a h]

theorem strLe_antisymm : ∀ (a b : Str), strLe a b = true → strLe b a = true → a = b
  | [], [], _, _ => rfl
  | [], _ :: _, _, h => by simp [strLe, strLt] at h
  | _ :: _, [], h, _ => by simp [strLe, strLt] at h
  | x :: a, y :: b, h1, h2 => by
    unfold strLe strLt at h1 h2
    by_cases c1 : x.toNat < y.toNat
    · simp [c1] at h2
    · by_cases c2 : y.toNat < x.toNat
      · simp [c2] at h1
      · simp only [c1, c2, if_false] at h1 h2
        have hxy : x = y := by
          apply Char.ext; apply UInt32.toNat_inj.1
          have : x.toNat = y.toNat := by omega
          exact this
        have := strLe_antisymm a b (by simpa [strLe] using h1) (by simpa [strLe] using h2)
        rw [hxy, this]

theorem intLe_trans (a b c : Int) :
    decide (a ≤ b) = true → decide (b ≤ c) = true → decide (a ≤ c) = true := by
  simp only [decide_eq_true_eq]; omega
theorem intLe_total (a b : Int) : (decide (a ≤ b) || decide (b ≤ a)) = true := by
  simp only [Bool.or_eq_true, decide_eq_true_eq]; omega

theorem filterMap_asInt_map (is : List Int) : (is.map Val.int).filterMap asInt = is := by
  induction is with
  | nil => rfl
  | cons i is ih => simp [asInt, ih]
theorem filterMap_asStr_map (ss : List Str) : (ss.map Val.str).filterMap asStr = ss := by
  induction ss with
  | nil => rfl
  | cons i is ih => simp [asStr, ih]
theorem filterMap_asFloat_map (fs : List F64) : (fs.map Val.float).filterMap asFloat = fs := by
  induction fs with
  | nil => rfl
  | cons i is ih => simp [asFloat, ih]

/-- on a homogeneous list the typed extraction loses nothing -/
theorem map_filterMap_asInt (xs : List Val) (hall : ∀ x ∈ xs, ∃ i, x = .int i) :
    (xs.filterMap asInt).map .int = xs := by
  induction xs with
  | nil => rfl
  | cons x xs ih =>
    obtain ⟨i, rfl⟩ := hall x (by simp)
    simp [asInt, ih (fun y hy => hall y (by simp [hy]))]
theorem map_filterMap_asStr (xs : List Val) (hall : ∀ x ∈ xs, ∃ i, x = .str i) :
    (xs.filterMap asStr).map .str = xs := by
  induction xs with
  | nil => rfl
  | cons x xs ih =>
    obtain ⟨i, rfl⟩ := hall x (by simp)
    simp [asStr, ih (fun y hy => hall y (by simp [hy]))]
theorem map_filterMap_asFloat (xs : List Val) (hall : ∀ x ∈ xs, ∃ i, x = .float i) :
    (xs.filterMap asFloat).map .float = xs := by
  induction xs with
  | nil => rfl
  | cons x xs ih =>
    obtain ⟨i, rfl⟩ := hall x (by simp)
    simp [asFloat, ih (fun y hy => hall y (by simp [hy]))]

theorem sort_ints (h : Heap) (a : Nat) (is : List Int) (hne : is ≠ []) (hx : h.items a = is.map .int) :
    sort h a = (h.setItems a ((is.mergeSort (fun x y => decide (x ≤ y))).map .int), .ok (h.egoRef a)) := by
  cases is with
  | nil => exact absurd rfl hne
  | cons i is =>
    have := filterMap_asInt_map (i :: is)
    unfold sort
    simp only [hx, List.map_cons] at this ⊢
    rw [this]

theorem sort_strs (h : Heap) (a : Nat) (ss : List Str) (hne : ss ≠ []) (hx : h.items a = ss.map .str) :
    sort h a = (h.setItems a ((ss.mergeSort strLe).map .str), .ok (h.egoRef a)) := by
  cases ss with
  | nil => exact absurd rfl hne
  | cons i is =>
    have := filterMap_asStr_map (i :: is)
    unfold sort
    simp only [hx, List.map_cons] at this ⊢
    rw [this]

theorem sort_floats (h : Heap) (a : Nat) (fs : List F64) (hne : fs ≠ []) (hx : h.items a = fs.map .float) :
    sort h a = (h.setItems a ((fs.mergeSort floatLe).map .float), .ok (h.egoRef a)) := by
  cases fs with
  | nil => exact absurd rfl hne
  | cons i is =>
    have := filterMap_asFloat_map (i :: is)
    unfold sort
    simp only [hx, List.map_cons] at this ⊢
    rw [this]

theorem mergeSort_idem {α} (le : α → α → Bool)
    (trans : ∀ a b c, le a b = true → le b c = true → le a c = true)
    (total : ∀ a b, (le a b || le b a) = true) (l : List α) :
    (l.mergeSort le).mergeSort le = l.mergeSort le :=
  List.mergeSort_of_pairwise (List.pairwise_mergeSort trans total l)

theorem mergeSort_ne_nil {α} (le : α → α → Bool) {l : List α} (hne : l ≠ []) : l.mergeSort le ≠ [] := by
  intro hc
  have := List.length_mergeSort (le := le) l
  rw [hc] at this
  exact hne (List.length_eq_zero_iff.1 this.symm)

theorem sort_panic_kind (h : Heap) (a : Nat) (x : Val) (rest : List Val) (hx : h.items a = x :: rest)
    (hk : x.kind ≠ .string ∧ x.kind ≠ .int ∧ x.kind ≠ .float) : sort h a = (h, .panic .sortKind) := by
  unfold sort
  simp only [hx]
  cases x <;> simp_all [Val.kind]

theorem sort_empty (h : Heap) (a : Nat) (hx : h.items a = []) : sort h a = (h, .panic .runtime) := by
  unfold sort
  simp only [hx]


/-! ### arbitrary arguments: what `Insert` / `Replace` do once the value is converted -/

theorem addEach_single (h : Heap) (a : Nat) (g : GoVal) :
    addEach h a [g] =
      match parseVal h g with
      | (h1, .panic k) => (h1, .panic k)
      | (h1, .ok v) => (h1.setItems a (h1.items a ++ [v]), .ok ()) := by
  rw [addEach]
  split <;> simp_all [addEach]

/-- the receiver is an old list cell, so converting the argument does not change its items -/
theorem items_after_parse {h : Heap} {a : Nat} (g : GoVal) (hl : h.isList a = true) :
    (parseVal h g).1.items a = h.items a :=
  (parseVal_ext0 h g).items (isList_lt hl)

theorem insert_panic_of_parse (h : Heap) (a : Nat) (i : Int) (g : GoVal) {h1 : Heap} {k : PanicKind}
    (hp : parseVal h g = (h1, .panic k)) (h0 : 0 ≤ i) (hn : i ≤ (h.items a).length) :
    insert h a i g = (h1, .panic k) := by
  unfold insert count
  rw [if_neg (by simp only [Bool.or_eq_true, decide_eq_true_eq]; omega)]
  by_cases he : i = (h.items a).length
  · simp [he, add, addEach_single, hp]
  · simp only [beq_iff_eq, he, if_false, hp]

theorem insert_ok_of_parse (h : Heap) (a : Nat) (i : Int) (g : GoVal) {h1 : Heap} {v : Val}
    (hl : h.isList a = true)
    (hp : parseVal h g = (h1, .ok v)) (h0 : 0 ≤ i) (hn : i ≤ (h.items a).length) :
    insert h a i g = (h1.setItems a ((h.items a).insertIdx i.toNat v), .ok (h1.egoRef a)) := by
  have hi : h1.items a = h.items a := by have := items_after_parse g hl; rwa [hp] at this
  unfold insert count
  rw [if_neg (by simp only [Bool.or_eq_true, decide_eq_true_eq]; omega)]
  by_cases he : i = (h.items a).length
  · simp [he, add, addEach_single, hp, hi, List.insertIdx_length_self]
  · have hlt : i.toNat < (h.items a).length := by omega
    simp only [beq_iff_eq, he, if_false, hp, hi]
    rw [shift_set_eq_insertIdx _ _ _ hlt]

theorem replace_panic_of_parse (h : Heap) (a : Nat) (i : Int) (g : GoVal) {h1 : Heap} {k : PanicKind}
    (hp : parseVal h g = (h1, .panic k)) (h0 : 0 ≤ i) (hn : i < (h.items a).length) :
    replace h a i g = (h1, .panic k) := by
  unfold replace count
  rw [if_neg (by simp only [Bool.or_eq_true, decide_eq_true_eq]; omega)]
  simp only [hp]

theorem replace_ok_of_parse (h : Heap) (a : Nat) (i : Int) (g : GoVal) {h1 : Heap} {v : Val}
    (hl : h.isList a = true)
    (hp : parseVal h g = (h1, .ok v)) (h0 : 0 ≤ i) (hn : i < (h.items a).length) :
    replace h a i g = (h1.setItems a ((h.items a).set i.toNat v), .ok (h1.egoRef a)) := by
  have hi : h1.items a = h.items a := by have := items_after_parse g hl; rwa [hp] at this
  unfold replace count
  rw [if_neg (by simp only [Bool.or_eq_true, decide_eq_true_eq]; omega)]
  simp only [hp, hi]

/-! ### frames: which cells an operation can touch -/

theorem add_ext (h : Heap) (a : Nat) (gs : List GoVal) : Ext h (add h a gs).1 a := by
  have := addEach_ext h a gs
  unfold add
  split <;> simp_all

theorem insert_ext (h : Heap) (a : Nat) (i : Int) (g : GoVal) : Ext h (insert h a i g).1 a := by
  unfold insert
  split
  · exact Ext.refl h a
  · split
    · exact add_ext h a [g]
    · have := parseVal_ext0 h g
      split
      · next h1 k hp => rw [hp] at this; exact this.toExt a
      · next h1 v hp => rw [hp] at this; exact (this.toExt a).trans (Ext.setItems h1 a _)

theorem replace_ext (h : Heap) (a : Nat) (i : Int) (g : GoVal) : Ext h (replace h a i g).1 a := by
  unfold replace
  split
  · exact Ext.refl h a
  · have := parseVal_ext0 h g
    split
    · next h1 k hp => rw [hp] at this; exact this.toExt a
    · next h1 v hp => rw [hp] at this; exact (this.toExt a).trans (Ext.setItems h1 a _)

theorem deleteLoop_ext (h : Heap) (a : Nat) (ds : List Int) : Ext h (deleteLoop h a ds).1 a := by
  induction ds generalizing h with
  | nil => exact Ext.refl h a
  | cons d ds ih =>
    unfold deleteLoop
    split
    · exact Ext.refl h a
    · exact (Ext.setItems h a _).trans (ih _)

theorem delete_ext (h : Heap) (a : Nat) (idx : List Int) : Ext h (delete h a idx).1 a := by
  have := deleteLoop_ext h a (idx.mergeSort (fun x y => decide (x ≤ y))).reverse
  unfold delete
  simp only
  split <;> simp_all

theorem pop_ext (h : Heap) (a : Nat) : Ext h (pop h a).1 a := delete_ext h a _
theorem clear_ext (h : Heap) (a : Nat) : Ext h (clear h a).1 a := Ext.setItems h a _
theorem reverse_ext (h : Heap) (a : Nat) : Ext h (reverse h a).1 a := Ext.setItems h a _
theorem sort_ext (h : Heap) (a : Nat) : Ext h (sort h a).1 a := by
  unfold sort
  simp only
  split <;> first | exact Ext.refl h a | exact Ext.setItems h a _

/-- a panicking `Add`/`Insert`/`Replace`/`Delete(i)`/`Pop` leaves every old cell as it was -/
theorem insert_panic_ext0 (h : Heap) (a : Nat) (i : Int) (g : GoVal) {k : PanicKind}
    (hp : (insert h a i g).2 = .panic k) : Ext0 h (insert h a i g).1 := by
  by_cases hd : 0 ≤ i ∧ i ≤ (h.items a).length
  · have e0 := parseVal_ext0 h g
    rcases hr : parseVal h g with ⟨h1, (v | k')⟩
    · exfalso
      by_cases he : i = (h.items a).length
      · unfold insert count at hp
        rw [if_neg (by simp only [Bool.or_eq_true, decide_eq_true_eq]; omega)] at hp
        simp [he, add, addEach_single, hr] at hp
      · unfold insert count at hp
        rw [if_neg (by simp only [Bool.or_eq_true, decide_eq_true_eq]; omega)] at hp
        simp [he, hr] at hp
    · rw [insert_panic_of_parse h a i g hr hd.1 hd.2]
      rw [hr] at e0; exact e0
  · rw [insert_out h a i g hd]; exact Ext0.refl h

theorem replace_panic_ext0 (h : Heap) (a : Nat) (i : Int) (g : GoVal) {k : PanicKind}
    (hp : (replace h a i g).2 = .panic k) : Ext0 h (replace h a i g).1 := by
  by_cases hd : 0 ≤ i ∧ i < (h.items a).length
  · have e0 := parseVal_ext0 h g
    rcases hr : parseVal h g with ⟨h1, (v | k')⟩
    · exfalso
      unfold replace count at hp
      rw [if_neg (by simp only [Bool.or_eq_true, decide_eq_true_eq]; omega)] at hp
      simp [hr] at hp
    · rw [replace_panic_of_parse h a i g hr hd.1 hd.2]
      rw [hr] at e0; exact e0
  · rw [replace_out h a i g hd]; exact Ext0.refl h

theorem delete_single_panic (h : Heap) (a : Nat) (i : Int) {k : PanicKind}
    (hp : (delete h a [i]).2 = .panic k) : delete h a [i] = (h, .panic .indexRange) := by
  by_cases hd : 0 ≤ i ∧ i < (h.items a).length
  · rw [delete_single h a i hd.1 hd.2] at hp; cases hp
  · exact delete_single_out h a i hd

theorem pop_panic (h : Heap) (a : Nat) {k : PanicKind}
    (hp : (pop h a).2 = .panic k) : pop h a = (h, .panic .indexRange) :=
  delete_single_panic h a _ hp

/-! ### the deriving operations -/

theorem subList_cases (h : Heap) (a : Nat) (s e : Int) :
    let n : Int := (h.items a).length
    let e' : Int := if e ≤ 0 then n + e else e
    subList h a s e =
      if e > n ∨ e < -n then (h, .panic .subListEnd)
      else if s > e' then (h, .panic .subListOrder)
      else if s < 0 then (h, .panic .subListStart)
      else (h ++ [.list (((h.items a).drop s.toNat).take (e' - s).toNat) 0], .ok ⟨h.length, 0⟩) := by
  intro n e'
  unfold subList count
  simp only [Bool.or_eq_true, decide_eq_true_eq, n, e']

theorem subList_ext0 (h : Heap) (a : Nat) (s e : Int) : Ext0 h (subList h a s e).1 := by
  rw [subList_cases h a s e]
  repeat' split
  all_goals first | exact Ext0.refl h | exact Ext0.append h _

/-- the argument may be a derived list of any embedding level (`another.base()`) -/
theorem concat_ok (h : Heap) (a : Nat) (r : Ref) (hl : h.isList r.addr = true) :
    concat h a r = (h ++ [.list (h.items a ++ h.items r.addr) 0], .ok ⟨h.length, 0⟩) := by
  unfold concat
  simp [hl]

theorem concat_bad (h : Heap) (a : Nat) (r : Ref) (hb : ¬ (h.isList r.addr = true)) :
    concat h a r = (h, .panic .runtime) := by
  unfold concat
  rw [if_pos]
  simpa using hb

theorem concat_ext0 (h : Heap) (a : Nat) (r : Ref) : Ext0 h (concat h a r).1 := by
  by_cases hb : h.isList r.addr = true
  · rw [concat_ok h a r hb]; exact Ext0.append h _
  · rw [concat_bad h a r hb]; exact Ext0.refl h

theorem new_ext0 (h : Heap) (gs : List GoVal) : Ext0 h (new h gs).1 := by
  have := (Ext0.append h (.list [] 0)).trans_ext (addEach_ext (h ++ [.list [] 0]) h.length gs) (Nat.le_refl _)
  unfold new
  simp only
  split <;> simp_all

theorem new_ok (h : Heap) (gs : List GoVal) {r : Ref} (hr : (new h gs).2 = .ok r) :
    r = ⟨h.length, 0⟩ ∧ (new h gs).1.isList h.length = true ∧ (new h gs).1.ego h.length = 0 := by
  have e := addEach_ext (h ++ [.list [] 0]) h.length gs
  have hlt : h.length < (h ++ [Cell.list [] 0]).length := by simp
  have i1 := e.isList hlt
  have i2 := e.ego hlt
  rw [isList_append_new] at i1
  rw [ego_append_new_list] at i2
  unfold new at hr ⊢
  simp only at hr ⊢
  split at hr
  · next h1 u hq =>
    simp only [hq] at i1 i2 ⊢
    cases hr
    exact ⟨rfl, i1, i2⟩
  · cases hr

theorem newOf_ext0 (h : Heap) (g : GoVal) (c : Int) : Ext0 h (newOf h g c).1 := by
  unfold newOf
  split
  · exact Ext0.refl h
  · have e := (Ext0.append h (.list [] 0)).trans (parseVal_ext0 (h ++ [.list [] 0]) g)
    split
    · next h1 k hq => rw [hq] at e; exact e
    · next h1 v hq =>
      rw [hq] at e
      exact e.trans_ext (Ext.setItems h1 h.length _) (Nat.le_refl _)

theorem newFrom_ext0 (h : Heap) (g : GoVal) : Ext0 h (newFrom h g).1 := by
  unfold newFrom
  split
  · next fl xs =>
    have e := parseVal_ext0 h (.slice fl xs)
    split <;> simp_all
  · exact Ext0.refl h

theorem parseVal_slice_ok (h : Heap) (fl : Flavour) (xs : List GoVal) {v : Val}
    (hr : (parseVal h (.slice fl xs)).2 = .ok v) : v = .list ⟨h.length, 0⟩ := by
  rw [parseVal] at hr
  split at hr
  · cases hr; rfl
  · cases hr

theorem newFrom_ok (h : Heap) (g : GoVal) {r : Ref} (hr : (newFrom h g).2 = .ok r) :
    r = ⟨h.length, 0⟩ := by
  unfold newFrom at hr
  split at hr
  · next fl xs =>
    split at hr
    · next h1 r' hq =>
      have := parseVal_slice_ok h fl xs (v := .list r') (by rw [hq])
      cases hr; cases this; rfl
    · cases hr
    · cases hr
  · cases hr

theorem newOf_ok (h : Heap) (g : GoVal) (c : Int) {r : Ref} (hr : (newOf h g c).2 = .ok r) :
    r = ⟨h.length, 0⟩ := by
  unfold newOf at hr
  split at hr
  · cases hr
  · split at hr
    · cases hr
    · cases hr; rfl

/-- generic core: the list is `C`-wrapped `zs`; Sort stores the `C`-wrapped merge sort of `zs` -/
theorem sort_generic {α} (C : α → Val) (le : α → α → Bool)
    (trans : ∀ a b c, le a b = true → le b c = true → le a c = true)
    (total : ∀ a b, (le a b || le b a) = true)
    (hsort : ∀ (h : Heap) (a : Nat) (zs : List α), zs ≠ [] → h.items a = zs.map C →
      sort h a = (h.setItems a ((zs.mergeSort le).map C), .ok (h.egoRef a)))
    (h : Heap) (a : Nat) (zs : List α) (hl : h.isList a = true) (hne : zs ≠ []) (hx : h.items a = zs.map C) :
    ∃ ys : List α,
      sort h a = (h.setItems a (ys.map C), .ok (h.egoRef a)) ∧
      ys.Pairwise (fun x y => le x y = true) ∧
      (ys.map C).Perm (h.items a) ∧
      sort (h.setItems a (ys.map C)) a = (h.setItems a (ys.map C), .ok (h.egoRef a)) := by
  refine ⟨zs.mergeSort le, hsort h a zs hne hx, List.pairwise_mergeSort trans total zs, ?_, ?_⟩
  · rw [hx]; exact (List.mergeSort_perm zs le).map C
  · rw [hsort (h.setItems a ((zs.mergeSort le).map C)) a (zs.mergeSort le) (mergeSort_ne_nil le hne)
      (items_setItems_same _ hl)]
    rw [mergeSort_idem le trans total, setItems_setItems, egoRef_setItems]


end L

/-! ### frame vocabulary used by the property statements -/

/-- `h'` has every cell of `h`; all old cells other than `a` are identical; every old cell
(also `a`) keeps its kind and ego level -/
def FrameAt (h h' : Heap) (a : Nat) : Prop :=
  h.length ≤ h'.length ∧ (∀ b, b < h.length → b ≠ a → h'[b]? = h[b]?) ∧
  (∀ b, b < h.length → h'.isList b = h.isList b ∧ h'.isObj b = h.isObj b ∧ h'.ego b = h.ego b)

theorem FrameAt.of_ext {h h' : Heap} {a : Nat} (e : Ext h h' a) : FrameAt h h' a :=
  ⟨e.len, e.other, fun _ hb => ⟨e.isList hb, e.isObj hb, e.ego hb⟩⟩

/-- no old cell differs -/
def Frame0 (h h' : Heap) : Prop := h.length ≤ h'.length ∧ ∀ b, b < h.length → h'[b]? = h[b]?

theorem Frame0.of_ext0 {h h' : Heap} (e : Ext0 h h') : Frame0 h h' := ⟨e.len, e.same⟩

theorem getVal_kind (h : Heap) (v : Val) : (h.getVal v).kind = v.kind := by
  cases v <;> rfl

end Anytype
