/-
`Map` variants with arbitrary callback results (C14, general case).

A callback may return native Go slices / maps (then `parseVal` allocates fresh cells between the
additions to the result cell) or unsupported values (then `parseVal` panics). The loops of
`L.mapK`, `L.map`, `O.map`, `O.mapK` are all instances of one abstract loop `mapSpec`: for every
visited element, in order, normalise the callback result with `parseVal` on the current heap and
store the value in the result cell; stop at the first panic. `MapSteps` spells a successful run
out as the chain of heaps.

This file stays in the `Lemmas/Views.lean` family (it must not import `Lemmas/Heap.lean`); the
frame facts about `parseVal` it needs are proved here under their own names (`Fr`, `FrX`).
-/
import Anytype.Lemmas.Views
namespace Anytype

/-! ### frames: the heap grows, old cells stay, the `ego` table is unchanged -/

/-- `h'` extends `h`; every old cell other than `a` is identical; `ego` is the same everywhere
(fresh cells are allocated with ego 0, which is also what `ego` answers outside the heap) -/
structure FrX (a : Nat) (h h' : Heap) : Prop where
  len : h.length ≤ h'.length
  old : ∀ b, b < h.length → b ≠ a → h'[b]? = h[b]?
  ego : ∀ b, h'.ego b = h.ego b

/-- `h'` extends `h`, no old cell differs, `ego` is the same everywhere -/
structure Fr (h h' : Heap) : Prop where
  len : h.length ≤ h'.length
  old : ∀ b, b < h.length → h'[b]? = h[b]?
  ego : ∀ b, h'.ego b = h.ego b

namespace MapG

theorem ego_setItems (h : Heap) (a : Nat) (xs : List Val) (b : Nat) :
    (h.setItems a xs).ego b = h.ego b := by
  unfold Heap.setItems
  split
  · next ys e ha => exact Heap.ego_set_list ha b
  · rfl

theorem ego_setFields (h : Heap) (a : Nat) (xs : List (Str × Val)) (b : Nat) :
    (h.setFields a xs).ego b = h.ego b := by
  unfold Heap.setFields
  split
  · next ys e ha => exact Heap.ego_set_obj ha b
  · rfl

theorem getElem?_setItems_ne (h : Heap) (a b : Nat) (xs : List Val) (hne : b ≠ a) :
    (h.setItems a xs)[b]? = h[b]? := by
  unfold Heap.setItems
  split
  · exact List.getElem?_set_ne (Ne.symm hne)
  · rfl

theorem getElem?_setFields_ne (h : Heap) (a b : Nat) (xs : List (Str × Val)) (hne : b ≠ a) :
    (h.setFields a xs)[b]? = h[b]? := by
  unfold Heap.setFields
  split
  · exact List.getElem?_set_ne (Ne.symm hne)
  · rfl

theorem length_setItems (h : Heap) (a : Nat) (xs : List Val) :
    (h.setItems a xs).length = h.length := by
  unfold Heap.setItems; split <;> simp

theorem length_setFields (h : Heap) (a : Nat) (xs : List (Str × Val)) :
    (h.setFields a xs).length = h.length := by
  unfold Heap.setFields; split <;> simp

end MapG

theorem Fr.refl (h : Heap) : Fr h h := ⟨Nat.le_refl _, fun _ _ => rfl, fun _ => rfl⟩
theorem FrX.refl (a : Nat) (h : Heap) : FrX a h h :=
  ⟨Nat.le_refl _, fun _ _ _ => rfl, fun _ => rfl⟩

theorem Fr.toX {h h' : Heap} (e : Fr h h') (a : Nat) : FrX a h h' :=
  ⟨e.len, fun b hb _ => e.old b hb, e.ego⟩

theorem Fr.trans {h1 h2 h3 : Heap} (e1 : Fr h1 h2) (e2 : Fr h2 h3) : Fr h1 h3 :=
  ⟨Nat.le_trans e1.len e2.len,
   fun b hb => by rw [e2.old b (Nat.lt_of_lt_of_le hb e1.len), e1.old b hb],
   fun b => by rw [e2.ego, e1.ego]⟩

theorem FrX.trans {a : Nat} {h1 h2 h3 : Heap} (e1 : FrX a h1 h2) (e2 : FrX a h2 h3) :
    FrX a h1 h3 :=
  ⟨Nat.le_trans e1.len e2.len,
   fun b hb hne => by rw [e2.old b (Nat.lt_of_lt_of_le hb e1.len) hne, e1.old b hb hne],
   fun b => by rw [e2.ego, e1.ego]⟩

/-- touching only a cell that did not exist yet is a pure extension -/
theorem Fr.trans_x {a : Nat} {h1 h2 h3 : Heap} (e1 : Fr h1 h2) (e2 : FrX a h2 h3)
    (ha : h1.length ≤ a) : Fr h1 h3 :=
  ⟨Nat.le_trans e1.len e2.len,
   fun b hb => by rw [e2.old b (Nat.lt_of_lt_of_le hb e1.len) (by omega), e1.old b hb],
   fun b => by rw [e2.ego, e1.ego]⟩

theorem FrX.toFr {a : Nat} {h h' : Heap} (e : FrX a h h') (ha : h.length ≤ a) : Fr h h' :=
  ⟨e.len, fun b hb => e.old b hb (by omega), e.ego⟩

theorem Fr.append_list0 (h : Heap) (xs : List Val) : Fr h (h ++ [.list xs 0]) :=
  ⟨by simp, fun _ hb => List.getElem?_append_left hb, Heap.ego_append_list0 h xs⟩

theorem Fr.append_obj0 (h : Heap) (xs : List (Str × Val)) : Fr h (h ++ [.obj xs 0]) :=
  ⟨by simp, fun _ hb => List.getElem?_append_left hb, Heap.ego_append_obj0 h xs⟩

theorem FrX.setItems (h : Heap) (a : Nat) (xs : List Val) : FrX a h (h.setItems a xs) :=
  ⟨by rw [MapG.length_setItems]; exact Nat.le_refl _,
   fun b _ hne => MapG.getElem?_setItems_ne h a b xs hne, MapG.ego_setItems h a xs⟩

theorem FrX.setFields (h : Heap) (a : Nat) (xs : List (Str × Val)) : FrX a h (h.setFields a xs) :=
  ⟨by rw [MapG.length_setFields]; exact Nat.le_refl _,
   fun b _ hne => MapG.getElem?_setFields_ne h a b xs hne, MapG.ego_setFields h a xs⟩

mutual
/-- `parseVal` only appends ego-0 cells (also when it panics) -/
theorem parseVal_fr : ∀ (h : Heap) (g : GoVal), Fr h (parseVal h g).1
  | h, .nil => by simp only [parseVal]; exact Fr.refl h
  | h, .bool _ => by simp only [parseVal]; exact Fr.refl h
  | h, .intw _ _ => by simp only [parseVal]; exact Fr.refl h
  | h, .f64 _ => by simp only [parseVal]; exact Fr.refl h
  | h, .f32 _ => by simp only [parseVal]; exact Fr.refl h
  | h, .str _ => by simp only [parseVal]; exact Fr.refl h
  | h, .list _ => by simp only [parseVal]; exact Fr.refl h
  | h, .obj _ => by simp only [parseVal]; exact Fr.refl h
  | h, .unsupported => by simp only [parseVal]; exact Fr.refl h
  | h, .slice _ xs => by
    have ih := addEach_frx (h ++ [.list [] 0]) h.length xs
    have e : Fr h (addEach (h ++ [.list [] 0]) h.length xs).1 :=
      (Fr.append_list0 h []).trans_x ih (Nat.le_refl _)
    simp only [parseVal]
    split <;> simp_all
  | h, .map _ kvs => by
    have ih := setEach_frx (h ++ [.obj [] 0]) h.length kvs
    have e : Fr h (setEach (h ++ [.obj [] 0]) h.length kvs).1 :=
      (Fr.append_obj0 h []).trans_x ih (Nat.le_refl _)
    simp only [parseVal]
    split <;> simp_all
theorem addEach_frx : ∀ (h : Heap) (a : Nat) (gs : List GoVal), FrX a h (addEach h a gs).1
  | h, a, [] => by simp only [addEach]; exact FrX.refl a h
  | h, a, g :: gs => by
    have ih1 := parseVal_fr h g
    simp only [addEach]
    split
    · next h1 k hp => rw [hp] at ih1; exact ih1.toX a
    · next h1 v hp =>
      rw [hp] at ih1
      exact (ih1.toX a).trans ((FrX.setItems h1 a _).trans (addEach_frx _ a gs))
theorem setEach_frx : ∀ (h : Heap) (a : Nat) (kvs : List (Str × GoVal)),
    FrX a h (setEach h a kvs).1
  | h, a, [] => by simp only [setEach]; exact FrX.refl a h
  | h, a, (k, g) :: kvs => by
    have ih1 := parseVal_fr h g
    simp only [setEach]
    split
    · next h1 p hp => rw [hp] at ih1; exact ih1.toX a
    · next h1 v hp =>
      rw [hp] at ih1
      exact (ih1.toX a).trans ((FrX.setFields h1 a _).trans (setEach_frx _ a kvs))
end

theorem parseVal_fr' {h h1 : Heap} {g : GoVal} {o : Out Val} (hp : parseVal h g = (h1, o)) :
    Fr h h1 := by
  have := parseVal_fr h g; rwa [hp] at this

/-! ### the abstract `Map` loop -/

/-- for every visited element, in order: normalise the callback result on the current heap, then
store the value; stop at the first panic (the heap is then the heap at the panic point) -/
def mapSpec {α} (store : Heap → α → Val → Heap) (g : α → GoVal) :
    Heap → List α → Heap × Out Unit
  | h, [] => (h, .ok ())
  | h, x :: xs =>
    match parseVal h (g x) with
    | (h1, .panic p) => (h1, .panic p)
    | (h1, .ok v) => mapSpec store g (store h1 x v) xs

/-- a successful run spelled out: `MapSteps store g h₀ [x₀,…,xₙ₋₁] [v₀,…,vₙ₋₁] hₙ` says there are
heaps with `parseVal hᵢ (g xᵢ) = (hᵢ', .ok vᵢ)` and `hᵢ₊₁ = store hᵢ' xᵢ vᵢ` -/
def MapSteps {α} (store : Heap → α → Val → Heap) (g : α → GoVal) :
    Heap → List α → List Val → Heap → Prop
  | h, [], vs, h' => vs = [] ∧ h' = h
  | h, x :: xs, vs, h' => ∃ h1 v vs', vs = v :: vs' ∧ parseVal h (g x) = (h1, .ok v) ∧
      MapSteps store g (store h1 x v) xs vs' h'

/-- what the `Map` methods return after the loop -/
def mapDone (res : Nat) : Heap × Out Unit → Heap × Out Ref
  | (h1, .ok _) => (h1, .ok ⟨res, 0⟩)
  | (h1, .panic p) => (h1, .panic p)

/-- `result.Add(v)` on the result list cell -/
def storeL {α} (res : Nat) : Heap → α → Val → Heap :=
  fun h1 _ v => h1.setItems res (h1.items res ++ [v])

/-- `result.Set(key, v)` on the result object cell -/
def storeO {α} (res : Nat) (key : α → Str) : Heap → α → Val → Heap :=
  fun h1 x v => h1.setFields res (setKV (h1.fields res) (key x) v)

theorem mapDone_ok_iff (res : Nat) (q : Heap × Out Unit) (h' : Heap) (r : Ref) :
    mapDone res q = (h', .ok r) ↔ q = (h', .ok ()) ∧ r = ⟨res, 0⟩ := by
  obtain ⟨h1, o⟩ := q
  cases o with
  | ok u => cases u; simp only [mapDone, Prod.mk.injEq, Out.ok.injEq]; constructor
            · rintro ⟨rfl, rfl⟩; exact ⟨⟨rfl, trivial⟩, rfl⟩
            · rintro ⟨⟨rfl, _⟩, rfl⟩; exact ⟨rfl, rfl⟩
  | panic p => simp [mapDone]

theorem mapDone_panic_iff (res : Nat) (q : Heap × Out Unit) (h' : Heap) (p : PanicKind) :
    mapDone res q = (h', .panic p) ↔ q = (h', .panic p) := by
  obtain ⟨h1, o⟩ := q
  cases o with
  | ok u => simp [mapDone]
  | panic p' => simp [mapDone]

theorem mapDone_fst (res : Nat) (q : Heap × Out Unit) : (mapDone res q).1 = q.1 := by
  obtain ⟨h1, o⟩ := q
  cases o <;> rfl

theorem MapSteps.length {α} {store : Heap → α → Val → Heap} {g : α → GoVal} :
    ∀ {xs : List α} {h : Heap} {vs : List Val} {h' : Heap},
      MapSteps store g h xs vs h' → vs.length = xs.length
  | [], _, _, _, hs => by simp only [MapSteps] at hs; simp [hs.1]
  | _ :: _, _, _, _, hs => by
    simp only [MapSteps] at hs
    obtain ⟨h1, v, vs', rfl, _, hr⟩ := hs
    simp only [List.length_cons, MapSteps.length hr]

/-- the loop succeeds exactly when every `parseVal` along the chain succeeds -/
theorem mapSpec_ok_iff {α} (store : Heap → α → Val → Heap) (g : α → GoVal) (xs : List α) :
    ∀ (h h' : Heap), mapSpec store g h xs = (h', .ok ()) ↔ ∃ vs, MapSteps store g h xs vs h' := by
  induction xs with
  | nil =>
    intro h h'
    simp only [mapSpec, MapSteps, Prod.mk.injEq, and_true]
    constructor
    · rintro rfl; exact ⟨[], rfl, rfl⟩
    · rintro ⟨_, _, rfl⟩; rfl
  | cons x xs ih =>
    intro h h'
    simp only [mapSpec, MapSteps]
    cases hp : parseVal h (g x) with
    | mk h1 o =>
      cases o with
      | panic p =>
        simp only [Prod.mk.injEq, reduceCtorEq, and_false, false_and, exists_false]
      | ok v =>
        simp only [ih, Prod.mk.injEq, Out.ok.injEq]
        constructor
        · rintro ⟨vs, hs⟩; exact ⟨v :: vs, h1, v, vs, rfl, ⟨rfl, rfl⟩, hs⟩
        · rintro ⟨_, _, _, vs', rfl, ⟨rfl, rfl⟩, hs⟩; exact ⟨vs', hs⟩

/-- the loop panics exactly when, after a successful run over a prefix of the visited elements,
`parseVal` of the next callback result panics: same kind, and the heap is the heap `parseVal`
leaves -/
theorem mapSpec_panic_iff {α} (store : Heap → α → Val → Heap) (g : α → GoVal) (xs : List α) :
    ∀ (h h' : Heap) (p : PanicKind), mapSpec store g h xs = (h', .panic p) ↔
      ∃ xs₁ x xs₂ vs h₁, xs = xs₁ ++ x :: xs₂ ∧ MapSteps store g h xs₁ vs h₁ ∧
        parseVal h₁ (g x) = (h', .panic p) := by
  induction xs with
  | nil =>
    intro h h' p
    simp only [mapSpec, Prod.mk.injEq, reduceCtorEq, and_false, false_iff]
    rintro ⟨xs₁, x, xs₂, _, _, he, _⟩
    cases xs₁ <;> cases he
  | cons y ys ih =>
    intro h h' p
    simp only [mapSpec]
    cases hp : parseVal h (g y) with
    | mk h1 o =>
      cases o with
      | panic q =>
        simp only []
        constructor
        · intro e
          simp only [Prod.mk.injEq, Out.panic.injEq] at e
          obtain ⟨rfl, rfl⟩ := e
          exact ⟨[], y, ys, [], h, rfl, ⟨rfl, rfl⟩, hp⟩
        · rintro ⟨xs₁, x, xs₂, vs, h₁, he, hs, hq⟩
          cases xs₁ with
          | nil =>
            simp only [List.nil_append, List.cons.injEq] at he
            obtain ⟨rfl, rfl⟩ := he
            simp only [MapSteps] at hs
            obtain ⟨_, rfl⟩ := hs
            rw [hp] at hq
            simp only [Prod.mk.injEq, Out.panic.injEq] at hq
            obtain ⟨rfl, rfl⟩ := hq
            rfl
          | cons z zs =>
            simp only [List.cons_append, List.cons.injEq] at he
            obtain ⟨rfl, rfl⟩ := he
            simp only [MapSteps] at hs
            obtain ⟨_, _, _, _, hok, _⟩ := hs
            rw [hp] at hok; cases hok
      | ok v =>
        simp only [ih]
        constructor
        · rintro ⟨xs₁, x, xs₂, vs, h₁, rfl, hs, hq⟩
          exact ⟨y :: xs₁, x, xs₂, v :: vs, h₁, rfl, ⟨h1, v, vs, rfl, hp, hs⟩, hq⟩
        · rintro ⟨xs₁, x, xs₂, vs, h₁, he, hs, hq⟩
          cases xs₁ with
          | nil =>
            simp only [List.nil_append, List.cons.injEq] at he
            obtain ⟨rfl, rfl⟩ := he
            simp only [MapSteps] at hs
            obtain ⟨_, rfl⟩ := hs
            rw [hp] at hq; cases hq
          | cons z zs =>
            simp only [List.cons_append, List.cons.injEq] at he
            obtain ⟨rfl, rfl⟩ := he
            simp only [MapSteps] at hs
            obtain ⟨h1', v', vs', rfl, hok, hr⟩ := hs
            rw [hp] at hok
            simp only [Prod.mk.injEq, Out.ok.injEq] at hok
            obtain ⟨rfl, rfl⟩ := hok
            exact ⟨zs, x, xs₂, vs', h₁, rfl, hr, hq⟩

/-- whatever happens, only cell `res` of the old cells can differ and `ego` is unchanged -/
theorem mapSpec_frx {α} {res : Nat} {store : Heap → α → Val → Heap}
    (hst : ∀ h x v, FrX res h (store h x v)) (g : α → GoVal) (xs : List α) :
    ∀ h, FrX res h (mapSpec store g h xs).1 := by
  induction xs with
  | nil => intro h; exact FrX.refl res h
  | cons x xs ih =>
    intro h
    simp only [mapSpec]
    cases hp : parseVal h (g x) with
    | mk h1 o =>
      have e := (parseVal_fr' hp).toX res
      cases o with
      | panic p => exact e
      | ok v => exact e.trans ((hst h1 x v).trans (ih _))

theorem storeL_frx {α} (res : Nat) (h : Heap) (x : α) (v : Val) : FrX res h (storeL res h x v) :=
  FrX.setItems h res _

theorem storeO_frx {α} (res : Nat) (key : α → Str) (h : Heap) (x : α) (v : Val) :
    FrX res h (storeO res key h x v) :=
  FrX.setFields h res _

/-- a successful run on a result list cell appends the values, in order -/
theorem MapSteps.items_storeL {α} {res : Nat} {g : α → GoVal} {e : Nat} :
    ∀ {xs : List α} {h : Heap} {ys vs : List Val} {h' : Heap},
      MapSteps (storeL res) g h xs vs h' → h[res]? = some (.list ys e) →
      h'[res]? = some (.list (ys ++ vs) e)
  | [], h, ys, vs, h', hs, hres => by
    simp only [MapSteps] at hs
    obtain ⟨rfl, rfl⟩ := hs
    rw [List.append_nil]; exact hres
  | x :: xs, h, ys, vs, h', hs, hres => by
    simp only [MapSteps] at hs
    obtain ⟨h1, v, vs', rfl, hp, hr⟩ := hs
    have hlt : res < h.length := (List.getElem?_eq_some_iff.mp hres).1
    have hres1 : h1[res]? = some (.list ys e) := by rw [(parseVal_fr' hp).old res hlt]; exact hres
    have hres2 : (storeL (α := α) res h1 x v)[res]? = some (.list (ys ++ [v]) e) := by
      simp only [storeL, Heap.items_of_list hres1, Heap.setItems_of_list hres1]
      exact getElem?_set_self_of_some hres1
    have := MapSteps.items_storeL hr hres2
    rwa [List.append_assoc] at this

/-- a successful run on a result object cell stores every value under the key of its element
(distinct keys not yet present: each `Set` adds a field) -/
theorem MapSteps.fields_storeO {α} {res : Nat} {key : α → Str} {g : α → GoVal} {e : Nat} :
    ∀ {xs : List α} {h : Heap} {gs : List (Str × Val)} {vs : List Val} {h' : Heap},
      MapSteps (storeO res key) g h xs vs h' → h[res]? = some (.obj gs e) →
      (xs.map key).Nodup → (∀ k ∈ xs.map key, k ∉ gs.map (·.1)) →
      h'[res]? = some (.obj (gs ++ (xs.map key).zip vs) e)
  | [], h, gs, vs, h', hs, hres, _, _ => by
    simp only [MapSteps] at hs
    obtain ⟨rfl, rfl⟩ := hs
    simp only [List.map_nil, List.zip_nil_left, List.append_nil]; exact hres
  | x :: xs, h, gs, vs, h', hs, hres, hnd, hdisj => by
    simp only [MapSteps] at hs
    obtain ⟨h1, v, vs', rfl, hp, hr⟩ := hs
    simp only [List.map_cons, List.nodup_cons] at hnd
    have hlt : res < h.length := (List.getElem?_eq_some_iff.mp hres).1
    have hres1 : h1[res]? = some (.obj gs e) := by rw [(parseVal_fr' hp).old res hlt]; exact hres
    have hkey : key x ∉ gs.map (·.1) := hdisj (key x) (by simp)
    have hres2 : (storeO res key h1 x v)[res]? = some (.obj (gs ++ [(key x, v)]) e) := by
      simp only [storeO, Heap.fields_of_obj hres1, Heap.setFields_of_obj hres1,
        setKV_of_not_mem gs (key x) v hkey]
      exact getElem?_set_self_of_some hres1
    have := MapSteps.fields_storeO hr hres2 hnd.2 (by
      intro k hk hmem
      simp only [List.map_append, List.map_cons, List.map_nil, List.mem_append,
        List.mem_singleton] at hmem
      rcases hmem with hmem | hmem
      · exact hdisj k (by simp [hk]) hmem
      · subst hmem; exact hnd.1 hk)
    rw [this]
    simp only [List.map_cons, List.zip_cons_cons, List.append_assoc, List.singleton_append]

/-! ### the concrete loops are instances -/

theorem addEach_single (h : Heap) (a : Nat) (g : GoVal) :
    addEach h a [g] = match parseVal h g with
      | (h1, .panic p) => (h1, .panic p)
      | (h1, .ok v) => (h1.setItems a (h1.items a ++ [v]), .ok ()) := by
  simp only [addEach]
  cases parseVal h g with
  | mk h1 o => cases o <;> rfl

/-! ### renaming the visited elements -/

theorem mapSpec_map {α β} (φ : α → β) (store : Heap → β → Val → Heap) (g : β → GoVal)
    (xs : List α) : ∀ h, mapSpec store g h (xs.map φ)
      = mapSpec (fun h x v => store h (φ x) v) (fun x => g (φ x)) h xs := by
  induction xs with
  | nil => intro h; rfl
  | cons x xs ih =>
    intro h
    simp only [List.map_cons, mapSpec]
    cases parseVal h (g (φ x)) with
    | mk h1 o =>
      cases o with
      | panic p => rfl
      | ok v => exact ih _

theorem MapSteps_map {α β} (φ : α → β) (store : Heap → β → Val → Heap) (g : β → GoVal)
    (xs : List α) : ∀ (h : Heap) (vs : List Val) (h' : Heap), MapSteps store g h (xs.map φ) vs h'
      ↔ MapSteps (fun h x v => store h (φ x) v) (fun x => g (φ x)) h xs vs h' := by
  induction xs with
  | nil => intro h vs h'; simp only [List.map_nil, MapSteps]
  | cons x xs ih => intro h vs h'; simp only [List.map_cons, MapSteps, ih]

/-! ### the whole call: allocate the result cell, loop, hand the cell back -/

/-- `result := NewList()`; the loop; `return result` -/
def runL {α} (h : Heap) (g : α → GoVal) (xs : List α) : Heap × Out Ref :=
  mapDone h.length (mapSpec (storeL h.length) g (h ++ [.list [] 0]) xs)

/-- `result := NewObject()`; the loop; `return result` -/
def runO {α} (h : Heap) (key : α → Str) (g : α → GoVal) (xs : List α) : Heap × Out Ref :=
  mapDone h.length (mapSpec (storeO h.length key) g (h ++ [.obj [] 0]) xs)

/-- success or panic: no old cell differs, the `ego` table is unchanged -/
theorem runL_fr {α} (h : Heap) (g : α → GoVal) (xs : List α) : Fr h (runL h g xs).1 := by
  unfold runL
  rw [mapDone_fst]
  exact (Fr.append_list0 h []).trans_x
    (mapSpec_frx (fun h1 x v => storeL_frx h.length h1 x v) g xs _) (Nat.le_refl _)

theorem runO_fr {α} (h : Heap) (key : α → Str) (g : α → GoVal) (xs : List α) :
    Fr h (runO h key g xs).1 := by
  unfold runO
  rw [mapDone_fst]
  exact (Fr.append_obj0 h []).trans_x
    (mapSpec_frx (fun h1 x v => storeO_frx h.length key h1 x v) g xs _) (Nat.le_refl _)

theorem runL_ok_iff {α} (h : Heap) (g : α → GoVal) (xs : List α) (h' : Heap) (r : Ref) :
    runL h g xs = (h', .ok r) ↔
      r = ⟨h.length, 0⟩ ∧ ∃ vs, MapSteps (storeL h.length) g (h ++ [.list [] 0]) xs vs h' := by
  unfold runL
  rw [mapDone_ok_iff, mapSpec_ok_iff, and_comm]

theorem runO_ok_iff {α} (h : Heap) (key : α → Str) (g : α → GoVal) (xs : List α) (h' : Heap)
    (r : Ref) :
    runO h key g xs = (h', .ok r) ↔
      r = ⟨h.length, 0⟩ ∧
        ∃ vs, MapSteps (storeO h.length key) g (h ++ [.obj [] 0]) xs vs h' := by
  unfold runO
  rw [mapDone_ok_iff, mapSpec_ok_iff, and_comm]

theorem runL_panic_iff {α} (h : Heap) (g : α → GoVal) (xs : List α) (h' : Heap) (p : PanicKind) :
    runL h g xs = (h', .panic p) ↔
      ∃ xs₁ x xs₂ vs h₁, xs = xs₁ ++ x :: xs₂ ∧
        MapSteps (storeL h.length) g (h ++ [.list [] 0]) xs₁ vs h₁ ∧
        parseVal h₁ (g x) = (h', .panic p) := by
  unfold runL
  rw [mapDone_panic_iff, mapSpec_panic_iff]

theorem runO_panic_iff {α} (h : Heap) (key : α → Str) (g : α → GoVal) (xs : List α) (h' : Heap)
    (p : PanicKind) :
    runO h key g xs = (h', .panic p) ↔
      ∃ xs₁ x xs₂ vs h₁, xs = xs₁ ++ x :: xs₂ ∧
        MapSteps (storeO h.length key) g (h ++ [.obj [] 0]) xs₁ vs h₁ ∧
        parseVal h₁ (g x) = (h', .panic p) := by
  unfold runO
  rw [mapDone_panic_iff, mapSpec_panic_iff]

/-- after a successful run the result cell holds exactly the values, in order -/
theorem runL_items {α} {h : Heap} {g : α → GoVal} {xs : List α} {vs : List Val} {h' : Heap}
    (hs : MapSteps (storeL h.length) g (h ++ [.list [] 0]) xs vs h') :
    h'.items h.length = vs ∧ vs.length = xs.length := by
  have h0 : (h ++ [Cell.list [] 0])[h.length]? = some (.list [] 0) := by simp
  have := MapSteps.items_storeL hs h0
  rw [List.nil_append] at this
  exact ⟨Heap.items_of_list this, hs.length⟩

/-- after a successful run the result cell holds every value under the key of its element -/
theorem runO_fields {α} {h : Heap} {key : α → Str} {g : α → GoVal} {xs : List α}
    {vs : List Val} {h' : Heap}
    (hs : MapSteps (storeO h.length key) g (h ++ [.obj [] 0]) xs vs h')
    (hnd : (xs.map key).Nodup) :
    h'.fields h.length = (xs.map key).zip vs ∧ vs.length = xs.length := by
  have h0 : (h ++ [Cell.obj [] 0])[h.length]? = some (.obj [] 0) := by simp
  have := MapSteps.fields_storeO hs h0 hnd (by simp)
  rw [List.nil_append] at this
  exact ⟨Heap.fields_of_obj this, hs.length⟩

/-- `lookup` in a zip with distinct keys -/
theorem lookup_zip_getElem {β} : ∀ (ks : List Str) (vs : List β), ks.Nodup →
    ∀ (i : Nat) (hi : i < ks.length) (hv : i < vs.length), lookup (ks.zip vs) ks[i] = some vs[i]
  | [], _, _, i, hi, _ => by simp at hi
  | _ :: _, [], _, i, _, hv => by simp at hv
  | k :: ks, v :: vs, hnd, 0, _, _ => by simp [lookup]
  | k :: ks, v :: vs, hnd, i + 1, hi, hv => by
    simp only [List.nodup_cons] at hnd
    simp only [List.zip_cons_cons, List.getElem_cons_succ, lookup]
    have hne : (k == ks[i]'(by simpa using hi)) = false := by
      simp only [beq_eq_false_iff_ne, ne_eq]
      intro e; exact hnd.1 (e ▸ List.getElem_mem _)
    rw [hne]
    exact lookup_zip_getElem ks vs hnd.2 i _ _

/-- a key that is not among the keys is not found -/
theorem lookup_zip_none {β} (ks : List Str) (vs : List β) (k : Str) (hk : k ∉ ks) :
    lookup (ks.zip vs) k = none := by
  apply lookup_eq_none_of_not_mem
  intro hmem
  apply hk
  obtain ⟨p, hp, rfl⟩ := List.mem_map.mp hmem
  exact (List.of_mem_zip hp).1

/-- everything a successful list `Map` call guarantees -/
theorem runL_ok_facts {α} {h : Heap} {g : α → GoVal} {xs : List α} {h' : Heap} {r : Ref}
    (hm : runL h g xs = (h', .ok r)) :
    r = ⟨h.length, 0⟩ ∧ (∀ b, b < h.length → h'[b]? = h[b]?) ∧ (∀ b, h'.ego b = h.ego b) ∧
    ∃ vs, MapSteps (storeL h.length) g (h ++ [.list [] 0]) xs vs h' ∧
      h'.items r.addr = vs ∧ vs.length = xs.length := by
  obtain ⟨rfl, vs, hs⟩ := (runL_ok_iff h g xs h' r).mp hm
  have fr := runL_fr h g xs
  rw [hm] at fr
  exact ⟨rfl, fr.old, fr.ego, vs, hs, (runL_items hs).1, (runL_items hs).2⟩

/-- everything a successful object `Map` call guarantees (distinct keys) -/
theorem runO_ok_facts {α} {h : Heap} {key : α → Str} {g : α → GoVal} {xs : List α} {h' : Heap}
    {r : Ref} (hnd : (xs.map key).Nodup) (hm : runO h key g xs = (h', .ok r)) :
    r = ⟨h.length, 0⟩ ∧ (∀ b, b < h.length → h'[b]? = h[b]?) ∧ (∀ b, h'.ego b = h.ego b) ∧
    ∃ vs, MapSteps (storeO h.length key) g (h ++ [.obj [] 0]) xs vs h' ∧
      vs.length = xs.length ∧ h'.fields r.addr = (xs.map key).zip vs ∧
      (∀ (i : Nat) (hi : i < xs.length) (hv : i < vs.length),
        lookup (h'.fields r.addr) (key xs[i]) = some vs[i]) ∧
      (∀ k, k ∉ xs.map key → lookup (h'.fields r.addr) k = none) := by
  obtain ⟨rfl, vs, hs⟩ := (runO_ok_iff h key g xs h' r).mp hm
  have fr := runO_fr h key g xs
  rw [hm] at fr
  obtain ⟨hf, hl⟩ := runO_fields hs hnd
  refine ⟨rfl, fr.old, fr.ego, vs, hs, hl, hf, ?_, ?_⟩
  · intro i hi hv
    show lookup (h'.fields h.length) _ = _
    rw [hf]
    have := lookup_zip_getElem (xs.map key) vs hnd i (by simpa using hi) hv
    simpa using this
  · intro k hk
    show lookup (h'.fields h.length) _ = _
    rw [hf]
    exact lookup_zip_none _ _ _ hk

namespace L

theorem mapKLoop_eq_mapSpec (h0 : Heap) (res : Nat) (k : Kind) (f : Val → GoVal) (xs : List Val) :
    ∀ hc : Heap, (∀ b, hc.ego b = h0.ego b) →
      mapKLoop res k f hc xs
        = mapSpec (storeL res) f hc (xs.filterMap (sel h0 (viaGetValL k) k)) := by
  induction xs with
  | nil => intro hc _; rfl
  | cons x xs ih =>
    intro hc hego
    simp only [mapKLoop, sel_congr hego, List.filterMap_cons]
    cases hs : sel h0 (viaGetValL k) k x with
    | none => exact ih hc hego
    | some v =>
      simp only [mapSpec, addEach_single]
      cases hp : parseVal hc (f v) with
      | mk h1 o =>
        cases o with
        | panic p => rfl
        | ok w =>
          simp only []
          exact ih _ (fun b => by
            rw [MapG.ego_setItems, (parseVal_fr' hp).ego, hego])

/-- the elements `Map` hands to the callback: index and `getVal()` -/
def visits (h0 : Heap) (xs : List Val) (n : Nat) : List (Int × Val) :=
  (xs.zipIdx n).map (fun p => ((p.2 : Int), h0.getVal p.1))

theorem mapLoop_eq_mapSpec (h0 : Heap) (res : Nat) (f : Int → Val → GoVal) (xs : List Val) :
    ∀ (hc : Heap) (n : Nat), (∀ b, hc.ego b = h0.ego b) →
      mapLoop res f hc xs (n : Int)
        = mapSpec (storeL res) (fun q : Int × Val => f q.1 q.2) hc (visits h0 xs n) := by
  induction xs with
  | nil => intro hc n _; rfl
  | cons x xs ih =>
    intro hc n hego
    simp only [mapLoop, visits, List.zipIdx_cons, List.map_cons, mapSpec, addEach_single,
      Heap.getVal_congr hego]
    cases hp : parseVal hc (f (n : Int) (h0.getVal x)) with
    | mk h1 o =>
      cases o with
      | panic p => rfl
      | ok w =>
        simp only []
        have hn : (n : Int) + 1 = ((n + 1 : Nat) : Int) := by omega
        rw [hn]
        exact ih _ (n + 1) (fun b => by
          rw [MapG.ego_setItems, (parseVal_fr' hp).ego, hego])

theorem forEach_eq_visits (h : Heap) (a : Nat) : forEach h a = visits h (h.items a) 0 := by
  have := forEachLoop_eq h (h.items a) 0 []
  simpa [forEach, visits] using this

/-- `MapX(f)` = allocate, loop over exactly the selected elements (selected on the heap before
the call), hand back the result cell -/
theorem mapK_eq_runL (h : Heap) (a : Nat) (k : Kind) (f : Val → GoVal) :
    mapK h a k f = runL h f ((h.items a).filterMap (sel h (viaGetValL k) k)) := by
  simp only [mapK]
  rw [mapKLoop_eq_mapSpec h h.length k f (h.items a) _ (Heap.ego_append_list0 h [])]
  unfold runL
  cases mapSpec (storeL h.length) f (h ++ [Cell.list [] 0])
    ((h.items a).filterMap (sel h (viaGetValL k) k)) with
  | mk h1 o => cases o <;> rfl

/-- `Map(f)` = allocate, loop over the invocations `ForEach` makes, hand back the result cell -/
theorem map_eq_runL (h : Heap) (a : Nat) (f : Int → Val → GoVal) :
    map h a f = runL h (fun q : Int × Val => f q.1 q.2) (forEach h a) := by
  simp only [map]
  have := mapLoop_eq_mapSpec h h.length f (h.items a) (h ++ [Cell.list [] 0]) 0
    (Heap.ego_append_list0 h [])
  simp only [Int.natCast_zero] at this
  rw [this, forEach_eq_visits]
  unfold runL
  cases mapSpec (storeL h.length) (fun q : Int × Val => f q.1 q.2) (h ++ [Cell.list [] 0])
    (visits h (h.items a) 0) with
  | mk h1 o => cases o <;> rfl

theorem mapValues_eq_runL (h : Heap) (a : Nat) (f : Val → GoVal) :
    mapValues h a f = runL h f (forEachValue h a) := by
  unfold mapValues forEachValue
  rw [map_eq_runL]
  unfold runL
  rw [mapSpec_map]
  rfl

end L

namespace O

/-- the fields `MapX` hands to the callback, with their keys -/
def visitsK (h0 : Heap) (kd : Kind) (fs : List (Str × Val)) : List (Str × Val) :=
  fs.filterMap (fun kv => (L.sel h0 (L.viaGetValL kd) kd kv.2).map (fun x => (kv.1, x)))

theorem mapKLoop_eq_mapSpec (h0 : Heap) (res : Nat) (kd : Kind) (f : Val → GoVal)
    (fs : List (Str × Val)) :
    ∀ hc : Heap, (∀ b, hc.ego b = h0.ego b) →
      mapKLoop res kd f hc fs
        = mapSpec (storeO res Prod.fst) (fun q : Str × Val => f q.2) hc (visitsK h0 kd fs) := by
  induction fs with
  | nil => intro hc _; rfl
  | cons p fs ih =>
    obtain ⟨key, x⟩ := p
    intro hc hego
    simp only [mapKLoop, L.sel_congr hego, visitsK, List.filterMap_cons]
    cases hs : L.sel h0 (L.viaGetValL kd) kd x with
    | none => exact ih hc hego
    | some v =>
      simp only [Option.map_some, mapSpec]
      cases hp : parseVal hc (f v) with
      | mk h1 o =>
        cases o with
        | panic p => rfl
        | ok w =>
          simp only []
          exact ih _ (fun b => by
            rw [MapG.ego_setFields, (parseVal_fr' hp).ego, hego])

theorem mapLoop_eq_mapSpec (h0 : Heap) (res : Nat) (f : Str → Val → GoVal)
    (fs : List (Str × Val)) :
    ∀ hc : Heap, (∀ b, hc.ego b = h0.ego b) →
      mapLoop res f hc fs
        = mapSpec (storeO res Prod.fst) (fun q : Str × Val => f q.1 q.2) hc
            (fs.map (fun kv => (kv.1, h0.getVal kv.2))) := by
  induction fs with
  | nil => intro hc _; rfl
  | cons p fs ih =>
    obtain ⟨key, x⟩ := p
    intro hc hego
    simp only [mapLoop, List.map_cons, mapSpec, Heap.getVal_congr hego]
    cases hp : parseVal hc (f key (h0.getVal x)) with
    | mk h1 o =>
      cases o with
      | panic p => rfl
      | ok w =>
        simp only []
        exact ih _ (fun b => by
          rw [MapG.ego_setFields, (parseVal_fr' hp).ego, hego])

theorem visitsK_keys_sublist (h0 : Heap) (kd : Kind) (fs : List (Str × Val)) :
    ((visitsK h0 kd fs).map Prod.fst).Sublist (fs.map Prod.fst) := by
  induction fs with
  | nil => exact List.Sublist.refl _
  | cons p fs ih =>
    simp only [visitsK, List.filterMap_cons, List.map_cons]
    cases L.sel h0 (L.viaGetValL kd) kd p.2 with
    | none => exact ih.cons _
    | some v => simp only [Option.map_some, List.map_cons]; exact ih.cons_cons _

theorem map_eq_runO (h : Heap) (a : Nat) (f : Str → Val → GoVal) :
    map h a f = runO h Prod.fst (fun q : Str × Val => f q.1 q.2) (forEach h a) := by
  simp only [map]
  rw [mapLoop_eq_mapSpec h h.length f (h.fields a) _ (Heap.ego_append_obj0 h [])]
  unfold runO forEach
  cases mapSpec (storeO h.length Prod.fst) (fun q : Str × Val => f q.1 q.2) (h ++ [Cell.obj [] 0])
    ((h.fields a).map (fun kv => (kv.1, h.getVal kv.2))) with
  | mk h1 o => cases o <;> rfl

theorem mapK_eq_runO (h : Heap) (a : Nat) (kd : Kind) (f : Val → GoVal) :
    mapK h a kd f = runO h Prod.fst (fun q : Str × Val => f q.2) (visitsK h kd (h.fields a)) := by
  simp only [mapK]
  rw [mapKLoop_eq_mapSpec h h.length kd f (h.fields a) _ (Heap.ego_append_obj0 h [])]
  unfold runO
  cases mapSpec (storeO h.length Prod.fst) (fun q : Str × Val => f q.2) (h ++ [Cell.obj [] 0])
    (visitsK h kd (h.fields a)) with
  | mk h1 o => cases o <;> rfl

theorem forEach_keys (h : Heap) (a : Nat) :
    (forEach h a).map Prod.fst = (h.fields a).map Prod.fst := by
  unfold forEach; rw [List.map_map]; rfl

theorem visitsK_nodup (h0 : Heap) (kd : Kind) (fs : List (Str × Val))
    (hnd : (fs.map Prod.fst).Nodup) : ((visitsK h0 kd fs).map Prod.fst).Nodup :=
  (visitsK_keys_sublist h0 kd fs).nodup hnd

/-- the visited fields are the fields of kind `kd`: key and selected value -/
theorem mem_visitsK {h0 : Heap} {kd : Kind} {fs : List (Str × Val)} {q : Str × Val} :
    q ∈ visitsK h0 kd fs ↔ ∃ v, (q.1, v) ∈ fs ∧ L.sel h0 (L.viaGetValL kd) kd v = some q.2 := by
  unfold visitsK
  simp only [List.mem_filterMap, Option.map_eq_some_iff]
  constructor
  · rintro ⟨kv, hkv, x, hx, rfl⟩; exact ⟨kv.2, hkv, hx⟩
  · rintro ⟨v, hv, hx⟩; exact ⟨(q.1, v), hv, q.2, hx, rfl⟩

end O

end Anytype
