/-
The mutators of List and Object as one program alphabet (`MOp`), their frame (`Ext`: only the
receiver's cell may change, cells are only appended), and what a program of mutators whose
receivers avoid an address interval leaves unchanged.
-/
import Anytype.Lemmas.Reify
namespace Anytype
open Heap
namespace Rf

/-! ### frames of the Object mutators (List mutators: `L.add_ext` … in `Lemmas/ListOps.lean`) -/

theorem setLoop_ext : ∀ (h : Heap) (a : Nat) (pairs : O.Pairs), Ext h (O.setLoop h a pairs).1 a
  | h, a, [] => by simp only [O.setLoop]; exact Ext.refl h a
  | h, a, (none, _) :: _ => by simp only [O.setLoop]; exact Ext.refl h a
  | h, a, (some k, g) :: rest => by
    have e0 := parseVal_ext0 h g
    simp only [O.setLoop]
    split
    · next h1 p hp => rw [hp] at e0; exact e0.toExt a
    · next h1 v hp =>
      rw [hp] at e0
      exact (e0.toExt a).trans ((Ext.setFields h1 a _).trans (setLoop_ext _ a rest))

theorem oset_ext (h : Heap) (a : Nat) (pairs : O.Pairs) (odd : Bool) : Ext h (O.set h a pairs odd).1 a := by
  have := setLoop_ext h a pairs
  unfold O.set
  split
  · exact Ext.refl h a
  · split <;> simp_all

theorem ounset_ext (h : Heap) (a : Nat) (keys : List Str) : Ext h (O.unset h a keys).1 a :=
  Ext.setFields h a _

theorem oclear_ext (h : Heap) (a : Nat) : Ext h (O.clear h a).1 a := Ext.setFields h a _

/-! ### the mutator alphabet -/

/-- one mutating method call: receiver address and arguments (any Go values, also nested
native slices / maps and references to existing containers) -/
inductive MOp
  | add (a : Nat) (gs : List GoVal)
  | insert (a : Nat) (i : Int) (g : GoVal)
  | replace (a : Nat) (i : Int) (g : GoVal)
  | delete (a : Nat) (idx : List Int)
  | pop (a : Nat)
  | clear (a : Nat)
  | reverse (a : Nat)
  | sort (a : Nat)
  | oset (a : Nat) (pairs : O.Pairs) (odd : Bool)
  | ounset (a : Nat) (keys : List Str)
  | oclear (a : Nat)

/-- the receiver -/
def MOp.target : MOp → Nat
  | .add a _ | .insert a _ _ | .replace a _ _ | .delete a _ | .pop a | .clear a | .reverse a
  | .sort a | .oset a _ _ | .ounset a _ | .oclear a => a

/-- the heap after the call (at the panic point if it panics) -/
def stepM (h : Heap) : MOp → Heap
  | .add a gs => (L.add h a gs).1
  | .insert a i g => (L.insert h a i g).1
  | .replace a i g => (L.replace h a i g).1
  | .delete a idx => (L.delete h a idx).1
  | .pop a => (L.pop h a).1
  | .clear a => (L.clear h a).1
  | .reverse a => (L.reverse h a).1
  | .sort a => (L.sort h a).1
  | .oset a pairs odd => (O.set h a pairs odd).1
  | .ounset a keys => (O.unset h a keys).1
  | .oclear a => (O.clear h a).1

theorem stepM_ext (h : Heap) (op : MOp) : Ext h (stepM h op) op.target := by
  cases op <;> simp only [stepM, MOp.target]
  · exact L.add_ext h _ _
  · exact L.insert_ext h _ _ _
  · exact L.replace_ext h _ _ _
  · exact L.delete_ext h _ _
  · exact L.pop_ext h _
  · exact L.clear_ext h _
  · exact L.reverse_ext h _
  · exact L.sort_ext h _
  · exact oset_ext h _ _ _
  · exact ounset_ext h _ _
  · exact oclear_ext h _

/-- run a program of mutators -/
def runM (h : Heap) : List MOp → Heap
  | [] => h
  | op :: ops => runM (stepM h op) ops

theorem runM_len (h : Heap) (ops : List MOp) : h.length ≤ (runM h ops).length := by
  induction ops generalizing h with
  | nil => exact Nat.le_refl _
  | cons op ops ih => exact Nat.le_trans (stepM_ext h op).len (ih _)

/-- a program none of whose receivers lies in `[lo, hi)` leaves the cells at `[lo, hi)` as they are -/
theorem runM_agreeOn (lo hi : Nat) (h : Heap) (ops : List MOp) (hhi : hi ≤ h.length)
    (ht : ∀ op ∈ ops, op.target < lo ∨ hi ≤ op.target) : AgreeOn lo hi h (runM h ops) := by
  induction ops generalizing h with
  | nil => exact AgreeOn.refl _ _ _
  | cons op ops ih =>
    have e := stepM_ext h op
    have a1 : AgreeOn lo hi h (stepM h op) := AgreeOn.of_ext e hhi (ht op (by simp))
    exact a1.trans (ih (stepM h op) (Nat.le_trans hhi e.len) (fun o ho => ht o (by simp [ho])))
      (Nat.le_refl _) (Nat.le_refl _)

end Rf
end Anytype
