/-
Native values: `toNative` is an isomorphism between value trees and native trees, and
`parseVal` of a native tree (what `NewListFrom` / `NewObjectFrom` do) builds fresh cells that
denote exactly that tree.
-/
import Anytype.Lemmas.Reify
namespace Anytype
open Heap
namespace Rf

/-! ### `toNative` is a bijection -/

mutual
/-- the inverse of `toNative` -/
def fromNative : NVal → JVal
  | .nil => .null | .bool b => .bool b | .int i => .int i | .float f => .float f | .str s => .str s
  | .slice xs => .list (fromNativeList xs)
  | .dict kvs => .obj (fromNativeFields kvs)
def fromNativeList : List NVal → List JVal
  | [] => [] | x :: xs => fromNative x :: fromNativeList xs
def fromNativeFields : List (Str × NVal) → List (Str × JVal)
  | [] => [] | (k, x) :: kvs => (k, fromNative x) :: fromNativeFields kvs
end

mutual
theorem fromNative_toNative : ∀ t : JVal, fromNative (toNative t) = t
  | .null => by simp only [toNative, fromNative]
  | .bool _ => by simp only [toNative, fromNative]
  | .int _ => by simp only [toNative, fromNative]
  | .float _ => by simp only [toNative, fromNative]
  | .str _ => by simp only [toNative, fromNative]
  | .list xs => by simp only [toNative, fromNative, fromNativeList_toNativeList xs]
  | .obj kvs => by simp only [toNative, fromNative, fromNativeFields_toNativeFields kvs]
theorem fromNativeList_toNativeList : ∀ xs : List JVal, fromNativeList (toNativeList xs) = xs
  | [] => by simp only [toNativeList, fromNativeList]
  | x :: xs => by
    simp only [toNativeList, fromNativeList, fromNative_toNative x, fromNativeList_toNativeList xs]
theorem fromNativeFields_toNativeFields :
    ∀ kvs : List (Str × JVal), fromNativeFields (toNativeFields kvs) = kvs
  | [] => by simp only [toNativeFields, fromNativeFields]
  | (k, x) :: kvs => by
    simp only [toNativeFields, fromNativeFields, fromNative_toNative x,
      fromNativeFields_toNativeFields kvs]
end

mutual
theorem toNative_fromNative : ∀ n : NVal, toNative (fromNative n) = n
  | .nil => by simp only [toNative, fromNative]
  | .bool _ => by simp only [toNative, fromNative]
  | .int _ => by simp only [toNative, fromNative]
  | .float _ => by simp only [toNative, fromNative]
  | .str _ => by simp only [toNative, fromNative]
  | .slice xs => by simp only [toNative, fromNative, toNativeList_fromNativeList xs]
  | .dict kvs => by simp only [toNative, fromNative, toNativeFields_fromNativeFields kvs]
theorem toNativeList_fromNativeList : ∀ xs : List NVal, toNativeList (fromNativeList xs) = xs
  | [] => by simp only [toNativeList, fromNativeList]
  | x :: xs => by
    simp only [toNativeList, fromNativeList, toNative_fromNative x, toNativeList_fromNativeList xs]
theorem toNativeFields_fromNativeFields :
    ∀ kvs : List (Str × NVal), toNativeFields (fromNativeFields kvs) = kvs
  | [] => by simp only [toNativeFields, fromNativeFields]
  | (k, x) :: kvs => by
    simp only [toNativeFields, fromNativeFields, toNative_fromNative x,
      toNativeFields_fromNativeFields kvs]
end

theorem toNative_injective {t u : JVal} (e : toNative t = toNative u) : t = u := by
  rw [← fromNative_toNative t, ← fromNative_toNative u, e]

theorem toNativeFields_keys : ∀ kvs : List (Str × JVal),
    (toNativeFields kvs).map (·.1) = kvs.map (·.1)
  | [] => by simp [toNativeFields]
  | (k, x) :: kvs => by simp [toNativeFields, toNativeFields_keys kvs]

theorem toNativeList_length : ∀ xs : List JVal, (toNativeList xs).length = xs.length
  | [] => by simp [toNativeList]
  | x :: xs => by simp [toNativeList, toNativeList_length xs]

theorem fromNativeFields_keys : ∀ kvs : List (Str × NVal),
    (fromNativeFields kvs).map (·.1) = kvs.map (·.1)
  | [] => by simp [fromNativeFields]
  | (k, x) :: kvs => by simp [fromNativeFields, fromNativeFields_keys kvs]

/-! ### the supported native trees -/

end Rf

mutual
/-- canonical native trees: ints fit Go's `int`, the keys of every map are distinct (a Go map) -/
def NVal.WF : NVal → Prop
  | .nil => True | .bool _ => True | .float _ => True | .str _ => True
  | .int i => InRange i
  | .slice xs => WFNList xs
  | .dict kvs => (kvs.map (·.1)).Nodup ∧ WFNFields kvs
def WFNList : List NVal → Prop
  | [] => True
  | x :: xs => x.WF ∧ WFNList xs
def WFNFields : List (Str × NVal) → Prop
  | [] => True
  | (_, x) :: kvs => x.WF ∧ WFNFields kvs
end

namespace Rf

theorem wrap64_of_inRange {a : Int} (h : InRange a) : wrap64 a = a := by
  unfold InRange at h; unfold wrap64; simp only []; omega

theorem nfieldsToGo_keys : ∀ kvs : List (Str × NVal), (nfieldsToGo kvs).map (·.1) = kvs.map (·.1)
  | [] => by simp [nfieldsToGo]
  | (k, x) :: kvs => by simp [nfieldsToGo, nfieldsToGo_keys kvs]

/-! ### `setKV` of a new key appends -/

theorem setKV_new {α : Type} (kvs : List (Str × α)) (k : Str) (v : α) (hk : k ∉ kvs.map (·.1)) :
    setKV kvs k v = kvs ++ [(k, v)] := by
  induction kvs with
  | nil => simp [setKV]
  | cons kv kvs ih =>
    obtain ⟨k', v'⟩ := kv
    simp only [List.map_cons, List.mem_cons, not_or] at hk
    have hne : (k' == k) = false := by
      simp only [beq_eq_false_iff_ne, ne_eq]; exact fun e => hk.1 e.symm
    simp only [setKV, hne, Bool.false_eq_true, if_false, List.cons_append, ih hk.2]

/-! ### `lookup` through a value map (for `Dict()`) -/

theorem lookup_map_snd {α β : Type} (f : α → β) (kvs : List (Str × α)) (k : Str) :
    lookup (kvs.map (fun kv => (kv.1, f kv.2))) k = (lookup kvs k).map f := by
  induction kvs with
  | nil => simp [lookup]
  | cons kv kvs ih =>
    obtain ⟨k', v⟩ := kv
    simp only [List.map_cons, lookup]
    split <;> simp [ih]

/-! ### `parseVal` of a native tree -/

mutual
/-- `parseVal h n.toGo` succeeds, only appends cells (at least `depth` of them), and the value it
returns denotes `fromNative n` through the new cells alone -/
theorem parseVal_native : ∀ (n : NVal), n.WF → ∀ (h : Heap),
    ∃ h' v, parseVal h n.toGo = (h', .ok v) ∧ Ext0 h h' ∧
      h.length + depth (fromNative n) ≤ h'.length ∧
      Denotes h.length h'.length h' v (fromNative n)
  | .nil, _, h => ⟨h, .nil, by simp only [NVal.toGo, parseVal], Ext0.refl h,
      by simp [fromNative, depth], Denotes.scalar _ _ _ (by simp) (by simp only [reify, fromNative])⟩
  | .bool b, _, h => ⟨h, .bool b, by simp only [NVal.toGo, parseVal], Ext0.refl h,
      by simp [fromNative, depth], Denotes.scalar _ _ _ (by simp) (by simp only [reify, fromNative])⟩
  | .float f, _, h => ⟨h, .float f, by simp only [NVal.toGo, parseVal], Ext0.refl h,
      by simp [fromNative, depth], Denotes.scalar _ _ _ (by simp) (by simp only [reify, fromNative])⟩
  | .str s, _, h => ⟨h, .str s, by simp only [NVal.toGo, parseVal], Ext0.refl h,
      by simp [fromNative, depth], Denotes.scalar _ _ _ (by simp) (by simp only [reify, fromNative])⟩
  | .int i, wf, h => by
    simp only [NVal.WF] at wf
    exact ⟨h, .int i, by simp only [NVal.toGo, parseVal, wrap64_of_inRange wf], Ext0.refl h,
      by simp [fromNative, depth], Denotes.scalar _ _ _ (by simp) (by simp only [reify, fromNative])⟩
  | .slice xs, wf, h => by
    simp only [NVal.WF] at wf
    have hl0 : h.length < (h ++ [Cell.list [] 0]).length := by simp
    obtain ⟨H', vs, hq, e, hi, hd, ds⟩ :=
      addEach_native xs wf (h ++ [.list [] 0]) h.length hl0 (by simp)
    have hlen := e.len
    simp only [List.length_append, List.length_singleton] at hlen hd
    refine ⟨H', .list ⟨h.length, 0⟩, by simp only [NVal.toGo, parseVal, hq],
      (Ext0.append h _).trans_ext e (Nat.le_refl _), by simp only [fromNative, depth]; omega, ?_⟩
    have hL : H'.isList h.length = true := by rw [e.isList hl0]; simp
    have hcell : H'[h.length]? = some (.list vs 0) := by
      rw [getElem?_of_isList hL, hi, e.ego hl0]; simp
    simp only [fromNative]
    exact Denotes.list (r := ⟨h.length, 0⟩) hcell (Nat.le_refl _) (by simp only; omega)
      (ds.mono (AgreeOn.refl _ _ _) (by simp) (Nat.le_refl _))
  | .dict kvs, wf, h => by
    simp only [NVal.WF] at wf
    have hl0 : h.length < (h ++ [Cell.obj [] 0]).length := by simp
    obtain ⟨H', fs, hq, e, hi, hd, ds⟩ :=
      setEach_native kvs wf.2 (h ++ [.obj [] 0]) h.length hl0 (by simp) wf.1 (by simp)
    have hlen := e.len
    simp only [List.length_append, List.length_singleton] at hlen hd
    refine ⟨H', .obj ⟨h.length, 0⟩, by simp only [NVal.toGo, parseVal, hq],
      (Ext0.append h _).trans_ext e (Nat.le_refl _), by simp only [fromNative, depth]; omega, ?_⟩
    have hL : H'.isObj h.length = true := by rw [e.isObj hl0]; simp
    have hcell : H'[h.length]? = some (.obj fs 0) := by
      rw [getElem?_of_isObj hL, hi, e.ego hl0]; simp
    simp only [fromNative]
    exact Denotes.obj (r := ⟨h.length, 0⟩) hcell (Nat.le_refl _) (by simp only; omega)
      (ds.mono (AgreeOn.refl _ _ _) (by simp) (Nat.le_refl _))
/-- `Add(values...)` of native trees to an existing list cell `a`: the converted values are
appended in order; only cell `a` changes; each appended value denotes its tree via new cells -/
theorem addEach_native : ∀ (xs : List NVal), WFNList xs → ∀ (H : Heap) (a : Nat),
    a < H.length → H.isList a = true →
    ∃ H' vs, addEach H a (nvalsToGo xs) = (H', .ok ()) ∧ Ext H H' a ∧
      H'.items a = H.items a ++ vs ∧
      H.length + depthList (fromNativeList xs) ≤ H'.length ∧
      DenotesList H.length H'.length H' vs (fromNativeList xs)
  | [], _, H, a, _, _ => ⟨H, [], by simp only [nvalsToGo, addEach], Ext.refl H a, by simp,
      by simp [fromNativeList, depthList], DenotesList.nil _ _ _⟩
  | x :: xs, wf, H, a, ha, hl => by
    simp only [WFNList] at wf
    obtain ⟨H1, v, hp, e1, hd1, d1⟩ := parseVal_native x wf.1 H
    have hl1 : H1.isList a = true := by rw [e1.isList ha]; exact hl
    have ha1 : a < H1.length := Nat.lt_of_lt_of_le ha e1.len
    obtain ⟨H', vs, hq, e2, hi, hd2, d2⟩ := addEach_native xs wf.2
      (H1.setItems a (H1.items a ++ [v])) a (by simpa using ha1) (by simpa using hl1)
    have eS := Ext.setItems H1 a (H1.items a ++ [v])
    simp only [length_setItems] at hd2 d2
    have hlen2 := e2.len
    simp only [length_setItems] at hlen2
    refine ⟨H', v :: vs, by simp only [nvalsToGo, addEach, hp, hq],
      (e1.toExt a).trans (eS.trans e2), ?_, ?_, ?_⟩
    · rw [hi, items_setItems_same _ hl1, e1.items ha]; simp
    · simp only [fromNativeList, depthList]; have := e1.len; omega
    · simp only [fromNativeList]
      have ag : AgreeOn H.length H1.length H1 H' :=
        (AgreeOn.of_ext eS (Nat.le_refl _) (Or.inl ha)).trans
          (AgreeOn.of_ext e2 (by simp) (Or.inl ha)) (Nat.le_refl _) (Nat.le_refl _)
      exact DenotesList.cons (d1.mono ag (Nat.le_refl _) hlen2)
        (d2.mono (AgreeOn.refl _ _ _) e1.len (Nat.le_refl _))
/-- `Set(key, value)` for each pair of a native map with distinct keys that are not yet keys of
the object cell `a`: the converted pairs are appended in order -/
theorem setEach_native : ∀ (kvs : List (Str × NVal)), WFNFields kvs → ∀ (H : Heap) (a : Nat),
    a < H.length → H.isObj a = true → (kvs.map (·.1)).Nodup →
    (∀ k ∈ kvs.map (·.1), k ∉ (H.fields a).map (·.1)) →
    ∃ H' fs, setEach H a (nfieldsToGo kvs) = (H', .ok ()) ∧ Ext H H' a ∧
      H'.fields a = H.fields a ++ fs ∧
      H.length + depthFields (fromNativeFields kvs) ≤ H'.length ∧
      DenotesFields H.length H'.length H' fs (fromNativeFields kvs)
  | [], _, H, a, _, _, _, _ => ⟨H, [], by simp only [nfieldsToGo, setEach], Ext.refl H a, by simp,
      by simp [fromNativeFields, depthFields], DenotesFields.nil _ _ _⟩
  | (k, x) :: kvs, wf, H, a, ha, hl, hnd, hnew => by
    simp only [WFNFields] at wf
    simp only [List.map_cons, List.nodup_cons] at hnd
    obtain ⟨H1, v, hp, e1, hd1, d1⟩ := parseVal_native x wf.1 H
    have hl1 : H1.isObj a = true := by rw [e1.isObj ha]; exact hl
    have ha1 : a < H1.length := Nat.lt_of_lt_of_le ha e1.len
    have hf1 : H1.fields a = H.fields a := e1.fields ha
    have hk : k ∉ (H1.fields a).map (·.1) := by rw [hf1]; exact hnew k (by simp)
    have eS := Ext.setFields H1 a (setKV (H1.fields a) k v)
    have hfS : (H1.setFields a (setKV (H1.fields a) k v)).fields a = H.fields a ++ [(k, v)] := by
      rw [fields_setFields_same _ hl1, setKV_new _ _ _ hk, hf1]
    obtain ⟨H', fs, hq, e2, hi, hd2, d2⟩ := setEach_native kvs wf.2
      (H1.setFields a (setKV (H1.fields a) k v)) a (by simpa using ha1) (by simpa using hl1) hnd.2
      (fun k' hk' => by
        rw [hfS]
        simp only [List.map_append, List.map_cons, List.map_nil, List.mem_append,
          List.mem_singleton, not_or]
        refine ⟨hnew k' (by simp [hk']), ?_⟩
        rintro rfl; exact hnd.1 hk')
    simp only [length_setFields] at hd2 d2
    have hlen2 := e2.len
    simp only [length_setFields] at hlen2
    refine ⟨H', (k, v) :: fs, by simp only [nfieldsToGo, setEach, hp, hq],
      (e1.toExt a).trans (eS.trans e2), ?_, ?_, ?_⟩
    · rw [hi, hfS]; simp
    · simp only [fromNativeFields, depthFields]; have := e1.len; omega
    · simp only [fromNativeFields]
      have ag : AgreeOn H.length H1.length H1 H' :=
        (AgreeOn.of_ext eS (Nat.le_refl _) (Or.inl ha)).trans
          (AgreeOn.of_ext e2 (by simp) (Or.inl ha)) (Nat.le_refl _) (Nat.le_refl _)
      exact DenotesFields.cons (d1.mono ag (Nat.le_refl _) hlen2)
        (d2.mono (AgreeOn.refl _ _ _) e1.len (Nat.le_refl _))
end

end Rf
end Anytype
