/-
Lemmas for C12: how `parseVal` normalises a Go value into one of the seven stored kinds —
kinds, integer widths, float32 widening, fresh nested cells, rejection of unsupported values.
-/
import Anytype.Lemmas.HeapWF
import Anytype.Model.ObjectOps
namespace Anytype
open Heap

/-! ### kinds -/

/-- the kind a Go value is stored as (`none` = rejected at the top level) -/
def kindOfGo : GoVal → Option Kind
  | .nil => some .nil
  | .bool _ => some .bool
  | .intw _ _ => some .int
  | .f64 _ => some .float
  | .f32 _ => some .float
  | .str _ => some .string
  | .list _ => some .list
  | .obj _ => some .object
  | .slice _ _ => some .list
  | .map _ _ => some .object
  | .unsupported => none

theorem parseVal_kind (h h' : Heap) (g : GoVal) (x : Val) (hp : parseVal h g = (h', .ok x)) :
    some x.kind = kindOfGo g := by
  cases g with
  | slice fl xs =>
    rw [parseVal] at hp
    split at hp <;> cases hp
    rfl
  | map fl kvs =>
    rw [parseVal] at hp
    split at hp <;> cases hp
    rfl
  | unsupported => simp [parseVal] at hp
  | _ => simp only [parseVal, Prod.mk.injEq, Out.ok.injEq] at hp; rw [← hp.2]; rfl

/-- the six typed getters (there is none for nil) -/
def Kind.isGetter : Kind → Bool
  | .object | .list | .string | .bool | .int | .float => true
  | .nil | .undefined => false

theorem Val.kind_ne_undefined (x : Val) : x.kind ≠ .undefined := by cases x <;> simp [Val.kind]

/-! ### typed getters -/

namespace L

theorem get_stored (h : Heap) (a : Nat) (i : Int) (x : Val) (h0 : 0 ≤ i)
    (hx : (h.items a)[i.toNat]? = some x) : get h a i = .ok (h.getVal x) := by
  obtain ⟨hn, e⟩ := List.getElem?_eq_some_iff.1 hx
  rw [get_in h a i h0 hn, e]

theorem typeOf_stored (h : Heap) (a : Nat) (i : Int) (x : Val) (h0 : 0 ≤ i)
    (hx : (h.items a)[i.toNat]? = some x) : typeOf h a i = x.kind := by
  obtain ⟨hn, e⟩ := List.getElem?_eq_some_iff.1 hx
  rw [typeOf_in h a i h0 hn, e]

theorem getK_stored (h : Heap) (a : Nat) (k : Kind) (i : Int) (x : Val) (h0 : 0 ≤ i)
    (hx : (h.items a)[i.toNat]? = some x) :
    getK h a k i = if k = x.kind then .ok (h.getVal x) else .panic .notKind := by
  unfold getK
  rw [get_stored h a i x h0 hx]
  simp only [getVal_kind, beq_iff_eq]
  by_cases hk : k = x.kind
  · simp [hk]
  · have : ¬ x.kind = k := fun e => hk e.symm
    simp [hk, this]

end L

namespace O

theorem get_stored (h : Heap) (a : Nat) (key : Str) (x : Val) (hx : lookup (h.fields a) key = some x) :
    get h a key = .ok (h.getVal x) := by
  simp [get, hx]

theorem typeOf_stored (h : Heap) (a : Nat) (key : Str) (x : Val) (hx : lookup (h.fields a) key = some x) :
    typeOf h a key = x.kind := by
  simp [typeOf, hx]

theorem getK_stored (h : Heap) (a : Nat) (k : Kind) (key : Str) (x : Val)
    (hx : lookup (h.fields a) key = some x) :
    getK h a k key = if k = x.kind then .ok (h.getVal x) else .panic .notKind := by
  unfold getK
  rw [get_stored h a key x hx]
  simp only [getVal_kind, beq_iff_eq]
  by_cases hk : k = x.kind
  · simp [hk]
  · have : ¬ x.kind = k := fun e => hk e.symm
    simp [hk, this]

end O

/-! ### integer widths -/

theorem wrap64_of_inRange (v : Int) (hv : InRange v) : wrap64 v = v := by
  unfold InRange at hv
  unfold wrap64
  simp only
  split <;> omega

/-- every width other than `uint` / `uint64` fits the platform `int` -/
theorem IntW.inRange_signed (w : IntW) (v : Int) (hw : w ≠ .uint ∧ w ≠ .u64) (h : w.inRange v = true) :
    InRange v := by
  unfold InRange
  cases w <;> simp [IntW.inRange] at h hw ⊢ <;> omega

/-- `int(uint64)` of a value beyond the `int` range is the two's-complement wrap -/
theorem wrap64_unsigned_big (v : Int) (h1 : (2:Int)^63 ≤ v) (h2 : v < (2:Int)^64) :
    wrap64 v = v - (2:Int)^64 := by
  unfold wrap64
  simp only
  split <;> omega

/-! ### rejection: exactly the values containing a value of an unsupported Go type panic -/

mutual
def hasUnsupported : GoVal → Bool
  | .unsupported => true
  | .slice _ xs => hasUnsupportedList xs
  | .map _ kvs => hasUnsupportedFields kvs
  | _ => false
def hasUnsupportedList : List GoVal → Bool
  | [] => false
  | g :: gs => hasUnsupported g || hasUnsupportedList gs
def hasUnsupportedFields : List (Str × GoVal) → Bool
  | [] => false
  | (_, g) :: kvs => hasUnsupported g || hasUnsupportedFields kvs
end

mutual
theorem parseVal_ok_of_supported : ∀ (h : Heap) (g : GoVal), hasUnsupported g = false →
    ∃ v, (parseVal h g).2 = .ok v
  | h, .nil, _ => by simp only [parseVal]; exact ⟨_, rfl⟩
  | h, .bool _, _ => by simp only [parseVal]; exact ⟨_, rfl⟩
  | h, .intw _ _, _ => by simp only [parseVal]; exact ⟨_, rfl⟩
  | h, .f64 _, _ => by simp only [parseVal]; exact ⟨_, rfl⟩
  | h, .f32 _, _ => by simp only [parseVal]; exact ⟨_, rfl⟩
  | h, .str _, _ => by simp only [parseVal]; exact ⟨_, rfl⟩
  | h, .list _, _ => by simp only [parseVal]; exact ⟨_, rfl⟩
  | h, .obj _, _ => by simp only [parseVal]; exact ⟨_, rfl⟩
  | h, .unsupported, hs => by simp [hasUnsupported] at hs
  | h, .slice _ xs, hs => by
    have ih := addEach_ok_of_supported (h ++ [.list [] 0]) h.length xs (by simpa [hasUnsupported] using hs)
    simp only [parseVal]
    split
    · exact ⟨_, rfl⟩
    · next h1 k hq => rw [hq] at ih; simp at ih
  | h, .map _ kvs, hs => by
    have ih := setEach_ok_of_supported (h ++ [.obj [] 0]) h.length kvs (by simpa [hasUnsupported] using hs)
    simp only [parseVal]
    split
    · exact ⟨_, rfl⟩
    · next h1 k hq => rw [hq] at ih; simp at ih
theorem addEach_ok_of_supported : ∀ (h : Heap) (a : Nat) (gs : List GoVal), hasUnsupportedList gs = false →
    (addEach h a gs).2 = .ok ()
  | h, a, [], _ => by simp only [addEach]
  | h, a, g :: gs, hs => by
    simp only [hasUnsupportedList, Bool.or_eq_false_iff] at hs
    obtain ⟨v, hv⟩ := parseVal_ok_of_supported h g hs.1
    simp only [addEach]
    split
    · next h1 k hq => rw [hq] at hv; simp at hv
    · exact addEach_ok_of_supported _ a gs hs.2
theorem setEach_ok_of_supported : ∀ (h : Heap) (a : Nat) (kvs : List (Str × GoVal)),
    hasUnsupportedFields kvs = false → (setEach h a kvs).2 = .ok ()
  | h, a, [], _ => by simp only [setEach]
  | h, a, (k, g) :: kvs, hs => by
    simp only [hasUnsupportedFields, Bool.or_eq_false_iff] at hs
    obtain ⟨v, hv⟩ := parseVal_ok_of_supported h g hs.1
    simp only [setEach]
    split
    · next h1 k hq => rw [hq] at hv; simp at hv
    · exact setEach_ok_of_supported _ a kvs hs.2
end

mutual
theorem parseVal_panic_of_unsupported : ∀ (h : Heap) (g : GoVal), hasUnsupported g = true →
    (parseVal h g).2 = .panic .unsupported
  | h, .nil, hs => by simp [hasUnsupported] at hs
  | h, .bool _, hs => by simp [hasUnsupported] at hs
  | h, .intw _ _, hs => by simp [hasUnsupported] at hs
  | h, .f64 _, hs => by simp [hasUnsupported] at hs
  | h, .f32 _, hs => by simp [hasUnsupported] at hs
  | h, .str _, hs => by simp [hasUnsupported] at hs
  | h, .list _, hs => by simp [hasUnsupported] at hs
  | h, .obj _, hs => by simp [hasUnsupported] at hs
  | h, .unsupported, _ => by simp only [parseVal]
  | h, .slice _ xs, hs => by
    have ih := addEach_panic_of_unsupported (h ++ [.list [] 0]) h.length xs (by simpa [hasUnsupported] using hs)
    simp only [parseVal]
    split
    · next h1 u hq => rw [hq] at ih; simp at ih
    · next h1 k hq => rw [hq] at ih; simpa using ih
  | h, .map _ kvs, hs => by
    have ih := setEach_panic_of_unsupported (h ++ [.obj [] 0]) h.length kvs (by simpa [hasUnsupported] using hs)
    simp only [parseVal]
    split
    · next h1 u hq => rw [hq] at ih; simp at ih
    · next h1 k hq => rw [hq] at ih; simpa using ih
theorem addEach_panic_of_unsupported : ∀ (h : Heap) (a : Nat) (gs : List GoVal), hasUnsupportedList gs = true →
    (addEach h a gs).2 = .panic .unsupported
  | h, a, [], hs => by simp [hasUnsupportedList] at hs
  | h, a, g :: gs, hs => by
    simp only [addEach]
    cases hg : hasUnsupported g
    · obtain ⟨v, hv⟩ := parseVal_ok_of_supported h g hg
      split
      · next h1 k hq => rw [hq] at hv; simp at hv
      · exact addEach_panic_of_unsupported _ a gs (by simpa [hasUnsupportedList, hg] using hs)
    · have hp := parseVal_panic_of_unsupported h g hg
      split
      · next h1 k hq => rw [hq] at hp; simpa using hp
      · next h1 v hq => rw [hq] at hp; simp at hp
theorem setEach_panic_of_unsupported : ∀ (h : Heap) (a : Nat) (kvs : List (Str × GoVal)),
    hasUnsupportedFields kvs = true → (setEach h a kvs).2 = .panic .unsupported
  | h, a, [], hs => by simp [hasUnsupportedFields] at hs
  | h, a, (k, g) :: kvs, hs => by
    simp only [setEach]
    cases hg : hasUnsupported g
    · obtain ⟨v, hv⟩ := parseVal_ok_of_supported h g hg
      split
      · next h1 k hq => rw [hq] at hv; simp at hv
      · exact setEach_panic_of_unsupported _ a kvs (by simpa [hasUnsupportedFields, hg] using hs)
    · have hp := parseVal_panic_of_unsupported h g hg
      split
      · next h1 k hq => rw [hq] at hp; simpa using hp
      · next h1 v hq => rw [hq] at hp; simp at hp
end

/-- `parseVal` panics iff the value contains a value of an unsupported Go type, and then with
`.unsupported` -/
theorem parseVal_panic_iff (h : Heap) (g : GoVal) :
    ((parseVal h g).2.isPanic = true ↔ hasUnsupported g = true) ∧
    (∀ k, (parseVal h g).2 = .panic k → k = .unsupported) := by
  cases hg : hasUnsupported g
  · obtain ⟨v, hv⟩ := parseVal_ok_of_supported h g hg
    rw [hv]; simp [Out.isPanic]
  · have hp := parseVal_panic_of_unsupported h g hg
    rw [hp]; simp [Out.isPanic]

/-! ### the single-value entry points reject such a value and leave every old cell unchanged -/

namespace L

theorem add_single_reject (h : Heap) (a : Nat) (g : GoVal) (hs : hasUnsupported g = true) :
    (add h a [g]).2 = .panic .unsupported ∧ Ext0 h (add h a [g]).1 := by
  have hp := parseVal_panic_of_unsupported h g hs
  have he := parseVal_ext0 h g
  unfold add
  rw [addEach_single]
  rcases hr : parseVal h g with ⟨h1, (v | k)⟩
  · rw [hr] at hp; simp at hp
  · rw [hr] at hp he
    simp only at hp he ⊢
    cases hp
    exact ⟨rfl, he⟩

theorem insert_reject (h : Heap) (a : Nat) (i : Int) (g : GoVal) (hs : hasUnsupported g = true) :
    (∃ k, (insert h a i g).2 = .panic k ∧ ((0 ≤ i ∧ i ≤ (h.items a).length) → k = .unsupported)) ∧
    Ext0 h (insert h a i g).1 := by
  have hp := parseVal_panic_of_unsupported h g hs
  have key : ∃ k, (insert h a i g).2 = .panic k ∧ ((0 ≤ i ∧ i ≤ (h.items a).length) → k = .unsupported) := by
    by_cases hd : 0 ≤ i ∧ i ≤ (h.items a).length
    · rcases hr : parseVal h g with ⟨h1, (v | k)⟩
      · rw [hr] at hp; simp at hp
      · rw [hr] at hp; simp only at hp; cases hp
        rw [insert_panic_of_parse h a i g hr hd.1 hd.2]
        exact ⟨_, rfl, fun _ => rfl⟩
    · rw [insert_out h a i g hd]
      exact ⟨_, rfl, fun hd' => absurd hd' hd⟩
  exact ⟨key, insert_panic_ext0 h a i g key.choose_spec.1⟩

theorem replace_reject (h : Heap) (a : Nat) (i : Int) (g : GoVal) (hs : hasUnsupported g = true) :
    (∃ k, (replace h a i g).2 = .panic k ∧ ((0 ≤ i ∧ i < (h.items a).length) → k = .unsupported)) ∧
    Ext0 h (replace h a i g).1 := by
  have hp := parseVal_panic_of_unsupported h g hs
  have key : ∃ k, (replace h a i g).2 = .panic k ∧ ((0 ≤ i ∧ i < (h.items a).length) → k = .unsupported) := by
    by_cases hd : 0 ≤ i ∧ i < (h.items a).length
    · rcases hr : parseVal h g with ⟨h1, (v | k)⟩
      · rw [hr] at hp; simp at hp
      · rw [hr] at hp; simp only at hp; cases hp
        rw [replace_panic_of_parse h a i g hr hd.1 hd.2]
        exact ⟨_, rfl, fun _ => rfl⟩
    · rw [replace_out h a i g hd]
      exact ⟨_, rfl, fun hd' => absurd hd' hd⟩
  exact ⟨key, replace_panic_ext0 h a i g key.choose_spec.1⟩

theorem newOf_reject (h : Heap) (g : GoVal) (c : Int) (hs : hasUnsupported g = true) :
    (∃ k, (newOf h g c).2 = .panic k ∧ (0 ≤ c → k = .unsupported)) ∧ Ext0 h (newOf h g c).1 := by
  refine ⟨?_, newOf_ext0 h g c⟩
  have hp := parseVal_panic_of_unsupported (h ++ [.list [] 0]) g hs
  unfold newOf
  split
  · next hc => exact ⟨_, rfl, fun h0 => by omega⟩
  · simp only
    split
    · next h1 k hq => rw [hq] at hp; simp only at hp; cases hp; exact ⟨_, rfl, fun _ => rfl⟩
    · next h1 v hq => rw [hq] at hp; simp at hp

end L

namespace O

theorem set_single_reject (h : Heap) (a : Nat) (key : Str) (g : GoVal) (hs : hasUnsupported g = true) :
    (set h a [(some key, g)] false).2 = .panic .unsupported ∧ Ext0 h (set h a [(some key, g)] false).1 := by
  have hp := parseVal_panic_of_unsupported h g hs
  have he := parseVal_ext0 h g
  simp only [set, Bool.false_eq_true, if_false, setLoop]
  rcases hr : parseVal h g with ⟨h1, (v | k)⟩
  · rw [hr] at hp; simp at hp
  · rw [hr] at hp he
    simp only at hp he ⊢
    cases hp
    exact ⟨rfl, he⟩

end O


/-! ### nested maps and slices become fresh cells with recursively normalised content -/

/-- `m[k] = v` for each pair, in order, starting from `pre` -/
def setAll (pre ps : List (Str × Val)) : List (Str × Val) :=
  ps.foldl (fun acc p => setKV acc p.1 p.2) pre

theorem setAll_cons (pre : List (Str × Val)) (k : Str) (v : Val) (ps : List (Str × Val)) :
    setAll pre ((k, v) :: ps) = setAll (setKV pre k v) ps := rfl

theorem setKV_fresh (pre : List (Str × Val)) (k : Str) (v : Val) (hk : k ∉ pre.map Prod.fst) :
    setKV pre k v = pre ++ [(k, v)] := by
  induction pre with
  | nil => rfl
  | cons p pre ih =>
    obtain ⟨k', v'⟩ := p
    simp only [List.map_cons, List.mem_cons, not_or] at hk
    have : (k' == k) = false := by simp; exact fun e => hk.1 e.symm
    simp [setKV, this, ih hk.2]

/-- a Go map has distinct keys: then the fields are the pairs themselves, in iteration order -/
theorem setAll_nodup (pre ps : List (Str × Val)) (hn : ((pre ++ ps).map Prod.fst).Nodup) :
    setAll pre ps = pre ++ ps := by
  induction ps generalizing pre with
  | nil => simp [setAll]
  | cons p ps ih =>
    obtain ⟨k, v⟩ := p
    have hk : k ∉ pre.map Prod.fst := by
      simp only [List.map_append, List.map_cons] at hn
      have := (List.nodup_append.mp hn).2.2
      intro hm; exact this k hm k (by simp) rfl
    rw [setAll_cons, setKV_fresh pre k v hk, ih _ (by simpa using hn)]
    simp

mutual
/-- `Stored h lo g v`: in heap `h` the value `v` is the normal form of the Go value `g`, every cell
created for a nested map / slice has an address `≥ lo`, is of the right kind with ego level 0 (a
plain `*list` / `*object`), and holds the normal forms of the elements, in order -/
def Stored (h : Heap) (lo : Nat) : GoVal → Val → Prop
  | .nil, v => v = .nil
  | .bool b, v => v = .bool b
  | .intw _ i, v => v = .int (wrap64 i)
  | .f64 f, v => v = .float f
  | .f32 b, v => v = .float (f32to64 b)
  | .str s, v => v = .str s
  | .list r, v => v = .list r
  | .obj r, v => v = .obj r
  | .slice _ xs, v => ∃ b, v = .list ⟨b, 0⟩ ∧ lo ≤ b ∧ h.isList b = true ∧ h.ego b = 0 ∧
      StoredList h lo xs (h.items b)
  | .map _ kvs, v => ∃ b ps, v = .obj ⟨b, 0⟩ ∧ lo ≤ b ∧ h.isObj b = true ∧ h.ego b = 0 ∧
      StoredFields h lo kvs ps ∧ h.fields b = setAll [] ps
  | .unsupported, _ => False
def StoredList (h : Heap) (lo : Nat) : List GoVal → List Val → Prop
  | [], vs => vs = []
  | g :: gs, vs => ∃ v vs', vs = v :: vs' ∧ Stored h lo g v ∧ StoredList h lo gs vs'
def StoredFields (h : Heap) (lo : Nat) : List (Str × GoVal) → List (Str × Val) → Prop
  | [], ps => ps = []
  | (k, g) :: kvs, ps => ∃ v ps', ps = (k, v) :: ps' ∧ Stored h lo g v ∧ StoredFields h lo kvs ps'
end

mutual
/-- `Stored` only looks at cells `≥ lo`: it survives every heap change that leaves those cells alone,
and lowering the bound -/
theorem Stored.weaken {h h' : Heap} {lo lo' : Nat} (hle : lo' ≤ lo)
    (hh : ∀ b, lo ≤ b → b < h.length → h'[b]? = h[b]?) :
    ∀ (g : GoVal) (v : Val), Stored h lo g v → Stored h' lo' g v
  | .nil, v, hs => by simpa only [Stored] using hs
  | .bool _, v, hs => by simpa only [Stored] using hs
  | .intw _ _, v, hs => by simpa only [Stored] using hs
  | .f64 _, v, hs => by simpa only [Stored] using hs
  | .f32 _, v, hs => by simpa only [Stored] using hs
  | .str _, v, hs => by simpa only [Stored] using hs
  | .list _, v, hs => by simpa only [Stored] using hs
  | .obj _, v, hs => by simpa only [Stored] using hs
  | .unsupported, v, hs => by simp only [Stored] at hs
  | .slice _ xs, v, hs => by
    simp only [Stored] at hs ⊢
    obtain ⟨b, hv, hlo, hl, he, hx⟩ := hs
    have e := hh b hlo (isList_lt hl)
    refine ⟨b, hv, by omega, by rw [isList_congr e]; exact hl, by rw [ego_congr e]; exact he, ?_⟩
    rw [items_congr e]
    exact StoredList.weaken hle hh xs _ hx
  | .map _ kvs, v, hs => by
    simp only [Stored] at hs ⊢
    obtain ⟨b, ps, hv, hlo, hl, he, hx, hf⟩ := hs
    have e := hh b hlo (isObj_lt hl)
    exact ⟨b, ps, hv, by omega, by rw [isObj_congr e]; exact hl, by rw [ego_congr e]; exact he,
      StoredFields.weaken hle hh kvs _ hx, by rw [fields_congr e]; exact hf⟩
theorem StoredList.weaken {h h' : Heap} {lo lo' : Nat} (hle : lo' ≤ lo)
    (hh : ∀ b, lo ≤ b → b < h.length → h'[b]? = h[b]?) :
    ∀ (gs : List GoVal) (vs : List Val), StoredList h lo gs vs → StoredList h' lo' gs vs
  | [], vs, hs => by simpa only [StoredList] using hs
  | g :: gs, vs, hs => by
    simp only [StoredList] at hs ⊢
    obtain ⟨v, vs', e, h1, h2⟩ := hs
    exact ⟨v, vs', e, Stored.weaken hle hh g v h1, StoredList.weaken hle hh gs vs' h2⟩
theorem StoredFields.weaken {h h' : Heap} {lo lo' : Nat} (hle : lo' ≤ lo)
    (hh : ∀ b, lo ≤ b → b < h.length → h'[b]? = h[b]?) :
    ∀ (kvs : List (Str × GoVal)) (ps : List (Str × Val)), StoredFields h lo kvs ps → StoredFields h' lo' kvs ps
  | [], ps, hs => by simpa only [StoredFields] using hs
  | (k, g) :: kvs, ps, hs => by
    simp only [StoredFields] at hs ⊢
    obtain ⟨v, ps', e, h1, h2⟩ := hs
    exact ⟨v, ps', e, Stored.weaken hle hh g v h1, StoredFields.weaken hle hh kvs ps' h2⟩
end

mutual
theorem parseVal_stored : ∀ (h : Heap) (g : GoVal) (h' : Heap) (v : Val),
    parseVal h g = (h', .ok v) → Stored h' h.length g v
  | h, .nil, h', v, hp => by simp only [parseVal, Prod.mk.injEq, Out.ok.injEq] at hp; simp only [Stored, hp.2]
  | h, .bool _, h', v, hp => by simp only [parseVal, Prod.mk.injEq, Out.ok.injEq] at hp; simp only [Stored, hp.2]
  | h, .intw _ _, h', v, hp => by simp only [parseVal, Prod.mk.injEq, Out.ok.injEq] at hp; simp only [Stored, hp.2]
  | h, .f64 _, h', v, hp => by simp only [parseVal, Prod.mk.injEq, Out.ok.injEq] at hp; simp only [Stored, hp.2]
  | h, .f32 _, h', v, hp => by simp only [parseVal, Prod.mk.injEq, Out.ok.injEq] at hp; simp only [Stored, hp.2]
  | h, .str _, h', v, hp => by simp only [parseVal, Prod.mk.injEq, Out.ok.injEq] at hp; simp only [Stored, hp.2]
  | h, .list _, h', v, hp => by simp only [parseVal, Prod.mk.injEq, Out.ok.injEq] at hp; simp only [Stored, hp.2]
  | h, .obj _, h', v, hp => by simp only [parseVal, Prod.mk.injEq, Out.ok.injEq] at hp; simp only [Stored, hp.2]
  | h, .unsupported, h', v, hp => by simp [parseVal] at hp
  | h, .slice _ xs, h', v, hp => by
    rw [parseVal] at hp
    split at hp
    · next h1 u hq =>
      cases hp
      obtain ⟨vs, hvs, hst⟩ := addEach_stored (h ++ [.list [] 0]) h.length xs h' u (by simp) hq
      have e := addEach_ext (h ++ [.list [] 0]) h.length xs
      rw [hq] at e
      have hlt : h.length < (h ++ [Cell.list [] 0]).length := by simp
      have i1 := e.isList hlt
      have i2 := e.ego hlt
      rw [isList_append_new] at i1
      rw [ego_append_new_list] at i2
      simp only [Stored]
      refine ⟨h.length, rfl, Nat.le_refl _, i1, i2, ?_⟩
      rw [hvs, items_append_new, List.nil_append]
      exact StoredList.weaken (by simp) (fun _ _ _ => rfl) xs vs hst
    · cases hp
  | h, .map _ kvs, h', v, hp => by
    rw [parseVal] at hp
    split at hp
    · next h1 u hq =>
      cases hp
      obtain ⟨ps, hps, hst⟩ := setEach_stored (h ++ [.obj [] 0]) h.length kvs h' u (by simp) hq
      have e := setEach_ext (h ++ [.obj [] 0]) h.length kvs
      rw [hq] at e
      have hlt : h.length < (h ++ [Cell.obj [] 0]).length := by simp
      have i1 := e.isObj hlt
      have i2 := e.ego hlt
      rw [isObj_append_new] at i1
      rw [ego_append_new_obj] at i2
      simp only [Stored]
      refine ⟨h.length, ps, rfl, Nat.le_refl _, i1, i2, ?_, ?_⟩
      · exact StoredFields.weaken (by simp) (fun _ _ _ => rfl) kvs ps hst
      · rw [hps, fields_append_new]
    · cases hp
theorem addEach_stored : ∀ (h : Heap) (a : Nat) (gs : List GoVal) (h' : Heap) (u : Unit),
    h.isList a = true → addEach h a gs = (h', .ok u) →
    ∃ vs, h'.items a = h.items a ++ vs ∧ StoredList h' h.length gs vs
  | h, a, [], h', u, _, hp => by
    simp only [addEach, Prod.mk.injEq] at hp
    exact ⟨[], by rw [← hp.1]; simp, by simp only [StoredList]⟩
  | h, a, g :: gs, h', u, hl, hp => by
    simp only [addEach] at hp
    split at hp
    · cases hp
    · next h1 v hq =>
      have e0 := parseVal_ext0 h g
      rw [hq] at e0
      have hlt : a < h.length := isList_lt hl
      have hl1 : h1.isList a = true := by rw [e0.isList hlt]; exact hl
      have hi1 : h1.items a = h.items a := e0.items hlt
      have hl2 : (h1.setItems a (h1.items a ++ [v])).isList a = true := by simp [hl1]
      obtain ⟨vs, hvs, hst⟩ := addEach_stored _ a gs h' u hl2 hp
      have e2 := addEach_ext (h1.setItems a (h1.items a ++ [v])) a gs
      rw [hp] at e2
      have s1 := parseVal_stored h g h1 v hq
      refine ⟨v :: vs, by rw [hvs, items_setItems_same _ hl1, hi1]; simp, ?_⟩
      simp only [StoredList]
      refine ⟨v, vs, rfl, ?_, ?_⟩
      · refine Stored.weaken (Nat.le_refl _) (fun b hb1 hb2 => ?_) g v s1
        have hne : b ≠ a := by omega
        rw [e2.other b (by simpa using hb2) hne, getElem?_setItems_ne _ _ hne]
      · exact StoredList.weaken (by simpa using e0.len) (fun _ _ _ => rfl) gs vs hst
theorem setEach_stored : ∀ (h : Heap) (a : Nat) (kvs : List (Str × GoVal)) (h' : Heap) (u : Unit),
    h.isObj a = true → setEach h a kvs = (h', .ok u) →
    ∃ ps, h'.fields a = setAll (h.fields a) ps ∧ StoredFields h' h.length kvs ps
  | h, a, [], h', u, _, hp => by
    simp only [setEach, Prod.mk.injEq] at hp
    exact ⟨[], by rw [← hp.1]; rfl, by simp only [StoredFields]⟩
  | h, a, (k, g) :: kvs, h', u, hl, hp => by
    simp only [setEach] at hp
    split at hp
    · cases hp
    · next h1 v hq =>
      have e0 := parseVal_ext0 h g
      rw [hq] at e0
      have hlt : a < h.length := isObj_lt hl
      have hl1 : h1.isObj a = true := by rw [e0.isObj hlt]; exact hl
      have hi1 : h1.fields a = h.fields a := e0.fields hlt
      have hl2 : (h1.setFields a (setKV (h1.fields a) k v)).isObj a = true := by simp [hl1]
      obtain ⟨ps, hps, hst⟩ := setEach_stored _ a kvs h' u hl2 hp
      have e2 := setEach_ext (h1.setFields a (setKV (h1.fields a) k v)) a kvs
      rw [hp] at e2
      have s1 := parseVal_stored h g h1 v hq
      refine ⟨(k, v) :: ps, by rw [hps, fields_setFields_same _ hl1, hi1, setAll_cons], ?_⟩
      simp only [StoredFields]
      refine ⟨v, ps, rfl, ?_, ?_⟩
      · refine Stored.weaken (Nat.le_refl _) (fun b hb1 hb2 => ?_) g v s1
        have hne : b ≠ a := by omega
        rw [e2.other b (by simpa using hb2) hne, getElem?_setFields_ne _ _ hne]
      · exact StoredFields.weaken (by simpa using e0.len) (fun _ _ _ => rfl) kvs ps hst
end

end Anytype
