/-
The shape of a text that the strict `number` reader accepts completely: alphabet, and the fact
that a text read as a float is not a Go integer literal.
-/
import Anytype.Lemmas.Strict
namespace Anytype
namespace Strict

/-! ### what `number` consumes -/

theorem signSplit_spec (s : Str) :
    s = (if (signSplit s).1 then ['-'] else []) ++ (signSplit s).2 := by
  unfold signSplit
  split <;> simp

theorem takeDigits_spec (s : Str) :
    s = (takeDigits s).1 ++ (takeDigits s).2 ∧ ∀ c ∈ (takeDigits s).1, F64.isDigit c = true := by
  induction s with
  | nil => simp [takeDigits]
  | cons c s ih =>
    simp only [takeDigits]
    split
    · rename_i h
      refine ⟨by simp; exact ih.1, ?_⟩
      intro d hd
      rcases List.mem_cons.mp hd with rfl | h'
      · exact h
      · exact ih.2 d h'
    · simp

theorem fracSplit_spec (s : Str) :
    s = (if (fracSplit s).2.2 then '.' :: (fracSplit s).1 else []) ++ (fracSplit s).2.1 ∧
      (∀ c ∈ (fracSplit s).1, F64.isDigit c = true) ∧
      ((fracSplit s).2.2 = false → (fracSplit s).1 = []) := by
  unfold fracSplit
  split
  · rename_i t
    have := takeDigits_spec t
    simp only [if_true, List.cons_append]
    exact ⟨by rw [← this.1], this.2, by simp⟩
  · simp

theorem expSign_spec (t : Str) :
    ∃ sg : Str, t = sg ++ (expSign t).2 ∧ ∀ c ∈ sg, c = '+' ∨ c = '-' := by
  unfold expSign
  split
  · exact ⟨['+'], rfl, by simp⟩
  · exact ⟨['-'], rfl, by simp⟩
  · exact ⟨[], rfl, by simp⟩

theorem expSplit_spec (s : Str) (ex : Option Int) (rest : Str) (h : expSplit s = some (ex, rest)) :
    ∃ et : Str, s = et ++ rest ∧ (∀ c ∈ et, isNumChar c = true) ∧ (ex = none → et = []) ∧
      (ex.isSome = true → ∃ c t, et = c :: t ∧ (c = 'e' ∨ c = 'E')) := by
  cases s with
  | nil =>
    simp [expSplit] at h
    exact ⟨[], by simp [h.2], by simp, by simp, by simp [← h.1]⟩
  | cons c t =>
    by_cases hc : (c == 'e' || c == 'E') = true
    · rw [expSplit_eq _ _ hc] at h
      simp only [] at h
      split at h
      · cases h
      · simp only [Option.some.injEq, Prod.mk.injEq] at h
        obtain ⟨sg, hsg, hsg'⟩ := expSign_spec t
        have hd := takeDigits_spec (expSign t).2
        refine ⟨c :: sg ++ (takeDigits (expSign t).2).1, ?_, ?_, ?_, ?_⟩
        · rw [← h.2]; simp only [List.cons_append, List.append_assoc]; rw [← hd.1, ← hsg]
        · intro d hd'
          simp only [List.cons_append, List.mem_cons, List.mem_append] at hd'
          rcases hd' with rfl | h1 | h1
          · simp [isNumChar] at hc ⊢; rcases hc with rfl | rfl <;> simp
          · rcases hsg' d h1 with rfl | rfl <;> decide
          · simp [isNumChar, hd.2 d h1]
        · intro e; rw [e] at h; cases h.1
        · intro _; exact ⟨c, _, rfl, by simpa using hc⟩
    · simp [expSplit, hc] at h
      exact ⟨[], by simp [h.2], by simp, by simp, by simp [← h.1]⟩

theorem numFinal_not_int (neg : Bool) (ip fp : Str) (hasFrac : Bool) (ex : Option Int) (rest r : Str)
    (h : hasFrac = true ∨ ex.isSome = true) (i : Int) :
    numFinal neg ip fp hasFrac ex rest ≠ some (some (.int i), r) := by
  have : (!hasFrac && ex.isNone) = false := by
    rcases h with h | h
    · simp [h]
    · cases ex <;> simp at h ⊢
  unfold numFinal
  simp only [this]
  simp only [Bool.false_eq_true, if_false]
  repeat' split
  all_goals simp

/-- shape of a text that `number` accepts completely -/
theorem number'_parts (s : Str) (v : Option JVal) (h : number' s = some (v, [])) :
    ∃ (neg : Bool) (d0 : Char) (more tail : Str),
      s = (if neg then ['-'] else []) ++ (d0 :: more) ++ tail ∧
      (∀ c ∈ d0 :: more, F64.isDigit c = true) ∧ (d0 = '0' → more = []) ∧
      (∀ c ∈ tail, isNumChar c = true) ∧
      ((tail = [] ∧ numFinal neg (d0 :: more) [] false none [] = some (v, [])) ∨
       (∃ c t, tail = c :: t ∧ (c = '.' ∨ c = 'e' ∨ c = 'E') ∧ ∀ i, v ≠ some (.int i))) := by
  unfold number' at h
  simp only [] at h
  have h1 := signSplit_spec s
  have h2 := takeDigits_spec (signSplit s).2
  have h3 := fracSplit_spec (takeDigits (signSplit s).2).2
  generalize signSplit s = p at *
  generalize takeDigits p.2 = q at *
  generalize fracSplit q.2 = fr at *
  obtain ⟨neg, s1⟩ := p
  obtain ⟨ip, s2⟩ := q
  obtain ⟨fp, s3, hasFrac⟩ := fr
  simp only [] at h h1 h2 h3
  cases ip with
  | nil => simp at h
  | cons d0 more =>
    simp only [] at h
    split at h
    · cases h
    · rename_i hz
      split at h
      · cases h
      · rename_i hfe
        split at h
        · cases h
        · rename_i ex rest hex
          obtain ⟨et, he1, he2, he3, he4⟩ := expSplit_spec _ _ _ hex
          have hrest : rest = [] := by
            have := numFinal_append neg (d0 :: more) fp hasFrac ex [] rest
            simp only [List.nil_append] at this
            rw [this] at h
            cases hn : numFinal neg (d0 :: more) fp hasFrac ex [] with
            | none => rw [hn] at h; cases h
            | some pr =>
              rw [hn] at h
              simp only [Option.map_some, app, Option.some.injEq, Prod.mk.injEq] at h
              have := h.2
              simpa using (List.append_eq_nil_iff.mp this).2
          subst hrest
          refine ⟨neg, d0, more, (if hasFrac then '.' :: fp else []) ++ et, ?_, h2.2, ?_, ?_, ?_⟩
          · rw [h1, h2.1, h3.1, he1]; simp
          · intro e; subst e
            simp at hz
            simpa using hz
          · intro c hc
            rcases List.mem_append.mp hc with hc | hc
            · cases hasFrac with
              | false => simp at hc
              | true =>
                simp only [if_true] at hc
                rcases List.mem_cons.mp hc with rfl | hc
                · decide
                · simp [isNumChar, h3.2.1 c hc]
            · exact he2 c hc
          · cases hasFrac with
            | true =>
              right
              exact ⟨'.', fp ++ et, by simp, Or.inl rfl,
                fun i e => numFinal_not_int neg _ fp true ex [] [] (Or.inl rfl) i (by rw [h, e])⟩
            | false =>
              cases ex with
              | none =>
                left
                have : et = [] := he3 rfl
                subst this
                have hfp : fp = [] := h3.2.2 rfl
                subst hfp
                exact ⟨by simp, h⟩
              | some e =>
                right
                obtain ⟨c, t, hct, hc⟩ := he4 rfl
                refine ⟨c, t, by simp [hct], Or.inr hc, ?_⟩
                exact fun i e' => numFinal_not_int neg _ fp false (some e) [] [] (Or.inr rfl) i (by rw [h, e'])

theorem isDigit_toNat {c : Char} (h : F64.isDigit c = true) : 48 ≤ c.toNat ∧ c.toNat ≤ 57 := by
  simpa [F64.isDigit, char_le_iff] using h

theorem number_chars (s : Str) (v : Option JVal) (h : number s = some (v, [])) :
    s ≠ [] ∧ ∀ c ∈ s, isNumChar c = true := by
  rw [number_eq] at h
  obtain ⟨neg, d0, more, tail, hs, hd, _, ht, _⟩ := number'_parts s v h
  subst hs
  refine ⟨by cases neg <;> simp, ?_⟩
  intro c hc
  simp only [List.mem_append] at hc
  rcases hc with (hc | hc) | hc
  · cases neg <;> simp at hc; subst hc; decide
  · simp [isNumChar, hd c hc]
  · exact ht c hc

/-! ### a JSON number that is not read as an int is not a Go integer literal either -/

theorem readDigits_digits (ds r : Str) (n : Nat) (hd : ∀ c ∈ ds, F64.isDigit c = true) :
    readDigits 10 (ds ++ r) n = readDigits 10 r (ds.foldl (fun n c => n * 10 + (c.toNat - 48)) n) := by
  induction ds generalizing n with
  | nil => rfl
  | cons c ds ih =>
    have hc := isDigit_toNat (hd c (by simp))
    have h1 : (c == '_') = false := by
      simp; apply ne_of_toNat_ne; simp; omega
    have h2 := digitVal_dig c hc
    simp only [List.cons_append, readDigits, h1, h2, List.foldl_cons]
    rw [if_neg (by simp), if_neg (by omega)]
    exact ih _ (fun d hd' => hd d (by simp [hd']))

theorem readDigits_bad (c : Char) (t : Str) (n : Nat) (base : Nat) (hb : base ≤ 10)
    (hc : c = '.' ∨ c = 'e' ∨ c = 'E') : readDigits base (c :: t) n = none := by
  have : (c == '_') = false ∧ digitVal c ≥ 10 := by rcases hc with rfl | rfl | rfl <;> decide
  simp only [readDigits, this.1]
  rw [if_neg (by simp), if_pos (by omega)]

theorem parseUintBase0_bad (d0 : Char) (more : Str) (c : Char) (t : Str)
    (hd : ∀ x ∈ d0 :: more, F64.isDigit x = true) (hz : d0 = '0' → more = [])
    (hc : c = '.' ∨ c = 'e' ∨ c = 'E') : parseUintBase0 (d0 :: more ++ c :: t) = none := by
  by_cases h0 : d0 = '0'
  · subst h0
    rw [hz rfl]
    have hl : (F64.lower c == 'b') = false ∧ (F64.lower c == 'o') = false ∧ (F64.lower c == 'x') = false := by
      rcases hc with rfl | rfl | rfl <;> decide
    simp only [List.cons_append, List.nil_append, parseUintBase0]
    split
    · rename_i c' _ _ h
      have : c' = c := by simp at h; exact h.1.symm
      subst this
      simp only [hl]
      rw [if_neg (by simp), if_neg (by simp), if_neg (by simp)]
      exact readDigits_bad c' t 0 8 (by omega) hc
    · exact readDigits_bad c t 0 8 (by omega) hc
  · have : parseUintBase0 (d0 :: more ++ c :: t) = readDigits 10 (d0 :: more ++ c :: t) 0 := by
      simp only [List.cons_append]
      unfold parseUintBase0
      split
      · contradiction
      · rename_i h1; simp at h1; exact absurd h1.1 h0
      · rfl
    rw [this, readDigits_digits _ _ _ hd]
    exact readDigits_bad c t _ 10 (by omega) hc

theorem parseIntBase0_signed (neg : Bool) (d0 : Char) (rest : Str) (hd0 : F64.isDigit d0 = true) :
    parseIntBase0 ((if neg then ['-'] else []) ++ d0 :: rest) =
      (parseUintBase0 (d0 :: rest)).bind fun n =>
        if (d0 :: rest).contains '_' && !F64.underscoreOK (d0 :: rest) then none
        else if !neg && n ≥ 2^63 then none
        else if neg && n > 2^63 then none
        else some (if neg then -(n : Int) else (n : Int)) := by
  have hc := isDigit_toNat hd0
  have c1 : d0 ≠ '+' := by apply ne_of_toNat_ne; simp; omega
  have c2 : d0 ≠ '-' := by apply ne_of_toNat_ne; simp; omega
  cases neg with
  | true =>
    unfold parseIntBase0
    simp only [if_true, List.cons_append, List.nil_append]
    cases parseUintBase0 (d0 :: rest) <;> rfl
  | false =>
    rw [if_neg (by simp), List.nil_append]
    unfold parseIntBase0
    split
    · contradiction
    · split
      rename_i ng body hm
      have : ng = false ∧ body = d0 :: rest := by
        split at hm
        · rename_i h1; simp at h1; exact absurd h1.1 c1
        · rename_i h1; simp at h1; exact absurd h1.1 c2
        · simp at hm; exact ⟨hm.1, hm.2.symm⟩
      obtain ⟨rfl, rfl⟩ := this
      cases parseUintBase0 (d0 :: rest) <;> rfl

theorem parseUintBase0_digits (d0 : Char) (more : Str)
    (hd : ∀ x ∈ d0 :: more, F64.isDigit x = true) (hz : d0 = '0' → more = []) :
    parseUintBase0 (d0 :: more) = some (digitsVal (d0 :: more)) := by
  by_cases h0 : d0 = '0'
  · subst h0; rw [hz rfl]; decide
  · have : parseUintBase0 (d0 :: more) = readDigits 10 (d0 :: more) 0 := by
      unfold parseUintBase0
      split
      · contradiction
      · rename_i h1; simp at h1; exact absurd h1.1 h0
      · rfl
    rw [this]
    have := readDigits_digits (d0 :: more) [] 0 hd
    rw [List.append_nil] at this
    rw [this]; rfl

theorem contains_us_digits (ds : Str) (hd : ∀ x ∈ ds, F64.isDigit x = true) : ds.contains '_' = false := by
  simp only [List.contains_eq_mem, decide_eq_false_iff_not]
  intro h
  have := hd _ h
  revert this; decide

/-- a complete JSON number that the strict reader takes for a float is rejected by
`strconv.ParseInt(s, 0, 64)` -/
theorem parseIntBase0_of_number_float (s : Str) (x : F64)
    (h : number s = some (some (.float x), [])) : parseIntBase0 s = none := by
  rw [number_eq] at h
  obtain ⟨neg, d0, more, tail, hs, hd, hz, _, hcase⟩ := number'_parts s _ h
  subst hs
  rw [List.append_assoc, List.cons_append]
  rw [parseIntBase0_signed neg d0 (more ++ tail) (hd d0 (by simp))]
  rcases hcase with ⟨ht, hn⟩ | ⟨c, t, ht, hc, _⟩
  · subst ht
    rw [List.append_nil, parseUintBase0_digits d0 more hd hz]
    simp only [Option.bind_some, contains_us_digits _ hd, Bool.false_and, Bool.false_eq_true, if_false]
    unfold numFinal at hn
    simp only [List.append_nil, Bool.not_false, Option.isNone_none, Bool.and_self, if_true] at hn
    generalize digitsVal (d0 :: more) = m at hn ⊢
    cases neg with
    | false =>
      simp only [Bool.false_eq_true, if_false] at hn
      split at hn
      · cases hn
      · rename_i hr
        simp at hr ⊢
        omega
    | true =>
      simp only [if_true] at hn
      split at hn
      · cases hn
      · rename_i hr
        simp at hr ⊢
        omega
  · subst ht
    have := parseUintBase0_bad d0 more c t hd hz hc
    rw [List.cons_append] at this
    rw [this]; rfl

end Strict
end Anytype
