/-
Heap-cell lemmas for the Object operations: `setFields`, allocation, scalar arguments of `Set`,
frame / invariant preservation of `parseVal`.
-/
import Anytype.Lemmas.Assoc
namespace Anytype
namespace OH

/-! ### cell accessors depend only on the cell -/

theorem fields_congr {h h' : Heap} {a b : Nat} (e : h'[b]? = h[a]?) : h'.fields b = h.fields a := by
  unfold Heap.fields; rw [e]
theorem ego_congr {h h' : Heap} {a b : Nat} (e : h'[b]? = h[a]?) : h'.ego b = h.ego a := by
  unfold Heap.ego; rw [e]
theorem isObj_congr {h h' : Heap} {a b : Nat} (e : h'[b]? = h[a]?) : h'.isObj b = h.isObj a := by
  unfold Heap.isObj; rw [e]

theorem isObj_iff {h : Heap} {a : Nat} : h.isObj a = true ↔ ∃ fs e, h[a]? = some (.obj fs e) := by
  unfold Heap.isObj
  split
  · rename_i fs e he; simp [he]
  · rename_i hne
    simp only [Bool.false_eq_true, false_iff]
    rintro ⟨fs, e, he⟩; exact hne fs e he

theorem lt_of_isObj {h : Heap} {a : Nat} (ho : h.isObj a = true) : a < h.length := by
  obtain ⟨fs, e, he⟩ := isObj_iff.1 ho
  exact (List.getElem?_eq_some_iff.1 he).1

theorem fields_of_cell {h : Heap} {a : Nat} {fs e} (he : h[a]? = some (.obj fs e)) : h.fields a = fs := by
  unfold Heap.fields; rw [he]
theorem ego_of_cell {h : Heap} {a : Nat} {fs e} (he : h[a]? = some (.obj fs e)) : h.ego a = e := by
  unfold Heap.ego; rw [he]

theorem fields_of_not_isObj {h : Heap} {a : Nat} (ho : h.isObj a = false) : h.fields a = [] := by
  unfold Heap.isObj at ho; unfold Heap.fields
  split
  · rename_i he; simp [he] at ho
  · rfl

/-! ### setFields -/

theorem length_setFields (h : Heap) (a : Nat) (fs) : (h.setFields a fs).length = h.length := by
  unfold Heap.setFields; split <;> simp

theorem getElem?_setFields_ne (h : Heap) (a : Nat) (fs) {b : Nat} (hb : b ≠ a) :
    (h.setFields a fs)[b]? = h[b]? := by
  unfold Heap.setFields
  split
  · exact List.getElem?_set_ne (fun e => hb e.symm)
  · rfl

theorem getElem?_setFields_self {h : Heap} {a : Nat} {fs₀ e} (he : h[a]? = some (.obj fs₀ e)) (fs) :
    (h.setFields a fs)[a]? = some (.obj fs e) := by
  unfold Heap.setFields
  rw [he]
  exact List.getElem?_set_self (List.getElem?_eq_some_iff.1 he).1

theorem setFields_of_not_isObj {h : Heap} {a : Nat} (ho : h.isObj a = false) (fs) :
    h.setFields a fs = h := by
  unfold Heap.isObj at ho; unfold Heap.setFields
  split
  · rename_i he; simp [he] at ho
  · rfl

theorem fields_setFields_self {h : Heap} {a : Nat} (ho : h.isObj a = true) (fs) :
    (h.setFields a fs).fields a = fs := by
  obtain ⟨fs₀, e, he⟩ := isObj_iff.1 ho
  exact fields_of_cell (getElem?_setFields_self he fs)

theorem fields_setFields_ne (h : Heap) (a : Nat) (fs) {b : Nat} (hb : b ≠ a) :
    (h.setFields a fs).fields b = h.fields b :=
  fields_congr (getElem?_setFields_ne h a fs hb)

theorem ego_setFields (h : Heap) (a : Nat) (fs) (b : Nat) : (h.setFields a fs).ego b = h.ego b := by
  by_cases hb : b = a
  · subst hb
    cases ho : h.isObj b with
    | false => rw [setFields_of_not_isObj ho]
    | true =>
      obtain ⟨fs₀, e, he⟩ := isObj_iff.1 ho
      rw [ego_of_cell (getElem?_setFields_self he fs), ego_of_cell he]
  · exact ego_congr (getElem?_setFields_ne h a fs hb)

theorem isObj_setFields (h : Heap) (a : Nat) (fs) (b : Nat) : (h.setFields a fs).isObj b = h.isObj b := by
  by_cases hb : b = a
  · subst hb
    cases ho : h.isObj b with
    | false => rw [setFields_of_not_isObj ho, ho]
    | true =>
      obtain ⟨fs₀, e, he⟩ := isObj_iff.1 ho
      exact isObj_iff.2 ⟨fs, e, getElem?_setFields_self he fs⟩
  · exact isObj_congr (getElem?_setFields_ne h a fs hb)

theorem getVal_congr {h h' : Heap} (e : ∀ b, h'.ego b = h.ego b) (v : Val) : h'.getVal v = h.getVal v := by
  cases v <;> simp [Heap.getVal, e]

theorem getVal_setFields (h : Heap) (a : Nat) (fs) (v : Val) : (h.setFields a fs).getVal v = h.getVal v :=
  getVal_congr (ego_setFields h a fs) v

theorem egoRef_setFields (h : Heap) (a : Nat) (fs) (b : Nat) : (h.setFields a fs).egoRef b = h.egoRef b := by
  simp [Heap.egoRef, ego_setFields]

theorem setFields_setFields (h : Heap) (a : Nat) (fs fs') :
    (h.setFields a fs).setFields a fs' = h.setFields a fs' := by
  cases ho : h.isObj a with
  | false => rw [setFields_of_not_isObj ho, setFields_of_not_isObj ho]
  | true =>
    obtain ⟨fs₀, e, he⟩ := isObj_iff.1 ho
    have he' := getElem?_setFields_self he fs
    apply List.ext_getElem?
    intro b
    by_cases hb : b = a
    · subst hb
      rw [getElem?_setFields_self he' fs', getElem?_setFields_self he fs']
    · rw [getElem?_setFields_ne _ _ _ hb, getElem?_setFields_ne _ _ _ hb, getElem?_setFields_ne _ _ _ hb]

theorem setFields_fields_self (h : Heap) (a : Nat) : h.setFields a (h.fields a) = h := by
  cases ho : h.isObj a with
  | false => exact setFields_of_not_isObj ho _
  | true =>
    obtain ⟨fs₀, e, he⟩ := isObj_iff.1 ho
    rw [fields_of_cell he]
    unfold Heap.setFields
    rw [he]
    obtain ⟨hl, hc⟩ := List.getElem?_eq_some_iff.1 he
    simp only
    rw [← hc]; exact List.set_getElem_self hl

theorem getVal_kind (h : Heap) (v : Val) : (h.getVal v).kind = v.kind := by
  cases v <;> rfl

/-! ### allocation -/

theorem getElem?_append_old (h : Heap) (c : Cell) {b : Nat} (hb : b < h.length) : (h ++ [c])[b]? = h[b]? :=
  List.getElem?_append_left hb

theorem getElem?_append_new (h : Heap) (c : Cell) : (h ++ [c])[h.length]? = some c :=
  List.getElem?_concat_length

theorem ego_append_zero (h : Heap) (c : Cell) (hc : c = .obj [] 0 ∨ ∃ xs fs, c = .list xs 0 ∨ c = .obj fs 0)
    (b : Nat) : (h ++ [c]).ego b = h.ego b := by
  by_cases hb : b < h.length
  · exact ego_congr (getElem?_append_old h c hb)
  · have hn : h[b]? = none := List.getElem?_eq_none (Nat.le_of_not_lt hb)
    unfold Heap.ego
    rw [hn]
    by_cases hb' : b = h.length
    · subst hb'
      rw [getElem?_append_new]
      rcases hc with rfl | ⟨xs, fs, rfl | rfl⟩ <;> rfl
    · have : (h ++ [c])[b]? = none := List.getElem?_eq_none (by simp; omega)
      rw [this]

theorem getVal_append_obj (h : Heap) (fs) (v : Val) : (h ++ [Cell.obj fs 0]).getVal v = h.getVal v :=
  getVal_congr (ego_append_zero h _ (Or.inr ⟨[], fs, Or.inr rfl⟩)) v

theorem getVal_append_list (h : Heap) (xs) (v : Val) : (h ++ [Cell.list xs 0]).getVal v = h.getVal v :=
  getVal_congr (ego_append_zero h _ (Or.inr ⟨xs, [], Or.inl rfl⟩)) v

theorem fields_append_old (h : Heap) (c : Cell) {b : Nat} (hb : b < h.length) :
    (h ++ [c]).fields b = h.fields b := fields_congr (getElem?_append_old h c hb)

theorem fields_append_new (h : Heap) (fs e) : (h ++ [Cell.obj fs e]).fields h.length = fs :=
  fields_of_cell (getElem?_append_new h _)

theorem isObj_append_new (h : Heap) (fs e) : (h ++ [Cell.obj fs e]).isObj h.length = true :=
  isObj_iff.2 ⟨fs, e, getElem?_append_new h _⟩

theorem isObj_append_old (h : Heap) (c : Cell) {b : Nat} (hb : b < h.length) :
    (h ++ [c]).isObj b = h.isObj b := isObj_congr (getElem?_append_old h c hb)

/-! ### scalar arguments: held by value, or an existing container by reference -/

end OH

/-- the arguments `parseVal` stores without allocating: nil, bool, every integer and float
type, strings, and existing List / Object values (by reference) -/
def GoVal.isScalar : GoVal → Bool
  | .nil | .bool _ | .intw _ _ | .f64 _ | .f32 _ | .str _ | .list _ | .obj _ => true
  | _ => false

/-- what is stored for such an argument -/
def scalarVal : GoVal → Val
  | .nil => .nil
  | .bool b => .bool b
  | .intw _ v => .int (wrap64 v)
  | .f64 f => .float f
  | .f32 b => .float (f32to64 b)
  | .str s => .str s
  | .list r => .list r
  | .obj r => .obj r
  | _ => .nil

namespace OH

theorem parseVal_scalar (h : Heap) (g : GoVal) (hs : g.isScalar = true) :
    parseVal h g = (h, .ok (scalarVal g)) := by
  cases g <;> first | rfl | (simp [GoVal.isScalar] at hs)

/-! ### extension of a heap: old cells are kept, except possibly one -/

/-- `h1` extends `h` and agrees with it on every old cell other than `a` -/
def ExtExcept (a : Nat) (h h1 : Heap) : Prop :=
  h.length ≤ h1.length ∧ ∀ b, b < h.length → b ≠ a → h1[b]? = h[b]?

/-- `h1` extends `h` and agrees with it on every old cell -/
def Ext (h h1 : Heap) : Prop := h.length ≤ h1.length ∧ ∀ b, b < h.length → h1[b]? = h[b]?

theorem Ext.refl (h : Heap) : Ext h h := ⟨Nat.le_refl _, fun _ _ => rfl⟩
theorem ExtExcept.refl (a : Nat) (h : Heap) : ExtExcept a h h := ⟨Nat.le_refl _, fun _ _ _ => rfl⟩
theorem Ext.toExcept {h h1 : Heap} (e : Ext h h1) (a : Nat) : ExtExcept a h h1 :=
  ⟨e.1, fun b hb _ => e.2 b hb⟩
theorem ExtExcept.trans {a : Nat} {h h1 h2 : Heap} (e1 : ExtExcept a h h1) (e2 : ExtExcept a h1 h2) :
    ExtExcept a h h2 :=
  ⟨Nat.le_trans e1.1 e2.1, fun b hb hne => by
    rw [e2.2 b (Nat.lt_of_lt_of_le hb e1.1) hne, e1.2 b hb hne]⟩
theorem ExtExcept.setFields (a : Nat) (h : Heap) (fs) : ExtExcept a h (h.setFields a fs) :=
  ⟨Nat.le_of_eq (length_setFields h a fs).symm, fun _ _ hne => getElem?_setFields_ne h a fs hne⟩
/-- a change at a fresh address is invisible from the old heap -/
theorem ExtExcept.toExt {a : Nat} {h h1 : Heap} (e : ExtExcept a h h1) (ha : h.length ≤ a) : Ext h h1 :=
  ⟨e.1, fun b hb => e.2 b hb (by omega)⟩
theorem Ext.append (h : Heap) (c : Cell) : Ext h (h ++ [c]) :=
  ⟨by simp, fun _ hb => getElem?_append_old h c hb⟩
theorem Ext.of_append_except {h : Heap} {c : Cell} {h1 : Heap}
    (e : ExtExcept h.length (h ++ [c]) h1) : Ext h h1 :=
  ⟨Nat.le_trans (by simp) e.1, fun b hb => by
    rw [e.2 b (by simp; omega) (by omega), getElem?_append_old h c hb]⟩
theorem Ext.trans {h h1 h2 : Heap} (e1 : Ext h h1) (e2 : Ext h1 h2) : Ext h h2 :=
  ⟨Nat.le_trans e1.1 e2.1, fun b hb => by rw [e2.2 b (Nat.lt_of_lt_of_le hb e1.1), e1.2 b hb]⟩

theorem length_setItems (h : Heap) (a : Nat) (xs) : (h.setItems a xs).length = h.length := by
  unfold Heap.setItems; split <;> simp

theorem getElem?_setItems_ne (h : Heap) (a : Nat) (xs) {b : Nat} (hb : b ≠ a) :
    (h.setItems a xs)[b]? = h[b]? := by
  unfold Heap.setItems
  split
  · exact List.getElem?_set_ne (fun e => hb e.symm)
  · rfl

theorem ExtExcept.setItems (a : Nat) (h : Heap) (xs) : ExtExcept a h (h.setItems a xs) :=
  ⟨Nat.le_of_eq (length_setItems h a xs).symm, fun _ _ hne => getElem?_setItems_ne h a xs hne⟩

/-- `parseVal` (with `NewListFrom` / `NewObjectFrom` inside) never touches an existing cell;
the loops of `Add` / `Set` touch only their receiver -/
theorem parseVal_frame :
    (∀ h g, Ext h (parseVal h g).1) ∧
    (∀ h a kvs, ExtExcept a h (setEach h a kvs).1) ∧
    (∀ h a gs, ExtExcept a h (addEach h a gs).1) := by
  apply parseVal.mutual_induct
    (motive_1 := fun h g => Ext h (parseVal h g).1)
    (motive_2 := fun h a kvs => ExtExcept a h (setEach h a kvs).1)
    (motive_3 := fun h a gs => ExtExcept a h (addEach h a gs).1)
  case case1 => intro h; exact Ext.refl h
  case case2 => intro h b; exact Ext.refl h
  case case3 => intro h w v; exact Ext.refl h
  case case4 => intro h f; exact Ext.refl h
  case case5 => intro h b; exact Ext.refl h
  case case6 => intro h s; exact Ext.refl h
  case case7 => intro h r; exact Ext.refl h
  case case8 => intro h r; exact Ext.refl h
  case case9 =>
    intro h fl xs a h1 u he ih
    rw [he] at ih
    have he' := he
    simp only [a] at he' ih
    simp only [parseVal, he']
    exact Ext.of_append_except ih
  case case10 =>
    intro h fl xs a h1 k he ih
    rw [he] at ih
    have he' := he
    simp only [a] at he' ih
    simp only [parseVal, he']
    exact Ext.of_append_except ih
  case case11 =>
    intro h fl kvs a h1 u he ih
    rw [he] at ih
    have he' := he
    simp only [a] at he' ih
    simp only [parseVal, he']
    exact Ext.of_append_except ih
  case case12 =>
    intro h fl kvs a h1 k he ih
    rw [he] at ih
    have he' := he
    simp only [a] at he' ih
    simp only [parseVal, he']
    exact Ext.of_append_except ih
  case case13 => intro h; exact Ext.refl h
  case case14 => intro h a; exact ExtExcept.refl a h
  case case15 =>
    intro h a g gs h1 k he ih
    simp only [addEach, he]
    rw [he] at ih
    exact ih.toExcept a
  case case16 =>
    intro h a g gs h1 v he ih ih2
    simp only [addEach, he]
    rw [he] at ih
    exact ((ih.toExcept a).trans (ExtExcept.setItems a h1 _)).trans ih2
  case case17 => intro h a; exact ExtExcept.refl a h
  case case18 =>
    intro h a k g kvs h1 p he ih
    simp only [setEach, he]
    rw [he] at ih
    exact ih.toExcept a
  case case19 =>
    intro h a k g kvs h1 v he ih ih2
    simp only [setEach, he]
    rw [he] at ih
    exact ((ih.toExcept a).trans (ExtExcept.setFields a h1 _)).trans ih2

/-! ### the Go-map invariant: distinct keys in every object cell -/

/-- every object cell holds distinct keys -/
def AllNodup (h : Heap) : Prop := ∀ a, (keysOf (h.fields a)).Nodup

theorem AllNodup.nil : AllNodup [] := by
  intro a; simp [Heap.fields]

theorem AllNodup.setFields {h : Heap} (hn : AllNodup h) (a : Nat) {fs : List (Str × Val)}
    (hfs : (keysOf fs).Nodup) : AllNodup (h.setFields a fs) := by
  intro b
  by_cases hb : b = a
  · subst hb
    cases ho : h.isObj b with
    | false => rw [setFields_of_not_isObj ho]; exact hn b
    | true => rw [fields_setFields_self ho]; exact hfs
  · rw [fields_setFields_ne h a fs hb]; exact hn b

theorem fields_setItems (h : Heap) (a : Nat) (xs) (b : Nat) : (h.setItems a xs).fields b = h.fields b := by
  by_cases hb : b = a
  · subst hb
    unfold Heap.setItems
    split
    · rename_i ys e he
      have hl := (List.getElem?_eq_some_iff.1 he).1
      unfold Heap.fields
      rw [List.getElem?_set_self hl, he]
    · rfl
  · exact fields_congr (getElem?_setItems_ne h a xs hb)

theorem AllNodup.setItems {h : Heap} (hn : AllNodup h) (a : Nat) (xs) : AllNodup (h.setItems a xs) := by
  intro b; rw [fields_setItems]; exact hn b

theorem AllNodup.append {h : Heap} (hn : AllNodup h) {c : Cell}
    (hc : ∀ fs e, c = .obj fs e → (keysOf fs).Nodup) : AllNodup (h ++ [c]) := by
  intro b
  by_cases hb : b < h.length
  · rw [fields_append_old h c hb]; exact hn b
  · by_cases hb' : b = h.length
    · subst hb'
      unfold Heap.fields
      rw [getElem?_append_new]
      cases c with
      | list xs e => simp
      | obj fs e => exact hc fs e rfl
    · have : (h ++ [c])[b]? = none := List.getElem?_eq_none (by simp; omega)
      unfold Heap.fields; rw [this]; simp

theorem parseVal_allNodup :
    (∀ h g, AllNodup h → AllNodup (parseVal h g).1) ∧
    (∀ h a kvs, AllNodup h → AllNodup (setEach h a kvs).1) ∧
    (∀ h a gs, AllNodup h → AllNodup (addEach h a gs).1) := by
  apply parseVal.mutual_induct
    (motive_1 := fun h g => AllNodup h → AllNodup (parseVal h g).1)
    (motive_2 := fun h a kvs => AllNodup h → AllNodup (setEach h a kvs).1)
    (motive_3 := fun h a gs => AllNodup h → AllNodup (addEach h a gs).1)
  case case1 => intro h hn; exact hn
  case case2 => intro h b hn; exact hn
  case case3 => intro h w v hn; exact hn
  case case4 => intro h f hn; exact hn
  case case5 => intro h b hn; exact hn
  case case6 => intro h s hn; exact hn
  case case7 => intro h r hn; exact hn
  case case8 => intro h r hn; exact hn
  case case9 =>
    intro h fl xs a h1 u he ih hn
    rw [he] at ih
    have he' := he
    simp only [a] at he' ih
    simp only [parseVal, he']
    exact ih (hn.append (by intro fs e hc; cases hc))
  case case10 =>
    intro h fl xs a h1 k he ih hn
    rw [he] at ih
    have he' := he
    simp only [a] at he' ih
    simp only [parseVal, he']
    exact ih (hn.append (by intro fs e hc; cases hc))
  case case11 =>
    intro h fl kvs a h1 u he ih hn
    rw [he] at ih
    have he' := he
    simp only [a] at he' ih
    simp only [parseVal, he']
    exact ih (hn.append (by intro fs e hc; cases hc; simp))
  case case12 =>
    intro h fl kvs a h1 k he ih hn
    rw [he] at ih
    have he' := he
    simp only [a] at he' ih
    simp only [parseVal, he']
    exact ih (hn.append (by intro fs e hc; cases hc; simp))
  case case13 => intro h hn; exact hn
  case case14 => intro h a hn; exact hn
  case case15 =>
    intro h a g gs h1 k he ih hn
    simp only [addEach, he]
    rw [he] at ih
    exact ih hn
  case case16 =>
    intro h a g gs h1 v he ih ih2 hn
    simp only [addEach, he]
    rw [he] at ih
    exact ih2 ((ih hn).setItems a _)
  case case17 => intro h a hn; exact hn
  case case18 =>
    intro h a k g kvs h1 p he ih hn
    simp only [setEach, he]
    rw [he] at ih
    exact ih hn
  case case19 =>
    intro h a k g kvs h1 v he ih ih2 hn
    simp only [setEach, he]
    rw [he] at ih
    exact ih2 ((ih hn).setFields a (nodup_setKV ((ih hn) a) k v))

/-! ### the loop of `Set` -/

end OH

/-- an argument list of `Set` whose keys are all strings -/
def toPairs (ps : List (Str × GoVal)) : O.Pairs := ps.map (fun p => (some p.1, p.2))

/-- the pairs applied to a field list one after the other, in argument order -/
def applyPairs (fs : List (Str × Val)) (ps : List (Str × GoVal)) : List (Str × Val) :=
  ps.foldl (fun acc p => setKV acc p.1 (scalarVal p.2)) fs

namespace OH

theorem setLoop_scalar_append (h : Heap) (a : Nat) (ps : List (Str × GoVal)) (tail : O.Pairs)
    (hs : ∀ p ∈ ps, p.2.isScalar = true) :
    O.setLoop h a (toPairs ps ++ tail) = O.setLoop (h.setFields a (applyPairs (h.fields a) ps)) a tail := by
  induction ps generalizing h with
  | nil => simp [toPairs, applyPairs, setFields_fields_self]
  | cons p ps ih =>
    obtain ⟨k, g⟩ := p
    have hg : g.isScalar = true := hs (k, g) (List.mem_cons_self ..)
    have hs' : ∀ p ∈ ps, p.2.isScalar = true := fun p hp => hs p (List.mem_cons_of_mem _ hp)
    have : toPairs ((k, g) :: ps) ++ tail = (some k, g) :: (toPairs ps ++ tail) := rfl
    rw [this, O.setLoop, parseVal_scalar h g hg]
    simp only
    rw [ih _ hs', setFields_setFields]
    cases ho : h.isObj a with
    | true => rw [fields_setFields_self ho]; rfl
    | false =>
      rw [setFields_of_not_isObj ho, setFields_of_not_isObj ho]

theorem setLoop_scalar (h : Heap) (a : Nat) (ps : List (Str × GoVal))
    (hs : ∀ p ∈ ps, p.2.isScalar = true) :
    O.setLoop h a (toPairs ps) = (h.setFields a (applyPairs (h.fields a) ps), .ok ()) := by
  have := setLoop_scalar_append h a ps [] hs
  rw [List.append_nil] at this
  rw [this]; rfl

/-- arbitrary arguments (nested slices / maps, unsupported values, non-string keys):
only the receiver changes -/
theorem setLoop_frame (h : Heap) (a : Nat) (pairs : O.Pairs) : ExtExcept a h (O.setLoop h a pairs).1 := by
  induction pairs generalizing h with
  | nil => exact ExtExcept.refl a h
  | cons p rest ih =>
    obtain ⟨k, g⟩ := p
    cases k with
    | none => exact ExtExcept.refl a h
    | some k =>
      have hf := parseVal_frame.1 h g
      rw [O.setLoop]
      cases hp : parseVal h g with
      | mk h1 o =>
        rw [hp] at hf
        cases o with
        | panic p => exact hf.toExcept a
        | ok v => exact ((hf.toExcept a).trans (ExtExcept.setFields a h1 _)).trans (ih _)

theorem setLoop_allNodup (h : Heap) (a : Nat) (pairs : O.Pairs) (hn : AllNodup h) :
    AllNodup (O.setLoop h a pairs).1 := by
  induction pairs generalizing h with
  | nil => exact hn
  | cons p rest ih =>
    obtain ⟨k, g⟩ := p
    cases k with
    | none => exact hn
    | some k =>
      have hf := parseVal_allNodup.1 h g hn
      rw [O.setLoop]
      cases hp : parseVal h g with
      | mk h1 o =>
        rw [hp] at hf
        cases o with
        | panic p => exact hf
        | ok v => exact ih _ (hf.setFields a (nodup_setKV (hf a) k v))

theorem set_fst (h : Heap) (a : Nat) (pairs : O.Pairs) :
    (O.set h a pairs false).1 = (O.setLoop h a pairs).1 := by
  unfold O.set
  simp only [Bool.false_eq_true, if_false]
  cases O.setLoop h a pairs with
  | mk h1 o => cases o <;> rfl

theorem setEach_scalar (h : Heap) (a : Nat) (ps : List (Str × GoVal))
    (hs : ∀ p ∈ ps, p.2.isScalar = true) :
    setEach h a ps = (h.setFields a (applyPairs (h.fields a) ps), .ok ()) := by
  induction ps generalizing h with
  | nil => simp [setEach, applyPairs, setFields_fields_self]
  | cons p ps ih =>
    obtain ⟨k, g⟩ := p
    have hg : g.isScalar = true := hs (k, g) (List.mem_cons_self ..)
    have hs' : ∀ p ∈ ps, p.2.isScalar = true := fun p hp => hs p (List.mem_cons_of_mem _ hp)
    rw [setEach, parseVal_scalar h g hg]
    simp only
    rw [ih _ hs', setFields_setFields]
    cases ho : h.isObj a with
    | true => rw [fields_setFields_self ho]; rfl
    | false =>
      rw [setFields_of_not_isObj ho, setFields_of_not_isObj ho]

theorem new_fst (h : Heap) (pairs : O.Pairs) (odd : Bool) :
    (O.new h pairs odd).1 = (O.set (h ++ [Cell.obj [] 0]) h.length pairs odd).1 := by
  unfold O.new
  simp only
  cases O.set (h ++ [Cell.obj [] 0]) h.length pairs odd with
  | mk h1 o => cases o <;> rfl

/-! ### the loop of `Pluck` -/

end OH

/-- the field list `Pluck` builds: `result[k] = getVal(fields[k])` for each requested key in turn -/
def pluckFold (g : Val → Val) (fs acc : List (Str × Val)) (ks : List Str) : List (Str × Val) :=
  ks.foldl (fun acc k => match lookup fs k with | some v => setKV acc k (g v) | none => acc) acc

namespace OH

theorem get_setFields_ne (hh : Heap) (a res : Nat) (x) (hne : res ≠ a) (key : Str) :
    O.get (hh.setFields res x) a key = O.get hh a key := by
  unfold O.get
  rw [fields_setFields_ne hh res x (fun e => hne e.symm)]
  cases lookup (hh.fields a) key <;> simp [getVal_setFields]

theorem pluckLoop_ok (hh : Heap) (a res : Nat) (ks : List Str) (hne : res ≠ a)
    (hr : hh.isObj res = true) (hall : ∀ k ∈ ks, k ∈ keysOf (hh.fields a)) :
    O.pluckLoop hh a res ks
      = (hh.setFields res (pluckFold hh.getVal (hh.fields a) (hh.fields res) ks), .ok ()) := by
  induction ks generalizing hh with
  | nil => simp [O.pluckLoop, pluckFold, setFields_fields_self]
  | cons key rest ih =>
    obtain ⟨v, hv⟩ := exists_lookup_of_mem_keys (hall key (List.mem_cons_self ..))
    rw [O.pluckLoop]
    simp only [O.get, hv]
    have hne' : a ≠ res := fun e => hne e.symm
    rw [ih _ (by rw [isObj_setFields]; exact hr)
      (by rw [fields_setFields_ne _ _ _ hne']; exact fun k hk => hall k (List.mem_cons_of_mem _ hk))]
    rw [setFields_setFields, fields_setFields_ne _ _ _ hne', fields_setFields_self hr]
    have : (hh.setFields res (setKV (hh.fields res) key (hh.getVal v))).getVal = hh.getVal :=
      funext (getVal_setFields _ _ _)
    rw [this]
    simp [pluckFold, hv]

theorem pluckLoop_missing (hh : Heap) (a res : Nat) (ks : List Str) (hne : res ≠ a)
    (hmiss : ∃ k ∈ ks, k ∉ keysOf (hh.fields a)) :
    ∃ acc, O.pluckLoop hh a res ks = (hh.setFields res acc, .panic .missingKey) := by
  induction ks generalizing hh with
  | nil => obtain ⟨k, hk, _⟩ := hmiss; cases hk
  | cons key rest ih =>
    rw [O.pluckLoop]
    have hne' : a ≠ res := fun e => hne e.symm
    cases hv : lookup (hh.fields a) key with
    | none =>
      refine ⟨hh.fields res, ?_⟩
      simp [O.get, hv, setFields_fields_self]
    | some v =>
      simp only [O.get, hv]
      obtain ⟨k, hk, hkn⟩ := hmiss
      have hk' : k ∈ rest := by
        rcases List.mem_cons.1 hk with rfl | h
        · exact absurd (mem_keys_of_lookup hv) hkn
        · exact h
      obtain ⟨acc, hacc⟩ := ih (hh.setFields res (setKV (hh.fields res) key (hh.getVal v)))
        ⟨k, hk', by rw [fields_setFields_ne _ _ _ hne']; exact hkn⟩
      exact ⟨acc, by rw [hacc, setFields_setFields]⟩

theorem lookup_pluckFold (g : Val → Val) (fs acc : List (Str × Val)) (ks : List Str)
    (hall : ∀ k ∈ ks, k ∈ keysOf fs) (k : Str) :
    lookup (pluckFold g fs acc ks) k = if k ∈ ks then (lookup fs k).map g else lookup acc k := by
  induction ks generalizing acc with
  | nil => simp [pluckFold]
  | cons k₀ rest ih =>
    obtain ⟨v₀, hv₀⟩ := exists_lookup_of_mem_keys (hall k₀ (List.mem_cons_self ..))
    have : pluckFold g fs acc (k₀ :: rest) = pluckFold g fs (setKV acc k₀ (g v₀)) rest := by
      simp [pluckFold, hv₀]
    rw [this, ih _ (fun k hk => hall k (List.mem_cons_of_mem _ hk)), lookup_setKV]
    by_cases h1 : k ∈ rest
    · simp [h1]
    · by_cases h2 : k = k₀
      · subst h2; simp [hv₀]
      · simp [h1, h2]

theorem nodup_pluckFold (g : Val → Val) (fs : List (Str × Val)) (ks : List Str) {acc : List (Str × Val)}
    (hn : (keysOf acc).Nodup) : (keysOf (pluckFold g fs acc ks)).Nodup := by
  induction ks generalizing acc with
  | nil => exact hn
  | cons k₀ rest ih =>
    unfold pluckFold
    rw [List.foldl_cons]
    cases lookup fs k₀ with
    | none => exact ih hn
    | some v => exact ih (nodup_setKV hn _ _)

/-! ### the fold of `Merge` -/

/-- the argument's value wins on a shared key -/
theorem lookup_mergeFold (g : Val → Val) (fsB : List (Str × Val)) (hn : (keysOf fsB).Nodup)
    (base : List (Str × Val)) (k : Str) :
    lookup (fsB.foldl (fun acc kv => setKV acc kv.1 (g kv.2)) base) k
      = match lookup fsB k with
        | some w => some (g w)
        | none => lookup base k := by
  induction fsB generalizing base with
  | nil => rfl
  | cons kv rest ih =>
    obtain ⟨k₀, w₀⟩ := kv
    simp only [keysOf_cons, List.nodup_cons] at hn
    rw [List.foldl_cons, ih hn.2, lookup_cons, lookup_setKV]
    by_cases hk : k₀ = k
    · subst hk
      simp [lookup_eq_none_iff.2 hn.1]
    · have : ¬ k = k₀ := fun e => hk e.symm
      simp [hk, this]

theorem mem_keysOf_mergeFold (g : Val → Val) (fsB base : List (Str × Val)) (k : Str) :
    k ∈ keysOf (fsB.foldl (fun acc kv => setKV acc kv.1 (g kv.2)) base) ↔ k ∈ keysOf fsB ∨ k ∈ keysOf base := by
  induction fsB generalizing base with
  | nil => simp
  | cons kv rest ih =>
    rw [List.foldl_cons, ih, mem_keysOf_setKV, keysOf_cons, List.mem_cons]
    constructor
    · rintro (h | h | h)
      · exact Or.inl (Or.inr h)
      · exact Or.inl (Or.inl h)
      · exact Or.inr h
    · rintro ((h | h) | h)
      · exact Or.inr (Or.inl h)
      · exact Or.inl h
      · exact Or.inr (Or.inr h)

/-! ### the abstraction: a field list as a finite map -/

end OH

/-- the abstraction function: a field list as a finite map -/
def absMap {α : Type} (fs : List (Str × α)) : Str → Option α := lookup fs
/-- `m[k] = v` on abstract maps -/
def updMap {α : Type} (m : Str → Option α) (k : Str) (v : α) : Str → Option α :=
  fun k' => if k' = k then some v else m k'
/-- `delete(m, k)` on abstract maps -/
def delMap {α : Type} (m : Str → Option α) (k : Str) : Str → Option α :=
  fun k' => if k' = k then none else m k'

namespace OH

theorem absMap_setKV {α : Type} (fs : List (Str × α)) (k : Str) (v : α) :
    absMap (setKV fs k v) = updMap (absMap fs) k v :=
  funext fun k' => lookup_setKV fs k v k'

theorem absMap_applyPairs (fs : List (Str × Val)) (ps : List (Str × GoVal)) :
    absMap (applyPairs fs ps) = ps.foldl (fun m p => updMap m p.1 (scalarVal p.2)) (absMap fs) := by
  induction ps generalizing fs with
  | nil => rfl
  | cons p ps ih =>
    show absMap (applyPairs (setKV fs p.1 (scalarVal p.2)) ps) = _
    rw [ih, absMap_setKV]; rfl

theorem set_scalar (h : Heap) (a : Nat) (ps : List (Str × GoVal))
    (hs : ∀ p ∈ ps, p.2.isScalar = true) :
    O.set h a (toPairs ps) false
      = (h.setFields a (applyPairs (h.fields a) ps), .ok (h.egoRef a)) := by
  unfold O.set
  simp only [Bool.false_eq_true, if_false, setLoop_scalar h a ps hs, egoRef_setFields]

theorem new_scalar (h : Heap) (ps : List (Str × GoVal)) (hs : ∀ p ∈ ps, p.2.isScalar = true) :
    O.new h (toPairs ps) false
      = ((h ++ [Cell.obj [] 0]).setFields h.length (applyPairs [] ps), .ok ⟨h.length, 0⟩) := by
  have h1 := set_scalar (h ++ [Cell.obj [] 0]) h.length ps hs
  rw [fields_append_new] at h1
  unfold O.new
  simp only [h1]

theorem items_append_new (h : Heap) (xs : List Val) (e : Nat) :
    (h ++ [Cell.list xs e]).items h.length = xs := by
  unfold Heap.items; rw [getElem?_append_new]

/-! ### programs of mutators -/

end OH

/-- the mutators (arguments of `Set` / `NewObject` are arbitrary Go values with string keys) -/
inductive OOp
  | new (ps : List (Str × GoVal))
  | set (a : Nat) (ps : List (Str × GoVal))
  | unset (a : Nat) (ks : List Str)
  | clear (a : Nat)

/-- the heap after one operation (whether or not it panicked) -/
def stepO (h : Heap) : OOp → Heap
  | .new ps => (O.new h (toPairs ps) false).1
  | .set a ps => (O.set h a (toPairs ps) false).1
  | .unset a ks => (O.unset h a ks).1
  | .clear a => (O.clear h a).1

def runO (h : Heap) (prog : List OOp) : Heap := prog.foldl stepO h

/-- all values are scalars or existing containers -/
def OOp.scalar : OOp → Bool
  | .new ps => ps.all (fun p => p.2.isScalar)
  | .set _ ps => ps.all (fun p => p.2.isScalar)
  | _ => true

namespace OH

theorem stepO_allNodup (h : Heap) (hn : AllNodup h) (op : OOp) : AllNodup (stepO h op) := by
  cases op with
  | new ps =>
    show AllNodup (O.new h (toPairs ps) false).1
    rw [new_fst, set_fst]
    exact setLoop_allNodup _ _ _ (hn.append (by intro fs e hc; cases hc; simp))
  | set a ps =>
    show AllNodup (O.set h a (toPairs ps) false).1
    rw [set_fst]; exact setLoop_allNodup _ _ _ hn
  | unset a ks => exact hn.setFields a (nodup_foldl_delKV ks (hn a))
  | clear a => exact hn.setFields a (by simp)

theorem runO_allNodup (h : Heap) (hn : AllNodup h) (prog : List OOp) : AllNodup (runO h prog) := by
  induction prog generalizing h with
  | nil => exact hn
  | cons op prog ih => exact ih _ (stepO_allNodup h hn op)

end OH

/-- the abstract map semantics of one operation, seen from object `a` -/
def absStep (a : Nat) (m : Str → Option Val) : OOp → (Str → Option Val)
  | .new _ => m
  | .set b ps => if b = a then ps.foldl (fun m p => updMap m p.1 (scalarVal p.2)) m else m
  | .unset b ks => if b = a then (fun k => if k ∈ ks then none else m k) else m
  | .clear b => if b = a then (fun _ => none) else m

namespace OH

theorem stepO_sim (h : Heap) (a : Nat) (ho : h.isObj a = true) (hn : AllNodup h) (op : OOp)
    (hs : op.scalar = true) :
    (stepO h op).isObj a = true ∧
    absMap ((stepO h op).fields a) = absStep a (absMap (h.fields a)) op := by
  have hlt := lt_of_isObj ho
  cases op with
  | new ps =>
    show (O.new h (toPairs ps) false).1.isObj a = true ∧
      absMap ((O.new h (toPairs ps) false).1.fields a) = absMap (h.fields a)
    rw [new_scalar h ps (List.all_eq_true.1 hs)]
    have hne : a ≠ h.length := by omega
    simp only [isObj_setFields, fields_setFields_ne _ _ _ hne, isObj_append_old h _ hlt,
      fields_append_old h _ hlt, ho, and_self]
  | set b ps =>
    show (O.set h b (toPairs ps) false).1.isObj a = true ∧
      absMap ((O.set h b (toPairs ps) false).1.fields a)
        = if b = a then ps.foldl (fun m p => updMap m p.1 (scalarVal p.2)) (absMap (h.fields a))
          else absMap (h.fields a)
    rw [set_fst, setLoop_scalar h b ps (List.all_eq_true.1 hs), isObj_setFields]
    refine ⟨ho, ?_⟩
    by_cases hb : b = a
    · subst hb
      simp only [if_true, fields_setFields_self ho, absMap_applyPairs]
    · have : a ≠ b := fun e => hb e.symm
      simp only [hb, if_false, fields_setFields_ne _ _ _ this]
  | unset b ks =>
    show (O.unset h b ks).1.isObj a = true ∧
      absMap ((O.unset h b ks).1.fields a)
        = if b = a then (fun k => if k ∈ ks then none else absMap (h.fields a) k)
          else absMap (h.fields a)
    unfold O.unset
    simp only [isObj_setFields]
    refine ⟨ho, ?_⟩
    by_cases hb : b = a
    · subst hb
      simp only [if_true, fields_setFields_self ho]
      exact funext fun k => lookup_foldl_delKV ks (hn b) k
    · have : a ≠ b := fun e => hb e.symm
      simp only [hb, if_false, fields_setFields_ne _ _ _ this]
  | clear b =>
    show (O.clear h b).1.isObj a = true ∧
      absMap ((O.clear h b).1.fields a) = if b = a then (fun _ => none) else absMap (h.fields a)
    unfold O.clear
    simp only [isObj_setFields]
    refine ⟨ho, ?_⟩
    by_cases hb : b = a
    · subst hb
      simp only [if_true, fields_setFields_self ho]
      rfl
    · have : a ≠ b := fun e => hb e.symm
      simp only [hb, if_false, fields_setFields_ne _ _ _ this]

theorem runO_sim (h : Heap) (a : Nat) (ho : h.isObj a = true) (hn : AllNodup h)
    (prog : List OOp) (hs : ∀ op ∈ prog, op.scalar = true) :
    (runO h prog).isObj a = true ∧
    absMap ((runO h prog).fields a) = prog.foldl (absStep a) (absMap (h.fields a)) := by
  induction prog generalizing h with
  | nil => exact ⟨ho, rfl⟩
  | cons op prog ih =>
    obtain ⟨h1, h2⟩ := stepO_sim h a ho hn op (hs op (List.mem_cons_self ..))
    have := ih (stepO h op) h1 (stepO_allNodup h hn op) (fun op' hop => hs op' (List.mem_cons_of_mem _ hop))
    show (runO (stepO h op) prog).isObj a = true ∧
      absMap ((runO (stepO h op) prog).fields a) = prog.foldl (absStep a) (absStep a (absMap (h.fields a)) op)
    rw [← h2]; exact this

end OH
end Anytype
