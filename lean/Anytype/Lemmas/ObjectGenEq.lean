/-
The definitions that `vextract` translates from the Go source of the object operations, of
`parseVal` and of `native` (`Anytype/Generated/ObjectGen.lean`, regenerated on every run) are equal
to the hand-written model (`Model/ObjectOps.lean`, `Model/Normalize.lean`) that the theorems are
about — pointwise, for all arguments.

The proofs are generic scripts: unfold both sides one step, rewrite the calls of other translated
functions with their `…Gen_eq` theorem and the recursive call with the induction hypothesis, then
`rfl`, or split every test and let `simp_all` compare the leaves.  Where the model states a loop in
closed form (`map`, `any`, `find?`, `foldl`, "allocate the finished list") the loop lemma is that
closed form, proved by induction with the heap lemmas of Lemmas/Heap.lean and Lemmas/ObjHeap.lean.
The scripts do not mention the names of locals or the shape of the decision trees, so they survive
regeneration after harmless edits and fail when the translated behaviour differs from the model.
-/
import Anytype.Generated.ObjectGen
import Anytype.Lemmas.Heap
import Anytype.Lemmas.ObjHeap
namespace Anytype

open Generated

/-- closes one case: syntactic agreement, or exhaustive splitting -/
local macro "gen_case" : tactic =>
  `(tactic| first
    | rfl
    | (repeat' split) <;> first | rfl | (simp_all; done))

theorem setLoopGen_eq (h : Heap) (a : Nat) (pairs : O.Pairs) :
    setLoopGen h a pairs = O.setLoop h a pairs := by
  induction pairs generalizing h with
  | nil => simp only [setLoopGen, O.setLoop]
  | cons x xs ih =>
    obtain ⟨k, g⟩ := x
    cases k <;> simp only [setLoopGen, O.setLoop, ih] <;> gen_case

theorem setGen_eq (h : Heap) (a : Nat) (pairs : O.Pairs) (odd : Bool) :
    setGen h a pairs odd = O.set h a pairs odd := by
  simp only [setGen, O.set, setLoopGen_eq] <;> gen_case

theorem newGen_eq (h : Heap) (pairs : O.Pairs) (odd : Bool) :
    newGen h pairs odd = O.new h pairs odd := by
  simp only [newGen, O.new, setGen_eq] <;> gen_case

theorem getGen_eq (h : Heap) (a : Nat) (key : Str) : getGen h a key = O.get h a key := by
  simp only [getGen, O.get] <;> gen_case

/-! ### Unset, Clear -/

theorem unsetLoopGen_eq (h : Heap) (a : Nat) (keys : List Str) :
    unsetLoopGen h a keys = h.setFields a (keys.foldl delKV (h.fields a)) := by
  induction keys generalizing h with
  | nil => simp only [unsetLoopGen, List.foldl_nil, OH.setFields_fields_self]
  | cons k ks ih =>
    simp only [unsetLoopGen, ih, List.foldl_cons, OH.setFields_setFields]
    cases ho : h.isObj a with
    | true => rw [OH.fields_setFields_self ho]
    | false => simp only [OH.setFields_of_not_isObj ho]

theorem unsetGen_eq (h : Heap) (a : Nat) (keys : List Str) : unsetGen h a keys = O.unset h a keys := by
  simp only [unsetGen, O.unset, unsetLoopGen_eq]

theorem clearGen_eq (h : Heap) (a : Nat) : clearGen h a = O.clear h a := by
  simp only [clearGen, O.clear, OH.egoRef_setFields]

/-! ### the typed getters, TypeOf, KeyExists, Count, Empty -/

theorem getObjectGen_eq (h : Heap) (a : Nat) (key : Str) : getObjectGen h a key = O.getK h a .object key := by
  simp only [getObjectGen, O.getK, getGen_eq] <;> gen_case
theorem getListGen_eq (h : Heap) (a : Nat) (key : Str) : getListGen h a key = O.getK h a .list key := by
  simp only [getListGen, O.getK, getGen_eq] <;> gen_case
theorem getStringGen_eq (h : Heap) (a : Nat) (key : Str) : getStringGen h a key = O.getK h a .string key := by
  simp only [getStringGen, O.getK, getGen_eq] <;> gen_case
theorem getBoolGen_eq (h : Heap) (a : Nat) (key : Str) : getBoolGen h a key = O.getK h a .bool key := by
  simp only [getBoolGen, O.getK, getGen_eq] <;> gen_case
theorem getIntGen_eq (h : Heap) (a : Nat) (key : Str) : getIntGen h a key = O.getK h a .int key := by
  simp only [getIntGen, O.getK, getGen_eq] <;> gen_case
theorem getFloatGen_eq (h : Heap) (a : Nat) (key : Str) : getFloatGen h a key = O.getK h a .float key := by
  simp only [getFloatGen, O.getK, getGen_eq] <;> gen_case

theorem typeOfGen_eq (h : Heap) (a : Nat) (key : Str) : typeOfGen h a key = O.typeOf h a key := by
  unfold typeOfGen O.typeOf
  (repeat' split) <;> simp_all [Val.kind]

theorem keyExistsGen_eq (h : Heap) (a : Nat) (key : Str) : keyExistsGen h a key = O.keyExists h a key := by
  unfold keyExistsGen O.keyExists
  (repeat' split) <;> simp_all

theorem countGen_eq (h : Heap) (a : Nat) : countGen h a = O.count h a := rfl

theorem emptyGen_eq (h : Heap) (a : Nat) : emptyGen h a = O.empty h a := by
  simp only [emptyGen, O.empty, countGen_eq] <;> gen_case

/-! ### Dict, Keys, Values -/

theorem dictLoopGen_eq (h : Heap) (fs acc : List (Str × Val)) :
    dictLoopGen h fs acc = acc ++ fs.map (fun kv => (kv.1, h.getVal kv.2)) := by
  induction fs generalizing acc with
  | nil => simp [dictLoopGen]
  | cons x xs ih => obtain ⟨k, v⟩ := x; simp [dictLoopGen, ih]

theorem dictGen_eq (h : Heap) (a : Nat) : dictGen h a = O.dict h a := by
  simp [dictGen, O.dict, dictLoopGen_eq]

/-- appending a fresh empty cell changes no field list -/
theorem fields_append_fresh (h : Heap) (c : Cell) (hc : c = .obj [] 0 ∨ c = .list [] 0) (a : Nat) :
    (h ++ [c]).fields a = h.fields a := by
  rcases Nat.lt_trichotomy a h.length with hlt | heq | hgt
  · exact OH.fields_append_old h c hlt
  · subst heq
    have : h.fields h.length = [] := by simp [Heap.fields]
    rw [this]
    rcases hc with rfl | rfl <;> simp [Heap.fields]
  · have h1 : (h ++ [c])[a]? = none := by
      apply List.getElem?_eq_none; simp; omega
    have h2 : h[a]? = none := List.getElem?_eq_none (by omega)
    simp [Heap.fields, h1, h2]

theorem keysLoopGen_eq (h : Heap) (xs : List Val) (fs : List (Str × Val)) :
    keysLoopGen (h ++ [Cell.list xs 0]) h.length fs
      = h ++ [Cell.list (xs ++ fs.map (fun kv => .str kv.1)) 0] := by
  induction fs generalizing xs with
  | nil => simp [keysLoopGen]
  | cons x rest ih =>
    obtain ⟨k, v⟩ := x
    simp only [keysLoopGen]
    have : (h ++ [Cell.list xs 0]).setItems h.length ((h ++ [Cell.list xs 0]).items h.length ++ [Val.str k])
        = h ++ [Cell.list (xs ++ [.str k]) 0] := by
      simp [Heap.setItems, Heap.items]
    rw [this, ih]; simp

theorem keysGen_eq (h : Heap) (a : Nat) : keysGen h a = O.keys h a := by
  simp only [keysGen, O.keys, fields_append_fresh h _ (Or.inr rfl), keysLoopGen_eq, List.nil_append]

theorem valuesLoopGen_eq (h : Heap) (xs : List Val) (fs : List (Str × Val)) :
    valuesLoopGen (h ++ [Cell.list xs 0]) h.length fs
      = h ++ [Cell.list (xs ++ fs.map (fun kv => h.getVal kv.2)) 0] := by
  induction fs generalizing xs with
  | nil => simp [valuesLoopGen]
  | cons x rest ih =>
    obtain ⟨k, v⟩ := x
    simp only [valuesLoopGen]
    have : (h ++ [Cell.list xs 0]).setItems h.length
          ((h ++ [Cell.list xs 0]).items h.length ++ [(h ++ [Cell.list xs 0]).getVal v])
        = h ++ [Cell.list (xs ++ [h.getVal v]) 0] := by
      rw [OH.getVal_append_list]
      simp [Heap.setItems, Heap.items]
    rw [this, ih]; simp

theorem valuesGen_eq (h : Heap) (a : Nat) : valuesGen h a = O.values h a := by
  simp only [valuesGen, O.values, fields_append_fresh h _ (Or.inr rfl), valuesLoopGen_eq, List.nil_append]

/-! ### Contains, KeyOf -/

theorem containsLoopGen_eq (h : Heap) (value : Val) (fs : List (Str × Val)) :
    containsLoopGen h value fs = fs.any (fun kv => L.goEq (h.getVal kv.2) value) := by
  induction fs with
  | nil => simp [containsLoopGen]
  | cons x xs ih => obtain ⟨k, v⟩ := x; simp only [containsLoopGen, List.any_cons, ih]; gen_case

theorem containsGen_eq (h : Heap) (a : Nat) (value : Val) : containsGen h a value = O.contains h a value := by
  simp only [containsGen, O.contains, containsLoopGen_eq]

theorem keyOfLoopGen_eq (h : Heap) (value : Val) (fs : List (Str × Val)) :
    keyOfLoopGen h value fs
      = match fs.find? (fun kv => L.goEq (h.getVal kv.2) value) with
        | some kv => .ok kv.1
        | none => .panic .noValue := by
  induction fs with
  | nil => simp [keyOfLoopGen]
  | cons x xs ih =>
    obtain ⟨k, v⟩ := x
    cases hc : L.goEq (h.getVal v) value <;> simp [keyOfLoopGen, hc, ih]

theorem keyOfGen_eq (h : Heap) (a : Nat) (value : Val) : keyOfGen h a value = O.keyOf h a value := by
  simp only [keyOfGen, O.keyOf, keyOfLoopGen_eq] <;> rfl

/-! ### Pluck, Merge -/

theorem pluckLoopGen_eq (h : Heap) (a res : Nat) (keys : List Str) :
    pluckLoopGen h a res keys = O.pluckLoop h a res keys := by
  induction keys generalizing h with
  | nil => simp only [pluckLoopGen, O.pluckLoop]
  | cons k ks ih => simp only [pluckLoopGen, O.pluckLoop, getGen_eq, ih] <;> gen_case

theorem pluckGen_eq (h : Heap) (a : Nat) (keys : List Str) : pluckGen h a keys = O.pluck h a keys := by
  simp only [pluckGen, O.pluck, pluckLoopGen_eq] <;> gen_case

theorem mergeLoopGen_eq (h : Heap) (r : Ref) (fs : List (Str × Val)) :
    mergeLoopGen h r fs
      = h.setFields r.addr (fs.foldl (fun acc kv => setKV acc kv.1 (h.getVal kv.2)) (h.fields r.addr)) := by
  induction fs generalizing h with
  | nil => simp only [mergeLoopGen, List.foldl_nil, OH.setFields_fields_self]
  | cons x xs ih =>
    obtain ⟨k, v⟩ := x
    simp only [mergeLoopGen, ih, List.foldl_cons, OH.setFields_setFields, OH.getVal_setFields]
    cases ho : h.isObj r.addr with
    | true => rw [OH.fields_setFields_self ho]
    | false => simp only [OH.setFields_of_not_isObj ho]

theorem mergeGen_eq (h : Heap) (a another : Nat) : mergeGen h a another = O.merge h a another := by
  simp only [mergeGen, O.merge, mergeLoopGen_eq] <;> gen_case

/-! ### the ForEach family -/

theorem forEachLoopGen_eq (h : Heap) (fs log : List (Str × Val)) :
    forEachLoopGen h fs log = log ++ fs.map (fun kv => (kv.1, h.getVal kv.2)) := by
  induction fs generalizing log with
  | nil => simp [forEachLoopGen]
  | cons x xs ih => obtain ⟨k, v⟩ := x; simp [forEachLoopGen, ih]

theorem forEachGen_eq (h : Heap) (a : Nat) : forEachGen h a = O.forEach h a := by
  simp [forEachGen, O.forEach, forEachLoopGen_eq]

theorem forEachValueLoopGen_eq (h : Heap) (fs : List (Str × Val)) (log : List Val) :
    forEachValueLoopGen h fs log = log ++ fs.map (fun kv => h.getVal kv.2) := by
  induction fs generalizing log with
  | nil => simp [forEachValueLoopGen]
  | cons x xs ih => obtain ⟨k, v⟩ := x; simp [forEachValueLoopGen, ih]

theorem forEachValueGen_eq (h : Heap) (a : Nat) : forEachValueGen h a = O.forEachValue h a := by
  simp [forEachValueGen, O.forEachValue, O.forEach, forEachValueLoopGen_eq, Function.comp_def]

/-- one script for the six typed variants -/
local macro "foreach_k" loop:ident : tactic =>
  `(tactic| (
    intro h fs log
    induction fs generalizing log with
    | nil => simp only [$loop:ident, O.forEachKLoop]
    | cons x xs ih =>
      obtain ⟨k, v⟩ := x
      simp only [$loop:ident, O.forEachKLoop, ih] <;> gen_case))

theorem forEachObjectLoopGen_eq : ∀ (h : Heap) (fs : List (Str × Val)) (log : List Val),
    forEachObjectLoopGen h fs log = O.forEachKLoop h .object fs log := by foreach_k forEachObjectLoopGen
theorem forEachListLoopGen_eq : ∀ (h : Heap) (fs : List (Str × Val)) (log : List Val),
    forEachListLoopGen h fs log = O.forEachKLoop h .list fs log := by foreach_k forEachListLoopGen
theorem forEachStringLoopGen_eq : ∀ (h : Heap) (fs : List (Str × Val)) (log : List Val),
    forEachStringLoopGen h fs log = O.forEachKLoop h .string fs log := by foreach_k forEachStringLoopGen
theorem forEachBoolLoopGen_eq : ∀ (h : Heap) (fs : List (Str × Val)) (log : List Val),
    forEachBoolLoopGen h fs log = O.forEachKLoop h .bool fs log := by foreach_k forEachBoolLoopGen
theorem forEachIntLoopGen_eq : ∀ (h : Heap) (fs : List (Str × Val)) (log : List Val),
    forEachIntLoopGen h fs log = O.forEachKLoop h .int fs log := by foreach_k forEachIntLoopGen
theorem forEachFloatLoopGen_eq : ∀ (h : Heap) (fs : List (Str × Val)) (log : List Val),
    forEachFloatLoopGen h fs log = O.forEachKLoop h .float fs log := by foreach_k forEachFloatLoopGen

theorem forEachObjectGen_eq (h : Heap) (a : Nat) : forEachObjectGen h a = O.forEachK h a .object := by
  simp only [forEachObjectGen, O.forEachK, forEachObjectLoopGen_eq]
theorem forEachListGen_eq (h : Heap) (a : Nat) : forEachListGen h a = O.forEachK h a .list := by
  simp only [forEachListGen, O.forEachK, forEachListLoopGen_eq]
theorem forEachStringGen_eq (h : Heap) (a : Nat) : forEachStringGen h a = O.forEachK h a .string := by
  simp only [forEachStringGen, O.forEachK, forEachStringLoopGen_eq]
theorem forEachBoolGen_eq (h : Heap) (a : Nat) : forEachBoolGen h a = O.forEachK h a .bool := by
  simp only [forEachBoolGen, O.forEachK, forEachBoolLoopGen_eq]
theorem forEachIntGen_eq (h : Heap) (a : Nat) : forEachIntGen h a = O.forEachK h a .int := by
  simp only [forEachIntGen, O.forEachK, forEachIntLoopGen_eq]
theorem forEachFloatGen_eq (h : Heap) (a : Nat) : forEachFloatGen h a = O.forEachK h a .float := by
  simp only [forEachFloatGen, O.forEachK, forEachFloatLoopGen_eq]

/-! ### the Map family -/

theorem mapLoopGen_eq (f : Str → Val → GoVal) (res : Nat) (h : Heap) (fs : List (Str × Val)) :
    mapLoopGen h f res fs = O.mapLoop res f h fs := by
  induction fs generalizing h with
  | nil => simp only [mapLoopGen, O.mapLoop]
  | cons x xs ih => obtain ⟨k, v⟩ := x; simp only [mapLoopGen, O.mapLoop, ih] <;> gen_case

theorem mapGen_eq (h : Heap) (a : Nat) (f : Str → Val → GoVal) : mapGen h a f = O.map h a f := by
  simp only [mapGen, O.map, mapLoopGen_eq, fields_append_fresh h _ (Or.inl rfl)] <;> gen_case

theorem mapValuesLoopGen_eq (f : Val → GoVal) (res : Nat) (h : Heap) (fs : List (Str × Val)) :
    mapValuesLoopGen h f res fs = O.mapLoop res (fun _ v => f v) h fs := by
  induction fs generalizing h with
  | nil => simp only [mapValuesLoopGen, O.mapLoop]
  | cons x xs ih => obtain ⟨k, v⟩ := x; simp only [mapValuesLoopGen, O.mapLoop, ih] <;> gen_case

theorem mapValuesGen_eq (h : Heap) (a : Nat) (f : Val → GoVal) : mapValuesGen h a f = O.mapValues h a f := by
  simp only [mapValuesGen, O.mapValues, O.map, mapValuesLoopGen_eq, fields_append_fresh h _ (Or.inl rfl)] <;> gen_case

theorem viaGetValL_object : L.viaGetValL .object = false := rfl
theorem viaGetValL_list : L.viaGetValL .list = false := rfl
theorem viaGetValL_string : L.viaGetValL .string = true := rfl
theorem viaGetValL_bool : L.viaGetValL .bool = true := rfl
theorem viaGetValL_int : L.viaGetValL .int = true := rfl
theorem viaGetValL_float : L.viaGetValL .float = true := rfl

local macro "map_k" loop:ident : tactic =>
  `(tactic| (
    intro f res h fs
    induction fs generalizing h with
    | nil => simp only [$loop:ident, O.mapKLoop]
    | cons x xs ih =>
      obtain ⟨k, v⟩ := x
      simp only [$loop:ident, O.mapKLoop, ih, viaGetValL_object, viaGetValL_list, viaGetValL_string,
        viaGetValL_bool, viaGetValL_int, viaGetValL_float] <;> gen_case))

theorem mapObjectsLoopGen_eq : ∀ (f : Val → GoVal) (res : Nat) (h : Heap) (fs : List (Str × Val)),
    mapObjectsLoopGen h f res fs = O.mapKLoop res .object f h fs := by map_k mapObjectsLoopGen
theorem mapListsLoopGen_eq : ∀ (f : Val → GoVal) (res : Nat) (h : Heap) (fs : List (Str × Val)),
    mapListsLoopGen h f res fs = O.mapKLoop res .list f h fs := by map_k mapListsLoopGen
theorem mapStringsLoopGen_eq : ∀ (f : Val → GoVal) (res : Nat) (h : Heap) (fs : List (Str × Val)),
    mapStringsLoopGen h f res fs = O.mapKLoop res .string f h fs := by map_k mapStringsLoopGen
theorem mapBoolsLoopGen_eq : ∀ (f : Val → GoVal) (res : Nat) (h : Heap) (fs : List (Str × Val)),
    mapBoolsLoopGen h f res fs = O.mapKLoop res .bool f h fs := by map_k mapBoolsLoopGen
theorem mapIntsLoopGen_eq : ∀ (f : Val → GoVal) (res : Nat) (h : Heap) (fs : List (Str × Val)),
    mapIntsLoopGen h f res fs = O.mapKLoop res .int f h fs := by map_k mapIntsLoopGen
theorem mapFloatsLoopGen_eq : ∀ (f : Val → GoVal) (res : Nat) (h : Heap) (fs : List (Str × Val)),
    mapFloatsLoopGen h f res fs = O.mapKLoop res .float f h fs := by map_k mapFloatsLoopGen

theorem mapObjectsGen_eq (h : Heap) (a : Nat) (f : Val → GoVal) : mapObjectsGen h a f = O.mapK h a .object f := by
  simp only [mapObjectsGen, O.mapK, mapObjectsLoopGen_eq, fields_append_fresh h _ (Or.inl rfl)] <;> gen_case
theorem mapListsGen_eq (h : Heap) (a : Nat) (f : Val → GoVal) : mapListsGen h a f = O.mapK h a .list f := by
  simp only [mapListsGen, O.mapK, mapListsLoopGen_eq, fields_append_fresh h _ (Or.inl rfl)] <;> gen_case
theorem mapStringsGen_eq (h : Heap) (a : Nat) (f : Val → GoVal) : mapStringsGen h a f = O.mapK h a .string f := by
  simp only [mapStringsGen, O.mapK, mapStringsLoopGen_eq, fields_append_fresh h _ (Or.inl rfl)] <;> gen_case
theorem mapBoolsGen_eq (h : Heap) (a : Nat) (f : Val → GoVal) : mapBoolsGen h a f = O.mapK h a .bool f := by
  simp only [mapBoolsGen, O.mapK, mapBoolsLoopGen_eq, fields_append_fresh h _ (Or.inl rfl)] <;> gen_case
theorem mapIntsGen_eq (h : Heap) (a : Nat) (f : Val → GoVal) : mapIntsGen h a f = O.mapK h a .int f := by
  simp only [mapIntsGen, O.mapK, mapIntsLoopGen_eq, fields_append_fresh h _ (Or.inl rfl)] <;> gen_case
theorem mapFloatsGen_eq (h : Heap) (a : Nat) (f : Val → GoVal) : mapFloatsGen h a f = O.mapK h a .float f := by
  simp only [mapFloatsGen, O.mapK, mapFloatsLoopGen_eq, fields_append_fresh h _ (Or.inl rfl)] <;> gen_case

/-! ### parseVal -/

theorem parseValGen_eq (h : Heap) (g : GoVal) : parseValGen h g = parseVal h g := by
  cases g with
  | intw w v => cases w <;> simp only [parseValGen, parseVal]
  | slice fl xs =>
    cases fl <;> simp only [parseValGen, L.newFrom] <;> rw [parseVal] <;> gen_case
  | map fl kvs =>
    cases fl <;> simp only [parseValGen, O.newFrom] <;> rw [parseVal] <;> gen_case
  | _ => simp only [parseValGen, parseVal]

/-! ### NewObjectFrom -/

/-- a loop `for key, value := range s { ego.Set(key, value) }` is `setEach` -/
local macro "set_each" loop:ident : tactic =>
  `(tactic| (
    intro kvs
    induction kvs with
    | nil => intro h; simp only [$loop:ident, setEach]
    | cons x xs ih =>
      intro h
      obtain ⟨k, g⟩ := x
      simp only [$loop:ident, setEach, ih] <;> gen_case))

theorem newObjectFromLoopGen_eq (a : Nat) : ∀ (kvs : List (Str × GoVal)) (h : Heap),
    newObjectFromLoopGen h a kvs = setEach h a kvs := by set_each newObjectFromLoopGen
theorem newObjectFromLoop2Gen_eq (a : Nat) : ∀ (kvs : List (Str × GoVal)) (h : Heap),
    newObjectFromLoop2Gen h a kvs = setEach h a kvs := by set_each newObjectFromLoop2Gen
theorem newObjectFromLoop3Gen_eq (a : Nat) : ∀ (kvs : List (Str × GoVal)) (h : Heap),
    newObjectFromLoop3Gen h a kvs = setEach h a kvs := by set_each newObjectFromLoop3Gen
theorem newObjectFromLoop4Gen_eq (a : Nat) : ∀ (kvs : List (Str × GoVal)) (h : Heap),
    newObjectFromLoop4Gen h a kvs = setEach h a kvs := by set_each newObjectFromLoop4Gen
theorem newObjectFromLoop5Gen_eq (a : Nat) : ∀ (kvs : List (Str × GoVal)) (h : Heap),
    newObjectFromLoop5Gen h a kvs = setEach h a kvs := by set_each newObjectFromLoop5Gen
theorem newObjectFromLoop6Gen_eq (a : Nat) : ∀ (kvs : List (Str × GoVal)) (h : Heap),
    newObjectFromLoop6Gen h a kvs = setEach h a kvs := by set_each newObjectFromLoop6Gen
theorem newObjectFromLoop7Gen_eq (a : Nat) : ∀ (kvs : List (Str × GoVal)) (h : Heap),
    newObjectFromLoop7Gen h a kvs = setEach h a kvs := by set_each newObjectFromLoop7Gen

/-- `NewObjectFrom`, translated from the source, is the model's `O.newFrom` -/
theorem newObjectFromGen_eq (h : Heap) (g : GoVal) : newObjectFromGen h g = O.newFrom h g := by
  cases g with
  | map fl kvs =>
    cases fl <;>
      simp only [newObjectFromGen, O.newFrom, parseVal, newObjectFromLoopGen_eq, newObjectFromLoop2Gen_eq,
        newObjectFromLoop3Gen_eq, newObjectFromLoop4Gen_eq, newObjectFromLoop5Gen_eq, newObjectFromLoop6Gen_eq,
        newObjectFromLoop7Gen_eq] <;>
      (cases setEach (h ++ [Cell.obj [] 0]) h.length kvs with
       | mk h1 r => cases r <;> rfl)
  | _ => rfl

/-! ### native -/

mutual
theorem nativeGen_eq : ∀ t : JVal, nativeGen t = toNative t
  | .null => by simp only [nativeGen, toNative]
  | .bool _ => by simp only [nativeGen, toNative]
  | .int _ => by simp only [nativeGen, toNative]
  | .float _ => by simp only [nativeGen, toNative]
  | .str _ => by simp only [nativeGen, toNative]
  | .list xs => by simp only [nativeGen, toNative, nativeListGen_eq xs]
  | .obj kvs => by simp only [nativeGen, toNative, nativeFieldsGen_eq kvs]
theorem nativeListGen_eq : ∀ xs : List JVal, nativeListGen xs = toNativeList xs
  | [] => by simp only [nativeListGen, toNativeList]
  | x :: xs => by simp only [nativeListGen, toNativeList, nativeGen_eq x, nativeListGen_eq xs]
theorem nativeFieldsGen_eq : ∀ kvs : List (Str × JVal), nativeFieldsGen kvs = toNativeFields kvs
  | [] => by simp only [nativeFieldsGen, toNativeFields]
  | (k, x) :: kvs => by simp only [nativeFieldsGen, toNativeFields, nativeGen_eq x, nativeFieldsGen_eq kvs]
end

end Anytype

#print axioms Anytype.setGen_eq
#print axioms Anytype.newGen_eq
#print axioms Anytype.getGen_eq
#print axioms Anytype.unsetGen_eq
#print axioms Anytype.clearGen_eq
#print axioms Anytype.getObjectGen_eq
#print axioms Anytype.getListGen_eq
#print axioms Anytype.getStringGen_eq
#print axioms Anytype.getBoolGen_eq
#print axioms Anytype.getIntGen_eq
#print axioms Anytype.getFloatGen_eq
#print axioms Anytype.typeOfGen_eq
#print axioms Anytype.keyExistsGen_eq
#print axioms Anytype.countGen_eq
#print axioms Anytype.emptyGen_eq
#print axioms Anytype.dictGen_eq
#print axioms Anytype.keysGen_eq
#print axioms Anytype.valuesGen_eq
#print axioms Anytype.containsGen_eq
#print axioms Anytype.keyOfGen_eq
#print axioms Anytype.pluckGen_eq
#print axioms Anytype.mergeGen_eq
#print axioms Anytype.forEachGen_eq
#print axioms Anytype.forEachValueGen_eq
#print axioms Anytype.forEachObjectGen_eq
#print axioms Anytype.forEachListGen_eq
#print axioms Anytype.forEachStringGen_eq
#print axioms Anytype.forEachBoolGen_eq
#print axioms Anytype.forEachIntGen_eq
#print axioms Anytype.forEachFloatGen_eq
#print axioms Anytype.mapGen_eq
#print axioms Anytype.mapValuesGen_eq
#print axioms Anytype.mapObjectsGen_eq
#print axioms Anytype.mapListsGen_eq
#print axioms Anytype.mapStringsGen_eq
#print axioms Anytype.mapBoolsGen_eq
#print axioms Anytype.mapIntsGen_eq
#print axioms Anytype.mapFloatsGen_eq
#print axioms Anytype.parseValGen_eq
#print axioms Anytype.newObjectFromGen_eq
#print axioms Anytype.nativeGen_eq
#print axioms Anytype.nativeListGen_eq
#print axioms Anytype.nativeFieldsGen_eq
