/-
`float64(i)` of a 64-bit `int` is finite: the analysis of `F64.roundPos n 1` for `0 < n ≤ 2^63`.

With `L = log2 n` the first exponent guess is `L - 53`, where the quotient lies in `[2^53, 2^54)`;
the first correction step moves to `L - 52`, where it lies in `[2^52, 2^53)`, the second step
stays. The final rounding at an exponent `-1074 ≤ e ≤ 970` with a quotient below `2^53` always
yields a pattern below `2047 · 2^52` (exponent field `< 2047`, sign bit clear), and `withSign`
only sets bit 63.
-/
import Anytype.Lemmas.Float32
namespace Anytype
namespace F64
open F32 (stepE finish roundPos_staged)

/-! ### the final rounding -/

/-- at an exponent `-1074 ≤ e ≤ 970` with quotient `< 2^53` the final rounding of `roundPos`
succeeds and the pattern is below `2047 · 2^52` -/
theorem finish_some_lt (n d : Nat) (e : Int) (he1 : -1074 ≤ e) (he2 : e ≤ 970)
    (hq : (scaled n d e).1 / (scaled n d e).2 < 2 ^ 53) :
    ∃ b, finish n d e = some b ∧ b.toNat < 2047 * 2 ^ 52 := by
  unfold finish
  simp only []
  generalize (scaled n d e).1 = a at *
  generalize (scaled n d e).2 = b at *
  generalize hqq : a / b = q at *
  generalize a % b = r at *
  generalize hq' : (if 2 * r > b then q + 1 else if 2 * r < b then q else
      (if q % 2 = 1 then q + 1 else q)) = q'
  have hq'le : q' ≤ 2 ^ 53 := by
    rw [← hq']; split
    · omega
    · split
      · omega
      · split <;> omega
  by_cases hc : q' = 2 ^ 53
  · rw [if_pos hc]
    simp only []
    rw [if_neg (by omega), if_neg (by omega)]
    refine ⟨_, rfl, ?_⟩
    rw [UInt64.toNat_ofNat', Nat.shiftLeft_eq]
    have : (e + 1 + 1075).toNat ≤ 2046 := by omega
    generalize (e + 1 + 1075).toNat = E at *
    omega
  · rw [if_neg hc]
    simp only []
    rw [if_neg (by omega)]
    by_cases hs : q' < 2 ^ 52
    · rw [if_pos hs]
      refine ⟨_, rfl, ?_⟩
      rw [UInt64.toNat_ofNat']
      omega
    · rw [if_neg hs]
      refine ⟨_, rfl, ?_⟩
      rw [UInt64.toNat_ofNat', Nat.shiftLeft_eq]
      have : (e + 1075).toNat ≤ 2045 := by omega
      generalize (e + 1075).toNat = E at *
      omega

/-! ### the quotient at exponent `L - m` when the denominator is 1 -/

theorem quot_one_bounds (n L m : Nat) (e : Int) (he : e = (L : Int) - (m : Int))
    (h1 : 2 ^ L ≤ n) (h2 : n < 2 ^ (L + 1)) :
    2 ^ m ≤ (scaled n 1 e).1 / (scaled n 1 e).2 ∧ (scaled n 1 e).1 / (scaled n 1 e).2 < 2 ^ (m + 1) := by
  unfold scaled
  by_cases hp : e ≥ 0
  · rw [if_pos hp]
    simp only [Nat.one_mul]
    obtain ⟨k, hk⟩ : ∃ k : Nat, e.toNat = k := ⟨_, rfl⟩
    have hL : L = m + k := by omega
    rw [hk]
    have hkpos : 0 < 2 ^ k := Nat.two_pow_pos k
    constructor
    · rw [Nat.le_div_iff_mul_le hkpos, ← Nat.pow_add, ← hL]; exact h1
    · rw [Nat.div_lt_iff_lt_mul hkpos, ← Nat.pow_add]
      have : m + 1 + k = L + 1 := by omega
      rw [this]; exact h2
  · rw [if_neg hp]
    simp only [Nat.div_one]
    obtain ⟨k, hk⟩ : ∃ k : Nat, (-e).toNat = k := ⟨_, rfl⟩
    have hm : m = L + k := by omega
    rw [hk]
    have hkpos : 0 < 2 ^ k := Nat.two_pow_pos k
    constructor
    · rw [hm, Nat.pow_add]; exact Nat.mul_le_mul_right _ h1
    · have : m + 1 = L + 1 + k := by omega
      rw [this, Nat.pow_add]; exact Nat.mul_lt_mul_of_pos_right h2 hkpos

/-! ### `roundPos n 1` for `0 < n ≤ 2^63` -/

theorem roundPos_one_lt (n : Nat) (h0 : n ≠ 0) (hn : n ≤ 2 ^ 63) :
    ∃ b, roundPos n 1 = some b ∧ b.toNat < 2047 * 2 ^ 52 := by
  obtain ⟨L, hL⟩ : ∃ L, n.log2 = L := ⟨_, rfl⟩
  have hl1 : 2 ^ L ≤ n := hL ▸ Nat.log2_self_le h0
  have hl2 : n < 2 ^ (L + 1) := by have := @Nat.lt_log2_self n; rwa [hL] at this
  have hL63 : L ≤ 63 := by
    have : n.log2 < 64 := (Nat.log2_lt h0).2 (by omega)
    omega
  have hb1 : bitLen n = L + 1 := by simp [bitLen, h0, hL]
  have hb2 : bitLen 1 = 1 := by decide
  have hA := quot_one_bounds n L 53 ((L : Int) - 53) (by omega) hl1 hl2
  have hB := quot_one_bounds n L 52 ((L : Int) - 52) (by omega) hl1 hl2
  have s1 : stepE n 1 ((L : Int) - 53) = (L : Int) - 52 := by
    unfold stepE
    simp only []
    rw [if_neg (by omega), if_pos (by omega)]
    omega
  have s2 : stepE n 1 ((L : Int) - 52) = (L : Int) - 52 := by
    unfold stepE
    simp only []
    rw [if_neg (by omega), if_neg (by omega)]
  have he0 : (((L + 1 : Nat) : Int) - ((1 : Nat) : Int) - 53) = (L : Int) - 53 := by omega
  rw [roundPos_staged _ _ h0, hb1, hb2, he0]
  simp only [s1, s2]
  rw [if_neg (by omega)]
  exact finish_some_lt n 1 _ (by omega) (by omega) hB.2

/-! ### the exponent field of a signed pattern -/

theorem withSign_expBits_lt (s : Bool) (b : UInt64) (hb : b.toNat < 2047 * 2 ^ 52) :
    (withSign s ⟨b⟩).expBits < 2047 := by
  cases s
  · rw [withSign_false, expBits_nat]
    show b.toNat / 2 ^ 52 % 2 ^ 11 < 2047
    omega
  · have h := withSign_true_bits ⟨b⟩ (show b.toNat < 2 ^ 63 by omega)
    rw [expBits_nat, h]
    show (b.toNat + 2 ^ 63) / 2 ^ 52 % 2 ^ 11 < 2047
    omega

/-- Go `float64(i)` of an `int` is finite -/
theorem ofInt_finite (i : Int) (h : InRange i) : (ofInt i).isFinite = true := by
  unfold InRange at h
  by_cases h0 : i.natAbs = 0
  · have : i = 0 := by omega
    subst this; decide
  · obtain ⟨b, hb, hlt⟩ := roundPos_one_lt i.natAbs h0 (by omega)
    have := withSign_expBits_lt (decide (i < 0)) b hlt
    unfold ofInt roundRat
    rw [hb]
    simp only [Option.map_some, isFinite, bne_iff_ne, ne_eq]
    omega

end F64
end Anytype
