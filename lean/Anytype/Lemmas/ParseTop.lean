/-
Entry points `ParseList` / `ParseObject` on serialised containers.
-/
import Anytype.Lemmas.RoundTrip
namespace Anytype
namespace RT

theorem encode_cons (c : Char) (s : Str) : encode (c :: s) = encodeChar c ++ encode s := by
  simp [encode]

theorem encode_ser_list (xs : List JVal) :
    encode (ser (.list xs)) = 0x5B :: encode (serList xs ++ [']']) := by
  simp only [ser]
  rfl

theorem encode_ser_obj (kvs : List (Str × JVal)) :
    encode (ser (.obj kvs)) = 0x7B :: encode (serFields kvs ++ ['}']) := by
  simp only [ser]
  rfl

theorem split_list (xs : List JVal) :
    splitAtByte 0x5B (encode (ser (.list xs))) = some ([], encode (serList xs ++ [']'])) := by
  rw [encode_ser_list]; simp [splitAtByte]

theorem split_obj (kvs : List (Str × JVal)) :
    splitAtByte 0x7B (encode (ser (.obj kvs))) = some ([], encode (serFields kvs ++ ['}'])) := by
  rw [encode_ser_obj]; simp [splitAtByte]

theorem runList_ser (hf : FmtContract) (xs : List JVal) (hw : (JVal.list xs).WF) (line : Nat) :
    runList (encode (serList xs ++ [']'])) line = .ok (.list xs) [] line := by
  unfold runList
  simp only [decodeAll_encode]
  have := nested_all hf (.list xs) hw [] line
  have e : (serList xs ++ [']']).map some = I (serList xs) ++ [some ']'] := by simp [I]
  rw [e]
  exact this _ (by omega)

theorem runObject_ser (hf : FmtContract) (kvs : List (Str × JVal)) (hw : (JVal.obj kvs).WF) (line : Nat) :
    runObject (encode (serFields kvs ++ ['}'])) line = .ok (.obj kvs) [] line := by
  unfold runObject
  simp only [decodeAll_encode]
  have := nested_all hf (.obj kvs) hw [] line
  have e : (serFields kvs ++ ['}']).map some = I (serFields kvs) ++ [some '}'] := by simp [I]
  rw [e]
  exact this _ (by omega)

theorem parseList_ser (hf : FmtContract) (xs : List JVal) (hw : (JVal.list xs).WF) :
    parseListBytes (encode (ser (.list xs))) = .ok (.list xs) := by
  unfold parseListBytes
  rw [split_list]
  simp only [runList_ser hf xs hw]

theorem parseObject_ser (hf : FmtContract) (kvs : List (Str × JVal)) (hw : (JVal.obj kvs).WF) :
    parseObjectBytes (encode (ser (.obj kvs))) = .ok (.obj kvs) := by
  unfold parseObjectBytes
  rw [split_obj]
  simp only [runObject_ser hf kvs hw]

end RT
end Anytype
