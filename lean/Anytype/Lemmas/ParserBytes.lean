/-
Byte-level facts about the entry points: `splitAtByte`, prefixes of the input, and the shape of an
accepting / rejecting top-level run.
-/
import Anytype.Lemmas.ParserLine
import Anytype.Lemmas.Utf8Prefix
namespace Anytype

/-! ### `splitAtByte` -/

theorem splitAtByte_some {b : UInt8} : ∀ {bs pre post : List UInt8},
    splitAtByte b bs = some (pre, post) → bs = pre ++ b :: post ∧ b ∉ pre := by
  intro bs
  induction bs with
  | nil => intro pre post h; simp only [splitAtByte] at h; cases h
  | cons x xs ih =>
    intro pre post h
    simp only [splitAtByte] at h
    split at h
    · rename_i hx
      injection h with h; injection h with h1 h2
      subst h1 h2
      simp only [beq_iff_eq] at hx
      subst hx
      exact ⟨rfl, List.not_mem_nil⟩
    · rename_i hx
      cases hr : splitAtByte b xs with
      | none => rw [hr] at h; cases h
      | some pp =>
        obtain ⟨pre', post'⟩ := pp
        rw [hr] at h
        injection h with h; injection h with h1 h2
        subst h1 h2
        obtain ⟨e, hn⟩ := ih hr
        refine ⟨by rw [e]; rfl, ?_⟩
        intro hm
        rcases List.mem_cons.1 hm with rfl | hm
        · simp at hx
        · exact hn hm

theorem splitAtByte_of_not_mem {b : UInt8} : ∀ {bs : List UInt8}, b ∉ bs → splitAtByte b bs = none := by
  intro bs
  induction bs with
  | nil => intro _; rfl
  | cons x xs ih =>
    intro h
    have hx : (x == b) = false := by
      simp only [beq_eq_false_iff_ne, ne_eq]; intro e; exact h (e ▸ List.mem_cons_self)
    simp only [splitAtByte, hx, ih (fun hm => h (List.mem_cons_of_mem _ hm))]
    rfl

theorem splitAtByte_append {b : UInt8} : ∀ {pre : List UInt8} (post : List UInt8), b ∉ pre →
    splitAtByte b (pre ++ b :: post) = some (pre, post) := by
  intro pre
  induction pre with
  | nil => intro post _; simp only [List.nil_append, splitAtByte, beq_self_eq_true, if_true]
  | cons x xs ih =>
    intro post h
    have hx : (x == b) = false := by
      simp only [beq_eq_false_iff_ne, ne_eq]; intro e; exact h (e ▸ List.mem_cons_self)
    simp only [List.cons_append, splitAtByte, hx, ih post (fun hm => h (List.mem_cons_of_mem _ hm))]
    rfl

/-- a prefix of `pre ++ b :: post` either lies within `pre` or contains `pre ++ [b]` -/
theorem prefix_split {b : UInt8} : ∀ {pre post p : List UInt8}, p <+: pre ++ b :: post →
    p <+: pre ∨ ∃ post', p = pre ++ b :: post' ∧ post' <+: post := by
  intro pre
  induction pre with
  | nil =>
    intro post p h
    rcases List.prefix_cons_iff.1 h with rfl | ⟨t, rfl, ht⟩
    · exact .inl (List.prefix_refl _)
    · exact .inr ⟨t, rfl, ht⟩
  | cons x xs ih =>
    intro post p h
    rcases List.prefix_cons_iff.1 h with rfl | ⟨t, rfl, ht⟩
    · exact .inl (List.nil_prefix)
    · rcases ih ht with h' | ⟨post', rfl, h'⟩
      · exact .inl (List.cons_prefix_cons.2 ⟨rfl, h'⟩)
      · exact .inr ⟨post', rfl, h'⟩

theorem not_mem_of_prefix {b : UInt8} {p pre : List UInt8} (h : p <+: pre) (hb : b ∉ pre) : b ∉ p :=
  fun hm => hb (h.subset hm)

/-! ### the entry points in terms of `exec` -/

theorem parseListBytes_ok {bs v} (h : parseListBytes bs = .ok v) :
    ∃ pre post rest l, splitAtByte 0x5B bs = some (pre, post) ∧
      runList post (countNL pre + 1) = .ok v rest l := by
  unfold parseListBytes at h
  split at h
  · cases h
  · rename_i pre post hs
    split at h
    · rename_i v' rest l hr
      injection h with h; subst h
      exact ⟨pre, post, rest, l, hs, hr⟩
    · cases h

theorem parseObjectBytes_ok {bs v} (h : parseObjectBytes bs = .ok v) :
    ∃ pre post rest l, splitAtByte 0x7B bs = some (pre, post) ∧
      runObject post (countNL pre + 1) = .ok v rest l := by
  unfold parseObjectBytes at h
  split at h
  · cases h
  · rename_i pre post hs
    split at h
    · rename_i v' rest l hr
      injection h with h; subst h
      exact ⟨pre, post, rest, l, hs, hr⟩
    · cases h

theorem parseListBytes_error {bs e} (h : parseListBytes bs = .error e) :
    (splitAtByte 0x5B bs = none ∧ e = ⟨.missingBracket, none⟩) ∨
    ∃ pre post, splitAtByte 0x5B bs = some (pre, post) ∧ runList post (countNL pre + 1) = .err e := by
  unfold parseListBytes at h
  split at h
  · rename_i hs; injection h with h; exact .inl ⟨hs, h.symm⟩
  · rename_i pre post hs
    split at h
    · cases h
    · rename_i e' hr
      injection h with h; subst h
      exact .inr ⟨pre, post, hs, hr⟩

theorem parseObjectBytes_error {bs e} (h : parseObjectBytes bs = .error e) :
    (splitAtByte 0x7B bs = none ∧ e = ⟨.missingBracket, none⟩) ∨
    ∃ pre post, splitAtByte 0x7B bs = some (pre, post) ∧ runObject post (countNL pre + 1) = .err e := by
  unfold parseObjectBytes at h
  split at h
  · rename_i hs; injection h with h; exact .inl ⟨hs, h.symm⟩
  · rename_i pre post hs
    split at h
    · cases h
    · rename_i e' hr
      injection h with h; subst h
      exact .inr ⟨pre, post, hs, hr⟩

theorem parseListBytes_of_runList_err {pre post : List UInt8} {e}
    (hp : (0x5B : UInt8) ∉ pre) (h : runList post (countNL pre + 1) = .err e) :
    parseListBytes (pre ++ 0x5B :: post) = .error e := by
  simp only [parseListBytes, splitAtByte_append post hp, h]

theorem parseObjectBytes_of_runObject_err {pre post : List UInt8} {e}
    (hp : (0x7B : UInt8) ∉ pre) (h : runObject post (countNL pre + 1) = .err e) :
    parseObjectBytes (pre ++ 0x7B :: post) = .error e := by
  simp only [parseObjectBytes, splitAtByte_append post hp, h]

/-! ### cutting the consumed region at byte level -/

/-- the generic byte-level cut lemma: `cb` is a byte string whose items the machine consumed
exactly; a proper byte prefix of `cb` is never accepted, whatever the fuel -/
theorem exec_cut_bytes {σ line v l'} {cb post' : List UInt8}
    (hrun : Run σ line (decodeAll cb) v l') (hpre : post' <+: cb) (hne : post' ≠ cb)
    (f : Nat) (v' r' l'') : exec f (decodeAll post') σ line ≠ .ok v' r' l'' := by
  obtain ⟨b, rfl⟩ := hpre
  have hb : b ≠ [] := by
    intro hb; subst hb; exact hne (List.append_nil _).symm
  obtain ⟨p', tail, q, e1, e2, hq, ht⟩ := decodeAll_append post'.length post' b (Nat.le_refl _) hb
  rw [e1]
  exact hrun.prefix_fails p' q e2 hq f tail ht v' r' l''

theorem parseListBytes_cut {pre cb post' : List UInt8} {v l'} (hp : (0x5B : UInt8) ∉ pre)
    (hrun : Run .newL (countNL pre + 1) (decodeAll cb) v l') (hpre : post' <+: cb) (hne : post' ≠ cb) :
    ∃ e, parseListBytes (pre ++ 0x5B :: post') = .error e := by
  cases hr : runList post' (countNL pre + 1) with
  | err e => exact ⟨e, parseListBytes_of_runList_err hp hr⟩
  | ok v' r' l'' =>
    rw [runList_eq_exec] at hr
    exact absurd hr (exec_cut_bytes hrun hpre hne _ _ _ _)

theorem parseObjectBytes_cut {pre cb post' : List UInt8} {v l'} (hp : (0x7B : UInt8) ∉ pre)
    (hrun : Run .newO (countNL pre + 1) (decodeAll cb) v l') (hpre : post' <+: cb) (hne : post' ≠ cb) :
    ∃ e, parseObjectBytes (pre ++ 0x7B :: post') = .error e := by
  cases hr : runObject post' (countNL pre + 1) with
  | err e => exact ⟨e, parseObjectBytes_of_runObject_err hp hr⟩
  | ok v' r' l'' =>
    rw [runObject_eq_exec] at hr
    exact absurd hr (exec_cut_bytes hrun hpre hne _ _ _ _)

theorem parseListBytes_no_bracket {p : List UInt8} (h : (0x5B : UInt8) ∉ p) :
    parseListBytes p = .error ⟨.missingBracket, none⟩ := by
  simp only [parseListBytes, splitAtByte_of_not_mem h]

theorem parseObjectBytes_no_bracket {p : List UInt8} (h : (0x7B : UInt8) ∉ p) :
    parseObjectBytes p = .error ⟨.missingBracket, none⟩ := by
  simp only [parseObjectBytes, splitAtByte_of_not_mem h]

/-- the bytes an accepting run consumed: a byte prefix `cb` of the input ending at a character
boundary -/
theorem exec_ok_bytes {f : Nat} {post : List UInt8} {σ line v rest l}
    (h : exec f (decodeAll post) σ line = .ok v rest l) :
    ∃ cb restb, post = cb ++ restb ∧ decodeAll restb = rest ∧
      decodeAll post = decodeAll cb ++ rest ∧ Run σ line (decodeAll cb) v l ∧
      countNL cb = nlCount (decodeAll cb) := by
  obtain ⟨c, hc, hrun⟩ := exec_ok_run f h
  obtain ⟨cb, restb, e1, e2, e3, e4⟩ := decodeAll_split c post rest hrun.all_some hc
  subst e2
  exact ⟨cb, restb, e1, e3, hc, hrun, e4⟩

/-- the position of a syntax error in bytes: the error character starts right after the byte
prefix `cb`, and the cited line is the initial line plus the number of 0x0A bytes in `cb` -/
theorem DetectedAt.bytes {post : List UInt8} {line k L}
    (h : DetectedAt (decodeAll post) line k L) :
    ∃ cb restb e, post = cb ++ restb ∧ (decodeAll restb).head? = some (some e) ∧
      none ∉ decodeAll cb ∧ L = line + countNL cb ∧ ErrAt k e := by
  obtain ⟨pos, e, h1, h2, h3, h4⟩ := h
  obtain ⟨cb, restb, e1, e2, e3, e4⟩ :=
    decodeAll_split ((decodeAll post).take pos) post ((decodeAll post).drop pos) h2
      (List.take_append_drop _ _).symm
  refine ⟨cb, restb, e, e1, ?_, ?_, ?_, h4⟩
  · rw [e3, List.head?_drop, h1]
  · rw [e2]; exact fun hm => h2 _ hm rfl
  · rw [h3]; exact congrArg _ e4.symm

theorem countNL_split (b : UInt8) (hb : b ≠ 0x0A) (pre cb : List UInt8) :
    countNL (pre ++ b :: cb) = countNL pre + countNL cb := by
  have : (b == (0x0A : UInt8)) = false := by simp [hb]
  simp [countNL, List.count_append, List.count_cons, this]

theorem PRes.err_of_not_ok {r : PRes} (h : ∀ v rest l, r ≠ .ok v rest l) : ∃ e, r = .err e := by
  cases r with
  | ok v rest l => exact absurd rfl (h v rest l)
  | err e => exact ⟨e, rfl⟩

end Anytype
