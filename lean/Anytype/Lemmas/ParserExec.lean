/-
A uniform small-step presentation of the two parser machines `pList` / `pObject`.

`step σ c line` says what the machine does in configuration `σ` on a well-formed character `c`
(`line` is the line counter after `c` has been counted): go to another configuration, return,
fail, or call a nested machine and continue with its result.  `exec` interprets `step` on fuel;
`pList_eq_exec` / `pObject_eq_exec` show that it is the model's pair of machines.  All generic
properties (fuel, prefixes, line numbers) are then proved once, about `exec`.
-/
import Anytype.Model.Parser
namespace Anytype

/-- a configuration of either machine (everything but the input, the fuel and the line) -/
inductive Cfg
  | L (st : LSt) (acc : List JVal) (val : Str) (iv : Bool)
  | O (st : OSt) (acc : List (Str × JVal)) (key val : Str) (iv : Bool)

inductive Action
  | goto (σ : Cfg)
  | ret (v : JVal)
  | fail (e : PErr)
  | call (callee : Cfg) (k : JVal → Cfg)

def Cfg.newL : Cfg := .L .val [] [] false
def Cfg.newO : Cfg := .O .keyStart [] [] [] false

def stepL (st : LSt) (acc : List JVal) (val : Str) (inVal : Bool) (c : Char) (line : Nat) : Action :=
  match st with
  | .val =>
    if isSpace c then .goto (.L .val acc val inVal)
    else if !inVal && c == '"' then .goto (.L .str acc val inVal)
    else if !inVal && c == '{' then .call .newO (fun o => .L .val (acc ++ [o]) val inVal)
    else if !inVal && c == '[' then .call .newL (fun l => .L .val (acc ++ [l]) val inVal)
    else if c == ',' || c == ']' then
      if !val.isEmpty then
        match parseField val line with
        | .error e => .fail e
        | .ok f =>
          if c == ']' then .ret (.list (acc ++ [f]))
          else .goto (.L .val (acc ++ [f]) [] false)
      else
        if c == ']' then .ret (.list acc)
        else .goto (.L .val acc val inVal)
    else .goto (.L .val acc (val ++ [c]) true)
  | .str =>
    if c == '\\' then .goto (.L .esc acc val inVal)
    else if c == '"' then .goto (.L .afterStr (acc ++ [.str (unquoteJSON val)]) [] inVal)
    else .goto (.L .str acc (val ++ [c]) inVal)
  | .esc => .goto (.L .str acc (val ++ ['\\', c]) inVal)
  | .afterStr =>
    if c == ',' then .goto (.L .val acc val inVal)
    else if c == ']' then .ret (.list acc)
    else .goto (.L .afterStr acc val inVal)

def stepO (st : OSt) (acc : List (Str × JVal)) (key val : Str) (inVal : Bool) (c : Char) (line : Nat) :
    Action :=
  match st with
  | .keyStart =>
    if isSpace c then .goto (.O .keyStart acc key val inVal)
    else if c == '}' then .ret (.obj acc)
    else if c == '"' then .goto (.O .key acc [] val inVal)
    else .fail ⟨.expectQuote, some line⟩
  | .key =>
    if c == '"' then .goto (.O .afterKey acc key val inVal)
    else if c == '\\' then .goto (.O .keyEsc acc key val inVal)
    else .goto (.O .key acc (key ++ [c]) val inVal)
  | .keyEsc => .goto (.O .key acc (key ++ ['\\', c]) val inVal)
  | .afterKey =>
    if isSpace c then .goto (.O .afterKey acc key val inVal)
    else if c != ':' then .fail ⟨.expectColon, some line⟩
    else .goto (.O .val acc (unquoteJSON key) [] false)
  | .val =>
    if isSpace c then .goto (.O .val acc key val inVal)
    else if !inVal && c == '"' then .goto (.O .str acc key val inVal)
    else if !inVal && c == '{' then
      .call .newO (fun o => .O .afterVal (setField acc key o) key val inVal)
    else if !inVal && c == '[' then
      .call .newL (fun l => .O .afterVal (setField acc key l) key val inVal)
    else if c == ',' || c == '}' then
      if !val.isEmpty then
        match parseField val line with
        | .error e => .fail e
        | .ok f =>
          if c == ',' then .goto (.O .keyStart (setField acc key f) key val inVal)
          else .ret (.obj (setField acc key f))
      else
        if c == ',' then .goto (.O .keyStart acc key val inVal)
        else .ret (.obj acc)
    else .goto (.O .val acc key (val ++ [c]) true)
  | .afterVal =>
    if isSpace c then .goto (.O .afterVal acc key val inVal)
    else if c == ',' then .goto (.O .keyStart acc key val inVal)
    else if c == '}' then .ret (.obj acc)
    else if c == '"' then .goto (.O .key acc [] val inVal)
    else .fail ⟨.expectCommaBrace, some line⟩
  | .str =>
    if c == '\\' then .goto (.O .esc acc key val inVal)
    else if c == '"' then .goto (.O .afterStr (setField acc key (.str (unquoteJSON val))) key val inVal)
    else .goto (.O .str acc key (val ++ [c]) inVal)
  | .esc => .goto (.O .str acc key (val ++ ['\\', c]) inVal)
  | .afterStr =>
    if c == ',' then .goto (.O .keyStart acc key val inVal)
    else if c == '}' then .ret (.obj acc)
    else .goto (.O .afterStr acc key val inVal)

def step : Cfg → Char → Nat → Action
  | .L st acc val iv, c, line => stepL st acc val iv c line
  | .O st acc key val iv, c, line => stepO st acc key val iv c line

/-- the generic machine -/
def exec : Nat → List Item → Cfg → Nat → PRes
  | 0, _, _, _ => .err ⟨.fuel, none⟩
  | _ + 1, [], _, _ => .err ⟨.unexpectedEnd, none⟩
  | _ + 1, none :: _, _, _ => .err ⟨.notUtf8, none⟩
  | fuel + 1, some c :: rest, σ, line0 =>
    match step σ c (bumpLine c line0) with
    | .goto σ' => exec fuel rest σ' (bumpLine c line0)
    | .ret v => .ok v rest (bumpLine c line0)
    | .fail e => .err e
    | .call σc k =>
      match exec fuel rest σc (bumpLine c line0) with
      | .err e => .err e
      | .ok o rest' line' => exec fuel rest' (k o) line'

theorem pMachines_eq_exec (f : Nat) :
    (∀ items st acc val iv line,
      pList f items st acc val iv line = exec f items (.L st acc val iv) line) ∧
    (∀ items st acc key val iv line,
      pObject f items st acc key val iv line = exec f items (.O st acc key val iv) line) := by
  induction f with
  | zero => constructor <;> intros <;> simp only [pList, pObject, exec]
  | succ f ih =>
    obtain ⟨ihL, ihO⟩ := ih
    constructor
    · intro items st acc val iv line
      match items with
      | [] => simp only [pList, exec]
      | none :: _ => simp only [pList, exec]
      | some c :: rest =>
        cases st <;> simp only [pList, exec, step, stepL, ihL, ihO, Cfg.newL, Cfg.newO] <;>
          repeat' split
        all_goals (first | rfl | (injections <;> subst_vars <;> first | rfl | simp_all))
    · intro items st acc key val iv line
      match items with
      | [] => simp only [pObject, exec]
      | none :: _ => simp only [pObject, exec]
      | some c :: rest =>
        cases st <;> simp only [pObject, exec, step, stepO, ihL, ihO, Cfg.newL, Cfg.newO] <;>
          repeat' split
        all_goals (first | rfl | (injections <;> subst_vars <;> first | rfl | simp_all))

theorem pList_eq_exec (f items st acc val iv line) :
    pList f items st acc val iv line = exec f items (.L st acc val iv) line :=
  (pMachines_eq_exec f).1 items st acc val iv line

theorem pObject_eq_exec (f items st acc key val iv line) :
    pObject f items st acc key val iv line = exec f items (.O st acc key val iv) line :=
  (pMachines_eq_exec f).2 items st acc key val iv line

/-! ### unfolding `exec` along one step -/

theorem exec_zero (items σ line) : exec 0 items σ line = .err ⟨.fuel, none⟩ := by
  simp only [exec]

theorem exec_nil (f σ line) : exec (f + 1) [] σ line = .err ⟨.unexpectedEnd, none⟩ := by
  simp only [exec]

theorem exec_none (f t σ line) : exec (f + 1) (none :: t) σ line = .err ⟨.notUtf8, none⟩ := by
  simp only [exec]

theorem exec_goto {σ c line σ'} (h : step σ c (bumpLine c line) = .goto σ') (f rest) :
    exec (f + 1) (some c :: rest) σ line = exec f rest σ' (bumpLine c line) := by
  simp only [exec, h]

theorem exec_ret {σ c line v} (h : step σ c (bumpLine c line) = .ret v) (f rest) :
    exec (f + 1) (some c :: rest) σ line = .ok v rest (bumpLine c line) := by
  simp only [exec, h]

theorem exec_fail {σ c line e} (h : step σ c (bumpLine c line) = .fail e) (f rest) :
    exec (f + 1) (some c :: rest) σ line = .err e := by
  simp only [exec, h]

theorem exec_call {σ c line σc k} (h : step σ c (bumpLine c line) = .call σc k) (f rest) :
    exec (f + 1) (some c :: rest) σ line =
      match exec f rest σc (bumpLine c line) with
      | .err e => .err e
      | .ok o rest' line' => exec f rest' (k o) line' := by
  simp only [exec, h]

/-! ### the failing steps -/

/-- what the character at which a syntax error of kind `k` is detected looks like -/
def ErrAt (k : PErrKind) (e : Char) : Prop :=
  e ≠ '\n' ∧
  (k = .invalidValue ∨ k = .expectQuote ∨ k = .expectColon ∨ k = .expectCommaBrace) ∧
  (k = .invalidValue → e = ',' ∨ e = ']' ∨ e = '}') ∧
  (k = .expectQuote → isSpace e = false ∧ e ≠ '}' ∧ e ≠ '"') ∧
  (k = .expectColon → isSpace e = false ∧ e ≠ ':') ∧
  (k = .expectCommaBrace → isSpace e = false ∧ e ≠ ',' ∧ e ≠ '}' ∧ e ≠ '"')

theorem parseField_error {val line e} (h : parseField val line = .error e) :
    e = ⟨.invalidValue, some line⟩ := by
  unfold parseField at h
  repeat' split at h
  all_goals (cases h <;> rfl)

theorem isSpace_nl : isSpace '\n' = true := by decide

theorem ErrAt.invalid {c : Char} (h : c = ',' ∨ c = ']' ∨ c = '}') : ErrAt .invalidValue c := by
  refine ⟨?_, .inl rfl, fun _ => h, ?_, ?_, ?_⟩
  · rcases h with h | h | h <;> subst h <;> decide
  all_goals (intro h; cases h)

theorem ne_nl_of_not_space {c : Char} (h : isSpace c = false) : c ≠ '\n' := by
  intro hc; subst hc; simp [isSpace_nl] at h

theorem ErrAt.quote {c : Char} (h1 : isSpace c = false) (h2 : c ≠ '}') (h3 : c ≠ '"') :
    ErrAt .expectQuote c := by
  refine ⟨ne_nl_of_not_space h1, .inr (.inl rfl), ?_, fun _ => ⟨h1, h2, h3⟩, ?_, ?_⟩
  all_goals (intro h; cases h)

theorem ErrAt.colon {c : Char} (h1 : isSpace c = false) (h2 : c ≠ ':') : ErrAt .expectColon c := by
  refine ⟨ne_nl_of_not_space h1, .inr (.inr (.inl rfl)), ?_, ?_, fun _ => ⟨h1, h2⟩, ?_⟩
  all_goals (intro h; cases h)

theorem ErrAt.commaBrace {c : Char} (h1 : isSpace c = false) (h2 : c ≠ ',') (h3 : c ≠ '}')
    (h4 : c ≠ '"') : ErrAt .expectCommaBrace c := by
  refine ⟨ne_nl_of_not_space h1, .inr (.inr (.inr rfl)), ?_, ?_, ?_, fun _ => ⟨h1, h2, h3, h4⟩⟩
  all_goals (intro h; cases h)

theorem step_fail {σ c line k ol} (h : step σ c line = .fail ⟨k, ol⟩) :
    ol = some line ∧ ErrAt k c := by
  cases σ with
  | L st acc val iv =>
    cases st <;> simp only [step, stepL] at h <;> repeat' split at h
    all_goals first
      | (injection h; done)
      | (injection h with h; subst h
         have hp := parseField_error ‹_›
         injection hp with h1 h2; subst h1 h2
         exact ⟨rfl, ErrAt.invalid (by simp_all; grind)⟩)
  | O st acc key val iv =>
    cases st <;> simp only [step, stepO] at h <;> repeat' split at h
    all_goals first
      | (injection h; done)
      | (injection h with h; subst h
         have hp := parseField_error ‹_›
         injection hp with h1 h2; subst h1 h2
         exact ⟨rfl, ErrAt.invalid (by simp_all; grind)⟩)
      | (injection h with h; injection h with h1 h2; subst h1 h2
         first
          | exact ⟨rfl, ErrAt.quote (by simp_all) (by simp_all) (by simp_all)⟩
          | exact ⟨rfl, ErrAt.colon (by simp_all) (by simp_all)⟩
          | exact ⟨rfl, ErrAt.commaBrace (by simp_all) (by simp_all) (by simp_all) (by simp_all)⟩)

end Anytype
