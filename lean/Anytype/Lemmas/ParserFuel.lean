/-
Fuel lemmas for the parser machines: an ok result consumes at least one item, results other than
the fuel sentinel do not depend on the fuel (monotonicity), and `items.length + 1` is enough fuel.
Stated for the generic `exec` and exported for `pList` / `pObject` / `runList` / `runObject`.
-/
import Anytype.Lemmas.ParserExec
namespace Anytype

/-- the result is not the model's fuel sentinel -/
def PRes.NotFuel (r : PRes) : Prop := ∀ l, r ≠ .err ⟨.fuel, l⟩

theorem PRes.notFuel_ok (v rest l) : (PRes.ok v rest l).NotFuel := fun _ h => by cases h

theorem ErrAt.ne_fuel {k e} (h : ErrAt k e) : k ≠ .fuel := by
  rcases h.2.1 with h | h | h | h <;> subst h <;> intro h' <;> cases h'

theorem step_fail_notFuel {σ c line e} (h : step σ c line = .fail e) : (PRes.err e).NotFuel := by
  intro l he
  injection he with he
  subst he
  exact (step_fail h).2.ne_fuel rfl

/-! ### an ok result consumed something -/

theorem exec_ok_length : ∀ (f : Nat) {items σ line v rest l'},
    exec f items σ line = .ok v rest l' → rest.length < items.length := by
  intro f
  induction f with
  | zero => intro items σ line v rest l' h; rw [exec_zero] at h; cases h
  | succ f ih =>
    intro items σ line v rest l' h
    match items with
    | [] => rw [exec_nil] at h; cases h
    | none :: t => rw [exec_none] at h; cases h
    | some c :: t =>
      cases hs : step σ c (bumpLine c line) with
      | goto σ' =>
        rw [exec_goto hs] at h
        have := ih h
        simp only [List.length_cons]; omega
      | ret v' =>
        rw [exec_ret hs] at h
        injection h with _ h2 _
        subst h2
        simp only [List.length_cons]; omega
      | fail e => rw [exec_fail hs] at h; cases h
      | call σc k =>
        rw [exec_call hs] at h
        cases hi : exec f t σc (bumpLine c line) with
        | err e => rw [hi] at h; cases h
        | ok o r' l'' =>
          rw [hi] at h
          have h1 := ih hi
          have h2 := ih h
          simp only [List.length_cons]; omega

/-! ### fuel monotonicity -/

theorem exec_mono : ∀ (f : Nat) {items σ line r},
    exec f items σ line = r → r.NotFuel → ∀ f', f ≤ f' → exec f' items σ line = r := by
  intro f
  induction f with
  | zero => intro items σ line r h hr; rw [exec_zero] at h; exact absurd h.symm (hr none)
  | succ f ih =>
    intro items σ line r h hr f' hf'
    obtain ⟨f'', rfl⟩ : ∃ f'', f' = f'' + 1 := ⟨f' - 1, by omega⟩
    have hle : f ≤ f'' := by omega
    match items with
    | [] => rw [exec_nil] at h ⊢; exact h
    | none :: t => rw [exec_none] at h ⊢; exact h
    | some c :: t =>
      cases hs : step σ c (bumpLine c line) with
      | goto σ' => rw [exec_goto hs] at h ⊢; exact ih h hr f'' hle
      | ret v' => rw [exec_ret hs] at h ⊢; exact h
      | fail e => rw [exec_fail hs] at h ⊢; exact h
      | call σc k =>
        rw [exec_call hs] at h ⊢
        cases hi : exec f t σc (bumpLine c line) with
        | err e =>
          rw [hi] at h
          subst h
          rw [ih hi hr f'' hle]
        | ok o r' l'' =>
          rw [hi] at h
          rw [ih hi (PRes.notFuel_ok _ _ _) f'' hle]
          exact ih h hr f'' hle

/-- two runs on the same input that both avoid the fuel sentinel agree -/
theorem exec_agree {f₁ f₂ items σ line r₁ r₂}
    (h₁ : exec f₁ items σ line = r₁) (h₂ : exec f₂ items σ line = r₂)
    (n₁ : r₁.NotFuel) (n₂ : r₂.NotFuel) : r₁ = r₂ := by
  have a := exec_mono f₁ h₁ n₁ (max f₁ f₂) (Nat.le_max_left _ _)
  have b := exec_mono f₂ h₂ n₂ (max f₁ f₂) (Nat.le_max_right _ _)
  rw [← a, ← b]

/-! ### enough fuel -/

theorem exec_total : ∀ (f : Nat) (items σ line),
    items.length < f → (exec f items σ line).NotFuel := by
  intro f
  induction f with
  | zero => intro items σ line h; omega
  | succ f ih =>
    intro items σ line hlen
    match items with
    | [] => rw [exec_nil]; intro l h; cases h
    | none :: t => rw [exec_none]; intro l h; cases h
    | some c :: t =>
      simp only [List.length_cons] at hlen
      cases hs : step σ c (bumpLine c line) with
      | goto σ' => rw [exec_goto hs]; exact ih _ _ _ (by omega)
      | ret v' => rw [exec_ret hs]; exact PRes.notFuel_ok _ _ _
      | fail e => rw [exec_fail hs]; exact step_fail_notFuel hs
      | call σc k =>
        rw [exec_call hs]
        cases hi : exec f t σc (bumpLine c line) with
        | err e =>
          have := ih t σc (bumpLine c line) (by omega)
          rw [hi] at this
          exact this
        | ok o r' l'' =>
          have := exec_ok_length f hi
          exact ih _ _ _ (by omega)

/-! ### exported forms for the model's machines -/

theorem pList_ok_length {f items st acc val iv line v rest l'}
    (h : pList f items st acc val iv line = .ok v rest l') : rest.length < items.length := by
  rw [pList_eq_exec] at h; exact exec_ok_length f h

theorem pObject_ok_length {f items st acc key val iv line v rest l'}
    (h : pObject f items st acc key val iv line = .ok v rest l') : rest.length < items.length := by
  rw [pObject_eq_exec] at h; exact exec_ok_length f h

/-- fuel monotonicity of `pList`: any result other than the fuel sentinel is stable under more fuel -/
theorem pList_mono {f items st acc val iv line r}
    (h : pList f items st acc val iv line = r) (hr : r.NotFuel) {f' : Nat} (hf : f ≤ f') :
    pList f' items st acc val iv line = r := by
  rw [pList_eq_exec] at h ⊢; exact exec_mono f h hr f' hf

theorem pObject_mono {f items st acc key val iv line r}
    (h : pObject f items st acc key val iv line = r) (hr : r.NotFuel) {f' : Nat} (hf : f ≤ f') :
    pObject f' items st acc key val iv line = r := by
  rw [pObject_eq_exec] at h ⊢; exact exec_mono f h hr f' hf

/-- `items.length + 1` (or more) fuel is always enough -/
theorem pList_total {f : Nat} {items : List Item} (hf : items.length + 1 ≤ f) (st acc val iv line) :
    (pList f items st acc val iv line).NotFuel := by
  rw [pList_eq_exec]; exact exec_total f _ _ _ (by omega)

theorem pObject_total {f : Nat} {items : List Item} (hf : items.length + 1 ≤ f)
    (st acc key val iv line) : (pObject f items st acc key val iv line).NotFuel := by
  rw [pObject_eq_exec]; exact exec_total f _ _ _ (by omega)

/-- with enough fuel the result is the one `items.length + 1` gives -/
theorem pList_fuel_irrelevant {f : Nat} {items : List Item} (hf : items.length + 1 ≤ f)
    (st acc val iv line) :
    pList f items st acc val iv line = pList (items.length + 1) items st acc val iv line :=
  pList_mono rfl (pList_total (Nat.le_refl _) st acc val iv line) hf

theorem pObject_fuel_irrelevant {f : Nat} {items : List Item} (hf : items.length + 1 ≤ f)
    (st acc key val iv line) :
    pObject f items st acc key val iv line =
      pObject (items.length + 1) items st acc key val iv line :=
  pObject_mono rfl (pObject_total (Nat.le_refl _) st acc key val iv line) hf

theorem runList_eq_exec (post line) :
    runList post line = exec ((decodeAll post).length + 1) (decodeAll post) .newL line := by
  simp only [runList, pList_eq_exec, Cfg.newL]

theorem runObject_eq_exec (post line) :
    runObject post line = exec ((decodeAll post).length + 1) (decodeAll post) .newO line := by
  simp only [runObject, pObject_eq_exec, Cfg.newO]

theorem runList_notFuel (post line) : (runList post line).NotFuel :=
  pList_total (Nat.le_refl _) _ _ _ _ _

theorem runObject_notFuel (post line) : (runObject post line).NotFuel :=
  pObject_total (Nat.le_refl _) _ _ _ _ _ _

end Anytype
