/-
The definitions that `vextract` translates from the Go source of the parser
(`Anytype/Generated/ParserGen.lean`, regenerated on every run) are equal to the hand-written
model (`Model/Parser.lean`) that all the parser theorems are about.

The proofs are generic scripts: unfold both sides one step, rewrite the recursive calls with the
induction hypothesis, and, where the two decision trees are not syntactically the same, split all
the tests and let `simp_all` compare the leaves (or refute the path).  They do not mention any
detail of the generated code, so they survive regeneration and shape-preserving edits of the Go
source, and fail when the translated behaviour differs from the model.
-/
import Anytype.Generated.ParserGen
namespace Anytype

open Generated

/-- closes one case of the step: syntactic agreement, or exhaustive splitting -/
local macro "gen_case" : tactic =>
  `(tactic| first
    | rfl
    | (repeat' split) <;> first | rfl | (simp_all; done))

theorem parseFieldGen_eq (field : Str) (line : Nat) :
    parseFieldGen field line = parseField field line := by
  unfold parseFieldGen parseField
  gen_case

theorem pGen_eq_aux (fuel : Nat) :
    (∀ items st acc val iv line,
      pListGen fuel items st acc val iv line = pList fuel items st acc val iv line) ∧
    (∀ items st acc key val iv line,
      pObjectGen fuel items st acc key val iv line = pObject fuel items st acc key val iv line) := by
  induction fuel with
  | zero => constructor <;> intros <;> simp only [pListGen, pList, pObjectGen, pObject]
  | succ n ih =>
    obtain ⟨ihL, ihO⟩ := ih
    constructor
    · intro items st acc val iv line
      match items with
      | [] => simp only [pListGen, pList]
      | none :: _ => simp only [pListGen, pList]
      | some c :: rest =>
        cases st <;> simp only [pListGen, pList, ihL, ihO] <;> gen_case
    · intro items st acc key val iv line
      match items with
      | [] => simp only [pObjectGen, pObject]
      | none :: _ => simp only [pObjectGen, pObject]
      | some c :: rest =>
        cases st <;> simp only [pObjectGen, pObject, ihL, ihO] <;> gen_case

theorem pListGen_eq (fuel : Nat) (items : List Item) (st : LSt) (acc : List JVal) (val : Str)
    (iv : Bool) (line : Nat) :
    pListGen fuel items st acc val iv line = pList fuel items st acc val iv line :=
  (pGen_eq_aux fuel).1 items st acc val iv line

theorem pObjectGen_eq (fuel : Nat) (items : List Item) (st : OSt) (acc : List (Str × JVal))
    (key val : Str) (iv : Bool) (line : Nat) :
    pObjectGen fuel items st acc key val iv line = pObject fuel items st acc key val iv line :=
  (pGen_eq_aux fuel).2 items st acc key val iv line

theorem runListGen_eq (post : List UInt8) (l : Nat) : runListGen post l = runList post l := by
  simp only [runListGen, runList, pListGen_eq] <;> gen_case

theorem runObjectGen_eq (post : List UInt8) (l : Nat) : runObjectGen post l = runObject post l := by
  simp only [runObjectGen, runObject, pObjectGen_eq] <;> gen_case

theorem parseListBytesGen_eq (bs : List UInt8) : parseListBytesGen bs = parseListBytes bs := by
  simp only [parseListBytesGen, parseListBytes, runListGen_eq] <;> gen_case

theorem parseObjectBytesGen_eq (bs : List UInt8) : parseObjectBytesGen bs = parseObjectBytes bs := by
  simp only [parseObjectBytesGen, parseObjectBytes, runObjectGen_eq] <;> gen_case

/-! ### the escape table of `quoteJSON`

The Go loop runs over bytes, the model over characters.  The generated table is the `switch` of the
byte loop read for a byte `< 0x80` (where byte and character coincide); it is compared with the
model's `escChar` on exactly those characters by exhaustive evaluation.  (For the other characters
both sides copy the character — on the Go side because every test of the `switch` is false for a
byte `≥ 0x80`, which the translator checks.) -/

theorem escCharGen_eq_ascii :
    ∀ n : Fin 128, escCharGen (Char.ofNat n) = escChar (Char.ofNat n) := by
  decide +kernel

theorem escCharGen_eq (c : Char) (h : c.toNat < 128) : escCharGen c = escChar c := by
  have := escCharGen_eq_ascii ⟨c.toNat, h⟩
  simpa only [Char.ofNat_toNat] using this

theorem escCharGen_eq_all (c : Char) : escCharGen c = escChar c := by
  by_cases h : c.toNat < 128
  · exact escCharGen_eq c h
  · unfold escCharGen escChar
    (repeat' split) <;> first | rfl | (exfalso; simp_all; done) | (exfalso; omega)

theorem quoteJSONGen_eq (s : Str) : quoteJSONGen s = quoteJSON s := by
  have : escCharGen = escChar := funext escCharGen_eq_all
  simp [quoteJSONGen, quoteJSON, quoteBody, this]

end Anytype

#print axioms Anytype.pListGen_eq
#print axioms Anytype.pObjectGen_eq
#print axioms Anytype.parseFieldGen_eq
#print axioms Anytype.parseListBytesGen_eq
#print axioms Anytype.parseObjectBytesGen_eq
#print axioms Anytype.escCharGen_eq
#print axioms Anytype.quoteJSONGen_eq
