/-
Line numbers cited by syntax errors: the error is detected at a well-formed character `e` at some
position `pos`, everything before it is well-formed, and the cited line is the initial line counter
plus the number of newline characters before `pos`.
-/
import Anytype.Lemmas.ParserPrefix
namespace Anytype

/-- an error of kind `k` citing line `L`, for a machine started on `items` with line counter `line` -/
def DetectedAt (items : List Item) (line : Nat) (k : PErrKind) (L : Nat) : Prop :=
  ∃ (pos : Nat) (e : Char), items[pos]? = some (some e) ∧ (∀ it ∈ items.take pos, it ≠ none) ∧
    L = line + nlCount (items.take pos) ∧ ErrAt k e

theorem DetectedAt.cons {t : List Item} {ch : Char} {line k L}
    (h : DetectedAt t (bumpLine ch line) k L) : DetectedAt (some ch :: t) line k L := by
  obtain ⟨pos, e, h1, h2, h3, h4⟩ := h
  refine ⟨pos + 1, e, by rw [List.getElem?_cons_succ]; exact h1, ?_, ?_, h4⟩
  · intro it hit
    rw [List.take_succ_cons] at hit
    rcases List.mem_cons.1 hit with rfl | hit
    · exact Option.some_ne_none _
    · exact h2 it hit
  · rw [List.take_succ_cons, h3]; exact nlCount_cons_some ch _ line

theorem DetectedAt.append {c r : List Item} {line k L} (hc : ∀ it ∈ c, it ≠ none)
    (h : DetectedAt r (line + nlCount c) k L) : DetectedAt (c ++ r) line k L := by
  obtain ⟨pos, e, h1, h2, h3, h4⟩ := h
  have htake : (c ++ r).take (c.length + pos) = c ++ r.take pos := List.take_length_add_append pos
  refine ⟨c.length + pos, e, ?_, ?_, ?_, h4⟩
  · rw [List.getElem?_append_right (by omega)]
    simpa using h1
  · intro it hit
    rw [htake] at hit
    rcases List.mem_append.1 hit with hit | hit
    · exact hc it hit
    · exact h2 it hit
  · rw [htake, nlCount_append, h3]; omega

theorem nlCount_take_succ {items : List Item} {pos : Nat} {e : Char}
    (h : items[pos]? = some (some e)) (he : e ≠ '\n') :
    nlCount (items.take (pos + 1)) = nlCount (items.take pos) := by
  rw [List.take_add_one, nlCount_append, h]
  have : (some e == some '\n') = false := by simp [he]
  simp [nlCount, List.count_cons, this]

theorem bumpLine_of_ne {c : Char} (h : c ≠ '\n') (line : Nat) : bumpLine c line = line := by
  simp [bumpLine, h]

/-- a syntax error that cites a line -/
theorem exec_err_line : ∀ (f : Nat) {items σ line k L},
    exec f items σ line = .err ⟨k, some L⟩ → DetectedAt items line k L := by
  intro f
  induction f with
  | zero => intro items σ line k L h; rw [exec_zero] at h; cases h
  | succ f ih =>
    intro items σ line k L h
    match items with
    | [] => rw [exec_nil] at h; cases h
    | none :: t => rw [exec_none] at h; cases h
    | some ch :: t =>
      cases hs : step σ ch (bumpLine ch line) with
      | goto σ' => rw [exec_goto hs] at h; exact (ih h).cons
      | ret v' => rw [exec_ret hs] at h; cases h
      | fail e =>
        rw [exec_fail hs] at h
        injection h with h
        subst h
        obtain ⟨h1, h2⟩ := step_fail hs
        injection h1 with h1
        refine ⟨0, ch, rfl, ?_, ?_, h2⟩
        · intro it hit; simp at hit
        · rw [h1, bumpLine_of_ne h2.1]; simp [nlCount_nil]
      | call σc k' =>
        rw [exec_call hs] at h
        cases hi : exec f t σc (bumpLine ch line) with
        | err e =>
          rw [hi] at h
          injection h with h
          subst h
          exact (ih hi).cons
        | ok o r' l'' =>
          rw [hi] at h
          obtain ⟨c₁, rfl, hc₁⟩ := exec_ok_run f hi
          have hd := ih h
          rw [hc₁.line_eq] at hd
          exact (hd.append hc₁.all_some).cons

/-- errors that cite no line are the three non-syntax ones -/
theorem exec_err_noline : ∀ (f : Nat) {items σ line k},
    exec f items σ line = .err ⟨k, none⟩ → k = .notUtf8 ∨ k = .unexpectedEnd ∨ k = .fuel := by
  intro f
  induction f with
  | zero => intro items σ line k h; rw [exec_zero] at h; cases h; exact .inr (.inr rfl)
  | succ f ih =>
    intro items σ line k h
    match items with
    | [] => rw [exec_nil] at h; cases h; exact .inr (.inl rfl)
    | none :: t => rw [exec_none] at h; cases h; exact .inl rfl
    | some ch :: t =>
      cases hs : step σ ch (bumpLine ch line) with
      | goto σ' => rw [exec_goto hs] at h; exact ih h
      | ret v' => rw [exec_ret hs] at h; cases h
      | fail e =>
        rw [exec_fail hs] at h
        injection h with h
        subst h
        have := (step_fail hs).1
        cases this
      | call σc k' =>
        rw [exec_call hs] at h
        cases hi : exec f t σc (bumpLine ch line) with
        | err e =>
          rw [hi] at h
          injection h with h
          subst h
          exact ih hi
        | ok o r' l'' =>
          rw [hi] at h
          exact ih h

end Anytype
