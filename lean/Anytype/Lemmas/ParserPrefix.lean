/-
The region a parser machine consumes.

`Run σ line c v line'` : started in configuration `σ` with line counter `line`, the machine reads
exactly the items `c`, returns `v` on the last of them, with line counter `line'` (fuel-free
big-step semantics).  An ok result of `exec` gives a `Run` over a prefix of the input
(`exec_ok_run`); a `Run` is made of well-formed characters only, counts the newlines, can be
replayed in front of any tail (locality) and none of its proper prefixes — alone or followed by an
ill-formed item — is accepted.
-/
import Anytype.Lemmas.ParserFuel
namespace Anytype

/-- number of newline characters among items -/
def nlCount (c : List Item) : Nat := c.count (some '\n')

theorem nlCount_nil : nlCount [] = 0 := rfl

theorem nlCount_cons_some (ch : Char) (c : List Item) (line : Nat) :
    bumpLine ch line + nlCount c = line + nlCount (some ch :: c) := by
  unfold bumpLine nlCount
  by_cases h : ch = '\n'
  · subst h; simp only [beq_self_eq_true, if_true, List.count_cons_self]; omega
  · have h' : (some ch == some '\n') = false := by simp [h]
    simp only [beq_iff_eq, h, if_false, List.count_cons, h']; simp

theorem nlCount_append (a b : List Item) : nlCount (a ++ b) = nlCount a + nlCount b := by
  simp only [nlCount, List.count_append]

inductive Run : Cfg → Nat → List Item → JVal → Nat → Prop
  | ret {σ ch line v} :
      step σ ch (bumpLine ch line) = .ret v → Run σ line [some ch] v (bumpLine ch line)
  | goto {σ ch line σ' c v line'} :
      step σ ch (bumpLine ch line) = .goto σ' → Run σ' (bumpLine ch line) c v line' →
      Run σ line (some ch :: c) v line'
  | call {σ ch line σc k c₁ o l₁ c₂ v line'} :
      step σ ch (bumpLine ch line) = .call σc k → Run σc (bumpLine ch line) c₁ o l₁ →
      Run (k o) l₁ c₂ v line' → Run σ line (some ch :: (c₁ ++ c₂)) v line'

/-- an ok result reads a `Run` and returns what follows it -/
theorem exec_ok_run : ∀ (f : Nat) {items σ line v rest l'},
    exec f items σ line = .ok v rest l' → ∃ c, items = c ++ rest ∧ Run σ line c v l' := by
  intro f
  induction f with
  | zero => intro items σ line v rest l' h; rw [exec_zero] at h; cases h
  | succ f ih =>
    intro items σ line v rest l' h
    match items with
    | [] => rw [exec_nil] at h; cases h
    | none :: t => rw [exec_none] at h; cases h
    | some ch :: t =>
      cases hs : step σ ch (bumpLine ch line) with
      | goto σ' =>
        rw [exec_goto hs] at h
        obtain ⟨c, rfl, hc⟩ := ih h
        exact ⟨some ch :: c, rfl, .goto hs hc⟩
      | ret v' =>
        rw [exec_ret hs] at h
        injection h with h1 h2 h3
        subst h1 h2 h3
        exact ⟨[some ch], rfl, .ret hs⟩
      | fail e => rw [exec_fail hs] at h; cases h
      | call σc k =>
        rw [exec_call hs] at h
        cases hi : exec f t σc (bumpLine ch line) with
        | err e => rw [hi] at h; cases h
        | ok o r' l'' =>
          rw [hi] at h
          obtain ⟨c₁, rfl, hc₁⟩ := ih hi
          obtain ⟨c₂, rfl, hc₂⟩ := ih h
          exact ⟨some ch :: (c₁ ++ c₂), by simp only [List.cons_append, List.append_assoc],
            .call hs hc₁ hc₂⟩

theorem Run.ne_nil {σ line c v l'} (h : Run σ line c v l') : c ≠ [] := by
  cases h <;> exact List.cons_ne_nil _ _

theorem Run.all_some {σ line c v l'} (h : Run σ line c v l') : ∀ it ∈ c, it ≠ none := by
  induction h with
  | ret _ => intro it hit; simp only [List.mem_singleton] at hit; subst hit; exact Option.some_ne_none _
  | goto _ _ ih =>
    intro it hit
    rcases List.mem_cons.1 hit with rfl | hit
    · exact Option.some_ne_none _
    · exact ih it hit
  | call _ _ _ ih₁ ih₂ =>
    intro it hit
    rcases List.mem_cons.1 hit with rfl | hit
    · exact Option.some_ne_none _
    · rcases List.mem_append.1 hit with hit | hit
      · exact ih₁ it hit
      · exact ih₂ it hit

/-- the returned line counter is the initial one plus the newlines read -/
theorem Run.line_eq {σ line c v l'} (h : Run σ line c v l') : l' = line + nlCount c := by
  induction h with
  | @ret σ ch line v _ => have := nlCount_cons_some ch [] line; simp only [nlCount_nil] at this; omega
  | @goto σ ch line σ' c v line' _ _ ih => rw [ih]; exact nlCount_cons_some ch c line
  | @call σ ch line σc k c₁ o l₁ c₂ v line' _ _ _ ih₁ ih₂ =>
    rw [ih₂, ih₁, ← nlCount_cons_some ch (c₁ ++ c₂) line, nlCount_append]; omega

/-- locality: a run can be replayed in front of any tail, with any fuel exceeding its length -/
theorem Run.replay {σ line c v l'} (h : Run σ line c v l') :
    ∀ (t : List Item) (f : Nat), c.length < f → exec f (c ++ t) σ line = .ok v t l' := by
  induction h with
  | ret hs =>
    intro t f hf
    obtain ⟨f', rfl⟩ : ∃ f', f = f' + 1 := ⟨f - 1, by omega⟩
    exact exec_ret hs f' t
  | goto hs _ ih =>
    intro t f hf
    obtain ⟨f', rfl⟩ : ∃ f', f = f' + 1 := ⟨f - 1, by omega⟩
    simp only [List.length_cons] at hf
    rw [List.cons_append, exec_goto hs]
    exact ih t f' (by omega)
  | call hs _ _ ih₁ ih₂ =>
    intro t f hf
    obtain ⟨f', rfl⟩ : ∃ f', f = f' + 1 := ⟨f - 1, by omega⟩
    simp only [List.length_cons, List.length_append] at hf
    rw [List.cons_append, exec_call hs, List.append_assoc, ih₁ _ f' (by omega)]
    exact ih₂ t f' (by omega)

/-- an input that ends, or continues with an ill-formed item, is not accepted from here -/
theorem exec_tail_fails {tail : List Item} (ht : tail = [] ∨ tail.head? = some none)
    (f σ line v r l) : exec f tail σ line ≠ .ok v r l := by
  intro h
  cases f with
  | zero => rw [exec_zero] at h; cases h
  | succ f =>
    match tail, ht with
    | [], _ => rw [exec_nil] at h; cases h
    | none :: t, _ => rw [exec_none] at h; cases h
    | some c :: t, ht => simp at ht

/-- no proper prefix of a run, alone or followed by an ill-formed item, is accepted -/
theorem Run.prefix_fails {σ line c v l'} (h : Run σ line c v l') :
    ∀ (p q : List Item), c = p ++ q → q ≠ [] →
      ∀ (f : Nat) (tail : List Item), (tail = [] ∨ tail.head? = some none) →
        ∀ v' r' l'', exec f (p ++ tail) σ line ≠ .ok v' r' l'' := by
  induction h with
  | @ret σ ch line v hs =>
    intro p q hpq hq f tail ht v' r' l''
    match p with
    | [] => rw [List.nil_append]; exact exec_tail_fails ht _ _ _ _ _ _
    | x :: p' =>
      simp only [List.cons_append, List.cons.injEq] at hpq
      have := hpq.2
      simp only [List.nil_eq, List.append_eq_nil_iff] at this
      exact absurd this.2 hq
  | @goto σ ch line σ' c v line' hs _ ih =>
    intro p q hpq hq f tail ht v' r' l''
    match p with
    | [] => rw [List.nil_append]; exact exec_tail_fails ht _ _ _ _ _ _
    | x :: p' =>
      simp only [List.cons_append, List.cons.injEq] at hpq
      obtain ⟨rfl, hpq⟩ := hpq
      cases f with
      | zero => rw [exec_zero]; intro h; cases h
      | succ f =>
        rw [List.cons_append, exec_goto hs]
        exact ih p' q hpq hq f tail ht v' r' l''
  | @call σ ch line σc k c₁ o l₁ c₂ v line' hs h₁ _ ih₁ ih₂ =>
    intro p q hpq hq f tail ht v' r' l''
    match p with
    | [] => rw [List.nil_append]; exact exec_tail_fails ht _ _ _ _ _ _
    | x :: p' =>
      simp only [List.cons_append, List.cons.injEq] at hpq
      obtain ⟨rfl, hpq⟩ := hpq
      cases f with
      | zero => rw [exec_zero]; intro h; cases h
      | succ f =>
        rw [List.cons_append, exec_call hs]
        rcases List.append_eq_append_iff.1 hpq with ⟨a, rfl, rfl⟩ | ⟨a, rfl, rfl⟩
        · -- the cut is in the continuation: the nested call replays, then the continuation fails
          cases hi : exec f (c₁ ++ a ++ tail) σc (bumpLine ch line) with
          | err e => intro h; cases h
          | ok o' r'' l₁' =>
            rw [List.append_assoc] at hi
            have hrep := h₁.replay (a ++ tail) (c₁.length + 1) (Nat.lt_succ_self _)
            have := exec_agree hi hrep (PRes.notFuel_ok _ _ _) (PRes.notFuel_ok _ _ _)
            injection this with e1 e2 e3
            subst e1 e2 e3
            exact ih₂ a q rfl hq f tail ht v' r' l''
        · -- the cut is inside the nested container
          by_cases ha : a = []
          · subst ha
            have h₁' : Run σc (bumpLine ch line) p' o l₁ := by
              have := h₁; rwa [List.append_nil] at this
            cases hi : exec f (p' ++ tail) σc (bumpLine ch line) with
            | err e => intro h; cases h
            | ok o' r'' l₁' =>
              have hrep := h₁'.replay tail (p'.length + 1) (Nat.lt_succ_self _)
              have := exec_agree hi hrep (PRes.notFuel_ok _ _ _) (PRes.notFuel_ok _ _ _)
              injection this with e1 e2 e3
              subst e1 e2 e3
              exact ih₂ [] _ rfl hq f _ ht v' r' l''
          · cases hi : exec f (p' ++ tail) σc (bumpLine ch line) with
            | err e => intro h; cases h
            | ok o' r'' l₁' => exact absurd hi (ih₁ p' a rfl ha f tail ht o' r'' l₁')

/-- everything an ok result tells about the consumed region, in one statement -/
theorem exec_master {f items σ line v rest l'} (h : exec f items σ line = .ok v rest l') :
    ∃ c, items = c ++ rest ∧ c ≠ [] ∧ (∀ it ∈ c, it ≠ none) ∧ l' = line + nlCount c ∧
      (∀ (t : List Item) (f' : Nat), c.length < f' → exec f' (c ++ t) σ line = .ok v t l') ∧
      (∀ (p q : List Item), c = p ++ q → q ≠ [] →
        ∀ (f' : Nat) (tail : List Item), (tail = [] ∨ tail.head? = some none) →
          ∀ v' r' l'', exec f' (p ++ tail) σ line ≠ .ok v' r' l'') := by
  obtain ⟨c, hc, hrun⟩ := exec_ok_run f h
  exact ⟨c, hc, hrun.ne_nil, hrun.all_some, hrun.line_eq, hrun.replay, hrun.prefix_fails⟩

end Anytype
