/-
Single-step lemmas for the two parser state machines, phrased as "for every fuel exceeding the
length of the remaining input the machine returns R" (`LRun`, `ORun`).
-/
import Anytype.Lemmas.SerChars
namespace Anytype
namespace RT

abbrev I (s : Str) : List Item := s.map some

def LRun (items : List Item) (st : LSt) (acc : List JVal) (val : Str) (inVal : Bool) (line : Nat)
    (R : PRes) : Prop :=
  ∀ fuel, items.length < fuel → pList fuel items st acc val inVal line = R

def ORun (items : List Item) (st : OSt) (acc : List (Str × JVal)) (key val : Str) (inVal : Bool)
    (line : Nat) (R : PRes) : Prop :=
  ∀ fuel, items.length < fuel → pObject fuel items st acc key val inVal line = R

/-- characters that the `.val` state simply appends to the pending field text -/
def PlainChar (c : Char) : Prop :=
  isSpace c = false ∧ c ≠ '"' ∧ c ≠ '{' ∧ c ≠ '[' ∧ c ≠ ',' ∧ c ≠ ']' ∧ c ≠ '}'

theorem bumpLine_of_not_space {c : Char} (h : isSpace c = false) (line : Nat) : bumpLine c line = line := by
  have : c ≠ '\n' := by intro e; subst e; revert h; decide
  simp [bumpLine, this]

theorem LRun_val_plain1 {c : Char} (hc : PlainChar c) {rest acc val inVal line R}
    (h : LRun rest .val acc (val ++ [c]) true line R) :
    LRun (some c :: rest) .val acc val inVal line R := by
  intro fuel hf
  obtain ⟨h1, h2, h3, h4, h5, h6, h7⟩ := hc
  cases fuel with
  | zero => simp at hf
  | succ f =>
    simp [pList, bumpLine_of_not_space h1, h1, h2, h3, h4, h5, h6]
    exact h f (by simpa using hf)

theorem LRun_val_plain {s : Str} (hs : ∀ c ∈ s, PlainChar c) : ∀ {c : Char} (_ : PlainChar c)
    {rest acc val inVal line R},
    LRun rest .val acc (val ++ c :: s) true line R →
    LRun (I (c :: s) ++ rest) .val acc val inVal line R := by
  induction s with
  | nil => intro c hc rest acc val inVal line R h; exact LRun_val_plain1 hc h
  | cons d s ih =>
    intro c hc rest acc val inVal line R h
    apply LRun_val_plain1 hc
    apply ih (fun e he => hs e (by simp [he])) (hs d (by simp))
    simpa using h

/-- `,` after a pending scalar -/
theorem LRun_val_comma {rest acc val inVal line R} {f : JVal} (hv : val ≠ [])
    (hp : parseField val line = .ok f) (h : LRun rest .val (acc ++ [f]) [] false line R) :
    LRun (some ',' :: rest) .val acc val inVal line R := by
  intro fuel hf
  cases fuel with
  | zero => simp at hf
  | succ n =>
    have : isSpace ',' = false := by decide
    simp [pList, bumpLine, this, hv, hp]
    exact h n (by simpa using hf)

/-- `]` after a pending scalar -/
theorem LRun_val_close {rest acc val inVal line} {f : JVal} (hv : val ≠ [])
    (hp : parseField val line = .ok f) :
    LRun (some ']' :: rest) .val acc val inVal line (.ok (.list (acc ++ [f])) rest line) := by
  intro fuel hf
  cases fuel with
  | zero => simp at hf
  | succ n =>
    have : isSpace ']' = false := by decide
    simp [pList, bumpLine, this, hv, hp]

/-- `,` with nothing pending (after a nested container) -/
theorem LRun_val_comma0 {rest acc inVal line R} (h : LRun rest .val acc [] inVal line R) :
    LRun (some ',' :: rest) .val acc [] inVal line R := by
  intro fuel hf
  cases fuel with
  | zero => simp at hf
  | succ n =>
    have : isSpace ',' = false := by decide
    simp [pList, bumpLine, this]
    exact h n (by simpa using hf)

theorem LRun_val_close0 {rest acc inVal line} :
    LRun (some ']' :: rest) .val acc [] inVal line (.ok (.list acc) rest line) := by
  intro fuel hf
  cases fuel with
  | zero => simp at hf
  | succ n =>
    have : isSpace ']' = false := by decide
    simp [pList, bumpLine, this]

theorem LRun_val_quote {rest acc val line R} (h : LRun rest .str acc val false line R) :
    LRun (some '"' :: rest) .val acc val false line R := by
  intro fuel hf
  cases fuel with
  | zero => simp at hf
  | succ n =>
    have : isSpace '"' = false := by decide
    simp [pList, bumpLine, this]
    exact h n (by simpa using hf)

/-- one plain character inside a string -/
theorem LRun_str_plain {c : Char} (h1 : c ≠ '"') (h2 : c ≠ '\\') (h3 : c ≠ '\n') {rest acc val inVal line R}
    (h : LRun rest .str acc (val ++ [c]) inVal line R) :
    LRun (some c :: rest) .str acc val inVal line R := by
  intro fuel hf
  cases fuel with
  | zero => simp at hf
  | succ n =>
    simp [pList, bumpLine, h1, h2, h3]
    exact h n (by simpa using hf)

/-- a backslash and the character behind it -/
theorem LRun_str_esc {e : Char} (h3 : e ≠ '\n') {rest acc val inVal line R}
    (h : LRun rest .str acc (val ++ ['\\', e]) inVal line R) :
    LRun (some '\\' :: some e :: rest) .str acc val inVal line R := by
  intro fuel hf
  cases fuel with
  | zero => simp at hf
  | succ n =>
    cases n with
    | zero => simp at hf
    | succ n =>
      simp [pList, bumpLine, h3]
      exact h n (by simp at hf; omega)

theorem LRun_str_end {rest acc val inVal line R}
    (h : LRun rest .afterStr (acc ++ [.str (unquoteJSON val)]) [] inVal line R) :
    LRun (some '"' :: rest) .str acc val inVal line R := by
  intro fuel hf
  cases fuel with
  | zero => simp at hf
  | succ n =>
    simp [pList, bumpLine]
    exact h n (by simpa using hf)

theorem LRun_afterStr_comma {rest acc val inVal line R} (h : LRun rest .val acc val inVal line R) :
    LRun (some ',' :: rest) .afterStr acc val inVal line R := by
  intro fuel hf
  cases fuel with
  | zero => simp at hf
  | succ n =>
    simp [pList, bumpLine]
    exact h n (by simpa using hf)

theorem LRun_afterStr_close {rest acc val inVal line} :
    LRun (some ']' :: rest) .afterStr acc val inVal line (.ok (.list acc) rest line) := by
  intro fuel hf
  cases fuel with
  | zero => simp at hf
  | succ n => simp [pList, bumpLine]

/-- a nested list -/
theorem LRun_val_list {items rest' acc val line line' R} {l : JVal}
    (hn : LRun items .val [] [] false line (.ok l rest' line')) (hl : rest'.length ≤ items.length)
    (h : LRun rest' .val (acc ++ [l]) val false line' R) :
    LRun (some '[' :: items) .val acc val false line R := by
  intro fuel hf
  cases fuel with
  | zero => simp at hf
  | succ n =>
    have : isSpace '[' = false := by decide
    have hn' := hn n (by simpa using hf)
    simp [pList, bumpLine, this, hn']
    exact h n (by simp at hf; omega)

/-- a nested object -/
theorem LRun_val_obj {items rest' acc val line line' R} {o : JVal}
    (hn : ORun items .keyStart [] [] [] false line (.ok o rest' line')) (hl : rest'.length ≤ items.length)
    (h : LRun rest' .val (acc ++ [o]) val false line' R) :
    LRun (some '{' :: items) .val acc val false line R := by
  intro fuel hf
  cases fuel with
  | zero => simp at hf
  | succ n =>
    have : isSpace '{' = false := by decide
    have hn' := hn n (by simpa using hf)
    simp [pList, bumpLine, this, hn']
    exact h n (by simp at hf; omega)

/-! ### object machine steps -/

theorem ORun_keyStart_close {rest acc key val inVal line} :
    ORun (some '}' :: rest) .keyStart acc key val inVal line (.ok (.obj acc) rest line) := by
  intro fuel hf
  cases fuel with
  | zero => simp at hf
  | succ n =>
    have : isSpace '}' = false := by decide
    simp [pObject, bumpLine, this]

theorem ORun_keyStart_quote {rest acc key val inVal line R} (h : ORun rest .key acc [] val inVal line R) :
    ORun (some '"' :: rest) .keyStart acc key val inVal line R := by
  intro fuel hf
  cases fuel with
  | zero => simp at hf
  | succ n =>
    have : isSpace '"' = false := by decide
    simp [pObject, bumpLine, this]
    exact h n (by simpa using hf)

theorem ORun_key_plain {c : Char} (h1 : c ≠ '"') (h2 : c ≠ '\\') (h3 : c ≠ '\n') {rest acc key val inVal line R}
    (h : ORun rest .key acc (key ++ [c]) val inVal line R) :
    ORun (some c :: rest) .key acc key val inVal line R := by
  intro fuel hf
  cases fuel with
  | zero => simp at hf
  | succ n =>
    simp [pObject, bumpLine, h1, h2, h3]
    exact h n (by simpa using hf)

theorem ORun_key_esc {e : Char} (h3 : e ≠ '\n') {rest acc key val inVal line R}
    (h : ORun rest .key acc (key ++ ['\\', e]) val inVal line R) :
    ORun (some '\\' :: some e :: rest) .key acc key val inVal line R := by
  intro fuel hf
  cases fuel with
  | zero => simp at hf
  | succ n =>
    cases n with
    | zero => simp at hf
    | succ n =>
      simp [pObject, bumpLine, h3]
      exact h n (by simp at hf; omega)

theorem ORun_key_end {rest acc key val inVal line R}
    (h : ORun rest .afterKey acc key val inVal line R) :
    ORun (some '"' :: rest) .key acc key val inVal line R := by
  intro fuel hf
  cases fuel with
  | zero => simp at hf
  | succ n =>
    simp [pObject, bumpLine]
    exact h n (by simpa using hf)

theorem ORun_afterKey_colon {rest acc key val inVal line R}
    (h : ORun rest .val acc (unquoteJSON key) [] false line R) :
    ORun (some ':' :: rest) .afterKey acc key val inVal line R := by
  intro fuel hf
  cases fuel with
  | zero => simp at hf
  | succ n =>
    have : isSpace ':' = false := by decide
    simp [pObject, bumpLine, this]
    exact h n (by simpa using hf)

theorem ORun_val_plain1 {c : Char} (hc : PlainChar c) {rest acc key val inVal line R}
    (h : ORun rest .val acc key (val ++ [c]) true line R) :
    ORun (some c :: rest) .val acc key val inVal line R := by
  intro fuel hf
  obtain ⟨h1, h2, h3, h4, h5, h6, h7⟩ := hc
  cases fuel with
  | zero => simp at hf
  | succ f =>
    simp [pObject, bumpLine_of_not_space h1, h1, h2, h3, h4, h5, h7]
    exact h f (by simpa using hf)

theorem ORun_val_plain {s : Str} (hs : ∀ c ∈ s, PlainChar c) : ∀ {c : Char} (_ : PlainChar c)
    {rest acc key val inVal line R},
    ORun rest .val acc key (val ++ c :: s) true line R →
    ORun (I (c :: s) ++ rest) .val acc key val inVal line R := by
  induction s with
  | nil => intro c hc rest acc key val inVal line R h; exact ORun_val_plain1 hc h
  | cons d s ih =>
    intro c hc rest acc key val inVal line R h
    apply ORun_val_plain1 hc
    apply ih (fun e he => hs e (by simp [he])) (hs d (by simp))
    simpa using h

theorem ORun_val_comma {rest acc key val inVal line R} {f : JVal} (hv : val ≠ [])
    (hp : parseField val line = .ok f) (h : ORun rest .keyStart (setField acc key f) key val inVal line R) :
    ORun (some ',' :: rest) .val acc key val inVal line R := by
  intro fuel hf
  cases fuel with
  | zero => simp at hf
  | succ n =>
    have : isSpace ',' = false := by decide
    simp [pObject, bumpLine, this, hv, hp]
    exact h n (by simpa using hf)

theorem ORun_val_close {rest acc key val inVal line} {f : JVal} (hv : val ≠ [])
    (hp : parseField val line = .ok f) :
    ORun (some '}' :: rest) .val acc key val inVal line (.ok (.obj (setField acc key f)) rest line) := by
  intro fuel hf
  cases fuel with
  | zero => simp at hf
  | succ n =>
    have : isSpace '}' = false := by decide
    simp [pObject, bumpLine, this, hv, hp]

theorem ORun_val_quote {rest acc key val line R} (h : ORun rest .str acc key val false line R) :
    ORun (some '"' :: rest) .val acc key val false line R := by
  intro fuel hf
  cases fuel with
  | zero => simp at hf
  | succ n =>
    have : isSpace '"' = false := by decide
    simp [pObject, bumpLine, this]
    exact h n (by simpa using hf)

theorem ORun_str_plain {c : Char} (h1 : c ≠ '"') (h2 : c ≠ '\\') (h3 : c ≠ '\n') {rest acc key val inVal line R}
    (h : ORun rest .str acc key (val ++ [c]) inVal line R) :
    ORun (some c :: rest) .str acc key val inVal line R := by
  intro fuel hf
  cases fuel with
  | zero => simp at hf
  | succ n =>
    simp [pObject, bumpLine, h1, h2, h3]
    exact h n (by simpa using hf)

theorem ORun_str_esc {e : Char} (h3 : e ≠ '\n') {rest acc key val inVal line R}
    (h : ORun rest .str acc key (val ++ ['\\', e]) inVal line R) :
    ORun (some '\\' :: some e :: rest) .str acc key val inVal line R := by
  intro fuel hf
  cases fuel with
  | zero => simp at hf
  | succ n =>
    cases n with
    | zero => simp at hf
    | succ n =>
      simp [pObject, bumpLine, h3]
      exact h n (by simp at hf; omega)

theorem ORun_str_end {rest acc key val inVal line R}
    (h : ORun rest .afterStr (setField acc key (.str (unquoteJSON val))) key val inVal line R) :
    ORun (some '"' :: rest) .str acc key val inVal line R := by
  intro fuel hf
  cases fuel with
  | zero => simp at hf
  | succ n =>
    simp [pObject, bumpLine]
    exact h n (by simpa using hf)

theorem ORun_afterStr_comma {rest acc key val inVal line R} (h : ORun rest .keyStart acc key val inVal line R) :
    ORun (some ',' :: rest) .afterStr acc key val inVal line R := by
  intro fuel hf
  cases fuel with
  | zero => simp at hf
  | succ n =>
    simp [pObject, bumpLine]
    exact h n (by simpa using hf)

theorem ORun_afterStr_close {rest acc key val inVal line} :
    ORun (some '}' :: rest) .afterStr acc key val inVal line (.ok (.obj acc) rest line) := by
  intro fuel hf
  cases fuel with
  | zero => simp at hf
  | succ n => simp [pObject, bumpLine]

theorem ORun_afterVal_comma {rest acc key val inVal line R} (h : ORun rest .keyStart acc key val inVal line R) :
    ORun (some ',' :: rest) .afterVal acc key val inVal line R := by
  intro fuel hf
  cases fuel with
  | zero => simp at hf
  | succ n =>
    have : isSpace ',' = false := by decide
    simp [pObject, bumpLine, this]
    exact h n (by simpa using hf)

theorem ORun_afterVal_close {rest acc key val inVal line} :
    ORun (some '}' :: rest) .afterVal acc key val inVal line (.ok (.obj acc) rest line) := by
  intro fuel hf
  cases fuel with
  | zero => simp at hf
  | succ n =>
    have : isSpace '}' = false := by decide
    simp [pObject, bumpLine, this]

theorem ORun_val_list {items rest' acc key val line line' R} {l : JVal}
    (hn : LRun items .val [] [] false line (.ok l rest' line')) (hl : rest'.length ≤ items.length)
    (h : ORun rest' .afterVal (setField acc key l) key val false line' R) :
    ORun (some '[' :: items) .val acc key val false line R := by
  intro fuel hf
  cases fuel with
  | zero => simp at hf
  | succ n =>
    have : isSpace '[' = false := by decide
    have hn' := hn n (by simpa using hf)
    simp [pObject, bumpLine, this, hn']
    exact h n (by simp at hf; omega)

theorem ORun_val_obj {items rest' acc key val line line' R} {o : JVal}
    (hn : ORun items .keyStart [] [] [] false line (.ok o rest' line')) (hl : rest'.length ≤ items.length)
    (h : ORun rest' .afterVal (setField acc key o) key val false line' R) :
    ORun (some '{' :: items) .val acc key val false line R := by
  intro fuel hf
  cases fuel with
  | zero => simp at hf
  | succ n =>
    have : isSpace '{' = false := by decide
    have hn' := hn n (by simpa using hf)
    simp [pObject, bumpLine, this, hn']
    exact h n (by simp at hf; omega)

end RT
end Anytype
