/-
Reification (`reify`), reachability (`reach`) and `build`: fuel monotonicity, locality
(the tree a value denotes depends only on the cells reachable from it), and the facts about
`build` (only appends, the built value reifies to the tree, every cell it reaches is new).
-/
import Anytype.Lemmas.HeapWF
import Anytype.Model.ObjectOps
namespace Anytype
open Heap
namespace Rf

/-! ### nesting depth of a tree -/

mutual
def depth : JVal → Nat
  | .null => 0 | .bool _ => 0 | .int _ => 0 | .float _ => 0 | .str _ => 0
  | .list xs => depthList xs + 1
  | .obj kvs => depthFields kvs + 1
def depthList : List JVal → Nat
  | [] => 0
  | x :: xs => max (depth x) (depthList xs)
def depthFields : List (Str × JVal) → Nat
  | [] => 0
  | (_, x) :: kvs => max (depth x) (depthFields kvs)
end

/-! ### transfer of a successful reification to more fuel / a bigger heap -/

theorem reifyList_of {n m : Nat} {h h2 : Heap}
    (hv : ∀ v t, reify n h v = some t → reify m h2 v = some t) :
    ∀ xs ts, reifyList n h xs = some ts → reifyList m h2 xs = some ts := by
  intro xs
  induction xs with
  | nil => intro ts hts; simpa [reifyList] using hts
  | cons x xs ih =>
    intro ts hts
    rw [reifyList] at hts
    split at hts
    · next y ys hy hys =>
      rw [reifyList, hv _ _ hy, ih _ hys]; exact hts
    · cases hts

theorem reifyFields_of {n m : Nat} {h h2 : Heap}
    (hv : ∀ v t, reify n h v = some t → reify m h2 v = some t) :
    ∀ kvs ts, reifyFields n h kvs = some ts → reifyFields m h2 kvs = some ts := by
  intro kvs
  induction kvs with
  | nil => intro ts hts; simpa [reifyFields] using hts
  | cons kv kvs ih =>
    obtain ⟨k, x⟩ := kv
    intro ts hts
    rw [reifyFields] at hts
    split at hts
    · next y ys hy hys =>
      rw [reifyFields, hv _ _ hy, ih _ hys]; exact hts
    · cases hts

/-- `h2` has every cell of `h` unchanged (it may have more) -/
def Sub (h h2 : Heap) : Prop := ∀ (a : Nat) (c : Cell), h[a]? = some c → h2[a]? = some c

theorem Sub.refl (h : Heap) : Sub h h := fun _ _ e => e
theorem Sub.trans {h1 h2 h3 : Heap} (s1 : Sub h1 h2) (s2 : Sub h2 h3) : Sub h1 h3 :=
  fun a c e => s2 a c (s1 a c e)
theorem Sub.of_ext0 {h h2 : Heap} (e : Ext0 h h2) : Sub h h2 := fun a c hc => by
  rw [e.same a (List.getElem?_eq_some_iff.1 hc).1]; exact hc
theorem Sub.append (h extra : Heap) : Sub h (h ++ extra) := fun a c hc => by
  rw [List.getElem?_append_left (List.getElem?_eq_some_iff.1 hc).1]; exact hc

theorem reify_scalar_eq (n m : Nat) (h h2 : Heap) (v : Val)
    (hv : (∀ r, v ≠ .list r) ∧ (∀ r, v ≠ .obj r)) : reify n h v = reify m h2 v := by
  cases v with
  | list r => exact absurd rfl (hv.1 r)
  | obj r => exact absurd rfl (hv.2 r)
  | _ => simp only [reify]

theorem reify_step {n m : Nat} {h h2 : Heap} (hs : Sub h h2)
    (hv : ∀ v t, reify n h v = some t → reify m h2 v = some t) :
    ∀ v t, reify (n + 1) h v = some t → reify (m + 1) h2 v = some t := by
  intro v t ht
  cases v with
  | list r =>
    rw [reify] at ht
    split at ht
    · next xs e hc =>
      rw [reify, hs _ _ hc]
      simp only
      cases hl : reifyList n h xs with
      | none => rw [hl] at ht; cases ht
      | some ts => rw [hl] at ht; rw [reifyList_of hv _ _ hl]; exact ht
    · cases ht
  | obj r =>
    rw [reify] at ht
    split at ht
    · next xs e hc =>
      rw [reify, hs _ _ hc]
      simp only
      cases hl : reifyFields n h xs with
      | none => rw [hl] at ht; cases ht
      | some ts => rw [hl] at ht; rw [reifyFields_of hv _ _ hl]; exact ht
    · cases ht
  | _ => simpa only [reify] using ht

/-- a successful reification stays the same with more fuel and in any heap that keeps the cells -/
theorem reify_mono_sub {h h2 : Heap} (hs : Sub h h2) :
    ∀ (n m : Nat), n ≤ m → ∀ v t, reify n h v = some t → reify m h2 v = some t := by
  intro n
  induction n with
  | zero =>
    intro m _ v t ht
    cases v with
    | list r => simp only [reify] at ht; cases ht
    | obj r => simp only [reify] at ht; cases ht
    | _ => simpa only [reify] using ht
  | succ n ih =>
    intro m hm v t ht
    obtain ⟨m', rfl⟩ : ∃ m', m = m' + 1 := ⟨m - 1, by omega⟩
    exact reify_step hs (ih m' (by omega)) v t ht

theorem reify_mono {h : Heap} {n m : Nat} (hnm : n ≤ m) {v : Val} {t : JVal}
    (ht : reify n h v = some t) : reify m h v = some t :=
  reify_mono_sub (Sub.refl h) n m hnm v t ht

theorem reifyList_mono_sub {h h2 : Heap} (hs : Sub h h2) {n m : Nat} (hnm : n ≤ m)
    {xs : List Val} {ts : List JVal} (ht : reifyList n h xs = some ts) :
    reifyList m h2 xs = some ts :=
  reifyList_of (reify_mono_sub hs n m hnm) xs ts ht

theorem reifyFields_mono_sub {h h2 : Heap} (hs : Sub h h2) {n m : Nat} (hnm : n ≤ m)
    {kvs : List (Str × Val)} {ts : List (Str × JVal)} (ht : reifyFields n h kvs = some ts) :
    reifyFields m h2 kvs = some ts :=
  reifyFields_of (reify_mono_sub hs n m hnm) kvs ts ht

/-- the fuel a successful reification used bounds the depth of the tree -/
theorem depth_le_of_reify {h : Heap} :
    ∀ (n : Nat) (v : Val) (t : JVal), reify n h v = some t → depth t ≤ n := by
  intro n
  induction n with
  | zero =>
    intro v t ht
    cases v <;> simp only [reify] at ht <;> cases ht <;> simp [depth]
  | succ n ih =>
    have hl : ∀ xs ts, reifyList n h xs = some ts → depthList ts ≤ n := by
      intro xs
      induction xs with
      | nil => intro ts hts; simp only [reifyList] at hts; cases hts; simp [depthList]
      | cons x xs ihx =>
        intro ts hts
        rw [reifyList] at hts
        split at hts
        · next y ys hy hys =>
          cases hts
          simp only [depthList]
          exact Nat.max_le.2 ⟨ih _ _ hy, ihx _ hys⟩
        · cases hts
    have hf : ∀ kvs ts, reifyFields n h kvs = some ts → depthFields ts ≤ n := by
      intro kvs
      induction kvs with
      | nil => intro ts hts; simp only [reifyFields] at hts; cases hts; simp [depthFields]
      | cons kv kvs ihx =>
        obtain ⟨k, x⟩ := kv
        intro ts hts
        rw [reifyFields] at hts
        split at hts
        · next y ys hy hys =>
          cases hts
          simp only [depthFields]
          exact Nat.max_le.2 ⟨ih _ _ hy, ihx _ hys⟩
        · cases hts
    intro v t ht
    cases v with
    | list r =>
      rw [reify] at ht
      split at ht
      · next xs e hc =>
        cases hq : reifyList n h xs with
        | none => rw [hq] at ht; cases ht
        | some ts =>
          rw [hq] at ht; cases ht
          simp only [depth]; have := hl _ _ hq; omega
      · cases ht
    | obj r =>
      rw [reify] at ht
      split at ht
      · next xs e hc =>
        cases hq : reifyFields n h xs with
        | none => rw [hq] at ht; cases ht
        | some ts =>
          rw [hq] at ht; cases ht
          simp only [depth]; have := hf _ _ hq; omega
      · cases ht
    | _ => simp only [reify] at ht; cases ht; simp [depth]

/-! ### locality: `reify n h v` and `reach n h v` only look at the cells in `reach n h v` -/

theorem reifyList_congr_of {n : Nat} {h h2 : Heap}
    (ih : ∀ v, (∀ a ∈ reach n h v, h2[a]? = h[a]?) → reify n h2 v = reify n h v) :
    ∀ xs, (∀ a ∈ reachList n h xs, h2[a]? = h[a]?) → reifyList n h2 xs = reifyList n h xs := by
  intro xs
  induction xs with
  | nil => intro _; simp only [reifyList]
  | cons x xs ihx =>
    intro hr
    rw [reachList] at hr
    rw [reifyList, reifyList, ih x (fun a ha => hr a (List.mem_append_left _ ha)),
      ihx (fun a ha => hr a (List.mem_append_right _ ha))]

theorem reifyFields_congr_of {n : Nat} {h h2 : Heap}
    (ih : ∀ v, (∀ a ∈ reach n h v, h2[a]? = h[a]?) → reify n h2 v = reify n h v) :
    ∀ kvs, (∀ a ∈ reachList n h (kvs.map (·.2)), h2[a]? = h[a]?) →
      reifyFields n h2 kvs = reifyFields n h kvs := by
  intro kvs
  induction kvs with
  | nil => intro _; simp only [reifyFields]
  | cons kv kvs ihx =>
    obtain ⟨k, x⟩ := kv
    intro hr
    rw [List.map_cons, reachList] at hr
    rw [reifyFields, reifyFields, ih x (fun a ha => hr a (List.mem_append_left _ ha)),
      ihx (fun a ha => hr a (List.mem_append_right _ ha))]

theorem reachList_congr_of {n : Nat} {h h2 : Heap}
    (ih : ∀ v, (∀ a ∈ reach n h v, h2[a]? = h[a]?) → reach n h2 v = reach n h v) :
    ∀ xs, (∀ a ∈ reachList n h xs, h2[a]? = h[a]?) → reachList n h2 xs = reachList n h xs := by
  intro xs
  induction xs with
  | nil => intro _; simp only [reachList]
  | cons x xs ihx =>
    intro hr
    rw [reachList] at hr
    rw [reachList, reachList, ih x (fun a ha => hr a (List.mem_append_left _ ha)),
      ihx (fun a ha => hr a (List.mem_append_right _ ha))]

/-- if `h2` agrees with `h` on every cell reachable from `v` (within `n` levels), `v` denotes the
same tree in both -/
theorem reify_congr {h h2 : Heap} :
    ∀ (n : Nat) (v : Val), (∀ a ∈ reach n h v, h2[a]? = h[a]?) → reify n h2 v = reify n h v := by
  intro n
  induction n with
  | zero => intro v _; cases v <;> simp only [reify]
  | succ n ih =>
    intro v hr
    cases v with
    | list r =>
      rw [reach] at hr
      have hc : h2[r.addr]? = h[r.addr]? := hr _ List.mem_cons_self
      rw [reify, reify, hc]
      split
      · next xs e hx =>
        have hi : h.items r.addr = xs := by simp [items, hx]
        rw [hi] at hr
        rw [reifyList_congr_of ih xs (fun a ha => hr a (List.mem_cons_of_mem _ ha))]
      · rfl
    | obj r =>
      rw [reach] at hr
      have hc : h2[r.addr]? = h[r.addr]? := hr _ List.mem_cons_self
      rw [reify, reify, hc]
      split
      · next xs e hx =>
        have hi : h.fields r.addr = xs := by simp [fields, hx]
        rw [hi] at hr
        rw [reifyFields_congr_of ih xs (fun a ha => hr a (List.mem_cons_of_mem _ ha))]
      · rfl
    | _ => simp only [reify]

theorem reach_congr {h h2 : Heap} :
    ∀ (n : Nat) (v : Val), (∀ a ∈ reach n h v, h2[a]? = h[a]?) → reach n h2 v = reach n h v := by
  intro n
  induction n with
  | zero => intro v _; simp only [reach]
  | succ n ih =>
    intro v hr
    cases v with
    | list r =>
      rw [reach] at hr
      have hc : h2[r.addr]? = h[r.addr]? := hr _ List.mem_cons_self
      rw [reach, reach, items_congr hc,
        reachList_congr_of ih _ (fun a ha => hr a (List.mem_cons_of_mem _ ha))]
    | obj r =>
      rw [reach] at hr
      have hc : h2[r.addr]? = h[r.addr]? := hr _ List.mem_cons_self
      rw [reach, reach, fields_congr hc,
        reachList_congr_of ih _ (fun a ha => hr a (List.mem_cons_of_mem _ ha))]
    | _ => simp only [reach]

/-! ### in a well-formed heap, reachability never leaves the existing cells -/

theorem reachList_old_of {n : Nat} {h h' : Heap}
    (ih : ∀ v, v.okIn h → ∀ a ∈ reach n h' v, a < h.length) :
    ∀ xs : List Val, (∀ v ∈ xs, v.okIn h) → ∀ a ∈ reachList n h' xs, a < h.length := by
  intro xs
  induction xs with
  | nil => intro _ a ha; simp [reachList] at ha
  | cons x xs ihx =>
    intro hx a ha
    rw [reachList] at ha
    rcases List.mem_append.1 ha with ha | ha
    · exact ih x (hx x (by simp)) a ha
    · exact ihx (fun v hv => hx v (by simp [hv])) a ha

/-- `h` well-formed, `v` valid in `h`, `h'` keeps the cells of `h`: everything reachable from `v`
in `h'` is a cell of `h` -/
theorem reach_old {h h' : Heap} (wf : HeapWF h) (hs : Sub h h') :
    ∀ (n : Nat) (v : Val), v.okIn h → ∀ a ∈ reach n h' v, a < h.length := by
  intro n
  induction n with
  | zero => intro v _ a ha; simp [reach] at ha
  | succ n ih =>
    intro v hv a ha
    cases v with
    | list r =>
      simp only [Val.okIn] at hv
      rw [reach] at ha
      rcases List.mem_cons.1 ha with rfl | ha
      · exact isList_lt hv
      · have hc : h'[r.addr]? = h[r.addr]? := by
          rw [getElem?_of_isList hv]; exact hs _ _ (getElem?_of_isList hv)
        rw [items_congr hc] at ha
        exact reachList_old_of ih _ (wf r.addr).1 a ha
    | obj r =>
      simp only [Val.okIn] at hv
      rw [reach] at ha
      rcases List.mem_cons.1 ha with rfl | ha
      · exact isObj_lt hv
      · have hc : h'[r.addr]? = h[r.addr]? := by
          rw [getElem?_of_isObj hv]; exact hs _ _ (getElem?_of_isObj hv)
        rw [fields_congr hc] at ha
        refine reachList_old_of ih _ (fun v hv' => ?_) a ha
        obtain ⟨kv, hkv, rfl⟩ := List.mem_map.1 hv'
        exact (wf r.addr).2 kv hkv
    | _ => simp [reach] at ha

/-! ### a value denoting a tree through the cells of an address interval -/

/-- `H` has the same cells as `h` at the addresses in `[lo, hi)` -/
def AgreeOn (lo hi : Nat) (h H : Heap) : Prop := ∀ b : Nat, lo ≤ b → b < hi → H[b]? = h[b]?

theorem AgreeOn.refl (lo hi : Nat) (h : Heap) : AgreeOn lo hi h h := fun _ _ _ => rfl
theorem AgreeOn.trans {lo hi lo' hi' : Nat} {h1 h2 h3 : Heap} (a1 : AgreeOn lo hi h1 h2)
    (a2 : AgreeOn lo' hi' h2 h3) (hlo : lo' ≤ lo) (hhi : hi ≤ hi') : AgreeOn lo hi h1 h3 :=
  fun b h1' h2' => by rw [a2 b (by omega) (by omega), a1 b h1' h2']
theorem AgreeOn.of_sub {lo hi : Nat} {h H : Heap} (s : Sub h H) (hhi : hi ≤ h.length) :
    AgreeOn lo hi h H := fun b _ hb => by
  obtain ⟨c, hc⟩ : ∃ c, h[b]? = some c := ⟨h[b]'(by omega), List.getElem?_eq_getElem (by omega)⟩
  rw [hc]; exact s b c hc
theorem AgreeOn.of_ext {lo hi : Nat} {h H : Heap} {a : Nat} (e : Ext h H a) (hhi : hi ≤ h.length)
    (ha : a < lo ∨ hi ≤ a) : AgreeOn lo hi h H :=
  fun b h1 h2 => e.other b (by omega) (by omega)

/-- `v` denotes the tree `t`, and that only depends on the cells of `h` at `[lo, hi)`: in every
heap with the same cells there, `v` reifies to `t` and reaches only addresses in `[lo, hi)` -/
structure Denotes (lo hi : Nat) (h : Heap) (v : Val) (t : JVal) : Prop where
  reify : ∀ H, AgreeOn lo hi h H → ∀ n, depth t ≤ n → reify n H v = some t
  reach : ∀ H, AgreeOn lo hi h H → ∀ n a, a ∈ reach n H v → lo ≤ a ∧ a < hi

/-- two lists related elementwise -/
inductive All2 {α β : Type} (R : α → β → Prop) : List α → List β → Prop
  | nil : All2 R [] []
  | cons {a b as bs} : R a b → All2 R as bs → All2 R (a :: as) (b :: bs)

/-- elementwise `Denotes` -/
def DenotesList (lo hi : Nat) (h : Heap) (vs : List Val) (ts : List JVal) : Prop :=
  All2 (Denotes lo hi h) vs ts

def DenotesFields (lo hi : Nat) (h : Heap) (fs : List (Str × Val)) (ts : List (Str × JVal)) : Prop :=
  All2 (fun kv kt => kv.1 = kt.1 ∧ Denotes lo hi h kv.2 kt.2) fs ts

theorem Denotes.mono {lo hi lo' hi' : Nat} {h h' : Heap} {v : Val} {t : JVal}
    (d : Denotes lo hi h v t) (ag : AgreeOn lo hi h h') (hlo : lo' ≤ lo) (hhi : hi ≤ hi') :
    Denotes lo' hi' h' v t :=
  ⟨fun H aH => d.reify H (ag.trans aH hlo hhi),
   fun H aH n a ha => by have := d.reach H (ag.trans aH hlo hhi) n a ha; omega⟩

theorem DenotesList.mono {lo hi lo' hi' : Nat} {h h' : Heap} {vs : List Val} {ts : List JVal}
    (d : DenotesList lo hi h vs ts) (ag : AgreeOn lo hi h h') (hlo : lo' ≤ lo) (hhi : hi ≤ hi') :
    DenotesList lo' hi' h' vs ts := by
  induction d with
  | nil => exact All2.nil
  | cons d _ ih => exact All2.cons (d.mono ag hlo hhi) ih

theorem DenotesFields.mono {lo hi lo' hi' : Nat} {h h' : Heap} {fs : List (Str × Val)}
    {ts : List (Str × JVal)}
    (d : DenotesFields lo hi h fs ts) (ag : AgreeOn lo hi h h') (hlo : lo' ≤ lo) (hhi : hi ≤ hi') :
    DenotesFields lo' hi' h' fs ts := by
  induction d with
  | nil => exact All2.nil
  | cons d _ ih => exact All2.cons ⟨d.1, d.2.mono ag hlo hhi⟩ ih

theorem DenotesList.nil (lo hi : Nat) (h : Heap) : DenotesList lo hi h [] [] := All2.nil
theorem DenotesFields.nil (lo hi : Nat) (h : Heap) : DenotesFields lo hi h [] [] := All2.nil

theorem DenotesList.cons {lo hi : Nat} {h : Heap} {v : Val} {t : JVal} {vs : List Val} {ts : List JVal}
    (d : Denotes lo hi h v t) (ds : DenotesList lo hi h vs ts) :
    DenotesList lo hi h (v :: vs) (t :: ts) := All2.cons d ds

theorem DenotesFields.cons {lo hi : Nat} {h : Heap} {k : Str} {v : Val} {t : JVal}
    {fs : List (Str × Val)} {ts : List (Str × JVal)}
    (d : Denotes lo hi h v t) (ds : DenotesFields lo hi h fs ts) :
    DenotesFields lo hi h ((k, v) :: fs) ((k, t) :: ts) := All2.cons ⟨rfl, d⟩ ds

/-- appending at the end (what `Add` / `Set` of a new key do) -/
theorem DenotesList.snoc {lo hi : Nat} {h : Heap} {v : Val} {t : JVal} {vs : List Val} {ts : List JVal}
    (ds : DenotesList lo hi h vs ts) (d : Denotes lo hi h v t) :
    DenotesList lo hi h (vs ++ [v]) (ts ++ [t]) := by
  induction ds with
  | nil => exact All2.cons d All2.nil
  | cons d' _ ih => exact All2.cons d' ih

theorem DenotesFields.snoc {lo hi : Nat} {h : Heap} {k : Str} {v : Val} {t : JVal}
    {fs : List (Str × Val)} {ts : List (Str × JVal)}
    (ds : DenotesFields lo hi h fs ts) (d : Denotes lo hi h v t) :
    DenotesFields lo hi h (fs ++ [(k, v)]) (ts ++ [(k, t)]) := by
  induction ds with
  | nil => exact All2.cons ⟨rfl, d⟩ All2.nil
  | cons d' _ ih => exact All2.cons d' ih

theorem DenotesList.reify {lo hi : Nat} {h : Heap} {vs : List Val} {ts : List JVal}
    (ds : DenotesList lo hi h vs ts) (H : Heap) (aH : AgreeOn lo hi h H) (n : Nat)
    (hn : depthList ts ≤ n) : reifyList n H vs = some ts := by
  induction ds with
  | nil => simp only [reifyList]
  | cons d _ ih =>
    simp only [depthList] at hn
    rw [reifyList, d.reify H aH n (by omega), ih (by omega)]

theorem DenotesList.reach {lo hi : Nat} {h : Heap} {vs : List Val} {ts : List JVal}
    (ds : DenotesList lo hi h vs ts) (H : Heap) (aH : AgreeOn lo hi h H) (n a : Nat)
    (ha : a ∈ reachList n H vs) : lo ≤ a ∧ a < hi := by
  induction ds with
  | nil => simp [reachList] at ha
  | cons d _ ih =>
    rw [reachList] at ha
    rcases List.mem_append.1 ha with ha | ha
    · exact d.reach H aH n a ha
    · exact ih ha

theorem DenotesFields.reify {lo hi : Nat} {h : Heap} {fs : List (Str × Val)} {ts : List (Str × JVal)}
    (ds : DenotesFields lo hi h fs ts) (H : Heap) (aH : AgreeOn lo hi h H) (n : Nat)
    (hn : depthFields ts ≤ n) : reifyFields n H fs = some ts := by
  induction ds with
  | nil => simp only [reifyFields]
  | @cons kv kt _ _ d _ ih =>
    obtain ⟨k, v⟩ := kv
    obtain ⟨k', t⟩ := kt
    obtain ⟨hk, d⟩ := d
    simp only at hk d
    subst hk
    simp only [depthFields] at hn
    rw [reifyFields, d.reify H aH n (by omega), ih (by omega)]

theorem DenotesFields.reach {lo hi : Nat} {h : Heap} {fs : List (Str × Val)} {ts : List (Str × JVal)}
    (ds : DenotesFields lo hi h fs ts) (H : Heap) (aH : AgreeOn lo hi h H) (n a : Nat)
    (ha : a ∈ reachList n H (fs.map (·.2))) : lo ≤ a ∧ a < hi := by
  induction ds with
  | nil => simp [reachList] at ha
  | cons d _ ih =>
    rw [List.map_cons, reachList] at ha
    rcases List.mem_append.1 ha with ha | ha
    · exact d.2.reach H aH n a ha
    · exact ih ha

theorem DenotesFields.keys {lo hi : Nat} {h : Heap} {fs : List (Str × Val)} {ts : List (Str × JVal)}
    (ds : DenotesFields lo hi h fs ts) : fs.map (·.1) = ts.map (·.1) := by
  induction ds with
  | nil => rfl
  | cons d _ ih => simp [d.1, ih]

/-- a scalar denotes itself everywhere -/
theorem Denotes.scalar (lo hi : Nat) (h : Heap) {v : Val} {t : JVal}
    (hv : (∀ r, v ≠ .list r) ∧ (∀ r, v ≠ .obj r)) (ht : Anytype.reify 0 h v = some t) :
    Denotes lo hi h v t := by
  constructor
  · intro H _ n _
    rw [← ht]; exact reify_scalar_eq _ _ _ _ _ hv
  · intro H _ n a ha
    cases v with
    | list r => exact absurd rfl (hv.1 r)
    | obj r => exact absurd rfl (hv.2 r)
    | _ => cases n <;> simp [Anytype.reach] at ha

/-- a list cell in the interval whose items denote `ts` -/
theorem Denotes.list {lo hi : Nat} {h : Heap} {r : Ref} {vs : List Val} {e : Nat} {ts : List JVal}
    (hc : h[r.addr]? = some (.list vs e)) (hlo : lo ≤ r.addr) (hhi : r.addr < hi)
    (ds : DenotesList lo hi h vs ts) : Denotes lo hi h (.list r) (.list ts) := by
  constructor
  · intro H aH n hn
    simp only [depth] at hn
    obtain ⟨n', rfl⟩ : ∃ n', n = n' + 1 := ⟨n - 1, by omega⟩
    rw [Anytype.reify, aH _ hlo hhi, hc]
    simp only
    rw [ds.reify H aH n' (by omega)]; rfl
  · intro H aH n a ha
    cases n with
    | zero => simp [Anytype.reach] at ha
    | succ n =>
      rw [Anytype.reach] at ha
      rcases List.mem_cons.1 ha with rfl | ha
      · exact ⟨hlo, hhi⟩
      · have : H.items r.addr = vs := by simp [items, aH _ hlo hhi, hc]
        rw [this] at ha
        exact ds.reach H aH n a ha

theorem Denotes.obj {lo hi : Nat} {h : Heap} {r : Ref} {fs : List (Str × Val)} {e : Nat}
    {ts : List (Str × JVal)}
    (hc : h[r.addr]? = some (.obj fs e)) (hlo : lo ≤ r.addr) (hhi : r.addr < hi)
    (ds : DenotesFields lo hi h fs ts) : Denotes lo hi h (.obj r) (.obj ts) := by
  constructor
  · intro H aH n hn
    simp only [depth] at hn
    obtain ⟨n', rfl⟩ : ∃ n', n = n' + 1 := ⟨n - 1, by omega⟩
    rw [Anytype.reify, aH _ hlo hhi, hc]
    simp only
    rw [ds.reify H aH n' (by omega)]; rfl
  · intro H aH n a ha
    cases n with
    | zero => simp [Anytype.reach] at ha
    | succ n =>
      rw [Anytype.reach] at ha
      rcases List.mem_cons.1 ha with rfl | ha
      · exact ⟨hlo, hhi⟩
      · have : H.fields r.addr = fs := by simp [fields, aH _ hlo hhi, hc]
        rw [this] at ha
        exact ds.reach H aH n a ha

/-! ### `build` -/

theorem build_list_eq (h : Heap) (xs : List JVal) :
    build h (.list xs) = ((buildList h xs).1 ++ [.list (buildList h xs).2 0],
      .list ⟨(buildList h xs).1.length, 0⟩) := by
  rw [build]
theorem build_obj_eq (h : Heap) (kvs : List (Str × JVal)) :
    build h (.obj kvs) = ((buildFields h kvs).1 ++ [.obj (buildFields h kvs).2 0],
      .obj ⟨(buildFields h kvs).1.length, 0⟩) := by
  rw [build]
theorem buildList_cons_eq (h : Heap) (x : JVal) (xs : List JVal) :
    buildList h (x :: xs) =
      ((buildList (build h x).1 xs).1, (build h x).2 :: (buildList (build h x).1 xs).2) := by
  rw [buildList]
theorem buildFields_cons_eq (h : Heap) (k : Str) (x : JVal) (kvs : List (Str × JVal)) :
    buildFields h ((k, x) :: kvs) =
      ((buildFields (build h x).1 kvs).1, (k, (build h x).2) :: (buildFields (build h x).1 kvs).2) := by
  rw [buildFields]

theorem agreeOn_append (lo : Nat) (h extra : Heap) : AgreeOn lo h.length h (h ++ extra) :=
  AgreeOn.of_sub (Sub.append h extra) (Nat.le_refl _)

mutual
/-- `build h t` only appends cells (at least `depth t` of them); the value it returns denotes `t`
through the new cells alone -/
theorem build_spec : ∀ (h : Heap) (t : JVal),
    (∃ extra, (build h t).1 = h ++ extra) ∧ h.length + depth t ≤ (build h t).1.length ∧
    Denotes h.length (build h t).1.length (build h t).1 (build h t).2 t
  | h, .null => by
    simp only [build]
    exact ⟨⟨[], by simp⟩, by simp [depth], Denotes.scalar _ _ _ (by simp) (by simp only [reify])⟩
  | h, .bool _ => by
    simp only [build]
    exact ⟨⟨[], by simp⟩, by simp [depth], Denotes.scalar _ _ _ (by simp) (by simp only [reify])⟩
  | h, .int _ => by
    simp only [build]
    exact ⟨⟨[], by simp⟩, by simp [depth], Denotes.scalar _ _ _ (by simp) (by simp only [reify])⟩
  | h, .float _ => by
    simp only [build]
    exact ⟨⟨[], by simp⟩, by simp [depth], Denotes.scalar _ _ _ (by simp) (by simp only [reify])⟩
  | h, .str _ => by
    simp only [build]
    exact ⟨⟨[], by simp⟩, by simp [depth], Denotes.scalar _ _ _ (by simp) (by simp only [reify])⟩
  | h, .list xs => by
    obtain ⟨⟨e, he⟩, hd, ds⟩ := buildList_spec h xs
    rw [build_list_eq]
    simp only [depth, List.length_append, List.length_singleton]
    have hlen : h.length ≤ (buildList h xs).1.length := by rw [he]; simp
    refine ⟨⟨e ++ [.list (buildList h xs).2 0], by rw [he]; simp⟩, by omega, ?_⟩
    exact Denotes.list (e := 0) (by simp) hlen (by simp)
      (ds.mono (agreeOn_append _ _ _) (Nat.le_refl _) (by simp))
  | h, .obj kvs => by
    obtain ⟨⟨e, he⟩, hd, ds⟩ := buildFields_spec h kvs
    rw [build_obj_eq]
    simp only [depth, List.length_append, List.length_singleton]
    have hlen : h.length ≤ (buildFields h kvs).1.length := by rw [he]; simp
    refine ⟨⟨e ++ [.obj (buildFields h kvs).2 0], by rw [he]; simp⟩, by omega, ?_⟩
    exact Denotes.obj (e := 0) (by simp) hlen (by simp)
      (ds.mono (agreeOn_append _ _ _) (Nat.le_refl _) (by simp))
theorem buildList_spec : ∀ (h : Heap) (xs : List JVal),
    (∃ extra, (buildList h xs).1 = h ++ extra) ∧ h.length + depthList xs ≤ (buildList h xs).1.length ∧
    DenotesList h.length (buildList h xs).1.length (buildList h xs).1 (buildList h xs).2 xs
  | h, [] => by
    simp only [buildList]
    exact ⟨⟨[], by simp⟩, by simp [depthList], DenotesList.nil _ _ _⟩
  | h, x :: xs => by
    obtain ⟨⟨e1, he1⟩, hd1, d1⟩ := build_spec h x
    obtain ⟨⟨e2, he2⟩, hd2, d2⟩ := buildList_spec (build h x).1 xs
    rw [buildList_cons_eq]
    simp only [depthList]
    have hl1 : h.length ≤ (build h x).1.length := by rw [he1]; simp
    have hl2 : (build h x).1.length ≤ (buildList (build h x).1 xs).1.length := by rw [he2]; simp
    refine ⟨⟨e1 ++ e2, by rw [he2, he1]; simp⟩, by omega, ?_⟩
    refine DenotesList.cons (d1.mono ?_ (Nat.le_refl _) hl2) (d2.mono (AgreeOn.refl _ _ _) hl1 (Nat.le_refl _))
    rw [he2]; exact agreeOn_append _ _ _
theorem buildFields_spec : ∀ (h : Heap) (kvs : List (Str × JVal)),
    (∃ extra, (buildFields h kvs).1 = h ++ extra) ∧
    h.length + depthFields kvs ≤ (buildFields h kvs).1.length ∧
    DenotesFields h.length (buildFields h kvs).1.length (buildFields h kvs).1 (buildFields h kvs).2 kvs
  | h, [] => by
    simp only [buildFields]
    exact ⟨⟨[], by simp⟩, by simp [depthFields], DenotesFields.nil _ _ _⟩
  | h, (k, x) :: kvs => by
    obtain ⟨⟨e1, he1⟩, hd1, d1⟩ := build_spec h x
    obtain ⟨⟨e2, he2⟩, hd2, d2⟩ := buildFields_spec (build h x).1 kvs
    rw [buildFields_cons_eq]
    simp only [depthFields]
    have hl1 : h.length ≤ (build h x).1.length := by rw [he1]; simp
    have hl2 : (build h x).1.length ≤ (buildFields (build h x).1 kvs).1.length := by rw [he2]; simp
    refine ⟨⟨e1 ++ e2, by rw [he2, he1]; simp⟩, by omega, ?_⟩
    refine DenotesFields.cons (d1.mono ?_ (Nat.le_refl _) hl2)
      (d2.mono (AgreeOn.refl _ _ _) hl1 (Nat.le_refl _))
    rw [he2]; exact agreeOn_append _ _ _
end

/-! ### `Clone` -/

theorem clone_inv {h h' : Heap} {v c : Val} (hc : O.clone h v = some (h', c)) :
    ∃ t, reifyF h v = some t ∧ build h t = (h', c) := by
  unfold O.clone at hc
  cases ht : reifyF h v with
  | none => rw [ht] at hc; cases hc
  | some t => rw [ht] at hc; exact ⟨t, rfl, by simpa using hc⟩

/-- everything the proofs need about a successful `Clone` -/
theorem clone_spec {h h' : Heap} {v c : Val} (hc : O.clone h v = some (h', c)) :
    ∃ t, reifyF h v = some t ∧ (∃ extra, h' = h ++ extra) ∧ h.length + depth t ≤ h'.length ∧
      Denotes h.length h'.length h' c t := by
  obtain ⟨t, ht, hb⟩ := clone_inv hc
  have := build_spec h t
  rw [hb] at this
  exact ⟨t, ht, this⟩

theorem ext0_of_append (h extra : Heap) : Ext0 h (h ++ extra) :=
  ⟨by simp, fun _ hb => List.getElem?_append_left hb⟩

end Rf
end Anytype
