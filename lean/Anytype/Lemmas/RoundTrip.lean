/-
The lenient parser on serialised value trees: scalars, strings, element and field loops, and the
induction over the value tree.
-/
import Anytype.Lemmas.ParserSteps
namespace Anytype
namespace RT

theorem parseField_null (line : Nat) : parseField (ser .null) line = .ok .null := by
  simp [parseField, ser]

theorem parseField_true (line : Nat) : parseField (ser (.bool true)) line = .ok (.bool true) := by
  have a : parseIntBase0 ['t', 'r', 'u', 'e'] = none := by decide
  have b : F64.parseFloat ['t', 'r', 'u', 'e'] = none := by decide
  have c : parseBool ['t', 'r', 'u', 'e'] = some true := by decide
  simp [parseField, ser, a, b, c]

theorem parseField_false (line : Nat) : parseField (ser (.bool false)) line = .ok (.bool false) := by
  have a : parseIntBase0 ['f', 'a', 'l', 's', 'e'] = none := by decide
  have b : F64.parseFloat ['f', 'a', 'l', 's', 'e'] = none := by decide
  have c : parseBool ['f', 'a', 'l', 's', 'e'] = some false := by decide
  simp [parseField, ser, a, b, c]

theorem numLike_ne_null {s : Str} (h : NumLike s) : (s == ['n', 'u', 'l', 'l']) = false := by
  obtain ⟨hne, hc⟩ := h
  cases s with
  | nil => contradiction
  | cons c t =>
    have := numChar_toNat (hc c (by simp))
    have : c ≠ 'n' := by apply ne_of_toNat_ne; simp; omega
    simp [this]

theorem parseField_int (i : Int) (hi : InRange i) (line : Nat) :
    parseField (ser (.int i)) line = .ok (.int i) := by
  simp [parseField, ser, numLike_ne_null (itoa_numLike i), parseIntBase0_itoa i hi]

theorem parseField_float (hf : FmtContract) (x : F64) (hx : x.isFinite = true) (line : Nat) :
    parseField (ser (.float x)) line = .ok (.float x) := by
  simp [parseField, ser, numLike_ne_null (serF_numLike hf x hx), hf.not_int x hx, hf.parse_back x hx]

/-! ### string bodies are accumulated verbatim by the `.str` / `.key` states -/

theorem verbatim_escChar (P : Str → List Item → Prop)
    (hplain : ∀ c val rest, c ≠ '"' → c ≠ '\\' → c ≠ '\n' → P (val ++ [c]) rest → P val (some c :: rest))
    (hesc : ∀ e val rest, e ≠ '\n' → P (val ++ ['\\', e]) rest → P val (some '\\' :: some e :: rest))
    (c : Char) (val : Str) (rest : List Item) (h : P (val ++ escChar c) rest) :
    P val (I (escChar c) ++ rest) := by
  rcases escChar_cases c with ⟨_, e⟩ | ⟨_, e⟩ | ⟨_, e⟩ | ⟨_, e⟩ | ⟨_, e⟩ | ⟨_, e⟩ | ⟨_, e⟩ | ⟨hlt, e⟩ | ⟨hge, h1, h2, e⟩
  all_goals rw [e] at h ⊢
  · exact hesc _ _ _ (by decide) h
  · exact hesc _ _ _ (by decide) h
  · exact hesc _ _ _ (by decide) h
  · exact hesc _ _ _ (by decide) h
  · exact hesc _ _ _ (by decide) h
  · exact hesc _ _ _ (by decide) h
  · exact hesc _ _ _ (by decide) h
  · have a := hexDigit_ne (c.toNat / 16) (by omega)
    have b := hexDigit_ne (c.toNat % 16) (by omega)
    apply hesc _ _ _ (by decide)
    apply hplain _ _ _ (by decide) (by decide) (by decide)
    apply hplain _ _ _ (by decide) (by decide) (by decide)
    apply hplain _ _ _ a.1 a.2.1 a.2.2
    apply hplain _ _ _ b.1 b.2.1 b.2.2
    simpa using h
  · have h3 : c ≠ '\n' := by intro e; subst e; revert hge; decide
    exact hplain _ _ _ h1 h2 h3 h

theorem verbatim_quoteBody (P : Str → List Item → Prop)
    (hplain : ∀ c val rest, c ≠ '"' → c ≠ '\\' → c ≠ '\n' → P (val ++ [c]) rest → P val (some c :: rest))
    (hesc : ∀ e val rest, e ≠ '\n' → P (val ++ ['\\', e]) rest → P val (some '\\' :: some e :: rest))
    (s : Str) : ∀ (val : Str) (rest : List Item), P (val ++ quoteBody s) rest →
      P val (I (quoteBody s) ++ rest) := by
  induction s with
  | nil => intro val rest h; simpa [quoteBody] using h
  | cons c s ih =>
    intro val rest h
    rw [quoteBody_cons] at h ⊢
    have : I (escChar c ++ quoteBody s) ++ rest = I (escChar c) ++ (I (quoteBody s) ++ rest) := by simp [I]
    rw [this]
    apply verbatim_escChar P hplain hesc
    apply ih
    simpa using h

theorem LRun_str_body (s : Str) {rest acc val inVal line R}
    (h : LRun rest .str acc (val ++ quoteBody s) inVal line R) :
    LRun (I (quoteBody s) ++ rest) .str acc val inVal line R :=
  verbatim_quoteBody (fun v r => LRun r .str acc v inVal line R)
    (fun _ _ _ h1 h2 h3 h => LRun_str_plain h1 h2 h3 h) (fun _ _ _ h3 h => LRun_str_esc h3 h) s val rest h

theorem ORun_str_body (s : Str) {rest acc key val inVal line R}
    (h : ORun rest .str acc key (val ++ quoteBody s) inVal line R) :
    ORun (I (quoteBody s) ++ rest) .str acc key val inVal line R :=
  verbatim_quoteBody (fun v r => ORun r .str acc key v inVal line R)
    (fun _ _ _ h1 h2 h3 h => ORun_str_plain h1 h2 h3 h) (fun _ _ _ h3 h => ORun_str_esc h3 h) s val rest h

theorem ORun_key_body (s : Str) {rest acc key val inVal line R}
    (h : ORun rest .key acc (key ++ quoteBody s) val inVal line R) :
    ORun (I (quoteBody s) ++ rest) .key acc key val inVal line R :=
  verbatim_quoteBody (fun k r => ORun r .key acc k val inVal line R)
    (fun _ _ _ h1 h2 h3 h => ORun_key_plain h1 h2 h3 h) (fun _ _ _ h3 h => ORun_key_esc h3 h) s key rest h

theorem I_quoteJSON (s : Str) (rest : List Item) :
    I (quoteJSON s) ++ rest = some '"' :: (I (quoteBody s) ++ some '"' :: rest) := by
  simp [I, quoteJSON]

/-- a whole string element in a list -/
theorem LRun_string (s : Str) {rest acc line R}
    (h : LRun rest .afterStr (acc ++ [.str s]) [] false line R) :
    LRun (I (quoteJSON s) ++ rest) .val acc [] false line R := by
  rw [I_quoteJSON]
  apply LRun_val_quote
  apply LRun_str_body
  apply LRun_str_end
  simpa [unquoteJSON_quoteBody] using h

/-- a whole string value in an object -/
theorem ORun_string (s : Str) {rest acc key line R}
    (h : ORun rest .afterStr (setField acc key (.str s)) key (quoteBody s) false line R) :
    ORun (I (quoteJSON s) ++ rest) .val acc key [] false line R := by
  rw [I_quoteJSON]
  apply ORun_val_quote
  apply ORun_str_body
  apply ORun_str_end
  simpa [unquoteJSON_quoteBody] using h

/-- a key and its colon -/
theorem ORun_key (k : Str) {rest acc key val inVal line R}
    (h : ORun rest .val acc k [] false line R) :
    ORun (I (quoteJSON k) ++ some ':' :: rest) .keyStart acc key val inVal line R := by
  rw [I_quoteJSON]
  apply ORun_keyStart_quote
  apply ORun_key_body
  apply ORun_key_end
  apply ORun_afterKey_colon
  simpa [unquoteJSON_quoteBody] using h

/-! ### scalars other than strings -/

instance (c : Char) : Decidable (PlainChar c) := by unfold PlainChar; infer_instance

theorem plain_of_numChar {c : Char} (h : isNumChar c = true) : PlainChar c := by
  have := numChar_toNat h
  refine ⟨isSpace_of_numChar h, ?_, ?_, ?_, ?_, ?_, ?_⟩ <;> apply ne_of_toNat_ne <;> simp <;> omega

/-- the text of a scalar is a non-empty run of plain characters that `parseField` reads back -/
structure ScalarText (x : JVal) : Prop where
  plain : ∀ c ∈ ser x, PlainChar c
  ne : ser x ≠ []
  pf : ∀ line, parseField (ser x) line = .ok x

theorem scalar_null : ScalarText .null :=
  ⟨by simp only [ser]; decide, by simp [ser], parseField_null⟩
theorem scalar_bool (b : Bool) : ScalarText (.bool b) := by
  cases b
  · exact ⟨by simp only [ser]; decide, by simp [ser], parseField_false⟩
  · exact ⟨by simp only [ser]; decide, by simp [ser], parseField_true⟩
theorem scalar_int (i : Int) (hi : InRange i) : ScalarText (.int i) :=
  ⟨fun c hc => plain_of_numChar ((itoa_numLike i).2 c hc), (itoa_numLike i).1, parseField_int i hi⟩
theorem scalar_float (hf : FmtContract) (x : F64) (hx : x.isFinite = true) : ScalarText (.float x) :=
  ⟨fun c hc => plain_of_numChar (hf.chars x hx c hc), hf.nonempty x hx, parseField_float hf x hx⟩

theorem LRun_scalar_comma {x : JVal} (hx : ScalarText x) {rest acc line R}
    (h : LRun rest .val (acc ++ [x]) [] false line R) :
    LRun (I (ser x) ++ some ',' :: rest) .val acc [] false line R := by
  obtain ⟨hp, hne, hpf⟩ := hx
  cases e : ser x with
  | nil => contradiction
  | cons c s =>
    rw [e] at hp
    apply LRun_val_plain (fun d hd => hp d (by simp [hd])) (hp c (by simp))
    apply LRun_val_comma (f := x) (by simp) (by have := hpf line; rw [e] at this; simpa using this) h

theorem LRun_scalar_close {x : JVal} (hx : ScalarText x) {rest acc line} :
    LRun (I (ser x) ++ some ']' :: rest) .val acc [] false line (.ok (.list (acc ++ [x])) rest line) := by
  obtain ⟨hp, hne, hpf⟩ := hx
  cases e : ser x with
  | nil => contradiction
  | cons c s =>
    rw [e] at hp
    apply LRun_val_plain (fun d hd => hp d (by simp [hd])) (hp c (by simp))
    apply LRun_val_close (f := x) (by simp) (by have := hpf line; rw [e] at this; simpa using this)

theorem ORun_scalar_comma {x : JVal} (hx : ScalarText x) {rest acc key line R}
    (h : ORun rest .keyStart (setField acc key x) key (ser x) true line R) :
    ORun (I (ser x) ++ some ',' :: rest) .val acc key [] false line R := by
  obtain ⟨hp, hne, hpf⟩ := hx
  cases e : ser x with
  | nil => contradiction
  | cons c s =>
    rw [e] at hp h
    apply ORun_val_plain (fun d hd => hp d (by simp [hd])) (hp c (by simp))
    apply ORun_val_comma (f := x) (by simp) (by have := hpf line; rw [e] at this; simpa using this) h

theorem ORun_scalar_close {x : JVal} (hx : ScalarText x) {rest acc key line} :
    ORun (I (ser x) ++ some '}' :: rest) .val acc key [] false line
      (.ok (.obj (setField acc key x)) rest line) := by
  obtain ⟨hp, hne, hpf⟩ := hx
  cases e : ser x with
  | nil => contradiction
  | cons c s =>
    rw [e] at hp
    apply ORun_val_plain (fun d hd => hp d (by simp [hd])) (hp c (by simp))
    apply ORun_val_close (f := x) (by simp) (by have := hpf line; rw [e] at this; simpa using this)

/-! ### one element / one field value, given that nested containers parse back -/

/-- the nested machine call on the text of a container returns that container and the text
behind its closing bracket -/
def Nested : JVal → Prop
  | .list xs => ∀ (rest : List Item) (line : Nat),
      LRun (I (serList xs) ++ some ']' :: rest) .val [] [] false line (.ok (.list xs) rest line)
  | .obj kvs => ∀ (rest : List Item) (line : Nat),
      ORun (I (serFields kvs) ++ some '}' :: rest) .keyStart [] [] [] false line (.ok (.obj kvs) rest line)
  | _ => True

theorem I_ser_list (xs : List JVal) (rest : List Item) :
    I (ser (.list xs)) ++ rest = some '[' :: (I (serList xs) ++ some ']' :: rest) := by
  simp [I, ser]

theorem I_ser_obj (kvs : List (Str × JVal)) (rest : List Item) :
    I (ser (.obj kvs)) ++ rest = some '{' :: (I (serFields kvs) ++ some '}' :: rest) := by
  simp [I, ser]

theorem LRun_elem_comma (hf : FmtContract) (x : JVal) (hw : x.WF) (hn : Nested x) {rest acc line R}
    (h : LRun rest .val (acc ++ [x]) [] false line R) :
    LRun (I (ser x) ++ some ',' :: rest) .val acc [] false line R := by
  cases x with
  | null => exact LRun_scalar_comma scalar_null h
  | bool b => exact LRun_scalar_comma (scalar_bool b) h
  | int i => exact LRun_scalar_comma (scalar_int i (by simpa [JVal.WF] using hw)) h
  | float x => exact LRun_scalar_comma (scalar_float hf x (by simpa [JVal.WF] using hw)) h
  | str s =>
    simp only [ser]
    exact LRun_string s (LRun_afterStr_comma h)
  | list xs =>
    rw [I_ser_list]
    exact LRun_val_list (hn _ line) (by simp; omega) (LRun_val_comma0 h)
  | obj kvs =>
    rw [I_ser_obj]
    exact LRun_val_obj (hn _ line) (by simp; omega) (LRun_val_comma0 h)

theorem LRun_elem_close (hf : FmtContract) (x : JVal) (hw : x.WF) (hn : Nested x) {rest acc line} :
    LRun (I (ser x) ++ some ']' :: rest) .val acc [] false line (.ok (.list (acc ++ [x])) rest line) := by
  cases x with
  | null => exact LRun_scalar_close scalar_null
  | bool b => exact LRun_scalar_close (scalar_bool b)
  | int i => exact LRun_scalar_close (scalar_int i (by simpa [JVal.WF] using hw))
  | float x => exact LRun_scalar_close (scalar_float hf x (by simpa [JVal.WF] using hw))
  | str s =>
    simp only [ser]
    exact LRun_string s LRun_afterStr_close
  | list xs =>
    rw [I_ser_list]
    exact LRun_val_list (hn _ line) (by simp; omega) LRun_val_close0
  | obj kvs =>
    rw [I_ser_obj]
    exact LRun_val_obj (hn _ line) (by simp; omega) LRun_val_close0

theorem ORun_elem_comma (hf : FmtContract) (x : JVal) (hw : x.WF) (hn : Nested x) {rest acc key line R}
    (h : ∀ val' inVal', ORun rest .keyStart (setField acc key x) key val' inVal' line R) :
    ORun (I (ser x) ++ some ',' :: rest) .val acc key [] false line R := by
  cases x with
  | null => exact ORun_scalar_comma scalar_null (h _ _)
  | bool b => exact ORun_scalar_comma (scalar_bool b) (h _ _)
  | int i => exact ORun_scalar_comma (scalar_int i (by simpa [JVal.WF] using hw)) (h _ _)
  | float x => exact ORun_scalar_comma (scalar_float hf x (by simpa [JVal.WF] using hw)) (h _ _)
  | str s =>
    simp only [ser]
    exact ORun_string s (ORun_afterStr_comma (h _ _))
  | list xs =>
    rw [I_ser_list]
    exact ORun_val_list (hn _ line) (by simp; omega) (ORun_afterVal_comma (h _ _))
  | obj kvs =>
    rw [I_ser_obj]
    exact ORun_val_obj (hn _ line) (by simp; omega) (ORun_afterVal_comma (h _ _))

theorem ORun_elem_close (hf : FmtContract) (x : JVal) (hw : x.WF) (hn : Nested x) {rest acc key line} :
    ORun (I (ser x) ++ some '}' :: rest) .val acc key [] false line
      (.ok (.obj (setField acc key x)) rest line) := by
  cases x with
  | null => exact ORun_scalar_close scalar_null
  | bool b => exact ORun_scalar_close (scalar_bool b)
  | int i => exact ORun_scalar_close (scalar_int i (by simpa [JVal.WF] using hw))
  | float x => exact ORun_scalar_close (scalar_float hf x (by simpa [JVal.WF] using hw))
  | str s =>
    simp only [ser]
    exact ORun_string s ORun_afterStr_close
  | list xs =>
    rw [I_ser_list]
    exact ORun_val_list (hn _ line) (by simp; omega) ORun_afterVal_close
  | obj kvs =>
    rw [I_ser_obj]
    exact ORun_val_obj (hn _ line) (by simp; omega) ORun_afterVal_close

/-! ### element loop and field loop -/

theorem I_append (a b : Str) (rest : List Item) : I (a ++ b) ++ rest = I a ++ (I b ++ rest) := by
  simp [I]
theorem I_cons (c : Char) (b : Str) (rest : List Item) : I (c :: b) ++ rest = some c :: (I b ++ rest) := by
  simp [I]

theorem LRun_listBody (hf : FmtContract) (xs : List JVal) (hx : ∀ x ∈ xs, x.WF ∧ Nested x) :
    ∀ (acc : List JVal) (rest : List Item) (line : Nat),
    LRun (I (serList xs) ++ some ']' :: rest) .val acc [] false line (.ok (.list (acc ++ xs)) rest line) := by
  induction xs with
  | nil =>
    intro acc rest line
    simpa [serList, I] using LRun_val_close0 (rest := rest) (acc := acc) (inVal := false) (line := line)
  | cons x xs ih =>
    intro acc rest line
    have hx0 := hx x (by simp)
    cases xs with
    | nil =>
      rw [serList_single]
      exact LRun_elem_close hf x hx0.1 hx0.2
    | cons y ys =>
      rw [serList_cons_cons, I_append, I_cons]
      apply LRun_elem_comma hf x hx0.1 hx0.2
      have := ih (fun z hz => hx z (by simp [hz])) (acc ++ [x]) rest line
      simpa using this

theorem ORun_fieldsBody (hf : FmtContract) (kvs : List (Str × JVal)) (hx : ∀ kv ∈ kvs, kv.2.WF ∧ Nested kv.2) :
    ∀ (acc : List (Str × JVal)) (key val : Str) (inVal : Bool) (rest : List Item) (line : Nat),
    ((acc ++ kvs).map Prod.fst).Nodup →
    ORun (I (serFields kvs) ++ some '}' :: rest) .keyStart acc key val inVal line
      (.ok (.obj (acc ++ kvs)) rest line) := by
  induction kvs with
  | nil =>
    intro acc key val inVal rest line _
    simpa [serFields, I] using
      ORun_keyStart_close (rest := rest) (acc := acc) (key := key) (val := val) (inVal := inVal) (line := line)
  | cons kv kvs ih =>
    intro acc key val inVal rest line hnd
    obtain ⟨k, v⟩ := kv
    have hx0 := hx (k, v) (by simp)
    have hk : k ∉ acc.map Prod.fst := by
      simp only [List.map_append, List.map_cons] at hnd
      have := (List.nodup_append.mp hnd).2.2
      intro hm; exact this k hm k (by simp) rfl
    cases kvs with
    | nil =>
      rw [serFields_single, I_append, I_cons]
      apply ORun_key
      have := ORun_elem_close hf v hx0.1 hx0.2 (rest := rest) (acc := acc) (key := k) (line := line)
      rwa [setField_append acc k v hk] at this
    | cons y ys =>
      rw [serFields_cons_cons, I_append, I_cons, I_append, I_cons]
      apply ORun_key
      apply ORun_elem_comma hf v hx0.1 hx0.2
      intro val' inVal'
      rw [setField_append acc k v hk]
      have := ih (fun z hz => hx z (by simp [hz])) (acc ++ [(k, v)]) k val' inVal' rest line (by simpa using hnd)
      simpa using this

/-! ### every well-formed container parses back (induction over the value tree) -/

mutual
theorem nested_all (hf : FmtContract) : (v : JVal) → v.WF → Nested v
  | .null, _ => trivial
  | .bool _, _ => trivial
  | .int _, _ => trivial
  | .float _, _ => trivial
  | .str _, _ => trivial
  | .list xs, hw => by
    intro rest line
    have := LRun_listBody hf xs (nested_list hf xs (by simpa [JVal.WF] using hw)) [] rest line
    simpa using this
  | .obj kvs, hw => by
    intro rest line
    have hw' : (kvs.map Prod.fst).Nodup ∧ WFFields kvs := by simpa [JVal.WF] using hw
    have := ORun_fieldsBody hf kvs (nested_fields hf kvs hw'.2) [] [] [] false rest line (by simpa using hw'.1)
    simpa using this
theorem nested_list (hf : FmtContract) : (xs : List JVal) → WFList xs → ∀ x ∈ xs, x.WF ∧ Nested x
  | [], _ => by simp
  | x :: xs, hw => by
    intro z hz
    rcases List.mem_cons.mp hz with h | h
    · rw [h]; exact ⟨hw.1, nested_all hf x hw.1⟩
    · exact nested_list hf xs hw.2 z h
theorem nested_fields (hf : FmtContract) : (kvs : List (Str × JVal)) → WFFields kvs →
    ∀ kv ∈ kvs, kv.2.WF ∧ Nested kv.2
  | [], _ => by simp
  | (k, v) :: kvs, hw => by
    intro z hz
    rcases List.mem_cons.mp hz with h | h
    · rw [h]; exact ⟨hw.1, nested_all hf v hw.1⟩
    · exact nested_fields hf kvs hw.2 z h
end

end RT
end Anytype
