/-
Character facts about serialised scalars: `itoa i` and `serF x` consist of "number characters".
-/
import Anytype.Lemmas.Contract
namespace Anytype

theorem numChar_toNat {c : Char} (h : isNumChar c = true) :
    c.toNat = 43 ∨ c.toNat = 45 ∨ c.toNat = 46 ∨ (48 ≤ c.toNat ∧ c.toNat ≤ 57) ∨ c.toNat = 69 ∨ c.toNat = 101 := by
  simp only [isNumChar, F64.isDigit, Bool.or_eq_true, Bool.and_eq_true, decide_eq_true_eq, beq_iff_eq,
    char_le_iff, char_eq_iff] at h
  have e0 : '0'.toNat = 48 := rfl
  have e9 : '9'.toNat = 57 := rfl
  have e1 : '+'.toNat = 43 := rfl
  have e2 : '-'.toNat = 45 := rfl
  have e3 : '.'.toNat = 46 := rfl
  have e4 : 'e'.toNat = 101 := rfl
  have e5 : 'E'.toNat = 69 := rfl
  omega

/-- a non-empty text of number characters -/
def NumLike (s : Str) : Prop := s ≠ [] ∧ ∀ c ∈ s, isNumChar c = true

theorem itoa_numLike (i : Int) : NumLike (itoa i) := by
  unfold itoa
  have hd : ∀ n, ∀ c ∈ Nat.toDigits 10 n, isNumChar c = true := by
    intro n c hc
    have := mem_toDigits_dig hc
    have hd : F64.isDigit c = true := by simp [F64.isDigit, char_le_iff]; exact this
    simp [isNumChar, hd]
  split
  · refine ⟨by simp, ?_⟩
    intro c hc
    rcases List.mem_cons.mp hc with rfl | h
    · rfl
    · exact hd _ c h
  · exact ⟨Nat.toDigits_ne_nil, hd _⟩

theorem serF_numLike (hf : FmtContract) (x : F64) (hx : x.isFinite = true) : NumLike (serF x) :=
  ⟨hf.nonempty x hx, hf.chars x hx⟩

theorem isSpace_of_numChar {c : Char} (h : isNumChar c = true) : isSpace c = false := by
  have := numChar_toNat h
  simp only [isSpace]
  generalize c.toNat = n at this
  simp
  omega

/-! ### unfolding the serialiser, `setField` on a fresh key -/

theorem serList_cons_cons (x y : JVal) (ys : List JVal) :
    serList (x :: y :: ys) = ser x ++ ',' :: serList (y :: ys) := by simp [serList]
theorem serList_single (x : JVal) : serList [x] = ser x := by simp [serList]
theorem serFields_cons_cons (k : Str) (v : JVal) (kv : Str × JVal) (kvs : List (Str × JVal)) :
    serFields ((k, v) :: kv :: kvs) = quoteJSON k ++ ':' :: ser v ++ ',' :: serFields (kv :: kvs) := by
  simp [serFields]
theorem serFields_single (k : Str) (v : JVal) : serFields [(k, v)] = quoteJSON k ++ ':' :: ser v := by
  simp [serFields]

theorem setField_append (acc : List (Str × JVal)) (k : Str) (v : JVal) (h : k ∉ acc.map Prod.fst) :
    setField acc k v = acc ++ [(k, v)] := by
  induction acc with
  | nil => rfl
  | cons a acc ih =>
    obtain ⟨k', v'⟩ := a
    simp only [List.map_cons, List.mem_cons, not_or] at h
    have : (k' == k) = false := by simp; exact fun e => h.1 e.symm
    simp [setField, this, ih h.2]


end Anytype
