/-
Seventeen significant decimal digits always suffice (binary64), for the exact model of
`Anytype/Model/Float64.lean`.

Main results (all cross-multiplied in ℕ/ℤ; `10^z` for an integer `z` is written as the pair
`10^z.toNat / 10^(-z).toNat`, one of which is `1`):

* `Sev.decExp_spec`        : `decExp n d` is the decimal exponent (`DecBetween n d (decExp n d)`).
* `Sev.roundPos_eq_finish` : `roundPos` rounds at the exponent of the binade of `a/b` (or at -1074).
* `Sev.roundPos_of_close`  : correct rounding, sufficient condition: every rational within half a
                             gap of `|x|` (a quarter of the upper gap just below a power of two)
                             rounds to `|x|`.
* `Sev.tryPrec_some_roundPos`, `Sev.tryPrec_some_digits` : what `tryPrec … = some c` gives.
* `Sev.tryPrec_17`         : precision 17 succeeds for every finite non-zero `x`.
* `shortestLoop_succeeds`, `shortestLoop_spec`, `shortest_eq` : the loop of `F64.shortest` never
                             reaches its `none` branch.
-/
import Anytype.Lemmas.Float32
import Mathlib.Tactic.Ring
import Mathlib.Tactic.Linarith
import Mathlib.Tactic.Positivity

namespace Anytype
namespace F64
namespace Sev
open F32 (stepE finish roundPos_staged)

/-! ### powers with integer exponents, written as a pair of natural powers -/

/-- `B^z = B^z⁺ / B^z⁻`: the product rule for `z = z1 + z2` -/
theorem zpw_add (B : Nat) (z z1 z2 : Int) (h : z = z1 + z2) :
    B ^ z.toNat * (B ^ (-z1).toNat * B ^ (-z2).toNat) =
      B ^ (-z).toNat * (B ^ z1.toNat * B ^ z2.toNat) := by
  rw [← Nat.pow_add, ← Nat.pow_add, ← Nat.pow_add, ← Nat.pow_add]
  congr 1
  omega

theorem scaled_eq (n d : Nat) (e : Int) :
    scaled n d e = (n * 2 ^ (-e).toNat, d * 2 ^ e.toNat) := by
  unfold scaled
  by_cases h : e ≥ 0
  · have : (-e).toNat = 0 := by omega
    rw [if_pos h, this]; simp
  · have : e.toNat = 0 := by omega
    rw [if_neg h, this]; simp

theorem scaled_snd_pos (n d : Nat) (e : Int) (hd : 0 < d) : 0 < (scaled n d e).2 := by
  rw [scaled_eq]; positivity

/-- quotients at two exponents: `A/B = (A'/B') · 2^δ` when `e' = e + δ` -/
theorem scaled_cross (n d : Nat) (e e' : Int) (δ : Nat) (h : e' = e + δ) :
    (scaled n d e).1 * (scaled n d e').2 = (scaled n d e').1 * (scaled n d e).2 * 2 ^ δ := by
  rw [scaled_eq, scaled_eq]
  simp only
  have key := zpw_add 2 e' e (δ : Int) h
  have h0 : (-(δ : Int)).toNat = 0 := by omega
  rw [h0, Int.toNat_natCast] at key
  calc n * 2 ^ (-e).toNat * (d * 2 ^ e'.toNat)
      = n * d * (2 ^ e'.toNat * (2 ^ (-e).toNat * 2 ^ 0)) := by ring
    _ = n * d * (2 ^ (-e').toNat * (2 ^ e.toNat * 2 ^ δ)) := by rw [key]
    _ = n * 2 ^ (-e').toNat * (d * 2 ^ e.toNat) * 2 ^ δ := by ring

theorem bitLen_spec (n : Nat) (h : n ≠ 0) : 2 ^ (bitLen n - 1) ≤ n ∧ n < 2 ^ bitLen n ∧ 1 ≤ bitLen n := by
  unfold bitLen
  rw [if_neg h]
  exact ⟨Nat.log2_self_le h, Nat.lt_log2_self, by omega⟩

/-! ### the exponent search of `roundPos` -/

/-- the quotient of `n/d` at exponent `e` lies in `[2^52, 2^53)` -/
def InBin (n d : Nat) (e : Int) : Prop :=
  2 ^ 52 * (scaled n d e).2 ≤ (scaled n d e).1 ∧ (scaled n d e).1 < 2 ^ 53 * (scaled n d e).2

theorem stepE_of_inBin (n d : Nat) (e : Int) (hd : 0 < d) (h : InBin n d e) : stepE n d e = e := by
  have hB := scaled_snd_pos n d e hd
  unfold stepE
  simp only []
  have h1 : ¬ (scaled n d e).1 / (scaled n d e).2 < 2 ^ 52 := by
    rw [Nat.div_lt_iff_lt_mul hB]; have := h.1; omega
  have h2 : ¬ (scaled n d e).1 / (scaled n d e).2 ≥ 2 ^ 53 := by
    rw [ge_iff_le, Nat.le_div_iff_mul_le hB]; have := h.2; omega
  rw [if_neg h1, if_neg h2]

theorem stepE_up (n d : Nat) (e : Int) (hd : 0 < d)
    (h : 2 ^ 53 * (scaled n d e).2 ≤ (scaled n d e).1) : stepE n d e = e + 1 := by
  have hB := scaled_snd_pos n d e hd
  unfold stepE
  simp only []
  have h1 : ¬ (scaled n d e).1 / (scaled n d e).2 < 2 ^ 52 := by
    rw [Nat.div_lt_iff_lt_mul hB]; omega
  have h2 : (scaled n d e).1 / (scaled n d e).2 ≥ 2 ^ 53 := by
    rw [ge_iff_le, Nat.le_div_iff_mul_le hB]; omega
  rw [if_neg h1, if_pos h2]

/-- the first guess is at most one too small -/
theorem guess_bounds (n d : Nat) (hn : n ≠ 0) (hd : 0 < d) (e0 : Int)
    (he0 : e0 = (bitLen n : Int) - (bitLen d : Int) - 53) :
    2 ^ 52 * (scaled n d e0).2 ≤ (scaled n d e0).1 ∧ (scaled n d e0).1 < 2 ^ 54 * (scaled n d e0).2 := by
  obtain ⟨n1, n2, n3⟩ := bitLen_spec n hn
  obtain ⟨d1, d2, d3⟩ := bitLen_spec d (by omega)
  rw [scaled_eq]
  simp only
  generalize bitLen n = ln at *
  generalize bitLen d = ld at *
  constructor
  · calc 2 ^ 52 * (d * 2 ^ e0.toNat) ≤ 2 ^ 52 * (2 ^ ld * 2 ^ e0.toNat) :=
          Nat.mul_le_mul_left _ (Nat.mul_le_mul_right _ (Nat.le_of_lt d2))
      _ = 2 ^ (ln - 1) * 2 ^ (-e0).toNat := by
          rw [← Nat.pow_add, ← Nat.pow_add, ← Nat.pow_add]; congr 1; omega
      _ ≤ n * 2 ^ (-e0).toNat := Nat.mul_le_mul_right _ n1
  · calc n * 2 ^ (-e0).toNat < 2 ^ ln * 2 ^ (-e0).toNat :=
          Nat.mul_lt_mul_of_pos_right n2 (Nat.two_pow_pos _)
      _ = 2 ^ 54 * (2 ^ (ld - 1) * 2 ^ e0.toNat) := by
          rw [← Nat.pow_add, ← Nat.pow_add, ← Nat.pow_add]; congr 1; omega
      _ ≤ 2 ^ 54 * (d * 2 ^ e0.toNat) :=
          Nat.mul_le_mul_left _ (Nat.mul_le_mul_right _ d1)

/-- one step up halves the quotient -/
theorem inBin_succ (n d : Nat) (e : Int) (hd : 0 < d)
    (h1 : 2 ^ 53 * (scaled n d e).2 ≤ (scaled n d e).1)
    (h2 : (scaled n d e).1 < 2 ^ 54 * (scaled n d e).2) : InBin n d (e + 1) := by
  have hB := scaled_snd_pos n d e hd
  have hB' := scaled_snd_pos n d (e + 1) hd
  have hc := scaled_cross n d e (e + 1) 1 (by omega)
  unfold InBin
  generalize (scaled n d e).1 = A at *
  generalize (scaled n d e).2 = B at *
  generalize (scaled n d (e + 1)).1 = A' at *
  generalize (scaled n d (e + 1)).2 = B' at *
  constructor
  · refine Nat.le_of_mul_le_mul_left (c := 2 * B) ?_ (by omega)
    calc 2 * B * (2 ^ 52 * B') = 2 ^ 53 * B * B' := by ring
      _ ≤ A * B' := Nat.mul_le_mul_right _ h1
      _ = 2 * B * A' := by rw [hc]; ring
  · refine Nat.lt_of_mul_lt_mul_left (a := 2 * B) ?_
    calc 2 * B * A' = A * B' := by rw [hc]; ring
      _ < 2 ^ 54 * B * B' := Nat.mul_lt_mul_of_pos_right h2 hB'
      _ = 2 * B * (2 ^ 53 * B') := by ring

/-- two search steps from the first guess reach the binade -/
theorem search_inBin (n d : Nat) (hn : n ≠ 0) (hd : 0 < d) :
    InBin n d (stepE n d (stepE n d ((bitLen n : Int) - (bitLen d : Int) - 53))) := by
  obtain ⟨g1, g2⟩ := guess_bounds n d hn hd _ rfl
  generalize (bitLen n : Int) - (bitLen d : Int) - 53 = e0 at *
  by_cases h : 2 ^ 53 * (scaled n d e0).2 ≤ (scaled n d e0).1
  · have hi := inBin_succ n d e0 hd h g2
    rw [stepE_up n d e0 hd h, stepE_of_inBin n d _ hd hi]; exact hi
  · have hi : InBin n d e0 := ⟨g1, by omega⟩
    rw [stepE_of_inBin n d _ hd hi, stepE_of_inBin n d _ hd hi]; exact hi

/-- a larger exponent gives a smaller quotient -/
theorem inBin_lt_absurd (n d : Nat) (e e' : Int) (hd : 0 < d) (hlt : e < e')
    (h : (scaled n d e).1 < 2 ^ 53 * (scaled n d e).2)
    (h' : 2 ^ 52 * (scaled n d e').2 ≤ (scaled n d e').1) : False := by
  have hB := scaled_snd_pos n d e hd
  have hB' := scaled_snd_pos n d e' hd
  obtain ⟨δ, hδ⟩ : ∃ δ : Nat, e' = e + (δ + 1 : Nat) := ⟨(e' - e - 1).toNat, by omega⟩
  have hc := scaled_cross n d e e' (δ + 1) hδ
  generalize (scaled n d e).1 = A at *
  generalize (scaled n d e).2 = B at *
  generalize (scaled n d e').1 = A' at *
  generalize (scaled n d e').2 = B' at *
  have hp : 2 ≤ 2 ^ (δ + 1) := by
    rw [Nat.pow_succ]; have := Nat.two_pow_pos δ; omega
  have : A * B' < A * B' :=
    calc A * B' < 2 ^ 53 * B * B' := Nat.mul_lt_mul_of_pos_right h hB'
      _ = 2 ^ 52 * B' * B * 2 := by ring
      _ ≤ A' * B * 2 := Nat.mul_le_mul_right _ (Nat.mul_le_mul_right _ h')
      _ ≤ A' * B * 2 ^ (δ + 1) := Nat.mul_le_mul_left _ hp
      _ = A * B' := hc.symm
  omega

theorem inBin_unique (n d : Nat) (e e' : Int) (hd : 0 < d) (h : InBin n d e) (h' : InBin n d e') :
    e = e' := by
  rcases Int.lt_trichotomy e e' with hlt | heq | hgt
  · exact (inBin_lt_absurd n d e e' hd hlt h.2 h'.1).elim
  · exact heq
  · exact (inBin_lt_absurd n d e' e hd hgt h'.2 h.1).elim

/-- `roundPos` rounds at the exponent of the binade, or at `-1074` below the normal range -/
theorem roundPos_eq_finish (a b : Nat) (ha : a ≠ 0) (hb : 0 < b) (e : Int) (he : -1074 ≤ e)
    (h : InBin a b e ∨ (e = -1074 ∧ (scaled a b e).1 < 2 ^ 52 * (scaled a b e).2)) :
    roundPos a b = finish a b e := by
  rw [roundPos_staged a b ha]
  have hs := search_inBin a b ha hb
  simp only []
  generalize stepE a b (stepE a b ((bitLen a : Int) - (bitLen b : Int) - 53)) = e2 at *
  rcases h with h | ⟨rfl, h⟩
  · have := inBin_unique a b e e2 hb h hs
    subst this
    rw [if_neg (by omega)]
  · by_cases hlt : e2 < -1074
    · rw [if_pos hlt]
    · exfalso
      rcases Int.lt_or_eq_of_le (Int.not_lt.mp hlt) with h1 | h1
      · have hB := scaled_snd_pos a b (-1074) hb
        exact inBin_lt_absurd a b (-1074) e2 hb h1 (by omega) hs.1
      · rw [← h1] at hs; have := hs.1; omega

/-! ### the final rounding -/

/-- the pattern `roundPos` assembles from a rounded significand `m ≤ 2^53` at exponent `e` -/
def enc (m : Nat) (e : Int) : Option UInt64 :=
  let (q'', e') := if m = 2 ^ 53 then (2 ^ 52, e + 1) else (m, e)
  if e' > 971 then none
  else if q'' < 2 ^ 52 then some (UInt64.ofNat q'')
  else some (UInt64.ofNat (((e' + 1075).toNat <<< 52) + (q'' - 2 ^ 52)))

/-- nearest-integer rounding of `A / B` when `|A/B - m| < 1/2` -/
theorem round_near (A B m : Nat) (_hB : 0 < B) (h1 : 2 * m * B < 2 * A + B) (h2 : 2 * A < 2 * m * B + B) :
    (if 2 * (A % B) > B then A / B + 1 else if 2 * (A % B) < B then A / B
      else (if A / B % 2 = 1 then A / B + 1 else A / B)) = m := by
  by_cases hle : m * B ≤ A
  · have hq : A / B = m := by
      apply Nat.div_eq_of_lt_le
      · exact hle
      · rw [Nat.succ_mul]; rw [Nat.mul_assoc] at h1 h2; omega
    have hr : A % B = A - m * B := by
      have := Nat.div_add_mod A B
      rw [hq, Nat.mul_comm] at this; omega
    rw [hr, hq]
    rw [Nat.mul_assoc] at h1 h2
    rw [if_neg (by omega), if_pos (by omega)]
  · obtain ⟨m', rfl⟩ : ∃ m', m = m' + 1 := ⟨m - 1, by
      rcases m with _ | m
      · simp at hle
      · omega⟩
    have e1 : (m' + 1) * B = m' * B + B := Nat.succ_mul _ _
    rw [Nat.mul_assoc, e1] at h1 h2
    rw [e1] at hle
    have hq : A / B = m' := by
      apply Nat.div_eq_of_lt_le
      · omega
      · rw [Nat.succ_mul]; omega
    have hr : A % B = A - m' * B := by
      have := Nat.div_add_mod A B
      rw [hq, Nat.mul_comm] at this; omega
    rw [hr, hq]
    rw [if_pos (by omega)]

theorem finish_near (a b : Nat) (e : Int) (m : Nat) (hb : 0 < b)
    (h1 : 2 * m * (scaled a b e).2 < 2 * (scaled a b e).1 + (scaled a b e).2)
    (h2 : 2 * (scaled a b e).1 < 2 * m * (scaled a b e).2 + (scaled a b e).2) :
    finish a b e = enc m e := by
  have hB := scaled_snd_pos a b e hb
  unfold finish
  simp only []
  rw [round_near _ _ m hB h1 h2]
  rfl

/-! ### the pattern of `|x|` -/

theorem abs_bits_toNat (x : F64) : x.abs.bits.toNat = x.bits.toNat % 2 ^ 63 := by
  unfold abs
  simp only [UInt64.toNat_and]
  exact Nat.and_two_pow_sub_one_eq_mod _ 63

theorem abs_bits_fields (x : F64) : x.abs.bits = UInt64.ofNat (x.expBits * 2 ^ 52 + x.frac) := by
  rw [← UInt64.toNat_inj, UInt64.toNat_ofNat', abs_bits_toNat, expBits_nat, frac_nat]
  have := x.bits.toNat_lt
  omega

theorem expBits_lt (x : F64) : x.expBits < 2048 := by
  rw [expBits_nat]; omega

theorem frac_lt (x : F64) : x.frac < 2 ^ 52 := by
  rw [frac_nat]; omega

theorem enc_of_ne (m : Nat) (e : Int) (h : m ≠ 2 ^ 53) :
    enc m e = if e > 971 then none
      else if m < 2 ^ 52 then some (UInt64.ofNat m)
      else some (UInt64.ofNat (((e + 1075).toNat <<< 52) + (m - 2 ^ 52))) := by
  unfold enc
  rw [if_neg h]

/-- a finite `|x|` is what `roundPos` assembles from its own significand and exponent -/
theorem enc_self (x : F64) (hf : x.isFinite = true) : enc x.mant x.exp2 = some x.abs.bits := by
  have hE := expBits_lt x
  have hF := frac_lt x
  have hfin : x.expBits ≠ 2047 := by simpa [isFinite] using hf
  rw [abs_bits_fields]
  unfold mant exp2
  by_cases h0 : x.expBits = 0
  · simp only [h0, beq_self_eq_true, if_true]
    rw [enc_of_ne _ _ (by omega), if_neg (by omega), if_pos hF]
    simp
  · have hb : (x.expBits == 0) = false := by simpa using h0
    simp only [hb, Bool.false_eq_true, if_false]
    rw [enc_of_ne _ _ (by omega), if_neg (by omega), if_neg (by omega)]
    have : ((x.expBits : Int) - 1075 + 1075).toNat = x.expBits := by omega
    rw [this, Nat.shiftLeft_eq, Nat.add_sub_cancel]

theorem enc_carry (e : Int) : enc (2 ^ 53) (e - 1) = enc (2 ^ 52) e := by
  unfold enc
  have : (e - 1 + 1) = e := by omega
  simp [this]

/-! ### `roundPos` returns `|x|` for every rational close enough to `|x|` -/

/-- significand and exponent of a finite non-zero value -/
theorem mant_exp_cases (x : F64) (hf : x.isFinite = true) (hz : x.isZero = false) :
    1 ≤ x.mant ∧ x.mant < 2 ^ 53 ∧ -1074 ≤ x.exp2 ∧ x.exp2 ≤ 971 ∧
      ((x.exp2 = -1074 ∧ x.mant < 2 ^ 52) ∨ 2 ^ 52 ≤ x.mant) := by
  have hE := expBits_lt x
  have hF := frac_lt x
  have hfin : x.expBits ≠ 2047 := by simpa [isFinite] using hf
  unfold mant exp2
  by_cases h0 : x.expBits = 0
  · have hfr : x.frac ≠ 0 := by
      intro h; simp [isZero, h0, h] at hz
    simp only [h0, beq_self_eq_true, if_true]
    exact ⟨by omega, by omega, by omega, by omega, Or.inl ⟨by first | rfl | trivial, hF⟩⟩
  · have hb : (x.expBits == 0) = false := by simpa using h0
    simp only [hb, Bool.false_eq_true, if_false]
    exact ⟨by omega, by omega, by omega, by omega, Or.inr (by omega)⟩

theorem scaled_pred_cases (a b : Nat) (e : Int) :
    ((scaled a b (e - 1)).1 = (scaled a b e).1 ∧ (scaled a b e).2 = 2 * (scaled a b (e - 1)).2) ∨
    ((scaled a b (e - 1)).1 = 2 * (scaled a b e).1 ∧ (scaled a b (e - 1)).2 = (scaled a b e).2) := by
  rw [scaled_eq, scaled_eq]
  simp only
  by_cases h : 1 ≤ e
  · left
    have h1 : (-(e - 1)).toNat = (-e).toNat := by omega
    have h2 : e.toNat = (e - 1).toNat + 1 := by omega
    rw [h1, h2, Nat.pow_succ]
    exact ⟨rfl, by ring⟩
  · right
    have h1 : (-(e - 1)).toNat = (-e).toNat + 1 := by omega
    have h2 : (e - 1).toNat = e.toNat := by omega
    rw [h1, h2, Nat.pow_succ]
    exact ⟨by ring, rfl⟩

theorem scaled_fst_eq_zero (b : Nat) (e : Int) : (scaled 0 b e).1 = 0 := by
  rw [scaled_eq]; simp

/-- **Correct rounding, sufficient condition.**  With `A/B = (a/b) / 2^e` (`e` the exponent of `x`,
`m` its significand): if `|A/B - m| < 1/2`, and `A/B > m - 1/4` when `m = 2^52` is the lower end of
a normal binade, then `a/b` rounds to `|x|`. -/
theorem roundPos_of_close (x : F64) (hf : x.isFinite = true) (hz : x.isZero = false)
    (a b : Nat) (hb : 0 < b)
    (h1 : 2 * x.mant * (scaled a b x.exp2).2 < 2 * (scaled a b x.exp2).1 + (scaled a b x.exp2).2)
    (h2 : 2 * (scaled a b x.exp2).1 < 2 * x.mant * (scaled a b x.exp2).2 + (scaled a b x.exp2).2)
    (h3 : x.mant = 2 ^ 52 → -1074 < x.exp2 →
      4 * x.mant * (scaled a b x.exp2).2 < 4 * (scaled a b x.exp2).1 + (scaled a b x.exp2).2) :
    roundPos a b = some x.abs.bits := by
  obtain ⟨m1, m2, e1, _, hcase⟩ := mant_exp_cases x hf hz
  have henc := enc_self x hf
  have hB := scaled_snd_pos a b x.exp2 hb
  have hpred := scaled_pred_cases a b x.exp2
  have hB' := scaled_snd_pos a b (x.exp2 - 1) hb
  have hfin := finish_near a b x.exp2 x.mant hb h1 h2
  have hA0 := scaled_fst_eq_zero b x.exp2
  have hrpf := fun ha => roundPos_eq_finish a b ha hb x.exp2
  have hrpf1 := fun ha => roundPos_eq_finish a b ha hb (x.exp2 - 1)
  have hrp1 := finish_near a b (x.exp2 - 1) (2 ^ 53) hb
  have hcarry := enc_carry x.exp2
  unfold InBin at hrpf hrpf1
  generalize x.mant = m at *
  generalize x.exp2 = e at *
  -- products with `m`, as atoms
  have p1 : (scaled a b e).2 ≤ m * (scaled a b e).2 := Nat.le_mul_of_pos_left _ m1
  have p2 : m * (scaled a b e).2 + (scaled a b e).2 ≤ 2 ^ 53 * (scaled a b e).2 := by
    rw [← Nat.succ_mul]; exact Nat.mul_le_mul_right _ m2
  have p3 : 2 ^ 52 ≤ m → 2 ^ 52 * (scaled a b e).2 ≤ m * (scaled a b e).2 :=
    fun h => Nat.mul_le_mul_right _ h
  have p4 : 2 ^ 52 + 1 ≤ m → 2 ^ 52 * (scaled a b e).2 + (scaled a b e).2 ≤ m * (scaled a b e).2 := by
    intro h; rw [← Nat.succ_mul]; exact Nat.mul_le_mul_right _ h
  have p5 : m < 2 ^ 52 → m * (scaled a b e).2 + (scaled a b e).2 ≤ 2 ^ 52 * (scaled a b e).2 := by
    intro h; rw [← Nat.succ_mul]; exact Nat.mul_le_mul_right _ h
  have p6 : m = 2 ^ 52 → m * (scaled a b e).2 = 2 ^ 52 * (scaled a b e).2 := fun h => by rw [h]
  rw [Nat.mul_assoc] at h1 h2 hrp1
  rw [Nat.mul_assoc] at h3
  generalize hP : m * (scaled a b e).2 = P at *
  have ha : a ≠ 0 := by
    rintro rfl
    rw [hA0] at h1; omega
  by_cases hmain : m = 2 ^ 52 ∧ -1074 < e ∧ (scaled a b e).1 < P
  · -- just below a power of two: the quotient lives one exponent lower
    obtain ⟨hm, he, hlt⟩ := hmain
    have h3' := h3 hm he
    have p6' := p6 hm
    generalize (scaled a b e).1 = A at *
    generalize (scaled a b e).2 = B at *
    generalize (scaled a b (e - 1)).1 = A' at *
    generalize (scaled a b (e - 1)).2 = B' at *
    rw [hrpf1 ha (by omega) (Or.inl (by omega)), hrp1 (by omega) (by omega), hcarry,
      ← hm, henc]
  · rw [hrpf ha e1 ?_, hfin, henc]
    generalize (scaled a b e).1 = A at *
    generalize (scaled a b e).2 = B at *
    by_cases h52 : 2 ^ 52 ≤ m
    · by_cases hAP : A < P
      · by_cases hm : m = 2 ^ 52
        · right; have := p6 hm; omega
        · left; have := p4 (by omega); omega
      · left; have := p3 h52; omega
    · right
      have := p5 (by omega)
      omega

/-! ### the decimal exponent -/

theorem decLen_lt_ten (n : Nat) (h : n < 10) : decLen n = 1 := by
  unfold decLen; rw [Nat.toDigits_of_lt_base h]; rfl

theorem decLen_ge_ten (n : Nat) (h : 10 ≤ n) : decLen n = decLen (n / 10) + 1 := by
  unfold decLen; rw [Nat.toDigits_of_base_le (by decide) h, List.length_append]; rfl

/-- `decLen n` is the number of decimal digits of `n ≥ 1` -/
theorem decLen_spec (n : Nat) (hn : 0 < n) : 1 ≤ decLen n ∧ 10 ^ (decLen n - 1) ≤ n ∧ n < 10 ^ decLen n := by
  induction n using Nat.strongRecOn with
  | _ n ih =>
    by_cases h : n < 10
    · rw [decLen_lt_ten n h]; exact ⟨by omega, by simp; omega, by simpa using h⟩
    · obtain ⟨i1, i2, i3⟩ := ih (n / 10) (by omega) (by omega)
      rw [decLen_ge_ten n (by omega)]
      generalize decLen (n / 10) = L at *
      obtain ⟨L', rfl⟩ : ∃ L', L = L' + 1 := ⟨L - 1, by omega⟩
      simp only [Nat.add_sub_cancel] at i2 ⊢
      refine ⟨by omega, ?_, ?_⟩
      · rw [Nat.pow_succ]; omega
      · rw [Nat.pow_succ]; omega

/-- `10^E ≤ n/d < 10^(E+1)`, cross-multiplied; `10^z` is written `10^z.toNat / 10^(-z).toNat` -/
def DecBetween (n d : Nat) (E : Int) : Prop :=
  d * 10 ^ E.toNat ≤ n * 10 ^ (-E).toNat ∧ n * 10 ^ (-(E + 1)).toNat < d * 10 ^ (E + 1).toNat

/-- `decExp` is the decimal exponent -/
theorem decExp_spec (n d : Nat) (hn : 0 < n) (hd : 0 < d) : DecBetween n d (decExp n d) := by
  unfold decExp DecBetween
  by_cases h : n ≥ d
  · rw [if_pos h]
    have hq : 0 < n / d := Nat.div_pos h hd
    obtain ⟨l1, l2, l3⟩ := decLen_spec (n / d) hq
    generalize decLen (n / d) = L at *
    obtain ⟨L', rfl⟩ : ∃ L', L = L' + 1 := ⟨L - 1, by omega⟩
    have e1 : (((L' + 1 : Nat) : Int) - 1).toNat = L' := by omega
    have e2 : (-(((L' + 1 : Nat) : Int) - 1)).toNat = 0 := by omega
    have e3 : (-(((L' + 1 : Nat) : Int) - 1 + 1)).toNat = 0 := by omega
    have e4 : (((L' + 1 : Nat) : Int) - 1 + 1).toNat = L' + 1 := by omega
    rw [e1, e2, e3, e4]
    simp only [Nat.add_sub_cancel, Nat.pow_zero, Nat.mul_one] at l2 ⊢
    rw [Nat.le_div_iff_mul_le hd] at l2
    rw [Nat.div_lt_iff_lt_mul hd] at l3
    constructor
    · rw [Nat.mul_comm]; exact l2
    · rw [Nat.mul_comm]; exact l3
  · rw [if_neg h]
    have hq : 0 < d / n := Nat.div_pos (by omega) hn
    obtain ⟨l1, l2, l3⟩ := decLen_spec (d / n) hq
    simp only []
    have hneg : ∀ z : Int, Int.neg z = -z := fun _ => rfl
    rw [hneg]
    generalize decLen (d / n) = g at *
    obtain ⟨g', rfl⟩ : ∃ g', g = g' + 1 := ⟨g - 1, by omega⟩
    simp only [Nat.add_sub_cancel] at l2 ⊢
    rw [Nat.le_div_iff_mul_le hn] at l2
    rw [Nat.div_lt_iff_lt_mul hn] at l3
    rw [Nat.mul_comm] at l2 l3
    by_cases hc : n * 10 ^ g' ≥ d
    · rw [if_pos hc]
      have heq : n * 10 ^ g' = d := by omega
      obtain ⟨g'', rfl⟩ : ∃ g'', g' = g'' + 1 := ⟨g' - 1, by
        rcases g' with _ | g'
        · simp at heq; omega
        · omega⟩
      have e1 : (-((g'' + 1 : Nat) : Int)).toNat = 0 := by omega
      have e2 : (- -((g'' + 1 : Nat) : Int)).toNat = g'' + 1 := by omega
      have e3 : (-(-((g'' + 1 : Nat) : Int) + 1)).toNat = g'' := by omega
      have e4 : (-((g'' + 1 : Nat) : Int) + 1).toNat = 0 := by omega
      rw [e1, e2, e3, e4]
      simp only [Nat.pow_zero, Nat.mul_one]
      refine ⟨by omega, ?_⟩
      rw [← heq, Nat.pow_succ, ← Nat.mul_assoc]
      have : 0 < n * 10 ^ g'' := by positivity
      omega
    · rw [if_neg hc, if_pos (by omega)]
      have e1 : (-((g' + 1 : Nat) : Int)).toNat = 0 := by omega
      have e2 : (- -((g' + 1 : Nat) : Int)).toNat = g' + 1 := by omega
      have e3 : (-(-((g' + 1 : Nat) : Int) + 1)).toNat = g' := by omega
      have e4 : (-((g' + 1 : Nat) : Int) + 1).toNat = 0 := by omega
      rw [e1, e2, e3, e4]
      simp only [Nat.pow_zero, Nat.mul_one]
      omega

/-! ### one precision attempt, in uniform notation -/

/-- does the candidate `c · 10^k` round back to `target`? -/
def back (target : UInt64) (k : Int) (c : Nat) : Bool :=
  roundPos (c * 10 ^ k.toNat) (10 ^ (-k).toNat) == some target

/-- `tryPrec` without the case split on the sign of `k` -/
def tryPrecU (target : UInt64) (n d : Nat) (k : Int) : Option Nat :=
  let a := n * 10 ^ (-k).toNat
  let b := d * 10 ^ k.toNat
  let lo := a / b
  let r := a % b
  if r = 0 then (if back target k lo then some lo else none)
  else
    if back target k lo && back target k (lo + 1) then
      (if 2 * r < b then some lo else if 2 * r > b then some (lo + 1)
        else (if lo % 2 = 0 then some lo else some (lo + 1)))
    else if back target k lo then some lo
    else if back target k (lo + 1) then some (lo + 1)
    else none

theorem tryPrec_eq (target : UInt64) (n d : Nat) (E : Int) (p : Nat) :
    tryPrec target n d E p = tryPrecU target n d (E - ((p : Int) - 1)) := by
  unfold tryPrec tryPrecU back
  generalize E - ((p : Int) - 1) = k
  by_cases hk : k ≥ 0
  · have h0 : (-k).toNat = 0 := by omega
    simp only [hk, if_true, h0, Nat.pow_zero, Nat.mul_one]
  · have h0 : k.toNat = 0 := by omega
    simp only [hk, if_false, h0, Nat.pow_zero, Nat.mul_one]

theorem tryPrecU_some (t : UInt64) (n d : Nat) (k : Int) (c : Nat) (h : tryPrecU t n d k = some c) :
    back t k c = true ∧
      (c = n * 10 ^ (-k).toNat / (d * 10 ^ k.toNat) ∨ c = n * 10 ^ (-k).toNat / (d * 10 ^ k.toNat) + 1) := by
  unfold tryPrecU at h
  simp only [] at h
  generalize n * 10 ^ (-k).toNat / (d * 10 ^ k.toNat) = lo at *
  generalize n * 10 ^ (-k).toNat % (d * 10 ^ k.toNat) = r at *
  generalize hl : back t k lo = okLo at *
  generalize hh : back t k (lo + 1) = okHi at *
  cases okLo <;> cases okHi <;> simp only [Bool.and_true, Bool.and_false, Bool.false_eq_true,
    if_true, if_false] at h
  all_goals
    repeat' (split at h)
    all_goals first
      | (cases h; exact ⟨hl, Or.inl rfl⟩)
      | (cases h; exact ⟨hh, Or.inr rfl⟩)
      | cases h

theorem tryPrecU_isSome (t : UInt64) (n d : Nat) (k : Int)
    (h : back t k (n * 10 ^ (-k).toNat / (d * 10 ^ k.toNat)) = true ∨
      (n * 10 ^ (-k).toNat % (d * 10 ^ k.toNat) ≠ 0 ∧
        back t k (n * 10 ^ (-k).toNat / (d * 10 ^ k.toNat) + 1) = true)) :
    ∃ c, tryPrecU t n d k = some c := by
  unfold tryPrecU
  simp only []
  generalize n * 10 ^ (-k).toNat / (d * 10 ^ k.toNat) = lo at *
  generalize n * 10 ^ (-k).toNat % (d * 10 ^ k.toNat) = r at *
  generalize back t k lo = okLo at *
  generalize back t k (lo + 1) = okHi at *
  by_cases hr : r = 0
  · rw [if_pos hr]
    rcases h with h | ⟨h, _⟩
    · rw [if_pos h]; exact ⟨_, rfl⟩
    · exact absurd hr h
  · rw [if_neg hr]
    cases okLo <;> cases okHi <;> simp only [Bool.and_true, Bool.and_false, Bool.false_eq_true,
      if_true, if_false, Bool.and_self]
    · simp at h
    · exact ⟨_, rfl⟩
    · exact ⟨_, rfl⟩
    · repeat' split
      all_goals exact ⟨_, rfl⟩

/-! ### the size of the scaled value -/

theorem cross_le (d n p1 p2 p3 p4 T : Nat) (hpos : 0 < p2) (hstar : p1 * p3 = p2 * (p4 * T))
    (h : d * p1 ≤ n * p2) : T * (d * p4) ≤ n * p3 := by
  refine Nat.le_of_mul_le_mul_left (c := p2) ?_ hpos
  calc p2 * (T * (d * p4)) = d * (p2 * (p4 * T)) := by ring
    _ = d * p1 * p3 := by rw [← hstar]; ring
    _ ≤ n * p2 * p3 := Nat.mul_le_mul_right _ h
    _ = p2 * (n * p3) := by ring

theorem cross_lt (d n p1 p2 p3 p4 T : Nat) (hpos : 0 < p3) (hstar : p1 * p3 = p2 * (p4 * T))
    (h : n * p2 < d * p1) : n * p3 < T * (d * p4) := by
  refine Nat.lt_of_mul_lt_mul_left (a := p2) ?_
  calc p2 * (n * p3) = n * p2 * p3 := by ring
    _ < d * p1 * p3 := Nat.mul_lt_mul_of_pos_right h hpos
    _ = d * (p2 * (p4 * T)) := by rw [← hstar]; ring
    _ = p2 * (T * (d * p4)) := by ring

/-- with `k = E - (p-1)` the scaled value `(n/d) / 10^k` lies in `[10^(p-1), 10^p)` -/
theorem scaled10_bounds (n d : Nat) (E : Int) (p : Nat) (hp : 1 ≤ p) (k : Int)
    (hk : k = E - ((p : Int) - 1)) (hE : DecBetween n d E) :
    10 ^ (p - 1) * (d * 10 ^ k.toNat) ≤ n * 10 ^ (-k).toNat ∧
      n * 10 ^ (-k).toNat < 10 ^ p * (d * 10 ^ k.toNat) := by
  obtain ⟨h1, h2⟩ := hE
  constructor
  · have key := zpw_add 10 E k ((p - 1 : Nat) : Int) (by omega)
    have z : (-((p - 1 : Nat) : Int)).toNat = 0 := by omega
    rw [z, Int.toNat_natCast, Nat.pow_zero, Nat.mul_one] at key
    exact cross_le d n _ _ _ _ _ (by positivity) key h1
  · have key := zpw_add 10 (E + 1) k ((p : Nat) : Int) (by omega)
    have z : (-((p : Nat) : Int)).toNat = 0 := by omega
    rw [z, Int.toNat_natCast, Nat.pow_zero, Nat.mul_one] at key
    exact cross_lt d n _ _ _ _ _ (by positivity) key h2

/-! ### facts about the value `tryPrec` returns -/

/-- the returned candidate rounds back to the target (the `back` test), uniform form:
`c · 10^k` is the rational `(c · 10^k⁺) / 10^k⁻` -/
theorem tryPrec_some_roundPos (t : UInt64) (n d : Nat) (E : Int) (p c : Nat)
    (h : tryPrec t n d E p = some c) :
    roundPos (c * 10 ^ (E - ((p : Int) - 1)).toNat) (10 ^ (-(E - ((p : Int) - 1))).toNat) = some t := by
  rw [tryPrec_eq] at h
  have := (tryPrecU_some t n d _ c h).1
  unfold back at this
  simpa using this

/-- the same in the two-case form used inside `tryPrec` -/
theorem tryPrec_some_roundPos' (t : UInt64) (n d : Nat) (E : Int) (p c : Nat)
    (h : tryPrec t n d E p = some c) :
    (if E - ((p : Int) - 1) ≥ 0 then roundPos (c * 10 ^ (E - ((p : Int) - 1)).toNat) 1
      else roundPos c (10 ^ (-(E - ((p : Int) - 1))).toNat)) = some t := by
  have := tryPrec_some_roundPos t n d E p c h
  generalize E - ((p : Int) - 1) = k at *
  by_cases hk : k ≥ 0
  · have h0 : (-k).toNat = 0 := by omega
    rw [if_pos hk]; rwa [h0, Nat.pow_zero] at this
  · have h0 : k.toNat = 0 := by omega
    rw [if_neg hk]; rwa [h0, Nat.pow_zero, Nat.mul_one] at this

/-- the returned candidate has `p` digits, or is exactly `10^p` -/
theorem tryPrec_some_digits (t : UInt64) (n d : Nat) (E : Int) (p c : Nat) (hd : 0 < d) (hp : 1 ≤ p)
    (hE : DecBetween n d E) (h : tryPrec t n d E p = some c) :
    10 ^ (p - 1) ≤ c ∧ c ≤ 10 ^ p := by
  rw [tryPrec_eq] at h
  have hc := (tryPrecU_some t n d _ c h).2
  obtain ⟨b1, b2⟩ := scaled10_bounds n d E p hp _ rfl hE
  generalize E - ((p : Int) - 1) = k at *
  have hb : 0 < d * 10 ^ k.toNat := by positivity
  have l1 : 10 ^ (p - 1) ≤ n * 10 ^ (-k).toNat / (d * 10 ^ k.toNat) := by
    rw [Nat.le_div_iff_mul_le hb]; exact b1
  have l2 : n * 10 ^ (-k).toNat / (d * 10 ^ k.toNat) < 10 ^ p := by
    rw [Nat.div_lt_iff_lt_mul hb]; exact b2
  omega

/-! ### seventeen digits suffice -/

theorem absRat_eq (x : F64) : absRat x = (x.mant * 2 ^ x.exp2.toNat, 2 ^ (-x.exp2).toNat) := by
  unfold absRat
  simp only []
  by_cases h : x.exp2 ≥ 0
  · have : (-x.exp2).toNat = 0 := by omega
    rw [if_pos h, this]; rfl
  · have : x.exp2.toNat = 0 := by omega
    rw [if_neg h, this]; simp

/-- a candidate within half a gap of `|x|` (a quarter below a power of two) passes the `back` test.
Here `|x| / 10^k = m·B / b` with `B = 10^k⁻ · 2^e⁺`, `b = 2^e⁻ · 10^k⁺`. -/
theorem back_of_close (x : F64) (hf : x.isFinite = true) (hz : x.isZero = false) (k : Int) (c : Nat)
    (h1 : 2 * (x.mant * (10 ^ (-k).toNat * 2 ^ x.exp2.toNat)) <
      2 * (c * (2 ^ (-x.exp2).toNat * 10 ^ k.toNat)) + 10 ^ (-k).toNat * 2 ^ x.exp2.toNat)
    (h2 : 2 * (c * (2 ^ (-x.exp2).toNat * 10 ^ k.toNat)) <
      2 * (x.mant * (10 ^ (-k).toNat * 2 ^ x.exp2.toNat)) + 10 ^ (-k).toNat * 2 ^ x.exp2.toNat)
    (h3 : x.mant = 2 ^ 52 → -1074 < x.exp2 →
      4 * (x.mant * (10 ^ (-k).toNat * 2 ^ x.exp2.toNat)) <
        4 * (c * (2 ^ (-x.exp2).toNat * 10 ^ k.toNat)) + 10 ^ (-k).toNat * 2 ^ x.exp2.toNat) :
    back x.abs.bits k c = true := by
  unfold back
  rw [beq_iff_eq]
  have e1 : c * 10 ^ k.toNat * 2 ^ (-x.exp2).toNat = c * (2 ^ (-x.exp2).toNat * 10 ^ k.toNat) := by ring
  apply roundPos_of_close x hf hz _ _ (by positivity)
  · rw [scaled_eq]; simp only []; rw [e1, Nat.mul_assoc]; exact h1
  · rw [scaled_eq]; simp only []; rw [e1, Nat.mul_assoc]; exact h2
  · intro hm he; rw [scaled_eq]; simp only []; rw [e1, Nat.mul_assoc]; exact h3 hm he

/-- the nearer of the two 17-digit neighbours of `|x|` rounds back to `|x|` -/
theorem tryPrecU_17 (x : F64) (hf : x.isFinite = true) (hz : x.isZero = false) (E : Int)
    (hE : DecBetween (x.mant * 2 ^ x.exp2.toNat) (2 ^ (-x.exp2).toNat) E) :
    ∃ c, tryPrecU x.abs.bits (x.mant * 2 ^ x.exp2.toNat) (2 ^ (-x.exp2).toNat) (E - 16) = some c := by
  obtain ⟨m1, m2, _, _, _⟩ := mant_exp_cases x hf hz
  apply tryPrecU_isSome
  have hsc := (scaled10_bounds _ _ E 17 (by omega) (E - 16) (by omega) hE).1
  have hback := back_of_close x hf hz (E - 16)
  generalize E - 16 = k at *
  generalize x.mant = m at *
  generalize x.exp2 = e at *
  -- a = m * B
  have ea : m * 2 ^ e.toNat * 10 ^ (-k).toNat = m * (10 ^ (-k).toNat * 2 ^ e.toNat) := by ring
  rw [ea] at hsc ⊢
  have hBpos : 0 < 10 ^ (-k).toNat * 2 ^ e.toNat := by positivity
  have hbpos : 0 < 2 ^ (-e).toNat * 10 ^ k.toNat := by positivity
  generalize 10 ^ (-k).toNat * 2 ^ e.toNat = B at *
  generalize 2 ^ (-e).toNat * 10 ^ k.toNat = b at *
  have pm : m * B + B ≤ 2 ^ 53 * B := by
    rw [← Nat.succ_mul]; exact Nat.mul_le_mul_right _ m2
  have p6 : m = 2 ^ 52 → m * B = 2 ^ 52 * B := fun h => by rw [h]
  have hdm := Nat.div_add_mod (m * B) b
  have hr := Nat.mod_lt (m * B) hbpos
  have hlo : b * (m * B / b) = m * B / b * b := Nat.mul_comm _ _
  have hhi : (m * B / b + 1) * b = m * B / b * b + b := Nat.succ_mul _ _
  have hb1 := hback (m * B / b)
  have hb2 := hback (m * B / b + 1)
  rw [hhi] at hb2
  rw [hlo] at hdm
  generalize m * B / b = lo at *
  generalize m * B % b = r at *
  generalize lo * b = L at *
  generalize hP : m * B = P at *
  simp only [Nat.reducePow, Nat.reduceSub] at hsc
  by_cases hnear : 2 * r ≤ b
  · left
    apply hb1
    · omega
    · omega
    · intro hm he; have := p6 hm; omega
  · right
    refine ⟨by omega, ?_⟩
    apply hb2
    · omega
    · omega
    · intro hm he; omega

theorem absRat_pos (x : F64) (hf : x.isFinite = true) (hz : x.isZero = false) :
    0 < (absRat x).1 ∧ 0 < (absRat x).2 := by
  obtain ⟨m1, _⟩ := mant_exp_cases x hf hz
  rw [absRat_eq]
  exact ⟨by positivity, by positivity⟩

/-- `decExp` of `|x|` is its decimal exponent -/
theorem decExp_absRat (x : F64) (hf : x.isFinite = true) (hz : x.isZero = false) :
    DecBetween (absRat x).1 (absRat x).2 (decExp (absRat x).1 (absRat x).2) :=
  decExp_spec _ _ (absRat_pos x hf hz).1 (absRat_pos x hf hz).2

/-- precision 17 always succeeds -/
theorem tryPrec_17 (x : F64) (hf : x.isFinite = true) (hz : x.isZero = false) :
    ∃ c, tryPrec x.abs.bits (absRat x).1 (absRat x).2 (decExp (absRat x).1 (absRat x).2) 17 = some c := by
  have hE := decExp_absRat x hf hz
  rw [tryPrec_eq]
  rw [absRat_eq] at hE ⊢
  simp only [] at hE ⊢
  have := tryPrecU_17 x hf hz _ hE
  have e : ((17 : Nat) : Int) - 1 = 16 := by omega
  rw [e]
  exact this

/-- the loop returns the first precision that succeeds -/
theorem shortestLoop_of_some (t : UInt64) (n d : Nat) (E : Int) :
    ∀ (fuel p q : Nat), p ≤ q → q < p + fuel → (∃ c, tryPrec t n d E q = some c) →
      ∃ c p', p ≤ p' ∧ p' ≤ q ∧ shortestLoop t n d E fuel p = some (c, p') ∧
        tryPrec t n d E p' = some c
  | 0, p, q, h1, h2, _ => by omega
  | fuel + 1, p, q, h1, h2, hq => by
    simp only [shortestLoop]
    cases ht : tryPrec t n d E p with
    | some c0 => exact ⟨c0, p, Nat.le_refl _, h1, rfl, ht⟩
    | none =>
      have hne : p ≠ q := by
        rintro rfl
        obtain ⟨c, hc⟩ := hq
        rw [ht] at hc; cases hc
      obtain ⟨c, p', a1, a2, a3, a4⟩ :=
        shortestLoop_of_some t n d E fuel (p + 1) q (by omega) (by omega) hq
      exact ⟨c, p', by omega, a2, a3, a4⟩

end Sev
end F64

open F64 F64.Sev in
/-- **Seventeen significant decimal digits always suffice**: for every finite non-zero `x` the
shortest-digits loop of `F64.shortest` (fuel 17, starting at precision 1) succeeds. -/
theorem shortestLoop_succeeds (x : F64) (hf : x.isFinite = true) (hz : x.isZero = false) :
    ∃ c p, 1 ≤ p ∧ p ≤ 17 ∧
      F64.shortestLoop x.abs.bits (F64.absRat x).1 (F64.absRat x).2
        (F64.decExp (F64.absRat x).1 (F64.absRat x).2) 17 1 = some (c, p) ∧
      F64.tryPrec x.abs.bits (F64.absRat x).1 (F64.absRat x).2
        (F64.decExp (F64.absRat x).1 (F64.absRat x).2) p = some c :=
  shortestLoop_of_some _ _ _ _ 17 1 17 (by omega) (by omega) (tryPrec_17 x hf hz)

open F64 F64.Sev in
/-- everything a consumer of `F64.shortest` needs about the pair the loop returns: it exists, the
precision is in `1..17`, the candidate has `p` digits (or is `10^p`), and `c · 10^(E-(p-1))` rounds
back to `|x|`. -/
theorem shortestLoop_spec (x : F64) (hf : x.isFinite = true) (hz : x.isZero = false) :
    ∃ c p, 1 ≤ p ∧ p ≤ 17 ∧
      F64.shortestLoop x.abs.bits (F64.absRat x).1 (F64.absRat x).2
        (F64.decExp (F64.absRat x).1 (F64.absRat x).2) 17 1 = some (c, p) ∧
      10 ^ (p - 1) ≤ c ∧ c ≤ 10 ^ p ∧
      F64.roundPos
        (c * 10 ^ (F64.decExp (F64.absRat x).1 (F64.absRat x).2 - ((p : Int) - 1)).toNat)
        (10 ^ (-(F64.decExp (F64.absRat x).1 (F64.absRat x).2 - ((p : Int) - 1))).toNat)
        = some x.abs.bits := by
  obtain ⟨c, p, h1, h2, h3, h4⟩ := shortestLoop_succeeds x hf hz
  obtain ⟨d1, d2⟩ := tryPrec_some_digits _ _ _ _ p c (absRat_pos x hf hz).2 h1
    (decExp_absRat x hf hz) h4
  exact ⟨c, p, h1, h2, h3, d1, d2, tryPrec_some_roundPos _ _ _ _ p c h4⟩

open F64 F64.Sev in
/-- the `none` branch of `F64.shortest` is unreachable: `shortest x` is computed from the pair the
loop returns -/
theorem shortest_eq (x : F64) (hf : x.isFinite = true) (hz : x.isZero = false) :
    ∃ c p, 1 ≤ p ∧ p ≤ 17 ∧
      F64.shortestLoop x.abs.bits (F64.absRat x).1 (F64.absRat x).2
        (F64.decExp (F64.absRat x).1 (F64.absRat x).2) 17 1 = some (c, p) ∧
      F64.shortest x =
        (((F64.natDigits c).reverse.dropWhile (· == 0)).reverse,
          if (F64.natDigits c).length > p then F64.decExp (F64.absRat x).1 (F64.absRat x).2 + 1
          else F64.decExp (F64.absRat x).1 (F64.absRat x).2) := by
  obtain ⟨c, p, h1, h2, h3, _⟩ := shortestLoop_succeeds x hf hz
  refine ⟨c, p, h1, h2, h3, ?_⟩
  unfold F64.shortest
  simp only []
  rw [h3]

/-- non-vacuity: `1.0` is finite and non-zero -/
example : F64.one.isFinite = true ∧ F64.one.isZero = false := by decide

end Anytype

#print axioms Anytype.shortestLoop_succeeds
#print axioms Anytype.shortestLoop_spec
#print axioms Anytype.shortest_eq
#print axioms Anytype.F64.Sev.roundPos_of_close
#print axioms Anytype.F64.Sev.decExp_spec
#print axioms Anytype.F64.Sev.tryPrec_some_digits
#print axioms Anytype.F64.Sev.tryPrec_some_roundPos
