/-
The slice-level model of list storage (`Model/Slices`) refines the plain-list reading of `[]field`
that the rest of the model uses, for every growth policy of `append`, and exclusive ownership of
backing arrays is an invariant of every list operation.  (Statements first; helper lemmas above them.)
-/
import Anytype.Lemmas.SlicesOps
namespace Anytype.Slices
variable {α : Type}

/-- well-formedness, refinement and freshness of a created list, for one step -/
theorem step_all (cfg : Cfg α) (sorted : List α → List α) (σ : SHeap α) (hw : σ.WF) (op : Op α) :
    (step cfg sorted σ op).1.WF ∧
    ((step cfg sorted σ op).1.abs, (step cfg sorted σ op).2) = astep sorted σ.abs op ∧
    ∀ c, (step cfg sorted σ op).2 = .made c →
      c = σ.cells.length ∧ ∃ s, (step cfg sorted σ op).1.cells[c]? = some s ∧ σ.mem.length ≤ s.arr := by
  have key : Shape cfg sorted σ op → (step cfg sorted σ op).1.WF ∧
      ((step cfg sorted σ op).1.abs, (step cfg sorted σ op).2) = astep sorted σ.abs op ∧
      ∀ c, (step cfg sorted σ op).2 = .made c →
        c = σ.cells.length ∧ ∃ s, (step cfg sorted σ op).1.cells[c]? = some s ∧ σ.mem.length ≤ s.arr :=
    fun h => ⟨(h.wf_refines hw).1, (h.wf_refines hw).2, fun c hm => h.made hm⟩
  cases op with
  | newList vs => exact key (shape_newList cfg sorted hw vs)
  | newListOf v n => exact key (shape_newListOf cfg sorted hw v n)
  | newListFrom vs => exact key (shape_newListFrom cfg sorted hw vs)
  | add c vs => exact key (shape_add cfg sorted hw c vs)
  | insert c i v => exact key (shape_insert cfg sorted hw c i v)
  | replace c i v => exact key (shape_replace cfg sorted hw c i v)
  | delete c idxs =>
    obtain ⟨h1, h2, h3⟩ := deleteLoop_spec cfg hw c (idxs.mergeSort (fun x y => decide (x ≤ y))).reverse
    exact ⟨h1, h2, fun k hk => absurd hk (h3 k)⟩
  | pop c => exact key (shape_pop cfg sorted hw c)
  | clear c => exact key (shape_clear cfg sorted hw c)
  | concat c d => exact key (shape_concat cfg sorted hw c d)
  | subList c start stop => exact key (shape_subList cfg sorted hw c start stop)
  | reverse c => exact key (shape_reverse cfg sorted hw c)
  | sort c => exact key (shape_sort cfg sorted hw c)
  | clone c => exact key (shape_clone cfg sorted hw c)

/-- exclusive ownership and "length within capacity" are preserved by every operation, panicking or not -/
theorem step_wf (cfg : Cfg α) (sorted : List α → List α) (σ : SHeap α) (hw : σ.WF) (op : Op α) :
    (step cfg sorted σ op).1.WF :=
  (step_all cfg sorted σ hw op).1

/-- every operation on arrays does to the contents of the cells exactly what the operation on plain lists does,
with the same outcome (panic / new cell), whatever the growth policy and the spare capacities -/
theorem step_refines (cfg : Cfg α) (sorted : List α → List α) (σ : SHeap α) (hw : σ.WF) (op : Op α) :
    ((step cfg sorted σ op).1.abs, (step cfg sorted σ op).2) = astep sorted σ.abs op :=
  (step_all cfg sorted σ hw op).2.1

/-- the same for programs of any length -/
theorem run_refines (cfg : Cfg α) (sorted : List α → List α) (σ : SHeap α) (hw : σ.WF) (ops : List (Op α)) :
    (run cfg sorted σ ops).1.WF ∧
    ((run cfg sorted σ ops).1.abs, (run cfg sorted σ ops).2) = arun sorted σ.abs ops := by
  induction ops generalizing σ with
  | nil => exact ⟨hw, rfl⟩
  | cons op rest ih =>
    have h1 := step_wf cfg sorted σ hw op
    have h2 := step_refines cfg sorted σ hw op
    rcases hstep : step cfg sorted σ op with ⟨σ', o⟩
    rw [hstep] at h1 h2
    cases o with
    | panic => simp only [run, arun, hstep, ← h2]; exact ⟨h1, trivial⟩
    | done => simp only [run, arun, hstep, ← h2]; exact ih σ' h1
    | made c => simp only [run, arun, hstep, ← h2]; exact ih σ' h1

theorem empty_wf : (SHeap.empty : SHeap α).WF := by
  refine ⟨?_, List.nodup_nil⟩
  intro s h
  cases h

/-- from the empty heap: what any program leaves in the lists does not depend on capacities or on the growth policy -/
theorem run_from_empty (cfg : Cfg α) (sorted : List α → List α) (ops : List (Op α)) :
    (run cfg sorted SHeap.empty ops).1.WF ∧
    ((run cfg sorted SHeap.empty ops).1.abs, (run cfg sorted SHeap.empty ops).2) = arun sorted [] ops :=
  run_refines cfg sorted SHeap.empty empty_wf ops

theorem grow_irrelevant (cfg cfg' : Cfg α) (sorted : List α → List α) (ops : List (Op α)) :
    (run cfg sorted SHeap.empty ops).1.abs = (run cfg' sorted SHeap.empty ops).1.abs ∧
    (run cfg sorted SHeap.empty ops).2 = (run cfg' sorted SHeap.empty ops).2 := by
  have h1 := (run_from_empty cfg sorted ops).2
  have h2 := (run_from_empty cfg' sorted ops).2
  rw [← h2] at h1
  exact Prod.mk.inj h1

/-- a list that an operation creates lives in an array that did not exist before -/
theorem made_fresh (cfg : Cfg α) (sorted : List α → List α) (σ : SHeap α) (hw : σ.WF) (op : Op α) (c : Nat)
    (h : (step cfg sorted σ op).2 = .made c) :
    c = σ.cells.length ∧ ∃ s, (step cfg sorted σ op).1.cells[c]? = some s ∧ σ.mem.length ≤ s.arr :=
  (step_all cfg sorted σ hw op).2.2 c h


theorem adeleteLoop_frame {c d : Nat} (hne : c ≠ d) (is : List Nat) (ls : List (List α)) :
    (adeleteLoop c ls is).1[d]? = ls[d]? := by
  induction is generalizing ls with
  | nil => rfl
  | cons i rest ih =>
    simp only [adeleteLoop]
    split
    · rfl
    · split
      · rw [ih, List.getElem?_set_ne hne]
      · rfl

/-- the frame property on plain lists -/
theorem astep_frame (sorted : List α → List α) (ls : List (List α)) (op : Op α) (d : Nat)
    (hd : d < ls.length) (hne : op.tgt ≠ some d) : (astep sorted ls op).1[d]? = ls[d]? := by
  cases op with
  | newList vs => exact List.getElem?_append_left hd
  | newListOf v n => exact List.getElem?_append_left hd
  | newListFrom vs => exact List.getElem?_append_left hd
  | delete c idxs => exact adeleteLoop_frame (fun h => hne (by rw [h]; rfl)) _ _
  | concat c e =>
    simp only [astep]
    split
    · exact List.getElem?_append_left hd
    · rfl
  | subList c start stop =>
    simp only [astep]
    split
    · rfl
    · split
      · exact List.getElem?_append_left hd
      · rfl
  | clone c =>
    simp only [astep]
    split
    · rfl
    · exact List.getElem?_append_left hd
  | add c vs | clear c | reverse c =>
    have hcd : c ≠ d := fun h => hne (by rw [h]; rfl)
    simp only [astep]
    split
    · rfl
    · exact List.getElem?_set_ne hcd
  | insert c i v | replace c i v | pop c | sort c =>
    have hcd : c ≠ d := fun h => hne (by rw [h]; rfl)
    simp only [astep]
    split
    · rfl
    · split
      · first | rfl | exact List.getElem?_set_ne hcd
      · first | rfl | exact List.getElem?_set_ne hcd

theorem step_frame (cfg : Cfg α) (sorted : List α → List α) (σ : SHeap α) (hw : σ.WF) (op : Op α) (d : Nat)
    (hd : d < σ.cells.length) (hne : op.tgt ≠ some d) :
    (step cfg sorted σ op).1.abs[d]? = σ.abs[d]? := by
  have h := congrArg Prod.fst (step_refines cfg sorted σ hw op)
  simp only at h
  rw [h]
  exact astep_frame sorted σ.abs op d (by rw [abs_length]; exact hd) hne

/-! ### the pinned `Concat` (defect F5) breaks ownership -/

def cfg2 : Cfg Int := ⟨0, fun c n => max (2 * c) n⟩

/-- `l := NewList(1,2,3); l.Add(4).Pop(); o := NewList(9)` — `l` has length 3 and capacity 4 -/
def σF5 : SHeap Int := (run cfg2 id SHeap.empty [.newList [1, 2, 3], .add 0 [4], .pop 0, .newList [9]]).1

theorem σF5_eq : σF5 = ⟨[[], [1], [1, 2], [1, 2, 3, 4], [], [9]], [⟨3, 3⟩, ⟨5, 1⟩]⟩ := rfl

/-- `c := l.Concat(o)` with the old code shares `l`'s array, and `l.Add(7)` then shows through `c` -/
theorem concatOld_breaks :
    σF5.WF ∧ σF5.abs = [[1, 2, 3], [9]] ∧
    ¬ (concatOld cfg2 σF5 0 1).1.WF ∧
    (concatOld cfg2 σF5 0 1).1.abs = [[1, 2, 3], [9], [1, 2, 3, 9]] ∧
    (step cfg2 id (concatOld cfg2 σF5 0 1).1 (.add 0 [7])).1.abs = [[1, 2, 3, 7], [9], [1, 2, 3, 7]] ∧
    -- the repaired Concat on the same heap
    (step cfg2 id (step cfg2 id σF5 (.concat 0 1)).1 (.add 0 [7])).1.abs = [[1, 2, 3, 7], [9], [1, 2, 3, 9]] := by
  refine ⟨(run_from_empty cfg2 id _).1, ?_, ?_, ?_, ?_, ?_⟩
  all_goals rw [σF5_eq]
  · decide
  · unfold SHeap.WF; decide
  · decide
  · decide
  · decide

#print axioms step_wf
#print axioms step_refines
#print axioms run_refines
#print axioms empty_wf
#print axioms run_from_empty
#print axioms grow_irrelevant
#print axioms made_fresh
#print axioms step_frame
#print axioms concatOld_breaks

end Anytype.Slices
