/-
Basic facts about the slice-level memory of `Model/Slices`: `arrOf`, `writeAt`, `mk`, `append`,
the relation `Upd` ("the memory changed only in one array or in fresh ones, and the new header is a
valid header over that array or over a fresh one") and the two lemmas that turn an `Upd` into
well-formedness and the abstraction of the new heap.
-/
import Anytype.Model.Slices
namespace Anytype.Slices
variable {α : Type}

/-! ### arrays of a memory -/

theorem arrOf_set_self {m : Mem α} {a : Nat} (x : List α) (h : a < m.length) :
    arrOf (m.set a x) a = x := by
  simp [arrOf, List.getD_eq_getElem?_getD, h]

theorem arrOf_set_ne {m : Mem α} {a b : Nat} (x : List α) (h : a ≠ b) :
    arrOf (m.set a x) b = arrOf m b := by
  simp [arrOf, List.getD_eq_getElem?_getD, List.getElem?_set_ne h]

theorem arrOf_append_lt {m : Mem α} {a : Nat} (x : List α) (h : a < m.length) :
    arrOf (m ++ [x]) a = arrOf m a := by
  simp [arrOf, List.getD_eq_getElem?_getD, List.getElem?_append_left h]

theorem arrOf_append_self (m : Mem α) (x : List α) : arrOf (m ++ [x]) m.length = x := by
  simp [arrOf, List.getD_eq_getElem?_getD]

/-! ### `Upd` -/

/-- `m'` agrees with `m` outside array `a`, nothing was freed, and `s'` is a valid header of `m'`
over `a` or over an array that `m` did not have.  With `a = m.length` (no such array in `m`) this
says: `m'` extends `m` and `s'` is a valid header over a new array. -/
structure Upd (m : Mem α) (a : Nat) (m' : Mem α) (s' : Slice) : Prop where
  len_le : m.length ≤ m'.length
  frame : ∀ b, b < m.length → b ≠ a → arrOf m' b = arrOf m b
  arr : s'.arr = a ∨ m.length ≤ s'.arr
  lt : s'.arr < m'.length
  cap : s'.len ≤ cap m' s'

theorem Upd.trans {m m1 m2 : Mem α} {a : Nat} {s1 s2 : Slice}
    (h1 : Upd m a m1 s1) (h2 : Upd m1 s1.arr m2 s2) : Upd m a m2 s2 := by
  refine ⟨Nat.le_trans h1.len_le h2.len_le, ?_, ?_, h2.lt, h2.cap⟩
  · intro b hb hne
    rw [h2.frame b (Nat.lt_of_lt_of_le hb h1.len_le) ?_, h1.frame b hb hne]
    rcases h1.arr with h | h <;> omega
  · rcases h2.arr with h | h
    · rw [h]; exact h1.arr
    · right; exact Nat.le_trans h1.len_le h

/-! ### views and capacities -/

theorem view_congr {m m' : Mem α} {t : Slice} (h : arrOf m' t.arr = arrOf m t.arr) :
    view m' t = view m t := by
  simp only [view, h]

theorem cap_congr {m m' : Mem α} {t : Slice} (h : arrOf m' t.arr = arrOf m t.arr) :
    cap m' t = cap m t := by
  simp only [cap, h]

theorem view_length {m : Mem α} {s : Slice} (h : s.len ≤ cap m s) : (view m s).length = s.len := by
  simp only [view, cap, List.length_take] at *; omega

/-! ### lists without duplicates -/

theorem nodup_set {l : List Nat} (h : l.Nodup) (c x : Nat)
    (hx : ∀ j y, l[j]? = some y → j ≠ c → y ≠ x) : (l.set c x).Nodup := by
  induction l generalizing c with
  | nil => simp
  | cons y l ih =>
    rw [List.nodup_cons] at h
    cases c with
    | zero =>
      rw [List.set_cons_zero, List.nodup_cons]
      refine ⟨?_, h.2⟩
      intro hm
      obtain ⟨j, hj⟩ := List.mem_iff_getElem?.1 hm
      exact hx (j + 1) x (by simpa using hj) (by omega) rfl
    | succ c =>
      rw [List.set_cons_succ, List.nodup_cons]
      refine ⟨?_, ih h.2 c ?_⟩
      · intro hm
        rcases List.mem_or_eq_of_mem_set hm with hm | hm
        · exact h.1 hm
        · exact hx 0 y (by simp) (by omega) hm
      · intro j z hj hne
        exact hx (j + 1) z (by simpa using hj) (by omega)

/-! ### `writeAt`, `mk`, `append` -/

theorem length_writeAt (m : Mem α) (a p : Nat) (ys : List α) : (writeAt m a p ys).length = m.length := by
  simp only [writeAt, List.length_set]

theorem arrOf_writeAt_ne (m : Mem α) {a b : Nat} (p : Nat) (ys : List α) (h : b ≠ a) :
    arrOf (writeAt m a p ys) b = arrOf m b :=
  arrOf_set_ne _ (Ne.symm h)

theorem arrOf_writeAt_self {m : Mem α} {a : Nat} (p : Nat) (ys : List α) (h : a < m.length) :
    arrOf (writeAt m a p ys) a = (arrOf m a).take p ++ ys ++ (arrOf m a).drop (p + ys.length) :=
  arrOf_set_self _ h

theorem length_arrOf_writeAt_self {m : Mem α} {a : Nat} {p : Nat} {ys : List α} (h : a < m.length)
    (hp : p + ys.length ≤ (arrOf m a).length) :
    (arrOf (writeAt m a p ys) a).length = (arrOf m a).length := by
  rw [arrOf_writeAt_self p ys h]
  simp only [List.length_append, List.length_take, List.length_drop]
  omega

/-- an in-place write through a header whose array is `a`, within the capacity -/
theorem writeAt_upd {m : Mem α} {s : Slice} {p : Nat} {ys : List α} (h : s.arr < m.length)
    (hc : s.len ≤ cap m s) (hp : p + ys.length ≤ cap m s) : Upd m s.arr (writeAt m s.arr p ys) s := by
  refine ⟨by rw [length_writeAt]; exact Nat.le_refl _, ?_, Or.inl rfl, by rw [length_writeAt]; exact h, ?_⟩
  · intro b _ hne
    exact arrOf_writeAt_ne m p ys hne
  · unfold cap at *
    rw [length_arrOf_writeAt_self h hp]
    exact hc

theorem append_upd (cfg : Cfg α) {m : Mem α} {s : Slice} (ys : List α) (ha : s.arr < m.length)
    (hc : s.len ≤ cap m s) :
    Upd m s.arr (append cfg m s ys).1 (append cfg m s ys).2 ∧
    view (append cfg m s ys).1 (append cfg m s ys).2 = view m s ++ ys ∧
    (append cfg m s ys).2.len = s.len + ys.length := by
  unfold append
  simp only
  split
  · next hfit =>
    have hlen : (arrOf (writeAt m s.arr s.len ys) s.arr).length = (arrOf m s.arr).length :=
      length_arrOf_writeAt_self ha hfit
    refine ⟨⟨by rw [length_writeAt]; exact Nat.le_refl _, ?_, Or.inl rfl,
      by rw [length_writeAt]; exact ha, ?_⟩, ?_, rfl⟩
    · intro b _ hne
      exact arrOf_writeAt_ne m _ ys hne
    · show s.len + ys.length ≤ (arrOf (writeAt m s.arr s.len ys) s.arr).length
      rw [hlen]; exact hfit
    · show (arrOf (writeAt m s.arr s.len ys) s.arr).take (s.len + ys.length) = _
      rw [arrOf_writeAt_self _ _ ha]
      apply List.take_left'
      have := view_length hc
      simp only [view] at this
      simp only [List.length_append, this]
  · next hfit =>
    have hv := view_length hc
    refine ⟨⟨by simp, ?_, Or.inr (Nat.le_refl _), by simp, ?_⟩, ?_, rfl⟩
    · intro b hb _
      exact arrOf_append_lt _ hb
    · show s.len + ys.length ≤ (arrOf (m ++ [_]) m.length).length
      rw [arrOf_append_self]
      simp only [List.length_append, hv, List.length_replicate]
      omega
    · show (arrOf (m ++ [_]) m.length).take (s.len + ys.length) = _
      rw [arrOf_append_self]
      apply List.take_left'
      simp only [List.length_append, hv]

theorem mk_upd (zero : α) (m : Mem α) {len c : Nat} (h : len ≤ c) :
    Upd m m.length (mk zero m len c).1 (mk zero m len c).2 ∧
    view (mk zero m len c).1 (mk zero m len c).2 = List.replicate len zero := by
  unfold mk
  refine ⟨⟨by simp, ?_, Or.inl rfl, by simp, ?_⟩, ?_⟩
  · intro b hb _
    exact arrOf_append_lt _ hb
  · show len ≤ (arrOf (m ++ [_]) m.length).length
    rw [arrOf_append_self, List.length_replicate]; exact h
  · show (arrOf (m ++ [_]) m.length).take len = _
    rw [arrOf_append_self, List.take_replicate, Nat.min_eq_left h]

theorem upd_refl {m : Mem α} {s : Slice} (ha : s.arr < m.length) (hc : s.len ≤ cap m s) :
    Upd m s.arr m s :=
  ⟨Nat.le_refl _, fun _ _ _ => rfl, Or.inl rfl, ha, hc⟩

/-! ### the loop of `Add` on one header -/

/-- `append(s, v)` once per value -/
def appAll (cfg : Cfg α) (r : Mem α × Slice) (vs : List α) : Mem α × Slice :=
  vs.foldl (fun r v => append cfg r.1 r.2 [v]) r

theorem appAll_upd (cfg : Cfg α) (vs : List α) (r : Mem α × Slice) (ha : r.2.arr < r.1.length)
    (hc : r.2.len ≤ cap r.1 r.2) :
    Upd r.1 r.2.arr (appAll cfg r vs).1 (appAll cfg r vs).2 ∧
    view (appAll cfg r vs).1 (appAll cfg r vs).2 = view r.1 r.2 ++ vs ∧
    (appAll cfg r vs).2.len = r.2.len + vs.length := by
  induction vs generalizing r with
  | nil => exact ⟨upd_refl ha hc, by simp [appAll], by simp [appAll]⟩
  | cons v vs ih =>
    obtain ⟨h1, h2, h3⟩ := append_upd cfg [v] ha hc
    obtain ⟨k1, k2, k3⟩ := ih (append cfg r.1 r.2 [v]) h1.lt h1.cap
    have e : appAll cfg r (v :: vs) = appAll cfg (append cfg r.1 r.2 [v]) vs := rfl
    rw [e]
    refine ⟨h1.trans k1, ?_, ?_⟩
    · rw [k2, h2, List.append_assoc]; rfl
    · rw [k3, h3]; simp only [List.length_cons, List.length_nil]; omega

theorem set_eq_self {β : Type} {l : List β} {c : Nat} {s : β} (h : l[c]? = some s) : l.set c s = l := by
  obtain ⟨hlt, rfl⟩ := List.getElem?_eq_some_iff.1 h
  exact List.set_getElem_self hlt

theorem push_eq (cfg : Cfg α) (σ : SHeap α) {c : Nat} {s : Slice} (hc : σ.cells[c]? = some s) (v : α) :
    push cfg σ c v = ⟨(append cfg σ.mem s [v]).1, σ.cells.set c (append cfg σ.mem s [v]).2⟩ := by
  simp only [push, hc]

theorem pushAll_eq (cfg : Cfg α) (vs : List α) (σ : SHeap α) {c : Nat} {s : Slice}
    (hc : σ.cells[c]? = some s) :
    pushAll cfg σ c vs =
      ⟨(appAll cfg (σ.mem, s) vs).1, σ.cells.set c (appAll cfg (σ.mem, s) vs).2⟩ := by
  induction vs generalizing σ s with
  | nil =>
    show σ = ⟨σ.mem, σ.cells.set c s⟩
    rw [set_eq_self hc]
  | cons v vs ih =>
    have hlt : c < σ.cells.length := (List.getElem?_eq_some_iff.1 hc).1
    have e : pushAll cfg σ c (v :: vs) = pushAll cfg (push cfg σ c v) c vs := rfl
    rw [e, push_eq cfg σ hc v, ih (s := (append cfg σ.mem s [v]).2)]
    · simp only [List.set_set]; rfl
    · simp only [List.getElem?_set, if_pos hlt, if_true]

/-! ### from an `Upd` to the new heap -/

theorem SHeap.WF.arr_ne {σ : SHeap α} (hw : σ.WF) {i j : Nat} {s t : Slice}
    (hi : σ.cells[i]? = some s) (hj : σ.cells[j]? = some t) (hne : i ≠ j) : s.arr ≠ t.arr := by
  have hp := List.pairwise_iff_getElem.1 hw.2
  obtain ⟨hi', rfl⟩ := List.getElem?_eq_some_iff.1 hi
  obtain ⟨hj', rfl⟩ := List.getElem?_eq_some_iff.1 hj
  rcases Nat.lt_or_gt_of_ne hne with h | h
  · have := hp i j (by simpa using hi') (by simpa using hj') h
    simpa using this
  · have := hp j i (by simpa using hj') (by simpa using hi') h
    simpa using Ne.symm this

theorem SHeap.WF.of_mem {σ : SHeap α} (hw : σ.WF) {i : Nat} {s : Slice}
    (hi : σ.cells[i]? = some s) : s.arr < σ.mem.length ∧ s.len ≤ cap σ.mem s :=
  hw.1 s (List.mem_iff_getElem?.2 ⟨i, hi⟩)

/-- replacing the header of cell `c` after an update of its array -/
theorem wf_set {σ : SHeap α} (hw : σ.WF) {c : Nat} {s : Slice} (hc : σ.cells[c]? = some s)
    {m' : Mem α} {s' : Slice} (hu : Upd σ.mem s.arr m' s') :
    (SHeap.mk m' (σ.cells.set c s')).WF ∧
    (SHeap.mk m' (σ.cells.set c s')).abs = σ.abs.set c (view m' s') := by
  have hclt : c < σ.cells.length := (List.getElem?_eq_some_iff.1 hc).1
  have hother : ∀ j t, σ.cells[j]? = some t → j ≠ c →
      t.arr ≠ s.arr ∧ t.arr < σ.mem.length ∧ arrOf m' t.arr = arrOf σ.mem t.arr := by
    intro j t hj hne
    have h1 := hw.arr_ne hj hc hne
    have h2 := (hw.of_mem hj).1
    exact ⟨h1, h2, hu.frame _ h2 h1⟩
  refine ⟨⟨?_, ?_⟩, ?_⟩
  · intro t ht
    obtain ⟨j, hj⟩ := List.mem_iff_getElem?.1 ht
    simp only [List.getElem?_set] at hj
    split at hj
    · cases hj
      exact ⟨hu.lt, hu.cap⟩
    · next hne =>
      obtain ⟨_, h2, h3⟩ := hother j t hj (Ne.symm hne)
      exact ⟨Nat.lt_of_lt_of_le h2 hu.len_le, by rw [cap_congr h3]; exact (hw.of_mem hj).2⟩
  · show ((σ.cells.set c s').map (·.arr)).Nodup
    rw [List.map_set]
    refine nodup_set hw.2 c s'.arr ?_
    intro j y hj hne
    rw [List.getElem?_map] at hj
    cases ht : σ.cells[j]? with
    | none => rw [ht] at hj; cases hj
    | some t =>
      rw [ht] at hj
      cases hj
      obtain ⟨h1, h2, _⟩ := hother j t ht hne
      show t.arr ≠ s'.arr
      rcases hu.arr with h | h <;> omega
  · show (σ.cells.set c s').map (view m') = (σ.cells.map (view σ.mem)).set c (view m' s')
    apply List.ext_getElem?
    intro j
    simp only [List.getElem?_map, List.getElem?_set, List.length_map]
    split
    · rfl
    · next hne =>
      cases ht : σ.cells[j]? with
      | none => rfl
      | some t =>
        obtain ⟨_, _, h3⟩ := hother j t ht (Ne.symm hne)
        simp only [Option.map_some, view_congr h3]

/-- a new cell over a fresh array -/
theorem wf_append {σ : SHeap α} (hw : σ.WF) {m' : Mem α} {s' : Slice}
    (hu : Upd σ.mem σ.mem.length m' s') :
    (SHeap.mk m' (σ.cells ++ [s'])).WF ∧
    (SHeap.mk m' (σ.cells ++ [s'])).abs = σ.abs ++ [view m' s'] := by
  have hother : ∀ t, t ∈ σ.cells → t.arr < σ.mem.length ∧ arrOf m' t.arr = arrOf σ.mem t.arr := by
    intro t ht
    have h2 := (hw.1 t ht).1
    exact ⟨h2, hu.frame _ h2 (by omega)⟩
  have hfresh : σ.mem.length ≤ s'.arr := by rcases hu.arr with h | h <;> omega
  refine ⟨⟨?_, ?_⟩, ?_⟩
  · intro t ht
    rcases List.mem_append.1 ht with ht | ht
    · obtain ⟨h2, h3⟩ := hother t ht
      exact ⟨Nat.lt_of_lt_of_le h2 hu.len_le, by rw [cap_congr h3]; exact (hw.1 t ht).2⟩
    · rw [List.mem_singleton] at ht
      subst ht
      exact ⟨hu.lt, hu.cap⟩
  · show ((σ.cells ++ [s']).map (·.arr)).Nodup
    rw [List.map_append, List.nodup_append]
    refine ⟨hw.2, by simp, ?_⟩
    intro a ha b hb
    obtain ⟨t, ht, rfl⟩ := List.mem_map.1 ha
    simp only [List.map_cons, List.map_nil, List.mem_singleton] at hb
    subst hb
    have := (hother t ht).1
    omega
  · show (σ.cells ++ [s']).map (view m') = σ.cells.map (view σ.mem) ++ [view m' s']
    rw [List.map_append]
    congr 1
    apply List.map_congr_left
    intro t ht
    exact view_congr (hother t ht).2

end Anytype.Slices
