/-
What each operation of `Model/Slices.step` does, in terms of `Upd` (see `SlicesBasic`): either it
panics and changes nothing, or it replaces the header of one cell after an update of that cell's
array, or it adds a cell over a fresh array (`Shape`); `Delete` is a loop of the second kind.
-/
import Anytype.Lemmas.SlicesBasic
namespace Anytype.Slices
variable {α : Type}

/-! ### more about views -/

theorem abs_getElem? (σ : SHeap α) (c : Nat) : σ.abs[c]? = (σ.cells[c]?).map (view σ.mem) := by
  simp only [SHeap.abs, List.getElem?_map]

theorem abs_length (σ : SHeap α) : σ.abs.length = σ.cells.length := by
  simp only [SHeap.abs, List.length_map]

theorem view_prefix {m : Mem α} {s : Slice} {k : Nat} (h : k ≤ s.len) :
    view m ⟨s.arr, k⟩ = (view m s).take k := by
  simp only [view, List.take_take, Nat.min_eq_left h]

theorem view_writeAt_one {m : Mem α} {s : Slice} {i : Nat} (v : α) (ha : s.arr < m.length)
    (hi : i < s.len) (hc : s.len ≤ cap m s) :
    view (writeAt m s.arr i [v]) s = (view m s).set i v := by
  have hlt : i < (arrOf m s.arr).length := Nat.lt_of_lt_of_le hi hc
  unfold view
  rw [arrOf_writeAt_self _ _ ha, ← List.take_set, List.set_eq_take_append_cons_drop, if_pos hlt]
  simp only [List.length_singleton, List.append_assoc, List.singleton_append]

theorem view_writeAt_zero {m : Mem α} {s : Slice} {ys : List α} (ha : s.arr < m.length)
    (hl : ys.length = s.len) : view (writeAt m s.arr 0 ys) s = ys := by
  simp only [view, arrOf_writeAt_self _ _ ha, List.take_zero, List.nil_append]
  exact List.take_left' hl

theorem Upd.of_fresh {m m' : Mem α} {s' : Slice} (a : Nat) (h : Upd m m.length m' s') : Upd m a m' s' := by
  refine ⟨h.len_le, fun b hb _ => h.frame b hb (by omega), Or.inr ?_, h.lt, h.cap⟩
  rcases h.arr with h | h <;> omega

/-! ### plain lists -/

theorem insertIdx_eq_take_drop {β : Type} (v : β) (xs : List β) (i : Nat) (h : i ≤ xs.length) :
    xs.insertIdx i v = xs.take i ++ v :: xs.drop i := by
  induction xs generalizing i with
  | nil =>
    have : i = 0 := by simpa using h
    subst this; rfl
  | cons x xs ih =>
    cases i with
    | zero => rfl
    | succ i =>
      rw [List.insertIdx_succ_cons, ih i (by simpa using h)]
      rfl

theorem insert_shift {β : Type} (v : β) (xs : List β) (i : Nat) (h : i < xs.length) :
    (xs.take (i + 1) ++ xs.drop i).set i v = xs.insertIdx i v := by
  rw [insertIdx_eq_take_drop v xs i (Nat.le_of_lt h), List.take_succ_eq_append_getElem h,
    List.append_assoc, List.set_append, if_neg (by simp [Nat.min_eq_left (Nat.le_of_lt h)])]
  simp [Nat.min_eq_left (Nat.le_of_lt h)]

/-! ### the shape of a step -/

/-- what a step does, for every operation but `Delete`: panic with nothing changed, or a new header
for one cell after an update of its array, or a new cell over a fresh array; and the step on plain
lists does the same to the contents -/
def Shape (cfg : Cfg α) (sorted : List α → List α) (σ : SHeap α) (op : Op α) : Prop :=
  (step cfg sorted σ op = (σ, .panic) ∧ astep sorted σ.abs op = (σ.abs, .panic)) ∨
  (∃ c s m' s', σ.cells[c]? = some s ∧ Upd σ.mem s.arr m' s' ∧
    step cfg sorted σ op = (⟨m', σ.cells.set c s'⟩, .done) ∧
    astep sorted σ.abs op = (σ.abs.set c (view m' s'), .done)) ∨
  (∃ m' s', Upd σ.mem σ.mem.length m' s' ∧
    step cfg sorted σ op = (⟨m', σ.cells ++ [s']⟩, .made σ.cells.length) ∧
    astep sorted σ.abs op = (σ.abs ++ [view m' s'], .made σ.abs.length))

theorem Shape.wf_refines {cfg : Cfg α} {sorted : List α → List α} {σ : SHeap α} {op : Op α}
    (h : Shape cfg sorted σ op) (hw : σ.WF) :
    (step cfg sorted σ op).1.WF ∧
    ((step cfg sorted σ op).1.abs, (step cfg sorted σ op).2) = astep sorted σ.abs op := by
  rcases h with ⟨h1, h2⟩ | ⟨c, s, m', s', hc, hu, h1, h2⟩ | ⟨m', s', hu, h1, h2⟩
  · rw [h1, h2]; exact ⟨hw, rfl⟩
  · rw [h1, h2]
    obtain ⟨k1, k2⟩ := wf_set hw hc hu
    exact ⟨k1, by rw [k2]⟩
  · rw [h1, h2]
    obtain ⟨k1, k2⟩ := wf_append hw hu
    exact ⟨k1, by rw [k2, abs_length]⟩

theorem Shape.made {cfg : Cfg α} {sorted : List α → List α} {σ : SHeap α} {op : Op α}
    (h : Shape cfg sorted σ op) {c : Nat} (hm : (step cfg sorted σ op).2 = .made c) :
    c = σ.cells.length ∧ ∃ s, (step cfg sorted σ op).1.cells[c]? = some s ∧ σ.mem.length ≤ s.arr := by
  rcases h with ⟨h1, h2⟩ | ⟨c, s, m', s', hc, hu, h1, h2⟩ | ⟨m', s', hu, h1, h2⟩
  · rw [h1] at hm; cases hm
  · rw [h1] at hm; cases hm
  · rw [h1] at hm ⊢
    cases hm
    refine ⟨rfl, s', by simp, ?_⟩
    rcases hu.arr with h | h <;> omega

/-! ### allocation followed by the loop of `Add` -/

theorem alloc_pushAll (cfg : Cfg α) (σ : SHeap α) (n : Nat) (vs : List α) :
    ∃ m' s', pushAll cfg (alloc cfg σ 0 n) σ.cells.length vs = ⟨m', σ.cells ++ [s']⟩ ∧
      Upd σ.mem σ.mem.length m' s' ∧ view m' s' = vs := by
  obtain ⟨h1, h2⟩ := mk_upd cfg.zero σ.mem (Nat.zero_le n)
  have hc : (alloc cfg σ 0 n).cells[σ.cells.length]? = some (mk cfg.zero σ.mem 0 n).2 := by
    simp [alloc]
  obtain ⟨k1, k2, _⟩ := appAll_upd cfg vs (mk cfg.zero σ.mem 0 n) h1.lt h1.cap
  refine ⟨_, _, ?_, h1.trans k1, ?_⟩
  · rw [pushAll_eq cfg vs _ hc]
    simp [alloc]
  · rw [k2, h2]; rfl

/-! ### the loop of `Reverse` -/

theorem swap_spec {m : Mem α} {a i j : Nat} (ha : a < m.length) (hi : i < (arrOf m a).length)
    (hj : j < (arrOf m a).length) :
    (swap m a i j).length = m.length ∧ (∀ b, b ≠ a → arrOf (swap m a i j) b = arrOf m b) ∧
    (arrOf (swap m a i j) a).length = (arrOf m a).length ∧
    ∀ q, (arrOf (swap m a i j) a)[q]? =
      if j = q then (arrOf m a)[i]? else if i = q then (arrOf m a)[j]? else (arrOf m a)[q]? := by
  unfold swap
  rw [List.getElem?_eq_getElem hi, List.getElem?_eq_getElem hj]
  refine ⟨by simp only [List.length_set], fun b hb => arrOf_set_ne _ (Ne.symm hb), ?_, ?_⟩
  · rw [arrOf_set_self _ ha]; simp only [List.length_set]
  · intro q
    rw [arrOf_set_self _ ha]
    simp only [List.getElem?_set, List.length_set, if_pos hi, if_pos hj]

theorem reverseLoop_spec (a n : Nat) (k : Nat) (m : Mem α) (ha : a < m.length) (hk : 2 * k ≤ n)
    (hn : n ≤ (arrOf m a).length) :
    (reverseLoop a n m k).length = m.length ∧
    (∀ b, b ≠ a → arrOf (reverseLoop a n m k) b = arrOf m b) ∧
    (arrOf (reverseLoop a n m k) a).length = (arrOf m a).length ∧
    ∀ j, (arrOf (reverseLoop a n m k) a)[j]? =
      if j < k ∨ (n - k ≤ j ∧ j < n) then (arrOf m a)[n - 1 - j]? else (arrOf m a)[j]? := by
  induction k generalizing m with
  | zero =>
    refine ⟨rfl, fun _ _ => rfl, rfl, fun j => ?_⟩
    rw [if_neg (by omega)]; rfl
  | succ i ih =>
    obtain ⟨s1, s2, s3, s4⟩ := swap_spec (m := m) (a := a) (i := i) (j := n - 1 - i) ha
      (by omega) (by omega)
    obtain ⟨r1, r2, r3, r4⟩ := ih (swap m a i (n - 1 - i)) (by rw [s1]; exact ha) (by omega)
      (by rw [s3]; exact hn)
    show (reverseLoop a n (swap m a i (n - 1 - i)) i).length = m.length ∧
      (∀ b, b ≠ a → arrOf (reverseLoop a n (swap m a i (n - 1 - i)) i) b = arrOf m b) ∧
      (arrOf (reverseLoop a n (swap m a i (n - 1 - i)) i) a).length = (arrOf m a).length ∧
      ∀ j, (arrOf (reverseLoop a n (swap m a i (n - 1 - i)) i) a)[j]? =
        if j < i + 1 ∨ (n - (i + 1) ≤ j ∧ j < n) then (arrOf m a)[n - 1 - j]? else (arrOf m a)[j]?
    refine ⟨by rw [r1, s1], fun b hb => by rw [r2 b hb, s2 b hb], by rw [r3, s3], fun j => ?_⟩
    have hcases : j < i ∨ j = i ∨ (i < j ∧ j < n - 1 - i) ∨ j = n - 1 - i ∨ (n - i ≤ j ∧ j < n) ∨ n ≤ j := by
      omega
    rcases hcases with h | h | h | h | h | h
    · rw [r4 j, if_pos (by omega), if_pos (by omega), s4, if_neg (by omega), if_neg (by omega)]
    · subst h
      rw [r4, if_neg (by omega), if_pos (by omega), s4, if_neg (by omega), if_pos rfl]
    · rw [r4 j, if_neg (by omega), if_neg (by omega), s4, if_neg (by omega), if_neg (by omega)]
    · subst h
      rw [r4, if_neg (by omega), if_pos (by omega), s4, if_pos rfl]
      have e : n - 1 - (n - 1 - i) = i := by omega
      rw [e]
    · rw [r4 j, if_pos (by omega), if_pos (by omega), s4, if_neg (by omega), if_neg (by omega)]
    · rw [r4 j, if_neg (by omega), if_neg (by omega), s4, if_neg (by omega), if_neg (by omega)]

theorem reverse_upd {m : Mem α} {s : Slice} (ha : s.arr < m.length) (hl : s.len ≤ cap m s) :
    Upd m s.arr (reverseLoop s.arr s.len m (s.len / 2)) s ∧
    view (reverseLoop s.arr s.len m (s.len / 2)) s = (view m s).reverse := by
  obtain ⟨r1, r2, r3, r4⟩ := reverseLoop_spec s.arr s.len (s.len / 2) m ha (by omega) hl
  refine ⟨⟨by rw [r1]; exact Nat.le_refl _, fun b _ hb => r2 b hb, Or.inl rfl, by rw [r1]; exact ha, ?_⟩, ?_⟩
  · show s.len ≤ (arrOf _ s.arr).length
    rw [r3]; exact hl
  · have hvl := view_length hl
    apply List.ext_getElem?
    intro j
    by_cases hj : j < s.len
    · rw [List.getElem?_reverse (by rw [hvl]; exact hj), hvl]
      unfold view
      rw [List.getElem?_take, if_pos hj, List.getElem?_take, if_pos (by omega), r4]
      split
      · rfl
      · have e : s.len - 1 - j = j := by omega
        rw [e]
    · rw [List.getElem?_eq_none, List.getElem?_eq_none]
      · rw [List.length_reverse, hvl]; omega
      · unfold view
        rw [List.length_take, r3]
        exact Nat.le_trans (Nat.min_le_left _ _) (by omega)

/-! ### the operations, one by one -/

section ops
set_option linter.unusedSectionVars false
variable (cfg : Cfg α) (sorted : List α → List α) {σ : SHeap α} (hw : σ.WF)
include hw

theorem shape_newList (vs : List α) : Shape cfg sorted σ (.newList vs) := by
  obtain ⟨m', s', h1, h2, h3⟩ := alloc_pushAll cfg σ 0 vs
  exact .inr (.inr ⟨m', s', h2, by simp only [step, h1], by simp only [astep, h3]⟩)

theorem shape_newListOf (v : α) (n : Nat) : Shape cfg sorted σ (.newListOf v n) := by
  obtain ⟨m', s', h1, h2, h3⟩ := alloc_pushAll cfg σ n (List.replicate n v)
  exact .inr (.inr ⟨m', s', h2, by simp only [step, h1], by simp only [astep, h3]⟩)

theorem shape_newListFrom (vs : List α) : Shape cfg sorted σ (.newListFrom vs) := by
  obtain ⟨m', s', h1, h2, h3⟩ := alloc_pushAll cfg σ vs.length vs
  exact .inr (.inr ⟨m', s', h2, by simp only [step, h1], by simp only [astep, h3]⟩)

theorem shape_add (c : Nat) (vs : List α) : Shape cfg sorted σ (.add c vs) := by
  cases hc : σ.cells[c]? with
  | none => exact .inl ⟨by simp only [step, hc], by simp only [astep, abs_getElem?, hc, Option.map_none]⟩
  | some s =>
    obtain ⟨ha, hl⟩ := hw.of_mem hc
    obtain ⟨k1, k2, _⟩ := appAll_upd cfg vs (σ.mem, s) ha hl
    refine .inr (.inl ⟨c, s, _, _, hc, k1, ?_, ?_⟩)
    · simp only [step, hc, pushAll_eq cfg vs σ hc]
    · simp only [astep, abs_getElem?, hc, Option.map_some, k2]

theorem shape_replace (c i : Nat) (v : α) : Shape cfg sorted σ (.replace c i v) := by
  cases hc : σ.cells[c]? with
  | none => exact .inl ⟨by simp only [step, hc], by simp only [astep, abs_getElem?, hc, Option.map_none]⟩
  | some s =>
    obtain ⟨ha, hl⟩ := hw.of_mem hc
    have hvl := view_length hl
    by_cases hi : i < s.len
    · refine .inr (.inl ⟨c, s, writeAt σ.mem s.arr i [v], s, hc, ?_, ?_, ?_⟩)
      · exact writeAt_upd ha hl (by simp only [List.length_singleton]; omega)
      · simp only [step, hc, if_pos hi, set_eq_self hc]
      · simp only [astep, abs_getElem?, hc, Option.map_some, hvl, if_pos hi, view_writeAt_one v ha hi hl]
    · exact .inl ⟨by simp only [step, hc, if_neg hi],
        by simp only [astep, abs_getElem?, hc, Option.map_some, hvl, if_neg hi]⟩

theorem shape_clear (c : Nat) : Shape cfg sorted σ (.clear c) := by
  cases hc : σ.cells[c]? with
  | none => exact .inl ⟨by simp only [step, hc], by simp only [astep, abs_getElem?, hc, Option.map_none]⟩
  | some s =>
    obtain ⟨h1, h2⟩ := mk_upd cfg.zero σ.mem (Nat.le_refl 0)
    refine .inr (.inl ⟨c, s, _, _, hc, h1.of_fresh s.arr, ?_, ?_⟩)
    · simp only [step, hc]
    · simp only [astep, abs_getElem?, hc, Option.map_some, h2, List.replicate_zero]

theorem shape_clone (c : Nat) : Shape cfg sorted σ (.clone c) := by
  cases hc : σ.cells[c]? with
  | none => exact .inl ⟨by simp only [step, hc], by simp only [astep, abs_getElem?, hc, Option.map_none]⟩
  | some s =>
    obtain ⟨ha, hl⟩ := hw.of_mem hc
    obtain ⟨h1, _⟩ := mk_upd cfg.zero σ.mem (Nat.le_refl s.len)
    have hv : view (mk cfg.zero σ.mem s.len s.len).1 s = view σ.mem s :=
      view_congr (h1.frame _ ha (by omega))
    have hlen : (view σ.mem s).length = (mk cfg.zero σ.mem s.len s.len).2.len := view_length hl
    have h2 : Upd _ _ (writeAt (mk cfg.zero σ.mem s.len s.len).1 (mk cfg.zero σ.mem s.len s.len).2.arr 0
        (view σ.mem s)) _ := writeAt_upd h1.lt h1.cap (by rw [Nat.zero_add, hlen]; exact h1.cap)
    refine .inr (.inr ⟨_, _, h1.trans h2, ?_, ?_⟩)
    · simp only [step, hc, hv]
    · simp only [astep, abs_getElem?, hc, Option.map_some, view_writeAt_zero h1.lt hlen]

theorem shape_subList (c start stop : Nat) : Shape cfg sorted σ (.subList c start stop) := by
  cases hc : σ.cells[c]? with
  | none => exact .inl ⟨by simp only [step, hc], by simp only [astep, abs_getElem?, hc, Option.map_none]⟩
  | some s =>
    obtain ⟨ha, hl⟩ := hw.of_mem hc
    have hvl := view_length hl
    by_cases hi : start ≤ stop ∧ stop ≤ s.len
    · obtain ⟨h1, _⟩ := mk_upd cfg.zero σ.mem (Nat.le_refl (stop - start))
      have hv : view (mk cfg.zero σ.mem (stop - start) (stop - start)).1 s = view σ.mem s :=
        view_congr (h1.frame _ ha (by omega))
      have hlen : (((view σ.mem s).take stop).drop start).length =
          (mk cfg.zero σ.mem (stop - start) (stop - start)).2.len := by
        simp only [List.length_drop, List.length_take, hvl]
        show min stop s.len - start = stop - start
        omega
      have h2 : Upd _ _ (writeAt (mk cfg.zero σ.mem (stop - start) (stop - start)).1
          (mk cfg.zero σ.mem (stop - start) (stop - start)).2.arr 0
          (((view σ.mem s).take stop).drop start)) _ :=
        writeAt_upd h1.lt h1.cap (by rw [Nat.zero_add, hlen]; exact h1.cap)
      refine .inr (.inr ⟨_, _, h1.trans h2, ?_, ?_⟩)
      · simp only [step, hc, hv, if_pos hi]
      · simp only [astep, abs_getElem?, hc, Option.map_some, hvl, if_pos hi,
          view_writeAt_zero h1.lt hlen]
    · exact .inl ⟨by simp only [step, hc, if_neg hi],
        by simp only [astep, abs_getElem?, hc, Option.map_some, hvl, if_neg hi]⟩

/-- one step of the loop of `Delete` -/
theorem deleteAt_upd {c : Nat} {s : Slice} (hc : σ.cells[c]? = some s) {i : Nat} (hi : i < s.len) :
    ∃ m' s', deleteAt cfg σ c s i = ⟨m', σ.cells.set c s'⟩ ∧ Upd σ.mem s.arr m' s' ∧
      view m' s' = (view σ.mem s).eraseIdx i := by
  obtain ⟨ha, hl⟩ := hw.of_mem hc
  have hl' : (Slice.mk s.arr i).len ≤ cap σ.mem ⟨s.arr, i⟩ := Nat.le_trans (Nat.le_of_lt hi) hl
  obtain ⟨k1, k2, _⟩ := append_upd cfg ((view σ.mem s).drop (i + 1)) (s := ⟨s.arr, i⟩) ha hl'
  refine ⟨_, _, rfl, k1, ?_⟩
  rw [k2, view_prefix (Nat.le_of_lt hi), List.eraseIdx_eq_take_drop_succ]

theorem shape_pop (c : Nat) : Shape cfg sorted σ (.pop c) := by
  cases hc : σ.cells[c]? with
  | none => exact .inl ⟨by simp only [step, hc], by simp only [astep, abs_getElem?, hc, Option.map_none]⟩
  | some s =>
    obtain ⟨ha, hl⟩ := hw.of_mem hc
    have hvl := view_length hl
    by_cases hi : s.len = 0
    · exact .inl ⟨by simp only [step, hc, if_pos hi],
        by simp only [astep, abs_getElem?, hc, Option.map_some, hvl, if_pos hi]⟩
    · obtain ⟨m', s', h1, h2, h3⟩ := deleteAt_upd cfg hw hc (i := s.len - 1) (by omega)
      refine .inr (.inl ⟨c, s, m', s', hc, h2, ?_, ?_⟩)
      · simp only [step, hc, if_neg hi, h1]
      · simp only [astep, abs_getElem?, hc, Option.map_some, hvl, if_neg hi, h3]
        rw [List.eraseIdx_eq_dropLast (by omega)]

theorem shape_insert (c i : Nat) (v : α) : Shape cfg sorted σ (.insert c i v) := by
  cases hc : σ.cells[c]? with
  | none => exact .inl ⟨by simp only [step, hc], by simp only [astep, abs_getElem?, hc, Option.map_none]⟩
  | some s =>
    obtain ⟨ha, hl⟩ := hw.of_mem hc
    have hvl := view_length hl
    by_cases hi : i > s.len
    · exact .inl ⟨by simp only [step, hc, if_pos hi],
        by simp only [astep, abs_getElem?, hc, Option.map_some, hvl, if_pos hi]⟩
    by_cases hi2 : i = s.len
    · obtain ⟨k1, k2, _⟩ := append_upd cfg [v] ha hl
      refine .inr (.inl ⟨c, s, _, _, hc, k1, ?_, ?_⟩)
      · simp only [step, hc, if_neg hi, if_pos hi2, push_eq cfg σ hc]
      · simp only [astep, abs_getElem?, hc, Option.map_some, hvl, if_neg hi, k2]
        rw [hi2, ← hvl, List.insertIdx_length_self]
    · have hlt : i < s.len := by omega
      have hl' : (Slice.mk s.arr (i + 1)).len ≤ cap σ.mem ⟨s.arr, i + 1⟩ := Nat.le_trans hlt hl
      obtain ⟨k1, k2, k3⟩ := append_upd cfg ((view σ.mem s).drop i) (s := ⟨s.arr, i + 1⟩) ha hl'
      have k3' : i < (append cfg σ.mem ⟨s.arr, i + 1⟩ ((view σ.mem s).drop i)).2.len := by
        rw [k3]; show i < i + 1 + _; omega
      have k4 : Upd _ _ (writeAt (append cfg σ.mem ⟨s.arr, i + 1⟩ ((view σ.mem s).drop i)).1
          (append cfg σ.mem ⟨s.arr, i + 1⟩ ((view σ.mem s).drop i)).2.arr i [v]) _ :=
        writeAt_upd k1.lt k1.cap (Nat.le_trans (by simp only [List.length_singleton]; omega) k1.cap)
      refine .inr (.inl ⟨c, s, _, _, hc, k1.trans k4, ?_, ?_⟩)
      · simp only [step, hc, if_neg hi, if_neg hi2]
      · simp only [astep, abs_getElem?, hc, Option.map_some, hvl, if_neg hi]
        rw [view_writeAt_one v k1.lt k3' k1.cap, k2, view_prefix (s := s) hlt,
          insert_shift v _ i (by omega)]

theorem shape_concat (c d : Nat) : Shape cfg sorted σ (.concat c d) := by
  cases hc : σ.cells[c]? with
  | none =>
    exact .inl ⟨by simp only [step, hc], by simp only [astep, abs_getElem?, hc, Option.map_none]⟩
  | some s =>
    cases hd : σ.cells[d]? with
    | none =>
      exact .inl ⟨by simp only [step, hc, hd],
        by simp only [astep, abs_getElem?, hc, hd, Option.map_none, Option.map_some]⟩
    | some t =>
      obtain ⟨ha, _⟩ := hw.of_mem hc
      obtain ⟨hb, _⟩ := hw.of_mem hd
      obtain ⟨h0, v0⟩ := mk_upd cfg.zero σ.mem (Nat.zero_le (s.len + t.len))
      have e0 : view (mk cfg.zero σ.mem 0 (s.len + t.len)).1 s = view σ.mem s :=
        view_congr (h0.frame _ ha (by omega))
      obtain ⟨h1, v1, _⟩ := append_upd cfg (view σ.mem s) h0.lt h0.cap
      have h01 := h0.trans h1
      have e1 : view (append cfg (mk cfg.zero σ.mem 0 (s.len + t.len)).1
          (mk cfg.zero σ.mem 0 (s.len + t.len)).2 (view σ.mem s)).1 t = view σ.mem t :=
        view_congr (h01.frame _ hb (by omega))
      obtain ⟨h2, v2, _⟩ := append_upd cfg (view σ.mem t) h01.lt h01.cap
      refine .inr (.inr ⟨_, _, h01.trans h2, ?_, ?_⟩)
      · simp only [step, hc, hd, e0, e1]
      · simp only [astep, abs_getElem?, hc, hd, Option.map_some, v2, v1, v0, List.replicate_zero,
          List.nil_append]

theorem shape_sort (c : Nat) : Shape cfg sorted σ (.sort c) := by
  cases hc : σ.cells[c]? with
  | none => exact .inl ⟨by simp only [step, hc], by simp only [astep, abs_getElem?, hc, Option.map_none]⟩
  | some s =>
    obtain ⟨ha, hl⟩ := hw.of_mem hc
    have hvl := view_length hl
    by_cases hi : s.len = 0
    · exact .inl ⟨by simp only [step, hc, if_pos hi],
        by simp only [astep, abs_getElem?, hc, Option.map_some, hvl, if_pos hi]⟩
    · obtain ⟨m', s', h1, h2, h3⟩ := alloc_pushAll cfg ⟨σ.mem, []⟩ (sorted (view σ.mem s)).length
        (sorted (view σ.mem s))
      simp only [List.length_nil, List.nil_append] at h1
      refine .inr (.inl ⟨c, s, m', s', hc, h2.of_fresh s.arr, ?_, ?_⟩)
      · simp only [step, hc, if_neg hi, h1, List.getElem?_cons_zero]
      · simp only [astep, abs_getElem?, hc, Option.map_some, hvl, if_neg hi, h3]

theorem shape_reverse (c : Nat) : Shape cfg sorted σ (.reverse c) := by
  cases hc : σ.cells[c]? with
  | none => exact .inl ⟨by simp only [step, hc], by simp only [astep, abs_getElem?, hc, Option.map_none]⟩
  | some s =>
    obtain ⟨ha, hl⟩ := hw.of_mem hc
    obtain ⟨h1, h2⟩ := reverse_upd ha hl
    refine .inr (.inl ⟨c, s, _, s, hc, h1, ?_, ?_⟩)
    · simp only [step, hc, set_eq_self hc]
    · simp only [astep, abs_getElem?, hc, Option.map_some, h2]

/-- the loop of `Delete` -/
theorem deleteLoop_spec (c : Nat) (is : List Nat) :
    (deleteLoop cfg c σ is).1.WF ∧
    ((deleteLoop cfg c σ is).1.abs, (deleteLoop cfg c σ is).2) = adeleteLoop c σ.abs is ∧
    ∀ k, (deleteLoop cfg c σ is).2 ≠ .made k := by
  induction is generalizing σ with
  | nil => exact ⟨hw, rfl, fun k h => by cases h⟩
  | cons i rest ih =>
    cases hc : σ.cells[c]? with
    | none =>
      simp only [deleteLoop, adeleteLoop, abs_getElem?, hc, Option.map_none]
      exact ⟨hw, trivial, fun k h => by cases h⟩
    | some s =>
      obtain ⟨ha, hl⟩ := hw.of_mem hc
      have hvl := view_length hl
      by_cases hi : i < s.len
      · obtain ⟨m', s', h1, h2, h3⟩ := deleteAt_upd cfg hw hc hi
        obtain ⟨k1, k2⟩ := wf_set hw hc h2
        simp only [deleteLoop, adeleteLoop, abs_getElem?, hc, Option.map_some, hvl, if_pos hi, h1]
        rw [← h3, ← k2]
        exact ih k1
      · simp only [deleteLoop, adeleteLoop, abs_getElem?, hc, Option.map_some, hvl, if_neg hi]
        exact ⟨hw, trivial, fun k h => by cases h⟩

end ops

end Anytype.Slices
