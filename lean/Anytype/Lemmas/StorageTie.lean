/-
The regenerated part of the tie between `Model/Slices` and the source: the statements of `list_impl.go` that decide where
the elements of a list live, as `vextract` finds them in the current source (`Generated/Storage.lean`), are the statements the
operations of `Slices.step` were written from. Each line below names the model operation that mirrors it. The statements are in
the extractor's normal form (harness/cmd/vextract/storage.go, rule S2): the receiver is `r`, other variables are numbered in order
of appearance, a temporary used once is folded into its use, a repeated statement is listed once.

(The method translators read `[]field` as a list without capacity; this table is about exactly what that reading leaves out.
A change of any of these statements — `Concat` appending to the receiver's slice, `SubList` re-slicing instead of copying,
`Clear` keeping the array, a struct copy `*ego = …` — makes `storage_sites_expected` fail; the `slices` stratum then looks for
the input on which contents differ.)
-/
import Anytype.Generated.Storage
import Anytype.Model.Slices
namespace Anytype

def expectedStorageSites : List (String × List String) := [
  -- Slices.push / pushAll
  ("list.Add", ["r.val = append(r.val, parseVal(v2))"]),
  -- Slices.step (.clear): a new empty array
  ("list.Clear", ["r.val = []field{}"]),
  -- Slices.step (.concat): mk 0 (n+m); append; append — a new array, never the receiver's (val := make(…) is folded in: rule S2b)
  ("list.Concat", ["v2 := &list{val: append(append(make([]field, 0, len(r.val)+len(v3)), r.val...), v3...)}"]),
  -- Slices.deleteAt
  ("list.Delete", ["r.val = append(r.val[:v2], r.val[v2+1:]...)"]),
  -- Slices.step (.insert): append over the prefix header ⟨arr, i+1⟩, then writeAt i
  ("list.Insert", ["r.val = append(r.val[:v2+1], r.val[v2:]...)", "r.val[v2] = v3"]),
  -- Slices.step (.replace): writeAt
  ("list.Replace", ["r.val[v2] = parseVal(v3)"]),
  -- Slices.swap / reverseLoop
  ("list.Reverse", ["r.val[v2], r.val[v3] = r.val[v3], r.val[v2]"]),
  -- Slices.step (.sort): the slice of a temporary list made by NewListFrom (three arms, one statement: rule S2c)
  ("list.Sort", ["r.val = NewListFrom(v2).(*list).val"]),
  -- Slices.step (.subList): mk (e-s) (e-s); writeAt 0 (copy)
  ("list.SubList", ["v2 := &list{val: make([]field, v3-v4)}", "copy(v2.val, r.val[v4:v3])"]),
  -- Slices.step (.clone): mk n n; element-wise stores
  ("list.copy", ["v2 := &list{val: make([]field, r.Ego().Count())}", "v2.val[v3] = parseVal(v4.copy())"]),
  -- Slices.step (.newList): alloc 0 0, then Add
  ("NewList", ["v1 := &list{val: []field{}}"]),
  -- Slices.step (.newListFrom): alloc 0 len, then Add
  ("NewListFrom", ["v1 = &list{val: make([]field, 0, v2)}"]),
  -- Slices.step (.newListOf): alloc 0 count, then count appends
  ("NewListOf", ["v1 := &list{val: make([]field, 0, v2)}", "v1.val = append(v1.val, v3)"])
]

/-- the source still manipulates list storage by exactly the statements `Model/Slices` mirrors -/
theorem storage_sites_expected : Generated.storageSites = expectedStorageSites := by decide

end Anytype
