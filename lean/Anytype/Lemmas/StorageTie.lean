/-
The regenerated part of the tie between `Model/Slices` and the source: the statements of `list_impl.go` that decide where
the elements of a list live, as `vextract` finds them in the current source (`Generated/Storage.lean`), are the statements the
operations of `Slices.step` were written from. Each line below names the model operation that mirrors it.

(The method translators read `[]field` as a list without capacity; this table is about exactly what that reading leaves out.
A change of any of these statements — `Concat` appending to the receiver's slice, `SubList` re-slicing instead of copying,
`Clear` keeping the array, a struct copy `*ego = …` — makes `storage_sites_expected` fail; the `slices` stratum then looks for
the input on which contents differ.)
-/
import Anytype.Generated.Storage
import Anytype.Model.Slices
namespace Anytype

def expectedStorageSites : List (String × List String) := [
  -- Slices.push / pushAll
  ("list.Add", ["ego.val = append(ego.val, parseVal(val))"]),
  -- Slices.step (.clear): a new empty array
  ("list.Clear", ["ego.val = []field{}"]),
  -- Slices.step (.concat): mk 0 (n+m); append; append — a new array, never the receiver's
  ("list.Concat", ["val := make([]field, 0, len(ego.val)+len(other))", "newList := &list{val: append(append(val, ego.val...), other...)}"]),
  -- Slices.deleteAt
  ("list.Delete", ["ego.val = append(ego.val[:index], ego.val[index+1:]...)"]),
  -- Slices.step (.insert): append over the prefix header ⟨arr, i+1⟩, then writeAt i
  ("list.Insert", ["ego.val = append(ego.val[:index+1], ego.val[index:]...)", "ego.val[index] = elem"]),
  -- Slices.step (.replace): writeAt
  ("list.Replace", ["ego.val[index] = parseVal(value)"]),
  -- Slices.swap / reverseLoop
  ("list.Reverse", ["ego.val[i], ego.val[opp] = ego.val[opp], ego.val[i]"]),
  -- Slices.step (.sort): the slice of a temporary list made by NewListFrom (three arms: strings, ints, floats)
  ("list.Sort", ["ego.val = NewListFrom(slice).(*list).val", "ego.val = NewListFrom(slice).(*list).val", "ego.val = NewListFrom(slice).(*list).val"]),
  -- Slices.step (.subList): mk (e-s) (e-s); writeAt 0 (copy)
  ("list.SubList", ["list := &list{val: make([]field, end-start)}", "copy(list.val, ego.val[start:end])"]),
  -- Slices.step (.clone): mk n n; element-wise stores
  ("list.copy", ["list := &list{val: make([]field, ego.Ego().Count())}", "list.val[i] = parseVal(value.copy())"]),
  -- Slices.step (.newList): alloc 0 0, then Add
  ("NewList", ["ego := &list{val: []field{}}"]),
  -- Slices.step (.newListFrom): alloc 0 len, then Add
  ("NewListFrom", ["ego = &list{val: make([]field, 0, cap)}"]),
  -- Slices.step (.newListOf): alloc 0 count, then count appends
  ("NewListOf", ["ego := &list{val: make([]field, 0, count)}", "ego.val = append(ego.val, elem)"])
]

/-- the source still manipulates list storage by exactly the statements `Model/Slices` mirrors -/
theorem storage_sites_expected : Generated.storageSites = expectedStorageSites := by decide

end Anytype
