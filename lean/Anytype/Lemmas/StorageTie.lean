/-
The regenerated part of the tie between `Model/Slices` and the source: the statements of `list_impl.go` that decide where
the elements of a list live, as `vextract` finds them in the current source (`Generated/Storage.lean`), are the statements the
operations of `Slices.step` were written from. Each line below names the model operation that mirrors it. The statements are in
the extractor's normal form (harness/cmd/vextract/storage.go, rule S2): the receiver is `r`, the other variables of a statement are
numbered in order of appearance, a temporary used once is folded into its use, `:=` and `var … =` read `=`, the capacity argument of
a three-argument `make` reads `_`, a repeated statement is listed once.

(The method translators read `[]field` as a list without capacity; this table is about exactly what that reading leaves out.
A change of any of these statements — `Concat` appending to the receiver's slice, `SubList` re-slicing instead of copying,
`Clear` keeping the array, a struct copy `*ego = …` — makes `storage_sites_expected` fail; the `slices` stratum then looks for
the input on which contents differ.)
-/
import Anytype.Generated.Storage
import Anytype.Model.Slices
namespace Anytype

def expectedStorageSites : List (String × List String) := [
  -- Slices.push / pushAll
  ("list.Add", ["r.val = append(r.val, parseVal(v1))"]),
  -- Slices.step (.clear): a new empty array
  ("list.Clear", ["r.val = []field{}"]),
  -- Slices.step (.concat): mk 0 (n+m); append; append — a new array, never the receiver's (val := make(…) is folded in: S2b)
  ("list.Concat", ["v1 = &list{val: append(append(make([]field, 0, _), r.val...), v2...)}"]),
  -- Slices.deleteAt
  ("list.Delete", ["r.val = append(r.val[:v1], r.val[v1+1:]...)"]),
  -- Slices.step (.insert): append over the prefix header ⟨arr, i+1⟩, then writeAt i
  ("list.Insert", ["r.val = append(r.val[:v1+1], r.val[v1:]...)", "r.val[v1] = v2"]),
  -- Slices.step (.replace): writeAt
  ("list.Replace", ["r.val[v1] = parseVal(v2)"]),
  -- Slices.swap / reverseLoop
  ("list.Reverse", ["r.val[v1], r.val[v2] = r.val[v2], r.val[v1]"]),
  -- Slices.step (.sort): the slice of a temporary list made by NewListFrom (three arms, one statement: S2c)
  ("list.Sort", ["r.val = NewListFrom(v1).(*list).val"]),
  -- Slices.step (.subList): mk (e-s) (e-s); writeAt 0 (copy)
  ("list.SubList", ["v1 = &list{val: make([]field, v2-v3)}", "copy(v1.val, r.val[v2:v3])"]),
  -- Slices.step (.clone): mk n n; element-wise stores
  ("list.copy", ["v1 = &list{val: make([]field, r.Ego().Count())}", "v1.val[v2] = parseVal(v3.copy())"]),
  -- Slices.step (.newList): alloc 0 0, then Add
  ("NewList", ["v1 = &list{val: []field{}}"]),
  -- Slices.step (.newListFrom): alloc 0 len, then Add
  ("NewListFrom", ["v1 = &list{val: make([]field, 0, _)}"]),
  -- Slices.step (.newListOf): alloc 0 count, then count appends
  ("NewListOf", ["v1 = &list{val: make([]field, 0, _)}", "v1.val = append(v1.val, v2)"])
]

/-- the source still manipulates list storage by exactly the statements `Model/Slices` mirrors -/
theorem storage_sites_expected : Generated.storageSites = expectedStorageSites := by decide

end Anytype
