/-
The definitions that `vextract` (strgen.go) translates from the Go source of `unquoteJSON` (with its
closure `hex4`), `quoteJSON` and `ParseFile` (`Anytype/Generated/StrGen.lean`, regenerated on every
run) are equal to the hand-written model (`Model/Strconv.lean`, `Model/Parser.lean`) for all
arguments.

The scripts are generic in the generated side: the case analysis follows the MODEL (`fun_induction`
/ `fun_cases` on the hand-written function, which never changes), the generated definition is
unfolded once and evaluated along the path by `simp_all`; whatever tests remain are split and the
leaves are compared (`rfl`, the induction hypothesis, `omega`, `simp_all`).  Nothing mentions the
shape of the generated decision trees, so the proofs survive regeneration and shape-preserving
edits of the Go source, and fail when the translated behaviour differs from the model.
-/
import Anytype.Generated.StrGen
namespace Anytype.SG

open Anytype Anytype.Generated.SG

/-! ### arithmetic bridges between the Go operators and the model's arithmetic -/

theorem char_le_iff (a b : Char) : a ≤ b ↔ a.toNat ≤ b.toNat := by
  rw [Char.le_def, UInt32.le_iff_toNat_le]; rfl

/-- `r<<4 | d` is `r*16 + d` for a hexadecimal digit -/
theorem shl4_or (r d : Nat) (h : d < 16) : r <<< 4 ||| d = r * 16 + d := by
  rw [← Nat.shiftLeft_add_eq_or_of_lt (i := 4) (by simpa using h), Nat.shiftLeft_eq]

/-- `hi<<10 | lo` is `hi*1024 + lo` for a ten-bit `lo` -/
theorem shl4_or' (r d : Nat) (h : d < 16) : d ||| r <<< 4 = r * 16 + d := by
  rw [Nat.or_comm, shl4_or r d h]

theorem shl10_or' (a b : Nat) (h : b < 1024) : b ||| a <<< 10 = a * 1024 + b := by
  rw [Nat.or_comm]
  rw [← Nat.shiftLeft_add_eq_or_of_lt (i := 10) (by simpa using h), Nat.shiftLeft_eq]

theorem shl10_or (a b : Nat) (h : b < 1024) : a <<< 10 ||| b = a * 1024 + b := by
  rw [← Nat.shiftLeft_add_eq_or_of_lt (i := 10) (by simpa using h), Nat.shiftLeft_eq]

theorem shr4 (n : Nat) : n >>> 4 = n / 16 := by simp [Nat.shiftRight_eq_div_pow]
theorem and15 (n : Nat) : n &&& 0xf = n % 16 := Nat.and_two_pow_sub_one_eq_mod n 4

/-- the constant `hex` of `quoteJSON`, indexed below its length -/
theorem hexTable (n : Nat) (h : n < 16) :
    ['0', '1', '2', '3', '4', '5', '6', '7', '8', '9', 'a', 'b', 'c', 'd', 'e', 'f'].getD n '\x00'
      = hexDigit n := by
  revert n; decide

theorem charOfNat_fffd : charOfNat 0xFFFD = replacementChar := by decide

/-- closes a leaf: syntactic agreement, the induction hypothesis, arithmetic -/
local macro "gen_fin" : tactic =>
  `(tactic| first
    | with_reducible rfl
    | with_reducible assumption
    | omega
    | (simp_all; done)
    | (simp (disch := omega) only [shl10_or, shl10_or', shl4_or, shl4_or']
       first | with_reducible assumption | (simp_all; done) | (congr 2; omega))
    | (exfalso; omega))

/-! ### `hex4` (the closure of `unquoteJSON`) -/

-- (the lemmas for flipped comparisons / a commuted `|` are unused for the present source)
set_option linter.unusedSimpArgs false in
/-- one iteration of the loop of `hex4` is one `hexCharVal` of the model -/
theorem hex4_step (n : Nat) (c : Char) (t : Str) (r : Nat) :
    unquoteJSON_hex4_loop1Gen (n + 1) (c :: t) r =
      match hexCharVal c with
      | some d => unquoteJSON_hex4_loop1Gen n t (r * 16 + d)
      | none => none := by
  rw [unquoteJSON_hex4_loop1Gen]
  fun_cases hexCharVal c
  all_goals simp only [char_le_iff, ge_iff_le, Char.reduceToNat] at *
  all_goals repeat' split
  all_goals first
    | rfl
    | (exfalso; omega)
    | (congr 1; (simp (disch := omega) only [shl4_or, shl4_or']) <;> omega)

/-- the model's `hex4` returns the value the closure computes and the suffix behind four characters
(the Go caller advances the index by 6 = backslash, `u`, four digits) -/
theorem hex4_spec (s : Str) :
    hex4 s = (unquoteJSON_hex4Gen s).map (fun r => (r, s.drop 4)) := by
  unfold unquoteJSON_hex4Gen hex4
  match s with
  | a :: b :: c :: d :: rest =>
    simp only [hex4_step]
    cases hexCharVal a <;> cases hexCharVal b <;> cases hexCharVal c <;> cases hexCharVal d <;>
      simp +arith [unquoteJSON_hex4_loop1Gen]
  | [] | [_] | [_, _] | [_, _, _] => simp

theorem hex4_some (s : Str) (r : Nat) (rest : Str) :
    hex4 s = some (r, rest) ↔ unquoteJSON_hex4Gen s = some r ∧ s.drop 4 = rest := by
  rw [hex4_spec]; cases unquoteJSON_hex4Gen s <;> simp

theorem hex4_none (s : Str) : hex4 s = none ↔ unquoteJSON_hex4Gen s = none := by
  rw [hex4_spec]; cases unquoteJSON_hex4Gen s <;> simp

/-- the closure alone, against the model: value and consumed length -/
theorem unquoteJSON_hex4Gen_eq (s : Str) :
    unquoteJSON_hex4Gen s = (hex4 s).map Prod.fst := by
  rw [hex4_spec]; cases unquoteJSON_hex4Gen s <;> simp

/-! ### `unquoteJSON` -/

/-- one path of the model: evaluate the generated loop along it, split what remains -/
local macro "gen_leaf" : tactic =>
  `(tactic| first
    | (simp_all [unquoteJSON_loop1Gen, hex4_some, hex4_none, charOfNat_fffd]; done)
    | (simp_all [unquoteJSON_loop1Gen, hex4_some, hex4_none, charOfNat_fffd]
       repeat' (first | split | intro (_ : _))
       all_goals gen_fin))

theorem unquoteJSON_loop1Gen_eq (fuel : Nat) (s acc : Str) :
    unquoteJSON_loop1Gen fuel s acc = unquoteAux fuel s acc := by
  fun_induction unquoteAux fuel s acc
  -- the two cases of the model's `pair` (a low surrogate escape behind a high one, or not):
  -- flatten the hypothesis about `pair` first (model side only)
  case case12 pair _ _ hp ih =>
    simp only [pair] at hp
    repeat' split at hp
    all_goals gen_leaf
  case case13 pair hp ih =>
    simp only [pair] at hp
    repeat' split at hp
    all_goals gen_leaf
  all_goals gen_leaf

theorem unquoteJSONGen_eq (s : Str) : unquoteJSONGen s = unquoteJSON s := by
  simp only [unquoteJSONGen, unquoteJSON, unquoteJSON_loop1Gen_eq]

/-! ### `quoteJSON`

The model is `'"' :: s.flatMap escChar ++ ['"']`; the generated loop carries the text written so far.
(The Go loop runs over bytes, the model over characters: rule S2 of strgen.go.) -/

theorem quoteJSON_loop1Gen_eq (s : Str) :
    ∀ acc, quoteJSON_loop1Gen s acc = acc ++ quoteBody s ++ ['"'] := by
  induction s with
  | nil => intro acc; simp [quoteJSON_loop1Gen, quoteBody]
  | cons c t ih =>
    intro acc
    rw [quoteJSON_loop1Gen]
    simp only [ih, quoteBody, List.flatMap_cons, shr4, and15]
    fun_cases escChar c
    all_goals (try simp (disch := omega) only [hexTable])
    all_goals first
      | (simp_all; done)
      | (simp_all; intros; omega)
      | (simp_all
         repeat' (first | split | intro (_ : _))
         all_goals gen_fin)

theorem quoteJSONGen_eq (s : Str) : quoteJSONGen s = quoteJSON s := by
  simp [quoteJSONGen, quoteJSON, quoteJSON_loop1Gen_eq]

/-! ### `ParseFile` -/

theorem parseFileGen_eq (fs : String → Option (List UInt8)) (path : String) :
    parseFileGen fs path = parseFile fs path := by
  unfold parseFileGen parseFile
  first
    | rfl
    | (repeat' split) <;> first | rfl | (simp_all; done)

end Anytype.SG

#print axioms Anytype.SG.unquoteJSON_hex4Gen_eq
#print axioms Anytype.SG.unquoteJSON_loop1Gen_eq
#print axioms Anytype.SG.unquoteJSONGen_eq
#print axioms Anytype.SG.quoteJSON_loop1Gen_eq
#print axioms Anytype.SG.quoteJSONGen_eq
#print axioms Anytype.SG.parseFileGen_eq
