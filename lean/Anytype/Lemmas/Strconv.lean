/-
Lemmas about the text functions: UTF-8 encode/decode, quoteJSON/unquoteJSON, Itoa/ParseInt.
-/
import Anytype.Lemmas.TreeWF
namespace Anytype

/-! ### characters -/

theorem char_le_iff (a b : Char) : a ≤ b ↔ a.toNat ≤ b.toNat := by
  rw [Char.le_def, UInt32.le_iff_toNat_le]; rfl

theorem char_lt_iff (a b : Char) : a < b ↔ a.toNat < b.toNat := by
  rw [Char.lt_def, UInt32.lt_iff_toNat_lt]; rfl

theorem char_eq_iff (a b : Char) : a = b ↔ a.toNat = b.toNat := by
  constructor
  · intro h; rw [h]
  · intro h; exact Char.toNat_inj.mp h

theorem ne_of_toNat_ne {c d : Char} (h : c.toNat ≠ d.toNat) : c ≠ d := by
  intro e; exact h (by rw [e])

/-! ### UTF-8 -/

theorem char_valid (c : Char) : c.toNat < 0xD800 ∨ (0xDFFF < c.toNat ∧ c.toNat < 0x110000) := by
  have := c.valid
  simp [UInt32.isValidChar, Nat.isValidChar] at this
  exact this

theorem mkChar_of_eq (c : Char) (n : Nat) (h : n = c.toNat) : mkChar n = some c := by
  subst h
  have := char_valid c
  simp [mkChar, Nat.isValidChar]
  omega

theorem decodeOne_1 (b0 : UInt8) (r : List UInt8) (h0 : b0.toNat < 0x80) :
    decodeOne b0 r = (mkChar b0.toNat, 0) := by
  have : b0 < 0x80 := by simp [UInt8.lt_iff_toNat_lt]; omega
  simp [decodeOne, this]

theorem decodeOne_2 (b0 b1 : UInt8) (r : List UInt8)
    (h0 : 0xC2 ≤ b0.toNat ∧ b0.toNat ≤ 0xDF) (h1 : 0x80 ≤ b1.toNat ∧ b1.toNat ≤ 0xBF) :
    decodeOne b0 (b1 :: r) = (mkChar ((b0.toNat - 0xC0) * 64 + (b1.toNat - 0x80)), 1) := by
  have a : ¬ b0 < 0x80 := by simp [UInt8.lt_iff_toNat_lt]; omega
  have b : (0xC2 ≤ b0 && b0 ≤ 0xDF) = true := by simp [UInt8.le_iff_toNat_le]; omega
  have c : isCont b1 = true := by simp [isCont, UInt8.le_iff_toNat_le]; omega
  simp [decodeOne, a, b, c]

theorem decodeOne_3 (b0 b1 b2 : UInt8) (r : List UInt8)
    (h0 : 0xE0 ≤ b0.toNat ∧ b0.toNat ≤ 0xEF) (h1 : 0x80 ≤ b1.toNat ∧ b1.toNat ≤ 0xBF)
    (h2 : 0x80 ≤ b2.toNat ∧ b2.toNat ≤ 0xBF)
    (hlo : b0.toNat = 0xE0 → 0xA0 ≤ b1.toNat) (hhi : b0.toNat = 0xED → b1.toNat ≤ 0x9F) :
    decodeOne b0 (b1 :: b2 :: r) =
      (mkChar ((b0.toNat - 0xE0) * 4096 + (b1.toNat - 0x80) * 64 + (b2.toNat - 0x80)), 2) := by
  have a : ¬ b0 < 0x80 := by simp [UInt8.lt_iff_toNat_lt]; omega
  have b : (0xC2 ≤ b0 && b0 ≤ 0xDF) = false := by simp [UInt8.le_iff_toNat_le]; omega
  have b' : (0xE0 ≤ b0 && b0 ≤ 0xEF) = true := by simp [UInt8.le_iff_toNat_le]; omega
  have c : isCont b2 = true := by simp [isCont, UInt8.le_iff_toNat_le]; omega
  have d : ((if b0 == 0xE0 then (0xA0 : UInt8) else 0x80) ≤ b1) := by
    split
    · rename_i h; simp at h; subst h; simp [UInt8.le_iff_toNat_le]; exact hlo rfl
    · simp [UInt8.le_iff_toNat_le]; omega
  have e : (b1 ≤ (if b0 == 0xED then (0x9F : UInt8) else 0xBF)) := by
    split
    · rename_i h; simp at h; subst h; simp [UInt8.le_iff_toNat_le]; exact hhi rfl
    · simp [UInt8.le_iff_toNat_le]; omega
  simp [decodeOne, a, b, b', c]
  exact ⟨by simpa using d, by simpa using e⟩

theorem decodeOne_4 (b0 b1 b2 b3 : UInt8) (r : List UInt8)
    (h0 : 0xF0 ≤ b0.toNat ∧ b0.toNat ≤ 0xF4) (h1 : 0x80 ≤ b1.toNat ∧ b1.toNat ≤ 0xBF)
    (h2 : 0x80 ≤ b2.toNat ∧ b2.toNat ≤ 0xBF) (h3 : 0x80 ≤ b3.toNat ∧ b3.toNat ≤ 0xBF)
    (hlo : b0.toNat = 0xF0 → 0x90 ≤ b1.toNat) (hhi : b0.toNat = 0xF4 → b1.toNat ≤ 0x8F) :
    decodeOne b0 (b1 :: b2 :: b3 :: r) =
      (mkChar ((b0.toNat - 0xF0) * 262144 + (b1.toNat - 0x80) * 4096 + (b2.toNat - 0x80) * 64 + (b3.toNat - 0x80)), 3) := by
  have a : ¬ b0 < 0x80 := by simp [UInt8.lt_iff_toNat_lt]; omega
  have b : (0xC2 ≤ b0 && b0 ≤ 0xDF) = false := by simp [UInt8.le_iff_toNat_le]; omega
  have b' : (0xE0 ≤ b0 && b0 ≤ 0xEF) = false := by simp [UInt8.le_iff_toNat_le]; omega
  have b'' : (0xF0 ≤ b0 && b0 ≤ 0xF4) = true := by simp [UInt8.le_iff_toNat_le]; omega
  have c : isCont b2 = true := by simp [isCont, UInt8.le_iff_toNat_le]; omega
  have c' : isCont b3 = true := by simp [isCont, UInt8.le_iff_toNat_le]; omega
  have d : ((if b0 == 0xF0 then (0x90 : UInt8) else 0x80) ≤ b1) := by
    split
    · rename_i h; simp at h; subst h; simp [UInt8.le_iff_toNat_le]; exact hlo rfl
    · simp [UInt8.le_iff_toNat_le]; omega
  have e : (b1 ≤ (if b0 == 0xF4 then (0x8F : UInt8) else 0xBF)) := by
    split
    · rename_i h; simp at h; subst h; simp [UInt8.le_iff_toNat_le]; exact hhi rfl
    · simp [UInt8.le_iff_toNat_le]; omega
  simp [decodeOne, a, b, b', b'', c, c']
  exact ⟨by simpa using d, by simpa using e⟩

theorem toUInt8_toNat (n : Nat) (h : n < 256) : n.toUInt8.toNat = n := by
  simp [Nat.toUInt8]; omega

theorem decodeAll_encodeChar (c : Char) (rest : List UInt8) :
    decodeAll (encodeChar c ++ rest) = some c :: decodeAll rest := by
  have hv := char_valid c
  unfold encodeChar
  simp only []
  split
  · rename_i h
    have e0 := toUInt8_toNat c.toNat (by omega)
    simp only [List.cons_append, List.nil_append]
    rw [decodeAll, decodeOne_1 _ _ (by omega)]
    simp only [List.drop_zero, e0]
    rw [mkChar_of_eq c _ rfl]
  split
  · rename_i h0 h
    have e0 := toUInt8_toNat (0xC0 + c.toNat / 64) (by omega)
    have e1 := toUInt8_toNat (0x80 + c.toNat % 64) (by omega)
    simp only [List.cons_append, List.nil_append]
    rw [decodeAll, decodeOne_2 (0xC0 + c.toNat / 64).toUInt8 (0x80 + c.toNat % 64).toUInt8 rest (by omega) (by omega)]
    simp only [e0, e1, List.drop_succ_cons, List.drop_zero]
    rw [mkChar_of_eq c _ (by omega)]
  split
  · rename_i h0 h1 h
    have e0 := toUInt8_toNat (0xE0 + c.toNat / 4096) (by omega)
    have e1 := toUInt8_toNat (0x80 + c.toNat / 64 % 64) (by omega)
    have e2 := toUInt8_toNat (0x80 + c.toNat % 64) (by omega)
    simp only [List.cons_append, List.nil_append]
    rw [decodeAll, decodeOne_3 (0xE0 + c.toNat / 4096).toUInt8 (0x80 + c.toNat / 64 % 64).toUInt8
      (0x80 + c.toNat % 64).toUInt8 rest (by omega) (by omega) (by omega) (by omega) (by omega)]
    simp only [e0, e1, e2, List.drop_succ_cons, List.drop_zero]
    rw [mkChar_of_eq c _ (by omega)]
  · rename_i h0 h1 h
    have e0 := toUInt8_toNat (0xF0 + c.toNat / 262144) (by omega)
    have e1 := toUInt8_toNat (0x80 + c.toNat / 4096 % 64) (by omega)
    have e2 := toUInt8_toNat (0x80 + c.toNat / 64 % 64) (by omega)
    have e3 := toUInt8_toNat (0x80 + c.toNat % 64) (by omega)
    simp only [List.cons_append, List.nil_append]
    rw [decodeAll, decodeOne_4 (0xF0 + c.toNat / 262144).toUInt8 (0x80 + c.toNat / 4096 % 64).toUInt8
      (0x80 + c.toNat / 64 % 64).toUInt8 (0x80 + c.toNat % 64).toUInt8 rest
      (by omega) (by omega) (by omega) (by omega) (by omega) (by omega)]
    simp only [e0, e1, e2, e3, List.drop_succ_cons, List.drop_zero]
    rw [mkChar_of_eq c _ (by omega)]

theorem decodeAll_encode (s : Str) : decodeAll (encode s) = s.map some := by
  induction s with
  | nil => simp [encode, decodeAll]
  | cons c s ih =>
    have : encode (c :: s) = encodeChar c ++ encode s := by simp [encode]
    rw [this, decodeAll_encodeChar, ih]; rfl

/-! ### quoteJSON / unquoteJSON -/

theorem hexCharVal_hexDigit : ∀ k, k < 16 → hexCharVal (hexDigit k) = some k := by decide

theorem hexDigit_ne : ∀ k, k < 16 → hexDigit k ≠ '"' ∧ hexDigit k ≠ '\\' ∧ hexDigit k ≠ '\n' := by decide

/-- the escape classes of `escChar` -/
theorem escChar_cases (c : Char) :
    (c = '"' ∧ escChar c = ['\\', '"']) ∨ (c = '\\' ∧ escChar c = ['\\', '\\']) ∨
    (c = '\x08' ∧ escChar c = ['\\', 'b']) ∨ (c = '\x0c' ∧ escChar c = ['\\', 'f']) ∨
    (c = '\n' ∧ escChar c = ['\\', 'n']) ∨ (c = '\r' ∧ escChar c = ['\\', 'r']) ∨
    (c = '\t' ∧ escChar c = ['\\', 't']) ∨
    (c.toNat < 0x20 ∧ escChar c = ['\\', 'u', '0', '0', hexDigit (c.toNat / 16), hexDigit (c.toNat % 16)]) ∨
    (0x20 ≤ c.toNat ∧ c ≠ '"' ∧ c ≠ '\\' ∧ escChar c = [c]) := by
  unfold escChar
  by_cases h1 : c = '"'; · subst h1; simp
  by_cases h2 : c = '\\'; · subst h2; simp
  by_cases h3 : c = '\x08'; · subst h3; simp
  by_cases h4 : c = '\x0c'; · subst h4; simp
  by_cases h5 : c = '\n'; · subst h5; simp
  by_cases h6 : c = '\r'; · subst h6; simp
  by_cases h7 : c = '\t'; · subst h7; simp
  by_cases h8 : c.toNat < 0x20
  · simp [h1, h2, h3, h4, h5, h6, h7, h8]
  · simp [h1, h2, h3, h4, h5, h6, h7, h8]; omega

theorem charOfNat_toNat (c : Char) : charOfNat c.toNat = c := by
  have := char_valid c
  simp [charOfNat, Nat.isValidChar]
  omega

theorem hex4_u00 (c : Char) (h : c.toNat < 0x20) (rest : Str) :
    hex4 ('0' :: '0' :: hexDigit (c.toNat / 16) :: hexDigit (c.toNat % 16) :: rest) = some (c.toNat, rest) := by
  have a := hexCharVal_hexDigit (c.toNat / 16) (by omega)
  have b := hexCharVal_hexDigit (c.toNat % 16) (by omega)
  have z : hexCharVal '0' = some 0 := by decide
  simp only [hex4, a, b, z]
  simp; omega

theorem unquoteAux_escChar (c : Char) (f : Nat) (t acc : Str) :
    unquoteAux (f + 1) (escChar c ++ t) acc = unquoteAux f t (acc ++ [c]) := by
  rcases escChar_cases c with ⟨h, e⟩ | ⟨h, e⟩ | ⟨h, e⟩ | ⟨h, e⟩ | ⟨h, e⟩ | ⟨h, e⟩ | ⟨h, e⟩ | ⟨h, e⟩ | ⟨h, h1, h2, e⟩
  all_goals rw [e]
  all_goals try subst h
  all_goals try (simp [unquoteAux]; done)
  · simp only [List.cons_append, List.nil_append, unquoteAux]
    simp [hex4_u00 c h, charOfNat_toNat]
    omega
  · simp [unquoteAux, h2]

theorem quoteBody_nil : quoteBody [] = [] := rfl
theorem quoteBody_cons (c : Char) (s : Str) : quoteBody (c :: s) = escChar c ++ quoteBody s := by
  simp [quoteBody]

theorem escChar_length_pos (c : Char) : 0 < (escChar c).length := by
  rcases escChar_cases c with ⟨_, e⟩ | ⟨_, e⟩ | ⟨_, e⟩ | ⟨_, e⟩ | ⟨_, e⟩ | ⟨_, e⟩ | ⟨_, e⟩ | ⟨_, e⟩ | ⟨_, _, _, e⟩
  all_goals rw [e]; simp

theorem quoteBody_length (s : Str) : s.length ≤ (quoteBody s).length := by
  induction s with
  | nil => simp [quoteBody]
  | cons c s ih =>
    rw [quoteBody_cons, List.length_append, List.length_cons]
    have := escChar_length_pos c
    omega

theorem unquoteAux_quoteBody (s : Str) : ∀ (f : Nat) (acc : Str), s.length < f →
    unquoteAux f (quoteBody s) acc = some (acc ++ s) := by
  induction s with
  | nil =>
    intro f acc h
    cases f with
    | zero => omega
    | succ f => simp [quoteBody, unquoteAux]
  | cons c s ih =>
    intro f acc h
    cases f with
    | zero => omega
    | succ f =>
      rw [quoteBody_cons, unquoteAux_escChar, ih f _ (by simpa using h)]
      simp

/-- `unquoteJSON` undoes `quoteJSON` on every string -/
theorem unquoteJSON_quoteBody (s : Str) : unquoteJSON (quoteBody s) = s := by
  unfold unquoteJSON
  rw [unquoteAux_quoteBody s _ [] (by have := quoteBody_length s; omega)]
  simp

/-! ### Itoa / ParseInt -/
theorem isDig_iff (c : Char) : ('0' ≤ c ∧ c ≤ '9') ↔ 48 ≤ c.toNat ∧ c.toNat ≤ 57 := by
  simp [char_le_iff]

theorem mem_toDigits_dig {n : Nat} {c : Char} (h : c ∈ Nat.toDigits 10 n) : 48 ≤ c.toNat ∧ c.toNat ≤ 57 := by
  have := Nat.isDigit_of_mem_toDigits (by decide) (by decide) h
  simpa [Char.isDigit, UInt32.le_iff_toNat_le] using this

theorem digitVal_dig (c : Char) (h : 48 ≤ c.toNat ∧ c.toNat ≤ 57) : digitVal c = c.toNat - 48 := by
  simp [digitVal, char_le_iff, h]

theorem readDigits_snoc (base : Nat) (s : Str) (c : Char) (m : Nat) :
    readDigits base (s ++ [c]) m =
      match readDigits base s m with
      | none => none
      | some r => if c == '_' then some r else if digitVal c ≥ base then none else some (r * base + digitVal c) := by
  induction s generalizing m with
  | nil => simp [readDigits]
  | cons d s ih =>
    simp only [List.cons_append, readDigits]
    split
    · exact ih m
    · split
      · rfl
      · exact ih _

theorem readDigits_toDigits (n : Nat) : readDigits 10 (Nat.toDigits 10 n) 0 = some n := by
  induction n using Nat.strongRecOn with
  | _ n ih =>
    by_cases h : n < 10
    · rw [Nat.toDigits_of_lt_base h]
      clear ih; revert n; decide
    · rw [Nat.toDigits_of_base_le (by decide) (by omega), readDigits_snoc, ih (n / 10) (by omega)]
      have hd : ∀ k, k < 10 → (Nat.digitChar k == '_') = false ∧ digitVal (Nat.digitChar k) = k := by decide
      have := hd (n % 10) (by omega)
      simp [this]
      omega

theorem toDigits_head (n : Nat) (h : 0 < n) : ∃ c t, Nat.toDigits 10 n = c :: t ∧ c ≠ '0' ∧ 48 ≤ c.toNat ∧ c.toNat ≤ 57 := by
  induction n using Nat.strongRecOn with
  | _ n ih =>
    by_cases h10 : n < 10
    · rw [Nat.toDigits_of_lt_base h10]
      refine ⟨_, [], rfl, ?_⟩
      have : ∀ n, n < 10 → 0 < n → n.digitChar ≠ '0' ∧ 48 ≤ n.digitChar.toNat ∧ n.digitChar.toNat ≤ 57 := by decide
      exact this n h10 h
    · rw [Nat.toDigits_of_base_le (by decide) (by omega)]
      obtain ⟨c, t, e, hc⟩ := ih (n / 10) (by omega) (by omega)
      exact ⟨c, t ++ [Nat.digitChar (n % 10)], by rw [e]; rfl, hc⟩

theorem parseUintBase0_toDigits (n : Nat) : parseUintBase0 (Nat.toDigits 10 n) = some n := by
  by_cases h : n = 0
  · subst h; decide
  · obtain ⟨c, t, e, hc, _⟩ := toDigits_head n (by omega)
    have := readDigits_toDigits n
    rw [e] at this ⊢
    unfold parseUintBase0
    split
    · contradiction
    · rename_i h1; simp at h1; exact absurd h1.1 hc
    · exact this

theorem contains_us_toDigits (n : Nat) : (Nat.toDigits 10 n).contains '_' = false := by
  simp

theorem parseIntBase0_itoa (i : Int) (h : InRange i) : parseIntBase0 (itoa i) = some i := by
  unfold InRange at h
  unfold itoa
  split
  · rename_i hneg
    unfold parseIntBase0
    simp only [parseUintBase0_toDigits, contains_us_toDigits]
    simp
    omega
  · rename_i hneg
    obtain ⟨c, t, e, hc⟩ : ∃ c t, Nat.toDigits 10 i.toNat = c :: t ∧ 48 ≤ c.toNat ∧ c.toNat ≤ 57 := by
      by_cases h0 : i.toNat = 0
      · rw [h0]; exact ⟨'0', [], rfl, by decide⟩
      · obtain ⟨c, t, e, _, hc⟩ := toDigits_head i.toNat (by omega)
        exact ⟨c, t, e, hc⟩
    have hp := parseUintBase0_toDigits i.toNat
    have hu := contains_us_toDigits i.toNat
    rw [e] at hp hu ⊢
    have c1 : c ≠ '+' := by intro h; subst h; revert hc; decide
    have c2 : c ≠ '-' := by intro h; subst h; revert hc; decide
    unfold parseIntBase0
    split
    · contradiction
    · split
      rename_i neg body hm
      have : neg = false ∧ body = c :: t := by
        split at hm
        · rename_i h1; simp at h1; exact absurd h1.1 c1
        · rename_i h1; simp at h1; exact absurd h1.1 c2
        · simp at hm; exact ⟨hm.1, hm.2.symm⟩
      obtain ⟨rfl, rfl⟩ := this
      simp only [hp, hu]
      simp
      omega

end Anytype
