/-
Lemmas about the strict RFC 8259 decoder (`Spec/Json.lean`) on serialised texts.
-/
import Anytype.Lemmas.Strconv
namespace Anytype
namespace Strict

/-! ### strings -/

theorem stringBody_escChar (c : Char) (f : Nat) (t acc : Str) :
    stringBody (f + 1) (escChar c ++ t) acc false = stringBody f t (acc ++ [c]) false := by
  rcases escChar_cases c with ⟨h, e⟩ | ⟨h, e⟩ | ⟨h, e⟩ | ⟨h, e⟩ | ⟨h, e⟩ | ⟨h, e⟩ | ⟨h, e⟩ | ⟨h, e⟩ | ⟨h, h1, h2, e⟩
  all_goals rw [e]
  all_goals try subst h
  all_goals try (simp [stringBody]; done)
  · simp only [List.cons_append, List.nil_append, stringBody]
    simp [hex4_u00 c h, charOfNat_toNat]
    rw [if_neg (by omega), if_neg (by omega)]
  · simp [stringBody, h1, h2]
    omega

theorem stringBody_quoteBody (s : Str) : ∀ (f : Nat) (acc rest : Str), s.length < f →
    stringBody f (quoteBody s ++ '"' :: rest) acc false = some (some (acc ++ s), rest) := by
  induction s with
  | nil =>
    intro f acc rest h
    cases f with
    | zero => omega
    | succ f => simp [quoteBody, stringBody]
  | cons c s ih =>
    intro f acc rest h
    cases f with
    | zero => omega
    | succ f =>
      rw [quoteBody_cons, List.append_assoc, stringBody_escChar, ih f _ _ (by simpa using h)]
      simp

/-! ### numbers -/

/-- the text after a number does not continue the number -/
def NumStop (rest : Str) : Prop :=
  ∀ c t, rest = c :: t → F64.isDigit c = false ∧ c ≠ '.' ∧ c ≠ 'e' ∧ c ≠ 'E' ∧ c ≠ '+' ∧ c ≠ '-'

def signSplit (s : Str) : Bool × Str := match s with | '-' :: t => (true, t) | _ => (false, s)

def fracSplit (s2 : Str) : Str × Str × Bool :=
  match s2 with
  | '.' :: t => let (f, r) := takeDigits t; (f, r, true)
  | _ => ([], s2, false)

def expSplit (s3 : Str) : Option (Option Int × Str) :=
  match s3 with
  | c :: t =>
    if c == 'e' || c == 'E' then
      let (esign, t') : Int × Str := match t with | '+' :: u => (1, u) | '-' :: u => (-1, u) | _ => (1, t)
      let (ed, r) := takeDigits t'
      if ed.isEmpty then none
      else
        let sig := ed.dropWhile (· == '0')
        let ev := if sig.length > 6 then 1000000 else digitsVal sig
        some (some (esign * (ev : Int)), r)
    else some (none, s3)
  | [] => some (none, [])

def numFinal (neg : Bool) (ip fp : Str) (hasFrac : Bool) (ex : Option Int) (rest : Str) : Option (Option JVal × Str) :=
  let m := digitsVal (ip ++ fp)
  if !hasFrac && ex.isNone then
    let iv : Int := if neg then -(m : Int) else (m : Int)
    if -(2:Int)^63 ≤ iv ∧ iv < (2:Int)^63 then some (some (.int iv), rest)
    else
      match F64.roundRat neg m 1 with
      | some f => some (some (.float f), rest)
      | none => some (none, rest)
  else
    let e10 : Int := ex.getD 0 - (fp.length : Int)
    if m == 0 then some (some (.float (F64.withSign neg F64.posZero)), rest)
    else
      let nd : Int := F64.decLen m
      if e10 + nd > 400 then some (none, rest)
      else if e10 + nd < -400 then some (some (.float (F64.withSign neg F64.posZero)), rest)
      else
        let (n, d) := if e10 ≥ 0 then (m * 10 ^ e10.toNat, 1) else (m, 10 ^ (-e10).toNat)
        match F64.roundRat neg n d with
        | some f => some (some (.float f), rest)
        | none => some (none, rest)

def number' (s : Str) : Option (Option JVal × Str) :=
  let p := signSplit s
  let q := takeDigits p.2
  match q.1 with
  | [] => none
  | d0 :: more =>
    if d0 == '0' && !more.isEmpty then none
    else
      let fr := fracSplit q.2
      if fr.2.2 && fr.1.isEmpty then none
      else
        match expSplit fr.2.1 with
        | none => none
        | some (ex, rest) => numFinal p.1 q.1 fr.1 fr.2.2 ex rest

theorem number_eq (s : Str) : number s = number' s := by
  rfl

def app (rest : Str) {α : Type} (p : α × Str) : α × Str := (p.1, p.2 ++ rest)

theorem signSplit_append (s rest : Str) (hs : s ≠ []) :
    signSplit (s ++ rest) = app rest (signSplit s) := by
  cases s with
  | nil => contradiction
  | cons c t =>
    by_cases h : c = '-'
    · subst h; rfl
    · have a : signSplit (c :: t) = (false, c :: t) := by
        unfold signSplit; split
        · rename_i h1; simp at h1; exact absurd h1.1 h
        · rfl
      have b : signSplit (c :: t ++ rest) = (false, c :: t ++ rest) := by
        unfold signSplit; split
        · rename_i h1; simp at h1; exact absurd h1.1 h
        · rfl
      rw [a, b]; rfl

theorem takeDigits_append (s rest : Str) (hr : NumStop rest) :
    takeDigits (s ++ rest) = app rest (takeDigits s) := by
  induction s with
  | nil =>
    cases rest with
    | nil => rfl
    | cons c t => simp [takeDigits, (hr c t rfl).1, app]
  | cons c s ih =>
    simp only [List.cons_append, takeDigits]
    split
    · rw [ih]; rfl
    · rfl

theorem fracSplit_append (s rest : Str) (hr : NumStop rest) :
    fracSplit (s ++ rest) = ((fracSplit s).1, (fracSplit s).2.1 ++ rest, (fracSplit s).2.2) := by
  cases s with
  | nil =>
    cases rest with
    | nil => rfl
    | cons c t =>
      have := (hr c t rfl).2.1
      simp only [List.nil_append]
      unfold fracSplit
      split
      · rename_i h1; simp at h1; exact absurd h1.1 this
      · rfl
  | cons c t =>
    by_cases h : c = '.'
    · subst h
      simp only [List.cons_append, fracSplit, takeDigits_append t rest hr]
      rfl
    · have a : ∀ u, fracSplit (c :: u) = ([], c :: u, false) := by
        intro u
        unfold fracSplit; split
        · rename_i h1; simp at h1; exact absurd h1.1 h
        · rfl
      rw [List.cons_append, a, a]; rfl


def expSign (t : Str) : Int × Str := match t with | '+' :: u => (1, u) | '-' :: u => (-1, u) | _ => (1, t)

theorem expSign_append (t rest : Str) (hr : NumStop rest) : expSign (t ++ rest) = app rest (expSign t) := by
  cases t with
  | nil =>
    cases rest with
    | nil => rfl
    | cons c u =>
      have h := hr c u rfl
      simp only [List.nil_append]
      unfold expSign
      split
      · rename_i h1; simp at h1; exact absurd h1.1 h.2.2.2.2.1
      · rename_i h1; simp at h1; exact absurd h1.1 h.2.2.2.2.2
      · rfl
  | cons c u =>
    by_cases h1 : c = '+'
    · subst h1; rfl
    by_cases h2 : c = '-'
    · subst h2; rfl
    have a : ∀ w, expSign (c :: w) = (1, c :: w) := by
      intro w; unfold expSign; split
      · rename_i h; simp at h; exact absurd h.1 h1
      · rename_i h; simp at h; exact absurd h.1 h2
      · rfl
    rw [List.cons_append, a, a]; rfl

theorem expSplit_eq (c : Char) (t : Str) (h : (c == 'e' || c == 'E') = true) :
    expSplit (c :: t) =
      (let p := expSign t
       let q := takeDigits p.2
       if q.1.isEmpty then none
       else some (some (p.1 * ((if (q.1.dropWhile (· == '0')).length > 6 then 1000000 else digitsVal (q.1.dropWhile (· == '0')) : Nat) : Int)), q.2)) := by
  simp only [expSplit, h, if_true]
  rfl

theorem expSplit_append (s rest : Str) (hr : NumStop rest) :
    expSplit (s ++ rest) = (expSplit s).map (app rest) := by
  cases s with
  | nil =>
    cases rest with
    | nil => rfl
    | cons c t =>
      have h := hr c t rfl
      simp [expSplit, h, app]
  | cons c t =>
    by_cases h : (c == 'e' || c == 'E') = true
    · rw [List.cons_append, expSplit_eq _ _ h, expSplit_eq _ _ h]
      simp only [expSign_append t rest hr, app, takeDigits_append _ rest hr]
      split <;> simp [app]
    · simp [expSplit, h, app]

theorem numFinal_append (neg : Bool) (ip fp : Str) (hasFrac : Bool) (ex : Option Int) (r rest : Str) :
    numFinal neg ip fp hasFrac ex (r ++ rest) = (numFinal neg ip fp hasFrac ex r).map (app rest) := by
  unfold numFinal
  simp only []
  repeat' split
  all_goals simp [app]

theorem number'_append (s rest : Str) (hs : s ≠ []) (hr : NumStop rest) :
    number' (s ++ rest) = (number' s).map (app rest) := by
  unfold number'
  simp only [signSplit_append s rest hs, app, takeDigits_append _ rest hr]
  split
  · rfl
  · split
    · rfl
    · simp only [fracSplit_append _ rest hr]
      split
      · rfl
      · rw [expSplit_append _ rest hr]
        cases expSplit (fracSplit (takeDigits (signSplit s).2).2).2.1 with
        | none => rfl
        | some p => 
          obtain ⟨ex, r⟩ := p
          simp only [Option.map_some, app, numFinal_append]

theorem number_append (s rest : Str) (v : Option JVal) (h : number s = some (v, [])) (hr : NumStop rest) :
    number (s ++ rest) = some (v, rest) := by
  have hs : s ≠ [] := by
    intro h0; subst h0
    have : number [] = none := by decide
    rw [this] at h; cases h
  rw [number_eq, number'_append s rest hs hr, ← number_eq, h]
  rfl

theorem isDigit_of_dig (c : Char) (h : 48 ≤ c.toNat ∧ c.toNat ≤ 57) : F64.isDigit c = true := by
  simp [F64.isDigit, char_le_iff]; exact h

theorem takeDigits_all (s : Str) (h : ∀ c ∈ s, F64.isDigit c = true) : takeDigits s = (s, []) := by
  induction s with
  | nil => rfl
  | cons c s ih =>
    simp only [takeDigits, h c (by simp), if_true, ih (fun d hd => h d (by simp [hd]))]

theorem digitsVal_toDigits (n : Nat) : digitsVal (Nat.toDigits 10 n) = n := by
  induction n using Nat.strongRecOn with
  | _ n ih =>
    by_cases h : n < 10
    · rw [Nat.toDigits_of_lt_base h]
      have : ∀ n, n < 10 → digitsVal [Nat.digitChar n] = n := by decide
      exact this n h
    · rw [Nat.toDigits_of_base_le (by decide) (by omega)]
      unfold digitsVal at ih ⊢
      rw [List.foldl_append, ih (n / 10) (by omega)]
      have : ∀ k, k < 10 → (Nat.digitChar k).toNat - 48 = k := by decide
      simp [this (n % 10) (by omega)]
      omega

theorem number_toDigits (neg : Bool) (n : Nat)
    (hr : -(2:Int)^63 ≤ (if neg then -(n : Int) else (n : Int)) ∧ (if neg then -(n : Int) else (n : Int)) < (2:Int)^63) :
    number' ((if neg then ['-'] else []) ++ Nat.toDigits 10 n) =
      some (some (.int (if neg then -(n : Int) else (n : Int))), []) := by
  have hd : ∀ c ∈ Nat.toDigits 10 n, F64.isDigit c = true := fun c hc => isDigit_of_dig c (mem_toDigits_dig hc)
  have hs : signSplit ((if neg then ['-'] else []) ++ Nat.toDigits 10 n) = (neg, Nat.toDigits 10 n) := by
    cases neg
    · simp only [Bool.false_eq_true, if_false, List.nil_append]
      cases e : Nat.toDigits 10 n with
      | nil => rfl
      | cons c t =>
        have : c ≠ '-' := by
          intro h; subst h
          have := mem_toDigits_dig (n := n) (c := '-') (by rw [e]; simp)
          revert this; decide
        unfold signSplit; split
        · rename_i h1; simp at h1; exact absurd h1.1 this
        · rfl
    · rfl
  unfold number'
  simp only [hs, takeDigits_all _ hd]
  have hz : ∃ d0 more, Nat.toDigits 10 n = d0 :: more ∧ (d0 == '0' && !more.isEmpty) = false := by
    by_cases h0 : n = 0
    · subst h0; exact ⟨'0', [], rfl, rfl⟩
    · obtain ⟨c, t, e, hc, _⟩ := toDigits_head n (by omega)
      exact ⟨c, t, e, by simp [hc]⟩
  obtain ⟨d0, more, e, hz⟩ := hz
  have hv := digitsVal_toDigits n
  rw [e] at hv ⊢
  simp only [hz]
  simp [fracSplit, expSplit, numFinal, hv]
  intro h1
  exfalso
  cases neg <;> simp at hr h1 <;> omega

theorem number_itoa (i : Int) (h : InRange i) : number (itoa i) = some (some (.int i), []) := by
  rw [number_eq]
  unfold InRange at h
  unfold itoa
  split
  · rename_i hn
    have := number_toDigits true i.natAbs (by simp; omega)
    simp only [if_true, List.cons_append, List.nil_append] at this
    rw [this]; simp; omega
  · rename_i hn
    have := number_toDigits false i.toNat (by simp; omega)
    simp only [Bool.false_eq_true, if_false, List.nil_append] at this
    rw [this]; simp; omega

end Strict
end Anytype
