/-
The strict decoder on serialised value trees: `value fuel (ser v ++ rest) = .ok v rest`.
-/
import Anytype.Lemmas.Strict
import Anytype.Lemmas.SerChars
namespace Anytype
namespace Strict

/-- what may follow a value inside a serialised text -/
def Delim (rest : Str) : Prop := rest = [] ∨ ∃ c t, rest = c :: t ∧ (c = ',' ∨ c = ']' ∨ c = '}')

theorem Delim.numStop {rest : Str} (h : Delim rest) : NumStop rest := by
  intro c t e
  rcases h with h | ⟨c', t', e', h⟩
  · rw [h] at e; cases e
  · rw [e'] at e; cases e
    rcases h with rfl | rfl | rfl <;> decide

theorem skipWs_cons {c : Char} (t : Str) (h : isWs c = false) : skipWs (c :: t) = c :: t := by
  simp [skipWs, h]

theorem isWs_of_numChar {c : Char} (h : isNumChar c = true) : isWs c = false := by
  have := numChar_toNat h
  simp only [isWs, Bool.or_eq_false_iff, beq_eq_false_iff_ne]
  refine ⟨⟨⟨?_, ?_⟩, ?_⟩, ?_⟩ <;> apply ne_of_toNat_ne <;> simp <;> omega

theorem value_numLike (s rest : Str) (f : Nat) (hs : NumLike s) (v : JVal) (r : Str)
    (hn : number (s ++ rest) = some (some v, r)) :
    value (f + 1) (s ++ rest) = .ok v r := by
  obtain ⟨hne, hc⟩ := hs
  cases s with
  | nil => contradiction
  | cons c t =>
    have := numChar_toNat (hc c (by simp))
    have h1 : c ≠ '[' := by apply ne_of_toNat_ne; simp; omega
    have h2 : c ≠ '{' := by apply ne_of_toNat_ne; simp; omega
    have h3 : c ≠ '"' := by apply ne_of_toNat_ne; simp; omega
    have h4 : c ≠ 't' := by apply ne_of_toNat_ne; simp; omega
    have h5 : c ≠ 'f' := by apply ne_of_toNat_ne; simp; omega
    have h6 : c ≠ 'n' := by apply ne_of_toNat_ne; simp; omega
    rw [List.cons_append] at hn ⊢
    simp only [value, beq_iff_eq, h1, h2, h3, h4, h5, h6, if_false, hn]


theorem toList_null : "null".toList = ['n','u','l','l'] := by decide
theorem toList_true : "true".toList = ['t','r','u','e'] := by decide
theorem toList_false : "false".toList = ['f','a','l','s','e'] := by decide

theorem value_null (f : Nat) (rest : Str) : value (f + 1) (ser .null ++ rest) = .ok .null rest := by
  simp [ser, value, startsWith, toList_null]

theorem value_true (f : Nat) (rest : Str) : value (f + 1) (ser (.bool true) ++ rest) = .ok (.bool true) rest := by
  simp [ser, value, startsWith, toList_true]

theorem value_false (f : Nat) (rest : Str) : value (f + 1) (ser (.bool false) ++ rest) = .ok (.bool false) rest := by
  simp [ser, value, startsWith, toList_false]

theorem value_int (f : Nat) (rest : Str) (i : Int) (hi : InRange i) (hr : Delim rest) :
    value (f + 1) (ser (.int i) ++ rest) = .ok (.int i) rest := by
  simp only [ser]
  exact value_numLike _ _ _ (itoa_numLike i) _ _ (number_append _ _ _ (number_itoa i hi) hr.numStop)

theorem value_float (hf : FmtContract) (f : Nat) (rest : Str) (x : F64) (hx : x.isFinite = true) (hr : Delim rest) :
    value (f + 1) (ser (.float x) ++ rest) = .ok (.float x) rest := by
  simp only [ser]
  exact value_numLike _ _ _ (serF_numLike hf x hx) _ _ (number_append _ _ _ (hf.strict x hx) hr.numStop)

theorem value_str (f : Nat) (rest : Str) (s : Str) :
    value (f + 1) (ser (.str s) ++ rest) = .ok (.str s) rest := by
  simp only [ser, quoteJSON, List.cons_append, List.append_assoc, List.nil_append, value]
  rw [stringBody_quoteBody s _ [] rest (by have := quoteBody_length s; simp; omega)]
  simp


/-- a serialised value starts with a character that is neither whitespace nor a closing bracket -/
def GoodHead (s : Str) : Prop := ∃ c t, s = c :: t ∧ isWs c = false ∧ c ≠ ']' ∧ c ≠ '}'

theorem numLike_goodHead {s : Str} (h : NumLike s) : GoodHead s := by
  obtain ⟨hne, hc⟩ := h
  cases s with
  | nil => contradiction
  | cons c t =>
    have hn := hc c (by simp)
    have := numChar_toNat hn
    refine ⟨c, t, rfl, isWs_of_numChar hn, ?_, ?_⟩ <;> apply ne_of_toNat_ne <;> simp <;> omega

theorem ser_goodHead (hf : FmtContract) (v : JVal) (hw : v.WF) : GoodHead (ser v) := by
  cases v with
  | null => exact ⟨'n', _, rfl, by decide⟩
  | bool b => cases b <;> exact ⟨_, _, rfl, by decide⟩
  | int i => exact numLike_goodHead (itoa_numLike i)
  | float x => exact numLike_goodHead (serF_numLike hf x (by simpa [JVal.WF] using hw))
  | str s => exact ⟨'"', _, rfl, by decide⟩
  | list xs => exact ⟨'[', _, rfl, by decide⟩
  | obj kvs => exact ⟨'{', _, rfl, by decide⟩

theorem GoodHead.append {s : Str} (h : GoodHead s) (r : Str) : GoodHead (s ++ r) := by
  obtain ⟨c, t, e, h⟩ := h
  exact ⟨c, t ++ r, by rw [e]; rfl, h⟩

theorem GoodHead.skipWs {s : Str} (h : GoodHead s) : skipWs s = s := by
  obtain ⟨c, t, e, h, _⟩ := h
  rw [e, skipWs_cons _ h]

theorem serList_goodHead (hf : FmtContract) (x : JVal) (xs : List JVal) (hw : x.WF) :
    GoodHead (serList (x :: xs)) := by
  cases xs with
  | nil => rw [serList_single]; exact ser_goodHead hf x hw
  | cons y ys => rw [serList_cons_cons]; exact (ser_goodHead hf x hw).append _

theorem serFields_goodHead (kv : Str × JVal) (kvs : List (Str × JVal)) :
    ∃ t, serFields (kv :: kvs) = '"' :: t := by
  obtain ⟨k, v⟩ := kv
  cases kvs with
  | nil => rw [serFields_single]; exact ⟨_, rfl⟩
  | cons y ys => rw [serFields_cons_cons]; exact ⟨_, rfl⟩

theorem value_list_nonempty (f : Nat) (t : Str) (h : GoodHead t) :
    value (f + 1) ('[' :: t) = elements f t [] := by
  have hs := h.skipWs
  obtain ⟨c, t', e, _, hc, _⟩ := h
  simp only [value, beq_self_eq_true, if_true, hs]
  subst e
  split
  · rename_i h1; simp at h1; exact absurd h1.1 hc
  · rfl

theorem value_obj_nonempty (f : Nat) (t : Str) :
    value (f + 1) ('{' :: '"' :: t) = members f ('"' :: t) [] := by
  have : skipWs ('"' :: t) = '"' :: t := skipWs_cons _ (by decide)
  simp [value, this]

theorem elements_last (f : Nat) (s r' : Str) (acc : List JVal) (v : JVal)
    (h : value f s = .ok v (']' :: r')) : elements (f + 1) s acc = .ok (.list (acc ++ [v])) r' := by
  have : skipWs (']' :: r') = ']' :: r' := skipWs_cons _ (by decide)
  simp [elements, h, this]

theorem elements_comma (f : Nat) (s r' : Str) (acc : List JVal) (v : JVal)
    (h : value f s = .ok v (',' :: r')) (hg : GoodHead r') :
    elements (f + 1) s acc = elements f r' (acc ++ [v]) := by
  have : skipWs (',' :: r') = ',' :: r' := skipWs_cons _ (by decide)
  simp [elements, h, this, hg.skipWs]

theorem members_last (f : Nat) (k r1 r' : Str) (acc : List (Str × JVal)) (v : JVal)
    (hg : GoodHead r1) (h : value f r1 = .ok v ('}' :: r')) :
    members (f + 1) (quoteJSON k ++ ':' :: r1) acc = .ok (.obj (setField acc k v)) r' := by
  have a : skipWs ('}' :: r') = '}' :: r' := skipWs_cons _ (by decide)
  have b : skipWs (':' :: r1) = ':' :: r1 := skipWs_cons _ (by decide)
  simp only [quoteJSON, List.cons_append, List.append_assoc, List.nil_append, members]
  rw [stringBody_quoteBody k _ [] _ (by have := quoteBody_length k; simp; omega)]
  simp [a, b, hg.skipWs, h]

theorem members_comma (f : Nat) (k r1 r' : Str) (acc : List (Str × JVal)) (v : JVal)
    (hg : GoodHead r1) (h : value f r1 = .ok v (',' :: '"' :: r')) :
    members (f + 1) (quoteJSON k ++ ':' :: r1) acc = members f ('"' :: r') (setField acc k v) := by
  have a : skipWs (',' :: '"' :: r') = ',' :: '"' :: r' := skipWs_cons _ (by decide)
  have a' : skipWs ('"' :: r') = '"' :: r' := skipWs_cons _ (by decide)
  have b : skipWs (':' :: r1) = ':' :: r1 := skipWs_cons _ (by decide)
  simp only [quoteJSON, List.cons_append, List.append_assoc, List.nil_append, members]
  rw [stringBody_quoteBody k _ [] _ (by have := quoteBody_length k; simp; omega)]
  simp [a, a', b, hg.skipWs, h]


theorem Delim.comma (t : Str) : Delim (',' :: t) := Or.inr ⟨_, _, rfl, Or.inl rfl⟩
theorem Delim.rbrack (t : Str) : Delim (']' :: t) := Or.inr ⟨_, _, rfl, Or.inr (Or.inl rfl)⟩
theorem Delim.rbrace (t : Str) : Delim ('}' :: t) := Or.inr ⟨_, _, rfl, Or.inr (Or.inr rfl)⟩

mutual
theorem value_ser (hf : FmtContract) : (v : JVal) → v.WF → ∀ (fuel : Nat) (rest : Str),
    (ser v).length < fuel → Delim rest → value fuel (ser v ++ rest) = .ok v rest
  | .null, _, fuel, rest, hfu, _ => by
    cases fuel with
    | zero => omega
    | succ f => exact value_null f rest
  | .bool b, _, fuel, rest, hfu, _ => by
    cases fuel with
    | zero => omega
    | succ f => cases b; exact value_false f rest; exact value_true f rest
  | .int i, hw, fuel, rest, hfu, hr => by
    cases fuel with
    | zero => omega
    | succ f => exact value_int f rest i (by simpa [JVal.WF] using hw) hr
  | .float x, hw, fuel, rest, hfu, hr => by
    cases fuel with
    | zero => omega
    | succ f => exact value_float hf f rest x (by simpa [JVal.WF] using hw) hr
  | .str s, _, fuel, rest, hfu, _ => by
    cases fuel with
    | zero => omega
    | succ f => exact value_str f rest s
  | .list [], _, fuel, rest, hfu, _ => by
    cases fuel with
    | zero => omega
    | succ f => simp [ser, serList, value, skipWs, isWs]
  | .list (x :: xs), hw, fuel, rest, hfu, _ => by
    cases fuel with
    | zero => omega
    | succ f =>
      have hw' : WFList (x :: xs) := by simpa [JVal.WF] using hw
      have e : ser (.list (x :: xs)) ++ rest = '[' :: (serList (x :: xs) ++ ']' :: rest) := by simp [ser]
      rw [e, value_list_nonempty f _ ((serList_goodHead hf x xs hw'.1).append _)]
      have := elements_ser hf (x :: xs) hw' (by simp) f [] rest (by simp [ser] at hfu; omega)
      simpa using this
  | .obj [], _, fuel, rest, hfu, _ => by
    cases fuel with
    | zero => omega
    | succ f => simp [ser, serFields, value, skipWs, isWs]
  | .obj (kv :: kvs), hw, fuel, rest, hfu, _ => by
    cases fuel with
    | zero => omega
    | succ f =>
      have hw' : ((kv :: kvs).map Prod.fst).Nodup ∧ WFFields (kv :: kvs) := by simpa [JVal.WF] using hw
      obtain ⟨t, ht⟩ := serFields_goodHead kv kvs
      have e : ser (.obj (kv :: kvs)) ++ rest = '{' :: (serFields (kv :: kvs) ++ '}' :: rest) := by simp [ser]
      have := members_ser hf (kv :: kvs) hw'.2 (by simp) f [] rest (by simp [ser] at hfu; omega)
        (by simpa using hw'.1)
      rw [e]
      rw [ht] at this ⊢
      rw [List.cons_append, value_obj_nonempty, ← List.cons_append]
      simpa using this
theorem elements_ser (hf : FmtContract) : (xs : List JVal) → WFList xs → xs ≠ [] →
    ∀ (fuel : Nat) (acc : List JVal) (rest : Str), (serList xs).length + 1 < fuel →
    elements fuel (serList xs ++ ']' :: rest) acc = .ok (.list (acc ++ xs)) rest
  | [], _, h, _, _, _, _ => absurd rfl h
  | [x], hw, _, fuel, acc, rest, hfu => by
    cases fuel with
    | zero => omega
    | succ f =>
      rw [serList_single] at hfu ⊢
      exact elements_last f _ rest acc x (value_ser hf x hw.1 f _ (by omega) (Delim.rbrack _))
  | x :: y :: ys, hw, _, fuel, acc, rest, hfu => by
    cases fuel with
    | zero => omega
    | succ f =>
      rw [serList_cons_cons] at hfu ⊢
      simp only [List.length_append, List.length_cons] at hfu
      rw [List.append_assoc, List.cons_append,
        elements_comma f _ _ acc x (value_ser hf x hw.1 f _ (by omega) (Delim.comma _))
          ((serList_goodHead hf y ys hw.2.1).append _),
        elements_ser hf (y :: ys) hw.2 (by simp) f _ rest (by omega)]
      simp
theorem members_ser (hf : FmtContract) : (kvs : List (Str × JVal)) → WFFields kvs → kvs ≠ [] →
    ∀ (fuel : Nat) (acc : List (Str × JVal)) (rest : Str), (serFields kvs).length + 1 < fuel →
    ((acc ++ kvs).map Prod.fst).Nodup →
    members fuel (serFields kvs ++ '}' :: rest) acc = .ok (.obj (acc ++ kvs)) rest
  | [], _, h, _, _, _, _, _ => absurd rfl h
  | [(k, v)], hw, _, fuel, acc, rest, hfu, hnd => by
    cases fuel with
    | zero => omega
    | succ f =>
      rw [serFields_single] at hfu ⊢
      simp only [List.length_append, List.length_cons] at hfu
      have hk : k ∉ acc.map Prod.fst := by
        simp only [List.map_append, List.map_cons, List.map_nil] at hnd
        have := (List.nodup_append.mp hnd).2.2
        intro hm; exact this k hm k (by simp) rfl
      rw [List.append_assoc, List.cons_append,
        members_last f k _ rest acc v ((ser_goodHead hf v hw.1).append _)
          (value_ser hf v hw.1 f _ (by omega) (Delim.rbrace _)),
        setField_append acc k v hk]
  | (k, v) :: kv :: kvs, hw, _, fuel, acc, rest, hfu, hnd => by
    cases fuel with
    | zero => omega
    | succ f =>
      rw [serFields_cons_cons] at hfu ⊢
      simp only [List.length_append, List.length_cons] at hfu
      have hk : k ∉ acc.map Prod.fst := by
        simp only [List.map_append, List.map_cons] at hnd
        have := (List.nodup_append.mp hnd).2.2
        intro hm; exact this k hm k (by simp) rfl
      obtain ⟨t, ht⟩ := serFields_goodHead kv kvs
      have hv := value_ser hf v hw.1 f (',' :: (serFields (kv :: kvs) ++ '}' :: rest)) (by omega) (Delim.comma _)
      have hm := members_ser hf (kv :: kvs) hw.2 (by simp) f (acc ++ [(k, v)]) rest (by omega)
        (by simpa using hnd)
      rw [ht] at hv hm
      rw [ht]
      simp only [List.append_assoc, List.cons_append] at hv hm ⊢
      rw [members_comma f k _ _ acc v ((ser_goodHead hf v hw.1).append _) hv,
        setField_append acc k v hk, hm]
      simp
end

end Strict
end Anytype
