/-
Strict decoder vs. lenient parser, part 4: the restriction on the length of number literals is
necessary.  `strconv.ParseFloat` (`readExpDigits`, as in Go: `if e < 10000 { e = e*10 + … }`) stops
accumulating exponent digits at 10000, so it reads the exponent `e-100000` as -10000; on a literal
with 10000 integer digits the two readers return different floats (and only the strict one is
correctly rounded).
-/
import Anytype.Lemmas.StrictVsParserStruct
namespace Anytype
namespace SVP
open Strict RT

/-! ### arithmetic facts -/

theorem dval_zeros (n x : Nat) : dval (List.replicate n '0') x = x * 10 ^ n := by
  induction n generalizing x with
  | zero => simp [dval]
  | succ n ih =>
    rw [List.replicate_succ, dval_cons, ih, Nat.pow_succ]
    have : '0'.toNat - 48 = 0 := by decide
    rw [this, Nat.add_zero, Nat.mul_assoc, Nat.mul_comm 10]

theorem decLen_pow10 (n : Nat) : F64.decLen (10 ^ n) = n + 1 := by
  induction n with
  | zero => decide
  | succ n ih =>
    have h1 : 10 ≤ 10 ^ (n + 1) := by
      have := pow10_pos n
      rw [Nat.pow_succ]; omega
    have h2 : 10 ^ (n + 1) / 10 = 10 ^ n := by
      rw [Nat.pow_succ, Nat.mul_div_cancel _ (by decide)]
    unfold F64.decLen at ih ⊢
    rw [Nat.toDigits_of_base_le (by decide) h1, List.length_append, h2, ih]
    rfl

theorem roundPos_self (n : Nat) (hn : 0 < n) : F64.roundPos n n = some F64.one.bits := by
  have hn0 : n ≠ 0 := by omega
  have hq0 : n * 2 ^ 53 / n = 2 ^ 53 := Nat.mul_div_cancel_left _ hn
  have hq1 : n * 2 ^ 52 / n = 2 ^ 52 := Nat.mul_div_cancel_left _ hn
  have hmod : n * 2 ^ 52 % n = 0 := Nat.mul_mod_right _ _
  rw [roundPos_eq]
  unfold roundPos'
  rw [if_neg hn0]
  have e0 : ((F64.bitLen n : Nat) : Int) - ((F64.bitLen n : Nat) : Int) - 53 = -53 := by omega
  simp only [e0]
  have s0 : F64.scaled n n (-53) = (n * 2 ^ 53, n) := by simp [F64.scaled]
  have a0 : adj (n * 2 ^ 53 / n) (-53) = -52 := by rw [hq0]; decide
  simp only [s0, a0]
  have s1 : F64.scaled n n (-52) = (n * 2 ^ 52, n) := by simp [F64.scaled]
  have a1 : adj (n * 2 ^ 52 / n) (-52) = -52 := by rw [hq1]; decide
  simp only [s1, a1]
  rw [if_neg (by decide)]
  unfold rpFinish
  simp only [s1, hq1, hmod]
  rw [if_neg (by omega), if_pos (by omega)]
  decide

theorem goFinal_pow10_one (n : Nat) (e : Int) (he : e = -(n : Int)) :
    goFinal false (10 ^ n) 0 e = some (some F64.one) := by
  have hm := pow10_pos n
  have hd := decLen_pow10 n
  subst he
  unfold goFinal decTail
  rw [if_neg (by omega)]
  simp only []
  rw [if_neg (by omega), if_neg (by omega)]
  by_cases h0 : n = 0
  · subst h0
    simp [F64.roundRat, roundPos_self 1 (by decide), F64.withSign, F64.one]
  · have hneg : ¬ (-(n : Int) - ((0 : Nat) : Int) ≥ 0) := by omega
    have ht : (-(-(n : Int) - ((0 : Nat) : Int))).toNat = n := by omega
    simp only [hneg, if_false, ht]
    simp [F64.roundRat, roundPos_self _ hm, F64.withSign, F64.one]

theorem goFinal_pow10_zero (n : Nat) (e : Int) (he : e + n + 1 < -400) :
    goFinal false (10 ^ n) 0 e = some (some F64.posZero) := by
  have hm := pow10_pos n
  have hd := decLen_pow10 n
  unfold goFinal decTail
  rw [if_neg (by omega)]
  simp only []
  rw [if_neg (by omega), if_pos (by omega)]
  rfl

/-- the literal `1` followed by `n` zeros and the exponent `e-100000` -/
def capLit (n : Nat) : Str := '1' :: List.replicate n '0' ++ ['e', '-', '1', '0', '0', '0', '0', '0']

def capExp : Str := ['e', '-', '1', '0', '0', '0', '0', '0']

theorem capLit_eq (n : Nat) : capLit n = numText false ('1' :: List.replicate n '0') [] false capExp := by
  simp [capLit, numText, capExp]

theorem zeros_digits (n : Nat) : ∀ c ∈ '1' :: List.replicate n '0', F64.isDigit c = true := by
  intro c hc
  rcases List.mem_cons.mp hc with rfl | hc
  · decide
  · rw [List.eq_of_mem_replicate hc]; decide

theorem capExp_text : ExpText capExp (some (-1 * (capS ['1', '0', '0', '0', '0', '0'] : Int))) :=
  .inr ⟨'e', ['-'], ['1', '0', '0', '0', '0', '0'], -1, rfl, .inl rfl, .inr (.inr ⟨rfl, rfl⟩), by simp,
    by decide, rfl⟩

theorem capS_val : capS ['1', '0', '0', '0', '0', '0'] = 100000 := by decide

theorem fExp_capExp : fExp false 'e' capExp = some (-10000, []) := by decide

theorem dval_capIp (n : Nat) : dval ('1' :: List.replicate n '0' ++ []) 0 = 10 ^ n := by
  rw [List.append_nil, dval_cons, dval_zeros]
  have : 0 * 10 + ('1'.toNat - 48) = 1 := by decide
  rw [this, Nat.one_mul]

/-- Go side: the exponent is capped at 10000, so with 10000 zeros the value read is 1 -/
theorem parseField_capLit (n : Nat) (hn : n = 10000) (line : Nat) :
    parseField (capLit n) line = .ok (.float F64.one) := by
  have hip := zeros_digits n
  have hz : ('1' : Char) = '0' → List.replicate n '0' = [] := by intro h; exact absurd h (by decide)
  have hcore := parseFloatCore_prim false '1' (List.replicate n '0') [] false capExp (-10000) hip hz
    (by simp) (by simp) capExp_text.stop capExp_text.numChars fExp_capExp
  rw [dval_capIp, List.length_nil, goFinal_pow10_one n (-10000) (by omega)] at hcore
  have hpf : F64.parseFloat (capLit n) = some F64.one := by
    apply parseFloat_of_core
    · have := parseSpecial_numText false '1' (List.replicate n '0' ++ capExp) (by decide)
      simpa [capLit, capExp] using this
    · rw [capLit_eq]; exact hcore
  have hint : parseIntBase0 (capLit n) = none := by
    have h1 := parseIntBase0_signed false '1' (List.replicate n '0' ++ capExp) (by decide)
    have h2 := parseUintBase0_bad '1' (List.replicate n '0') 'e' ['-', '1', '0', '0', '0', '0', '0'] hip hz
      (.inr (.inl rfl))
    simp only [Bool.false_eq_true, if_false, List.nil_append] at h1
    have e : capLit n = '1' :: (List.replicate n '0' ++ capExp) := by simp [capLit, capExp]
    rw [e, h1]
    rw [List.cons_append] at h2
    simp only [capExp, h2]
    rfl
  have hnull : (capLit n == ['n', 'u', 'l', 'l']) = false := by simp [capLit]
  unfold parseField
  rw [hnull, hint, hpf]
  simp

/-- strict side: the exponent -100000 makes the value zero -/
theorem number_capLit (n : Nat) (hn : n = 10000) :
    number (capLit n) = some (some (.float F64.posZero), []) := by
  have hip := zeros_digits n
  rw [number_eq]
  unfold number'
  have h1 : signSplit (capLit n) = (false, capLit n) := by
    unfold signSplit capLit; split
    · rename_i h; simp at h
    · rfl
  have h2 : takeDigits (capLit n) = ('1' :: List.replicate n '0', capExp) := by
    have : capLit n = ('1' :: List.replicate n '0') ++ capExp := by simp [capLit, capExp]
    rw [this]
    generalize '1' :: List.replicate n '0' = ds at hip ⊢
    induction ds with
    | nil => decide
    | cons c ds ih =>
      simp only [List.cons_append, takeDigits, hip c (by simp), if_true, ih (fun d hd => hip d (by simp [hd]))]
  have h3 : fracSplit capExp = ([], capExp, false) := by decide
  have h4 : expSplit capExp = some (some (-100000), []) := by decide
  simp only [h1, h2, h3, h4]
  have hnf := numFinal_float false ('1' :: List.replicate n '0') [] false (some (-100000)) [] (by simp)
  have hgo : goFinal false (dval ('1' :: List.replicate n '0' ++ []) 0) ([] : Str).length ((some (-100000 : Int)).getD 0) =
      some (some F64.posZero) := by
    rw [dval_capIp]
    exact goFinal_pow10_zero n _ (by simp; omega)
  rw [hgo] at hnf
  simp [hnf]

/-- the document `[1000…0e-100000]` with `n` zeros -/
def capDoc (n : Nat) : Str := '[' :: capLit n ++ [']']

theorem capDoc_length (n : Nat) : (capDoc n).length = n + 11 := by
  simp [capDoc, capLit]

theorem capLit_numLike (n : Nat) : NumLike (capLit n) := by
  refine ⟨by simp [capLit], ?_⟩
  rw [capLit_eq]
  exact numText_numChars false _ [] false capExp _ (zeros_digits n) (by simp) capExp_text

theorem decode_capDoc (n : Nat) (hn : n = 10000) :
    decode (capDoc n) = .ok (.list [.float F64.posZero]) [] := by
  have hnl := capLit_numLike n
  have hnum : number (capLit n ++ [']']) = some (some (.float F64.posZero), [']']) :=
    number_append _ _ _ (number_capLit n hn) (Delim.rbrack []).numStop
  obtain ⟨f, hf⟩ : ∃ f, (capDoc n).length + 1 = (f + 1) + 1 + 1 := ⟨(capDoc n).length - 2, by simp [capDoc, capLit]⟩
  have hv := value_numLike (capLit n) [']'] f hnl _ _ hnum
  have he := elements_last (f + 1) (capLit n ++ [']']) [] [] _ hv
  have hl := value_list_nonempty (f + 1 + 1) (capLit n ++ [']']) ((numLike_goodHead hnl).append _)
  have hs : skipWs (capDoc n) = capDoc n := skipWs_cons _ (by decide)
  unfold decode
  rw [hs, hf]
  unfold capDoc
  rw [List.cons_append, hl, he]
  simp [skipWs]

theorem parseList_capDoc (n : Nat) (hn : n = 10000) :
    parseListBytes (encode (capDoc n)) = .ok (.list [.float F64.one]) := by
  have hnl := capLit_numLike n
  have hrun : LRun (I (capLit n) ++ some ']' :: []) .val [] [] false 1
      (.ok (.list ([] ++ [.float F64.one])) [] 1) := by
    cases e : capLit n with
    | nil => exact absurd e hnl.1
    | cons c t =>
      have hp : ∀ d ∈ c :: t, PlainChar d := fun d hd => plain_of_numChar (hnl.2 d (e ▸ hd))
      apply LRun_val_plain (fun d hd => hp d (by simp [hd])) (hp c (by simp))
      apply LRun_val_close (by simp)
      rw [List.nil_append, ← e]
      exact parseField_capLit n hn 1
  have he : encode (capDoc n) = 0x5B :: encode (capLit n ++ [']']) := by
    unfold capDoc; rw [List.cons_append, encode_cons]; rfl
  unfold parseListBytes
  rw [he]
  simp only [splitAtByte, beq_self_eq_true, if_true]
  have hr : runList (encode (capLit n ++ [']'])) (countNL [] + 1) = .ok (.list [.float F64.one]) [] 1 := by
    unfold runList
    simp only [decodeAll_encode]
    have : List.map some (capLit n ++ [']']) = I (capLit n) ++ some ']' :: [] := by simp [I]
    rw [this]
    exact hrun _ (by omega)
  simp only [hr]

/-- **the restriction on the length of number literals cannot be dropped**: on the 10 011-character
document `[1000…0e-100000]` (10000 zeros; true value 1e-90000, which rounds to 0) the strict
decoder answers `[0.0]` and `ParseList` answers `[1.0]` -/
theorem cap_disagreement :
    ∃ s : Str, s.length = 10011 ∧ decode s = .ok (.list [.float F64.posZero]) [] ∧
      parseListBytes (encode s) = .ok (.list [.float F64.one]) :=
  ⟨capDoc 10000, capDoc_length _, decode_capDoc _ rfl, parseList_capDoc _ rfl⟩

end SVP
end Anytype
