/-
Strict decoder vs. lenient parser, part 5: an executable exact comparison of value trees, used to
state the non-vacuity examples of C03 (`JVal` has no `DecidableEq`; the kernel evaluates the
checker on concrete documents).
-/
import Anytype.Lemmas.StrictVsParserCap
namespace Anytype
namespace SVP

mutual
/-- exact structural equality of value trees (floats by bit pattern) -/
def beqJ : JVal → JVal → Bool
  | .null, .null => true
  | .bool a, .bool b => a == b
  | .int a, .int b => a == b
  | .float a, .float b => a.bits == b.bits
  | .str a, .str b => a == b
  | .list xs, .list ys => beqL xs ys
  | .obj a, .obj b => beqF a b
  | _, _ => false
def beqL : List JVal → List JVal → Bool
  | [], [] => true
  | x :: xs, y :: ys => beqJ x y && beqL xs ys
  | _, _ => false
def beqF : List (Str × JVal) → List (Str × JVal) → Bool
  | [], [] => true
  | (k, v) :: a, (k', v') :: b => k == k' && beqJ v v' && beqF a b
  | _, _ => false
end

mutual
theorem beqJ_sound : ∀ (a b : JVal), beqJ a b = true → a = b
  | .null, b, h => by cases b <;> simp [beqJ] at h ⊢
  | .bool x, b, h => by cases b <;> simp [beqJ] at h ⊢; exact h
  | .int x, b, h => by cases b <;> simp [beqJ] at h ⊢; exact h
  | .float x, b, h => by
    cases b <;> simp [beqJ] at h ⊢
    rename_i y; cases x; cases y; simp at h ⊢; exact h
  | .str x, b, h => by cases b <;> simp [beqJ] at h ⊢; exact h
  | .list xs, b, h => by
    cases b <;> simp [beqJ] at h ⊢
    exact beqL_sound xs _ h
  | .obj xs, b, h => by
    cases b <;> simp [beqJ] at h ⊢
    exact beqF_sound xs _ h
theorem beqL_sound : ∀ (a b : List JVal), beqL a b = true → a = b
  | [], b, h => by cases b <;> simp [beqL] at h ⊢
  | x :: xs, b, h => by
    cases b with
    | nil => simp [beqL] at h
    | cons y ys =>
      simp [beqL] at h
      rw [beqJ_sound x y h.1, beqL_sound xs ys h.2]
theorem beqF_sound : ∀ (a b : List (Str × JVal)), beqF a b = true → a = b
  | [], b, h => by cases b <;> simp [beqF] at h ⊢
  | (k, v) :: xs, b, h => by
    cases b with
    | nil => simp [beqF] at h
    | cons y ys =>
      obtain ⟨k', v'⟩ := y
      simp [beqF] at h
      rw [h.1.1, beqJ_sound v v' h.1.2, beqF_sound xs ys h.2]
end

/-- executable form of `Strict.decode s = .ok v []` -/
def decodesTo (s : Str) (v : JVal) : Bool :=
  match Strict.decode s with
  | .ok w [] => beqJ w v
  | _ => false

theorem decodesTo_sound {s : Str} {v : JVal} (h : decodesTo s v = true) : Strict.decode s = .ok v [] := by
  unfold decodesTo at h
  split at h
  · rename_i w hw
    rw [hw, beqJ_sound w v h]
  · cases h

/-- executable form of `Strict.number s = some (some v, rest)` -/
def numberIs (s : Str) (v : JVal) (rest : Str) : Bool :=
  match Strict.number s with
  | some (some w, r) => beqJ w v && r == rest
  | _ => false

theorem numberIs_sound {s : Str} {v : JVal} {rest : Str} (h : numberIs s v rest = true) :
    Strict.number s = some (some v, rest) := by
  unfold numberIs at h
  split at h
  · rename_i w r hw
    simp at h
    rw [hw, beqJ_sound w v h.1, h.2]
  · cases h

end SVP
end Anytype
